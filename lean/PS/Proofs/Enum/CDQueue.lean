/- The structural contract of the bucketed queue (PS/Model/Enum/CDQueue.lean), for EVERY arithmetic
   (hence for the IEEE doubles of the implementation): the counters agree with the content, `push`
   adds exactly the index tuples of its argument, `pop` removes exactly the CostTuple it returns,
   `peek` announces the next `pop`, `update` does not touch the content. -/
import PS.Model.Enum.CDQueue
namespace PS.CD
variable {α : Type}

/-- the counters of a cell agree with its content: a nested cell `[n, cells]` holds `n ≥ 2`
    CostTuples -/
inductive WFCell : Cell α → Prop
  | empty : WFCell .empty
  | leaf (ct : CT α) : WFCell (.leaf ct)
  | node (n : Nat) (sub : List (Cell α)) : (∀ c ∈ sub, WFCell c) → n = (tuplesList sub).length → 2 ≤ n →
      WFCell (.node n sub)

theorem tuplesList_nil : tuplesList ([] : List (Cell α)) = [] := by simp [tuplesList]
theorem tuplesList_cons (c : Cell α) (r : List (Cell α)) : tuplesList (c :: r) = c.tuples ++ tuplesList r := by
  simp [tuplesList]
theorem tuples_empty : (Cell.empty : Cell α).tuples = [] := by simp [Cell.tuples]
theorem tuples_leaf (ct : CT α) : (Cell.leaf ct).tuples = [ct] := by simp [Cell.tuples]
theorem tuples_node (n : Nat) (sub : List (Cell α)) : (Cell.node n sub).tuples = tuplesList sub := by
  simp [Cell.tuples]

theorem tuplesList_append (a b : List (Cell α)) : tuplesList (a ++ b) = tuplesList a ++ tuplesList b := by
  induction a with
  | nil => simp [tuplesList_nil]
  | cons x xs ih => simp [tuplesList_cons, ih]

theorem tuplesList_replicate_empty (k : Nat) : tuplesList (List.replicate k (Cell.empty : Cell α)) = [] := by
  induction k with
  | zero => simp [tuplesList_nil]
  | succ n ih => simp [List.replicate_succ, tuplesList_cons, tuples_empty, ih]

/-- the content around position `i` -/
theorem tuplesList_split {cells : List (Cell α)} {i : Nat} {c : Cell α} (h : cells[i]? = some c) (c' : Cell α) :
    ∃ A B, tuplesList cells = A ++ c.tuples ++ B ∧ tuplesList (cells.set i c') = A ++ c'.tuples ++ B := by
  induction cells generalizing i with
  | nil => simp at h
  | cons x xs ih =>
    cases i with
    | zero =>
      simp only [List.getElem?_cons_zero, Option.some.injEq] at h
      subst h
      exact ⟨[], tuplesList xs, by simp [tuplesList_cons], by simp [tuplesList_cons]⟩
    | succ j =>
      simp only [List.getElem?_cons_succ] at h
      obtain ⟨A, B, h1, h2⟩ := ih h
      exact ⟨x.tuples ++ A, B, by simp [tuplesList_cons, h1], by simp [tuplesList_cons, h2]⟩

theorem wf_set {cells : List (Cell α)} (h : ∀ c ∈ cells, WFCell c) (i : Nat) {c' : Cell α} (hc : WFCell c') :
    ∀ c ∈ cells.set i c', WFCell c := by
  intro c hm
  rcases List.mem_or_eq_of_mem_set hm with h1 | h1
  · exact h c h1
  · subst h1; exact hc

theorem wf_replicate (k : Nat) : ∀ c ∈ List.replicate k (Cell.empty : Cell α), WFCell c := by
  intro c hc
  rw [List.mem_replicate] at hc
  rw [hc.2]; exact .empty

/-- the index tuples stored below a list of cells -/
def contentsList (cells : List (Cell α)) : List (List Nat) := (tuplesList cells).flatMap (·.combs)

/-! ### `__push__` -/

/-- what `__push__` does to the list of stored CostTuples: it adds `e` (`added = true`), or it
    appends the index tuples of `e` to one stored CostTuple whose cost is kept (`added = false`) -/
def PushRel (Ar : Arith α) (e : CT α) (old new : List (CT α)) : Bool → Prop
  | true => new.Perm (e :: old)
  | false => ∃ A B val, old = A ++ val :: B ∧ new = A ++ { val with combs := val.combs ++ e.combs } :: B ∧
      Ar.lt (Ar.ofInt 1) (Ar.abs (Ar.sub val.cost e.cost)) = false

theorem pushRel_contents {Ar : Arith α} {e : CT α} {old new : List (CT α)} {added : Bool} (h : PushRel Ar e old new added) :
    (new.flatMap (·.combs)).Perm (old.flatMap (·.combs) ++ e.combs) := by
  cases added with
  | true =>
    have := List.Perm.flatMap_right (fun (c : CT α) => c.combs) h
    refine this.trans ?_
    simp only [List.flatMap_cons]
    exact List.perm_append_comm
  | false =>
    obtain ⟨A, B, val, h1, h2, _⟩ := h
    subst h1; subst h2
    simp only [List.flatMap_append, List.flatMap_cons, List.append_assoc]
    refine List.Perm.append_left _ ?_
    refine List.Perm.append_left _ ?_
    exact List.perm_append_comm

theorem pushRel_length {Ar : Arith α} {e : CT α} {old new : List (CT α)} {added : Bool} (h : PushRel Ar e old new added) :
    new.length = old.length + (if added then 1 else 0) := by
  cases added with
  | true => simpa using h.length_eq
  | false =>
    obtain ⟨A, B, val, h1, h2, _⟩ := h
    subst h1; subst h2; simp

/-- lift a change inside one cell to the whole list -/
theorem pushRel_lift {Ar : Arith α} {e : CT α} {A B old new : List (CT α)} {added : Bool} (h : PushRel Ar e old new added) :
    PushRel Ar e (A ++ old ++ B) (A ++ new ++ B) added := by
  cases added with
  | true =>
    have h1 : (A ++ new ++ B).Perm (A ++ (e :: old) ++ B) := (List.Perm.append_left A h).append_right B
    refine h1.trans ?_
    simp only [List.append_assoc, List.cons_append]
    exact List.perm_middle
  | false =>
    obtain ⟨A', B', val, h1, h2, h3⟩ := h
    subst h1; subst h2
    exact ⟨A ++ A', B' ++ B, val, by simp, by simp, h3⟩

/-- the first inner `__push__(val, …, add=False)` of a split: into fresh cells -/
theorem pushCells_fresh (A : Arith α) (k f : Nat) (val : CT α) (c m : α) (r : List (Cell α)) (b : Bool)
    (h : pushCells A k f val c m (List.replicate k .empty) 0 = some (r, b)) :
    b = true ∧ ∀ x ∈ r, x = .empty ∨ x = .leaf val := by
  cases f with
  | zero => simp [pushCells] at h
  | succ f =>
    simp only [pushCells] at h
    split at h
    · simp at h
    · split at h
      · simp at h
      · simp only [Option.some.injEq, Prod.mk.injEq] at h
        refine ⟨h.2.symm, ?_⟩
        intro x hx
        rw [← h.1] at hx
        rcases List.mem_or_eq_of_mem_set hx with h1 | h1
        · left; exact (List.mem_replicate.mp h1).2
        · right; exact h1
      · rename_i v hget
        have := List.mem_of_getElem? hget
        rw [List.mem_replicate] at this
        cases this.2
      · rename_i n sub hget
        have := List.mem_of_getElem? hget
        rw [List.mem_replicate] at this
        cases this.2

/-- the second inner `__push__(element, …, add=False)` of a split never merges: the cells hold
    `val` only and the test `abs(val.cost - element.cost) > 1` has just succeeded -/
theorem pushCells_far (A : Arith α) (k f : Nat) (e val : CT α) (c m : α) (cells : List (Cell α)) (tr : Nat)
    (r : List (Cell α)) (b : Bool) (hcells : ∀ x ∈ cells, x = .empty ∨ x = .leaf val)
    (hfar : A.lt (A.ofInt 1) (A.abs (A.sub val.cost e.cost)) = true)
    (h : pushCells A k f e c m cells tr = some (r, b)) : b = true := by
  cases f with
  | zero => simp [pushCells] at h
  | succ f =>
    simp only [pushCells] at h
    split at h
    · simp at h
    · split at h
      · simp at h
      · simp only [Option.some.injEq, Prod.mk.injEq] at h
        exact h.2.symm
      · rename_i v hget
        have hv : v = val := by
          rcases hcells _ (List.mem_of_getElem? hget) with h1 | h1
          · cases h1
          · cases h1; rfl
        subst hv
        simp only [hfar, if_true] at h
        split at h
        · simp at h
        · split at h
          · simp at h
          · simp only [Option.some.injEq, Prod.mk.injEq] at h
            exact h.2.symm
      · rename_i n sub hget
        rcases hcells _ (List.mem_of_getElem? hget) with h1 | h1 <;> cases h1

theorem pushCells_spec (A : Arith α) (k : Nat) :
    ∀ (f : Nat) (e : CT α) (cost maxi : α) (cells : List (Cell α)) (tr : Nat) (cells' : List (Cell α)) (added : Bool),
      pushCells A k f e cost maxi cells tr = some (cells', added) → (∀ c ∈ cells, WFCell c) →
      (∀ c ∈ cells', WFCell c) ∧ cells'.length = cells.length ∧
      PushRel A e (tuplesList cells) (tuplesList cells') added := by
  intro f
  induction f with
  | zero => intro e cost maxi cells tr cells' added h; simp [pushCells] at h
  | succ f ih =>
    intro e cost maxi cells tr cells' added h hwf
    simp only [pushCells] at h
    split at h
    · simp at h
    · split at h
      · simp at h
      · -- empty cell
        rename_i hget
        simp only [Option.some.injEq, Prod.mk.injEq] at h
        obtain ⟨h1, h2⟩ := h
        subst h1; subst h2
        refine ⟨wf_set hwf _ (.leaf e), by simp, ?_⟩
        obtain ⟨X, Y, hx, hy⟩ := tuplesList_split hget (.leaf e)
        rw [hx, hy]
        simp only [tuples_empty, tuples_leaf, List.append_nil]
        show (X ++ [e] ++ Y).Perm (e :: (X ++ Y))
        simp only [List.append_assoc, List.singleton_append]
        exact List.perm_middle
      · -- a leaf
        rename_i val hget
        split at h
        · -- split into a nested cell
          split at h
          · simp at h
          · rename_i sub1 b1 h1
            split at h
            · simp at h
            · rename_i sub2 b2 h2
              simp only [Option.some.injEq, Prod.mk.injEq] at h
              obtain ⟨h3, h4⟩ := h
              subst h3; subst h4
              obtain ⟨w1, l1, r1⟩ := ih _ _ _ _ _ _ _ h1 (wf_replicate k)
              obtain ⟨w2, l2, r2⟩ := ih _ _ _ _ _ _ _ h2 w1
              have len1 := pushRel_length r1
              have len2 := pushRel_length r2
              rw [tuplesList_replicate_empty] at len1
              have hb1 : b1 = true := (pushCells_fresh A k f val _ _ sub1 b1 h1).1
              subst hb1
              -- the nested cell holds `val` and `e`
              obtain ⟨X, Y, hx, hy⟩ := tuplesList_split hget (.node 2 sub2)
              have hperm1 : (tuplesList sub1).Perm [val] := by
                have : (tuplesList sub1).Perm (val :: tuplesList (List.replicate k Cell.empty)) := r1
                rwa [tuplesList_replicate_empty] at this
              have hb2 : b2 = true :=
                pushCells_far A k f e val _ _ sub1 0 sub2 b2 (pushCells_fresh A k f val _ _ sub1 true h1).2 ‹_› h2
              subst hb2
              · have hperm2 : (tuplesList sub2).Perm [e, val] := by
                  have : (tuplesList sub2).Perm (e :: tuplesList sub1) := r2
                  exact this.trans (List.Perm.cons e hperm1)
                refine ⟨wf_set hwf _ (.node 2 sub2 w2 ?_ (by omega)), by simp, ?_⟩
                · simp at len1 len2; omega
                · rw [hx, hy]
                  simp only [tuples_leaf, tuples_node]
                  show (X ++ tuplesList sub2 ++ Y).Perm (e :: (X ++ [val] ++ Y))
                  have : (X ++ tuplesList sub2 ++ Y).Perm (X ++ [e, val] ++ Y) :=
                    (List.Perm.append_left X hperm2).append_right Y
                  refine this.trans ?_
                  simp only [List.append_assoc, List.cons_append, List.nil_append]
                  exact List.perm_middle
        · -- merge
          simp only [Option.some.injEq, Prod.mk.injEq] at h
          obtain ⟨h1, h2⟩ := h
          subst h1; subst h2
          refine ⟨wf_set hwf _ (.leaf _), by simp, ?_⟩
          obtain ⟨X, Y, hx, hy⟩ := tuplesList_split hget (.leaf { val with combs := val.combs ++ e.combs })
          rw [hx, hy]
          simp only [tuples_leaf]
          exact ⟨X, Y, val, by simp, by simp, by simpa using ‹¬ A.lt (A.ofInt 1) (A.abs (A.sub val.cost e.cost)) = true›⟩
      · -- a nested cell
        rename_i n sub hget
        split at h
        · simp at h
        · rename_i sub' added' h1
          simp only [Option.some.injEq, Prod.mk.injEq] at h
          obtain ⟨h2, h3⟩ := h
          subst h2; subst h3
          have hc : WFCell (.node n sub) := hwf _ (List.mem_of_getElem? hget)
          cases hc with
          | node _ _ hs hn h2 =>
            obtain ⟨w1, l1, r1⟩ := ih _ _ _ _ _ _ _ h1 hs
            have len1 := pushRel_length r1
            refine ⟨wf_set hwf _ (.node _ sub' w1 ?_ ?_), by simp, ?_⟩
            · rw [len1, ← hn]; split <;> simp_all
            · split <;> omega
            · obtain ⟨X, Y, hx, hy⟩ := tuplesList_split hget (.node (if added' = true then n + 1 else n) sub')
              rw [hx, hy]
              simp only [tuples_node]
              exact pushRel_lift r1

/-! ### `__peek__` / `__pop__` + `__cleanup__` -/

theorem head?_append_of_ne_nil {β : Type} {a b : List β} (h : a ≠ []) : (a ++ b).head? = a.head? := by
  cases a with
  | nil => exact absurd rfl h
  | cons x xs => rfl

mutual
  theorem firstCell_spec : ∀ (c : Cell α), WFCell c → firstCell c = c.tuples.head?
    | .empty, _ => by simp [firstCell, tuples_empty]
    | .leaf ct, _ => by simp [firstCell, tuples_leaf]
    | .node n sub, h => by
      cases h with
      | node _ _ hs hn h2 =>
        have : ¬ n ≤ 1 := by omega
        simp only [firstCell, this, if_false, tuples_node]
        exact firstList_spec sub hs
  theorem firstList_spec : ∀ (l : List (Cell α)), (∀ c ∈ l, WFCell c) → firstList l = (tuplesList l).head?
    | [], _ => by simp [firstList, tuplesList_nil]
    | .empty :: rest, h => by
      simp only [firstList, tuplesList_cons, tuples_empty, List.nil_append]
      exact firstList_spec rest (fun c hc => h c (List.mem_cons_of_mem _ hc))
    | .leaf ct :: rest, _ => by simp [firstList, tuplesList_cons, tuples_leaf]
    | .node n sub :: rest, h => by
      have hc := h _ (List.mem_cons_self)
      cases hc with
      | node _ _ hs hn h2 =>
        have : ¬ n ≤ 1 := by omega
        simp only [firstList, firstCell, this, if_false, tuplesList_cons, tuples_node]
        rw [head?_append_of_ne_nil (by intro h0; rw [h0] at hn; simp at hn; omega)]
        exact firstList_spec sub hs
end

mutual
  /-- `pop` removes the first CostTuple in cell order and keeps the others in place -/
  theorem popCell_spec : ∀ (c : Cell α) (p : CT α) (c' : Cell α), WFCell c → popCell c = some (p, c') →
      WFCell c' ∧ c.tuples = p :: c'.tuples
    | .empty, _, _, _, h => by simp [popCell] at h
    | .leaf ct, p, c', _, h => by
      simp only [popCell, Option.some.injEq, Prod.mk.injEq] at h
      obtain ⟨h1, h2⟩ := h
      subst h1; subst h2
      exact ⟨.empty, by simp [tuples_leaf, tuples_empty]⟩
    | .node n sub, p, c', hw, h => by
      cases hw with
      | node _ _ hs hn h2 =>
        have hn1 : ¬ n ≤ 1 := by omega
        simp only [popCell, hn1, if_false] at h
        split at h
        · simp at h
        · rename_i p1 sub' hp
          obtain ⟨w1, t1, l1⟩ := popList_spec sub p1 sub' hs hp
          split at h
          · rename_i hn2
            split at h
            · simp at h
            · rename_i r hr
              simp only [Option.some.injEq, Prod.mk.injEq] at h
              obtain ⟨h3, h4⟩ := h
              subst h3; subst h4
              refine ⟨.leaf r, ?_⟩
              rw [firstList_spec sub' w1] at hr
              have hlen : (tuplesList sub').length = 1 := by
                have := congrArg List.length t1
                simp at this; omega
              simp only [tuples_node, tuples_leaf, t1]
              congr 1
              match hts : tuplesList sub', hlen, hr with
              | [x], _, hr => simp at hr; rw [hr]
          · simp only [Option.some.injEq, Prod.mk.injEq] at h
            obtain ⟨h3, h4⟩ := h
            subst h3; subst h4
            have := congrArg List.length t1
            simp at this
            exact ⟨.node _ _ w1 (by omega) (by omega), by simp [tuples_node, t1]⟩
  theorem popList_spec : ∀ (l : List (Cell α)) (p : CT α) (l' : List (Cell α)), (∀ c ∈ l, WFCell c) →
      popList l = some (p, l') → (∀ c ∈ l', WFCell c) ∧ tuplesList l = p :: tuplesList l' ∧ l'.length = l.length
    | [], _, _, _, h => by simp [popList] at h
    | .empty :: rest, p, l', hw, h => by
      simp only [popList] at h
      split at h
      · simp at h
      · rename_i p1 rest' hp
        simp only [Option.some.injEq, Prod.mk.injEq] at h
        obtain ⟨h3, h4⟩ := h
        subst h3; subst h4
        obtain ⟨w1, t1, l1⟩ := popList_spec rest p1 rest' (fun c hc => hw c (List.mem_cons_of_mem _ hc)) hp
        refine ⟨?_, by simp [tuplesList_cons, tuples_empty, t1], by simp [l1]⟩
        intro c hc
        rcases List.mem_cons.mp hc with h1 | h1
        · subst h1; exact .empty
        · exact w1 c h1
    | .leaf ct :: rest, p, l', hw, h => by
      simp only [popList, Option.some.injEq, Prod.mk.injEq] at h
      obtain ⟨h3, h4⟩ := h
      subst h3; subst h4
      refine ⟨?_, by simp [tuplesList_cons, tuples_empty, tuples_leaf], by simp⟩
      intro c hc
      rcases List.mem_cons.mp hc with h1 | h1
      · subst h1; exact .empty
      · exact hw c (List.mem_cons_of_mem _ h1)
    | .node n sub :: rest, p, l', hw, h => by
      simp only [popList] at h
      split at h
      · simp at h
      · rename_i p1 c1 hp
        simp only [Option.some.injEq, Prod.mk.injEq] at h
        obtain ⟨h3, h4⟩ := h
        subst h3; subst h4
        obtain ⟨w1, t1⟩ := popCell_spec (.node n sub) p1 c1 (hw _ List.mem_cons_self) hp
        refine ⟨?_, by simp [tuplesList_cons, t1], by simp⟩
        intro c hc
        rcases List.mem_cons.mp hc with h1 | h1
        · subst h1; exact w1
        · exact hw c (List.mem_cons_of_mem _ h1)
end

/-- `__pop__` returns what `__peek__` announced -/
theorem popCell_first (c : Cell α) (p : CT α) (c' : Cell α) (hw : WFCell c) (h : popCell c = some (p, c')) :
    firstCell c = some p := by
  rw [firstCell_spec c hw, (popCell_spec c p c' hw h).2]; rfl

mutual
  /-- `__pop__` succeeds on every non-empty well-formed cell -/
  theorem popCell_total : ∀ (c : Cell α), WFCell c → c.tuples ≠ [] → ∃ r, popCell c = some r
    | .empty, _, h => by simp [tuples_empty] at h
    | .leaf ct, _, _ => by simp [popCell]
    | .node n sub, hw, _ => by
      cases hw with
      | node _ _ hs hn h2 =>
        have hn1 : ¬ n ≤ 1 := by omega
        have hne : tuplesList sub ≠ [] := by intro h0; rw [h0] at hn; simp at hn; omega
        obtain ⟨⟨p1, sub'⟩, hp⟩ := popList_total sub hs hne
        obtain ⟨w1, t1, l1⟩ := popList_spec sub p1 sub' hs hp
        simp only [popCell, hn1, if_false, hp]
        by_cases hn2 : n = 2
        · simp only [hn2, if_true]
          rw [firstList_spec sub' w1]
          have hlen : (tuplesList sub').length = 1 := by
            have := congrArg List.length t1
            simp at this; omega
          match hts : tuplesList sub', hlen with
          | [x], _ => simp
        · simp [hn2]
  theorem popList_total : ∀ (l : List (Cell α)), (∀ c ∈ l, WFCell c) → tuplesList l ≠ [] → ∃ r, popList l = some r
    | [], _, h => by simp [tuplesList_nil] at h
    | .empty :: rest, hw, h => by
      simp only [tuplesList_cons, tuples_empty, List.nil_append] at h
      obtain ⟨⟨p, r'⟩, hp⟩ := popList_total rest (fun c hc => hw c (List.mem_cons_of_mem _ hc)) h
      simp [popList, hp]
    | .leaf ct :: rest, _, _ => by simp [popList]
    | .node n sub :: rest, hw, _ => by
      have hc := hw _ (List.mem_cons_self)
      have hne : (Cell.node n sub).tuples ≠ [] := by
        cases hc with
        | node _ _ hs hn h2 => rw [tuples_node]; intro h0; rw [h0] at hn; simp at hn; omega
      obtain ⟨⟨p, c'⟩, hp⟩ := popCell_total (.node n sub) hc hne
      simp [popList, hp]
end

/-! ### the queue object -/

/-- the invariant of a `CDQueue`: counters in sync, `k` cells -/
structure QWF (q : Q α) : Prop where
  cells : ∀ c ∈ q.cells, WFCell c
  count : q.nelements = q.tuples.length
  len : q.cells.length = q.k
  kpos : 0 < q.k

theorem qwf_new (A : Arith α) (maxi0 : Int) (k0 : Nat) (q : Q α) (h : Q.new A maxi0 k0 = some q) :
    QWF q ∧ q.tuples = [] := by
  unfold Q.new at h
  split at h
  · simp at h
  · simp only [Option.some.injEq] at h
    subst h
    exact ⟨⟨wf_replicate _, by simp [Q.tuples, tuplesList_replicate_empty], by simp, by simp⟩,
      by simp [Q.tuples, tuplesList_replicate_empty]⟩

theorem qwf_clear (q : Q α) (h : QWF q) : QWF q.clear ∧ q.clear.tuples = [] := by
  refine ⟨⟨wf_replicate _, by simp [Q.clear, Q.tuples, tuplesList_replicate_empty], by simp [Q.clear], h.kpos⟩,
    by simp [Q.clear, Q.tuples, tuplesList_replicate_empty]⟩

/-- **push**: the queue stays well formed; the stored CostTuples change by `PushRel`, in
    particular the stored index tuples are those before plus those of `e` -/
theorem qwf_push (A : Arith α) (q q' : Q α) (e : CT α) (b : Bool) (hq : QWF q) (h : q.push A e b = some q') :
    QWF q' ∧ (∃ added, PushRel A e q.tuples q'.tuples added) ∧ q'.contents.Perm (q.contents ++ e.combs) ∧
      q'.k = q.k ∧ q'.maxi = q.maxi := by
  unfold Q.push at h
  simp only at h
  generalize hq1 : q.anchor e.cost = q1 at h
  have hf : q1.cells = q.cells ∧ q1.k = q.k ∧ q1.maxi = q.maxi ∧ q1.nelements = q.nelements := by
    subst hq1; unfold Q.anchor; split <;> simp
  obtain ⟨hcells, hk, hmx, hne⟩ := hf
  split at h
  · simp at h
  · split at h
    · simp at h
    · split at h
      · simp at h
      · rename_i cells added hp
        simp only [Option.some.injEq] at h
        subst h
        rw [hcells] at hp
        obtain ⟨w, l, r⟩ := pushCells_spec A _ _ _ _ _ _ _ _ _ hp hq.cells
        have hlen := pushRel_length r
        refine ⟨⟨w, ?_, ?_, ?_⟩, ⟨added, r⟩, pushRel_contents r, hk, hmx⟩
        · simp only [Q.tuples]
          rw [hlen, hne, hq.count]
          simp only [Q.tuples]
          split <;> simp_all
        · simp only [l, hk]; exact hq.len
        · simp only [hk]; exact hq.kpos

/-- **pop**: the first CostTuple in cell order is returned and removed, nothing else changes -/
theorem qwf_pop (q q' : Q α) (p : CT α) (hq : QWF q) (h : q.pop = some (p, q')) :
    QWF q' ∧ q.tuples.Perm (p :: q'.tuples) ∧ q.contents.Perm (p.combs ++ q'.contents) ∧
      q'.nelements + 1 = q.nelements ∧ q.peek = some p ∧ q'.k = q.k ∧ q'.maxi = q.maxi := by
  unfold Q.pop at h
  split at h
  · simp at h
  · rename_i c hget
    split at h
    · simp at h
    · rename_i p1 c' hp
      split at h
      · simp at h
      · rename_i hne
        simp only [Option.some.injEq, Prod.mk.injEq] at h
        obtain ⟨h1, h2⟩ := h
        subst h1; subst h2
        have hc := hq.cells c (List.mem_of_getElem? hget)
        obtain ⟨w1, t1⟩ := popCell_spec c p1 c' hc hp
        obtain ⟨X, Y, hx, hy⟩ := tuplesList_split hget c'
        have hperm : q.tuples.Perm (p1 :: tuplesList (q.cells.set q.translation c')) := by
          simp only [Q.tuples]
          rw [hx, hy, t1]
          simp only [List.append_assoc, List.cons_append]
          exact List.perm_middle
        refine ⟨⟨wf_set hq.cells _ w1, ?_, by simp [hq.len], hq.kpos⟩, hperm, ?_, ?_, ?_, rfl, rfl⟩
        · have := hperm.length_eq
          simp only [Q.tuples] at this ⊢
          have h2 := hq.count
          simp only [Q.tuples] at h2
          simp at this
          omega
        · have := List.Perm.flatMap_right (fun (c : CT α) => c.combs) hperm
          simpa [Q.contents, Q.tuples] using this
        · simp; omega
        · simp only [Q.peek, hget]
          exact popCell_first c p1 c' hc hp

end PS.CD
