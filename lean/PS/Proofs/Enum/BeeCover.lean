/- Bee search: the frontier rule REACHES every index combination.  Coverage invariant: for every rule and every
   combination of the rule's arity, the combination is expanded, pending, or a descendant of a pending one. -/
import PS.Proofs.Enum.BeeNodupRun
namespace PS.Bee
open PS PS.G

variable {S : Type} [DecidableEq S]
set_option linter.unusedSectionVars false
set_option linter.unusedSimpArgs false

def CovSt (E : Env S) (s : St S) : Prop :=
  ∀ nt P args, ruleArgs E nt P = some args → ∀ c : List Nat, c.length = args.length → Cov (pend s nt P) c

theorem covSt_frame (E : Env S) {s s' : St S} (hp : ∀ nt P, (pend s' nt P).Perm (pend s nt P)) (h : CovSt E s) :
    CovSt E s' := fun nt P args ha c hc => (h nt P args ha c hc).perm (hp nt P)

/-- one step keeps every combination covered -/
theorem step_cover (E : Env S) (g g' : Gen S) (out : Option Prog) (h : step E g = some (g', out)) (hi : GN E g)
    (hc : CovSt E g.st) : CovSt E g'.st := by
  unfold step at h
  split at h
  · simp only [Option.some.injEq, Prod.mk.injEq] at h; obtain ⟨rfl, _⟩ := h; exact hc
  · simp only [Option.some.injEq, Prod.mk.injEq] at h; obtain ⟨rfl, _⟩ := h; exact hc
  · dsimp only at h
    split at h
    · split at h
      all_goals (repeat' (split at h))
      all_goals
        simp only [Option.some.injEq, Prod.mk.injEq] at h; obtain ⟨rfl, _⟩ := h; exact hc
    · simp only [Option.some.injEq, Prod.mk.injEq] at h; obtain ⟨rfl, _⟩ := h; exact hc
  · simp only [Option.some.injEq, Prod.mk.injEq] at h; obtain ⟨rfl, _⟩ := h; exact hc
  · simp only at h
    split at h
    · simp at h
    · rename_i s1 ci hac
      simp only [Option.some.injEq, Prod.mk.injEq] at h; obtain ⟨rfl, _⟩ := h
      exact covSt_frame E (s := g.st) (fun nt P => addCost_pend E _ s1 _ ci hac nt P) hc
  · rename_i succ cost nt rest maxi ci hph
    simp only at h
    split at h
    · simp only [Option.some.injEq, Prod.mk.injEq] at h; obtain ⟨rfl, _⟩ := h; exact hc
    · rename_i top tl hq
      split at h
      · split at h
        · simp at h
        · rename_i el q' hpop
          have hhead := Heapq.pop_head ltE _ _ _ hpop
          rw [hq] at hhead
          simp only [List.head?_cons, Option.some.injEq] at hhead
          subst hhead
          split at h
          · simp at h
          · rename_i args hargs
            split at h
            · simp at h
            · rename_i s2 maxi' hsl
              obtain ⟨_, _, _, _, _, _, _, _, hcov⟩ := pop_expand E g.st s2 nt top q' args maxi maxi' hi.st hpop hargs hsl
              have hc2 : CovSt E s2 := fun nt' P' args' ha c hcl => hcov nt' P' c (hc nt' P' args' ha c hcl)
              split at h
              · simp at h
              · simp only [Option.some.injEq, Prod.mk.injEq] at h; obtain ⟨rfl, _⟩ := h; exact hc2
              · simp only [Option.some.injEq, Prod.mk.injEq] at h; obtain ⟨rfl, _⟩ := h; exact hc2
      · simp only [Option.some.injEq, Prod.mk.injEq] at h; obtain ⟨rfl, _⟩ := h; exact hc
  · simp only [Option.some.injEq, Prod.mk.injEq] at h; obtain ⟨rfl, _⟩ := h; exact hc
  · rename_i succ cost nt rest maxi ci p ps hph
    obtain ⟨fq, fd, _⟩ := addProgram_frame E g.st nt p ci
    have hpendeq : ∀ nt' P', pend (addProgram E g.st nt p ci).1 nt' P' = pend g.st nt' P' := by
      intro nt' P'; unfold pend; rw [fq, fd]
    have hc1 : CovSt E (addProgram E g.st nt p ci).1 := fun nt' P' args' ha c hcl => by rw [hpendeq]; exact hc nt' P' args' ha c hcl
    cases hap : addProgram E g.st nt p ci with | mk s1 added =>
    rw [hap] at hc1
    simp only [hap] at h
    split at h
    all_goals
      simp only [Option.some.injEq, Prod.mk.injEq] at h; obtain ⟨rfl, _⟩ := h; exact hc1

/-- the decidable check gives coverage for the fresh enumerator: the root of every rule is pending, and every
    combination is the root or a descendant of it -/
theorem cov_new (E : Env S) (hcheck : initCoverOK E = true) (g0 : Gen S) (h : Gen.new E = some g0) : CovSt E g0.st := by
  have hcc : coverCheck E g0.st = true := by
    unfold initCoverOK at hcheck; rw [h] at hcheck; exact hcheck
  intro nt P args ha c hcl
  -- the rule is listed
  unfold ruleArgs TT.rule? at ha
  cases hl : AList.lookup nt E.G.rules with
  | none => simp [hl] at ha
  | some rs =>
    simp only [hl] at ha
    cases hr : AList.lookup P rs with
    | none => simp [hr] at ha
    | some rl =>
      simp only [hr, Option.map_some, Option.some.injEq] at ha
      subst ha
      unfold coverCheck at hcc
      have h1 := List.all_eq_true.mp hcc _ (AList.lookup_some_mem hl)
      have h2 := List.all_eq_true.mp h1 _ (AList.lookup_some_mem hr)
      simp only [List.contains_eq_mem, decide_eq_true_eq] at h2
      have hroot : List.replicate rl.1.length 0 ∈ pend g0.st nt P := by
        rw [pend_eq_pairs]
        simp only [List.mem_map, List.mem_filter, decide_eq_true_eq]
        exact ⟨(P, List.replicate rl.1.length 0), ⟨h2, rfl⟩, rfl⟩
      rcases root_anc c with hcr | hcr
      · exact Or.inr (Or.inl (by rw [hcr, hcl]; exact hroot))
      · exact Or.inr (Or.inr ⟨_, hroot, by rw [← hcl]; exact hcr⟩)

theorem next_cover (E : Env S) : ∀ (n : Nat) (g g' : Gen S) (out : Option Prog),
    next E n g = some (g', out) → GN E g → CovSt E g.st → CovSt E g'.st := by
  intro n
  induction n with
  | zero => intro g g' out h; simp [next] at h
  | succ n ih =>
    intro g g' out h hi hc
    simp only [next] at h
    split at h
    · simp only [Option.some.injEq, Prod.mk.injEq] at h; obtain ⟨rfl, _⟩ := h; exact hc
    · split at h
      · simp at h
      · rename_i g1 p hs
        simp only [Option.some.injEq, Prod.mk.injEq] at h; obtain ⟨rfl, _⟩ := h
        exact step_cover E g g1 _ hs hi hc
      · rename_i g1 hs
        exact ih g1 g' out h (step_nodup E g g1 none hs hi).1 (step_cover E g g1 _ hs hi hc)

theorem take_cover (E : Env S) (fuel : Nat) : ∀ (k : Nat) (g g' : Gen S) (acc out : List Prog) (fin : Bool),
    take E fuel k g acc = some (g', out, fin) → GN E g → AccOK E g acc → CovSt E g.st → CovSt E g'.st := by
  intro k
  induction k with
  | zero =>
    intro g g' acc out fin h _ _ hc
    simp only [take, Option.some.injEq, Prod.mk.injEq] at h; obtain ⟨rfl, _, _⟩ := h; exact hc
  | succ k ih =>
    intro g g' acc out fin h hi ha hc
    simp only [take] at h
    split at h
    · simp at h
    · rename_i g1 hn
      simp only [Option.some.injEq, Prod.mk.injEq] at h; obtain ⟨rfl, _, _⟩ := h
      exact next_cover E fuel g g1 none hn hi hc
    · rename_i g1 p hn
      obtain ⟨h1, h2⟩ := next_nodup E fuel g g1 (some p) acc hn hi ha
      exact ih g1 g' (acc ++ [p]) out fin h h1 h2 (next_cover E fuel g g1 _ hn hi hc)

theorem runActs_cover (E : Env S) (fuel : Nat) : ∀ (acts : List Act) (g g' : Gen S) (acc out : List Prog),
    acts.all Act.isTake = true → runActs E fuel acts g acc = some (g', out) → GN E g → AccOK E g acc → CovSt E g.st →
    CovSt E g'.st := by
  intro acts
  induction acts with
  | nil =>
    intro g g' acc out _ h _ _ hc
    simp only [runActs, Option.some.injEq, Prod.mk.injEq] at h; obtain ⟨rfl, _⟩ := h; exact hc
  | cons a rest ih =>
    intro g g' acc out hall h hi ha hc
    simp only [List.all_cons, Bool.and_eq_true] at hall
    cases a with
    | merge p ty => simp [Act.isTake] at hall
    | take k =>
      simp only [runActs] at h
      split at h
      · simp at h
      · rename_i g1 ys fin ht
        have ht' := take_prefix E fuel k g g1 [] ys fin ht acc
        simp only [List.append_nil] at ht'
        obtain ⟨h1, h2⟩ := take_nodup E fuel k g g1 acc (acc ++ ys) fin ht' hi ha
        exact ih _ _ _ _ hall.2 h h1 h2 (take_cover E fuel k g g1 acc (acc ++ ys) fin ht' hi ha hc)

end PS.Bee
