/- Global no-duplicates, part 1: the frontier theorem on the machine TOGETHER with the pools stored in
   `_bank_derivation`.  Every list of pools stored in `_bank_derivation[args][ci]` is the list of references
   `(args[i], comb[i])` of an index tuple `comb` that has been expanded, hence (frontier theorem: no index tuple is
   expanded twice) no list of pools is stored twice — neither inside one cost index nor under two cost indices.
   Every arithmetic, grammar, filter, fuel; nested and re-entrant queries (limbo `Λ` as in CDTuples.lean). -/
import PS.Proofs.Enum.CDTuples
namespace PS.CD
variable {α : Type}

/-- the pools `query_derivation` stores for an index tuple: position `i` refers to `_bank_nt[args[i]][comb[i]]` -/
def refsOf : List NT → List Nat → List Ref
  | a :: as, c :: cs => some (a, c) :: refsOf as cs
  | _, _ => []

theorem refsOf_nil_right (args : List NT) : refsOf args [] = [] := by cases args <;> rfl

theorem refsOf_inj : ∀ (args : List NT) (c c' : List Nat), c.length = args.length → c'.length = args.length →
    refsOf args c = refsOf args c' → c = c'
  | [], c, c', h1, h2, _ => by
    simp only [List.length_nil, List.length_eq_zero_iff] at h1 h2; rw [h1, h2]
  | _ :: _, [], _, h1, _, _ => by simp at h1
  | _ :: _, _ :: _, [], _, h2, _ => by simp at h2
  | a :: as, x :: c, y :: c', h1, h2, h => by
    simp only [refsOf, List.cons.injEq, Option.some.injEq, Prod.mk.injEq, true_and] at h
    rw [h.1, refsOf_inj as c c' (by simpa using h1) (by simpa using h2) h.2]

abbrev BD := AList (List NT) (AList Nat (List (List Ref)))

/-- `ps ∈ _bank_derivation[args][c]` -/
def PossAt (bd : BD) (args : List NT) (c : Nat) (ps : List Ref) : Prop :=
  ∃ b l, AList.lookup args bd = some b ∧ AList.lookup c b = some l ∧ ps ∈ l

/-- the pools stored for `args`: no list of pools twice, each is `refsOf args comb` of an expanded index tuple -/
def PossD (bd : BD) (args : List NT) (D : List (List Nat)) : Prop :=
  (∀ b c l, AList.lookup args bd = some b → AList.lookup c b = some l → l.Nodup) ∧
  (∀ c c' ps, PossAt bd args c ps → PossAt bd args c' ps → c = c') ∧
  (∀ c ps, PossAt bd args c ps → ∃ comb ∈ D, comb.length = args.length ∧ ps = refsOf args comb)

def contentsOf (s : St α) (args : List NT) : List (List Nat) :=
  match AList.lookup args s.queueDer with
  | some q => q.contents
  | none => []

theorem contentsOf_some {s : St α} {args : List NT} {q : Q α} (h : AList.lookup args s.queueDer = some q) :
    contentsOf s args = q.contents := by unfold contentsOf; rw [h]

theorem contentsOf_congr {s s' : St α} {args : List NT} (h : AList.lookup args s'.queueDer = AList.lookup args s.queueDer) :
    contentsOf s' args = contentsOf s args := by unfold contentsOf; rw [h]

/-- the joint invariant: queues well formed, index tuples of the right length, frontier invariant with the
    limbo tuples `Λ args`, stored pools = expanded index tuples -/
def TInv2 (s : St α) (Λ : List NT → List (List Nat)) : Prop :=
  ∀ args, (∀ q, AList.lookup args s.queueDer = some q → QWF q) ∧
    (∀ t ∈ contentsOf s args ++ Λ args, t.length = args.length) ∧
    ∃ D, FrontInv ⟨contentsOf s args ++ Λ args, D⟩ ∧ PossD s.bankDer args D

theorem tinv2_of_eq {s s' : St α} {Λ : List NT → List (List Nat)} (h1 : s'.queueDer = s.queueDer)
    (h2 : s'.bankDer = s.bankDer) (h : TInv2 s Λ) : TInv2 s' Λ := by
  unfold TInv2 contentsOf; rw [h1, h2]; exact h

theorem possAt_insert_ne {bd : BD} {args a : List NT} {b' : AList Nat (List (List Ref))} (hne : a ≠ args) (c : Nat)
    (ps : List Ref) : PossAt (AList.insert args b' bd) a c ps ↔ PossAt bd a c ps := by
  unfold PossAt; rw [AList.lookup_insert_ne _ _ hne]

theorem possD_insert_ne {bd : BD} {args a : List NT} {b' : AList Nat (List (List Ref))} (hne : a ≠ args)
    (D : List (List Nat)) (h : PossD bd a D) : PossD (AList.insert args b' bd) a D := by
  obtain ⟨h1, h2, h3⟩ := h
  refine ⟨?_, ?_, ?_⟩
  · intro b c l hb hl
    rw [AList.lookup_insert_ne _ _ hne] at hb
    exact h1 b c l hb hl
  · intro c c' ps hp hp'
    exact h2 c c' ps ((possAt_insert_ne hne c ps).mp hp) ((possAt_insert_ne hne c' ps).mp hp')
  · intro c ps hp
    exact h3 c ps ((possAt_insert_ne hne c ps).mp hp)

/-- what is stored after replacing the list at `ci` -/
theorem possAt_insert_self {bd : BD} {args : List NT} {b : AList Nat (List (List Ref))} {ci : Nat} {l' : List (List Ref)}
    (c : Nat) (ps : List Ref) (hb : AList.lookup args bd = some b)
    (h : PossAt (AList.insert args (AList.insert ci l' b) bd) args c ps) :
    (c ≠ ci ∧ PossAt bd args c ps) ∨ (c = ci ∧ ps ∈ l') := by
  obtain ⟨b2, l2, hb2, hl2, hps⟩ := h
  rw [AList.lookup_insert_self] at hb2
  simp only [Option.some.injEq] at hb2; subst hb2
  rw [AList.lookup_insert] at hl2
  split at hl2
  · rename_i he
    simp only [Option.some.injEq] at hl2; subst hl2
    exact Or.inr ⟨he, hps⟩
  · rename_i hne
    exact Or.inl ⟨hne, b, l2, hb, hl2, hps⟩

/-- `self._bank_derivation[args][cost_index] = []` for a new cost index -/
theorem possD_insert_nil {bd : BD} {args : List NT} {b : AList Nat (List (List Ref))} {ci : Nat} {D : List (List Nat)}
    (hb : AList.lookup args bd = some b) (h : PossD bd args D) :
    PossD (AList.insert args (AList.insert ci [] b) bd) args D := by
  obtain ⟨h1, h2, h3⟩ := h
  have key : ∀ c ps, PossAt (AList.insert args (AList.insert ci [] b) bd) args c ps → PossAt bd args c ps := by
    intro c ps hp
    rcases possAt_insert_self c ps hb hp with h | h
    · exact h.2
    · simp at h
  refine ⟨?_, fun c c' ps hp hp' => h2 c c' ps (key c ps hp) (key c' ps hp'), fun c ps hp => h3 c ps (key c ps hp)⟩
  intro b2 c l hb2 hl
  rw [AList.lookup_insert_self] at hb2
  simp only [Option.some.injEq] at hb2; subst hb2
  rw [AList.lookup_insert] at hl
  split at hl
  · simp only [Option.some.injEq] at hl; subst hl; simp
  · exact h1 b c l hb hl

/-- `self._bank_derivation[args][cost_index].append(args_possibles)` for the pools of a fresh index tuple -/
theorem possD_append {bd : BD} {args : List NT} {b : AList Nat (List (List Ref))} {ci : Nat} {l : List (List Ref)}
    {D : List (List Nat)} {comb : List Nat} (hb : AList.lookup args bd = some b) (hl : AList.lookup ci b = some l)
    (h : PossD bd args D) (hfresh : ∀ c ps, PossAt bd args c ps → ps ≠ refsOf args comb) (hD : comb ∈ D)
    (hlen : comb.length = args.length) :
    PossD (AList.insert args (AList.insert ci (l ++ [refsOf args comb]) b) bd) args D := by
  obtain ⟨h1, h2, h3⟩ := h
  have key : ∀ c ps, PossAt (AList.insert args (AList.insert ci (l ++ [refsOf args comb]) b) bd) args c ps →
      PossAt bd args c ps ∨ (c = ci ∧ ps = refsOf args comb) := by
    intro c ps hp
    rcases possAt_insert_self c ps hb hp with h | h
    · exact Or.inl h.2
    · rcases List.mem_append.mp h.2 with h4 | h4
      · exact Or.inl ⟨b, l, hb, h.1 ▸ hl, h4⟩
      · exact Or.inr ⟨h.1, by simpa using h4⟩
  refine ⟨?_, ?_, ?_⟩
  · intro b2 c l2 hb2 hl2
    rw [AList.lookup_insert_self] at hb2
    simp only [Option.some.injEq] at hb2; subst hb2
    rw [AList.lookup_insert] at hl2
    split at hl2
    · simp only [Option.some.injEq] at hl2; subst hl2
      rw [List.nodup_append]
      refine ⟨h1 b ci l hb hl, by simp, ?_⟩
      intro x hx y hy hxy
      simp only [List.mem_singleton] at hy
      subst hy
      exact hfresh ci x ⟨b, l, hb, hl, hx⟩ hxy
    · exact h1 b c l2 hb hl2
  · intro c c' ps hp hp'
    rcases key c ps hp with a | a <;> rcases key c' ps hp' with a' | a'
    · exact h2 c c' ps a a'
    · exact absurd a'.2 (hfresh c ps a)
    · exact absurd a.2 (hfresh c' ps a')
    · rw [a.1, a'.1]
  · intro c ps hp
    rcases key c ps hp with a | a
    · exact h3 c ps a
    · exact ⟨comb, hD, hlen, a.2⟩

theorem possD_mono {bd : BD} {args : List NT} {D D' : List (List Nat)} (h : PossD bd args D) (hsub : ∀ t ∈ D, t ∈ D') :
    PossD bd args D' := by
  obtain ⟨h1, h2, h3⟩ := h
  refine ⟨h1, h2, ?_⟩
  intro c ps hp
  obtain ⟨comb, hc, hl, he⟩ := h3 c ps hp
  exact ⟨comb, hsub comb hc, hl, he⟩

/-- replacing `_bank_derivation[args]` -/
theorem tinv2_setBankDer {s : St α} {Λ : List NT → List (List Nat)} {args : List NT} {b' : AList Nat (List (List Ref))}
    (h : TInv2 s Λ) (hP : ∀ D, PossD s.bankDer args D → PossD (AList.insert args b' s.bankDer) args D) :
    TInv2 { s with bankDer := AList.insert args b' s.bankDer } Λ := by
  intro a
  obtain ⟨h1, h2, D, h3, h4⟩ := h a
  refine ⟨h1, h2, D, h3, ?_⟩
  by_cases he : a = args
  · subst he; exact hP D h4
  · exact possD_insert_ne he D h4

/-- replacing the queue of `args` by one with the same index tuples (up to the limbo set) -/
theorem tinv2_setQueueDer {s : St α} {Λ Λ' : List NT → List (List Nat)} {args : List NT} {q : Q α} (h : TInv2 s Λ)
    (hq : QWF q) (hp : (contentsOf s args ++ Λ args).Perm (q.contents ++ Λ' args)) (hΛ : ∀ a, a ≠ args → Λ' a = Λ a) :
    TInv2 (s.setQueueDer args q) Λ' := by
  intro a
  obtain ⟨h1, h2, D, h3, h4⟩ := h a
  by_cases he : a = args
  · subst he
    have hc : contentsOf (s.setQueueDer a q) a = q.contents := by
      apply contentsOf_some; simp [St.setQueueDer, AList.lookup_insert_self]
    refine ⟨?_, ?_, D, ?_, h4⟩
    · intro q2 hq2
      simp only [St.setQueueDer, AList.lookup_insert_self, Option.some.injEq] at hq2
      subst hq2; exact hq
    · rw [hc]; intro t ht; exact h2 t (hp.mem_iff.mpr ht)
    · rw [hc]; exact frontInv_perm hp h3
  · have hc : contentsOf (s.setQueueDer args q) a = contentsOf s a := by
      apply contentsOf_congr; simp [St.setQueueDer, AList.lookup_insert_ne _ _ he]
    refine ⟨?_, ?_, D, ?_, h4⟩
    · intro q2 hq2
      simp only [St.setQueueDer] at hq2
      rw [AList.lookup_insert_ne _ _ he] at hq2
      exact h1 q2 hq2
    · rw [hc, hΛ a he]; exact h2
    · rw [hc, hΛ a he]; exact h3

/-- an index tuple in limbo that is not expanded just leaves (it counts as expanded without successors) -/
theorem tinv2_drop {s : St α} {Λ : List NT → List (List Nat)} {args : List NT} {comb : List Nat} {rest : List (List Nat)}
    (h : TInv2 s (addT Λ args (comb :: rest))) : TInv2 s (addT Λ args rest) := by
  intro a
  obtain ⟨h1, h2, D, h3, h4⟩ := h a
  by_cases he : a = args
  · subst he
    rw [addT_self] at h2 h3
    rw [addT_self]
    refine ⟨h1, ?_, comb :: D, ?_, possD_mono h4 (fun t ht => List.mem_cons_of_mem _ ht)⟩
    · intro t ht
      apply h2 t
      rcases List.mem_append.mp ht with h5 | h5
      · exact List.mem_append_left _ h5
      · exact List.mem_append_right _ (by simpa using Or.inr (by simpa using h5))
    · have := front_expand (c := comb) (rest := contentsOf s a ++ (rest ++ Λ a)) (new := []) h3
        (by simpa using List.perm_middle) (by simp) (by simp)
      simpa using this
  · rw [addT_ne _ _ _ _ he] at h2 h3
    rw [addT_ne _ _ _ _ he]
    exact ⟨h1, h2, D, h3, h4⟩

/-- the successor loop expands the index tuple `comb` held in limbo; its pools are fresh and may be stored -/
theorem tinv2_succLoop (A : Arith α) (bb : Bool) (args : List NT) (c : α) (comb : List Nat) (rest : List (List Nat))
    {Λ : List NT → List (List Nat)} (s s' : St α) (h : succLoop A bb args c comb comb.length 0 s = some s')
    (hs : TInv2 s (addT Λ args (comb :: rest))) :
    TInv2 s' (addT Λ args rest) ∧
    ∀ b ci l, AList.lookup args s'.bankDer = some b → AList.lookup ci b = some l →
      TInv2 { s' with bankDer := AList.insert args (AList.insert ci (l ++ [refsOf args comb]) b) s'.bankDer }
        (addT Λ args rest) := by
  -- what the loop does to the queue of `args`
  have hq' : ∃ new : List (List Nat), new.Nodup ∧ (∀ t ∈ new, t ∈ succs comb) ∧
      (contentsOf s' args).Perm (contentsOf s args ++ new) ∧ s'.bankDer = s.bankDer ∧
      (∀ q', AList.lookup args s'.queueDer = some q' → QWF q') ∧
      (∀ a, a ≠ args → AList.lookup a s'.queueDer = AList.lookup a s.queueDer) := by
    cases hq : AList.lookup args s.queueDer with
    | none =>
      have := succLoop_none A bb args c comb _ _ _ _ hq h
      subst this
      exact ⟨[], by simp, by simp, by simp, rfl, fun q' hq' => by rw [hq] at hq'; simp at hq', fun _ _ => rfl⟩
    | some q =>
      obtain ⟨q', h1, h2, h3, _, _, h6, h7⟩ := succLoop_spec A bb args c comb _ _ _ _ h q hq ((hs args).1 q hq)
      refine ⟨succIdx (lensOf s args) comb comb.length 0, succIdx_nodup _ _ _ _, fun t ht => succIdx_sub _ _ t ht, ?_, ?_, ?_, h7⟩
      · rw [contentsOf_some h1, contentsOf_some hq]; exact h3
      · rw [h6]
      · intro q2 hq2; rw [h1] at hq2; simp only [Option.some.injEq] at hq2; subst hq2; exact h2
  obtain ⟨new, hnd, hsub, hperm, hbd, hwf, hother⟩ := hq'
  -- the data of `args`
  obtain ⟨_, hlenA, D, hfA, hpA⟩ := hs args
  rw [addT_self] at hlenA hfA
  have hcl : comb.length = args.length := hlenA comb (List.mem_append_right _ (by simp))
  have hfA' : FrontInv ⟨contentsOf s' args ++ (rest ++ Λ args), comb :: D⟩ := by
    have hexp := front_expand (c := comb) (rest := contentsOf s args ++ (rest ++ Λ args)) (new := new) hfA
      (by simpa using List.perm_middle) hnd hsub
    refine frontInv_perm ?_ hexp
    have : (contentsOf s args ++ (rest ++ Λ args) ++ new).Perm (contentsOf s args ++ new ++ (rest ++ Λ args)) := by
      rw [List.append_assoc (contentsOf s args), List.append_assoc (contentsOf s args)]
      exact List.Perm.append_left _ List.perm_append_comm
    exact this.trans (List.Perm.append_right _ hperm.symm)
  have hlenA' : ∀ t ∈ contentsOf s' args ++ (rest ++ Λ args), t.length = args.length := by
    intro t ht
    rcases List.mem_append.mp ht with h5 | h5
    · rcases List.mem_append.mp (hperm.mem_iff.mp h5) with h6 | h6
      · exact hlenA t (List.mem_append_left _ h6)
      · rw [succs_length comb t (hsub t h6)]; exact hcl
    · exact hlenA t (List.mem_append_right _ (by simpa using Or.inr (by simpa using h5)))
  have hfresh : ∀ c ps, PossAt s.bankDer args c ps → ps ≠ refsOf args comb := by
    intro c ps hp he
    obtain ⟨comb', hc', hl', he'⟩ := hpA.2.2 c ps hp
    rw [he] at he'
    have : comb = comb' := refsOf_inj args comb comb' hcl hl' he'
    subst this
    have hnd := hfA.1
    simp only at hnd
    rw [List.nodup_append] at hnd
    exact hnd.2.2 comb (List.mem_append_right _ (by simp)) comb hc' rfl
  have hpA' : PossD s'.bankDer args (comb :: D) := by
    rw [hbd]; exact possD_mono hpA (fun t ht => List.mem_cons_of_mem _ ht)
  have others : ∀ a, a ≠ args → (∀ q, AList.lookup a s'.queueDer = some q → QWF q) ∧
      (∀ t ∈ contentsOf s' a ++ Λ a, t.length = a.length) ∧
      ∃ D, FrontInv ⟨contentsOf s' a ++ Λ a, D⟩ ∧ PossD s'.bankDer a D := by
    intro a he
    obtain ⟨h1, h2, D2, h3, h4⟩ := hs a
    rw [addT_ne _ _ _ _ he] at h2 h3
    rw [contentsOf_congr (hother a he), hbd]
    refine ⟨?_, h2, D2, h3, h4⟩
    intro q2 hq2; rw [hother a he] at hq2; exact h1 q2 hq2
  refine ⟨?_, ?_⟩
  · intro a
    by_cases he : a = args
    · subst he
      rw [addT_self]
      exact ⟨hwf, hlenA', comb :: D, hfA', hpA'⟩
    · rw [addT_ne _ _ _ _ he]; exact others a he
  · intro b ci l hb hl a
    by_cases he : a = args
    · subst he
      rw [addT_self]
      refine ⟨hwf, hlenA', comb :: D, hfA', ?_⟩
      refine possD_append hb hl hpA' ?_ (by simp) hcl
      rw [hbd]; exact hfresh
    · rw [addT_ne _ _ _ _ he]
      obtain ⟨h1, h2, D2, h3, h4⟩ := others a he
      exact ⟨h1, h2, D2, h3, possD_insert_ne he D2 h4⟩

/-! ### what `_query_list_` and the loop over the arguments return -/

theorem queryList_ref (E : Env α) : ∀ (f : Nat) (s : St α) (S : NT) (ci : Nat) (s' : St α) (ia : Bool) (r : Ref),
    queryList E f s S ci = some (s', ia, r) → r = none ∨ r = some (S, ci) := by
  intro f s S ci s' ia r h
  cases f with
  | zero => simp [queryList] at h
  | succ f =>
    rw [queryList] at h
    split at h
    · split at h
      · simp only [Option.some.injEq, Prod.mk.injEq] at h; exact Or.inl h.2.2.symm
      · split at h
        · simp only [Option.some.injEq, Prod.mk.injEq] at h; exact Or.inl h.2.2.symm
        · split at h
          · simp only [Option.some.injEq, Prod.mk.injEq] at h; exact Or.inr h.2.2.symm
          · split at h
            · simp at h
            · split at h
              · split at h
                · simp only [Option.some.injEq, Prod.mk.injEq] at h; exact Or.inl h.2.2.symm
                · split at h
                  · simp only [Option.some.injEq, Prod.mk.injEq] at h; exact Or.inr h.2.2.symm
                  · simp at h
              · simp at h
    · simp at h

/-- when no argument failed, the pools handed back are exactly the references of the index tuple -/
theorem argLoop_refs (E : Env α) : ∀ (f : Nat) (s : St α) (cs : List Nat) (ss : List NT) (ia agf : Bool) (acc : List Ref)
    (s' : St α) (ia' agf' : Bool) (acc' : List Ref),
    argLoop E f s cs ss ia agf acc = some (s', ia', agf', acc') → agf' = false →
    agf = false ∧ acc' = acc ++ refsOf ss cs := by
  intro f
  induction f with
  | zero => intro s cs ss ia agf acc s' ia' agf' acc' h; simp [argLoop] at h
  | succ f ih =>
    intro s cs ss ia agf acc s' ia' agf' acc' h hf
    cases cs with
    | nil =>
      simp only [argLoop, Option.some.injEq, Prod.mk.injEq] at h
      obtain ⟨_, _, h3, h4⟩ := h
      rw [refsOf_nil_right]; subst h3; subst h4
      exact ⟨hf, by simp⟩
    | cons c cs =>
      cases ss with
      | nil =>
        simp only [argLoop, Option.some.injEq, Prod.mk.injEq] at h
        obtain ⟨_, _, h3, h4⟩ := h
        subst h3; subst h4
        exact ⟨hf, by simp [refsOf]⟩
      | cons Si ss =>
        rw [argLoop] at h
        split at h
        · simp at h
        · rename_i s1 one r hq
          split at h
          · split at h
            · simp only [Option.some.injEq, Prod.mk.injEq] at h
              rw [← h.2.2.1] at hf; simp at hf
            · have := (ih _ _ _ _ _ _ _ _ _ _ h hf).1
              simp at this
          · rename_i hne
            obtain ⟨h1, h2⟩ := ih _ _ _ _ _ _ _ _ _ _ h hf
            refine ⟨h1, ?_⟩
            rcases queryList_ref E f s Si c s1 one r hq with hr | hr
            · subst hr; simp [St.resolve] at hne
            · subst hr; rw [h2]; simp [refsOf]

/-! ### the fields the other operations leave alone -/

theorem addDeleted_der (s : St α) (p : Prog) : (s.addDeleted p).queueDer = s.queueDer ∧ (s.addDeleted p).bankDer = s.bankDer := by
  unfold St.addDeleted; split <;> exact ⟨rfl, rfl⟩

theorem appendBank_der {s s' : St α} {S : NT} {ci : Nat} {p : Prog} (he : s.appendBank S ci p = some s') :
    s'.queueDer = s.queueDer ∧ s'.bankDer = s.bankDer := by
  unfold St.appendBank at he
  split at he
  · simp at he
  · split at he
    · simp at he
    · simp only [Option.some.injEq] at he; subst he; exact ⟨rfl, rfl⟩

theorem ensureBank_der {s s' : St α} {S : NT} {ci : Nat} (he : s.ensureBank S ci = some s') :
    s'.queueDer = s.queueDer ∧ s'.bankDer = s.bankDer := by
  unfold St.ensureBank at he
  split at he
  · simp at he
  · split at he
    · simp only [Option.some.injEq] at he; subst he; exact ⟨rfl, rfl⟩
    · simp only [Option.some.injEq] at he; subst he; exact ⟨rfl, rfl⟩

theorem exitQuery_der {s s' : St α} {fr : Frame α} (he : exitQuery s fr = some s') :
    s'.queueDer = s.queueDer ∧ s'.bankDer = s.bankDer := by
  unfold exitQuery at he
  simp only at he
  split at he
  · simp at he
  · rename_i s1 hs1
    have h1 : s1.queueDer = s.queueDer ∧ s1.bankDer = s.bankDer := by
      split at hs1
      · split at hs1
        · simp at hs1
        · simp only [Option.some.injEq] at hs1; subst hs1; exact ⟨rfl, rfl⟩
      · simp only [Option.some.injEq] at hs1; subst hs1; exact ⟨rfl, rfl⟩
    split at he
    · simp only [Option.some.injEq] at he; subst he; exact h1
    · simp only [Option.some.injEq] at he; subst he; exact h1
    · simp at he

theorem pushNext_der (A : Arith α) (s : St α) (S : NT) (h2 : List (Deriv α)) (w : Int) (el : Deriv α) (cl : List α) (ns : Bool) :
    (pushNext A s S h2 w el cl ns).1.queueDer = s.queueDer ∧ (pushNext A s S h2 w el cl ns).1.bankDer = s.bankDer := by
  unfold pushNext; split <;> exact ⟨rfl, rfl⟩

/-! ### the machine -/

structure TOk2 (E : Env α) (f : Nat) : Prop where
  resume : ∀ s fr r Λ, resume E f s fr = some r → TInv2 s Λ → TInv2 r.st Λ
  drive : ∀ s fr s' Λ, drive E f s fr = some s' → TInv2 s Λ → TInv2 s' Λ
  queryList : ∀ s S ci s' ia r Λ, queryList E f s S ci = some (s', ia, r) → TInv2 s Λ → TInv2 s' Λ
  argLoop : ∀ s cs ss ia agf acc s' ia' agf' acc' Λ,
    argLoop E f s cs ss ia agf acc = some (s', ia', agf', acc') → TInv2 s Λ → TInv2 s' Λ
  combLoop : ∀ s args ci c combs ns hg s' ns' hg' Λ,
    combLoop E f s args ci c combs ns hg = some (s', ns', hg') → TInv2 s (addT Λ args combs) → TInv2 s' Λ
  queryDer : ∀ s args ci s' l Λ, queryDer E f s args ci = some (s', l) → TInv2 s Λ → TInv2 s' Λ

theorem tok2_resume (E : Env α) (f : Nat) (ih : TOk2 E f) : ∀ s fr r Λ, resume E (f + 1) s fr = some r → TInv2 s Λ →
    TInv2 r.st Λ := by
  intro s fr r Λ h hs
  rw [resume] at h
  split at h
  · simp only at h
    split at h
    · exact ih.resume _ _ _ _ h hs
    · split at h
      · exact ih.resume _ _ _ _ h (tinv2_of_eq (addDeleted_der _ _).1 (addDeleted_der _ _).2 hs)
      · split at h
        · simp at h
        · rename_i s1 hb
          simp only [Option.some.injEq] at h; subst h
          exact tinv2_of_eq (appendBank_der hb).1 (appendBank_der hb).2 hs
  · exact ih.resume _ _ _ _ h hs
  · exact ih.resume _ _ _ _ h hs
  · split at h
    · simp at h
    · split at h
      · cases hx : exitQuery s fr with
        | none => simp [hx] at h
        | some s' =>
          simp only [hx, Option.map_some, Option.some.injEq] at h; subst h
          exact tinv2_of_eq (exitQuery_der hx).1 (exitQuery_der hx).2 hs
      · split at h
        · cases hx : exitQuery s fr with
          | none => simp [hx] at h
          | some s' =>
            simp only [hx, Option.map_some, Option.some.injEq] at h; subst h
            exact tinv2_of_eq (exitQuery_der hx).1 (exitQuery_der hx).2 hs
        · split at h
          · simp at h
          · rename_i el heap' hpop
            split at h
            · rename_i s1 args w he hrule
              have hs0 : TInv2 (s.setHeap fr.S heap') Λ := tinv2_of_eq rfl rfl hs
              have hs1 : TInv2 s1 Λ := tinv2_of_eq (ensureBank_der he).1 (ensureBank_der he).2 hs0
              split at h
              · simp only at h
                split at h
                · exact ih.resume _ _ _ _ h hs1
                · split at h
                  · exact ih.resume _ _ _ _ h (tinv2_of_eq (addDeleted_der _ _).1 (addDeleted_der _ _).2 hs1)
                  · split at h
                    · simp at h
                    · rename_i s2 hb
                      simp only [Option.some.injEq] at h; subst h
                      exact tinv2_of_eq (appendBank_der hb).1 (appendBank_der hb).2 hs1
              · split at h
                · simp at h
                · rename_i s2 possibles hq
                  have hs2 := ih.queryDer _ _ _ _ _ _ hq hs1
                  split at h
                  · rename_i em cl h2 _ _ hl2
                    have hs3 : TInv2 (pushNext E.A s2 fr.S h2 w el cl fr.noSucc).1 Λ :=
                      tinv2_of_eq (pushNext_der _ _ _ _ _ _ _ _).1 (pushNext_der _ _ _ _ _ _ _ _).2 hs2
                    simp only at h
                    split at h
                    · exact ih.resume _ _ _ _ h hs3
                    · exact ih.resume _ _ _ _ h hs3
                  · simp at h
            · simp at h

theorem tok2_all (E : Env α) : ∀ f, TOk2 E f := by
  intro f
  induction f with
  | zero =>
    refine ⟨?_, ?_, ?_, ?_, ?_, ?_⟩
    · intro s fr r Λ h; simp [resume] at h
    · intro s fr s' Λ h; simp [drive] at h
    · intro s S ci s' ia r Λ h; simp [queryList] at h
    · intro s cs ss ia agf acc s' ia' agf' acc' Λ h; simp [argLoop] at h
    · intro s args ci c combs ns hg s' ns' hg' Λ h; simp [combLoop] at h
    · intro s args ci s' l Λ h; simp [queryDer] at h
  | succ f ih =>
    refine ⟨tok2_resume E f ih, ?_, ?_, ?_, ?_, ?_⟩
    · intro s fr s' Λ h hs
      rw [drive] at h
      split at h
      · simp at h
      · rename_i s1 hr
        simp only [Option.some.injEq] at h; subst h
        exact ih.resume _ _ _ _ hr hs
      · rename_i s1 fr1 p hr
        exact ih.drive _ _ _ _ h (ih.resume _ _ _ _ hr hs)
    · intro s S ci s' ia r Λ h hs
      rw [queryList] at h
      split at h
      · split at h
        · simp only [Option.some.injEq, Prod.mk.injEq] at h; rw [← h.1]; exact hs
        · split at h
          · simp only [Option.some.injEq, Prod.mk.injEq] at h; rw [← h.1]; exact hs
          · split at h
            · simp only [Option.some.injEq, Prod.mk.injEq] at h; rw [← h.1]; exact hs
            · split at h
              · simp at h
              · rename_i s1 hd
                have hs1 := ih.drive _ _ _ _ hd hs
                split at h
                · split at h
                  · simp only [Option.some.injEq, Prod.mk.injEq] at h; rw [← h.1]; exact hs1
                  · split at h
                    · simp only [Option.some.injEq, Prod.mk.injEq] at h; rw [← h.1]; exact hs1
                    · simp at h
                · simp at h
      · simp at h
    · intro s cs ss ia agf acc s' ia' agf' acc' Λ h hs
      cases cs with
      | nil => simp only [argLoop, Option.some.injEq, Prod.mk.injEq] at h; rw [← h.1]; exact hs
      | cons c cs =>
        cases ss with
        | nil => simp only [argLoop, Option.some.injEq, Prod.mk.injEq] at h; rw [← h.1]; exact hs
        | cons Si ss =>
          rw [argLoop] at h
          split at h
          · simp at h
          · rename_i s1 one r hq
            have hs1 := ih.queryList _ _ _ _ _ _ _ hq hs
            split at h
            · split at h
              · simp only [Option.some.injEq, Prod.mk.injEq] at h; rw [← h.1]; exact hs1
              · exact ih.argLoop _ _ _ _ _ _ _ _ _ _ _ h hs1
            · exact ih.argLoop _ _ _ _ _ _ _ _ _ _ _ h hs1
    · -- combLoop
      intro s args ci c combs ns hg s' ns' hg' Λ h hs
      cases combs with
      | nil =>
        simp only [combLoop, Option.some.injEq, Prod.mk.injEq] at h; rw [← h.1]
        rwa [addT_nil] at hs
      | cons comb rest =>
        rw [combLoop] at h
        split at h
        · simp at h
        · rename_i s1 ia agf poss ha
          have hs1 := ih.argLoop _ _ _ _ _ _ _ _ _ _ _ ha hs
          simp only at h
          split at h
          · exact ih.combLoop _ _ _ _ _ _ _ _ _ _ _ h (tinv2_drop hs1)
          · rename_i hfo
            split at h
            · simp at h
            · rename_i s2 hsucc
              have hs2 := tinv2_succLoop E.A E.asserts args c comb rest s1 s2 hsucc hs1
              split at h
              · exact ih.combLoop _ _ _ _ _ _ _ _ _ _ _ h hs2.1
              · rename_i hia
                split at h
                · simp at h
                · rename_i b hb
                  split at h
                  · simp at h
                  · rename_i l hl
                    have hagf : agf = false := by
                      cases agf with
                      | false => rfl
                      | true => cases ia <;> simp_all
                    have hposs : poss = refsOf args comb := by
                      have := (argLoop_refs E f _ _ _ _ _ _ _ _ _ _ ha hagf).2
                      simpa using this
                    rw [hposs] at h
                    exact ih.combLoop _ _ _ _ _ _ _ _ _ _ _ h (hs2.2 b ci l hb hl)
    · -- queryDer
      intro s args ci s' l Λ h hs
      rw [queryDer] at h
      split at h
      · rename_i cl b q hcl hb hq
        split at h
        · simp only [Option.some.injEq, Prod.mk.injEq] at h; rw [← h.1]; exact hs
        · split at h
          · simp only [Option.some.injEq, Prod.mk.injEq] at h; rw [← h.1]; exact hs
          · have hs1a : TInv2 { s with bankDer := AList.insert args (AList.insert ci [] b) s.bankDer } Λ :=
              tinv2_setBankDer hs (fun D hD => possD_insert_nil hb hD)
            simp only at h
            split at h
            · simp only [Option.some.injEq, Prod.mk.injEq] at h; rw [← h.1]; exact hs1a
            · split at h
              · simp at h
              · rename_i ct q' hpop
                have hwf := (hs args).1 q hq
                obtain ⟨hwf', _, hperm, _⟩ := qwf_pop q q' ct hwf hpop
                have hs1 : TInv2 ({ s with bankDer := AList.insert args (AList.insert ci [] b) s.bankDer }.setQueueDer args q')
                    (addT Λ args ct.combs) := by
                  refine tinv2_setQueueDer (Λ := Λ) hs1a hwf' ?_ (fun a ha => addT_ne _ _ _ _ ha)
                  rw [addT_self]
                  have hc : contentsOf { s with bankDer := AList.insert args (AList.insert ci [] b) s.bankDer } args = q.contents :=
                    contentsOf_some (s := { s with bankDer := AList.insert args (AList.insert ci [] b) s.bankDer }) hq
                  rw [hc]
                  have : (q.contents ++ Λ args).Perm ((ct.combs ++ q'.contents) ++ Λ args) := List.Perm.append_right _ hperm
                  refine this.trans ?_
                  rw [List.append_assoc]
                  exact (List.perm_append_comm_assoc _ _ _)
                split at h
                · simp at h
                · rename_i s3 ns hg hc
                  have hs3 := ih.combLoop _ _ _ _ _ _ _ _ _ _ _ hc hs1
                  split at h
                  · simp at h
                  · rename_i s4 hs4e
                    have hs4 : TInv2 s4 Λ := by
                      split at hs4e
                      · split at hs4e
                        · simp at hs4e
                        · simp only [Option.some.injEq] at hs4e; subst hs4e; exact tinv2_of_eq rfl rfl hs3
                      · simp only [Option.some.injEq] at hs4e; subst hs4e; exact hs3
                    split at h
                    · rename_i q2 cl2 hq2 _
                      split at h
                      · simp at h
                      · rename_i s5 hs5e
                        have hs5 : TInv2 s5 Λ := by
                          split at hs5e
                          · simp only [Option.some.injEq] at hs5e; subst hs5e; exact hs4
                          · split at hs5e
                            · simp at hs5e
                            · rename_i q3 hupd
                              split at hs5e
                              · simp at hs5e
                              · simp only [Option.some.injEq] at hs5e; subst hs5e
                                have hwf2 := (hs4 args).1 q2 hq2
                                obtain ⟨hwf3, hc3⟩ := qwf_update E.A q2 q3 hwf2 hupd
                                refine tinv2_of_eq (s := s4.setQueueDer args q3) rfl rfl ?_
                                refine tinv2_setQueueDer (Λ := Λ) hs4 hwf3 ?_ (fun _ _ => rfl)
                                rw [contentsOf_some hq2, hc3]
                        split at h
                        · simp at h
                        · simp only [Option.some.injEq, Prod.mk.injEq] at h; rw [← h.1]; exact hs5
                    · simp at h
      · simp at h

/-- what the invariant gives at any moment: no list of pools is stored twice for `args` -/
theorem tinv2_possU {s : St α} {Λ : List NT → List (List Nat)} (h : TInv2 s Λ) (args : List NT) :
    (∀ b c l, AList.lookup args s.bankDer = some b → AList.lookup c b = some l → l.Nodup) ∧
    (∀ c c' ps, PossAt s.bankDer args c ps → PossAt s.bankDer args c' ps → c = c') := by
  obtain ⟨_, _, D, _, h1, h2, _⟩ := h args
  exact ⟨h1, h2⟩

end PS.CD
