/- Global no-duplicates, part 6: histories with `merge_program`.  `merge_program(rep, other)` removes `other` from the banks
   of the non-terminals of its type and puts it in `_deleted`; the bank invariant survives because the provenance of a
   stored program only asks its sub-programs to be in their pool OR deleted since, and a deleted program never
   re-enters a bank.  Hypothesis on a merge: `other` is only derivable from non-terminals of the declared type
   (`TyOK`), so that it is removed from every bank that holds it. -/
import PS.Proofs.Enum.CDGPrologue
namespace PS.CD
variable {α : Type}

theorem removeFirst_sublist (p : Prog) : ∀ (l : List Prog), (removeFirst p l).Sublist l
  | [] => by simp [removeFirst]
  | y :: ys => by
    simp only [removeFirst]
    split
    · exact List.sublist_cons_self _ _
    · exact (removeFirst_sublist p ys).cons_cons y

theorem removeFirst_not_mem (p : Prog) : ∀ (l : List Prog), l.Nodup → p ∉ removeFirst p l
  | [], _ => by simp [removeFirst]
  | y :: ys, h => by
    rw [List.nodup_cons] at h
    simp only [removeFirst]
    split
    · rename_i he; subst he; exact h.1
    · rename_i hne
      intro hm
      rcases List.mem_cons.mp hm with h1 | h1
      · exact hne h1.symm
      · exact removeFirst_not_mem p ys h.2 h1

theorem mem_removeFirst_or (p x : Prog) : ∀ (l : List Prog), x ∈ l → x ∈ removeFirst p l ∨ x = p
  | [], h => by simp at h
  | y :: ys, h => by
    simp only [removeFirst]
    split
    · rename_i he
      rcases List.mem_cons.mp h with h1 | h1
      · exact Or.inr (h1.trans he)
      · exact Or.inl h1
    · rcases List.mem_cons.mp h with h1 | h1
      · exact Or.inl (by rw [h1]; exact List.mem_cons_self)
      · rcases mem_removeFirst_or p x ys h1 with h2 | h2
        · exact Or.inl (List.mem_cons_of_mem _ h2)
        · exact Or.inr h2

/-- the non-terminals whose banks `merge_program` visits -/
def matched (E : Env α) (ty : Nat) (S : NT) : Bool := AList.lookup S E.G.ty = some ty && (AList.lookup S E.G.rules).isSome

theorem merge_inBankAt (E : Env α) (g : Gen α) (other : Prog) (ty : Nat) (S : NT) (c : Nat) (q : Prog) :
    InBankAt (merge E g other ty).st S c q ↔
      ∃ b l, AList.lookup S g.st.bankNt = some b ∧ AList.lookup c b = some l ∧
        q ∈ (if matched E ty S then removeFirst other l else l) := by
  have hbank : (g.st.addDeleted other).bankNt = g.st.bankNt := (addDeleted_fields _ _).1
  unfold InBankAt
  simp only [merge]
  rw [lookup_map_key _ (by intro x; obtain ⟨S, b⟩ := x; simp only; split <;> rfl), hbank]
  cases hb : AList.lookup S g.st.bankNt with
  | none => simp
  | some b0 =>
    simp only [Option.map_some, Option.some.injEq]
    by_cases hm : matched E ty S = true
    · have hm' : (AList.lookup S E.G.ty = some ty && (AList.lookup S E.G.rules).isSome) = true := hm
      simp only [hm', if_true, hm]
      constructor
      · rintro ⟨b, l, h1, h2, h3⟩
        subst h1
        rw [lookup_map_key _ (by intro x; rfl)] at h2
        cases hl : AList.lookup c b0 with
        | none => simp [hl] at h2
        | some l0 =>
          simp only [hl, Option.map_some, Option.some.injEq] at h2
          subst h2
          exact ⟨b0, l0, rfl, hl, h3⟩
      · rintro ⟨b, l, h1, h2, h3⟩
        subst h1
        refine ⟨_, removeFirst other l, rfl, ?_, h3⟩
        rw [lookup_map_key _ (by intro x; rfl), h2]
        rfl
    · have hm2 : matched E ty S = false := by simpa using hm
      have hm' : (AList.lookup S E.G.ty = some ty && (AList.lookup S E.G.rules).isSome) = false := hm2
      simp only [hm', hm2]
      constructor
      · rintro ⟨b, l, h1, h2, h3⟩
        simp only [Bool.false_eq_true, if_false] at h1
        subst h1
        exact ⟨b0, l, rfl, h2, by simpa using h3⟩
      · rintro ⟨b, l, h1, h2, h3⟩
        subst h1
        exact ⟨b0, l, by simp, h2, by simpa using h3⟩

theorem merge_bank_sub (E : Env α) (g : Gen α) (other : Prog) (ty : Nat) : BMono (merge E g other ty).st g.st := by
  intro S c q h
  obtain ⟨b, l, h1, h2, h3⟩ := (merge_inBankAt E g other ty S c q).mp h
  refine ⟨b, l, h1, h2, ?_⟩
  split at h3
  · exact removeFirst_sub other l q h3
  · exact h3

/-- `other` is only in banks that `merge_program` visits -/
def MergeOK (E : Env α) (g : Gen α) (other : Prog) (ty : Nat) : Prop :=
  ∀ S c, InBankAt g.st S c other → matched E ty S = true

theorem merge_bank_or (E : Env α) (g : Gen α) (other : Prog) (ty : Nat) (S : NT) (c : Nat) (q : Prog)
    (h : InBankAt g.st S c q) : InBankAt (merge E g other ty).st S c q ∨ q = other := by
  obtain ⟨b, l, h1, h2, h3⟩ := h
  by_cases hm : matched E ty S = true
  · rcases mem_removeFirst_or other q l h3 with h4 | h4
    · exact Or.inl ((merge_inBankAt E g other ty S c q).mpr ⟨b, l, h1, h2, by rw [if_pos hm]; exact h4⟩)
    · exact Or.inr h4
  · exact Or.inl ((merge_inBankAt E g other ty S c q).mpr ⟨b, l, h1, h2, by rw [if_neg hm]; exact h3⟩)

theorem merge_other_out (E : Env α) (g : Gen α) (other : Prog) (ty : Nat) (hB : BInv g.st) (hM : MergeOK E g other ty)
    (S : NT) (c : Nat) : ¬ InBankAt (merge E g other ty).st S c other := by
  intro h
  obtain ⟨b, l, h1, h2, h3⟩ := (merge_inBankAt E g other ty S c other).mp h
  split at h3
  · exact removeFirst_not_mem other l (hB.1 S b c l h1 h2) h3
  · rename_i hm
    exact hm (hM S c ⟨b, l, h1, h2, h3⟩)

theorem merge_st_fields (E : Env α) (g : Gen α) (other : Prog) (ty : Nat) :
    (merge E g other ty).st.queueNt = g.st.queueNt ∧ (merge E g other ty).st.queueDer = g.st.queueDer ∧
    (merge E g other ty).st.bankDer = g.st.bankDer ∧ (merge E g other ty).st.costDer = g.st.costDer ∧
    (merge E g other ty).st.deleted = (g.st.addDeleted other).deleted ∧ (merge E g other ty).phase = g.phase := by
  refine ⟨?_, ?_, ?_, ?_, rfl, rfl⟩ <;> (simp only [merge]; unfold St.addDeleted; split <;> rfl)

theorem merge_dsub (E : Env α) (g : Gen α) (other : Prog) (ty : Nat) : DSub g.st (merge E g other ty).st := by
  intro p hp
  rw [(merge_st_fields E g other ty).2.2.2.2.1]
  exact addDeleted_sub _ _ p hp

theorem merge_kids (E : Env α) (g : Gen α) (other : Prog) (ty : Nat) (ps : List Ref) (kids : List Prog)
    (h : KidsIn g.st ps kids) : KidsIn (merge E g other ty).st ps kids := by
  refine All2.imp ?_ h
  intro r k hk
  rcases hk with hk | hk
  · obtain ⟨S, ci, rfl, hi⟩ := mem_resolve hk
    rcases merge_bank_or E g other ty S ci k hi with h1 | h1
    · exact Or.inl ((mem_resolve_iff _ S ci k).mpr h1)
    · refine Or.inr ?_
      rw [h1, (merge_st_fields E g other ty).2.2.2.2.1]
      exact mem_addDeleted _ _
  · exact Or.inr (merge_dsub E g other ty k hk)

theorem Consumed.merge {E : Env α} {g : Gen α} {S : NT} {P : Sym} {c0 : Nat} {extra : List (List Ref)} (other : Prog) (ty : Nat)
    (h : Consumed E g.st S P c0 extra) : Consumed E (merge E g other ty).st S P c0 extra := by
  intro args w kids hrule hin
  obtain ⟨hne, c, ps, h1, h2, h3⟩ := h args w kids hrule ((merge_bank_sub E g other ty).inBank hin)
  exact ⟨hne, c, ps, by rw [(merge_st_fields E g other ty).2.2.1]; exact h1, merge_kids E g other ty ps kids h2, h3⟩

/-- **`merge_program` keeps the bank invariant** -/
theorem ninv_merge {E : Env α} {g : Gen α} {L : NT → List (Sym × Nat)} (other : Prog) (ty : Nat) (hN : NInv E g.st L)
    (hM : MergeOK E g other ty) : NInv E (merge E g other ty).st L := by
  have hsub := merge_bank_sub E g other ty
  refine ⟨⟨?_, ?_⟩, ?_, ?_, ?_, ?_⟩
  · intro S b c l hb hl
    -- the list is a sublist of the list before
    have key : ∀ q, q ∈ l → InBankAt (merge E g other ty).st S c q := fun q hq => ⟨b, l, hb, hl, hq⟩
    obtain ⟨b0, l0, h1, h2, _⟩ : ∃ b0 l0, AList.lookup S g.st.bankNt = some b0 ∧ AList.lookup c b0 = some l0 ∧ True := by
      have hbank : (g.st.addDeleted other).bankNt = g.st.bankNt := (addDeleted_fields _ _).1
      simp only [merge] at hb
      rw [lookup_map_key _ (by intro x; obtain ⟨S, b⟩ := x; simp only; split <;> rfl), hbank] at hb
      cases hb0 : AList.lookup S g.st.bankNt with
      | none => simp [hb0] at hb
      | some b0 =>
        simp only [hb0, Option.map_some, Option.some.injEq] at hb
        split at hb
        · simp only at hb; subst hb
          rw [lookup_map_key _ (by intro x; rfl)] at hl
          cases hl0 : AList.lookup c b0 with
          | none => simp [hl0] at hl
          | some l0 => exact ⟨b0, l0, rfl, hl0, trivial⟩
        · simp only at hb; subst hb
          exact ⟨b0, l, rfl, hl, trivial⟩
    -- recompute `l` from `l0`
    have hl' : l = (if matched E ty S then removeFirst other l0 else l0) := by
      have hbank : (g.st.addDeleted other).bankNt = g.st.bankNt := (addDeleted_fields _ _).1
      simp only [merge] at hb
      rw [lookup_map_key _ (by intro x; obtain ⟨S, b⟩ := x; simp only; split <;> rfl), hbank, h1] at hb
      simp only [Option.map_some, Option.some.injEq] at hb
      by_cases hm : matched E ty S = true
      · have hm' : (AList.lookup S E.G.ty = some ty && (AList.lookup S E.G.rules).isSome) = true := hm
        simp only [hm', if_true] at hb
        subst hb
        rw [lookup_map_key _ (by intro x; rfl), h2] at hl
        simp only [Option.map_some, Option.some.injEq] at hl
        rw [if_pos hm]; exact hl.symm
      · have hm2 : matched E ty S = false := by simpa using hm
        have hm' : (AList.lookup S E.G.ty = some ty && (AList.lookup S E.G.rules).isSome) = false := hm2
        simp only [hm', Bool.false_eq_true, if_false] at hb
        subst hb
        rw [h2] at hl
        simp only [Option.some.injEq] at hl
        rw [if_neg hm]; exact hl.symm
    rw [hl']
    have hnd := hN.binv.1 S b0 c l0 h1 h2
    split
    · exact hnd.sublist (removeFirst_sublist other l0)
    · exact hnd
  · intro S ci cj p h1 h2
    exact hN.binv.2 S ci cj p (hsub S ci p h1) (hsub S cj p h2)
  · intro S hh d hl hd
    rw [(merge_st_fields E g other ty).1] at hl
    exact (hN.heapc S hh d hl hd).merge other ty
  · intro S P c0 hm
    exact (hN.limboc S P c0 hm).merge other ty
  · intro S c q hq
    exact hN.accb S c q (hsub S c q hq)
  · intro p hp S c hin
    rw [(merge_st_fields E g other ty).2.2.2.2.1] at hp
    rcases mem_addDeleted_iff _ _ _ hp with h1 | h1
    · exact hN.delout p h1 S c (hsub S c p hin)
    · subst h1
      exact merge_other_out E g p ty hN.binv hM S c hin

theorem frok_merge {E : Env α} {g : Gen α} {L : NT → List (Sym × Nat)} {fr : Frame α} (other : Prog) (ty : Nat)
    (h : FrOK E g.st L fr) : FrOK E (merge E g other ty).st L fr := by
  unfold FrOK at *
  split
  · trivial
  · rename_i P possRem tups hcur
    rw [hcur] at h
    simp only at h
    obtain ⟨args, w, c0, done, a1, a2, a3, a4, a5, a6, a7, a8, a9⟩ := h
    have f := merge_st_fields E g other ty
    refine ⟨args, w, c0, done, a1, a2, ?_, a4.merge other ty, ?_, a6, a7, ?_, ?_⟩
    · rw [f.2.2.1]; exact a3
    · rw [f.1]; exact a5
    · intro tup ht hin; exact a8 tup ht ((merge_bank_sub E g other ty).inBank hin)
    · intro tup ht
      obtain ⟨ps, hps, hp, hk⟩ := a9 tup ht
      exact ⟨ps, hps, by rw [f.2.2.1]; exact hp, merge_kids E g other ty ps tup hk⟩

/-! ### the generator along histories -/

/-- the invariant of the generator object, with the prologue invariant of a new one -/
def GI2 (E : Env α) (fuel : Nat) (g : Gen α) : Prop := GI E fuel g ∧ GInv E g ∧ (g.phase = .fresh → ZInv g.st [])

theorem gen_new_gi2 (E : Env α) (fuel : Nat) (g : Gen α) (h : Gen.new E = some g) : GI2 E fuel g := by
  refine ⟨gen_new_gi E fuel g h (fun s hp hS hE => prologue_tinv2 E fuel g h s hp hS hE), gen_new_ginv E g h, fun _ => ?_⟩
  unfold Gen.new at h
  cases hi : St.init E with
  | none => simp [hi] at h
  | some s0 =>
    simp only [hi, Option.map_some, Option.some.injEq] at h
    subst h
    exact init_zinv E s0 hi

theorem next_gi2 (E : Env α) (hG : RowsNodup E.G) (fuel : Nat) (g g' : Gen α) (out : Option Prog)
    (h : next E fuel g = some (g', out)) (hg : GI2 E fuel g) : GI2 E fuel g' := by
  obtain ⟨a, _, _⟩ := next_gi E hG fuel g g' out h hg.1
  refine ⟨a, (next_sound E fuel g g' out h hg.2.1).1, ?_⟩
  intro hf
  -- a generator is fresh after `next` only if it was stopped … which is not fresh
  unfold next at h
  split at h
  · rename_i hph
    simp only [Option.some.injEq, Prod.mk.injEq] at h
    rw [← h.1] at hf; rw [hph] at hf; cases hf
  · split at h
    · simp at h
    · exact absurd hf (nextLoop_not_fresh E fuel _ _ _ _ _ _ _ h)
  · exact absurd hf (nextLoop_not_fresh E fuel _ _ _ _ _ _ _ h)
  · exact absurd hf (nextLoop_not_fresh E fuel _ _ _ _ _ _ _ h)

/-- `other` is only derivable from non-terminals `merge_program` visits for the type `ty` -/
def TyOK (E : Env α) (other : Prog) (ty : Nat) : Prop := ∀ S, derives E.G S other = true → matched E ty S = true

theorem mergeOK_of_tyOK {E : Env α} {g : Gen α} {other : Prog} {ty : Nat} (hg : GInv E g) (h : TyOK E other ty) :
    MergeOK E g other ty := by
  intro S c hin
  obtain ⟨b, l, h1, h2, h3⟩ := hin
  exact h S (hg.1.1 S b c l other h1 h2 h3)

theorem merge_gi2 (E : Env α) (fuel : Nat) (g : Gen α) (other : Prog) (ty : Nat) (hg : GI2 E fuel g) (hT : TyOK E other ty) :
    GI2 E fuel (merge E g other ty) := by
  have f := merge_st_fields E g other ty
  have hM := mergeOK_of_tyOK hg.2.1 hT
  have hginv := merge_ginv E g other ty hg.2.1
  have hz : g.phase = .fresh → ZInv (merge E g other ty).st [] := fun hf => zinv_of_eq f.2.1 f.2.2.2.1 (hg.2.2 hf)
  refine ⟨⟨?_, ?_⟩, hginv, fun hf => hz (f.2.2.2.2.2 ▸ hf)⟩
  · intro hf
    rw [f.2.2.2.2.2] at hf
    obtain ⟨hI, hS, hE, _⟩ := hg.1.1 hf
    have hh := merge_hinv E g other ty ⟨iinv_hinv hI, fun _ => hI⟩
    refine ⟨hh.2 (by rw [f.2.2.2.2.2, hf]), hginv.1, ?_, ?_⟩
    · refine ⟨?_, ?_⟩
      · intro S b hb
        -- banks stay empty
        by_cases hb0 : b = []
        · exact hb0
        · exfalso
          cases b with
          | nil => exact hb0 rfl
          | cons x xs =>
            obtain ⟨c, l⟩ := x
            have hin : AList.lookup c ((c, l) :: xs) = some l := by simp [AList.lookup]
            -- any entry of a merged bank comes from an entry of the bank before
            have hbank : (g.st.addDeleted other).bankNt = g.st.bankNt := (addDeleted_fields _ _).1
            simp only [merge] at hb
            rw [lookup_map_key _ (by intro x; obtain ⟨S, b⟩ := x; simp only; split <;> rfl), hbank] at hb
            cases hb1 : AList.lookup S g.st.bankNt with
            | none => simp [hb1] at hb
            | some b1 =>
              rw [hE.1 S b1 hb1] at hb1
              simp only [hb1, Option.map_some, Option.some.injEq] at hb
              split at hb <;> simp at hb
      · intro a b hb
        rw [f.2.2.1] at hb
        exact hE.2 a b hb
    · intro s hp hS' hE'
      exact tinv2_of_zinv hS' hE' (prologue_zinv E fuel _ _ hp (hz hf))
  · intro hne
    rw [f.2.2.2.2.2] at hne
    obtain ⟨hH, hT2, hN, hF⟩ := hg.1.2 hne
    refine ⟨hinv_of_eq f.1 hH, tinv2_of_eq f.2.1 f.2.2.1 hT2, ninv_merge other ty hN hM, ?_⟩
    intro n fr he
    rw [f.2.2.2.2.2] at he
    obtain ⟨h1, h2⟩ := hF n fr he
    exact ⟨frok_merge other ty h1, h2⟩

/-! ### `_deleted` grows along `next` -/

theorem nextLoop_dsub (E : Env α) (fuel : Nat) : ∀ (k : Nat) (s : St α) (n : Nat) (fr? : Option (Frame α)) (failed : Bool)
    (g' : Gen α) (out : Option Prog), nextLoop E fuel k s n fr? failed = some (g', out) → DSub s g'.st := by
  intro k
  induction k with
  | zero => intro s n fr? failed g' out h; simp [nextLoop] at h
  | succ k ih =>
    intro s n fr? failed g' out h
    rw [nextLoop.eq_def] at h
    simp only at h
    split at h
    · simp at h
    · rename_i s0 hstart
      have hs0 : s0 = { s with failedByEmpties := false } := by
        split at hstart
        · simp at hstart
        · split at hstart
          · simp at hstart
          · split at hstart
            · simp only [Option.some.injEq, Prod.mk.injEq] at hstart
              exact hstart.1.symm
            · simp at hstart
      subst hs0
      split at h
      · simp only [Option.some.injEq, Prod.mk.injEq] at h
        rw [← h.1]; exact DSub.of_eq rfl
      · have h9 := ih _ _ _ _ _ _ h
        exact (DSub.of_eq (s := s) rfl).trans h9
    · rename_i s0 fr hstart
      have key : DSub s s0 := by
        split at hstart
        · simp only [Option.some.injEq, Prod.mk.injEq] at hstart
          rw [← hstart.1]; exact DSub.refl _
        · split at hstart
          · simp at hstart
          · split at hstart
            · simp at hstart
            · simp only [Option.some.injEq, Prod.mk.injEq] at hstart
              rw [← hstart.1]; exact DSub.of_eq rfl
      split at h
      · simp at h
      · rename_i s1 fr1 p hr
        simp only [Option.some.injEq, Prod.mk.injEq] at h
        rw [← h.1]
        exact key.trans ((dok_all E fuel).resume _ _ _ hr)
      · rename_i s1 hr
        have m1 : DSub s s1 := key.trans ((dok_all E fuel).resume _ _ _ hr)
        split at h
        · simp only [Option.some.injEq, Prod.mk.injEq] at h
          rw [← h.1]; exact m1
        · exact m1.trans (ih _ _ _ _ _ _ h)

theorem next_dsub (E : Env α) (fuel : Nat) (g g' : Gen α) (out : Option Prog) (h : next E fuel g = some (g', out)) :
    DSub g.st g'.st := by
  unfold next at h
  split at h
  · simp only [Option.some.injEq, Prod.mk.injEq] at h
    rw [← h.1]; exact DSub.refl _
  · split at h
    · simp at h
    · rename_i s hp
      exact (DSub.of_eq (prologue_bk E fuel _ _ hp).2.2).trans (nextLoop_dsub E fuel _ _ _ _ _ _ _ h)
  · exact nextLoop_dsub E fuel _ _ _ _ _ _ _ h
  · exact nextLoop_dsub E fuel _ _ _ _ _ _ _ h

/-- the programs yielded so far are still in a bank of the start symbol, or deleted -/
def Seen (E : Env α) (g : Gen α) (out : List Prog) : Prop :=
  out.Nodup ∧ ∀ q ∈ out, InBank g.st E.G.start q ∨ q ∈ g.st.deleted

theorem take_gi2 (E : Env α) (hG : RowsNodup E.G) (fuel : Nat) : ∀ (k : Nat) (g : Gen α) (acc : List Prog) (g' : Gen α)
    (ys : List Prog) (fin : Bool), take E fuel k g acc = some (g', ys, fin) → GI2 E fuel g → Seen E g acc →
    GI2 E fuel g' ∧ Seen E g' ys := by
  intro k
  induction k with
  | zero =>
    intro g acc g' ys fin h hg hs
    simp only [take, Option.some.injEq, Prod.mk.injEq] at h
    obtain ⟨h1, h2, _⟩ := h
    subst h1; subst h2
    exact ⟨hg, hs⟩
  | succ k ih =>
    intro g acc g' ys fin h hg hs
    rw [take] at h
    split at h
    · simp at h
    · rename_i g1 hn
      simp only [Option.some.injEq, Prod.mk.injEq] at h
      obtain ⟨h1, h2, _⟩ := h
      subst h1; subst h2
      obtain ⟨_, b, _⟩ := next_gi E hG fuel g g1 none hn hg.1
      have d := next_dsub E fuel g g1 none hn
      exact ⟨next_gi2 E hG fuel g g1 none hn hg, hs.1, fun q hq => (hs.2 q hq).elim (fun a => Or.inl (b.inBank a)) (fun a => Or.inr (d q a))⟩
    · rename_i g1 p1 hn
      obtain ⟨_, b, c⟩ := next_gi E hG fuel g g1 (some p1) hn hg.1
      obtain ⟨c1, c2⟩ := c p1 rfl
      have d := next_dsub E fuel g g1 (some p1) hn
      have hy := (next_yield E fuel g g1 p1 hn).2
      have hnd : p1 ∉ g1.st.deleted := by simpa using hy
      have hs1 : Seen E g1 (acc ++ [p1]) := by
        refine ⟨?_, ?_⟩
        · rw [List.nodup_append]
          refine ⟨hs.1, by simp, ?_⟩
          intro x hx y hy' hxy
          simp only [List.mem_singleton] at hy'
          subst hy'; subst hxy
          rcases hs.2 x hx with h3 | h3
          · exact c1 h3
          · exact hnd (d x h3)
        · intro q hq
          rcases List.mem_append.mp hq with h3 | h3
          · exact (hs.2 q h3).elim (fun a => Or.inl (b.inBank a)) (fun a => Or.inr (d q a))
          · simp only [List.mem_singleton] at h3; subst h3; exact Or.inl c2
      exact ih _ _ _ _ _ h (next_gi2 E hG fuel g g1 (some p1) hn hg) hs1

theorem take_acc (E : Env α) (fuel : Nat) : ∀ (k : Nat) (g : Gen α) (acc : List Prog),
    take E fuel k g acc = (take E fuel k g []).map fun r => (r.1, acc ++ r.2.1, r.2.2) := by
  intro k
  induction k with
  | zero => intro g acc; simp [take]
  | succ k ih =>
    intro g acc
    rw [take, take]
    cases hn : next E fuel g with
    | none => simp
    | some r =>
      obtain ⟨g1, o⟩ := r
      cases o with
      | none => simp
      | some p =>
        simp only
        rw [ih g1 (acc ++ [p]), ih g1 ([] ++ [p])]
        cases take E fuel k g1 [] with
        | none => simp
        | some r2 => simp [List.append_assoc]

/-- every `merge_program` of the history declares a type under which `other` is found -/
def ActsOK (E : Env α) : List Act → Prop
  | [] => True
  | .merge p t :: rest => TyOK E p t ∧ ActsOK E rest
  | .take _ :: rest => ActsOK E rest

/-- **NO DUPLICATES along every history** of `next` and `merge_program` calls -/
theorem runHist_gi2 (E : Env α) (hG : RowsNodup E.G) (fuel : Nat) : ∀ (acts : List Act) (g : Gen α) (out : List Prog) (g' : Gen α)
    (ys : List Prog), runHist E fuel acts g out = some (g', ys) → ActsOK E acts → GI2 E fuel g → Seen E g out →
    GI2 E fuel g' ∧ Seen E g' ys
  | [], g, out, g', ys, h, _, hg, hs => by
    simp only [runHist, Option.some.injEq, Prod.mk.injEq] at h
    rw [← h.1, ← h.2]; exact ⟨hg, hs⟩
  | .merge p t :: rest, g, out, g', ys, h, ha, hg, hs => by
    rw [runHist] at h
    refine runHist_gi2 E hG fuel rest _ out g' ys h ha.2 (merge_gi2 E fuel g p t hg ha.1) ⟨hs.1, ?_⟩
    intro q hq
    rcases hs.2 q hq with h1 | h1
    · obtain ⟨c, hc⟩ := h1
      rcases merge_bank_or E g p t _ c q hc with h2 | h2
      · exact Or.inl ⟨c, h2⟩
      · refine Or.inr ?_
        rw [h2, (merge_st_fields E g p t).2.2.2.2.1]
        exact mem_addDeleted _ _
    · exact Or.inr (merge_dsub E g p t q h1)
  | .take k :: rest, g, out, g', ys, h, ha, hg, hs => by
    rw [runHist] at h
    split at h
    · simp at h
    · rename_i g1 ys1 fin ht
      have ht2 : take E fuel k g out = some (g1, out ++ ys1, fin) := by
        rw [take_acc, ht]; rfl
      obtain ⟨a, b⟩ := take_gi2 E hG fuel k g out g1 (out ++ ys1) fin ht2 hg hs
      exact runHist_gi2 E hG fuel rest g1 _ g' ys h ha a b

end PS.CD
