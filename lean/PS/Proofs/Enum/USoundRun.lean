/- Soundness of the heap search on unambiguous grammars: the generator level
   (`start_query`, the k-way merge of the start symbols, `next`, `take`). -/
import PS.Proofs.Enum.USound
namespace PS.UHS
open PS PS.G
set_option linter.unusedSectionVars false
variable {U π : Type} [DecidableEq U]

theorem sinv_empty (E : Env U π) : SInv E (St.empty E.G) := by
  have hnil : ∀ (l : AList (UNT U) (AList Sym (List (List (UNT U) × Rat)))) (nt : UNT U) {β : Type} (x : β),
      x ∈ (AList.lookup nt (l.map (fun r => (r.1, ([] : List β))))).getD [] → False := by
    intro l nt β x hx
    induction l with
    | nil => simp at hx
    | cons a l ih =>
      simp only [List.map_cons, AList.lookup] at hx
      split at hx
      · simp at hx
      · exact ih hx
  refine ⟨?_, ?_, ?_, ?_, ?_, ?_, ?_, ?_, ?_⟩
  · intro p nt pr h; simp [St.empty] at h
  · intro nt e he; exact (hnil _ nt e he).elim
  · intro nt e he; exact (hnil _ nt e he).elim
  · intro nt p hp; exact (hnil _ nt p hp).elim
  · intro nt k v hk
    exact (hnil E.G.rules nt (k, v) (AList.lookup_some_mem hk)).elim
  · intro nt F kids v h; simp [St.empty] at h
  · intro nt m h; simp [St.empty] at h
  · intro nt P v m h; simp [St.empty] at h
  · intro e he; simp [St.empty] at he

/-- `__push_next_from_start__(start, program)` -/
theorem SInv.pushNext {E : Env U π} (H : GHyp E) {fuel : Nat} {s s' : St U π} {start : UNT U} {p : Option Prog}
    (h : SInv E s) (hp : pushNext E fuel s start p = some s') : SInv E s' := by
  unfold UHS.pushNext at hp
  split at hp
  · simp at hp
  · rename_i s1 hq
    simp only [Option.some.injEq] at hp; subst hp
    exact (big_sound E H (big_of_query E hq) h trivial).1
  · rename_i s1 q hq
    obtain ⟨h1, hpost⟩ := big_sound E H (big_of_query E hq) h trivial
    have hd : Der E q start := hpost q rfl
    split at hp
    · rename_i s2 pr w hcp hw
      simp only [Option.some.injEq] at hp; subst hp
      obtain ⟨hpr, h2, _⟩ := h1.computePrio H start q hd s2 pr hcp
      refine ⟨h2.cache_ok, h2.heap_prio, h2.heap_seen, h2.seen_der, h2.succ_seen, h2.keys_ok, h2.maxNT_ok,
        h2.maxRule_ok, ?_⟩
      intro e he
      rcases List.mem_cons.mp ((Heapq.push_perm (ltS E.ops) _ _).subset he) with rfl | hm
      · exact ⟨w, pr, hw, hpr, rfl⟩
      · exact h2.start_ok e hm
    · simp at hp

theorem SInv.pushNexts {E : Env U π} (H : GHyp E) {fuel : Nat} : ∀ (l : List (UNT U)) {s s' : St U π},
    SInv E s → pushNexts E fuel l s = some s' → SInv E s'
  | [], s, s', h, hp => by simp only [UHS.pushNexts, Option.some.injEq] at hp; subst hp; exact h
  | nt :: rest, s, s', h, hp => by
    simp only [UHS.pushNexts] at hp
    split at hp
    · simp at hp
    · rename_i s1 h1
      exact SInv.pushNexts H rest (h.pushNext H h1) hp

/-- a program derivable from a start symbol -/
def DerStart (E : Env U π) (p : Prog) : Prop := ∃ nt w, startW E nt = some w ∧ Der E p nt

theorem SInv.kwayLoop {E : Env U π} (H : GHyp E) {fuel : Nat} : ∀ (k : Nat) {s s' : St U π} {r : Option Prog},
    SInv E s → kwayLoop E fuel k s = some (s', r) → SInv E s' ∧ ∀ p, r = some p → DerStart E p
  | 0, s, s', r, _, hp => by simp [UHS.kwayLoop] at hp
  | k + 1, s, s', r, h, hp => by
    simp only [UHS.kwayLoop] at hp
    split at hp
    · simp only [Option.some.injEq, Prod.mk.injEq] at hp
      obtain ⟨rfl, rfl⟩ := hp
      exact ⟨h, by intro p hp; cases hp⟩
    · rename_i e h' hpop
      obtain ⟨hm, hsub⟩ := mem_of_pop _ _ _ _ hpop
      have h0 : SInv E { s with startHeap := h' } :=
        ⟨h.cache_ok, h.heap_prio, h.heap_seen, h.seen_der, h.succ_seen, h.keys_ok, h.maxNT_ok, h.maxRule_ok,
          fun e he => h.start_ok e (hsub e he)⟩
      split at hp
      · simp at hp
      · rename_i s1 hpn
        have h1 := h0.pushNext H hpn
        split at hp
        · exact SInv.kwayLoop H k h1 hp
        · simp only [Option.some.injEq, Prod.mk.injEq] at hp
          obtain ⟨rfl, rfl⟩ := hp
          refine ⟨h1, ?_⟩
          intro p hp; cases hp
          obtain ⟨w, pr, hw, hpr, _⟩ := h.start_ok e hm
          exact ⟨e.2.2, w, hw, pr, hpr⟩

theorem SInv.startQuery {E : Env U π} (H : GHyp E) {fuel : Nat} {s s' : St U π} {r : Option Prog}
    (h : SInv E s) (hp : startQuery E fuel s = some (s', r)) : SInv E s' ∧ ∀ p, r = some p → DerStart E p := by
  unfold UHS.startQuery at hp
  simp only [H.kway, if_true] at hp
  split at hp
  · simp at hp
  · rename_i s1 h1
    refine SInv.kwayLoop H fuel ?_ hp
    split at h1
    · exact h.pushNexts H _ h1
    · simp only [Option.some.injEq] at h1; subst h1; exact h

theorem SInv.addDeleted {E : Env U π} {s : St U π} (h : SInv E s) (p : Prog) : SInv E (s.addDeleted p) := by
  unfold St.addDeleted
  split
  · exact h
  · exact ⟨h.cache_ok, h.heap_prio, h.heap_seen, h.seen_der, h.succ_seen, h.keys_ok, h.maxNT_ok, h.maxRule_ok, h.start_ok⟩

theorem SInv.next {E : Env U π} (H : GHyp E) {fuel : Nat} : ∀ (k : Nat) {s s' : St U π} {r : Option Prog},
    SInv E s → next E fuel k s = some (s', r) → SInv E s' ∧ ∀ p, r = some p → DerStart E p
  | 0, s, s', r, _, hp => by simp [UHS.next] at hp
  | k + 1, s, s', r, h, hp => by
    simp only [UHS.next] at hp
    split at hp
    · simp at hp
    · rename_i s1 hq
      simp only [Option.some.injEq, Prod.mk.injEq] at hp
      obtain ⟨rfl, rfl⟩ := hp
      exact ⟨(h.startQuery H hq).1, by intro p hp; cases hp⟩
    · rename_i s1 p hq
      obtain ⟨h1, hd⟩ := h.startQuery H hq
      split at hp
      · simp only [Option.some.injEq, Prod.mk.injEq] at hp
        obtain ⟨rfl, rfl⟩ := hp
        exact ⟨h1, hd⟩
      · exact SInv.next H k (h1.addDeleted p) hp

theorem SInv.take {E : Env U π} (H : GHyp E) {fuel : Nat} : ∀ (k : Nat) {s s' : St U π} {acc out : List Prog} {b : Bool},
    SInv E s → (∀ p ∈ acc, DerStart E p) → take E fuel k s acc = some (s', out, b) →
    SInv E s' ∧ ∀ p ∈ out, DerStart E p
  | 0, s, s', acc, out, b, h, hacc, hp => by
    simp only [UHS.take, Option.some.injEq, Prod.mk.injEq] at hp
    obtain ⟨rfl, rfl, _⟩ := hp
    exact ⟨h, hacc⟩
  | k + 1, s, s', acc, out, b, h, hacc, hp => by
    simp only [UHS.take] at hp
    split at hp
    · simp at hp
    · rename_i s1 hn
      simp only [Option.some.injEq, Prod.mk.injEq] at hp
      obtain ⟨rfl, rfl, _⟩ := hp
      exact ⟨(h.next H fuel hn).1, hacc⟩
    · rename_i s1 p hn
      obtain ⟨h1, hd⟩ := h.next H fuel hn
      refine SInv.take H k h1 ?_ hp
      intro q hq
      rcases List.mem_append.mp hq with hq | hq
      · exact hacc q hq
      · simp only [List.mem_singleton] at hq; subst hq; exact hd q rfl

/-! ### the hypotheses as Boolean checks on a literal grammar -/

theorem altsOf_mem (E : Env U π) (nt : UNT U) (F : Sym) (x : List (UNT U) × Rat) (h : x ∈ altsOf E nt F) :
    ∃ rs, (nt, rs) ∈ E.G.rules ∧ ∃ a, (F, a) ∈ rs ∧ x ∈ a := by
  unfold altsOf at h
  cases hl : AList.lookup nt E.G.rules with
  | none => simp [hl] at h
  | some rs =>
    simp only [hl] at h
    cases hl2 : AList.lookup F rs with
    | none => simp [hl2] at h
    | some a =>
      simp only [hl2, Option.getD_some] at h
      exact ⟨rs, AList.lookup_some_mem hl, a, AList.lookup_some_mem hl2, h⟩

def rowsB (G : UG U) : Bool := G.rules.all (fun r => decide (AList.keys r.2).Nodup)
def arityB (G : UG U) : Bool :=
  G.rules.all (fun r => r.2.all (fun a => a.2.all (fun x => a.2.all (fun y => x.1.length == y.1.length))))

theorem GHyp.of_checks (E : Env U π) (h1 : rowsB E.G = true) (h2 : arityB E.G = true) (h3 : E.kway = true) :
    GHyp E := by
  refine ⟨?_, ?_, h3⟩
  · intro nt rs hl
    have := List.all_eq_true.mp h1 (nt, rs) (AList.lookup_some_mem hl)
    simpa using this
  · intro _ nt F v w v' w' hm hm'
    unfold altsOf at hm hm'
    cases hl : AList.lookup nt E.G.rules with
    | none => simp [hl] at hm
    | some rs =>
      simp only [hl] at hm hm'
      cases hl2 : AList.lookup F rs with
      | none => simp [hl2] at hm
      | some a =>
        simp only [hl2, Option.getD_some] at hm hm'
        have r1 := List.all_eq_true.mp h2 (nt, rs) (AList.lookup_some_mem hl)
        have r2 := List.all_eq_true.mp r1 (F, a) (AList.lookup_some_mem hl2)
        have r3 := List.all_eq_true.mp r2 (v, w) hm
        have r4 := List.all_eq_true.mp r3 (v', w') hm'
        simpa using r4

end PS.UHS
