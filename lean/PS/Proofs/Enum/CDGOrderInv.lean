/- Global order argument, heap layer: the invariant `OInv` and its preservation by every function of the query block
   (exact rationals, acyclic grammars), under the hypothesis that the cost lists of the derivation queues in the
   state reached are non-decreasing. -/
import PS.Proofs.Enum.CDGOrder
namespace PS.CD

theorem ltD_rat (b : Bool) (x y : Deriv Rat) :
    ltD (ratA b) x y = if x.cost = y.cost then decide (x.comb < y.comb) else decide (x.cost < y.cost) := by
  unfold ltD
  simp [ratA, ratArith]

/-- `Derivation.__lt__` on exact rationals is a strict weak order -/
theorem ltD_weak (b : Bool) : Heapq.WeakOrder (ltD (ratA b)) := by
  constructor
  · intro x y h
    rw [ltD_rat] at h ⊢
    split at h <;> split <;> simp_all <;> grind
  · intro x y z h1 h2
    rw [ltD_rat] at h1 h2 ⊢
    split at h1 <;> split at h2 <;> split <;> simp_all <;> grind

theorem ltD_false_cost (b : Bool) (x y : Deriv Rat) (h : ltD (ratA b) x y = false) : y.cost ≤ x.cost := by
  rw [ltD_rat] at h
  split at h
  · rename_i he; rw [he]; exact Rat.le_refl
  · exact Rat.not_lt.mp (by simpa using h)

/-- the root of a valid heap is cheapest -/
theorem root_cheapest (b : Bool) (d : Deriv Rat) (rest : List (Deriv Rat)) (hh : Heapq.IsHeap (ltD (ratA b)) (d :: rest))
    (d' : Deriv Rat) (hd : d' ∈ d :: rest) : d.cost ≤ d'.cost := by
  obtain ⟨i, hi, rfl⟩ := List.getElem_of_mem hd
  have := Heapq.root_min (ltD (ratA b)) (ltD_weak b).ntrans (ltD_weak b).irrefl (d :: rest) hh i hi
  exact ltD_false_cost b _ _ (by simpa using this)

/-- the grammar is acyclic: arguments have a smaller rank -/
def Acy (E : Env Rat) (rank : NT → Nat) : Prop :=
  ∀ S P args w, E.G.rule? S P = some (args, w) → ∀ a ∈ args, rank a < rank S

/-- the cost lists of the derivation queues are non-decreasing -/
def DSorted (s : St Rat) : Prop := ∀ args cl, AList.lookup args s.costDer = some cl → cl.Pairwise (· ≤ ·)

theorem DSorted.of_cmono {s s' : St Rat} (h : CMono s s') (hs : DSorted s') : DSorted s := by
  intro a cl hl
  obtain ⟨cl', h1, h2⟩ := h a cl hl
  exact (hs a cl' h1).sublist h2.sublist

/-- the cost of a pending `Derivation` of a rule with arguments is `w + _cost_lists_derivation[args][comb]` -/
def Link (E : Env Rat) (s : St Rat) (S : NT) (d : Deriv Rat) : Prop :=
  ∀ args w, E.G.rule? S d.P = some (args, w) → args ≠ [] →
    ∃ cl c, AList.lookup args s.costDer = some cl ∧ cl[d.comb]? = some c ∧ d.cost = (w : Rat) + c

/-- every entry of `_cost_lists_nt[S]` is at most `x` -/
def Low (s : St Rat) (S : NT) (x : Rat) : Prop := ∀ cl, AList.lookup S s.costNt = some cl → ∀ c ∈ cl, c ≤ x

theorem Link.mono {E : Env Rat} {s s' : St Rat} {S : NT} {d : Deriv Rat} (h : CMono s s') (hl : Link E s S d) :
    Link E s' S d := by
  intro args w hr hne
  obtain ⟨cl, c, h1, h2, h3⟩ := hl args w hr hne
  obtain ⟨cl', h4, ⟨t, rfl⟩⟩ := h args cl h1
  refine ⟨cl ++ t, c, h4, ?_, h3⟩
  rw [List.getElem?_append_left (List.getElem?_eq_some_iff.mp h2).1]; exact h2

/-- the order invariant: valid heaps above their cost lists, cost links, sorted cost lists; `L` the popped elements
    of suspended frames -/
structure OInv (E : Env Rat) (s : St Rat) (L : List (NT × Deriv Rat)) : Prop where
  heap : ∀ S h, AList.lookup S s.queueNt = some h → Heapq.IsHeap (ltD E.A) h ∧ ∀ d ∈ h, Low s S d.cost ∧ Link E s S d
  sorted : ∀ S cl, AList.lookup S s.costNt = some cl → cl.Pairwise (· ≤ ·)
  limbo : ∀ x ∈ L, Low s x.1 x.2.cost ∧ Link E s x.1 x.2

theorem oinv_transfer {E : Env Rat} {s s' : St Rat} {L : List (NT × Deriv Rat)} (h : OInv E s L)
    (hq : s'.queueNt = s.queueNt) (hc : s'.costNt = s.costNt) (hm : CMono s s') : OInv E s' L := by
  have hlow : ∀ S x, Low s S x → Low s' S x := by
    intro S x hl; unfold Low; rw [hc]; exact hl
  refine ⟨?_, ?_, ?_⟩
  · intro S hh hl
    rw [hq] at hl
    obtain ⟨a, b⟩ := h.heap S hh hl
    exact ⟨a, fun d hd => ⟨hlow S _ (b d hd).1, (b d hd).2.mono hm⟩⟩
  · rw [hc]; exact h.sorted
  · intro x hx
    exact ⟨hlow _ _ (h.limbo x hx).1, (h.limbo x hx).2.mono hm⟩

theorem oinv_of_eq {E : Env Rat} {s s' : St Rat} {L : List (NT × Deriv Rat)} (hq : s'.queueNt = s.queueNt)
    (hc : s'.costNt = s.costNt) (hd : s'.costDer = s.costDer) (h : OInv E s L) : OInv E s' L :=
  oinv_transfer h hq hc (CMono.of_eq hd)

theorem oinv_sub {E : Env Rat} {s : St Rat} {L L' : List (NT × Deriv Rat)} (h : OInv E s L') (hs : ∀ x ∈ L, x ∈ L') :
    OInv E s L := ⟨h.heap, h.sorted, fun x hx => h.limbo x (hs x hx)⟩

theorem oinv_pop {E : Env Rat} {b : Bool} (hA : E.A = ratA b) {s : St Rat} {L : List (NT × Deriv Rat)} {S : NT}
    {heap heap' : List (Deriv Rat)} {el : Deriv Rat} (h : OInv E s L) (hl : AList.lookup S s.queueNt = some heap)
    (hp : Heapq.pop (ltD E.A) heap = some (el, heap')) : OInv E (s.setHeap S heap') ((S, el) :: L) := by
  have w : Heapq.WeakOrder (ltD E.A) := by rw [hA]; exact ltD_weak b
  have hperm := Heapq.pop_perm (ltD E.A) heap el heap' hp
  obtain ⟨hh, hm⟩ := h.heap S heap hl
  refine ⟨?_, h.sorted, ?_⟩
  · intro S' h' hl'
    simp only [St.setHeap] at hl'
    rw [AList.lookup_insert] at hl'
    split at hl'
    · rename_i he
      simp only [Option.some.injEq] at hl'; subst hl'; subst he
      refine ⟨(Heapq.pop_isHeap w heap el heap' hh hp).1, ?_⟩
      intro d hd
      exact hm d (hperm.mem_iff.mpr (List.mem_cons_of_mem _ hd))
    · exact h.heap S' h' hl'
  · intro x hx
    rcases List.mem_cons.mp hx with h1 | h1
    · subst h1; exact hm el (hperm.mem_iff.mpr List.mem_cons_self)
    · exact h.limbo x h1

theorem oinv_exit {E : Env Rat} {b : Bool} (hA : E.A = ratA b) {s s' : St Rat} {L : List (NT × Deriv Rat)} {fr : Frame Rat}
    (h : OInv E s L) (hne : ∀ x ∈ L, x.1 ≠ fr.S) (he : exitQuery s fr = some s') : OInv E s' L := by
  unfold exitQuery at he
  simp only at he
  split at he
  · simp at he
  · rename_i s1 hs1
    have h1 : OInv E s1 L := by
      split at hs1
      · split at hs1
        · simp at hs1
        · simp only [Option.some.injEq] at hs1; subst hs1; exact oinv_of_eq (s := s) rfl rfl rfl h
      · simp only [Option.some.injEq] at hs1; subst hs1; exact h
    split at he
    · rename_i d rest cl hq hcl
      simp only [Option.some.injEq] at he; subst he
      obtain ⟨hh, hm⟩ := h1.heap fr.S (d :: rest) hq
      rw [hA] at hh
      refine ⟨?_, ?_, ?_⟩
      · intro S' h' hl'
        have hl'' : AList.lookup S' s1.queueNt = some h' := hl'
        obtain ⟨a, bb⟩ := h1.heap S' h' hl''
        refine ⟨a, fun d' hd' => ⟨?_, (bb d' hd').2⟩⟩
        intro cl' hcl' c hc
        simp only [St.setCostNt] at hcl'
        rw [AList.lookup_insert] at hcl'
        split at hcl'
        · rename_i heq
          simp only [Option.some.injEq] at hcl'; subst hcl'; subst heq
          rw [hq] at hl''
          simp only [Option.some.injEq] at hl''; subst hl''
          rcases List.mem_append.mp hc with h3 | h3
          · exact (bb d' hd').1 cl hcl c h3
          · simp only [List.mem_singleton] at h3; subst h3
            exact root_cheapest b d rest hh d' hd'
        · exact (bb d' hd').1 cl' hcl' c hc
      · intro S' cl' hcl'
        simp only [St.setCostNt] at hcl'
        rw [AList.lookup_insert] at hcl'
        split at hcl'
        · simp only [Option.some.injEq] at hcl'; subst hcl'
          exact sorted_append_singleton (h1.sorted fr.S cl hcl) (fun y hy => (hm d List.mem_cons_self).1 cl hcl y hy)
        · exact h1.sorted S' cl' hcl'
      · intro x hx
        obtain ⟨a, bb⟩ := h1.limbo x hx
        refine ⟨?_, bb⟩
        intro cl' hcl' c hc
        simp only [St.setCostNt] at hcl'
        rw [AList.lookup_insert_ne _ _ (hne x hx)] at hcl'
        exact a cl' hcl' c hc
    · simp only [Option.some.injEq] at he; subst he; exact h1
    · simp at he

theorem oinv_pushNext {E : Env Rat} {b : Bool} (hA : E.A = ratA b) {s : St Rat} {L : List (NT × Deriv Rat)} {S : NT}
    {h2 : List (Deriv Rat)} {w : Int} {el : Deriv Rat} {cl : List Rat} {args : List NT} {ns : Bool}
    (h : OInv E s ((S, el) :: L)) (hD : DSorted s) (hl : AList.lookup S s.queueNt = some h2)
    (hrule : E.G.rule? S el.P = some (args, w)) (hne : args ≠ []) (hcl : AList.lookup args s.costDer = some cl) :
    OInv E (pushNext E.A s S h2 w el cl ns).1 L := by
  have hweak : OInv E s L := oinv_sub h (fun x hx => List.mem_cons_of_mem _ hx)
  have wo : Heapq.WeakOrder (ltD E.A) := by rw [hA]; exact ltD_weak b
  unfold pushNext
  split
  · rename_i c1 hc1
    have hcost : E.A.add (E.A.ofInt w) c1 = (w : Rat) + c1 := by rw [hA]; rfl
    obtain ⟨hlow, hlink⟩ := h.limbo (S, el) List.mem_cons_self
    obtain ⟨cl0, c, e1, e2, e3⟩ := hlink args w hrule hne
    rw [hcl] at e1; simp only [Option.some.injEq] at e1; subst e1
    have hle : el.cost ≤ (w : Rat) + c1 := by
      have := sorted_succ (hD args cl hcl) e2 hc1
      simp only at e3
      rw [e3]; grind
    obtain ⟨hh, hm⟩ := h.heap S h2 hl
    refine ⟨?_, h.sorted, hweak.limbo⟩
    intro S' h' hl'
    simp only [St.setHeap] at hl'
    rw [AList.lookup_insert] at hl'
    split at hl'
    · rename_i he
      simp only [Option.some.injEq] at hl'; subst hl'; subst he
      refine ⟨Heapq.push_isHeap wo h2 _ hh, ?_⟩
      intro d hd
      rcases List.mem_cons.mp ((Heapq.push_perm (ltD E.A) h2 _).mem_iff.mp hd) with h3 | h3
      · subst h3
        refine ⟨?_, ?_⟩
        · intro cl' hcl' c' hc'
          simp only [hcost]
          exact Rat.le_trans (hlow cl' hcl' c' hc') hle
        · intro args' w' hr' _
          simp only at hr'
          rw [hrule] at hr'
          simp only [Option.some.injEq, Prod.mk.injEq] at hr'
          obtain ⟨e4, e5⟩ := hr'
          subst e4; subst e5
          exact ⟨cl, c1, hcl, hc1, hcost⟩
      · exact hm d h3
    · exact h.heap S' h' hl'
  · exact hweak

/-- `query` keeps its non-terminal -/
theorem resume_frameS {α : Type} (E : Env α) : ∀ (f : Nat) (s : St α) (fr : Frame α) (s' : St α) (fr' : Frame α) (p : Prog),
    resume E f s fr = some (.yield s' fr' p) → fr'.S = fr.S := by
  intro f
  induction f with
  | zero => intro s fr s' fr' p h; simp [resume] at h
  | succ f ih =>
    intro s fr s' fr' p h
    rw [resume] at h
    split at h
    · simp only at h
      split at h
      · (have h9 := ih _ _ _ _ _ h; exact h9)
      · split at h
        · (have h9 := ih _ _ _ _ _ h; exact h9)
        · split at h
          · simp at h
          · simp only [Option.some.injEq, Res.yield.injEq] at h
            rw [← h.2.1]
    · (have h9 := ih _ _ _ _ _ h; exact h9)
    · (have h9 := ih _ _ _ _ _ h; exact h9)
    · split at h
      · simp at h
      · split at h
        · cases hx : exitQuery s fr with
          | none => simp [hx] at h
          | some s' => simp [hx] at h
        · split at h
          · cases hx : exitQuery s fr with
            | none => simp [hx] at h
            | some s' => simp [hx] at h
          · split at h
            · simp at h
            · split at h
              · split at h
                · simp only at h
                  split at h
                  · (have h9 := ih _ _ _ _ _ h; exact h9)
                  · split at h
                    · (have h9 := ih _ _ _ _ _ h; exact h9)
                    · split at h
                      · simp at h
                      · simp only [Option.some.injEq, Res.yield.injEq] at h
                        rw [← h.2.1]
                · split at h
                  · simp at h
                  · split at h
                    · simp only at h
                      split at h
                      · (have h9 := ih _ _ _ _ _ h; exact h9)
                      · (have h9 := ih _ _ _ _ _ h; exact h9)
                    · simp at h
              · simp at h

structure OOk (E : Env Rat) (rank : NT → Nat) (f : Nat) : Prop where
  resume : ∀ s fr r L, resume E f s fr = some r → OInv E s L → (∀ x ∈ L, rank fr.S < rank x.1) → DSorted r.st →
    OInv E r.st L
  drive : ∀ s fr s' L, drive E f s fr = some s' → OInv E s L → (∀ x ∈ L, rank fr.S < rank x.1) → DSorted s' → OInv E s' L
  queryList : ∀ s S ci s' ia r L, queryList E f s S ci = some (s', ia, r) → OInv E s L → (∀ x ∈ L, rank S < rank x.1) →
    DSorted s' → OInv E s' L
  argLoop : ∀ s cs ss ia agf acc s' ia' agf' acc' L, argLoop E f s cs ss ia agf acc = some (s', ia', agf', acc') →
    OInv E s L → (∀ a ∈ ss, ∀ x ∈ L, rank a < rank x.1) → DSorted s' → OInv E s' L
  combLoop : ∀ s args ci c combs ns hg s' ns' hg' L, combLoop E f s args ci c combs ns hg = some (s', ns', hg') →
    OInv E s L → (∀ a ∈ args, ∀ x ∈ L, rank a < rank x.1) → DSorted s' → OInv E s' L
  queryDer : ∀ s args ci s' l L, queryDer E f s args ci = some (s', l) →
    OInv E s L → (∀ a ∈ args, ∀ x ∈ L, rank a < rank x.1) → DSorted s' → OInv E s' L

theorem ook_resume (E : Env Rat) (b : Bool) (hA : E.A = ratA b) (rank : NT → Nat) (hAcy : Acy E rank) (f : Nat)
    (ih : OOk E rank f) : ∀ s fr r L, resume E (f + 1) s fr = some r → OInv E s L → (∀ x ∈ L, rank fr.S < rank x.1) →
    DSorted r.st → OInv E r.st L := by
  intro s fr r L h hO hR hD
  rw [resume] at h
  split at h
  · rename_i P poss tup tups hcur
    simp only at h
    split at h
    · have := ih.resume _ _ _ _ h hO hR hD
      exact this
    · split at h
      · have e := addDeleted_costDer s (.node P tup)
        have := ih.resume _ _ _ _ h (oinv_of_eq e.2.2 e.2.1 e.1 hO) hR hD
        exact this
      · split at h
        · simp at h
        · rename_i s1 hb
          simp only [Option.some.injEq] at h; subst h
          have e := appendBank_costDer hb
          exact oinv_of_eq e.2.2 e.2.1 e.1 hO
  · have := ih.resume _ _ _ _ h hO hR hD
    exact this
  · have := ih.resume _ _ _ _ h hO hR hD
    exact this
  · have hneS : ∀ x ∈ L, x.1 ≠ fr.S := fun x hx he => by
      have := hR x hx; rw [he] at this; exact Nat.lt_irrefl _ this
    split at h
    · simp at h
    · rename_i heap hl
      split at h
      · cases hx : exitQuery s fr with
        | none => simp [hx] at h
        | some s' =>
          simp only [hx, Option.map_some, Option.some.injEq] at h; subst h
          exact oinv_exit hA hO hneS hx
      · split at h
        · cases hx : exitQuery s fr with
          | none => simp [hx] at h
          | some s' =>
            simp only [hx, Option.map_some, Option.some.injEq] at h; subst h
            exact oinv_exit hA hO hneS hx
        · split at h
          · simp at h
          · rename_i el heap' hpop
            have hO0 := oinv_pop hA hO hl hpop
            split at h
            · rename_i s1 args w he hrule
              have e1 := ensureBank_costDer he
              have hO1 : OInv E s1 ((fr.S, el) :: L) := oinv_of_eq e1.2.2 e1.2.1 e1.1 hO0
              split at h
              · have hO1d : OInv E s1 L := oinv_sub hO1 (fun x hx => List.mem_cons_of_mem _ hx)
                simp only at h
                split at h
                · have := ih.resume _ _ _ _ h hO1d hR hD
                  exact this
                · split at h
                  · have e := addDeleted_costDer s1 (.node el.P [])
                    have := ih.resume _ _ _ _ h (oinv_of_eq e.2.2 e.2.1 e.1 hO1d) hR hD
                    exact this
                  · split at h
                    · simp at h
                    · rename_i s2 hb
                      simp only [Option.some.injEq] at h; subst h
                      have e := appendBank_costDer hb
                      exact oinv_of_eq e.2.2 e.2.1 e.1 hO1d
              · rename_i hemp
                have hne : args ≠ [] := by
                  intro h0; subst h0; simp at hemp
                have hR' : ∀ a ∈ args, ∀ x ∈ (fr.S, el) :: L, rank a < rank x.1 := by
                  intro a ha x hx
                  rcases List.mem_cons.mp hx with h1 | h1
                  · subst h1; exact hAcy fr.S el.P args w hrule a ha
                  · exact Nat.lt_trans (hAcy fr.S el.P args w hrule a ha) (hR x h1)
                split at h
                · simp at h
                · rename_i s2 possibles hq
                  split at h
                  · rename_i em cl h2 _ hcl hl2
                    have e3 := pushNext_costDer E.A s2 fr.S h2 w el cl fr.noSucc
                    simp only at h
                    have key : ∀ fr1, resume E f (pushNext E.A s2 fr.S h2 w el cl fr.noSucc).1 fr1 = some r → fr1.S = fr.S →
                        OInv E r.st L := by
                      intro fr1 h1 hS1
                      have m : CMono s2 r.st := (CMono.of_eq e3.1).trans ((cok_all E f).resume _ _ _ h1)
                      have hD2 : DSorted s2 := DSorted.of_cmono m hD
                      have hO2 := ih.queryDer _ _ _ _ _ _ hq hO1 hR' hD2
                      have hO3 := oinv_pushNext (ns := fr.noSucc) hA hO2 hD2 hl2 hrule hne hcl
                      exact ih.resume _ _ _ _ h1 hO3 (by rw [hS1]; exact hR) hD
                    split at h
                    · exact key _ h rfl
                    · exact key _ h rfl
                  · simp at h
            · simp at h

theorem ook_all (E : Env Rat) (b : Bool) (hA : E.A = ratA b) (rank : NT → Nat) (hAcy : Acy E rank) : ∀ f, OOk E rank f := by
  intro f
  induction f with
  | zero =>
    refine ⟨?_, ?_, ?_, ?_, ?_, ?_⟩
    · intro s fr r L h; simp [resume] at h
    · intro s fr s' L h; simp [drive] at h
    · intro s S ci s' ia r L h; simp [queryList] at h
    · intro s cs ss ia agf acc s' ia' agf' acc' L h; simp [argLoop] at h
    · intro s args ci c combs ns hg s' ns' hg' L h; simp [combLoop] at h
    · intro s args ci s' l L h; simp [queryDer] at h
  | succ f ih =>
    refine ⟨ook_resume E b hA rank hAcy f ih, ?_, ?_, ?_, ?_, ?_⟩
    · -- drive
      intro s fr s' L h hO hR hD
      rw [drive] at h
      split at h
      · simp at h
      · rename_i s1 hr
        simp only [Option.some.injEq] at h; subst h
        exact ih.resume _ _ _ _ hr hO hR hD
      · rename_i s1 fr1 p hr
        have m : CMono s1 s' := (cok_all E f).drive _ _ _ h
        have hO1 : OInv E s1 L := ih.resume _ _ _ _ hr hO hR (DSorted.of_cmono m hD)
        have hS := resume_frameS E f _ _ _ _ _ hr
        exact ih.drive _ _ _ _ h hO1 (by rw [hS]; exact hR) hD
    · -- queryList
      intro s S ci s' ia r L h hO hR hD
      rw [queryList] at h
      split at h
      · split at h
        · simp only [Option.some.injEq, Prod.mk.injEq] at h; rw [← h.1]; exact hO
        · split at h
          · simp only [Option.some.injEq, Prod.mk.injEq] at h; rw [← h.1]; exact hO
          · split at h
            · simp only [Option.some.injEq, Prod.mk.injEq] at h; rw [← h.1]; exact hO
            · split at h
              · simp at h
              · rename_i s1 hd
                have key : s' = s1 → OInv E s' L := by
                  intro he; subst he
                  exact ih.drive _ _ _ _ hd hO hR hD
                split at h
                · split at h
                  · simp only [Option.some.injEq, Prod.mk.injEq] at h; exact key h.1.symm
                  · split at h
                    · simp only [Option.some.injEq, Prod.mk.injEq] at h; exact key h.1.symm
                    · simp at h
                · simp at h
      · simp at h
    · -- argLoop
      intro s cs ss ia agf acc s' ia' agf' acc' L h hO hR hD
      cases cs with
      | nil => simp only [argLoop, Option.some.injEq, Prod.mk.injEq] at h; rw [← h.1]; exact hO
      | cons c cs =>
        cases ss with
        | nil => simp only [argLoop, Option.some.injEq, Prod.mk.injEq] at h; rw [← h.1]; exact hO
        | cons Si ss =>
          rw [argLoop] at h
          split at h
          · simp at h
          · rename_i s1 one r hq
            have hRS : ∀ x ∈ L, rank Si < rank x.1 := hR Si List.mem_cons_self
            have hR2 : ∀ a ∈ ss, ∀ x ∈ L, rank a < rank x.1 := fun a ha => hR a (List.mem_cons_of_mem _ ha)
            have recur : ∀ ia0 agf0 acc0, argLoop E f s1 cs ss ia0 agf0 acc0 = some (s', ia', agf', acc') → OInv E s' L := by
              intro ia0 agf0 acc0 h1
              have m : CMono s1 s' := (cok_all E f).argLoop _ _ _ _ _ _ _ _ _ _ h1
              have hO1 := ih.queryList _ _ _ _ _ _ _ hq hO hRS (DSorted.of_cmono m hD)
              exact ih.argLoop _ _ _ _ _ _ _ _ _ _ _ h1 hO1 hR2 hD
            split at h
            · split at h
              · simp only [Option.some.injEq, Prod.mk.injEq] at h
                have he := h.1; subst he
                exact ih.queryList _ _ _ _ _ _ _ hq hO hRS hD
              · exact recur _ _ _ h
            · exact recur _ _ _ h
    · -- combLoop
      intro s args ci c combs ns hg s' ns' hg' L h hO hR hD
      cases combs with
      | nil => simp only [combLoop, Option.some.injEq, Prod.mk.injEq] at h; rw [← h.1]; exact hO
      | cons comb rest =>
        rw [combLoop] at h
        split at h
        · simp at h
        · rename_i s1 ia agf poss ha
          simp only at h
          split at h
          · have m : CMono s1 s' := (cok_all E f).combLoop _ _ _ _ _ _ _ _ _ _ h
            have hO1 := ih.argLoop _ _ _ _ _ _ _ _ _ _ _ ha hO hR (DSorted.of_cmono m hD)
            exact ih.combLoop _ _ _ _ _ _ _ _ _ _ _ h hO1 hR hD
          · split at h
            · simp at h
            · rename_i s2 hsucc
              have e := succLoop_costs E.A E.asserts args c comb _ _ _ _ hsucc
              have e3 := (succLoop_fields E.A E.asserts args c comb _ _ _ _ hsucc).2.2
              have recur : ∀ (s3 : St Rat) ns0 hg0, s3.queueNt = s2.queueNt → s3.costNt = s2.costNt → s3.costDer = s2.costDer →
                  combLoop E f s3 args ci c rest ns0 hg0 = some (s', ns', hg') → OInv E s' L := by
                intro s3 ns0 hg0 q1 q2 q3 h1
                have m : CMono s1 s' := ((CMono.of_eq e.1).trans (CMono.of_eq q3)).trans ((cok_all E f).combLoop _ _ _ _ _ _ _ _ _ _ h1)
                have hO1 := ih.argLoop _ _ _ _ _ _ _ _ _ _ _ ha hO hR (DSorted.of_cmono m hD)
                have hO2 : OInv E s2 L := oinv_of_eq e3 e.2 e.1 hO1
                exact ih.combLoop _ _ _ _ _ _ _ _ _ _ _ h1 (oinv_of_eq q1 q2 q3 hO2) hR hD
              split at h
              · exact recur s2 _ _ rfl rfl rfl h
              · split at h
                · simp at h
                · split at h
                  · simp at h
                  · refine recur _ _ _ ?_ ?_ ?_ h <;> rfl
    · -- queryDer
      intro s args ci s' l L h hO hR hD
      rw [queryDer] at h
      split at h
      · split at h
        · simp only [Option.some.injEq, Prod.mk.injEq] at h; rw [← h.1]; exact hO
        · split at h
          · simp only [Option.some.injEq, Prod.mk.injEq] at h; rw [← h.1]; exact hO
          · simp only at h
            split at h
            · simp only [Option.some.injEq, Prod.mk.injEq] at h; rw [← h.1]; exact oinv_of_eq (s := s) rfl rfl rfl hO
            · split at h
              · simp at h
              · rename_i ct q' hpop
                split at h
                · simp at h
                · rename_i s3 ns hg hc
                  split at h
                  · simp at h
                  · rename_i s4 hs4e
                    have e4 : s4.queueNt = s3.queueNt ∧ s4.costNt = s3.costNt ∧ s4.costDer = s3.costDer := by
                      split at hs4e
                      · split at hs4e
                        · simp at hs4e
                        · simp only [Option.some.injEq] at hs4e; subst hs4e; exact ⟨rfl, rfl, rfl⟩
                      · simp only [Option.some.injEq] at hs4e; subst hs4e; exact ⟨rfl, rfl, rfl⟩
                    split at h
                    · rename_i q2 cl2 hq2 hcl2
                      split at h
                      · simp at h
                      · rename_i s5 hs5e
                        have e5 : s5.queueNt = s4.queueNt ∧ s5.costNt = s4.costNt ∧ CMono s4 s5 := by
                          split at hs5e
                          · simp only [Option.some.injEq] at hs5e; subst hs5e; exact ⟨rfl, rfl, CMono.refl _⟩
                          · split at hs5e
                            · simp at hs5e
                            · rename_i q3 _
                              split at hs5e
                              · simp at hs5e
                              · rename_i pk _
                                simp only [Option.some.injEq] at hs5e; subst hs5e
                                have : CMono (s4.setQueueDer args q3) ((s4.setQueueDer args q3).setCostDer args (cl2 ++ [pk.cost])) :=
                                  cmono_append pk.cost (s := s4.setQueueDer args q3) hcl2
                                exact ⟨rfl, rfl, (CMono.of_eq (s := s4) rfl).trans this⟩
                        split at h
                        · simp at h
                        · simp only [Option.some.injEq, Prod.mk.injEq] at h
                          have he := h.1; subst he
                          have m35 : CMono s3 s5 := (CMono.of_eq e4.2.2).trans e5.2.2
                          have hO3 := ih.combLoop _ _ _ _ _ _ _ _ _ _ _ hc (oinv_of_eq (s := s) rfl rfl rfl hO) hR
                            (DSorted.of_cmono m35 hD)
                          have hO4 : OInv E s4 L := oinv_of_eq e4.1 e4.2.1 e4.2.2 hO3
                          exact oinv_transfer hO4 e5.1 e5.2.1 e5.2.2
                    · simp at h
      · simp at h

end PS.CD
