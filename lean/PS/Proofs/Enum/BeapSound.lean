/- Soundness of beap search as a state invariant: every queue element is a rule of its non-terminal
   with a combination of the right length, every program in a bank is derivable from the
   non-terminal of the bank; kept by `_query_list_`, `query` (resume / drive), the successor loop,
   the product loop; whatever is yielded is derivable. -/
import PS.Proofs.Enum.BeapBase
namespace PS.Beap
open PS PS.G
set_option linter.unusedSectionVars false
variable {S : Type} [DecidableEq S]

structure SInv (E : Env S) (s : St S) : Prop where
  queue : ∀ nt el, el ∈ s.queueOf nt → ∃ rl, E.G.rule? nt el.P = some rl ∧ el.comb.length = rl.1.length
  bank : ∀ nt ci p, p ∈ s.bankAt nt ci → gen E.G p nt = true

theorem SInv.of_eq {E : Env S} {s s' : St S} (hq : ∀ nt, s'.queueOf nt = s.queueOf nt)
    (hb : ∀ nt ci, s'.bankAt nt ci = s.bankAt nt ci) (h : SInv E s) : SInv E s' :=
  ⟨fun nt el he => h.queue nt el (hq nt ▸ he), fun nt ci p hp => h.bank nt ci p (hb nt ci ▸ hp)⟩

theorem SInv.setQueue {E : Env S} {s : St S} (h : SInv E s) (nt : NT S Unit) (q : List HeapEl)
    (hq : ∀ el ∈ q, ∃ rl, E.G.rule? nt el.P = some rl ∧ el.comb.length = rl.1.length) : SInv E (s.setQueue nt q) := by
  refine ⟨fun nt' el he => ?_, fun nt' ci p hp => h.bank nt' ci p (by simpa using hp)⟩
  rw [St.queueOf_setQueue] at he
  split at he
  · next heq => subst heq; exact hq el he
  · exact h.queue nt' el he

theorem SInv.setBank {E : Env S} {s : St S} (h : SInv E s) (nt : NT S Unit) (ci : Nat) (ps : List Prog)
    (hp : ∀ p ∈ ps, gen E.G p nt = true) : SInv E (s.setBank nt ci ps) := by
  refine ⟨fun nt' el he => h.queue nt' el (by simpa using he), fun nt' ci' p hp' => ?_⟩
  rw [St.bankAt_setBank] at hp'
  split at hp'
  · next heq => obtain ⟨rfl, rfl⟩ := heq; exact hp p hp'
  · exact h.bank nt' ci' p hp'

theorem SInv.addDeleted {E : Env S} {s : St S} (h : SInv E s) (p : Prog) : SInv E (s.addDeleted p) :=
  h.of_eq (fun nt => St.addDeleted_queueOf s nt p) (fun nt ci => St.addDeleted_bankAt s nt p ci)

/-- the tuples still to be consumed by a suspended query build derivable programs -/
def FrInv (E : Env S) (nt : NT S Unit) (fr : Frame) : Prop :=
  ∀ a ∈ fr.pending, gen E.G (mkProg fr.P fr.isFun a) nt = true

theorem emit_sound (E : Env S) (nt : NT S Unit) (ci : Nat) (P : Sym) (isFun : Bool) :
    ∀ (pend : List (List Prog)) (s : St S), SInv E s → (∀ a ∈ pend, gen E.G (mkProg P isFun a) nt = true) →
      SInv E (emit E nt ci P isFun s pend).1 ∧
      ∀ p rest, (emit E nt ci P isFun s pend).2 = some (p, rest) →
        gen E.G p nt = true ∧ E.filter p = true ∧ p ∉ s.deleted ∧ (∀ a ∈ rest, a ∈ pend) := by
  intro pend
  induction pend with
  | nil => intro s hs _; simp [emit, hs]
  | cons a rest ih =>
    intro s hs hp
    have hrest : ∀ a' ∈ rest, gen E.G (mkProg P isFun a') nt = true := fun a' h' => hp a' (List.mem_cons_of_mem _ h')
    unfold emit
    simp only
    split
    · obtain ⟨h1, h2⟩ := ih s hs hrest
      refine ⟨h1, fun p r hpr => ?_⟩
      obtain ⟨g1, g2, g3, g4⟩ := h2 p r hpr
      exact ⟨g1, g2, g3, fun a' h' => List.mem_cons_of_mem _ (g4 a' h')⟩
    · split
      · obtain ⟨h1, h2⟩ := ih _ (hs.addDeleted _) hrest
        refine ⟨h1, fun p r hpr => ?_⟩
        obtain ⟨g1, g2, g3, g4⟩ := h2 p r hpr
        refine ⟨g1, g2, fun hin => g3 (St.addDeleted_mono _ _ _ hin), fun a' h' => List.mem_cons_of_mem _ (g4 a' h')⟩
      · next hdel hfil =>
        have hgen : gen E.G (mkProg P isFun a) nt = true := hp a (List.mem_cons_self ..)
        refine ⟨hs.setBank nt ci _ ?_, ?_⟩
        · intro p hp'
          rcases List.mem_append.mp hp' with h | h
          · exact hs.bank nt ci p h
          · simp only [List.mem_singleton] at h; subst h; exact hgen
        · intro p r hpr
          simp only [Option.some.injEq, Prod.mk.injEq] at hpr
          obtain ⟨rfl, rfl⟩ := hpr
          refine ⟨hgen, by simpa using hfil, by simpa using hdel, fun a' h' => List.mem_cons_of_mem _ h'⟩

theorem succLoop_sound (E : Env S) (nt : NT S Unit) (cost : Cost) (P : Sym) (comb : List Nat)
    (hr : ∃ rl, E.G.rule? nt P = some rl ∧ comb.length = rl.1.length) :
    ∀ (as : List (NT S Unit)) (s : St S) (i : Nat), SInv E s → SInv E (succLoop nt cost P comb s i as) := by
  intro as
  induction as with
  | nil => intro s i hs; simpa [succLoop] using hs
  | cons a as ih =>
    intro s i hs
    unfold succLoop
    simp only
    have hpush : ∀ c, SInv E (s.setQueue nt (Heapq.push ltE (s.queueOf nt) ⟨c, comb.set i (comb.getD i 0 + 1), P⟩)) := by
      intro c
      refine hs.setQueue nt _ (fun el he => ?_)
      rcases (mem_push _ _ _ _).mp he with h | h
      · subst h
        obtain ⟨rl, h1, h2⟩ := hr
        exact ⟨rl, h1, by simpa using h2⟩
      · exact hs.queue nt el h
    split
    · split
      · exact hs
      · exact ih _ _ hs
    · split
      · exact hpush _
      · exact ih _ _ (hpush _)

theorem epilogue_sound (E : Env S) (s : St S) (nt : NT S Unit) (fr : Frame) (hs : SInv E s) :
    SInv E (epilogue s nt fr) := by
  have h1 : SInv E (markEmpty s nt fr) := by
    unfold markEmpty
    split
    · exact hs.of_eq (fun nt' => St.addEmpty_queueOf s nt nt' fr.ci) (fun nt' ci => St.addEmpty_bankAt s nt nt' fr.ci ci)
    · exact hs
  unfold epilogue
  simp only
  split
  · exact h1
  · exact SInv.of_eq (s := markEmpty s nt fr) (fun _ => rfl) (fun _ _ => rfl) h1

/-- the programs of list `ps` are derivable from `a` -/
def PossOK (E : Env S) (ps : List Prog) (a : NT S Unit) : Prop := ∀ p ∈ ps, gen E.G p a = true

theorem tuple_gen (E : Env S) : ∀ (a : List Prog) (poss : List (List Prog)) (args : List (Ty × S)),
    All2 (· ∈ ·) a poss → All2 (PossOK E) poss (args.map ntOf) →
    All2 (fun k x => gen E.G k (ntOf x) = true) a args
  | [], [], [], _, _ => All2.nil
  | _ :: _, _ :: _, x :: xs, h1, h2 => by
    cases h1 with
    | cons m1 r1 =>
      cases h2 with
      | cons m2 r2 => exact All2.cons (m2 _ m1) (tuple_gen E _ _ xs r1 r2)
  | [], [], _ :: _, _, h2 => by cases h2
  | _ :: _, _ :: _, [], _, h2 => by cases h2
  | [], _ :: _, _, h1, _ => by cases h1
  | _ :: _, [], _, h1, _ => by cases h1

def QLSpec (E : Env S) (n : Nat) : Prop :=
  ∀ s nt ci r, SInv E s → queryList E n s nt ci = some r → SInv E r.1 ∧ PossOK E r.2.2 nt
def RQSpec (E : Env S) (n : Nat) : Prop :=
  ∀ s nt ci s', SInv E s → runQuery E n s nt ci = some s' → SInv E s'
def DSpec (E : Env S) (n : Nat) : Prop :=
  ∀ s nt fr s', SInv E s → FrInv E nt fr → drive E n s nt fr = some s' → SInv E s'
def RSpec (E : Env S) (n : Nat) : Prop :=
  ∀ s nt fr r, SInv E s → FrInv E nt fr → resume E n s nt fr = some r →
    SInv E r.1 ∧ ∀ p fr', r.2 = .yield p fr' → gen E.G p nt = true ∧ E.filter p = true ∧ FrInv E nt fr'
def ASpec (E : Env S) (n : Nat) : Prop :=
  ∀ s as cs ae af acc done r, SInv E s → All2 (PossOK E) acc done → argsLoop E n s as cs ae af acc = some r →
    SInv E r.1 ∧ (r.2.2.1 = false → All2 (PossOK E) r.2.2.2 (done ++ as))

theorem ql_step (E : Env S) (n : Nat) (ihRQ : RQSpec E n) : QLSpec E (n + 1) := by
  intro s nt ci r hs h
  unfold queryList at h
  split at h
  · cases h; exact ⟨hs, fun p hp => by cases hp⟩
  · split at h
    · cases h; exact ⟨hs, fun p hp => by cases hp⟩
    · split at h
      · next ps hps =>
        cases h
        refine ⟨hs, fun p hp => hs.bank nt ci p ?_⟩
        simp only [St.bankAt, hps, Option.getD_some]; exact hp
      · split at h
        · cases h
        · next s1 hrq =>
          have hs1 := ihRQ _ _ _ _ hs hrq
          split at h
          · cases h; exact ⟨hs1, fun p hp => by cases hp⟩
          · split at h
            · next ps hps =>
              cases h
              refine ⟨hs1, fun p hp => hs1.bank nt ci p ?_⟩
              simp only [St.bankAt, hps, Option.getD_some]; exact hp
            · cases h

theorem rq_step (E : Env S) (n : Nat) (ihD : DSpec E n) : RQSpec E (n + 1) := by
  intro s nt ci s' hs h
  unfold runQuery at h
  split at h
  · cases h; exact hs
  · exact ihD _ _ _ _ hs (by intro a ha; cases ha) h

theorem d_step (E : Env S) (n : Nat) (ihR : RSpec E n) (ihD : DSpec E n) : DSpec E (n + 1) := by
  intro s nt fr s' hs hf h
  unfold drive at h
  split at h
  · cases h
  · next s1 hr => cases h; exact (ihR _ _ _ _ hs hf hr).1
  · next s1 p fr1 hr =>
    obtain ⟨h1, h2⟩ := ihR _ _ _ _ hs hf hr
    exact ihD _ _ _ _ h1 (h2 p fr1 rfl).2.2 h

theorem a_step (E : Env S) (n : Nat) (ihQL : QLSpec E n) (ihA : ASpec E n) : ASpec E (n + 1) := by
  intro s as cs ae af acc done r hs hacc h
  cases as with
  | nil =>
    simp only [argsLoop] at h
    cases h
    exact ⟨hs, fun _ => by simpa using hacc⟩
  | cons a as =>
    cases cs with
    | nil => simp [argsLoop] at h
    | cons c cs =>
      simp only [argsLoop] at h
      split at h
      · cases h
      · next s1 one poss hql =>
        obtain ⟨hs1, hp⟩ := ihQL _ _ _ _ hs hql
        have hacc' : All2 (PossOK E) (acc ++ [poss]) (done ++ [a]) := hacc.append (All2.cons hp All2.nil)
        split at h
        · split at h
          · cases h; exact ⟨hs1, fun hf => by simp at hf⟩
          · obtain ⟨g1, g2⟩ := ihA _ _ _ _ _ _ _ _ hs1 hacc' h
            exact ⟨g1, fun hf => by simpa using g2 hf⟩
        · obtain ⟨g1, g2⟩ := ihA _ _ _ _ _ _ _ _ hs1 hacc' h
          exact ⟨g1, fun hf => by simpa using g2 hf⟩

/-- the tuples of the product of sound lists build derivable programs -/
theorem pending_gen (E : Env S) (nt : NT S Unit) (P : Sym) (rl : List (Ty × S) × Unit) (hrl : E.G.rule? nt P = some rl)
    (poss : List (List Prog)) (hposs : All2 (PossOK E) poss (rl.1.map ntOf)) (a : List Prog) (ha : a ∈ product poss) :
    gen E.G (mkProg P (!(rl.1.map ntOf).isEmpty) a) nt = true := by
  have ha2 := (mem_product poss a).mp ha
  have hall := tuple_gen E a poss rl.1 ha2 hposs
  unfold mkProg
  split
  · rw [gen_node E.G P a nt rl hrl]; exact genList_of_forall₂ E.G a rl.1 hall
  · next hif =>
    have hnil : rl.1 = [] := by
      cases hrl1 : rl.1 with
      | nil => rfl
      | cons x xs => simp [hrl1] at hif
    rw [gen_node E.G P [] nt rl hrl, hnil]; simp [genList]

theorem r_step (E : Env S) (n : Nat) (ihR : RSpec E n) (ihA : ASpec E n) : RSpec E (n + 1) := by
  intro s nt fr r hs hf h
  unfold resume at h
  obtain ⟨he1, he2⟩ := emit_sound E nt fr.ci fr.P fr.isFun fr.pending s hs hf
  split at h
  · next s1 p rest hem =>
    cases h
    have e1 : (emit E nt fr.ci fr.P fr.isFun s fr.pending).1 = s1 := by rw [hem]
    have e2 : (emit E nt fr.ci fr.P fr.isFun s fr.pending).2 = some (p, rest) := by rw [hem]
    refine ⟨e1 ▸ he1, fun p' fr' hy => ?_⟩
    cases hy
    obtain ⟨g1, g2, _, g4⟩ := he2 p rest e2
    exact ⟨g1, g2, fun a ha => hf a (g4 a ha)⟩
  · next s1 hem =>
    have e1 : (emit E nt fr.ci fr.P fr.isFun s fr.pending).1 = s1 := by rw [hem]
    have hs1 : SInv E s1 := e1 ▸ he1
    split at h
    · cases h; exact ⟨epilogue_sound E s1 nt fr hs1, fun _ _ hy => by cases hy⟩
    · next e0 q0 hq0 =>
      split at h
      · cases h; exact ⟨epilogue_sound E s1 nt fr hs1, fun _ _ hy => by cases hy⟩
      · split at h
        · cases h
        · next el q' hpop =>
          have hel : el ∈ s1.queueOf nt := ((mem_of_pop _ _ _ _ hpop el).mpr (Or.inl rfl))
          obtain ⟨rl0, hrl0, hlen⟩ := hs1.queue nt el hel
          have hs2 : SInv E (s1.setQueue nt q') :=
            hs1.setQueue nt q' (fun x hx => hs1.queue nt x ((mem_of_pop _ _ _ _ hpop x).mpr (Or.inr hx)))
          split at h
          · cases h
          · next rl hrl =>
            have : rl0 = rl := by rw [hrl0] at hrl; exact Option.some.inj hrl
            subst this
            simp only at h
            split at h
            · cases h
            · next s3 ae af poss hargs =>
              obtain ⟨hs3, hposs⟩ := ihA _ _ _ _ _ _ [] _ hs2 All2.nil hargs
              simp only [List.nil_append] at hposs
              split at h
              · exact ihR _ _ _ _ hs3 (by intro a ha; cases ha) h
              · next hfo =>
                have hs4 := succLoop_sound E nt fr.cost el.P el.comb ⟨rl0, hrl0, hlen⟩ (rl0.1.map ntOf) s3 0 hs3
                split at h
                · exact ihR _ _ _ _ hs4 (by intro a ha; cases ha) h
                · next hae =>
                  have haf : af = false := by
                    cases af
                    · rfl
                    · cases ae
                      · exact absurd rfl hfo
                      · exact absurd rfl hae
                  refine ihR _ _ _ _ ?_ ?_ h
                  · split
                    · exact hs4
                    · exact hs4.setBank nt fr.ci [] (fun p hp => by cases hp)
                  · intro a ha
                    exact pending_gen E nt el.P rl0 hrl0 poss (hposs haf) a ha

theorem sound_all (E : Env S) : ∀ n : Nat, QLSpec E n ∧ RQSpec E n ∧ DSpec E n ∧ RSpec E n ∧ ASpec E n := by
  intro n
  induction n with
  | zero =>
    refine ⟨?_, ?_, ?_, ?_, ?_⟩
    · intro s nt ci r _ h; simp [queryList] at h
    · intro s nt ci r _ h; simp [runQuery] at h
    · intro s nt fr r _ _ h; simp [drive] at h
    · intro s nt fr r _ _ h; simp [resume] at h
    · intro s as cs ae af acc done r _ _ h; simp [argsLoop] at h
  | succ n ih =>
    obtain ⟨ihQL, ihRQ, ihD, ihR, ihA⟩ := ih
    exact ⟨ql_step E n ihRQ, rq_step E n ihD, d_step E n ihR ihD, r_step E n ihR ihA, a_step E n ihQL ihA⟩

end PS.Beap
