/- The frontier theorem on the machine: in every derivation queue the index tuples are pairwise distinct, and no index
   tuple that has been expanded is ever in the queue again — at every moment of every run, with the index tuples of a
   popped CostTuple that `query_derivation` has not expanded yet held in "limbo" (parameter `Λ`), through nested and
   re-entrant queries.  Every arithmetic, grammar, filter, fuel. -/
import PS.Model.Enum.ConstantDelay
import PS.Proofs.Enum.CDQueue
import PS.Proofs.Enum.CDSucc
import PS.Proofs.Enum.CDHeapInv
import PS.Proofs.Enum.CDSound
namespace PS.CD
variable {α : Type}

theorem frontInv_perm {F F' D : List (List Nat)} (hp : F.Perm F') (h : FrontInv ⟨F, D⟩) : FrontInv ⟨F', D⟩ := by
  obtain ⟨h1, h2⟩ := h
  simp only at h1 h2
  have hpa : (F ++ D).Perm (F' ++ D) := List.Perm.append_right D hp
  exact ⟨hpa.nodup_iff.mp h1, fun t ht hnz => h2 t (hpa.mem_iff.mpr ht) hnz⟩

/-- expanding a tuple of the frontier -/
theorem front_expand {F D : List (List Nat)} {c : List Nat} {rest new : List (List Nat)} (h : FrontInv ⟨F, D⟩)
    (hp : F.Perm (c :: rest)) (hnd : new.Nodup) (hsub : ∀ t ∈ new, t ∈ succs c) : FrontInv ⟨rest ++ new, c :: D⟩ := by
  have h1 : FrontInv ⟨[] ++ c :: rest, D⟩ := frontInv_perm (by simpa using hp) h
  have := front_step h1 (Front.Step.expand [] rest D c new hnd hsub)
  simpa using this

/-- `Λ args` = index tuples of a popped CostTuple not yet expanded by a suspended `query_derivation(args)` -/
def TInv (s : St α) (Λ : List NT → List (List Nat)) : Prop :=
  ∀ args q, AList.lookup args s.queueDer = some q → QWF q ∧ ∃ D, FrontInv ⟨q.contents ++ Λ args, D⟩

def addT (Λ : List NT → List (List Nat)) (args : List NT) (l : List (List Nat)) : List NT → List (List Nat) :=
  fun a => if a = args then l ++ Λ a else Λ a

theorem tinv_of_eq {s s' : St α} {Λ : List NT → List (List Nat)} (h1 : s'.queueDer = s.queueDer) (h : TInv s Λ) : TInv s' Λ := by
  unfold TInv; rw [h1]; exact h

theorem tinv_addDeleted {s : St α} {Λ : List NT → List (List Nat)} (p : Prog) (h : TInv s Λ) : TInv (s.addDeleted p) Λ := by
  unfold St.addDeleted; split
  · exact h
  · exact tinv_of_eq rfl h

theorem tinv_appendBank {s s' : St α} {Λ : List NT → List (List Nat)} {S : NT} {ci : Nat} {p : Prog} (h : TInv s Λ)
    (he : s.appendBank S ci p = some s') : TInv s' Λ := by
  unfold St.appendBank at he
  split at he
  · simp at he
  · split at he
    · simp at he
    · simp only [Option.some.injEq] at he; subst he; exact tinv_of_eq rfl h

theorem tinv_ensureBank {s s' : St α} {Λ : List NT → List (List Nat)} {S : NT} {ci : Nat} (h : TInv s Λ)
    (he : s.ensureBank S ci = some s') : TInv s' Λ := by
  unfold St.ensureBank at he
  split at he
  · simp at he
  · split at he
    · simp only [Option.some.injEq] at he; subst he; exact h
    · simp only [Option.some.injEq] at he; subst he; exact tinv_of_eq rfl h

theorem tinv_exitQuery {s s' : St α} {Λ : List NT → List (List Nat)} {fr : Frame α} (h : TInv s Λ) (he : exitQuery s fr = some s') :
    TInv s' Λ := by
  unfold exitQuery at he
  simp only at he
  split at he
  · simp at he
  · rename_i s1 hs1
    have h1 : TInv s1 Λ := by
      split at hs1
      · split at hs1
        · simp at hs1
        · simp only [Option.some.injEq] at hs1; subst hs1; exact tinv_of_eq rfl h
      · simp only [Option.some.injEq] at hs1; subst hs1; exact h
    split at he
    · simp only [Option.some.injEq] at he; subst he; exact tinv_of_eq rfl h1
    · simp only [Option.some.injEq] at he; subst he; exact h1
    · simp at he

theorem tinv_pushNext (A : Arith α) {s : St α} {Λ : List NT → List (List Nat)} {S : NT} {h2 : List (Deriv α)} {w : Int}
    {el : Deriv α} {cl : List α} {ns : Bool} (h : TInv s Λ) : TInv (pushNext A s S h2 w el cl ns).1 Λ := by
  unfold pushNext; split
  · exact tinv_of_eq rfl h
  · exact h

/-- replacing the queue of `args` -/
theorem tinv_setQueueDer {s : St α} {Λ Λ' : List NT → List (List Nat)} {args : List NT} {q : Q α} (h : TInv s Λ)
    (hq : QWF q) (hf : ∃ D, FrontInv ⟨q.contents ++ Λ' args, D⟩) (hΛ : ∀ a, a ≠ args → Λ' a = Λ a) :
    TInv (s.setQueueDer args q) Λ' := by
  intro a q2 h1
  simp only [St.setQueueDer] at h1
  rw [AList.lookup_insert] at h1
  split at h1
  · rename_i he
    simp only [Option.some.injEq] at h1; subst h1; subst he
    exact ⟨hq, hf⟩
  · rename_i hne
    rw [hΛ a hne]; exact h a q2 h1

theorem addT_nil (Λ : List NT → List (List Nat)) (args : List NT) : addT Λ args [] = Λ := by
  funext a; unfold addT; split <;> simp

theorem addT_ne (Λ : List NT → List (List Nat)) (args : List NT) (l : List (List Nat)) (a : List NT) (h : a ≠ args) :
    addT Λ args l a = Λ a := by
  unfold addT; simp [h]

theorem addT_self (Λ : List NT → List (List Nat)) (args : List NT) (l : List (List Nat)) : addT Λ args l args = l ++ Λ args := by
  unfold addT; simp

/-- an index tuple in limbo that is not expanded (the combination "failed for other reasons") just leaves -/
theorem tinv_drop {s : St α} {Λ : List NT → List (List Nat)} {args : List NT} {comb : List Nat} {rest : List (List Nat)}
    (h : TInv s (addT Λ args (comb :: rest))) : TInv s (addT Λ args rest) := by
  intro a q hq
  obtain ⟨hwf, D, hf⟩ := h a q hq
  refine ⟨hwf, ?_⟩
  by_cases he : a = args
  · subst he
    rw [addT_self] at hf ⊢
    refine ⟨comb :: D, ?_⟩
    have := front_expand (c := comb) (rest := q.contents ++ (rest ++ Λ a)) (new := []) hf
      (by simpa using List.perm_middle) (by simp) (by simp)
    simpa using this
  · rw [addT_ne _ _ _ _ he] at hf ⊢
    exact ⟨D, hf⟩

theorem succLoop_none (A : Arith α) (b : Bool) (args : List NT) (c : α) (comb : List Nat) :
    ∀ (rem i : Nat) (s s' : St α), AList.lookup args s.queueDer = none → succLoop A b args c comb rem i s = some s' → s' = s := by
  intro rem
  induction rem with
  | zero => intro i s s' _ h; simp only [succLoop, Option.some.injEq] at h; exact h.symm
  | succ rem ih =>
    intro i s s' hn h
    simp only [succLoop] at h
    split at h
    · split at h
      · simp at h
      · split at h
        · split at h
          · simp only [Option.some.injEq] at h; exact h.symm
          · exact ih _ _ _ hn h
        · split at h
          · rename_i hq; rw [hn] at hq; simp at hq
          · simp at h
    · simp at h

/-- the successor loop expands the index tuple `comb` held in limbo -/
theorem tinv_succLoop (A : Arith α) (b : Bool) (args : List NT) (c : α) (comb : List Nat) (rest : List (List Nat))
    {Λ : List NT → List (List Nat)} (s s' : St α) (h : succLoop A b args c comb comb.length 0 s = some s')
    (hs : TInv s (addT Λ args (comb :: rest))) : TInv s' (addT Λ args rest) := by
  cases hq : AList.lookup args s.queueDer with
  | none =>
    have := succLoop_none A b args c comb _ _ _ _ hq h
    subst this
    exact tinv_drop hs
  | some q =>
    obtain ⟨hwf, D, hf⟩ := hs args q hq
    obtain ⟨q', h1, h2, h3, _, _, h6, h7⟩ := succLoop_spec A b args c comb _ _ _ _ h q hq hwf
    intro a q2 hq2
    by_cases he : a = args
    · subst he
      rw [h1] at hq2
      simp only [Option.some.injEq] at hq2; subst hq2
      refine ⟨h2, comb :: D, ?_⟩
      rw [addT_self] at hf ⊢
      have hexp := front_expand (c := comb) (rest := q.contents ++ (rest ++ Λ a))
        (new := succIdx (lensOf s a) comb comb.length 0) hf (by simpa using List.perm_middle)
        (succIdx_nodup _ _ _ _) (fun t ht => succIdx_sub _ _ t ht)
      refine frontInv_perm ?_ hexp
      have : (q.contents ++ (rest ++ Λ a) ++ succIdx (lensOf s a) comb comb.length 0).Perm
          (q.contents ++ succIdx (lensOf s a) comb comb.length 0 ++ (rest ++ Λ a)) := by
        rw [List.append_assoc q.contents, List.append_assoc q.contents]
        exact List.Perm.append_left _ List.perm_append_comm
      exact this.trans (List.Perm.append_right _ h3.symm)
    · rw [h7 a he] at hq2
      obtain ⟨hwf2, D2, hf2⟩ := hs a q2 hq2
      rw [addT_ne _ _ _ _ he] at hf2 ⊢
      exact ⟨hwf2, D2, hf2⟩

structure TOk (E : Env α) (f : Nat) : Prop where
  resume : ∀ s fr r Λ, resume E f s fr = some r → TInv s Λ → TInv r.st Λ
  drive : ∀ s fr s' Λ, drive E f s fr = some s' → TInv s Λ → TInv s' Λ
  queryList : ∀ s S ci s' ia r Λ, queryList E f s S ci = some (s', ia, r) → TInv s Λ → TInv s' Λ
  argLoop : ∀ s cs ss ia agf acc s' ia' agf' acc' Λ,
    argLoop E f s cs ss ia agf acc = some (s', ia', agf', acc') → TInv s Λ → TInv s' Λ
  combLoop : ∀ s args ci c combs ns hg s' ns' hg' Λ,
    combLoop E f s args ci c combs ns hg = some (s', ns', hg') → TInv s (addT Λ args combs) → TInv s' Λ
  queryDer : ∀ s args ci s' l Λ, queryDer E f s args ci = some (s', l) → TInv s Λ → TInv s' Λ

theorem tok_resume (E : Env α) (f : Nat) (ih : TOk E f) : ∀ s fr r Λ, resume E (f + 1) s fr = some r → TInv s Λ →
    TInv r.st Λ := by
  intro s fr r Λ h hs
  rw [resume] at h
  split at h
  · simp only at h
    split at h
    · exact ih.resume _ _ _ _ h hs
    · split at h
      · exact ih.resume _ _ _ _ h (tinv_addDeleted _ hs)
      · split at h
        · simp at h
        · rename_i s1 hb
          simp only [Option.some.injEq] at h; subst h
          exact tinv_appendBank hs hb
  · exact ih.resume _ _ _ _ h hs
  · exact ih.resume _ _ _ _ h hs
  · split at h
    · simp at h
    · split at h
      · cases hx : exitQuery s fr with
        | none => simp [hx] at h
        | some s' =>
          simp only [hx, Option.map_some, Option.some.injEq] at h; subst h
          exact tinv_exitQuery hs hx
      · split at h
        · cases hx : exitQuery s fr with
          | none => simp [hx] at h
          | some s' =>
            simp only [hx, Option.map_some, Option.some.injEq] at h; subst h
            exact tinv_exitQuery hs hx
        · split at h
          · simp at h
          · rename_i el heap' hpop
            split at h
            · rename_i s1 args w he hrule
              have hs0 : TInv (s.setHeap fr.S heap') Λ := tinv_of_eq rfl hs
              have hs1 : TInv s1 Λ := tinv_ensureBank hs0 he
              split at h
              · simp only at h
                split at h
                · exact ih.resume _ _ _ _ h hs1
                · split at h
                  · exact ih.resume _ _ _ _ h (tinv_addDeleted _ hs1)
                  · split at h
                    · simp at h
                    · rename_i s2 hb
                      simp only [Option.some.injEq] at h; subst h
                      exact tinv_appendBank hs1 hb
              · split at h
                · simp at h
                · rename_i s2 possibles hq
                  have hs2 := ih.queryDer _ _ _ _ _ _ hq hs1
                  split at h
                  · rename_i em cl h2 _ _ hl2
                    have hs3 := tinv_pushNext E.A (S := fr.S) (h2 := h2) (w := w) (el := el) (cl := cl) (ns := fr.noSucc) hs2
                    simp only at h
                    split at h
                    · exact ih.resume _ _ _ _ h hs3
                    · exact ih.resume _ _ _ _ h hs3
                  · simp at h
            · simp at h

theorem tok_all (E : Env α) : ∀ f, TOk E f := by
  intro f
  induction f with
  | zero =>
    refine ⟨?_, ?_, ?_, ?_, ?_, ?_⟩
    · intro s fr r Λ h; simp [resume] at h
    · intro s fr s' Λ h; simp [drive] at h
    · intro s S ci s' ia r Λ h; simp [queryList] at h
    · intro s cs ss ia agf acc s' ia' agf' acc' Λ h; simp [argLoop] at h
    · intro s args ci c combs ns hg s' ns' hg' Λ h; simp [combLoop] at h
    · intro s args ci s' l Λ h; simp [queryDer] at h
  | succ f ih =>
    refine ⟨tok_resume E f ih, ?_, ?_, ?_, ?_, ?_⟩
    · intro s fr s' Λ h hs
      rw [drive] at h
      split at h
      · simp at h
      · rename_i s1 hr
        simp only [Option.some.injEq] at h; subst h
        exact ih.resume _ _ _ _ hr hs
      · rename_i s1 fr1 p hr
        exact ih.drive _ _ _ _ h (ih.resume _ _ _ _ hr hs)
    · intro s S ci s' ia r Λ h hs
      rw [queryList] at h
      split at h
      · split at h
        · simp only [Option.some.injEq, Prod.mk.injEq] at h; rw [← h.1]; exact hs
        · split at h
          · simp only [Option.some.injEq, Prod.mk.injEq] at h; rw [← h.1]; exact hs
          · split at h
            · simp only [Option.some.injEq, Prod.mk.injEq] at h; rw [← h.1]; exact hs
            · split at h
              · simp at h
              · rename_i s1 hd
                have hs1 := ih.drive _ _ _ _ hd hs
                split at h
                · split at h
                  · simp only [Option.some.injEq, Prod.mk.injEq] at h; rw [← h.1]; exact hs1
                  · split at h
                    · simp only [Option.some.injEq, Prod.mk.injEq] at h; rw [← h.1]; exact hs1
                    · simp at h
                · simp at h
      · simp at h
    · intro s cs ss ia agf acc s' ia' agf' acc' Λ h hs
      cases cs with
      | nil => simp only [argLoop, Option.some.injEq, Prod.mk.injEq] at h; rw [← h.1]; exact hs
      | cons c cs =>
        cases ss with
        | nil => simp only [argLoop, Option.some.injEq, Prod.mk.injEq] at h; rw [← h.1]; exact hs
        | cons Si ss =>
          rw [argLoop] at h
          split at h
          · simp at h
          · rename_i s1 one r hq
            have hs1 := ih.queryList _ _ _ _ _ _ _ hq hs
            split at h
            · split at h
              · simp only [Option.some.injEq, Prod.mk.injEq] at h; rw [← h.1]; exact hs1
              · exact ih.argLoop _ _ _ _ _ _ _ _ _ _ _ h hs1
            · exact ih.argLoop _ _ _ _ _ _ _ _ _ _ _ h hs1
    · -- combLoop
      intro s args ci c combs ns hg s' ns' hg' Λ h hs
      cases combs with
      | nil =>
        simp only [combLoop, Option.some.injEq, Prod.mk.injEq] at h; rw [← h.1]
        rwa [addT_nil] at hs
      | cons comb rest =>
        rw [combLoop] at h
        split at h
        · simp at h
        · rename_i s1 ia agf poss ha
          have hs1 := ih.argLoop _ _ _ _ _ _ _ _ _ _ _ ha hs
          simp only at h
          split at h
          · exact ih.combLoop _ _ _ _ _ _ _ _ _ _ _ h (tinv_drop hs1)
          · split at h
            · simp at h
            · rename_i s2 hsucc
              have hs2 := tinv_succLoop E.A E.asserts args c comb rest s1 s2 hsucc hs1
              split at h
              · exact ih.combLoop _ _ _ _ _ _ _ _ _ _ _ h hs2
              · split at h
                · simp at h
                · split at h
                  · simp at h
                  · exact ih.combLoop _ _ _ _ _ _ _ _ _ _ _ h (tinv_of_eq rfl hs2)
    · -- queryDer
      intro s args ci s' l Λ h hs
      rw [queryDer] at h
      split at h
      · rename_i cl b q hcl hb hq
        split at h
        · simp only [Option.some.injEq, Prod.mk.injEq] at h; rw [← h.1]; exact hs
        · split at h
          · simp only [Option.some.injEq, Prod.mk.injEq] at h; rw [← h.1]; exact hs
          · simp only at h
            split at h
            · simp only [Option.some.injEq, Prod.mk.injEq] at h; rw [← h.1]; exact tinv_of_eq rfl hs
            · split at h
              · simp at h
              · rename_i ct q' hpop
                obtain ⟨hwf, D, hf⟩ := hs args q hq
                obtain ⟨hwf', _, hperm, _⟩ := qwf_pop q q' ct hwf hpop
                have hs1 : TInv ({ s with bankDer := AList.insert args (AList.insert ci [] b) s.bankDer }.setQueueDer args q')
                    (addT Λ args ct.combs) := by
                  refine tinv_setQueueDer (Λ := Λ) (tinv_of_eq rfl hs) hwf' ⟨D, ?_⟩ (fun a ha => addT_ne _ _ _ _ ha)
                  rw [addT_self]
                  refine frontInv_perm ?_ hf
                  have : (q.contents ++ Λ args).Perm ((ct.combs ++ q'.contents) ++ Λ args) := List.Perm.append_right _ hperm
                  refine this.trans ?_
                  rw [List.append_assoc]
                  exact (List.perm_append_comm_assoc _ _ _)
                split at h
                · simp at h
                · rename_i s3 ns hg hc
                  have hs3 := ih.combLoop _ _ _ _ _ _ _ _ _ _ _ hc hs1
                  split at h
                  · simp at h
                  · rename_i s4 hs4e
                    have hs4 : TInv s4 Λ := by
                      split at hs4e
                      · split at hs4e
                        · simp at hs4e
                        · simp only [Option.some.injEq] at hs4e; subst hs4e; exact tinv_of_eq rfl hs3
                      · simp only [Option.some.injEq] at hs4e; subst hs4e; exact hs3
                    split at h
                    · rename_i q2 cl2 hq2 _
                      split at h
                      · simp at h
                      · rename_i s5 hs5e
                        have hs5 : TInv s5 Λ := by
                          split at hs5e
                          · simp only [Option.some.injEq] at hs5e; subst hs5e; exact hs4
                          · split at hs5e
                            · simp at hs5e
                            · rename_i q3 hupd
                              split at hs5e
                              · simp at hs5e
                              · simp only [Option.some.injEq] at hs5e; subst hs5e
                                obtain ⟨hwf2, D2, hf2⟩ := hs4 args q2 hq2
                                obtain ⟨hwf3, hc3⟩ := qwf_update E.A q2 q3 hwf2 hupd
                                exact tinv_of_eq rfl (tinv_setQueueDer (Λ := Λ) hs4 hwf3 ⟨D2, by rw [hc3]; exact hf2⟩ (fun _ _ => rfl))
                        split at h
                        · simp at h
                        · simp only [Option.some.injEq, Prod.mk.injEq] at h; rw [← h.1]; exact hs5
                    · simp at h
      · simp at h

/-! ### the generator (after the prologue) -/

def noT : List NT → List (List Nat) := fun _ => []

theorem nextLoop_tinv (E : Env α) (fuel : Nat) : ∀ (k : Nat) (s : St α) (n : Nat) (fr? : Option (Frame α)) (failed : Bool)
    (g' : Gen α) (out : Option Prog), nextLoop E fuel k s n fr? failed = some (g', out) → TInv s noT → TInv g'.st noT := by
  intro k
  induction k with
  | zero => intro s n fr? failed g' out h; simp [nextLoop] at h
  | succ k ih =>
    intro s n fr? failed g' out h hs
    rw [nextLoop.eq_def] at h
    simp only at h
    split at h
    · simp at h
    · rename_i s0 hstart
      have hs0 : TInv s0 noT := by
        split at hstart
        · simp at hstart
        · split at hstart
          · simp at hstart
          · split at hstart
            · simp only [Option.some.injEq, Prod.mk.injEq] at hstart
              rw [← hstart.1]; exact tinv_of_eq rfl hs
            · simp at hstart
      split at h
      · simp only [Option.some.injEq, Prod.mk.injEq] at h; rw [← h.1]; exact hs0
      · exact ih _ _ _ _ _ _ h (tinv_of_eq rfl hs0)
    · rename_i s0 fr hstart
      have hs0 : TInv s0 noT := by
        split at hstart
        · simp only [Option.some.injEq, Prod.mk.injEq] at hstart
          rw [← hstart.1]; exact hs
        · split at hstart
          · simp at hstart
          · split at hstart
            · simp at hstart
            · simp only [Option.some.injEq, Prod.mk.injEq] at hstart
              rw [← hstart.1]; exact tinv_of_eq rfl hs
      split at h
      · simp at h
      · rename_i s1 fr1 p hr
        simp only [Option.some.injEq, Prod.mk.injEq] at h; rw [← h.1]
        exact (tok_all E fuel).resume _ _ _ _ hr hs0
      · rename_i s1 hr
        have h1 : TInv s1 noT := (tok_all E fuel).resume _ _ _ _ hr hs0
        split at h
        · simp only [Option.some.injEq, Prod.mk.injEq] at h; rw [← h.1]; exact h1
        · exact ih _ _ _ _ _ _ h h1

/-- started generator: the frontier invariant of every derivation queue, nothing in limbo -/
def TGInv (g : Gen α) : Prop := TInv g.st noT ∧ ¬ (g.phase matches .fresh)

theorem next_tinv (E : Env α) (fuel : Nat) (g g' : Gen α) (out : Option Prog) (h : next E fuel g = some (g', out))
    (hg : TGInv g) : TGInv g' := by
  unfold next at h
  split at h
  · simp only [Option.some.injEq, Prod.mk.injEq] at h; rw [← h.1]; exact hg
  · rename_i hph
    exact absurd (by rw [hph]) hg.2
  · exact ⟨nextLoop_tinv E fuel _ _ _ _ _ _ _ h hg.1, nextLoop_phase E fuel _ _ _ _ _ _ _ h⟩
  · exact ⟨nextLoop_tinv E fuel _ _ _ _ _ _ _ h hg.1, nextLoop_phase E fuel _ _ _ _ _ _ _ h⟩

theorem merge_tinv (E : Env α) (g : Gen α) (other : Prog) (ty : Nat) (hg : TGInv g) : TGInv (merge E g other ty) := by
  have e1 : (merge E g other ty).st.queueDer = g.st.queueDer := by
    simp only [merge, St.addDeleted]; split <;> rfl
  exact ⟨tinv_of_eq e1 hg.1, hg.2⟩

theorem take_tinv (E : Env α) (fuel : Nat) : ∀ (k : Nat) (g : Gen α) (acc : List Prog) (g' : Gen α) (ys : List Prog)
    (fin : Bool), take E fuel k g acc = some (g', ys, fin) → TGInv g → TGInv g' := by
  intro k
  induction k with
  | zero =>
    intro g acc g' ys fin h hg
    simp only [take, Option.some.injEq, Prod.mk.injEq] at h; rw [← h.1]; exact hg
  | succ k ih =>
    intro g acc g' ys fin h hg
    rw [take] at h
    split at h
    · simp at h
    · rename_i g1 hn
      simp only [Option.some.injEq, Prod.mk.injEq] at h; rw [← h.1]
      exact next_tinv E fuel g g1 none hn hg
    · rename_i g1 p1 hn
      exact ih _ _ _ _ _ h (next_tinv E fuel g g1 (some p1) hn hg)

theorem runHist_tinv (E : Env α) (fuel : Nat) : ∀ (acts : List Act) (g : Gen α) (out : List Prog) (g' : Gen α)
    (ys : List Prog), runHist E fuel acts g out = some (g', ys) → TGInv g → TGInv g'
  | [], g, out, g', ys, h, hg => by
    simp only [runHist, Option.some.injEq, Prod.mk.injEq] at h; rw [← h.1]; exact hg
  | .merge p t :: rest, g, out, g', ys, h, hg => by
    rw [runHist] at h
    exact runHist_tinv E fuel rest _ out g' ys h (merge_tinv E g p t hg)
  | .take k :: rest, g, out, g', ys, h, hg => by
    rw [runHist] at h
    split at h
    · simp at h
    · rename_i g1 ys1 fin ht
      exact runHist_tinv E fuel rest g1 _ g' ys h (take_tinv E fuel k g [] g1 ys1 fin ht hg)

/-- what the invariant says about a queue: its index tuples are pairwise distinct -/
theorem tinv_contents_nodup {s : St α} (h : TInv s noT) (args : List NT) (q : Q α) (hq : AList.lookup args s.queueDer = some q) :
    q.contents.Nodup := by
  obtain ⟨_, D, hf⟩ := h args q hq
  have := hf.1
  simp only [noT, List.append_nil] at this
  exact (List.nodup_append.mp this).1

end PS.CD
