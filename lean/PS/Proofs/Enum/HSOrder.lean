/- Best-first order of heap search (probabilities) on ACYCLIC context-free grammars without filter:
   the order invariant (DESIGN B.2 (I1), (I4), (I5)) is preserved by `query`, and gives a
   non-increasing yielded sequence.  (On recursive grammars the invariant is NOT preserved:
   `query(S, y)` is re-entered while `__add_successors__(y, S)` runs, see finding_C03_HS_reentrant.) -/
import PS.Proofs.Enum.HSMono
import PS.Proofs.Enum.HSPrio
import PS.Proofs.Enum.HSSoundInit
import PS.Proofs.Enum.HSHeaps
namespace PS.HS
open PS PS.G
set_option linter.unusedSectionVars false
variable {S : Type} [DecidableEq S]

/-- static hypotheses: heap search priorities, non-negative weights, a rank that decreases from a
    non-terminal to the non-terminals of its rules (the grammar is not recursive) -/
structure OrdHyp (E : Env S Unit Rat) (rank : NT S Unit → Nat) : Prop where
  ops : ∃ t, E.ops = probOps t
  wnn : WNonneg E.W
  acyclic : ∀ nt F ra, E.G.rule? nt F = some (ra, ()) → ∀ a ∈ ra, rank (argNT a) < rank nt

/-- `x` is what the first pop of the reference heap of `nt` returns (if it returns anything) -/
def FP (E : Env S Unit Rat) (H0 : NT S Unit → List (Rat × Prog)) (nt : NT S Unit) (x : Prog) : Prop :=
  ∀ e h', Heapq.pop (ltE E.ops) (H0 nt) = some (e, h') → e.2 = x

/-- **order invariant**; `H0` are the heaps built by `__init_heap__` (reference for the
    non-terminals whose enumeration has not started) -/
structure OInv (E : Env S Unit Rat) (H0 : NT S Unit → List (Rat × Prog)) (s : St S Unit Rat) : Prop where
  /-- (I4) no heap element is more probable than a program already popped for the non-terminal -/
  below : ∀ nt e, e ∈ s.heapOf nt → ∀ k v, AList.lookup k (s.succOf nt) = some v → e.1 ≤ prob E.G E.W v nt
  /-- (I4) a successor is not more probable than its predecessor -/
  link : ∀ nt k v, AList.lookup (some k) (s.succOf nt) = some v → prob E.G E.W v nt ≤ prob E.G E.W k nt
  /-- (I1) the arguments of every program ever pushed were popped for their non-terminals, or the
      enumeration of the non-terminal has not started and the argument is what it will pop first -/
  args : ∀ nt F args ra, Tree.node F args ∈ s.seenOf nt → E.G.rule? nt F = some (ra, ()) →
    ∀ (i : Nat) ai a, args[i]? = some ai → ra[i]? = some a →
      (∃ k, AList.lookup k (s.succOf (argNT a)) = some ai) ∨ (s.succOf (argNT a) = [] ∧ FP E H0 (argNT a) ai)
  /-- a non-terminal whose enumeration has not started still has its initial heap -/
  fresh : ∀ nt, s.succOf nt = [] → s.heapOf nt = H0 nt

def SeenMono (s s' : St S Unit Rat) : Prop := ∀ nt p, p ∈ s.seenOf nt → p ∈ s'.seenOf nt

/-- precondition (I5, NoPremature): `query(S, x)` is called with `x = None` or `x` popped for `S`;
    `__add_successors__(y, S)` is called when no popped program of `S` is less probable than `y` -/
def OPre (E : Env S Unit Rat) (H0 : NT S Unit → List (Rat × Prog)) : Call S Unit → St S Unit Rat → Prop
  | .query nt p, s => ∀ x, p = some x →
      (∃ k, AList.lookup k (s.succOf nt) = some x) ∨ (s.succOf nt = [] ∧ FP E H0 nt x)
  | .lop nt p, s => ∀ x, p = some x → (∃ k, AList.lookup k (s.succOf nt) = some x) ∨ s.heapOf nt = []
  | .popLoop nt p, s => ∀ x, p = some x → (∃ k, AList.lookup k (s.succOf nt) = some x) ∨ s.heapOf nt = []
  | .addSucc prog nt, s => prog ∈ s.seenOf nt ∧ s.succOf nt ≠ [] ∧
      ∀ k v, AList.lookup k (s.succOf nt) = some v → prob E.G E.W prog nt ≤ prob E.G E.W v nt
  | .addLoop F args nt _ _ _ _, s => Tree.node F args ∈ s.seenOf nt ∧ s.succOf nt ≠ [] ∧
      ∀ k v, AList.lookup k (s.succOf nt) = some v → prob E.G E.W (.node F args) nt ≤ prob E.G E.W v nt

/-- which successor tables a call leaves untouched -/
def OFrame (rank : NT S Unit → Nat) : Call S Unit → St S Unit Rat → St S Unit Rat → Prop
  | .query nt _, s, s' => ∀ nt', rank nt < rank nt' → s'.succOf nt' = s.succOf nt'
  | .lop nt _, s, s' => ∀ nt', rank nt < rank nt' → s'.succOf nt' = s.succOf nt'
  | .popLoop nt _, s, s' => ∀ nt', rank nt < rank nt' → s'.succOf nt' = s.succOf nt'
  | .addSucc _ nt, s, s' => ∀ nt', rank nt ≤ rank nt' → s'.succOf nt' = s.succOf nt'
  | .addLoop _ _ nt _ _ _ _, s, s' => ∀ nt', rank nt ≤ rank nt' → s'.succOf nt' = s.succOf nt'

theorem probLt_false {t a b : Rat} (h : (probOps t).lt a b = false) : a ≤ b := by
  simp only [probOps, decide_eq_false_iff_not, Rat.not_lt] at h
  exact h

/-- the priority stored with a heap element is its probability -/
theorem heap_prob {E : Env S Unit Rat} {rank} (H : OrdHyp E rank) {s : St S Unit Rat} (hs : SInv E s)
    (nt : NT S Unit) (e : Rat × Prog) (he : e ∈ s.heapOf nt) : e.1 = prob E.G E.W e.2 nt := by
  obtain ⟨t, ht⟩ := H.ops
  exact prioSpec_prob E t ht e.2 nt e.1 (hs.seen_gen nt e.2 (hs.heap_seen nt e he)) (hs.heap_prio nt e he)

/-! ### the push of one successor -/

theorem pushNew_views (E : Env S Unit Rat) (s : St S Unit Rat) (nt : NT S Unit) (np : Prog) :
    (∀ nt', (pushNew E s nt np).succOf nt' = s.succOf nt') ∧
    (∀ nt', (pushNew E s nt np).seenOf nt' = if nt' = nt then s.seenOf nt ++ [np] else s.seenOf nt') ∧
    (∀ nt' e, e ∈ (pushNew E s nt np).heapOf nt' → e ∈ s.heapOf nt' ∨
      (nt' = nt ∧ e.2 = np ∧ ∃ c', computePrio E s.cache nt np = some (c', e.1))) ∧
    (∀ nt', nt' ≠ nt → (pushNew E s nt np).heapOf nt' = s.heapOf nt') := by
  unfold pushNew
  simp only
  split
  · exact ⟨fun _ => rfl, fun nt' => St.seenOf_addSeen s nt nt' np, fun _ e he => Or.inl he, fun _ _ => rfl⟩
  · rename_i r hcp
    split
    · refine ⟨fun _ => rfl, fun nt' => St.seenOf_addSeen s nt nt' np, ?_, ?_⟩
      · intro nt' e he
        rw [St.heapOf_setHeap] at he
        split at he
        · rename_i heq
          have := (Heapq.push_perm (ltE E.ops) _ (r.2, np)).subset he
          rcases List.mem_cons.mp this with rfl | hm
          · exact Or.inr ⟨heq, rfl, r.1, hcp⟩
          · subst heq; exact Or.inl hm
        · exact Or.inl he
      · intro nt' hne
        rw [St.heapOf_setHeap]
        simp only [hne, if_false]
        rfl
    · exact ⟨fun _ => rfl, fun nt' => St.seenOf_addSeen s nt nt' np, fun _ e he => Or.inl he, fun _ _ => rfl⟩

theorem pushStep_order {E : Env S Unit Rat} {rank} (H : OrdHyp E rank) {H0 : NT S Unit → List (Rat × Prog)}
    {s1 : St S Unit Rat}
    (hs : SInv E s1) (ho : OInv E H0 s1) (F : Sym) (args : List Prog) (nt : NT S Unit) (i : Nat) (r : Option Prog)
    (ra : List (Ty × S)) (a : Ty × S) (ai : Prog)
    (hr : E.G.rule? nt F = some (ra, ())) (hgl : genList E.G args ra = true)
    (ha : ra[i]? = some a) (hai : args[i]? = some ai)
    (hseen : Tree.node F args ∈ s1.seenOf nt) (hne : s1.succOf nt ≠ [])
    (hvals : ∀ k v, AList.lookup k (s1.succOf nt) = some v → prob E.G E.W (.node F args) nt ≤ prob E.G E.W v nt)
    (hq : ∀ q, r = some q → AList.lookup (some ai) (s1.succOf (argNT a)) = some q ∧ gen E.G q (argNT a) = true) :
    OInv E H0 (pushStep E s1 F args nt i r) ∧ (∀ nt', (pushStep E s1 F args nt i r).succOf nt' = s1.succOf nt') ∧
    SeenMono s1 (pushStep E s1 F args nt i r) := by
  unfold pushStep
  cases r with
  | none => exact ⟨ho, fun _ => rfl, fun _ _ h => h⟩
  | some q =>
    simp only
    split
    · exact ⟨ho, fun _ => rfl, fun _ _ h => h⟩
    · obtain ⟨hlk, hgq⟩ := hq q rfl
      obtain ⟨v1, v2, v3, v4⟩ := pushNew_views E s1 nt (.node F (args.set i q))
      have hgnp : gen E.G (.node F (args.set i q)) nt = true := by
        rw [gen, hr]; exact genList_set E.G args ra i q a hgl ha hgq
      have hmono : SeenMono s1 (pushNew E s1 nt (.node F (args.set i q))) := by
        intro nt' p hp
        rw [v2]
        split
        · rename_i heq; subst heq; exact List.mem_append_left _ hp
        · exact hp
      refine ⟨⟨?_, ?_, ?_, ?_⟩, v1, hmono⟩
      · -- below
        intro nt' e he k v hk
        rw [v1] at hk
        rcases v3 nt' e he with hold | ⟨hnt, he2, c', hcp⟩
        · exact ho.below nt' e hold k v hk
        · subst hnt
          obtain ⟨t, ht⟩ := H.ops
          have hv := (computePrio_spec E _ hs.cache_ok nt' _ hgnp c' e.1 hcp).1
          have hp := prioSpec_prob E t ht _ nt' e.1 hgnp hv
          rw [hp]
          refine Rat.le_trans ?_ (hvals k v hk)
          exact prob_set_le E.G E.W H.wnn nt' F ra args i q ai a hr hgl ha hai hgq (ho.link _ _ _ hlk)
      · -- link
        intro nt' k v hk
        rw [v1] at hk
        exact ho.link nt' k v hk
      · -- args
        intro nt' F' args' ra' hmem hr' j aj a' haj ha'
        rw [v1]
        rw [v2] at hmem
        have hold : Tree.node F' args' ∈ s1.seenOf nt' →
            (∃ k, AList.lookup k (s1.succOf (argNT a')) = some aj) ∨
              (s1.succOf (argNT a') = [] ∧ FP E H0 (argNT a') aj) :=
          fun hm => ho.args nt' F' args' ra' hm hr' j aj a' haj ha'
        split at hmem
        · rename_i heq
          rcases List.mem_append.mp hmem with hm | hm
          · subst heq; exact hold hm
          · simp only [List.mem_singleton] at hm
            cases hm
            subst heq
            rw [hr] at hr'
            cases hr'
            by_cases hji : j = i
            · subst hji
              have hlen : j < args.length := (List.getElem?_eq_some_iff.mp hai).1
              rw [List.getElem?_set_self hlen] at haj
              cases haj
              rw [ha] at ha'; cases ha'
              exact Or.inl ⟨_, hlk⟩
            · rw [List.getElem?_set_ne (Ne.symm hji)] at haj
              exact ho.args nt' F args ra hseen hr j aj a' haj ha'
        · exact hold hmem
      · -- fresh
        intro nt' he
        rw [v1] at he
        have hnn : nt' ≠ nt := by intro heq; subst heq; exact hne he
        rw [v4 nt' hnn]
        exact ho.fresh nt' he

/-! ### the pop -/

theorem insert_ne_nil {κ ν : Type} [DecidableEq κ] (k : κ) (v : ν) (l : AList κ ν) : AList.insert k v l ≠ [] := by
  cases l with
  | nil => simp [AList.insert]
  | cons p r =>
    obtain ⟨k', v'⟩ := p
    simp only [AList.insert]
    split <;> simp

theorem popTake_order {E : Env S Unit Rat} {rank} (H : OrdHyp E rank) {H0 : NT S Unit → List (Rat × Prog)}
    {s : St S Unit Rat}
    (hs : SInv E s) (hh : HInv E s) (ho : OInv E H0 s) (nt : NT S Unit) (key : Option Prog) (e : Rat × Prog)
    (h' : List (Rat × Prog)) (hp : Heapq.pop (ltE E.ops) (s.heapOf nt) = some (e, h'))
    (hkey : ∀ x, key = some x → (∃ k, AList.lookup k (s.succOf nt) = some x) ∨ s.heapOf nt = [])
    (hnone : AList.lookup key (s.succOf nt) = none) :
    OInv E H0 (s.popTake nt key e h') ∧ (s.popTake nt key e h').succOf nt ≠ [] ∧
    (∀ k v, AList.lookup k ((s.popTake nt key e h').succOf nt) = some v →
      prob E.G E.W e.2 nt ≤ prob E.G E.W v nt) := by
  obtain ⟨t, ht⟩ := H.ops
  have w : Heapq.WeakOrder E.ops.lt := by
    rw [ht]
    constructor
    · intro a b h
      simp only [probOps, decide_eq_true_eq, decide_eq_false_iff_not, Rat.not_lt] at h ⊢
      exact Rat.le_of_lt h
    · intro a b c h1 h2
      simp only [probOps, decide_eq_false_iff_not, Rat.not_lt] at h1 h2 ⊢
      exact Rat.le_trans h2 h1
  obtain ⟨hm, hsub⟩ := mem_of_pop _ _ _ _ hp
  have hheapne : s.heapOf nt ≠ [] := by intro he; rw [he] at hm; cases hm
  have hkey' : ∀ x, key = some x → ∃ k, AList.lookup k (s.succOf nt) = some x := by
    intro x hx
    rcases hkey x hx with h | h
    · exact h
    · exact absurd h hheapne
  have hmin := (Heapq.pop_isHeap (ltE_weakOrder E.ops w) _ _ _ (hh nt) hp).2
  have he1 := heap_prob H hs nt e hm
  have hle : ∀ e' ∈ s.heapOf nt, e'.1 ≤ e.1 := by
    intro e' he'
    have := hmin e' he'
    unfold ltE at this
    rw [ht] at this
    exact probLt_false this
  have hsucc := popTake_succOf s nt key e h'
  have hheap : ∀ nt', (s.popTake nt key e h').heapOf nt' = if nt' = nt then h' else s.heapOf nt' := by
    intro nt'
    show (s.setHeap nt h').heapOf nt' = _
    rw [St.heapOf_setHeap]
  have hbelow_e : ∀ k v, AList.lookup k (s.succOf nt) = some v → prob E.G E.W e.2 nt ≤ prob E.G E.W v nt := by
    intro k v hk
    rw [← he1]; exact ho.below nt e hm k v hk
  refine ⟨⟨?_, ?_, ?_, ?_⟩, ?_, ?_⟩
  · intro nt' e' he' k v hk
    rw [hheap] at he'
    rw [hsucc] at hk
    split at hk
    · rename_i heq; subst heq
      simp only [if_true] at he'
      rw [AList.lookup_insert] at hk
      split at hk
      · cases hk
        rw [← he1]; exact hle e' (hsub e' he')
      · exact ho.below _ e' (hsub e' he') k v hk
    · rename_i hne
      simp only [hne, if_false] at he'
      exact ho.below nt' e' he' k v hk
  · intro nt' k v hk
    rw [hsucc] at hk
    split at hk
    · rename_i heq; subst heq
      rw [AList.lookup_insert] at hk
      split at hk
      · rename_i hkk
        cases hk
        obtain ⟨k0, hk0⟩ := hkey' k hkk.symm
        rw [← he1]; exact ho.below _ e hm k0 k hk0
      · exact ho.link _ k v hk
    · exact ho.link nt' k v hk
  · intro nt' F args ra hmem hr i ai a hai ha
    rw [hsucc]
    rcases ho.args nt' F args ra hmem hr i ai a hai ha with ⟨k, hk⟩ | ⟨hempty, hfp⟩
    · left
      split
      · rename_i heq
        rw [heq] at hk
        by_cases hkk : k = key
        · subst hkk
          rw [hnone] at hk; cases hk
        · exact ⟨k, by rw [AList.lookup_insert_ne _ _ hkk]; exact hk⟩
      · exact ⟨k, hk⟩
    · split
      · rename_i heq
        -- the enumeration of this non-terminal starts now: the key is the sentinel and the
        -- popped program is the first pop of the initial heap
        left
        rw [heq] at hempty hfp
        have hkn : key = none := by
          cases key with
          | none => rfl
          | some x =>
            obtain ⟨k0, hk0⟩ := hkey' x rfl
            rw [hempty] at hk0; simp at hk0
        have hfr := ho.fresh nt hempty
        rw [hfr] at hp
        have := hfp e h' hp
        exact ⟨none, by rw [hkn, AList.lookup_insert_self, this]⟩
      · exact Or.inr ⟨hempty, hfp⟩
  · intro nt' he
    rw [hsucc] at he
    split at he
    · exact absurd he (insert_ne_nil _ _ _)
    · rename_i hne
      rw [hheap]
      simp only [hne, if_false]
      exact ho.fresh nt' he
  · rw [hsucc]; simp only [if_true]; exact insert_ne_nil _ _ _
  · intro k v hk
    rw [hsucc] at hk
    simp only [if_true] at hk
    rw [AList.lookup_insert] at hk
    split at hk
    · cases hk; exact Rat.le_refl
    · exact hbelow_e k v hk

theorem probOps_weakOrder (t : Rat) : Heapq.WeakOrder (probOps t).lt := by
  constructor
  · intro a b h
    simp only [probOps, decide_eq_true_eq, decide_eq_false_iff_not, Rat.not_lt] at h ⊢
    exact Rat.le_of_lt h
  · intro a b c h1 h2
    simp only [probOps, decide_eq_false_iff_not, Rat.not_lt] at h1 h2 ⊢
    exact Rat.le_trans h2 h1

theorem OrdHyp.weak {E : Env S Unit Rat} {rank} (H : OrdHyp E rank) : Heapq.WeakOrder E.ops.lt := by
  obtain ⟨t, ht⟩ := H.ops
  rw [ht]; exact probOps_weakOrder t

/-- what `query(S, None)` does when the enumeration of `S` has not started (no filter) -/
theorem query_none_inv {E : Env S Unit Rat} {s s1 : St S Unit Rat} {nt : NT S Unit} {r0 : Option Prog}
    (h : Big E (.query nt none) s s1 r0) (hnone : AList.lookup none (s.succOf nt) = none)
    (hdel : s.deleted = []) :
    (Heapq.pop (ltE E.ops) (s.heapOf nt) = none ∧ s1 = s) ∨
    (∃ e h', Heapq.pop (ltE E.ops) (s.heapOf nt) = some (e, h') ∧ r0 = some e.2) := by
  cases h with
  | query_direct _ hb =>
    cases hb with
    | lop_hit hl => rw [hnone] at hl; cases hl
    | lop_miss _ hp =>
      cases hp with
      | pop_empty hpe => exact Or.inl ⟨hpe, rfl⟩
      | pop_deleted _ hd _ _ => rw [hdel] at hd; simp at hd
      | pop_take hpt _ _ => exact Or.inr ⟨_, _, hpt, rfl⟩
  | query_first hp _ _ _ => exact absurd rfl hp

/-- what one iteration of the loop of `__add_successors__` does: `query`, then the push -/
theorem loop_iter_order {E : Env S Unit Rat} {rank} (H : OrdHyp E rank) {H0 : NT S Unit → List (Rat × Prog)}
    {s s1 : St S Unit Rat} {F : Sym} {args : List Prog} {nt s2 : NT S Unit} {i argsLen : Nat}
    {info : Info S} {ai : Prog} {r : Option Prog}
    (hai : args[i]? = some ai) (hlt : i < argsLen)
    (hq : Big E (.query s2 (some ai)) s s1 r)
    (ihq : SInv E s → NInv s → HInv E s → OInv E H0 s → SPre E (.query s2 (some ai)) →
      NPre (.query s2 (some ai)) s → OPre E H0 (.query s2 (some ai)) s →
      OInv E H0 s1 ∧ OFrame rank (.query s2 (some ai)) s s1 ∧ SeenMono s s1)
    (hs : SInv E s) (hn : NInv s) (hh : HInv E s) (ho : OInv E H0 s)
    (hspre : SPre E (.addLoop F args nt i argsLen info s2))
    (hopre : OPre E H0 (.addLoop F args nt i argsLen info s2) s) :
    SInv E (pushStep E s1 F args nt i r) ∧ NInv (pushStep E s1 F args nt i r) ∧
    HInv E (pushStep E s1 F args nt i r) ∧ OInv E H0 (pushStep E s1 F args nt i r) ∧
    (∀ nt', rank nt ≤ rank nt' → (pushStep E s1 F args nt i r).succOf nt' = s.succOf nt') ∧
    SeenMono s (pushStep E s1 F args nt i r) ∧ gen E.G ai s2 = true := by
  obtain ⟨ra, hr, hgl, hlen, hinfo⟩ := hspre
  obtain ⟨hinf, a, ha, hs2⟩ := hinfo hlt
  obtain ⟨hseen, hne, hvals⟩ := hopre
  have hqpre : OPre E H0 (.query s2 (some ai)) s := by
    intro x hx; cases hx; rw [hs2]; exact ho.args nt F args ra hseen hr i _ a hai ha
  obtain ⟨o1, f1, m1⟩ := ihq hs hn hh ho trivial trivial hqpre
  obtain ⟨hs1, spost⟩ := big_sound E hq hs trivial
  obtain ⟨hn1, st1, npost⟩ := big_nodup E hq hn trivial
  have hh1 := big_heaps E H.weak hq hh
  have hrank : rank s2 < rank nt := by
    rw [hs2]; exact H.acyclic nt F ra hr a (List.mem_of_getElem? ha)
  have hgai : gen E.G ai s2 = true := by rw [hs2]; exact genList_get E.G args ra i ai a hgl hai ha
  have hgnp : ∀ q, r = some q → gen E.G (.node F (args.set i q)) nt = true := by
    intro q hq'
    rw [gen, hr]
    exact genList_set E.G args ra i q a hgl ha (by rw [← hs2]; exact spost q hq')
  have hvals1 : ∀ k v, AList.lookup k (s1.succOf nt) = some v →
      prob E.G E.W (.node F args) nt ≤ prob E.G E.W v nt := by
    intro k v hk
    rw [f1 nt hrank] at hk
    exact hvals k v hk
  have hne1 : s1.succOf nt ≠ [] := by rw [f1 nt hrank]; exact hne
  obtain ⟨o3, e3, m3⟩ := pushStep_order H hs1 o1 F args nt i r ra a ai hr hgl ha hai (m1 _ _ hseen) hne1 hvals1
    (fun q hq' => ⟨by rw [← hs2]; exact npost q hq', by rw [← hs2]; exact spost q hq'⟩)
  refine ⟨hs1.pushStep F args nt i r hgnp, (hn1.pushStep (E := E) F args nt i r).1,
    hh1.pushStep H.weak F args nt i r, o3, ?_, fun nt' p hp => m3 nt' p (m1 nt' p hp), hgai⟩
  intro nt' hle
  rw [e3 nt']
  exact f1 nt' (Nat.lt_of_lt_of_le hrank hle)

/-- **every call keeps the order invariant** (acyclic grammar, no filter) -/
theorem big_order {E : Env S Unit Rat} {rank} (H : OrdHyp E rank) {H0 : NT S Unit → List (Rat × Prog)}
    {c : Call S Unit} {s s' : St S Unit Rat}
    {r : Option Prog} (hb : Big E c s s' r) :
    SInv E s → NInv s → HInv E s → OInv E H0 s → SPre E c → NPre c s → OPre E H0 c s →
    OInv E H0 s' ∧ OFrame rank c s s' ∧ SeenMono s s' := by
  induction hb with
  | @query_direct s s' nt p r h hb ih =>
    intro hs hn hh ho _ _ hpre
    refine ih hs hn hh ho trivial trivial ?_
    intro x hx
    rcases hpre x hx with hv | ⟨hempty, _⟩
    · exact Or.inl hv
    · rcases h with h | h
      · rw [h] at hx; cases hx
      · rw [hempty] at h; simp at h
  | @query_first s s1 s' nt p r0 r hp h h0 hb ih0 ih =>
    intro hs hn hh ho _ _ hpre
    obtain ⟨o1, f1, m1⟩ := ih0 hs hn hh ho trivial trivial (by intro x hx; cases hx)
    have hs1 := (big_sound E h0 hs trivial).1
    obtain ⟨hn1, st1, np1⟩ := big_nodup E h0 hn trivial
    have hh1 := big_heaps E H.weak h0 hh
    have hnone : AList.lookup none (s.succOf nt) = none := by
      cases hl : AList.lookup none (s.succOf nt) with
      | none => rfl
      | some v => rw [hl] at h; simp at h
    refine (fun ⟨o2, f2, m2⟩ => ⟨o2, fun nt' hlt => (f2 nt' hlt).trans (f1 nt' hlt),
      fun nt p hp => m2 nt p (m1 nt p hp)⟩) (ih hs1 hn1 hh1 o1 trivial trivial ?_)
    intro x hx
    rcases hpre x hx with ⟨k, hk⟩ | ⟨hempty, hfp⟩
    · exact Or.inl ⟨k, st1 _ _ _ hk⟩
    · rcases query_none_inv h0 hnone hn.no_deleted with ⟨hpe, rfl⟩ | ⟨e, h', hpt, hr0⟩
      · exact Or.inr ((Heapq.pop_none_iff _ _).mp hpe)
      · left
        rw [ho.fresh nt hempty] at hpt
        have := hfp e h' hpt
        exact ⟨none, by rw [← this]; exact np1 _ hr0⟩
  | lop_hit h => intro _ _ _ ho _ _ _; exact ⟨ho, fun _ _ => rfl, fun _ _ h => h⟩
  | lop_miss h hb ih =>
    intro hs hn hh ho _ _ hpre
    exact ih hs hn hh ho trivial h hpre
  | pop_empty h => intro _ _ _ ho _ _ _; exact ⟨ho, fun _ _ => rfl, fun _ _ h => h⟩
  | pop_deleted h hd ha hb iha ihb =>
    intro _ hn _ _ _ _ _
    rw [hn.no_deleted] at hd
    simp at hd
  | @pop_take s s' nt key e h' x h hd ha iha =>
    intro hs hn hh ho _ hnone hpre
    obtain ⟨oa, hnea, hvals⟩ := popTake_order H hs hh ho nt key e h' h hpre hnone
    obtain ⟨hm, hsub⟩ := mem_of_pop _ _ _ _ h
    have hseen := hs.heap_seen _ _ hm
    have hg := hs.seen_gen _ _ hseen
    have h1 := (hs.setHeap_sub nt h' hsub).setSucc nt key e.2 hseen
    have hsa : SInv E (s.popTake nt key e h') :=
      h1.congr (fun _ => rfl) (fun _ => rfl) (fun _ => rfl) h1.cache_ok
    have hna := (hn.popTake nt key e h' h hnone).1
    have hha : HInv E (s.popTake nt key e h') := fun nt' => hh.pop H.weak nt e h' h nt'
    obtain ⟨o2, f2, m2⟩ := iha hsa hna hha oa hg trivial ⟨hseen, hnea, hvals⟩
    refine ⟨o2, ?_, m2⟩
    intro nt' hlt
    rw [f2 nt' (Nat.le_of_lt hlt)]
    show (s.popTake nt key e h').succOf nt' = s.succOf nt'
    rw [popTake_succOf]
    have : nt' ≠ nt := by intro heq; subst heq; exact Nat.lt_irrefl _ hlt
    simp [this]
  | succ_leaf => intro _ _ _ ho _ _ _; exact ⟨ho, fun _ _ => rfl, fun _ _ h => h⟩
  | @succ_fun s s' F a as nt r rl x hd hr hb ih =>
    intro hs hn hh ho hspre _ hpre
    refine ih hs hn hh ho ?_ trivial hpre
    have hpre' : gen E.G (.node F (a :: as)) nt = true := hspre
    rw [gen, hr] at hpre'
    obtain ⟨ra, u⟩ := rl
    cases u
    simp only at hpre'
    refine ⟨ra, hr, hpre', rfl, ?_⟩
    intro _
    unfold derive at hd
    rw [hr] at hd
    simp only [Option.some.injEq] at hd
    subst hd
    cases ra with
    | nil => simp [genList] at hpre'
    | cons a0 as0 =>
      obtain ⟨t0, s0⟩ := a0
      exact ⟨by simp [deriveWith], (t0, s0), by simp, by simp [deriveWith, argNT]⟩
  | loop_done h => intro _ _ _ ho _ _ _; exact ⟨ho, fun _ _ => rfl, fun _ _ h => h⟩
  | @loop_step s s1 s' F args nt i argsLen info s2 ai r r' x h hai hq hc hda hb ihq ihb =>
    intro hs hn hh ho hspre _ hpre
    obtain ⟨hs3, hn3, hh3, o3, f3, m3, hgai⟩ := loop_iter_order H hai h hq ihq hs hn hh ho hspre hpre
    obtain ⟨ra, hr, hgl, hlen, hinfo⟩ := hspre
    obtain ⟨hinf, a, ha, hs2⟩ := hinfo h
    have hspre' : SPre E (.addLoop F args nt (i + 1) argsLen r'.1 r'.2) := by
      refine ⟨ra, hr, hgl, hlen, ?_⟩
      intro _
      obtain ⟨r2, hr2, hadv1, hadv2⟩ := deriveAll_gen E.G ai s2 info hgai
      rw [hda] at hr2
      cases hr2
      have hlt : i + 1 < ra.length := by omega
      have hdrop : ra.drop (i + 1) = ra[i + 1] :: ra.drop (i + 1 + 1) := List.drop_eq_getElem_cons hlt
      refine ⟨?_, ra[i + 1], List.getElem?_eq_getElem hlt, ?_⟩
      · rw [hadv1, hinf, hdrop]; rfl
      · exact hadv2 _ _ (by rw [hinf, hdrop])
    have hopre' : OPre E H0 (.addLoop F args nt (i + 1) argsLen r'.1 r'.2) (pushStep E s1 F args nt i r) := by
      refine ⟨m3 _ _ hpre.1, ?_, ?_⟩
      · rw [f3 nt (Nat.le_refl _)]; exact hpre.2.1
      · intro k v hk
        rw [f3 nt (Nat.le_refl _)] at hk
        exact hpre.2.2 k v hk
    obtain ⟨o4, f4, m4⟩ := ihb hs3 hn3 hh3 o3 hspre' trivial hopre'
    exact ⟨o4, fun nt' hle => (f4 nt' hle).trans (f3 nt' hle), fun nt' p hp => m4 nt' p (m3 nt' p hp)⟩
  | @loop_last s s1 F args nt i argsLen info s2 ai r h hai hq hc ihq =>
    intro hs hn hh ho hspre _ hpre
    obtain ⟨_, _, _, o3, f3, m3, _⟩ := loop_iter_order H hai h hq ihq hs hn hh ho hspre hpre
    exact ⟨o3, f3, m3⟩

/-! ### the generator loop -/

theorem chain_mem_value (Tb : AList (Option Prog) Prog) :
    ∀ (l : List Prog) (prev : Option Prog), chainFrom Tb prev l → ∀ z ∈ l, ∃ k, AList.lookup k Tb = some z
  | [], _, _, z, hz => by cases hz
  | y :: ys, prev, h, z, hz => by
    rcases List.mem_cons.mp hz with rfl | hz
    · exact ⟨prev, h.1⟩
    · exact chain_mem_value Tb ys (some y) h.2 z hz

/-- a chain of a table whose links are ordered is sorted -/
theorem chain_sorted (Tb : AList (Option Prog) Prog) (f : Prog → Rat)
    (hlink : ∀ k v, AList.lookup (some k) Tb = some v → f v ≤ f k) :
    ∀ (l : List Prog) (prev : Option Prog), chainFrom Tb prev l →
      l.Pairwise (fun a b => f b ≤ f a) ∧ ∀ x, prev = some x → ∀ z ∈ l, f z ≤ f x
  | [], _, _ => ⟨List.Pairwise.nil, fun _ _ z hz => by cases hz⟩
  | y :: ys, prev, h => by
    obtain ⟨ih1, ih2⟩ := chain_sorted Tb f hlink ys (some y) h.2
    refine ⟨List.Pairwise.cons (fun z hz => ih2 y rfl z hz) ih1, ?_⟩
    intro x hx z hz
    subst hx
    have hyx := hlink x y h.1
    rcases List.mem_cons.mp hz with rfl | hz
    · exact hyx
    · exact Rat.le_trans (ih2 y rfl z hz) hyx

theorem nextLoop_query (E : Env S Unit Rat) (hf : ∀ p, E.filter p = true) (fuel : Nat) :
    ∀ (k : Nat) (s : St S Unit Rat) (cur : Option Prog) (g' : Gen S Unit Rat) (r : Option Prog),
      nextLoop E fuel k s cur = some (g', r) → query E fuel s E.G.start cur = some (g'.st, r) := by
  intro k
  cases k with
  | zero => intro s cur g' r h; simp [nextLoop] at h
  | succ k =>
    intro s cur g' r h
    unfold nextLoop at h
    split at h
    · simp at h
    · rename_i s1 hq
      simp only [Option.some.injEq, Prod.mk.injEq] at h
      obtain ⟨rfl, rfl⟩ := h
      exact hq
    · rename_i s1 p hq
      simp only [hf p, if_true, Option.some.injEq, Prod.mk.injEq] at h
      obtain ⟨rfl, rfl⟩ := h
      exact hq

/-- invariant of the generator object for the order theorem; last component: the state produced
    by the prologue satisfies the order invariant (the part that is proved separately) -/
def OG (E : Env S Unit Rat) (fuel : Nat) (H0 : NT S Unit → List (Rat × Prog)) (g : Gen S Unit Rat)
    (out : List Prog) : Prop :=
  GInv E g ∧ NGInv E g out ∧ HInv E g.st ∧ (g.started = true → OInv E H0 g.st) ∧
  (g.started = false → out = [] ∧ ∀ s0, prologue E fuel g.st = some s0 → OInv E H0 s0)

theorem next_order {E : Env S Unit Rat} {rank} (H : OrdHyp E rank) (hnd : RowsNodup E.G)
    (hf : ∀ p, E.filter p = true) (fuel : Nat) {H0 : NT S Unit → List (Rat × Prog)}
    (g g' : Gen S Unit Rat) (out : List Prog) (r : Option Prog)
    (hg : OG E fuel H0 g out) (h : next E fuel g = some (g', r)) :
    (∀ p, r = some p → OG E fuel H0 g' (out ++ [p])) ∧ (r = none → OG E fuel H0 g' out) := by
  obtain ⟨hgi, hng, hh, ho1, ho2⟩ := hg
  have hgi' := (next_sound E hnd fuel g g' r hgi h).1
  have hng' := next_nodup E hf fuel g g' out r hng h
  have hh' := next_hinv E H.weak fuel g g' r hh h
  -- the order invariant of the new state
  have key : ∀ s : St S Unit Rat, SInv E s → NInv s → HInv E s → OInv E H0 s →
      chainFrom (s.succOf E.G.start) none out →
      nextLoop E fuel fuel s g.current = some (g', r) → OInv E H0 g'.st ∧ g'.started = true := by
    intro s hs hn hhs ho hch hl
    have hq := nextLoop_query E hf fuel _ _ _ _ _ hl
    have hst := (nextLoop_sound E fuel _ _ _ _ _ hs hl).2.1
    refine ⟨(big_order H (big_of_query E hq) hs hn hhs ho trivial trivial ?_).1, hst⟩
    intro x hx
    left
    rw [hng.2.2] at hx
    rcases lastOr_mem none out with e | ⟨z, hz, e⟩
    · rw [e] at hx; cases hx
    · rw [e] at hx; cases hx
      exact chain_mem_value _ out none hch x hz
  have hfin : OInv E H0 g'.st ∧ g'.started = true := by
    unfold next at h
    split at h
    · rename_i hst
      exact key _ hgi.1 hng.1 hh (ho1 hst) hng.2.1 h
    · rename_i hst
      have hst' : g.started = false := by simpa using hst
      split at h
      · simp at h
      · rename_i s0 hp
        obtain ⟨hn0, hst0⟩ := prologue_ninv E fuel _ _ hng.1 hp
        exact key s0 (prologue_sound E hnd fuel _ _ hgi.1 (hgi.2 hst') hp) hn0
          (prologue_hinv E H.weak fuel _ _ hh hp) ((ho2 hst').2 s0 hp)
          (chainFrom_stable (fun k v hk => hst0 _ k v hk) _ _ hng.2.1) h
  have hno : ∀ out' : List Prog, g'.started = false →
      out' = [] ∧ ∀ s0, prologue E fuel g'.st = some s0 → OInv E H0 s0 := by
    intro _ hc; rw [hfin.2] at hc; cases hc
  exact ⟨fun p hp => ⟨hgi', hng'.1 p hp, hh', fun _ => hfin.1, hno _⟩,
         fun hr => ⟨hgi', hng'.2 hr, hh', fun _ => hfin.1, hno _⟩⟩

theorem take_order {E : Env S Unit Rat} {rank} (H : OrdHyp E rank) (hnd : RowsNodup E.G)
    (hf : ∀ p, E.filter p = true) (fuel : Nat) {H0 : NT S Unit → List (Rat × Prog)} :
    ∀ (k : Nat) (g : Gen S Unit Rat) (acc : List Prog) (g' : Gen S Unit Rat) (out : List Prog) (b : Bool),
      OG E fuel H0 g acc → take E fuel k g acc = some (g', out, b) → OG E fuel H0 g' out := by
  intro k
  induction k with
  | zero =>
    intro g acc g' out b hg h
    simp only [take, Option.some.injEq, Prod.mk.injEq] at h
    obtain ⟨rfl, rfl, _⟩ := h
    exact hg
  | succ k ih =>
    intro g acc g' out b hg h
    unfold take at h
    split at h
    · simp at h
    · rename_i g1 hn
      simp only [Option.some.injEq, Prod.mk.injEq] at h
      obtain ⟨rfl, rfl, _⟩ := h
      exact (next_order H hnd hf fuel _ _ _ _ hg hn).2 rfl
    · rename_i g1 p hn
      exact ih _ _ _ _ _ ((next_order H hnd hf fuel _ _ _ _ hg hn).1 p rfl) h

/-- the yielded sequence of a generator satisfying the invariant is sorted -/
theorem OG.sorted {E : Env S Unit Rat} {fuel : Nat} {H0 : NT S Unit → List (Rat × Prog)}
    {g : Gen S Unit Rat} {out : List Prog} (h : OG E fuel H0 g out) :
    out.Pairwise (fun a b => prob E.G E.W b E.G.start ≤ prob E.G E.W a E.G.start) := by
  cases hst : g.started with
  | true =>
    exact (chain_sorted _ (fun p => prob E.G E.W p E.G.start) ((h.2.2.2.1 hst).link E.G.start) out none
      h.2.1.2.1).1
  | false =>
    rw [(h.2.2.2.2 hst).1]; exact List.Pairwise.nil

theorem og_new (E : Env S Unit Rat) (fuel : Nat) (H0 : NT S Unit → List (Rat × Prog))
    (hpro : ∀ s0, prologue E fuel (St.empty E.G) = some s0 → OInv E H0 s0) :
    OG E fuel H0 (Gen.new E.G) [] :=
  ⟨ginv_new E, ngInv_new E, hinv_new E, (fun h => by cases h), fun _ => ⟨rfl, hpro⟩⟩

end PS.HS
