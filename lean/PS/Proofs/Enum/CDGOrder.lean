/- Global order argument, heap layer (exact rationals, acyclic grammars): if the cost lists `_cost_lists_derivation[args]`
   are non-decreasing — what the monotone-queue theorem (CDSorted.lean) gives as long as every push stays inside the
   window of its queue — then every heap `_queue_nt[S]` is a valid heap whose elements cost at least every entry of
   `_cost_lists_nt[S]`, every pending `Derivation` costs `w + _cost_lists_derivation[args][comb]`, and every cost list
   `_cost_lists_nt[S]` is non-decreasing: the claimed costs under which programs are yielded never decrease.
   The cost lists only grow by appending (`CMono`), so the hypothesis is needed for the FINAL state only. -/
import PS.Proofs.Enum.CDGRun
import PS.Proofs.Enum.CDSorted
import PS.Proofs.Enum.HeapInv
import PS.Proofs.Enum.HeapRoot
namespace PS.CD

/-! ### the cost lists of the derivation queues only grow by appending -/

def CMono {α : Type} (s s' : St α) : Prop :=
  ∀ args cl, AList.lookup args s.costDer = some cl → ∃ cl', AList.lookup args s'.costDer = some cl' ∧ cl <+: cl'

theorem CMono.refl {α : Type} (s : St α) : CMono s s := fun _ cl h => ⟨cl, h, List.prefix_refl _⟩
theorem CMono.trans {α : Type} {s1 s2 s3 : St α} (h1 : CMono s1 s2) (h2 : CMono s2 s3) : CMono s1 s3 := by
  intro a cl h
  obtain ⟨cl2, a2, p2⟩ := h1 a cl h
  obtain ⟨cl3, a3, p3⟩ := h2 a cl2 a2
  exact ⟨cl3, a3, p2.trans p3⟩
theorem CMono.of_eq {α : Type} {s s' : St α} (h : s'.costDer = s.costDer) : CMono s s' := by
  intro a cl hl; exact ⟨cl, by rw [h]; exact hl, List.prefix_refl _⟩

theorem cmono_append {α : Type} {s : St α} {args : List NT} {cl2 : List α} (x : α)
    (h : AList.lookup args s.costDer = some cl2) : CMono s (s.setCostDer args (cl2 ++ [x])) := by
  intro a cl hl
  by_cases he : a = args
  · subst he
    rw [h] at hl; simp only [Option.some.injEq] at hl; subst hl
    exact ⟨cl2 ++ [x], by simp [St.setCostDer, AList.lookup_insert_self], List.prefix_append _ _⟩
  · exact ⟨cl, by simp only [St.setCostDer]; rw [AList.lookup_insert_ne _ _ he]; exact hl, List.prefix_refl _⟩

variable {α : Type}

theorem appendBank_costDer {s s' : St α} {S : NT} {ci : Nat} {p : Prog} (he : s.appendBank S ci p = some s') :
    s'.costDer = s.costDer ∧ s'.costNt = s.costNt ∧ s'.queueNt = s.queueNt := by
  obtain ⟨b, l, _, _, rfl⟩ := appendBank_spec he
  exact ⟨rfl, rfl, rfl⟩

theorem ensureBank_costDer {s s' : St α} {S : NT} {ci : Nat} (he : s.ensureBank S ci = some s') :
    s'.costDer = s.costDer ∧ s'.costNt = s.costNt ∧ s'.queueNt = s.queueNt := by
  unfold St.ensureBank at he
  split at he
  · simp at he
  · split at he
    · simp only [Option.some.injEq] at he; subst he; exact ⟨rfl, rfl, rfl⟩
    · simp only [Option.some.injEq] at he; subst he; exact ⟨rfl, rfl, rfl⟩

theorem addDeleted_costDer (s : St α) (p : Prog) :
    (s.addDeleted p).costDer = s.costDer ∧ (s.addDeleted p).costNt = s.costNt ∧ (s.addDeleted p).queueNt = s.queueNt := by
  unfold St.addDeleted; split <;> exact ⟨rfl, rfl, rfl⟩

theorem exitQuery_costDer {s s' : St α} {fr : Frame α} (he : exitQuery s fr = some s') :
    s'.costDer = s.costDer ∧ s'.queueNt = s.queueNt := by
  unfold exitQuery at he
  simp only at he
  split at he
  · simp at he
  · rename_i s1 hs1
    have h1 : s1.costDer = s.costDer ∧ s1.queueNt = s.queueNt := by
      split at hs1
      · split at hs1
        · simp at hs1
        · simp only [Option.some.injEq] at hs1; subst hs1; exact ⟨rfl, rfl⟩
      · simp only [Option.some.injEq] at hs1; subst hs1; exact ⟨rfl, rfl⟩
    split at he
    · simp only [Option.some.injEq] at he; subst he; exact h1
    · simp only [Option.some.injEq] at he; subst he; exact h1
    · simp at he

theorem pushNext_costDer (A : Arith α) (s : St α) (S : NT) (h2 : List (Deriv α)) (w : Int) (el : Deriv α) (cl : List α) (ns : Bool) :
    (pushNext A s S h2 w el cl ns).1.costDer = s.costDer ∧ (pushNext A s S h2 w el cl ns).1.costNt = s.costNt := by
  unfold pushNext; split <;> exact ⟨rfl, rfl⟩

theorem succLoop_costs (A : Arith α) (bb : Bool) (args : List NT) (c : α) (comb : List Nat) :
    ∀ (rem i : Nat) (s s' : St α), succLoop A bb args c comb rem i s = some s' →
      s'.costDer = s.costDer ∧ s'.costNt = s.costNt := by
  intro rem
  induction rem with
  | zero => intro i s s' h; simp only [succLoop, Option.some.injEq] at h; subst h; exact ⟨rfl, rfl⟩
  | succ rem ih =>
    intro i s s' h
    simp only [succLoop] at h
    split at h
    · split at h
      · simp at h
      · split at h
        · split at h
          · simp only [Option.some.injEq] at h; subst h; exact ⟨rfl, rfl⟩
          · exact ih _ _ _ h
        · split at h
          · split at h
            · simp at h
            · split at h
              · simp only [Option.some.injEq] at h; subst h; exact ⟨rfl, rfl⟩
              · obtain ⟨x1, x2⟩ := ih _ _ _ h
                exact ⟨x1, x2⟩
          · simp at h
    · simp at h

structure COk (E : Env α) (f : Nat) : Prop where
  resume : ∀ s fr r, resume E f s fr = some r → CMono s r.st
  drive : ∀ s fr s', drive E f s fr = some s' → CMono s s'
  queryList : ∀ s S ci s' ia r, queryList E f s S ci = some (s', ia, r) → CMono s s'
  argLoop : ∀ s cs ss ia agf acc s' ia' agf' acc', argLoop E f s cs ss ia agf acc = some (s', ia', agf', acc') → CMono s s'
  combLoop : ∀ s args ci c combs ns hg s' ns' hg', combLoop E f s args ci c combs ns hg = some (s', ns', hg') → CMono s s'
  queryDer : ∀ s args ci s' l, queryDer E f s args ci = some (s', l) → CMono s s'

theorem cok_resume (E : Env α) (f : Nat) (ih : COk E f) : ∀ s fr r, resume E (f + 1) s fr = some r → CMono s r.st := by
  intro s fr r h
  rw [resume] at h
  split at h
  · simp only at h
    split at h
    · exact ih.resume _ _ _ h
    · split at h
      · exact (CMono.of_eq (addDeleted_costDer _ _).1).trans (ih.resume _ _ _ h)
      · split at h
        · simp at h
        · rename_i s1 hb
          simp only [Option.some.injEq] at h; subst h
          exact CMono.of_eq (appendBank_costDer hb).1
  · exact ih.resume _ _ _ h
  · exact ih.resume _ _ _ h
  · split at h
    · simp at h
    · split at h
      · cases hx : exitQuery s fr with
        | none => simp [hx] at h
        | some s' =>
          simp only [hx, Option.map_some, Option.some.injEq] at h; subst h
          exact CMono.of_eq (exitQuery_costDer hx).1
      · split at h
        · cases hx : exitQuery s fr with
          | none => simp [hx] at h
          | some s' =>
            simp only [hx, Option.map_some, Option.some.injEq] at h; subst h
            exact CMono.of_eq (exitQuery_costDer hx).1
        · split at h
          · simp at h
          · rename_i el heap' hpop
            split at h
            · rename_i s1 args w he hrule
              have m1 : CMono s s1 := (CMono.of_eq (s := s) (s' := s.setHeap fr.S heap') rfl).trans
                (CMono.of_eq (ensureBank_costDer he).1)
              split at h
              · simp only at h
                split at h
                · exact m1.trans (ih.resume _ _ _ h)
                · split at h
                  · exact (m1.trans (CMono.of_eq (addDeleted_costDer _ _).1)).trans (ih.resume _ _ _ h)
                  · split at h
                    · simp at h
                    · rename_i s2 hb
                      simp only [Option.some.injEq] at h; subst h
                      exact m1.trans (CMono.of_eq (appendBank_costDer hb).1)
              · split at h
                · simp at h
                · rename_i s2 possibles hq
                  have m2 := m1.trans (ih.queryDer _ _ _ _ _ hq)
                  split at h
                  · rename_i em cl h2 _ _ hl2
                    have m3 : CMono s (pushNext E.A s2 fr.S h2 w el cl fr.noSucc).1 :=
                      m2.trans (CMono.of_eq (pushNext_costDer _ _ _ _ _ _ _ _).1)
                    simp only at h
                    split at h
                    · exact m3.trans (ih.resume _ _ _ h)
                    · exact m3.trans (ih.resume _ _ _ h)
                  · simp at h
            · simp at h

theorem cok_all (E : Env α) : ∀ f, COk E f := by
  intro f
  induction f with
  | zero =>
    refine ⟨?_, ?_, ?_, ?_, ?_, ?_⟩
    · intro s fr r h; simp [resume] at h
    · intro s fr s' h; simp [drive] at h
    · intro s S ci s' ia r h; simp [queryList] at h
    · intro s cs ss ia agf acc s' ia' agf' acc' h; simp [argLoop] at h
    · intro s args ci c combs ns hg s' ns' hg' h; simp [combLoop] at h
    · intro s args ci s' l h; simp [queryDer] at h
  | succ f ih =>
    refine ⟨cok_resume E f ih, ?_, ?_, ?_, ?_, ?_⟩
    · intro s fr s' h
      rw [drive] at h
      split at h
      · simp at h
      · rename_i s1 hr
        simp only [Option.some.injEq] at h; subst h
        exact ih.resume _ _ _ hr
      · rename_i s1 fr1 p hr
        exact (ih.resume _ _ _ hr).trans (ih.drive _ _ _ h)
    · intro s S ci s' ia r h
      rw [queryList] at h
      split at h
      · split at h
        · simp only [Option.some.injEq, Prod.mk.injEq] at h; rw [← h.1]; exact CMono.refl _
        · split at h
          · simp only [Option.some.injEq, Prod.mk.injEq] at h; rw [← h.1]; exact CMono.refl _
          · split at h
            · simp only [Option.some.injEq, Prod.mk.injEq] at h; rw [← h.1]; exact CMono.refl _
            · split at h
              · simp at h
              · rename_i s1 hd
                have hs1 := ih.drive _ _ _ hd
                split at h
                · split at h
                  · simp only [Option.some.injEq, Prod.mk.injEq] at h; rw [← h.1]; exact hs1
                  · split at h
                    · simp only [Option.some.injEq, Prod.mk.injEq] at h; rw [← h.1]; exact hs1
                    · simp at h
                · simp at h
      · simp at h
    · intro s cs ss ia agf acc s' ia' agf' acc' h
      cases cs with
      | nil => simp only [argLoop, Option.some.injEq, Prod.mk.injEq] at h; rw [← h.1]; exact CMono.refl _
      | cons c cs =>
        cases ss with
        | nil => simp only [argLoop, Option.some.injEq, Prod.mk.injEq] at h; rw [← h.1]; exact CMono.refl _
        | cons Si ss =>
          rw [argLoop] at h
          split at h
          · simp at h
          · rename_i s1 one r hq
            have hs1 := ih.queryList _ _ _ _ _ _ hq
            split at h
            · split at h
              · simp only [Option.some.injEq, Prod.mk.injEq] at h; rw [← h.1]; exact hs1
              · exact hs1.trans (ih.argLoop _ _ _ _ _ _ _ _ _ _ h)
            · exact hs1.trans (ih.argLoop _ _ _ _ _ _ _ _ _ _ h)
    · intro s args ci c combs ns hg s' ns' hg' h
      cases combs with
      | nil => simp only [combLoop, Option.some.injEq, Prod.mk.injEq] at h; rw [← h.1]; exact CMono.refl _
      | cons comb rest =>
        rw [combLoop] at h
        split at h
        · simp at h
        · rename_i s1 ia agf poss ha
          have hs1 := ih.argLoop _ _ _ _ _ _ _ _ _ _ ha
          simp only at h
          split at h
          · exact hs1.trans (ih.combLoop _ _ _ _ _ _ _ _ _ _ h)
          · split at h
            · simp at h
            · rename_i s2 hsucc
              have hs2 := hs1.trans (CMono.of_eq (succLoop_costs E.A E.asserts args c comb _ _ _ _ hsucc).1)
              split at h
              · exact hs2.trans (ih.combLoop _ _ _ _ _ _ _ _ _ _ h)
              · split at h
                · simp at h
                · split at h
                  · simp at h
                  · have h9 := ih.combLoop _ _ _ _ _ _ _ _ _ _ h
                    exact (hs2.trans (CMono.of_eq rfl)).trans h9
    · intro s args ci s' l h
      rw [queryDer] at h
      split at h
      · split at h
        · simp only [Option.some.injEq, Prod.mk.injEq] at h; rw [← h.1]; exact CMono.refl _
        · split at h
          · simp only [Option.some.injEq, Prod.mk.injEq] at h; rw [← h.1]; exact CMono.refl _
          · simp only at h
            split at h
            · simp only [Option.some.injEq, Prod.mk.injEq] at h; rw [← h.1]; exact CMono.of_eq rfl
            · split at h
              · simp at h
              · split at h
                · simp at h
                · rename_i s3 ns hg hc
                  have h9 := ih.combLoop _ _ _ _ _ _ _ _ _ _ hc
                  have hs3 : CMono s s3 := (CMono.of_eq (s := s) rfl).trans h9
                  split at h
                  · simp at h
                  · rename_i s4 hs4e
                    have hs4 : CMono s s4 := by
                      split at hs4e
                      · split at hs4e
                        · simp at hs4e
                        · simp only [Option.some.injEq] at hs4e; subst hs4e; exact hs3.trans (CMono.of_eq rfl)
                      · simp only [Option.some.injEq] at hs4e; subst hs4e; exact hs3
                    split at h
                    · rename_i q2 cl2 hq2 hcl2
                      split at h
                      · simp at h
                      · rename_i s5 hs5e
                        have hs5 : CMono s s5 := by
                          split at hs5e
                          · simp only [Option.some.injEq] at hs5e; subst hs5e; exact hs4
                          · split at hs5e
                            · simp at hs5e
                            · rename_i q3 _
                              split at hs5e
                              · simp at hs5e
                              · rename_i pk _
                                simp only [Option.some.injEq] at hs5e; subst hs5e
                                have : CMono (s4.setQueueDer args q3) ((s4.setQueueDer args q3).setCostDer args (cl2 ++ [pk.cost])) :=
                                  cmono_append pk.cost (s := s4.setQueueDer args q3) hcl2
                                exact (hs4.trans (CMono.of_eq rfl)).trans this
                        split at h
                        · simp at h
                        · simp only [Option.some.injEq, Prod.mk.injEq] at h; rw [← h.1]; exact hs5
                    · simp at h
      · simp at h

end PS.CD
