/- Heap search on unambiguous, acyclic grammars, termination: `__init_non_terminal__` returns. -/
import PS.Proofs.Enum.UTotal2
namespace PS.UHS
open PS PS.G
set_option linter.unusedSectionVars false
variable {U π : Type} [DecidableEq U]
variable {E : Env U π} {rank : UNT U → Nat} {Good : π → Prop}

theorem initPush_cons (E : Env U π) (s : St U π) (nt : UNT U) (d : Sym × List (UNT U)) (rest : List (Sym × List (UNT U))) :
    initPush E s nt (d :: rest) = (initPush E s nt [d]).bind (fun s2 => initPush E s2 nt rest) := by
  obtain ⟨P, v⟩ := d
  simp only [initPush]
  cases AList.lookup (nt, P, v) s.maxRule with
  | none => rfl
  | some prog =>
    simp only
    split
    · rfl
    · cases computePrio E (s.addSeen nt prog) nt prog with
      | none => rfl
      | some r =>
        simp only
        split
        · rfl
        · rfl

/-- the programs of the alternatives of one non-terminal are pairwise distinct -/
theorem items_progs_nodup (H : OHyp E rank Good) {s : St U π} {nt : UNT U} : ∀ (l : List (Sym × List (UNT U)))
    (items : List (π × Prog)), Items (ItemOK E s nt) l items → l.Nodup → (items.map (·.2)).Nodup
  | [], [], _, _ => List.nodup_nil
  | [], _ :: _, h, _ => h.elim
  | _ :: _, [], h, _ => h.elim
  | d :: l, it :: items, h, hnd => by
    simp only [List.map_cons, List.nodup_cons]
    refine ⟨?_, items_progs_nodup H l items h.2 (List.nodup_cons.mp hnd).2⟩
    intro hm
    obtain ⟨it', hit', heq⟩ := List.mem_map.mp hm
    obtain ⟨d', hd', hok'⟩ := Items.mem_right h.2 it' hit'
    obtain ⟨_, _, w, kids, hmw, hprog, hdl, _, _⟩ := h.1
    obtain ⟨_, _, w', kids', hmw', hprog', hdl', _, _⟩ := hok'
    rw [heq, hprog] at hprog'
    have e1 : d.1 = d'.1 := by injection hprog'
    have e2 : kids = kids' := by injection hprog'
    subst e2
    rw [← e1] at hmw'
    obtain ⟨e3, _⟩ := H.ualt nt d.1 kids d.2 w d'.2 w' hmw hmw' hdl hdl'
    have : d = d' := Prod.ext e1 e3
    subst this
    exact (List.nodup_cons.mp hnd).1 hd'

/-- **phase 2 does not fail** -/
theorem initPush_total (H : OHyp E rank Good) (nt : UNT U) : ∀ (l : List (Sym × List (UNT U))) (items : List (π × Prog))
    (s : St U π), Items (ItemOK E s nt) l items → Base E s → CacheC s → (∀ it, it ∈ items → it.2 ∉ s.seenOf nt) →
    (items.map (·.2)).Nodup → ∃ s', initPush E s nt l = some s'
  | [], [], s, _, _, _, _, _ => ⟨s, rfl⟩
  | [], _ :: _, _, h, _, _, _, _ => h.elim
  | _ :: _, [], _, h, _, _, _, _ => h.elim
  | (P, v) :: rest, (pr, prog) :: items, s, hit, hb, hc, hnew, hnd => by
    have hk := H.ghyp.kway
    obtain ⟨⟨hmr, hpr, w, kids, hmw, hprog, hdl, hpop, hkey⟩, hrest⟩ := hit
    simp only at hmr hpr hprog hmw hdl hpop hkey
    -- the first alternative
    have hone : ∃ s2, initPush E s nt [(P, v)] = some s2 := by
      simp only [initPush, hmr]
      have hns : (s.seenOf nt).contains prog = false := by
        have := hnew (pr, prog) List.mem_cons_self
        simpa using this
      simp only [hns, Bool.false_eq_true, if_false]
      subst hprog
      have hko : KeyOK E nt P kids v := ⟨⟨w, hmw⟩, hdl⟩
      obtain ⟨res, hres⟩ := computePrio_total H (s.addSeen nt (Tree.node P kids)) nt P kids v hko hkey (by
        intro i ai si hai hsi
        exact hc si ai (Popped.seen hb.sinv ⟨none, hpop i ai si hai hsi⟩))
      rw [hres]
      simp only
      have hk2 : res.1.keys = s.keys := by
        obtain ⟨c, hc'⟩ := computePrio_step E hres
        rw [hc']; rfl
      rw [hk2, hkey]
      exact ⟨_, rfl⟩
    obtain ⟨s2, hs2⟩ := hone
    have hit1 : Items (ItemOK E s nt) [(P, v)] [(pr, prog)] :=
      ⟨⟨hmr, hpr, w, kids, hmw, hprog, hdl, hpop, hkey⟩, trivial⟩
    obtain ⟨r1, r2, r3, r4, r5, r6, r7, r8, r9, r10⟩ := initPush_spec H nt [(P, v)] [(pr, prog)] s s2 hit1 hb hs2
    have hc2 : CacheC s2 := (CacheC.initPush E hk nt _ hc hs2).1
    have hrest2 : Items (ItemOK E s2 nt) rest items := by
      refine Items.mono ?_ hrest
      intro d it _ ⟨a, b, w', kids', c1, c2, c4, c3, c5⟩
      refine ⟨?_, b, w', kids', c1, c2, c4, fun i ai si h1 h2 => r3 _ _ _ (c3 i ai si h1 h2), by rw [r9]; exact c5⟩
      have hmrule : s2.maxRule = s.maxRule := initPush_maxRule E hk nt _ _ _ hs2
      rw [hmrule]; exact a
    rw [initPush_cons, hs2]
    simp only [Option.bind_some]
    apply initPush_total H nt rest items s2 hrest2 r1 hc2
    · intro it hit' hin
      rw [r5] at hin
      simp only [List.map_cons, List.map_nil, List.mem_append, List.mem_singleton] at hin
      rcases hin with hin | hin
      · exact hnew it (List.mem_cons_of_mem _ hit') hin
      · simp only [List.map_cons, List.nodup_cons] at hnd
        exact hnd.1 (List.mem_map.mpr ⟨it, hit', hin⟩)
    · simp only [List.map_cons, List.nodup_cons] at hnd
      exact hnd.2
where
  initPush_maxRule (E : Env U π) (hk : E.kway = true) (nt : UNT U) :
      ∀ (l : List (Sym × List (UNT U))) (s s' : St U π), initPush E s nt l = some s' → s'.maxRule = s.maxRule := by
    intro l
    induction l with
    | nil => intro s s' hp; simp only [initPush, Option.some.injEq] at hp; subst hp; rfl
    | cons a rest ih =>
      intro s s' hp
      obtain ⟨P, v⟩ := a
      simp only [initPush] at hp
      split at hp
      · simp at hp
      · rename_i prog _
        split at hp
        · simp at hp
        · split at hp
          · simp at hp
          · rename_i s1 pr hcp
            split at hp
            · simp at hp
            · rw [ih _ _ hp]
              have : (pushBoth E s1 nt pr prog).maxRule = s1.maxRule := by
                unfold pushBoth
                split
                · rfl
                · rfl
              rw [this]
              obtain ⟨c, rfl⟩ := computePrio_step E hcp
              rfl

end PS.UHS
