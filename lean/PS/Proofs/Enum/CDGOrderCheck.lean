/- Boolean checks of the hypotheses of the global order theorem: the order invariant of a state without suspended
   frames (`oinvB`), sorted derivation cost lists (`derSortedB`), acyclic grammar with a rank (`acyB`). -/
import PS.Proofs.Enum.CDGOrderRun
namespace PS.CD

def isHeapB {α : Type} (lt : α → α → Bool) (h : List α) : Bool :=
  (List.range h.length).all fun i => i == 0 ||
    match h[i]?, h[(i - 1) / 2]? with
    | some a, some p => !lt a p
    | _, _ => true

theorem isHeapB_sound {α : Type} (lt : α → α → Bool) (h : List α) (hb : isHeapB lt h = true) : Heapq.IsHeap lt h := by
  intro i hi hpos
  unfold isHeapB at hb
  rw [List.all_eq_true] at hb
  have := hb i (List.mem_range.mpr hi)
  have hne : (i == 0) = false := by simp; omega
  rw [hne, Bool.false_or] at this
  have hp : (i - 1) / 2 < h.length := by omega
  rw [List.getElem?_eq_getElem hi, List.getElem?_eq_getElem hp] at this
  simpa using this

def lowB (s : St Rat) (S : NT) (x : Rat) : Bool :=
  match AList.lookup S s.costNt with
  | none => true
  | some cl => cl.all fun c => decide (c ≤ x)

def linkB (E : Env Rat) (s : St Rat) (S : NT) (d : Deriv Rat) : Bool :=
  match E.G.rule? S d.P with
  | none => true
  | some (args, w) =>
    args.isEmpty ||
    match AList.lookup args s.costDer with
    | none => false
    | some cl =>
      match cl[d.comb]? with
      | none => false
      | some c => decide (d.cost = (w : Rat) + c)

/-- the order invariant of a state without suspended frames, as a Boolean -/
def oinvB (E : Env Rat) (s : St Rat) : Bool :=
  (s.queueNt.all fun x => isHeapB (ltD E.A) x.2 && x.2.all fun d => lowB s x.1 d.cost && linkB E s x.1 d) &&
  s.costNt.all fun x => decide (x.2.Pairwise (· ≤ ·))

theorem oinvB_sound (E : Env Rat) (s : St Rat) (h : oinvB E s = true) : OInv E s [] := by
  unfold oinvB at h
  rw [Bool.and_eq_true, List.all_eq_true, List.all_eq_true] at h
  obtain ⟨h1, h2⟩ := h
  refine ⟨?_, ?_, fun x hx => by simp at hx⟩
  · intro S hh hl
    have := h1 (S, hh) (AList.lookup_some_mem hl)
    simp only [Bool.and_eq_true, List.all_eq_true] at this
    obtain ⟨a, c⟩ := this
    refine ⟨isHeapB_sound _ _ a, ?_⟩
    intro d hd
    obtain ⟨c1, c2⟩ := c d hd
    refine ⟨?_, ?_⟩
    · intro cl hcl x hx
      unfold lowB at c1
      rw [hcl] at c1
      simp only [List.all_eq_true, decide_eq_true_eq] at c1
      exact c1 x hx
    · intro args w hr hne
      unfold linkB at c2
      rw [hr] at c2
      simp only [Bool.or_eq_true] at c2
      rcases c2 with c2 | c2
      · exfalso; apply hne; simpa using c2
      · cases hl2 : AList.lookup args s.costDer with
        | none => simp [hl2] at c2
        | some cl =>
          cases hc : cl[d.comb]? with
          | none => simp [hl2, hc] at c2
          | some c => exact ⟨cl, c, rfl, hc, by simpa [hl2, hc] using c2⟩
  · intro S cl hl
    have := h2 (S, cl) (AList.lookup_some_mem hl)
    simpa using this

def derSortedB (s : St Rat) : Bool := s.costDer.all fun x => decide (x.2.Pairwise (· ≤ ·))

theorem derSortedB_sound (s : St Rat) (h : derSortedB s = true) : DSorted s := by
  intro args cl hl
  unfold derSortedB at h
  rw [List.all_eq_true] at h
  simpa using h (args, cl) (AList.lookup_some_mem hl)

def acyB (G : Gram) (rank : NT → Nat) : Bool :=
  G.rules.all fun r => r.2.all fun p => p.2.1.all fun a => decide (rank a < rank r.1)

theorem acyB_sound (E : Env Rat) (rank : NT → Nat) (h : acyB E.G rank = true) : Acy E rank := by
  intro S P args w hr a ha
  unfold Gram.rule? at hr
  cases hl : AList.lookup S E.G.rules with
  | none => simp [hl] at hr
  | some rs =>
    simp only [hl] at hr
    unfold acyB at h
    rw [List.all_eq_true] at h
    have h1 := h (S, rs) (AList.lookup_some_mem hl)
    rw [List.all_eq_true] at h1
    have h2 := h1 (P, (args, w)) (AList.lookup_some_mem hr)
    rw [List.all_eq_true] at h2
    simpa using h2 a ha

end PS.CD
