/- Heap search on unambiguous grammars: a program enters `heaps[S]` at most once, what is popped never
   comes back, the successor table `succ[S]` is injective and only grows.  Any grammar, any priority
   type; with a filter (`deleted ≠ ∅`) under the hypothesis that `__add_successors__(p, S)` does not
   touch `succ[S]` (true on acyclic grammars). -/
import PS.Proofs.Enum.USound
namespace PS.UHS
open PS PS.G
set_option linter.unusedSectionVars false
variable {U π : Type} [DecidableEq U]

/-- programs currently in the heap of `nt` -/
def St.heapProgs (s : St U π) (nt : UNT U) : List Prog := (s.heapOf nt).map (·.2)

/-- `__add_successors__(program, S)` leaves `succ[S]` alone (no re-entrant `query(S, ·)`),
    from a sound state -/
def NoReent (E : Env U π) : Prop :=
  ∀ prog nt s s' x, SInv E s → Big E (.addSucc prog nt) s s' x → s'.succOf nt = s.succOf nt

/-- **no-duplicate invariant** -/
structure NInv (E : Env U π) (s : St U π) : Prop where
  heap_nodup : ∀ nt, (s.heapProgs nt).Nodup
  heap_seen : ∀ nt p, p ∈ s.heapProgs nt → p ∈ s.seenOf nt
  succ_seen : ∀ nt k v, AList.lookup k (s.succOf nt) = some v → v ∈ s.seenOf nt
  /-- what was popped is not in the heap any more -/
  succ_out : ∀ nt k v, AList.lookup k (s.succOf nt) = some v → v ∉ s.heapProgs nt
  /-- a program is the successor of at most one key -/
  succ_inj : ∀ nt k k' v, AList.lookup k (s.succOf nt) = some v → AList.lookup k' (s.succOf nt) = some v → k = k'
  del_ok : s.deleted = [] ∨ NoReent E

/-- the successor table only grows -/
def Stable (s s' : St U π) : Prop :=
  ∀ nt k v, AList.lookup k (s.succOf nt) = some v → AList.lookup k (s'.succOf nt) = some v

theorem Stable.refl (s : St U π) : Stable s s := fun _ _ _ h => h
theorem Stable.trans {s s1 s2 : St U π} (h1 : Stable s s1) (h2 : Stable s1 s2) : Stable s s2 :=
  fun nt k v h => h2 nt k v (h1 nt k v h)

theorem NInv.congr {E : Env U π} {s s' : St U π} (h : NInv E s)
    (h1 : ∀ nt, s'.heapOf nt = s.heapOf nt) (h2 : ∀ nt, s'.seenOf nt = s.seenOf nt)
    (h3 : ∀ nt, s'.succOf nt = s.succOf nt) (h4 : s'.deleted = s.deleted) : NInv E s' := by
  have hp : ∀ nt, s'.heapProgs nt = s.heapProgs nt := fun nt => by unfold St.heapProgs; rw [h1]
  refine ⟨fun nt => hp nt ▸ h.heap_nodup nt, ?_, ?_, ?_, ?_, h4 ▸ h.del_ok⟩
  · intro nt p; rw [hp, h2]; exact h.heap_seen nt p
  · intro nt k v; rw [h3, h2]; exact h.succ_seen nt k v
  · intro nt k v; rw [h3, hp]; exact h.succ_out nt k v
  · intro nt k k' v; rw [h3]; exact h.succ_inj nt k k' v

theorem Stable.of_succOf {s s' : St U π} (h : ∀ nt, s'.succOf nt = s.succOf nt) : Stable s s' := by
  intro nt k v hk; rw [h]; exact hk

theorem NInv.cacheStep {E : Env U π} {s s' : St U π} (h : NInv E s) (hs : CacheStep s s') : NInv E s' := by
  obtain ⟨c, rfl⟩ := hs
  exact h.congr (fun _ => rfl) (fun _ => rfl) (fun _ => rfl) rfl

theorem CacheStep.stable {s s' : St U π} (hs : CacheStep s s') : Stable s s' := by
  obtain ⟨c, rfl⟩ := hs
  exact Stable.refl _

theorem CacheStep.heapOf {s s' : St U π} (h : CacheStep s s') (nt : UNT U) : s'.heapOf nt = s.heapOf nt := by
  obtain ⟨c, rfl⟩ := h; rfl
theorem CacheStep.succOf {s s' : St U π} (h : CacheStep s s') (nt : UNT U) : s'.succOf nt = s.succOf nt := by
  obtain ⟨c, rfl⟩ := h; rfl

/-- `hash_table_program[S].add(program)` of a new program, then the guarded `heappush` -/
theorem NInv.addPush {E : Env U π} (hk : E.kway = true) {s : St U π} (h : NInv E s) (nt : UNT U) (pr : π) (np : Prog)
    (hseen : np ∈ s.seenOf nt) (hnh : np ∉ s.heapProgs nt)
    (hns : ∀ k, AList.lookup k (s.succOf nt) ≠ some np) :
    NInv E (pushBoth E s nt pr np) ∧ Stable s (pushBoth E s nt pr np) := by
  unfold UHS.pushBoth
  split
  · dsimp only
    refine ⟨⟨?_, ?_, h.succ_seen, ?_, h.succ_inj, h.del_ok⟩, Stable.refl _⟩
    · intro nt'
      unfold St.heapProgs
      rw [St.heapOf_setHeap]
      split
      · rename_i heq; subst heq
        have hp := (Heapq.push_perm (ltE E.ops) (s.heapOf nt') (pr, np)).map (·.2)
        exact hp.nodup_iff.mpr (List.nodup_cons.mpr ⟨hnh, h.heap_nodup nt'⟩)
      · exact h.heap_nodup nt'
    · intro nt' p hp
      unfold St.heapProgs at hp
      rw [St.heapOf_setHeap] at hp
      split at hp
      · rename_i heq; subst heq
        have hpm := ((Heapq.push_perm (ltE E.ops) (s.heapOf nt') (pr, np)).map (·.2)).subset hp
        rcases List.mem_cons.mp hpm with rfl | hm
        · exact hseen
        · exact h.heap_seen nt' p hm
      · exact h.heap_seen nt' p hp
    · intro nt' k v hk' hv
      unfold St.heapProgs at hv
      rw [St.heapOf_setHeap] at hv
      split at hv
      · rename_i heq; subst heq
        have hpm := ((Heapq.push_perm (ltE E.ops) (s.heapOf nt') (pr, np)).map (·.2)).subset hv
        rcases List.mem_cons.mp hpm with rfl | hm
        · exact hns k hk'
        · exact h.succ_out nt' k v hk' hm
      · exact h.succ_out nt' k v hk' hv
  · exact ⟨h, Stable.refl _⟩

/-- adding a new program to `hash_table_program[S]` -/
theorem NInv.addSeen {E : Env U π} {s : St U π} (h : NInv E s) (nt : UNT U) (np : Prog) :
    NInv E (s.addSeen nt np) := by
  have hseen : ∀ nt' p, p ∈ s.seenOf nt' → p ∈ (s.addSeen nt np).seenOf nt' :=
    fun nt' p hp => (mem_seenOf_addSeen s nt nt' np p).mpr (Or.inl hp)
  exact ⟨h.heap_nodup, fun nt' p hp => hseen nt' p (h.heap_seen nt' p hp),
    fun nt' k v hk => hseen nt' v (h.succ_seen nt' k v hk), h.succ_out, h.succ_inj, h.del_ok⟩

/-- a program that is not in `hash_table_program[S]` is added and pushed -/
theorem NInv.newPush {E : Env U π} (hk : E.kway = true) {s s2 : St U π} (h : NInv E s) (nt : UNT U) (pr : π)
    (np : Prog) (hnew : np ∉ s.seenOf nt)
    (e1 : ∀ nt', s2.heapOf nt' = s.heapOf nt') (e2 : ∀ nt', s2.seenOf nt' = (s.addSeen nt np).seenOf nt')
    (e3 : ∀ nt', s2.succOf nt' = s.succOf nt') (e4 : s2.deleted = s.deleted) :
    NInv E (pushBoth E s2 nt pr np) ∧ Stable s (pushBoth E s2 nt pr np) := by
  have h2 : NInv E s2 := (h.addSeen nt np).congr e1 e2 e3 e4
  have hst : Stable s s2 := Stable.of_succOf e3
  have c1 : np ∈ s2.seenOf nt := by
    rw [e2]; exact (mem_seenOf_addSeen s nt nt np np).mpr (Or.inr ⟨rfl, rfl⟩)
  have c2 : np ∉ s2.heapProgs nt := by
    intro hm
    unfold St.heapProgs at hm
    rw [e1] at hm
    exact hnew (h.heap_seen nt np hm)
  have c3 : ∀ k, AList.lookup k (s2.succOf nt) ≠ some np := by
    intro k hk'
    rw [e3] at hk'
    exact hnew (h.succ_seen nt k np hk')
  obtain ⟨a, b⟩ := h2.addPush hk nt pr np c1 c2 c3
  exact ⟨a, hst.trans b⟩

theorem NInv.pushStep {E : Env U π} (hk : E.kway = true) {s s' : St U π} (h : NInv E s) (F : Sym) (args : List Prog)
    (nt : UNT U) (v : List (UNT U)) (i : Nat) (r : Option Prog) (hp : pushStep E s F args nt v i r = some s') :
    NInv E s' ∧ Stable s s' := by
  unfold UHS.pushStep at hp
  cases r with
  | none => simp only [Option.some.injEq] at hp; subst hp; exact ⟨h, Stable.refl _⟩
  | some q =>
    simp only at hp
    split at hp
    · simp only [Option.some.injEq] at hp; subst hp; exact ⟨h, Stable.refl _⟩
    · rename_i hc
      split at hp
      · simp at hp
      · rename_i s2' pr hcp
        simp only [Option.some.injEq] at hp
        subst hp
        have hcs := computePrio_step E hcp
        exact h.newPush hk nt pr _ (by intro hm; apply hc; simp [hm]) (fun _ => hcs.heapOf _) (fun _ => hcs.seenOf _)
          (fun _ => hcs.succOf _) (by obtain ⟨c, rfl⟩ := hcs; rfl)

theorem NInv.initPush {E : Env U π} (hk : E.kway = true) (nt : UNT U) : ∀ (l : List (Sym × List (UNT U))) {s s' : St U π},
    NInv E s → initPush E s nt l = some s' → NInv E s' ∧ Stable s s'
  | [], s, s', h, hp => by simp only [UHS.initPush, Option.some.injEq] at hp; subst hp; exact ⟨h, Stable.refl _⟩
  | (P, v) :: rest, s, s', h, hp => by
    simp only [UHS.initPush] at hp
    split at hp
    · simp at hp
    · rename_i prog hm
      split at hp
      · simp at hp
      · rename_i hc
        split at hp
        · simp at hp
        · rename_i s1 pr hcp
          split at hp
          · simp at hp
          · have hcs := computePrio_step E hcp
            obtain ⟨a, b⟩ := h.newPush hk nt pr prog (by intro hm'; apply hc; simp [hm']) (fun _ => hcs.heapOf _)
              (fun _ => hcs.seenOf _) (fun _ => hcs.succOf _) (by obtain ⟨c, rfl⟩ := hcs; rfl)
            obtain ⟨a', b'⟩ := NInv.initPush hk nt rest a hp
            exact ⟨a', b.trans b'⟩

end PS.UHS
