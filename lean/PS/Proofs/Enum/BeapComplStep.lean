/- Completeness of beap search, part 5: the successor of a popped element (the chain step of the frontier),
   transport lemmas. -/
import PS.Proofs.Enum.BeapComplEpi
namespace PS.Beap
open PS PS.G PS.Heapq
set_option linter.unusedSectionVars false
variable {S : Type} [DecidableEq S]

/-- the successor loop pushes the successor at position `i` when the positions before are 0 and the next index
    exists -/
theorem succ_pushed (nt : NT S Unit) (cost : Cost) (P : Sym) (comb : List Nat) (as : List (NT S Unit)) (s : St S) (i : Nat)
    (a : NT S Unit) (hi : as[i]? = some a) (hz : ∀ j, j < i → comb.getD j 0 = 0) (hlen : comb.getD i 0 + 1 < (s.clOf a).length) :
    ∃ el, el ∈ (succLoop nt cost P comb s 0 as).queueOf nt ∧ el.P = P ∧ el.comb = comb.set i (comb.getD i 0 + 1) := by
  have hil : i < as.length := (List.getElem?_eq_some_iff.mp hi).1
  have hmem : comb.set i (comb.getD i 0 + 1) ∈ succCombs comb 0 (as.map fun a => (s.clOf a).length) := by
    refine (mem_succCombs comb _ _ 0).mpr ⟨i, Nat.zero_le _, by simpa using hil, fun j _ hj => hz j hj, rfl, ?_⟩
    simp only [Nat.sub_zero, List.getD_eq_getElem?_getD, List.getElem?_map, hi, Option.map_some, Option.getD_some]
    simpa [List.getD_eq_getElem?_getD] using hlen
  rw [← succEls_comb cost P comb s as 0] at hmem
  obtain ⟨el, hel, hcomb⟩ := List.mem_map.mp hmem
  refine ⟨el, ?_, succEls_P cost P comb s as 0 el hel, hcomb⟩
  exact (succLoop_perm nt cost P comb as s 0).1.mem_iff.mpr (List.mem_append_left _ hel)

theorem mono_le (l : List Cost) (h : l.Pairwise (fun a b => a.fin < b.fin)) (i j : Nat) (a b : Cost) (hi : l[i]? = some a)
    (hj : l[j]? = some b) (hij : i ≤ j) : a.fin ≤ b.fin := by
  obtain ⟨hi1, rfl⟩ := List.getElem?_eq_some_iff.mp hi
  obtain ⟨hj1, rfl⟩ := List.getElem?_eq_some_iff.mp hj
  by_cases heq : i = j
  · subst heq; exact Rat.le_refl
  · have := List.pairwise_iff_getElem.mp h i j hi1 hj1 (by omega); grind

/-- after `query(A, u)` the cost list of `A` has the entry `u + 1` whenever a clean program of `A` is strictly more
    expensive than entry `u`, and this entry is at most the cost of the program -/
theorem next_ok (E : Env S) (s : St S) (hw : WInv E s) (A : NT S Unit) (u : Nat) (e : Cost) (k0 : Prog) (y : Rat)
    (he : (s.clOf A)[u]? = some e) (hcl : clean E.filter k0 = true) (hy : costOf E k0 A = some y) (hlt : e.fin < y)
    (hen : Entered s A u) (hfr : u + 1 = (s.clOf A).length → FR E s A) :
    ∃ e', (s.clOf A)[u + 1]? = some e' ∧ e'.fin ≤ y := by
  have hu : u < (s.clOf A).length := (List.getElem?_eq_some_iff.mp he).1
  by_cases hl : u + 1 < (s.clOf A).length
  · refine ⟨(s.clOf A)[u + 1], List.getElem?_eq_getElem hl, ?_⟩
    have he' : (s.clOf A)[u + 1]? = some (s.clOf A)[u + 1] := List.getElem?_eq_getElem hl
    apply Classical.byContradiction
    intro hcon
    have hylt : y < ((s.clOf A)[u + 1]).fin := by grind
    have hne : s.clOf A ≠ [] := by intro h0; rw [h0] at hu; simp at hu
    obtain ⟨L, hlast⟩ : ∃ L, (s.clOf A).getLast? = some L := by
      cases h0 : (s.clOf A).getLast? with
      | none => exact absurd (List.getLast?_eq_none_iff.mp h0) hne
      | some l => exact ⟨l, rfl⟩
    have hle := le_last_of_pairwise _ (hw.o.mono A) L hlast _ (List.getElem_mem hl)
    obtain ⟨j, ej, g1, g2, _⟩ := hw.cr A k0 y L hcl hy hlast (by grind)
    by_cases hju : j ≤ u
    · have := mono_le _ (hw.o.mono A) j u ej e g1 he hju; grind
    · have := mono_le _ (hw.o.mono A) (u + 1) j _ ej he' g1 (by omega); grind
  · exfalso
    have hl' : u + 1 = (s.clOf A).length := by omega
    have hlast := getLast_of_len _ u e he hl'
    obtain ⟨f1, f2, _⟩ := hfr hl'
    have hlen : (s.clOf A).length - 1 = u := by omega
    cases k0 with
    | node f kids =>
      obtain ⟨rl, hr⟩ := rule_of_cost E A f kids y hy
      rcases f1 f kids y e rl hcl hy hlast (by grind) hr with ⟨g1, _⟩ | ⟨el, g1, _, _⟩
      · grind
      · rw [f2 (by rw [hlen]; exact hen)] at g1; cases g1

theorem cleanList_get (f : Prog → Bool) : ∀ (ks : List Prog) (i : Nat) (k : Prog), cleanList f ks = true → ks[i]? = some k →
    clean f k = true
  | [], _, _, _, h => by simp at h
  | k0 :: ks, 0, k, hc, h => by
    simp only [cleanList, Bool.and_eq_true] at hc
    simp only [List.getElem?_cons_zero, Option.some.injEq] at h
    subst h; exact hc.1
  | k0 :: ks, i + 1, k, hc, h => by
    simp only [cleanList, Bool.and_eq_true] at hc
    simp only [List.getElem?_cons_succ] at h
    exact cleanList_get f ks i k hc.2 h

theorem all2_mem_nil {α : Type} : ∀ (ks : List α) (ls : List (List α)), All2 (· ∈ ·) ks ls → [] ∈ ls → False
  | _, _, All2.nil, h => by cases h
  | _, _, All2.cons m r, h => by
    rcases List.mem_cons.mp h with h' | h'
    · rw [← h'] at m; cases m
    · exact all2_mem_nil _ _ r h'

theorem mem_zip_of_get {α β : Type} : ∀ (as : List α) (bs : List β) (i : Nat) (a : α) (b : β), as[i]? = some a → bs[i]? = some b →
    (a, b) ∈ as.zip bs
  | [], _, _, _, _, h, _ => by simp at h
  | _ :: _, [], _, _, _, _, h => by simp at h
  | a0 :: as, b0 :: bs, 0, a, b, h1, h2 => by
    simp only [List.getElem?_cons_zero, Option.some.injEq] at h1 h2
    subst h1; subst h2; simp
  | a0 :: as, b0 :: bs, i + 1, a, b, h1, h2 => by
    simp only [List.getElem?_cons_succ] at h1 h2
    simp only [List.zip_cons_cons, List.mem_cons]
    exact Or.inr (mem_zip_of_get as bs i a b h1 h2)

/-- a state whose cost lists, banks, `_empties` and `_deleted` are the same -/
theorem EInv.of_tables {E : Env S} {s s' : St S} (h : EInv E s) (hc : ∀ nt, s'.clOf nt = s.clOf nt)
    (hb : ∀ nt, s'.bankOf nt = s.bankOf nt) (he : ∀ nt, s'.emptiesOf nt = s.emptiesOf nt) (hd : s'.deleted = s.deleted) : EInv E s' := by
  have hba : ∀ nt ci, s'.bankAt nt ci = s.bankAt nt ci := fun nt ci => by unfold St.bankAt; rw [hb]
  refine ⟨fun nt ci hh => ?_, fun q hq => h.d1 q (by rw [← hd]; exact hq), fun nt ci hh => ?_, ?_⟩
  · rw [hba]; exact h.e2 nt ci (by rw [← he]; exact hh)
  · rw [hc]; apply h.be nt ci; unfold Entered at hh ⊢; rw [hb, he] at hh; exact hh
  · intro nt c rest p x hcl hx; rw [hc] at hcl; exact h.lb nt c rest p x hcl hx

theorem E4g.of_tables {s s' : St S} (h : E4g s) (hc : ∀ nt, s'.clOf nt = s.clOf nt)
    (hb : ∀ nt, s'.bankOf nt = s.bankOf nt) (he : ∀ nt, s'.emptiesOf nt = s.emptiesOf nt) : E4g s' := by
  intro nt ci hlt hlk
  rw [hc] at hlt; rw [hb] at hlk; rw [he]
  exact h nt ci hlt hlk

/-- a change of the bank and of `_empties` of `nt` at its last cost index only -/
theorem e4g_of_local (s s' : St S) (nt : NT S Unit) (ci : Nat) (h4 : E4g s) (hother : ∀ S', S' ≠ nt → Same4 s s' S')
    (hcl : s'.clOf nt = s.clOf nt)
    (hem : ∀ ci', (s.emptiesOf nt).contains ci' = true → (s'.emptiesOf nt).contains ci' = true)
    (hlk : ∀ ci', ci' ≠ ci → AList.lookup ci' (s'.bankOf nt) = AList.lookup ci' (s.bankOf nt))
    (hci : ci + 1 = (s.clOf nt).length) : E4g s' := by
  intro S' ci' hlt hlook
  by_cases hS : S' = nt
  · subst hS
    rw [hcl] at hlt
    have hne : ci' ≠ ci := by omega
    rw [hlk ci' hne] at hlook
    exact hem ci' (h4 S' ci' hlt hlook)
  · obtain ⟨a1, _, a3, a4⟩ := hother S' hS
    rw [a1] at hlt; rw [a3] at hlook; rw [a4]
    exact h4 S' ci' hlt hlook

theorem keep4_of_other (x : Rat) (s s' : St S) (nt : NT S Unit) (h : ∀ S', S' ≠ nt → Same4 s s' S') (hn : ¬ lastGe s nt x) :
    Keep4 x s s' := by
  intro S' hl
  by_cases hS : S' = nt
  · subst hS; exact absurd hl hn
  · exact h S' hS

end PS.Beap
