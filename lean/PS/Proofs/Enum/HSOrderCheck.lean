/- Decidable sufficient conditions for the hypotheses of the order theorem (used for the
   non-vacuity examples: the state produced by the prologue satisfies the order invariant). -/
import PS.Proofs.Enum.HSOrder
namespace PS.HS
open PS PS.G
set_option linter.unusedSectionVars false
variable {S : Type} [DecidableEq S]

/-- Boolean version of `OInv` on the entries of the tables -/
def oinvB (E : Env S Unit Rat) (s : St S Unit Rat) : Bool :=
  (s.heaps.all fun nh => nh.2.all fun e => (s.succOf nh.1).all fun kv => decide (e.1 ≤ prob E.G E.W kv.2 nh.1)) &&
  (s.succ.all fun nt => nt.2.all fun kv =>
    match kv.1 with
    | some k => decide (prob E.G E.W kv.2 nt.1 ≤ prob E.G E.W k nt.1)
    | none => true) &&
  (s.seen.all fun nl => nl.2.all fun p =>
    match E.G.rule? nl.1 p.label with
    | some (ra, _) => (List.range p.kids.length).all fun i =>
        match p.kids[i]?, ra[i]? with
        | some ai, some a => (s.succOf (argNT a)).any fun kv =>
            decide (AList.lookup kv.1 (s.succOf (argNT a)) = some ai)
        | _, _ => true
    | none => true)

theorem getD_mem {κ ν : Type} [DecidableEq κ] {k : κ} {l : AList κ (List ν)} {x : ν}
    (h : x ∈ (AList.lookup k l).getD []) : ∃ v, (k, v) ∈ l ∧ x ∈ v := by
  cases hl : AList.lookup k l with
  | none => rw [hl] at h; cases h
  | some v => rw [hl] at h; exact ⟨v, AList.lookup_some_mem hl, h⟩

theorem oinv_of_oinvB (E : Env S Unit Rat) (s : St S Unit Rat) (h : oinvB E s = true) : OInv E s.heapOf s := by
  unfold oinvB at h
  simp only [Bool.and_eq_true] at h
  obtain ⟨⟨h1, h2⟩, h3⟩ := h
  refine ⟨?_, ?_, ?_, fun _ _ => rfl⟩
  · intro nt e he k v hk
    obtain ⟨hl, hmem, hel⟩ := getD_mem (k := nt) (l := s.heaps) he
    have a1 := List.all_eq_true.mp h1 (nt, hl) hmem
    have a2 := List.all_eq_true.mp a1 e hel
    have a3 := List.all_eq_true.mp a2 (k, v) (AList.lookup_some_mem hk)
    simpa using a3
  · intro nt k v hk
    have hkv := AList.lookup_some_mem hk
    obtain ⟨tb, hmem, hel⟩ := getD_mem (k := nt) (l := s.succ) hkv
    have a1 := List.all_eq_true.mp h2 (nt, tb) hmem
    have a2 := List.all_eq_true.mp a1 (some k, v) hel
    simpa using a2
  · intro nt F args ra hmem hr i ai a hai ha
    obtain ⟨l, hml, hel⟩ := getD_mem (k := nt) (l := s.seen) hmem
    have a1 := List.all_eq_true.mp h3 (nt, l) hml
    have a2 := List.all_eq_true.mp a1 (Tree.node F args) hel
    simp only [Tree.label, hr, Tree.kids] at a2
    have hil : i < args.length := (List.getElem?_eq_some_iff.mp hai).1
    have a3 := List.all_eq_true.mp a2 i (List.mem_range.mpr hil)
    simp only [hai, ha] at a3
    obtain ⟨kv, hkv, hdec⟩ := List.any_eq_true.mp a3
    exact Or.inl ⟨kv.1, by simpa using hdec⟩

/-- decidable sufficient condition for acyclicity with a given rank -/
theorem acyclic_of_all (G : TT S Unit) (rank : NT S Unit → Nat)
    (h : G.rules.all (fun e => e.2.all fun r => r.2.1.all fun a => decide (rank (argNT a) < rank e.1)) = true) :
    ∀ nt F ra, G.rule? nt F = some (ra, ()) → ∀ a ∈ ra, rank (argNT a) < rank nt := by
  intro nt F ra hr a ha
  unfold TT.rule? at hr
  cases hl : AList.lookup nt G.rules with
  | none => simp [hl] at hr
  | some rs =>
    simp only [hl] at hr
    have a1 := List.all_eq_true.mp h (nt, rs) (AList.lookup_some_mem hl)
    have a2 := List.all_eq_true.mp a1 (F, (ra, ())) (AList.lookup_some_mem hr)
    have a3 := List.all_eq_true.mp a2 a ha
    simpa using a3

/-- decidable sufficient condition for non-negative weights -/
theorem wnonneg_of_all (W : Tags S Unit) (h : W.all (fun e => e.2.all fun r => decide (0 ≤ r.2)) = true) :
    WNonneg W := by
  intro nt P
  unfold weight tagOf
  cases hl : AList.lookup nt W with
  | none => exact Rat.le_refl
  | some d =>
    simp only
    cases hp : AList.lookup P d with
    | none => exact Rat.le_refl
    | some w =>
      have a1 := List.all_eq_true.mp h (nt, d) (AList.lookup_some_mem hl)
      have a2 := List.all_eq_true.mp a1 (P, w) (AList.lookup_some_mem hp)
      simpa using a2

end PS.HS
