/- Heap search on unambiguous grammars: an exhausted non-terminal stays exhausted — once `heaps[S]` is
   empty (and `S` is initialised) no call writes `heaps[S]` or `succ[S]`, except the
   `__add_successors__` of `S` itself that is still running. -/
import PS.Proofs.Enum.UInitS
import PS.Proofs.Enum.UFrame
namespace PS.UHS
open PS PS.G
set_option linter.unusedSectionVars false
variable {U π : Type} [DecidableEq U]

/-- the non-terminal whose heap a call may push on without popping it first -/
def Call.inner : Call U π → Option (UNT U)
  | .addSucc _ nt => some nt
  | .addLoop _ _ nt _ _ => some nt
  | .initRules nt _ _ => some nt
  | .initAlts nt _ _ _ => some nt
  | _ => none

/-- `si` is initialised and exhausted in `s`, and still so in `s'` with the same `succ[si]` -/
def Kept (s s' : St U π) (si : UNT U) : Prop :=
  s.initS.contains si = true → s.heapOf si = [] →
    s'.initS.contains si = true ∧ s'.heapOf si = [] ∧ s'.succOf si = s.succOf si

theorem Kept.refl (s : St U π) (si : UNT U) : Kept s s si := fun a b => ⟨a, b, rfl⟩
theorem Kept.trans {s s1 s2 : St U π} {si : UNT U} (h1 : Kept s s1 si) (h2 : Kept s1 s2 si) : Kept s s2 si := by
  intro a b
  obtain ⟨a1, b1, c1⟩ := h1 a b
  obtain ⟨a2, b2, c2⟩ := h2 a1 b1
  exact ⟨a2, b2, c2.trans c1⟩
theorem Kept.of_same {s s' : St U π} {si : UNT U} (h : Same s s' si) : Kept s s' si :=
  fun a b => ⟨by rw [h.init]; exact a, by rw [h.heap]; exact b, h.succ⟩

theorem big_emptyKeep (E : Env U π) (hk : E.kway = true) {c : Call U π} {s s' : St U π} {r : Res π}
    (hb : Big E c s s' r) : ∀ si, c.inner ≠ some si → Kept s s' si := by
  induction hb with
  | query_direct h hb ih => intro si _; exact ih si (by simp [Call.inner])
  | query_init h h0 hb ih0 ih =>
    intro si _
    exact (ih0 si (by simp [Call.inner])).trans (ih si (by simp [Call.inner]))
  | lop_hit h => intro si _; exact Kept.refl _ _
  | lop_miss h hb ih => intro si _; exact ih si (by simp [Call.inner])
  | pop_empty h => intro si _; exact Kept.refl _ _
  | @pop_deleted s s1 s' nt key e h' x r h hd ha hb iha ihb =>
    intro si _ hc hh
    have hne : si ≠ nt := by
      intro e'; subst e'
      rw [hh] at h; simp [Heapq.pop] at h
    exact (((Kept.of_same (only_setHeap s nt h' si hne)).trans
      (iha si (by simp only [Call.inner]; intro e'; cases e'; exact hne rfl))).trans
      (ihb si (by simp [Call.inner]))) hc hh
  | @pop_take s s' nt key e h' x h hd ha iha =>
    intro si _ hc hh
    have hne : si ≠ nt := by
      intro e'; subst e'
      rw [hh] at h; simp [Heapq.pop] at h
    have ho := ((only_setHeap s nt h').trans (only_setSucc _ nt key e.2)).trans (only_setPred _ nt e.2 key)
    exact ((Kept.of_same (ho si hne)).trans
      (iha si (by simp only [Call.inner]; intro e'; cases e'; exact hne rfl))) hc hh
  | succ_leaf => intro si _; exact Kept.refl _ _
  | succ_fun hk' hb ih => intro si hsi; exact ih si hsi
  | loop_done => intro si _; exact Kept.refl _ _
  | @loop_step s s1 s3 s' F args nt v i ai sj r x hai hsi hq hp hb ihq ihb =>
    intro si hne
    have hne' : si ≠ nt := by intro e'; apply hne; simp [Call.inner, e']
    exact ((ihq si (by simp [Call.inner])).trans (Kept.of_same (only_pushStep E hk hp si hne'))).trans (ihb si hne)
  | init_skip h => intro si _; exact Kept.refl _ _
  | @init_run s s1 s3 s' nt rs b r h hrs hr hp hq ihr ihq =>
    intro si _ hc hh
    have hne : si ≠ nt := by intro e'; subst e'; rw [h] at hc; cases hc
    exact ((((Kept.of_same (only_addInit s nt si hne)).trans
      (ihr si (by simp only [Call.inner]; intro e'; cases e'; exact hne rfl))).trans
      (Kept.of_same (((only_setMaxNT s1 nt b.1).trans (only_initPush E hk nt _ _ _ hp)) si hne))).trans
      (ihq si (by simp [Call.inner]))) hc hh
  | rules_nil => intro si _; exact Kept.refl _ _
  | rules_cons ha hb iha ihb => intro si hne; exact (iha si hne).trans (ihb si hne)
  | alts_nil => intro si _; exact Kept.refl _ _
  | @alts_leaf s s1 s3 nt P v w rest best arguments pr ha hc hv iha =>
    intro si hne
    have hne' : si ≠ nt := by intro e'; apply hne; simp [Call.inner, e']
    have ho := ((only_setKey s1 nt (.node P arguments) v).trans (only_cacheStep (computePrio_step E hc) nt)).trans
      (only_setMaxRule s3 nt P v (.node P arguments))
    exact (iha si (by simp [Call.inner])).trans (Kept.of_same (ho si hne'))
  | @alts_cons s s1 s3 s' nt P v w rest best arguments pr best' ha hc hv hb iha ihb =>
    intro si hne
    have hne' : si ≠ nt := by intro e'; apply hne; simp [Call.inner, e']
    have ho := ((only_setKey s1 nt (.node P arguments) v).trans (only_cacheStep (computePrio_step E hc) nt)).trans
      (only_setMaxRule s3 nt P v (.node P arguments))
    exact ((iha si (by simp [Call.inner])).trans (Kept.of_same (ho si hne'))).trans (ihb si hne)
  | args_nil => intro si _; exact Kept.refl _ _
  | args_cons hi hm hb ihi ihb =>
    intro si _
    exact (ihi si (by simp [Call.inner])).trans (ihb si (by simp [Call.inner]))

end PS.UHS
