/- Global order argument, the generator: along `next` calls the order invariant `OInv` is kept (given the sorted
   derivation cost lists of the FINAL state), so the cost lists `_cost_lists_nt[S]` are non-decreasing; every program is
   yielded from the bank `_bank_nt[start][n]` of the current cost index `n`, which only increases: programs are yielded
   in non-decreasing order of their claimed cost `_cost_lists_nt[start][n]`. -/
import PS.Proofs.Enum.CDGOrderInv
namespace PS.CD

/-! ### where a yielded program is stored -/

theorem resume_yield_at {α : Type} (E : Env α) : ∀ (f : Nat) (s : St α) (fr : Frame α) (s' : St α) (fr' : Frame α) (p : Prog),
    resume E f s fr = some (.yield s' fr' p) → fr'.S = fr.S ∧ fr'.ci = fr.ci ∧ InBankAt s' fr.S fr.ci p := by
  intro f
  induction f with
  | zero => intro s fr s' fr' p h; simp [resume] at h
  | succ f ih =>
    intro s fr s' fr' p h
    rw [resume] at h
    split at h
    · simp only at h
      split at h
      · have h9 := ih _ _ _ _ _ h; exact h9
      · split at h
        · have h9 := ih _ _ _ _ _ h; exact h9
        · split at h
          · simp at h
          · rename_i s1 hb
            simp only [Option.some.injEq, Res.yield.injEq] at h
            obtain ⟨h1, h2, h3⟩ := h
            subst h1; subst h2; subst h3
            obtain ⟨b, l, hb1, hl1, rfl⟩ := appendBank_spec hb
            exact ⟨rfl, rfl, (inBankAt_append hb1 hl1 _ _ _).mpr (Or.inr ⟨rfl, rfl, rfl⟩)⟩
    · have h9 := ih _ _ _ _ _ h; exact h9
    · have h9 := ih _ _ _ _ _ h; exact h9
    · split at h
      · simp at h
      · split at h
        · cases hx : exitQuery s fr with
          | none => simp [hx] at h
          | some s' => simp [hx] at h
        · split at h
          · cases hx : exitQuery s fr with
            | none => simp [hx] at h
            | some s' => simp [hx] at h
          · split at h
            · simp at h
            · split at h
              · split at h
                · simp only at h
                  split at h
                  · have h9 := ih _ _ _ _ _ h; exact h9
                  · split at h
                    · have h9 := ih _ _ _ _ _ h; exact h9
                    · split at h
                      · simp at h
                      · rename_i s2 hb
                        simp only [Option.some.injEq, Res.yield.injEq] at h
                        obtain ⟨h1, h2, h3⟩ := h
                        subst h1; subst h2; subst h3
                        obtain ⟨b, l, hb1, hl1, rfl⟩ := appendBank_spec hb
                        exact ⟨rfl, rfl, (inBankAt_append hb1 hl1 _ _ _).mpr (Or.inr ⟨rfl, rfl, rfl⟩)⟩
                · split at h
                  · simp at h
                  · split at h
                    · simp only at h
                      split at h
                      · have h9 := ih _ _ _ _ _ h; exact h9
                      · have h9 := ih _ _ _ _ _ h; exact h9
                    · simp at h
              · simp at h

/-- the growth of the tables through the `while not failed` loop, and where a yielded program is stored -/
theorem nextLoop_tables {α : Type} (E : Env α) (fuel : Nat) : ∀ (k : Nat) (s : St α) (n : Nat) (fr? : Option (Frame α)) (failed : Bool)
    (g' : Gen α) (out : Option Prog), nextLoop E fuel k s n fr? failed = some (g', out) →
    (∀ fr, fr? = some fr → fr.S = E.G.start ∧ fr.ci = n) →
    CMono s g'.st ∧ BMono s g'.st ∧
    (∀ p, out = some p → ∃ n' fr', g'.phase = .inQuery n' fr' ∧ fr'.S = E.G.start ∧ fr'.ci = n' ∧ n ≤ n' ∧
      InBankAt g'.st E.G.start n' p) ∧
    (out = none → g'.phase = .stopped) := by
  intro k
  induction k with
  | zero => intro s n fr? failed g' out h; simp [nextLoop] at h
  | succ k ih =>
    intro s n fr? failed g' out h hF
    rw [nextLoop.eq_def] at h
    simp only at h
    split at h
    · simp at h
    · rename_i s0 hstart
      have hs0 : s0 = { s with failedByEmpties := false } := by
        split at hstart
        · simp at hstart
        · split at hstart
          · simp at hstart
          · split at hstart
            · simp only [Option.some.injEq, Prod.mk.injEq] at hstart
              exact hstart.1.symm
            · simp at hstart
      subst hs0
      split at h
      · simp only [Option.some.injEq, Prod.mk.injEq] at h
        obtain ⟨h1, h2⟩ := h
        subst h1; subst h2
        exact ⟨CMono.of_eq rfl, BMono.of_eq rfl, fun p hp => by simp at hp, fun _ => rfl⟩
      · obtain ⟨a, b, c, d⟩ := ih _ _ _ _ _ _ h (fun fr he => by simp at he)
        refine ⟨(CMono.of_eq (s := s) rfl).trans a, (BMono.of_eq (s := s) rfl).trans b, ?_, d⟩
        intro p hp
        obtain ⟨n', fr', c1, c2, c3, c4, c5⟩ := c p hp
        exact ⟨n', fr', c1, c2, c3, by omega, c5⟩
    · rename_i s0 fr hstart
      have key : CMono s s0 ∧ BMono s s0 ∧ fr.S = E.G.start ∧ fr.ci = n := by
        split at hstart
        · rename_i fr0
          simp only [Option.some.injEq, Prod.mk.injEq] at hstart
          obtain ⟨h1, h2⟩ := hstart
          subst h1; subst h2
          obtain ⟨f1, f2⟩ := hF fr0 rfl
          exact ⟨CMono.refl _, BMono.refl _, f1, f2⟩
        · split at hstart
          · simp at hstart
          · split at hstart
            · simp at hstart
            · simp only [Option.some.injEq, Prod.mk.injEq] at hstart
              obtain ⟨h1, h2⟩ := hstart
              subst h1; subst h2
              exact ⟨CMono.of_eq rfl, BMono.of_eq rfl, rfl, rfl⟩
      obtain ⟨c0, m0, hS0, hci0⟩ := key
      split at h
      · simp at h
      · rename_i s1 fr1 p hr
        simp only [Option.some.injEq, Prod.mk.injEq] at h
        obtain ⟨h1, h2⟩ := h
        subst h1; subst h2
        obtain ⟨y1, y2, y3⟩ := resume_yield_at E fuel _ _ _ _ _ hr
        refine ⟨c0.trans ((cok_all E fuel).resume _ _ _ hr), m0.trans ((mok_all E fuel).resume _ _ _ hr), ?_, fun hn => by simp at hn⟩
        intro p' hp'
        simp only [Option.some.injEq] at hp'
        subst hp'
        rw [hS0, hci0] at y3
        exact ⟨n, fr1, rfl, y1.trans hS0, y2.trans hci0, Nat.le_refl _, y3⟩
      · rename_i s1 hr
        have c1 : CMono s s1 := c0.trans ((cok_all E fuel).resume _ _ _ hr)
        have m1 : BMono s s1 := m0.trans ((mok_all E fuel).resume _ _ _ hr)
        split at h
        · simp only [Option.some.injEq, Prod.mk.injEq] at h
          obtain ⟨h1, h2⟩ := h
          subst h1; subst h2
          exact ⟨c1, m1, fun p hp => by simp at hp, fun _ => rfl⟩
        · obtain ⟨a, b, c, d⟩ := ih _ _ _ _ _ _ h (fun fr he => by simp at he)
          refine ⟨c1.trans a, m1.trans b, ?_, d⟩
          intro p hp
          obtain ⟨n', fr', e1, e2, e3, e4, e5⟩ := c p hp
          exact ⟨n', fr', e1, e2, e3, by omega, e5⟩

/-- the order invariant through the loop -/
theorem nextLoop_oinv (E : Env Rat) (b : Bool) (hA : E.A = ratA b) (rank : NT → Nat) (hAcy : Acy E rank) (fuel : Nat) :
    ∀ (k : Nat) (s : St Rat) (n : Nat) (fr? : Option (Frame Rat)) (failed : Bool) (g' : Gen Rat) (out : Option Prog),
    nextLoop E fuel k s n fr? failed = some (g', out) → (∀ fr, fr? = some fr → fr.S = E.G.start ∧ fr.ci = n) →
    OInv E s [] → DSorted g'.st → OInv E g'.st [] := by
  intro k
  induction k with
  | zero => intro s n fr? failed g' out h; simp [nextLoop] at h
  | succ k ih =>
    intro s n fr? failed g' out h hF hO hD
    have hall := h
    rw [nextLoop.eq_def] at h
    simp only at h
    split at h
    · simp at h
    · rename_i s0 hstart
      have hs0 : s0 = { s with failedByEmpties := false } := by
        split at hstart
        · simp at hstart
        · split at hstart
          · simp at hstart
          · split at hstart
            · simp only [Option.some.injEq, Prod.mk.injEq] at hstart
              exact hstart.1.symm
            · simp at hstart
      subst hs0
      have hO0 : OInv E { s with failedByEmpties := false } [] := oinv_of_eq (s := s) rfl rfl rfl hO
      split at h
      · simp only [Option.some.injEq, Prod.mk.injEq] at h
        rw [← h.1]; exact hO0
      · exact ih _ _ _ _ _ _ h (fun fr he => by simp at he) hO0 hD
    · rename_i s0 fr hstart
      have key : OInv E s0 [] := by
        split at hstart
        · simp only [Option.some.injEq, Prod.mk.injEq] at hstart
          rw [← hstart.1]; exact hO
        · split at hstart
          · simp at hstart
          · split at hstart
            · simp at hstart
            · simp only [Option.some.injEq, Prod.mk.injEq] at hstart
              rw [← hstart.1]; exact oinv_of_eq (s := s) rfl rfl rfl hO
      split at h
      · simp at h
      · rename_i s1 fr1 p hr
        simp only [Option.some.injEq, Prod.mk.injEq] at h
        rw [← h.1] at hD ⊢
        exact (ook_all E b hA rank hAcy fuel).resume _ _ _ _ hr key (fun x hx => by simp at hx) hD
      · rename_i s1 hr
        split at h
        · simp only [Option.some.injEq, Prod.mk.injEq] at h
          rw [← h.1] at hD ⊢
          exact (ook_all E b hA rank hAcy fuel).resume _ _ _ _ hr key (fun x hx => by simp at hx) hD
        · have m := (nextLoop_tables E fuel _ _ _ _ _ _ _ h (fun fr he => by simp at he)).1
          have hO1 : OInv E s1 [] :=
            (ook_all E b hA rank hAcy fuel).resume _ _ _ _ hr key (fun x hx => by simp at hx) (DSorted.of_cmono m hD)
          exact ih _ _ _ _ _ _ h (fun fr he => by simp at he) hO1 hD

/-! ### `next` and `take` -/

/-- the suspended top-level query belongs to the start symbol and to the current cost index -/
def YG {α : Type} (E : Env α) (g : Gen α) : Prop := ∀ n fr, g.phase = .inQuery n fr → fr.S = E.G.start ∧ fr.ci = n

/-- the current cost index `n` of `generator()` -/
def pidx {α : Type} (g : Gen α) : Nat :=
  match g.phase with
  | .outer n => n
  | .inQuery n _ => n
  | _ => 0

/-- the order invariant of the generator object: before the prologue, the hypothesis on the state it will produce -/
def GO (E : Env Rat) (fuel : Nat) (g : Gen Rat) : Prop :=
  (g.phase = .fresh → ∀ s, prologue E fuel g.st = some s → OInv E s []) ∧ (g.phase ≠ .fresh → OInv E g.st [])

theorem next_tables {α : Type} (E : Env α) (fuel : Nat) (g g' : Gen α) (out : Option Prog) (h : next E fuel g = some (g', out))
    (hY : YG E g) :
    YG E g' ∧ g'.phase ≠ .fresh ∧ BMono g.st g'.st ∧ (g.phase ≠ .fresh → CMono g.st g'.st) ∧
    (∀ p, out = some p → pidx g ≤ pidx g' ∧ InBankAt g'.st E.G.start (pidx g') p) := by
  unfold next at h
  split at h
  · rename_i hph
    simp only [Option.some.injEq, Prod.mk.injEq] at h
    obtain ⟨h1, h2⟩ := h
    subst h1; subst h2
    exact ⟨hY, by rw [hph]; simp, BMono.refl _, fun _ => CMono.refl _, fun p hp => by simp at hp⟩
  · rename_i hph
    split at h
    · simp at h
    · rename_i s hp
      obtain ⟨a, b, c, d⟩ := nextLoop_tables E fuel _ _ _ _ _ _ _ h (fun fr he => by simp at he)
      have hne := nextLoop_not_fresh E fuel _ _ _ _ _ _ _ h
      refine ⟨?_, hne, (BMono.of_eq (prologue_bk E fuel _ _ hp).1).trans b, fun hc => absurd hph hc, ?_⟩
      · cases out with
        | none => intro n fr he; rw [d rfl] at he; simp at he
        | some p =>
          obtain ⟨n', fr', c1, c2, c3, _, _⟩ := c p rfl
          intro n fr he
          rw [c1] at he
          simp only [Phase.inQuery.injEq] at he
          obtain ⟨e1, e2⟩ := he
          subst e1; subst e2
          exact ⟨c2, c3⟩
      · intro p hp'
        obtain ⟨n', fr', c1, c2, c3, c4, c5⟩ := c p hp'
        have : pidx g' = n' := by unfold pidx; rw [c1]
        rw [this]
        exact ⟨by unfold pidx; rw [hph]; exact Nat.zero_le _, c5⟩
  · rename_i n hph
    obtain ⟨a, b, c, d⟩ := nextLoop_tables E fuel _ _ _ _ _ _ _ h (fun fr he => by simp at he)
    have hne := nextLoop_not_fresh E fuel _ _ _ _ _ _ _ h
    refine ⟨?_, hne, b, fun _ => a, ?_⟩
    · cases out with
      | none => intro n fr he; rw [d rfl] at he; simp at he
      | some p =>
        obtain ⟨n', fr', c1, c2, c3, _, _⟩ := c p rfl
        intro n fr he
        rw [c1] at he
        simp only [Phase.inQuery.injEq] at he
        obtain ⟨e1, e2⟩ := he
        subst e1; subst e2
        exact ⟨c2, c3⟩
    · intro p hp'
      obtain ⟨n', fr', c1, c2, c3, c4, c5⟩ := c p hp'
      have : pidx g' = n' := by unfold pidx; rw [c1]
      rw [this]
      exact ⟨by unfold pidx; rw [hph]; exact c4, c5⟩
  · rename_i n fr hph
    obtain ⟨a, b, c, d⟩ := nextLoop_tables E fuel _ _ _ _ _ _ _ h
      (fun fr' he => by simp only [Option.some.injEq] at he; subst he; exact hY n fr hph)
    have hne := nextLoop_not_fresh E fuel _ _ _ _ _ _ _ h
    refine ⟨?_, hne, b, fun _ => a, ?_⟩
    · cases out with
      | none => intro n fr he; rw [d rfl] at he; simp at he
      | some p =>
        obtain ⟨n', fr', c1, c2, c3, _, _⟩ := c p rfl
        intro n fr he
        rw [c1] at he
        simp only [Phase.inQuery.injEq] at he
        obtain ⟨e1, e2⟩ := he
        subst e1; subst e2
        exact ⟨c2, c3⟩
    · intro p hp'
      obtain ⟨n', fr', c1, c2, c3, c4, c5⟩ := c p hp'
      have : pidx g' = n' := by unfold pidx; rw [c1]
      rw [this]
      exact ⟨by unfold pidx; rw [hph]; exact c4, c5⟩

theorem next_go (E : Env Rat) (b : Bool) (hA : E.A = ratA b) (rank : NT → Nat) (hAcy : Acy E rank) (fuel : Nat)
    (g g' : Gen Rat) (out : Option Prog) (h : next E fuel g = some (g', out)) (hY : YG E g) (hg : GO E fuel g)
    (hD : DSorted g'.st) : GO E fuel g' := by
  have hne := (next_tables E fuel g g' out h hY).2.1
  refine ⟨fun he => absurd he hne, fun _ => ?_⟩
  unfold next at h
  split at h
  · rename_i hph
    simp only [Option.some.injEq, Prod.mk.injEq] at h
    rw [← h.1]; exact hg.2 (by rw [hph]; simp)
  · rename_i hph
    split at h
    · simp at h
    · rename_i s hp
      exact nextLoop_oinv E b hA rank hAcy fuel _ _ _ _ _ _ _ h (fun fr he => by simp at he) (hg.1 hph s hp) hD
  · rename_i n hph
    exact nextLoop_oinv E b hA rank hAcy fuel _ _ _ _ _ _ _ h (fun fr he => by simp at he) (hg.2 (by rw [hph]; simp)) hD
  · rename_i n fr hph
    exact nextLoop_oinv E b hA rank hAcy fuel _ _ _ _ _ _ _ h
      (fun fr' he => by simp only [Option.some.injEq] at he; subst he; exact hY n fr hph) (hg.2 (by rw [hph]; simp)) hD

/-- the yields so far are stored under cost indices `≤` the current one, in yield order -/
def YAcc {α : Type} (E : Env α) (g : Gen α) (acc : List Prog) : Prop :=
  (∀ p ∈ acc, ∃ ci, ci ≤ pidx g ∧ InBankAt g.st E.G.start ci p) ∧
  acc.Pairwise (fun p q => ∃ ci cj, ci ≤ cj ∧ InBankAt g.st E.G.start ci p ∧ InBankAt g.st E.G.start cj q)

theorem take_tables {α : Type} (E : Env α) (fuel : Nat) : ∀ (k : Nat) (g : Gen α) (acc : List Prog) (g' : Gen α) (ys : List Prog)
    (fin : Bool), take E fuel k g acc = some (g', ys, fin) → YG E g → YAcc E g acc →
    YG E g' ∧ (g.phase ≠ .fresh → CMono g.st g'.st) ∧
    ys.Pairwise (fun p q => ∃ ci cj, ci ≤ cj ∧ InBankAt g'.st E.G.start ci p ∧ InBankAt g'.st E.G.start cj q) := by
  intro k
  induction k with
  | zero =>
    intro g acc g' ys fin h hY hA
    simp only [take, Option.some.injEq, Prod.mk.injEq] at h
    obtain ⟨h1, h2, _⟩ := h
    subst h1; subst h2
    exact ⟨hY, fun _ => CMono.refl _, hA.2⟩
  | succ k ih =>
    intro g acc g' ys fin h hY hA
    rw [take] at h
    split at h
    · simp at h
    · rename_i g1 hn
      simp only [Option.some.injEq, Prod.mk.injEq] at h
      obtain ⟨h1, h2, _⟩ := h
      subst h1; subst h2
      obtain ⟨a, _, c, d, _⟩ := next_tables E fuel g g1 none hn hY
      refine ⟨a, d, hA.2.imp ?_⟩
      rintro p q ⟨ci, cj, h1, h2, h3⟩
      exact ⟨ci, cj, h1, c _ _ _ h2, c _ _ _ h3⟩
    · rename_i g1 p1 hn
      obtain ⟨a, a2, c, d, e⟩ := next_tables E fuel g g1 (some p1) hn hY
      obtain ⟨e1, e2⟩ := e p1 rfl
      have hA1 : YAcc E g1 (acc ++ [p1]) := by
        refine ⟨?_, ?_⟩
        · intro p hp
          rcases List.mem_append.mp hp with h3 | h3
          · obtain ⟨ci, h4, h5⟩ := hA.1 p h3
            exact ⟨ci, Nat.le_trans h4 e1, c _ _ _ h5⟩
          · simp only [List.mem_singleton] at h3; subst h3
            exact ⟨pidx g1, Nat.le_refl _, e2⟩
        · rw [List.pairwise_append]
          refine ⟨hA.2.imp ?_, by simp, ?_⟩
          · rintro p q ⟨ci, cj, h1, h2, h3⟩
            exact ⟨ci, cj, h1, c _ _ _ h2, c _ _ _ h3⟩
          · intro p hp q hq
            simp only [List.mem_singleton] at hq; subst hq
            obtain ⟨ci, h4, h5⟩ := hA.1 p hp
            exact ⟨ci, pidx g1, Nat.le_trans h4 e1, c _ _ _ h5, e2⟩
      obtain ⟨f1, f2, f3⟩ := ih _ _ _ _ _ h a hA1
      exact ⟨f1, fun hne => (d hne).trans (f2 a2), f3⟩

theorem next_phase_not_fresh {α : Type} (E : Env α) (fuel : Nat) (g g' : Gen α) (out : Option Prog)
    (h : next E fuel g = some (g', out)) (hY : YG E g) : g'.phase ≠ .fresh := (next_tables E fuel g g' out h hY).2.1

theorem take_go (E : Env Rat) (b : Bool) (hA : E.A = ratA b) (rank : NT → Nat) (hAcy : Acy E rank) (fuel : Nat) :
    ∀ (k : Nat) (g : Gen Rat) (acc : List Prog) (g' : Gen Rat) (ys : List Prog) (fin : Bool),
    take E fuel k g acc = some (g', ys, fin) → YG E g → YAcc E g acc → GO E fuel g → DSorted g'.st → GO E fuel g' := by
  intro k
  induction k with
  | zero =>
    intro g acc g' ys fin h hY hAc hg hD
    simp only [take, Option.some.injEq, Prod.mk.injEq] at h
    rw [← h.1]; exact hg
  | succ k ih =>
    intro g acc g' ys fin h hY hAc hg hD
    rw [take] at h
    split at h
    · simp at h
    · rename_i g1 hn
      simp only [Option.some.injEq, Prod.mk.injEq] at h
      rw [← h.1] at hD ⊢
      exact next_go E b hA rank hAcy fuel g g1 none hn hY hg hD
    · rename_i g1 p1 hn
      obtain ⟨a, a2, c, d, e⟩ := next_tables E fuel g g1 (some p1) hn hY
      obtain ⟨e1, e2⟩ := e p1 rfl
      have hA1 : YAcc E g1 (acc ++ [p1]) := by
        refine ⟨?_, ?_⟩
        · intro p hp
          rcases List.mem_append.mp hp with h3 | h3
          · obtain ⟨ci, h4, h5⟩ := hAc.1 p h3
            exact ⟨ci, Nat.le_trans h4 e1, c _ _ _ h5⟩
          · simp only [List.mem_singleton] at h3; subst h3
            exact ⟨pidx g1, Nat.le_refl _, e2⟩
        · rw [List.pairwise_append]
          refine ⟨hAc.2.imp ?_, by simp, ?_⟩
          · rintro p q ⟨ci, cj, h1, h2, h3⟩
            exact ⟨ci, cj, h1, c _ _ _ h2, c _ _ _ h3⟩
          · intro p hp q hq
            simp only [List.mem_singleton] at hq; subst hq
            obtain ⟨ci, h4, h5⟩ := hAc.1 p hp
            exact ⟨ci, pidx g1, Nat.le_trans h4 e1, c _ _ _ h5, e2⟩
      have m : CMono g1.st g'.st := (take_tables E fuel k g1 _ g' ys fin h a hA1).2.1 a2
      have hg1 := next_go E b hA rank hAcy fuel g g1 (some p1) hn hY hg (DSorted.of_cmono m hD)
      exact ih _ _ _ _ _ h a hA1 hg1 hD

end PS.CD
