/- Cost soundness of the query phase of beap search: every queue element carries the cost
   `rule cost + Σ cost_list[arg_i][combination_i]`, every program of `_bank[S][i]` has cost
   `_cost_lists[S][i]`, every program yielded by `query(S, i)` has cost `_cost_lists[S][i]`; cost lists
   are only extended at their end (`Ext`). -/
import PS.Proofs.Enum.BeapHeadMin
import PS.Proofs.Enum.HeapRoot
namespace PS.Beap
open PS PS.G PS.Heapq
set_option linter.unusedSectionVars false
variable {S : Type} [DecidableEq S]

/-- `Σ_i _cost_lists[arg_i][comb_i]` (`none`: lengths differ or an index outside its cost list) -/
def combCost (s : St S) : List (Ty × S) → List Nat → Option Rat
  | [], [] => some 0
  | a :: as, c :: cs =>
    match (s.clOf (ntOf a))[c]?, combCost s as cs with
    | some x, some y => some (x.fin + y)
    | _, _ => none
  | _, _ => none

/-- cost lists are only extended at their end -/
def Ext (s s' : St S) : Prop := ∀ nt, s.clOf nt <+: s'.clOf nt

theorem Ext.refl (s : St S) : Ext s s := fun _ => List.prefix_refl _
theorem Ext.trans {a b c : St S} (h1 : Ext a b) (h2 : Ext b c) : Ext a c := fun nt => (h1 nt).trans (h2 nt)
theorem Ext.of_eq {s s' : St S} (h : ∀ nt, s'.clOf nt = s.clOf nt) : Ext s s' := fun nt => by rw [h nt]; exact List.prefix_refl _

theorem prefix_get {α : Type} {l l' : List α} (h : l <+: l') (i : Nat) (x : α) (hx : l[i]? = some x) : l'[i]? = some x := by
  obtain ⟨t, rfl⟩ := h
  have hi : i < l.length := (List.getElem?_eq_some_iff.mp hx).1
  rw [List.getElem?_append_left hi]; exact hx

theorem getElem?_getD' {α : Type} (l : List α) (i : Nat) (d : α) (h : i < l.length) : l[i]? = some (l.getD i d) := by
  rw [List.getD_eq_getElem?_getD, List.getElem?_eq_getElem h]; rfl

theorem Ext.get {s s' : St S} (h : Ext s s') (nt : NT S Unit) (i : Nat) (x : Cost) (hx : (s.clOf nt)[i]? = some x) :
    (s'.clOf nt)[i]? = some x := prefix_get (h nt) i x hx

theorem combCost_ext {s s' : St S} (h : Ext s s') : ∀ (args : List (Ty × S)) (comb : List Nat) (k : Rat),
    combCost s args comb = some k → combCost s' args comb = some k
  | [], [], k, hk => hk
  | [], _ :: _, _, hk => by simp [combCost] at hk
  | _ :: _, [], _, hk => by simp [combCost] at hk
  | a :: as, c :: cs, k, hk => by
    simp only [combCost] at hk ⊢
    split at hk
    · next x y hx hy =>
      rw [h.get _ _ _ hx, combCost_ext h as cs y hy]; exact hk
    · cases hk

theorem combCost_of_cl {s s' : St S} (h : ∀ nt, s'.clOf nt = s.clOf nt) : ∀ (args : List (Ty × S)) (comb : List Nat),
    combCost s' args comb = combCost s args comb
  | [], [] => rfl
  | [], _ :: _ => rfl
  | _ :: _, [] => rfl
  | a :: as, c :: cs => by simp only [combCost, h, combCost_of_cl h as cs]

theorem combCost_setQueue (s : St S) (nt : NT S Unit) (q : List HeapEl) (args : List (Ty × S)) (comb : List Nat) :
    combCost (s.setQueue nt q) args comb = combCost s args comb :=
  combCost_of_cl (s := s) (s' := s.setQueue nt q) (fun _ => rfl) args comb
theorem combCost_setBank (s : St S) (nt : NT S Unit) (ci : Nat) (ps : List Prog) (args : List (Ty × S)) (comb : List Nat) :
    combCost (s.setBank nt ci ps) args comb = combCost s args comb :=
  combCost_of_cl (s := s) (s' := s.setBank nt ci ps) (fun _ => rfl) args comb

theorem combCost_length (s : St S) : ∀ (args : List (Ty × S)) (comb : List Nat) (k : Rat),
    combCost s args comb = some k → comb.length = args.length
  | [], [], _, _ => rfl
  | [], _ :: _, _, hk => by simp [combCost] at hk
  | _ :: _, [], _, hk => by simp [combCost] at hk
  | a :: as, c :: cs, k, hk => by
    simp only [combCost] at hk
    split at hk
    · next x y hx hy => simp [combCost_length s as cs y hy]
    · cases hk

/-- the entry read at position `i` of a priced combination, and the effect of moving position `i` on -/
theorem combCost_set (s : St S) : ∀ (args : List (Ty × S)) (comb : List Nat) (k : Rat) (i : Nat),
    combCost s args comb = some k → i < args.length →
    ∃ a x, args[i]? = some a ∧ (s.clOf (ntOf a))[comb.getD i 0]? = some x ∧
      ∀ y, (s.clOf (ntOf a))[comb.getD i 0 + 1]? = some y →
        combCost s args (comb.set i (comb.getD i 0 + 1)) = some (k - x.fin + y.fin)
  | [], _, _, _, _, hi => by simp at hi
  | _ :: _, [], _, _, hk, _ => by simp [combCost] at hk
  | a :: as, c :: cs, k, i, hk, hi => by
    simp only [combCost] at hk
    split at hk
    · next x0 y0 hx0 hy0 =>
      cases hk
      cases i with
      | zero =>
        refine ⟨a, x0, rfl, hx0, fun y hy => ?_⟩
        have hy' : (s.clOf (ntOf a))[c + 1]? = some y := hy
        show combCost s (a :: as) ((c + 1) :: cs) = _
        simp only [combCost, hy', hy0]
        congr 1; grind
      | succ i =>
        obtain ⟨a', x, h1, h2, h3⟩ := combCost_set s as cs y0 i hy0 (by simpa using hi)
        refine ⟨a', x, h1, h2, fun y hy => ?_⟩
        have := h3 y hy
        show combCost s (a :: as) (c :: cs.set i (cs.getD i 0 + 1)) = _
        simp only [combCost, hx0, this]
        congr 1; grind
    · cases hk

structure CInv (E : Env S) (s : St S) : Prop where
  fin : ∀ nt c, c ∈ s.clOf nt → c.inf = 0
  queue : ∀ nt el, el ∈ s.queueOf nt → ∃ rl w k, E.G.rule? nt el.P = some rl ∧ ruleW E nt el.P = some w ∧
    combCost s rl.1 el.comb = some k ∧ el.cost = Cost.ofRat (w + k)
  bank : ∀ nt ci p, p ∈ s.bankAt nt ci → ∃ c, (s.clOf nt)[ci]? = some c ∧ costOf E p nt = some c.fin

/-- the suspended `query(nt, fr.ci)` produces programs of cost `_cost_lists[nt][fr.ci]` -/
def FrC (E : Env S) (s : St S) (nt : NT S Unit) (fr : Frame) : Prop :=
  (s.clOf nt)[fr.ci]? = some fr.cost ∧ ∀ a ∈ fr.pending, costOf E (mkProg fr.P fr.isFun a) nt = some fr.cost.fin

theorem FrC.ext {E : Env S} {s s' : St S} {nt : NT S Unit} {fr : Frame} (h : FrC E s nt fr) (he : Ext s s') : FrC E s' nt fr :=
  ⟨he.get _ _ _ h.1, h.2⟩

theorem CInv.of_eq {E : Env S} {s s' : St S} (hc : ∀ nt, s'.clOf nt = s.clOf nt) (hq : ∀ nt, s'.queueOf nt = s.queueOf nt)
    (hb : ∀ nt ci, s'.bankAt nt ci = s.bankAt nt ci) (h : CInv E s) : CInv E s' := by
  refine ⟨fun nt c hm => h.fin nt c (hc nt ▸ hm), fun nt el hm => ?_, fun nt ci p hp => ?_⟩
  · obtain ⟨rl, w, k, h1, h2, h3, h4⟩ := h.queue nt el (hq nt ▸ hm)
    exact ⟨rl, w, k, h1, h2, combCost_ext (Ext.of_eq hc) _ _ _ h3, h4⟩
  · obtain ⟨c, h1, h2⟩ := h.bank nt ci p (hb nt ci ▸ hp)
    exact ⟨c, by rw [hc nt]; exact h1, h2⟩

theorem emit_cost (E : Env S) (nt : NT S Unit) (ci : Nat) (P : Sym) (isFun : Bool) (cost : Cost) :
    ∀ (pend : List (List Prog)) (s : St S), CInv E s → (s.clOf nt)[ci]? = some cost →
      (∀ a ∈ pend, costOf E (mkProg P isFun a) nt = some cost.fin) →
      CInv E (emit E nt ci P isFun s pend).1 ∧ (∀ nt', (emit E nt ci P isFun s pend).1.clOf nt' = s.clOf nt') ∧
      ∀ p rest, (emit E nt ci P isFun s pend).2 = some (p, rest) →
        costOf E p nt = some cost.fin ∧ (∀ a ∈ rest, a ∈ pend) := by
  intro pend
  induction pend with
  | nil => intro s hs _ _; simp [emit, hs]
  | cons a rest ih =>
    intro s hs hcl hp
    have hrest : ∀ a' ∈ rest, costOf E (mkProg P isFun a') nt = some cost.fin := fun a' h' => hp a' (List.mem_cons_of_mem _ h')
    unfold emit
    simp only
    split
    · obtain ⟨h1, h2, h3⟩ := ih s hs hcl hrest
      exact ⟨h1, h2, fun p r hpr => ⟨(h3 p r hpr).1, fun a' h' => List.mem_cons_of_mem _ ((h3 p r hpr).2 a' h')⟩⟩
    · split
      · have hs' : CInv E (s.addDeleted (mkProg P isFun a)) :=
          hs.of_eq (fun nt' => St.addDeleted_clOf s nt' _) (fun nt' => St.addDeleted_queueOf s nt' _) (fun nt' ci' => St.addDeleted_bankAt s nt' _ ci')
        obtain ⟨h1, h2, h3⟩ := ih _ hs' (by rw [St.addDeleted_clOf]; exact hcl) hrest
        exact ⟨h1, fun nt' => by rw [h2 nt', St.addDeleted_clOf],
          fun p r hpr => ⟨(h3 p r hpr).1, fun a' h' => List.mem_cons_of_mem _ ((h3 p r hpr).2 a' h')⟩⟩
      · have hc := hp a (List.mem_cons_self ..)
        dsimp only
        refine ⟨⟨fun nt' c hm => hs.fin nt' c hm, fun nt' el hm => ?_, fun nt' ci' p hp' => ?_⟩, fun _ => rfl, ?_⟩
        · obtain ⟨rl, w, k, h1, h2, h3, h4⟩ := hs.queue nt' el hm
          exact ⟨rl, w, k, h1, h2, (by first | rw [combCost_setQueue]; exact h3 | rw [combCost_setBank]; exact h3), h4⟩
        · rw [St.bankAt_setBank] at hp'
          split at hp'
          · next heq =>
            obtain ⟨rfl, rfl⟩ := heq
            rcases List.mem_append.mp hp' with h | h
            · exact hs.bank _ _ p h
            · simp only [List.mem_singleton] at h; subst h; exact ⟨cost, hcl, hc⟩
          · exact hs.bank nt' ci' p hp'
        · intro p r hpr
          simp only [Option.some.injEq, Prod.mk.injEq] at hpr
          obtain ⟨rfl, rfl⟩ := hpr
          exact ⟨hc, fun a' h' => List.mem_cons_of_mem _ h'⟩

theorem cost_sub_add (r : Rat) (x y : Cost) (hx : x.inf = 0) (hy : y.inf = 0) :
    Cost.ofRat r - x + y = Cost.ofRat (r - x.fin + y.fin) := by
  have h1 : (Cost.ofRat r - x) = ⟨0, r - x.fin⟩ := by
    show Cost.sub _ _ = _
    unfold Cost.sub; simp [Cost.ofRat, hx]
  rw [h1]
  show Cost.add _ _ = _
  unfold Cost.add; simp [Cost.ofRat, hy]

theorem CInv.push {E : Env S} {s : St S} (h : CInv E s) (nt : NT S Unit) (x : HeapEl)
    (hx : ∃ rl w k, E.G.rule? nt x.P = some rl ∧ ruleW E nt x.P = some w ∧ combCost s rl.1 x.comb = some k ∧ x.cost = Cost.ofRat (w + k)) :
    CInv E (s.setQueue nt (Heapq.push ltE (s.queueOf nt) x)) := by
  refine ⟨fun nt' c hm => h.fin nt' c hm, fun nt' el hm => ?_, fun nt' ci p hp => h.bank nt' ci p hp⟩
  have key : ∀ el : HeapEl, (∃ rl w k, E.G.rule? nt' el.P = some rl ∧ ruleW E nt' el.P = some w ∧ combCost s rl.1 el.comb = some k ∧ el.cost = Cost.ofRat (w + k)) →
      ∃ rl w k, E.G.rule? nt' el.P = some rl ∧ ruleW E nt' el.P = some w ∧
        combCost (s.setQueue nt (Heapq.push ltE (s.queueOf nt) x)) rl.1 el.comb = some k ∧ el.cost = Cost.ofRat (w + k) :=
    fun el ⟨rl, w, k, h1, h2, h3, h4⟩ => ⟨rl, w, k, h1, h2, (by first | rw [combCost_setQueue]; exact h3 | rw [combCost_setBank]; exact h3), h4⟩
  rw [St.queueOf_setQueue] at hm
  split at hm
  · next heq =>
    subst heq
    rcases (mem_push _ _ _ _).mp hm with rfl | h'
    · exact key _ hx
    · exact key _ (h.queue _ el h')
  · exact key _ (h.queue nt' el hm)

/-- the successor loop keeps the invariant: the pushed elements are priced by their combination -/
theorem succLoop_cost (E : Env S) (nt : NT S Unit) (P : Sym) (comb : List Nat) (rl : List (Ty × S) × Unit) (w k : Rat)
    (hr : E.G.rule? nt P = some rl) (hw : ruleW E nt P = some w) :
    ∀ (as : List (NT S Unit)) (s : St S) (i : Nat), CInv E s → combCost s rl.1 comb = some k →
      as = (rl.1.drop i).map ntOf →
      CInv E (succLoop nt (Cost.ofRat (w + k)) P comb s i as) ∧
      ∀ nt', (succLoop nt (Cost.ofRat (w + k)) P comb s i as).clOf nt' = s.clOf nt' := by
  intro as
  induction as with
  | nil => intro s i hs _ _; simp [succLoop, hs]
  | cons a as ih =>
    intro s i hs hk has
    have hi : i < rl.1.length := by
      by_cases h : i < rl.1.length
      · exact h
      · rw [List.drop_eq_nil_of_le (by omega)] at has; simp at has
    have hdrop : rl.1.drop i = rl.1[i] :: rl.1.drop (i + 1) := by
      rw [List.drop_eq_getElem_cons hi]
    rw [hdrop] at has
    simp only [List.map_cons, List.cons.injEq] at has
    obtain ⟨ha, has'⟩ := has
    obtain ⟨a', x, g1, g2, g3⟩ := combCost_set s rl.1 comb k i hk hi
    have ha' : a' = rl.1[i] := by rw [List.getElem?_eq_getElem hi] at g1; exact (Option.some.inj g1).symm
    subst ha'
    rw [← ha] at g2 g3
    unfold succLoop
    simp only
    split
    · split
      · exact ⟨hs, fun _ => rfl⟩
      · exact ih s (i + 1) hs hk has'
    · next hlt =>
      have hlen : comb.getD i 0 + 1 < (s.clOf a).length := by omega
      have hy : (s.clOf a)[comb.getD i 0 + 1]? = some ((s.clOf a).getD (comb.getD i 0 + 1) (Cost.ofRat 0)) :=
        getElem?_getD' _ _ _ hlen
      have hxe : (s.clOf a).getD (comb.getD i 0) (Cost.ofRat 0) = x := by
        have := getElem?_getD' (s.clOf a) (comb.getD i 0) (Cost.ofRat 0) (by omega)
        rw [g2] at this; exact (Option.some.inj this).symm
      have hxf : x.inf = 0 := hs.fin a x (List.mem_of_getElem? g2)
      have hyf := hs.fin a _ (List.mem_of_getElem? hy)
      have hnew := g3 _ hy
      have hpush : CInv E (s.setQueue nt (Heapq.push ltE (s.queueOf nt)
          ⟨Cost.ofRat (w + k) - (s.clOf a).getD (comb.getD i 0) (Cost.ofRat 0) + (s.clOf a).getD (comb.getD i 0 + 1) (Cost.ofRat 0),
            comb.set i (comb.getD i 0 + 1), P⟩)) := by
        refine hs.push nt _ ⟨rl, w, _, hr, hw, hnew, ?_⟩
        rw [hxe, cost_sub_add _ _ _ hxf hyf]
        congr 1; grind
      split
      · exact ⟨hpush, fun _ => rfl⟩
      · obtain ⟨q1, q2⟩ := ih _ (i + 1) hpush ((by first | rw [combCost_setQueue]; exact hk | rw [combCost_setBank]; exact hk)) has'
        exact ⟨q1, fun nt' => by rw [q2 nt']; rfl⟩

theorem epilogue_cost (E : Env S) (s : St S) (nt : NT S Unit) (fr : Frame) (hs : CInv E s) :
    CInv E (epilogue s nt fr) ∧ Ext s (epilogue s nt fr) := by
  have m1 : ∀ nt', (markEmpty s nt fr).clOf nt' = s.clOf nt' := by
    intro nt'; unfold markEmpty; split
    · exact St.addEmpty_clOf s nt nt' fr.ci
    · rfl
  have m2 : ∀ nt', (markEmpty s nt fr).queueOf nt' = s.queueOf nt' := by
    intro nt'; unfold markEmpty; split
    · exact St.addEmpty_queueOf s nt nt' fr.ci
    · rfl
  have m3 : ∀ nt' ci, (markEmpty s nt fr).bankAt nt' ci = s.bankAt nt' ci := by
    intro nt' ci; unfold markEmpty; split
    · exact St.addEmpty_bankAt s nt nt' fr.ci ci
    · rfl
  have h1 : CInv E (markEmpty s nt fr) := hs.of_eq m1 m2 m3
  unfold epilogue
  simp only
  split
  · exact ⟨h1, Ext.of_eq m1⟩
  · next e q hq =>
    have hemem : e ∈ (markEmpty s nt fr).queueOf nt := by rw [hq]; exact List.mem_cons_self ..
    have hext : Ext (markEmpty s nt fr) ((markEmpty s nt fr).setCL nt ((markEmpty s nt fr).clOf nt ++ [e.cost])) := by
      intro nt'
      rw [St.clOf_setCL]
      split
      · next heq => subst heq; exact List.prefix_append _ _
      · exact List.prefix_refl _
    refine ⟨⟨fun nt' c hm => ?_, fun nt' el hm => ?_, fun nt' ci p hp => ?_⟩, (Ext.of_eq m1).trans hext⟩
    · rw [St.clOf_setCL] at hm
      split at hm
      · next heq =>
        subst heq
        rcases List.mem_append.mp hm with h' | h'
        · exact h1.fin _ c h'
        · simp only [List.mem_singleton] at h'; subst h'
          obtain ⟨_, _, _, _, _, _, h4⟩ := h1.queue _ e hemem
          rw [h4]; rfl
      · exact h1.fin nt' c hm
    · obtain ⟨rl, w, k, g1, g2, g3, g4⟩ := h1.queue nt' el hm
      exact ⟨rl, w, k, g1, g2, combCost_ext hext _ _ _ g3, g4⟩
    · obtain ⟨c, g1, g2⟩ := h1.bank nt' ci p hp
      exact ⟨c, hext.get _ _ _ g1, g2⟩

/-- the programs of `ps` have cost `_cost_lists[a][c]` -/
def PossC (E : Env S) (s : St S) (ps : List Prog) (ac : NT S Unit × Nat) : Prop :=
  ∀ p ∈ ps, ∃ x, (s.clOf ac.1)[ac.2]? = some x ∧ costOf E p ac.1 = some x.fin

theorem PossC.ext {E : Env S} {s s' : St S} (he : Ext s s') {ps : List Prog} {ac : NT S Unit × Nat} (h : PossC E s ps ac) :
    PossC E s' ps ac := fun p hp => let ⟨x, h1, h2⟩ := h p hp; ⟨x, he.get _ _ _ h1, h2⟩

theorem All2.mono {α β : Type} {R R' : α → β → Prop} (hr : ∀ a b, R a b → R' a b) {l1 : List α} {l2 : List β}
    (h : All2 R l1 l2) : All2 R' l1 l2 := by
  induction h with
  | nil => exact All2.nil
  | cons h1 _ ih => exact All2.cons (hr _ _ h1) ih

def QLC (E : Env S) (n : Nat) : Prop :=
  ∀ s nt ci r, CInv E s → queryList E n s nt ci = some r → CInv E r.1 ∧ Ext s r.1 ∧ PossC E r.1 r.2.2 (nt, ci)
def RQC (E : Env S) (n : Nat) : Prop := ∀ s nt ci s', CInv E s → runQuery E n s nt ci = some s' → CInv E s' ∧ Ext s s'
def DC (E : Env S) (n : Nat) : Prop :=
  ∀ s nt fr s', CInv E s → FrC E s nt fr → drive E n s nt fr = some s' → CInv E s' ∧ Ext s s'
def RC (E : Env S) (n : Nat) : Prop :=
  ∀ s nt fr r, CInv E s → FrC E s nt fr → resume E n s nt fr = some r →
    CInv E r.1 ∧ Ext s r.1 ∧ ∀ p fr', r.2 = .yield p fr' →
      costOf E p nt = some fr.cost.fin ∧ FrC E r.1 nt fr' ∧ fr'.ci = fr.ci ∧ fr'.cost = fr.cost
def AC (E : Env S) (n : Nat) : Prop :=
  ∀ s as cs ae af acc done r, CInv E s → All2 (PossC E s) acc done → argsLoop E n s as cs ae af acc = some r →
    CInv E r.1 ∧ Ext s r.1 ∧ (r.2.2.1 = false → All2 (PossC E r.1) r.2.2.2 (done ++ as.zip cs))

theorem qlc_step (E : Env S) (n : Nat) (ih : RQC E n) : QLC E (n + 1) := by
  intro s nt ci r hs h
  unfold queryList at h
  split at h
  · cases h; exact ⟨hs, Ext.refl _, fun p hp => by cases hp⟩
  · split at h
    · cases h; exact ⟨hs, Ext.refl _, fun p hp => by cases hp⟩
    · split at h
      · next ps hps =>
        cases h
        refine ⟨hs, Ext.refl _, fun p hp => hs.bank nt ci p ?_⟩
        simp only [St.bankAt, hps, Option.getD_some]; exact hp
      · split at h
        · cases h
        · next s1 hrq =>
          obtain ⟨hs1, he1⟩ := ih _ _ _ _ hs hrq
          split at h
          · cases h; exact ⟨hs1, he1, fun p hp => by cases hp⟩
          · split at h
            · next ps hps =>
              cases h
              refine ⟨hs1, he1, fun p hp => hs1.bank nt ci p ?_⟩
              simp only [St.bankAt, hps, Option.getD_some]; exact hp
            · cases h

theorem rqc_step (E : Env S) (n : Nat) (ih : DC E n) : RQC E (n + 1) := by
  intro s nt ci s' hs h
  unfold runQuery at h
  split at h
  · cases h; exact ⟨hs, Ext.refl _⟩
  · next c hc => exact ih _ _ _ _ hs ⟨hc, fun a ha => by cases ha⟩ h

theorem dc_step (E : Env S) (n : Nat) (ihR : RC E n) (ihD : DC E n) : DC E (n + 1) := by
  intro s nt fr s' hs hf h
  unfold drive at h
  split at h
  · cases h
  · next s1 hr => cases h; exact ⟨(ihR _ _ _ _ hs hf hr).1, (ihR _ _ _ _ hs hf hr).2.1⟩
  · next s1 p fr1 hr =>
    obtain ⟨h1, h2, h3⟩ := ihR _ _ _ _ hs hf hr
    obtain ⟨g1, g2⟩ := ihD _ _ _ _ h1 (h3 p fr1 rfl).2.1 h
    exact ⟨g1, h2.trans g2⟩

theorem ac_step (E : Env S) (n : Nat) (ihQL : QLC E n) (ihA : AC E n) : AC E (n + 1) := by
  intro s as cs ae af acc done r hs hacc h
  cases as with
  | nil =>
    simp only [argsLoop] at h
    cases h
    exact ⟨hs, Ext.refl _, fun _ => by simpa using hacc⟩
  | cons a as =>
    cases cs with
    | nil => simp [argsLoop] at h
    | cons c cs =>
      simp only [argsLoop] at h
      split at h
      · cases h
      · next s1 one poss hql =>
        obtain ⟨hs1, he1, hp⟩ := ihQL _ _ _ _ hs hql
        have hacc' : All2 (PossC E s1) (acc ++ [poss]) (done ++ [(a, c)]) :=
          (hacc.mono (fun _ _ hr => hr.ext he1)).append (All2.cons hp All2.nil)
        split at h
        · split at h
          · cases h; exact ⟨hs1, he1, fun hf => by simp at hf⟩
          · obtain ⟨g1, g2, g3⟩ := ihA _ _ _ _ _ _ _ _ hs1 hacc' h
            exact ⟨g1, he1.trans g2, fun hf => by simpa using g3 hf⟩
        · obtain ⟨g1, g2, g3⟩ := ihA _ _ _ _ _ _ _ _ hs1 hacc' h
          exact ⟨g1, he1.trans g2, fun hf => by simpa using g3 hf⟩

/-- a tuple of the product of priced lists is priced by the combination -/
theorem tuple_cost (E : Env S) (s : St S) : ∀ (a : List Prog) (poss : List (List Prog)) (args : List (Ty × S)) (comb : List Nat) (k : Rat),
    All2 (· ∈ ·) a poss → All2 (PossC E s) poss ((args.map ntOf).zip comb) → combCost s args comb = some k →
    costOfList E a args = some k
  | [], [], [], [], k, _, _, hk => by simpa [combCost, costOfList] using hk
  | _, _, [], _ :: _, _, _, _, hk => by simp [combCost] at hk
  | _, _, _ :: _, [], _, _, _, hk => by simp [combCost] at hk
  | [], _ :: _, _, _, _, h1, _, _ => by cases h1
  | _ :: _, [], _, _, _, h1, _, _ => by cases h1
  | [], [], _ :: _, _ :: _, _, _, h2, _ => by cases h2
  | _ :: _, _ :: _, [], [], _, _, h2, _ => by cases h2
  | p :: ps, l :: ls, x :: xs, c :: cs, k, h1, h2, hk => by
    cases h1 with
    | cons m1 r1 =>
      simp only [List.map_cons, List.zip_cons_cons] at h2
      cases h2 with
      | cons m2 r2 =>
        simp only [combCost] at hk
        split at hk
        · next x0 y0 hx0 hy0 =>
          cases hk
          obtain ⟨x', g1, g2⟩ := m2 p m1
          simp only at g1 g2
          rw [hx0] at g1; cases g1
          simp only [costOfList, g2, tuple_cost E s ps ls xs cs y0 r1 r2 hy0]
        · cases hk

theorem rc_step (E : Env S) (n : Nat) (ihR : RC E n) (ihA : AC E n) : RC E (n + 1) := by
  intro s nt fr r hs hf h
  unfold resume at h
  obtain ⟨he1, he2, he3⟩ := emit_cost E nt fr.ci fr.P fr.isFun fr.cost fr.pending s hs hf.1 hf.2
  split at h
  · next s1 p rest hem =>
    cases h
    have e1 : (emit E nt fr.ci fr.P fr.isFun s fr.pending).1 = s1 := by rw [hem]
    have e2 : (emit E nt fr.ci fr.P fr.isFun s fr.pending).2 = some (p, rest) := by rw [hem]
    rw [e1] at he1 he2
    refine ⟨he1, Ext.of_eq he2, fun p' fr' hy => ?_⟩
    cases hy
    obtain ⟨g1, g2⟩ := he3 p rest e2
    exact ⟨g1, ⟨by rw [he2]; exact hf.1, fun a ha => hf.2 a (g2 a ha)⟩, rfl, rfl⟩
  · next s1 hem =>
    have e1 : (emit E nt fr.ci fr.P fr.isFun s fr.pending).1 = s1 := by rw [hem]
    rw [e1] at he1 he2
    have hs1 : CInv E s1 := he1
    have hx1 : Ext s s1 := Ext.of_eq he2
    split at h
    · cases h
      obtain ⟨g1, g2⟩ := epilogue_cost E s1 nt fr hs1
      exact ⟨g1, hx1.trans g2, fun _ _ hy => by cases hy⟩
    · next e0 q0 hq0 =>
      split at h
      · cases h
        obtain ⟨g1, g2⟩ := epilogue_cost E s1 nt fr hs1
        exact ⟨g1, hx1.trans g2, fun _ _ hy => by cases hy⟩
      · next hcost =>
        have hcost' : e0.cost = fr.cost := by
          by_cases hc : e0.cost = fr.cost
          · exact hc
          · exact absurd hc (by simpa using hcost)
        split at h
        · cases h
        · next el q' hpop =>
          have hhead : el = e0 := by
            have := pop_head ltE _ _ _ hpop
            rw [hq0] at this; simpa using this.symm
          subst hhead
          have hel : el ∈ s1.queueOf nt := (mem_of_pop _ _ _ _ hpop el).mpr (Or.inl rfl)
          obtain ⟨rl0, w, k, hrl0, hw, hk, hc⟩ := hs1.queue nt el hel
          have hs2 : CInv E (s1.setQueue nt q') := by
            refine ⟨fun nt' c hm => hs1.fin nt' c hm, fun nt' x hm => ?_, fun nt' ci p hp => hs1.bank nt' ci p hp⟩
            have hx : x ∈ s1.queueOf nt' := by
              rw [St.queueOf_setQueue] at hm
              split at hm
              · next heq => subst heq; exact (mem_of_pop _ _ _ _ hpop x).mpr (Or.inr hm)
              · exact hm
            obtain ⟨rl, w', k', g1, g2, g3, g4⟩ := hs1.queue nt' x hx
            exact ⟨rl, w', k', g1, g2, (by first | rw [combCost_setQueue]; exact g3 | rw [combCost_setBank]; exact g3), g4⟩
          split at h
          · cases h
          · next rl hrl =>
            have : rl0 = rl := by rw [hrl0] at hrl; exact Option.some.inj hrl
            subst this
            simp only at h
            split at h
            · cases h
            · next s3 ae af poss hargs =>
              obtain ⟨hs3, hx3, hposs⟩ := ihA _ _ _ _ _ [] [] _ hs2 All2.nil hargs
              simp only [List.nil_append] at hposs
              have hx13 : Ext s1 s3 := (Ext.of_eq fun _ => rfl).trans hx3
              have hx03 : Ext s s3 := hx1.trans hx13
              have hfr3 : FrC E s3 nt { fr with noSucc := fr.noSucc && (af && !ae), pending := [] } :=
                ⟨hx03.get _ _ _ hf.1, fun a ha => by cases ha⟩
              split at h
              · obtain ⟨g1, g2, g3⟩ := ihR _ _ _ _ hs3 hfr3 h
                exact ⟨g1, hx03.trans g2, g3⟩
              · have hk3 : combCost s3 rl0.1 el.comb = some k := combCost_ext hx13 _ _ _ hk
                have hfc : fr.cost = Cost.ofRat (w + k) := by rw [← hcost', hc]
                obtain ⟨hs4, hcl4⟩ := succLoop_cost E nt el.P el.comb rl0 w k hrl0 hw (rl0.1.map ntOf) s3 0 hs3 hk3 (by simp)
                rw [← hfc] at hs4 hcl4
                have hx34 : Ext s3 (succLoop nt fr.cost el.P el.comb s3 0 (rl0.1.map ntOf)) := Ext.of_eq hcl4
                split at h
                · obtain ⟨g1, g2, g3⟩ := ihR _ _ _ _ hs4 (hfr3.ext hx34) h
                  exact ⟨g1, (hx03.trans hx34).trans g2, g3⟩
                · next hfo hae =>
                  have haf : af = false := by
                    cases af
                    · rfl
                    · cases ae
                      · exact absurd rfl hfo
                      · exact absurd rfl hae
                  have hposs' := hposs haf
                  -- the state in which the product is consumed
                  have key : ∀ s5, CInv E s5 → Ext (succLoop nt fr.cost el.P el.comb s3 0 (rl0.1.map ntOf)) s5 →
                      resume E n s5 nt { fr with noSucc := fr.noSucc && (af && !ae), P := el.P, isFun := !(rl0.1.map ntOf).isEmpty, pending := product poss } = some r →
                      CInv E r.1 ∧ Ext s r.1 ∧ ∀ p fr', r.2 = .yield p fr' →
                        costOf E p nt = some fr.cost.fin ∧ FrC E r.1 nt fr' ∧ fr'.ci = fr.ci ∧ fr'.cost = fr.cost := by
                    intro s5 hs5 hx45 hres
                    have hx05 : Ext s s5 := (hx03.trans hx34).trans hx45
                    have hfr5 : FrC E s5 nt { fr with noSucc := fr.noSucc && (af && !ae), P := el.P, isFun := !(rl0.1.map ntOf).isEmpty, pending := product poss } := by
                      refine ⟨hx05.get _ _ _ hf.1, fun a ha => ?_⟩
                      simp only at ha ⊢
                      have ha2 := (mem_product poss a).mp ha
                      have hcl := tuple_cost E s3 a poss rl0.1 el.comb k ha2 hposs' hk3
                      unfold mkProg
                      split
                      · obtain ⟨args, u⟩ := rl0
                        simp only [costOf, hrl0, hw, hcl, hfc]; rfl
                      · next hif =>
                        have hnil : rl0.1 = [] := by
                          cases hrl1 : rl0.1 with
                          | nil => rfl
                          | cons x xs => simp [hrl1] at hif
                        have hk0 : k = 0 := by
                          have := combCost_length s3 _ _ _ hk3
                          rw [hnil] at hk3 this
                          have hc0 : el.comb = [] := List.length_eq_zero_iff.mp (by simpa using this)
                          rw [hc0] at hk3
                          simpa [combCost] using hk3.symm
                        obtain ⟨args, u⟩ := rl0
                        simp only at hnil; subst hnil
                        simp only [costOf, hrl0, hw, costOfList, hfc, hk0]; rfl
                    obtain ⟨g1, g2, g3⟩ := ihR _ _ _ _ hs5 hfr5 hres
                    exact ⟨g1, hx05.trans g2, g3⟩
                  split at h
                  · exact key _ hs4 (Ext.refl _) h
                  · refine key (St.setBank (succLoop nt fr.cost el.P el.comb s3 0 (rl0.1.map ntOf)) nt fr.ci []) ?_ (Ext.of_eq fun _ => rfl) h
                    refine ⟨fun nt' c hm => hs4.fin nt' c hm, fun nt' x hm => ?_, fun nt' ci p hp => ?_⟩
                    · obtain ⟨rl, w', k', g1, g2, g3, g4⟩ := hs4.queue nt' x hm
                      exact ⟨rl, w', k', g1, g2, (by first | rw [combCost_setQueue]; exact g3 | rw [combCost_setBank]; exact g3), g4⟩
                    · rw [St.bankAt_setBank] at hp
                      split at hp
                      · cases hp
                      · exact hs4.bank nt' ci p hp

theorem cost_all (E : Env S) : ∀ n : Nat, QLC E n ∧ RQC E n ∧ DC E n ∧ RC E n ∧ AC E n := by
  intro n
  induction n with
  | zero =>
    refine ⟨?_, ?_, ?_, ?_, ?_⟩
    · intro s nt ci r _ h; simp [queryList] at h
    · intro s nt ci r _ h; simp [runQuery] at h
    · intro s nt fr r _ _ h; simp [drive] at h
    · intro s nt fr r _ _ h; simp [resume] at h
    · intro s as cs ae af acc done r _ _ h; simp [argsLoop] at h
  | succ n ih =>
    obtain ⟨a, b, c, d, e⟩ := ih
    exact ⟨qlc_step E n b, rqc_step E n c, dc_step E n d c, rc_step E n d e, ac_step E n a e⟩

end PS.Beap
