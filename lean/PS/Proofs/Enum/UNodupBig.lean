/- Heap search on unambiguous grammars, no duplicates: rule induction on the big-step relation. -/
import PS.Proofs.Enum.UNodup
namespace PS.UHS
open PS PS.G
set_option linter.unusedSectionVars false
variable {U π : Type} [DecidableEq U]

/-- precondition: `popLoop` is entered for a key that has no successor yet -/
def NPre : Call U π → St U π → Prop
  | .popLoop nt key, s => AList.lookup key (s.succOf nt) = none
  | _, _ => True

/-- the returned program is the entry of the successor table -/
def ResSucc (s' : St U π) (nt : UNT U) (p : Option Prog) : Res π → Prop
  | .prog r => ∀ q, r = some q → AList.lookup p (s'.succOf nt) = some q
  | _ => True

/-- postcondition: `query` returns the entry of the successor table -/
def NPost : Call U π → St U π → Res π → Prop
  | .query nt p, s', r => ResSucc s' nt p r
  | .lop nt p, s', r => ResSucc s' nt p r
  | .popLoop nt p, s', r => ResSucc s' nt p r
  | _, _, _ => True

theorem pop_progs {lt : (π × Prog) → (π × Prog) → Bool} {h h' : List (π × Prog)} {e : π × Prog}
    (hp : Heapq.pop lt h = some (e, h')) : (h.map (·.2)).Perm (e.2 :: h'.map (·.2)) := by
  have := (Heapq.pop_perm lt h e h' hp).map (·.2)
  simpa using this

/-- dropping the popped element (a deleted program) -/
theorem NInv.popDrop {E : Env U π} {lt : (π × Prog) → (π × Prog) → Bool} {s : St U π} (hi : NInv E s) (nt : UNT U)
    (e : π × Prog) (h' : List (π × Prog)) (h : Heapq.pop lt (s.heapOf nt) = some (e, h')) :
    NInv E (s.setHeap nt h') := by
  have hperm := pop_progs h
  have hnd : (e.2 :: h'.map (·.2)).Nodup := hperm.nodup_iff.mp (hi.heap_nodup nt)
  have hsub : ∀ p, p ∈ h'.map (·.2) → p ∈ s.heapProgs nt :=
    fun p hp => hperm.symm.subset (List.mem_cons_of_mem _ hp)
  have hprogs : ∀ nt', (s.setHeap nt h').heapProgs nt' = if nt' = nt then h'.map (·.2) else s.heapProgs nt' := by
    intro nt'
    unfold St.heapProgs
    rw [St.heapOf_setHeap]
    split <;> rfl
  refine ⟨?_, ?_, hi.succ_seen, ?_, hi.succ_inj, hi.del_ok⟩
  · intro nt'
    rw [hprogs]
    split
    · exact (List.nodup_cons.mp hnd).2
    · exact hi.heap_nodup nt'
  · intro nt' p hp
    rw [hprogs] at hp
    show p ∈ s.seenOf nt'
    split at hp
    · rename_i heq; subst heq; exact hi.heap_seen _ p (hsub p hp)
    · exact hi.heap_seen nt' p hp
  · intro nt' k v hk hv
    rw [hprogs] at hv
    split at hv
    · rename_i heq; subst heq; exact hi.succ_out _ k v hk (hsub v hv)
    · exact hi.succ_out nt' k v hk hv

/-- the state after a pop that is recorded as the successor of `key` -/
def St.popTake (s : St U π) (nt : UNT U) (key : Option Prog) (e : π × Prog) (h' : List (π × Prog)) : St U π :=
  ((s.setHeap nt h').setSucc nt key e.2).setPred nt e.2 key

theorem popTake_heapProgs (s : St U π) (nt : UNT U) (key : Option Prog) (e : π × Prog) (h' : List (π × Prog)) :
    ∀ nt', (s.popTake nt key e h').heapProgs nt' = if nt' = nt then h'.map (·.2) else s.heapProgs nt' := by
  intro nt'
  show ((s.setHeap nt h').heapOf nt').map (·.2) = _
  rw [St.heapOf_setHeap]
  split <;> rfl

theorem popTake_succOf (s : St U π) (nt : UNT U) (key : Option Prog) (e : π × Prog) (h' : List (π × Prog)) :
    ∀ nt', (s.popTake nt key e h').succOf nt' =
      if nt' = nt then AList.insert key e.2 (s.succOf nt) else s.succOf nt' := by
  intro nt'
  show ((s.setHeap nt h').setSucc nt key e.2).succOf nt' = _
  rw [St.succOf_setSucc]; rfl

theorem NInv.popTake {E : Env U π} {lt : (π × Prog) → (π × Prog) → Bool} {s : St U π} (hi : NInv E s) (nt : UNT U)
    (key : Option Prog) (e : π × Prog) (h' : List (π × Prog))
    (h : Heapq.pop lt (s.heapOf nt) = some (e, h'))
    (hkey : AList.lookup key (s.succOf nt) = none) :
    NInv E (s.popTake nt key e h') ∧ Stable s (s.popTake nt key e h') := by
  have hperm := pop_progs h
  have hnd : (e.2 :: h'.map (·.2)).Nodup := hperm.nodup_iff.mp (hi.heap_nodup nt)
  have he_in : e.2 ∈ s.heapProgs nt := hperm.symm.subset (List.mem_cons_self)
  have hsub : ∀ p, p ∈ h'.map (·.2) → p ∈ s.heapProgs nt :=
    fun p hp => hperm.symm.subset (List.mem_cons_of_mem _ hp)
  have hprogs := popTake_heapProgs s nt key e h'
  have hsucc := popTake_succOf s nt key e h'
  have hst : Stable s (s.popTake nt key e h') := by
    intro nt' k v hk
    rw [hsucc]
    split
    · rename_i heq; subst heq
      rw [AList.lookup_insert]
      split
      · rename_i hkk; subst hkk; rw [hkey] at hk; cases hk
      · exact hk
    · exact hk
  refine ⟨⟨?_, ?_, ?_, ?_, ?_, hi.del_ok⟩, hst⟩
  · intro nt'
    rw [hprogs]
    split
    · exact (List.nodup_cons.mp hnd).2
    · exact hi.heap_nodup nt'
  · intro nt' p hp
    rw [hprogs] at hp
    show p ∈ s.seenOf nt'
    split at hp
    · rename_i heq; subst heq; exact hi.heap_seen _ p (hsub p hp)
    · exact hi.heap_seen nt' p hp
  · intro nt' k v hk
    rw [hsucc] at hk
    show v ∈ s.seenOf nt'
    split at hk
    · rename_i heq; subst heq
      rw [AList.lookup_insert] at hk
      split at hk
      · cases hk; exact hi.heap_seen _ _ he_in
      · exact hi.succ_seen _ k v hk
    · exact hi.succ_seen nt' k v hk
  · intro nt' k v hk hv
    rw [hsucc] at hk
    rw [hprogs] at hv
    split at hk
    · rename_i heq; subst heq
      simp only [if_true] at hv
      rw [AList.lookup_insert] at hk
      split at hk
      · cases hk; exact (List.nodup_cons.mp hnd).1 hv
      · exact hi.succ_out _ k v hk (hsub v hv)
    · rename_i hne
      simp only [hne, if_false] at hv
      exact hi.succ_out nt' k v hk hv
  · intro nt' k k' v hk hk'
    rw [hsucc] at hk hk'
    split at hk
    · rename_i heq; subst heq
      simp only [if_true] at hk'
      rw [AList.lookup_insert] at hk hk'
      split at hk
      · rename_i e1
        cases hk
        split at hk'
        · rename_i e2; rw [e1, e2]
        · exact absurd he_in (hi.succ_out _ k' _ hk')
      · split at hk'
        · cases hk'
          exact absurd he_in (hi.succ_out _ k _ hk)
        · exact hi.succ_inj _ k k' v hk hk'
    · rename_i hne
      simp only [hne, if_false] at hk'
      exact hi.succ_inj nt' k k' v hk hk'

/-- the fields that only the generator loop writes: `deleted`, the start heap -/
def St.outer (s : St U π) : List Prog × List (π × Prog × UNT U) := (s.deleted, s.startHeap)

/-- `deleted` and the start heap are only written by the generator loop and `merge_program` -/
theorem big_outer (E : Env U π) {c : Call U π} {s s' : St U π} {r : Res π}
    (hb : Big E c s s' r) (hk : E.kway = true) : s'.outer = s.outer := by
  have hpb : ∀ (s : St U π) nt pr p, (pushBoth E s nt pr p).outer = s.outer := by
    intro s nt pr p
    unfold pushBoth
    split
    · rfl
    · rfl
  have hps : ∀ (s s3 : St U π) F args nt v i r, pushStep E s F args nt v i r = some s3 → s3.outer = s.outer := by
    intro s s3 F args nt v i r hp
    unfold pushStep at hp
    cases r with
    | none => simp only [Option.some.injEq] at hp; subst hp; rfl
    | some q =>
      simp only at hp
      split at hp
      · simp only [Option.some.injEq] at hp; subst hp; rfl
      · split at hp
        · simp at hp
        · rename_i s2' pr hcp
          simp only [Option.some.injEq] at hp; subst hp
          rw [hpb]
          obtain ⟨c, rfl⟩ := computePrio_step E hcp
          rfl
  have hip : ∀ nt (l : List (Sym × List (UNT U))) (s s' : St U π), initPush E s nt l = some s' → s'.outer = s.outer := by
    intro nt l
    induction l with
    | nil => intro s s' hp; simp only [initPush, Option.some.injEq] at hp; subst hp; rfl
    | cons a rest ih =>
      intro s s' hp
      obtain ⟨P, v⟩ := a
      simp only [initPush] at hp
      split at hp
      · simp at hp
      · split at hp
        · simp at hp
        · split at hp
          · simp at hp
          · rename_i s1 pr hcp
            split at hp
            · simp at hp
            · rw [ih _ _ hp, hpb]
              obtain ⟨c, rfl⟩ := computePrio_step E hcp
              rfl
  induction hb with
  | query_direct h hb ih => exact ih
  | query_init h h0 hb ih0 ih => rw [ih, ih0]
  | lop_hit h => rfl
  | lop_miss h hb ih => exact ih
  | pop_empty h => rfl
  | pop_deleted h hd ha hb iha ihb => rw [ihb, iha]; rfl
  | pop_take h hd ha iha => rw [iha]; rfl
  | succ_leaf => rfl
  | succ_fun hk hb ih => exact ih
  | loop_done => rfl
  | loop_step hai hsi hq hp hb ihq ihb => rw [ihb, hps _ _ _ _ _ _ _ _ hp, ihq]
  | init_skip h => rfl
  | init_run h hrs hr hp hq ihr ihq => rw [ihq, hip _ _ _ _ hp]; exact ihr
  | rules_nil => rfl
  | rules_cons ha hb iha ihb => rw [ihb, iha]
  | alts_nil => rfl
  | @alts_leaf s s1 s3 nt P v w rest best arguments pr ha hc hv iha =>
    obtain ⟨c, hc'⟩ := computePrio_step E hc
    rw [← iha]
    show St.outer s3 = _
    rw [hc']
    rfl
  | @alts_cons s s1 s3 s' nt P v w rest best arguments pr best' ha hc hv hb iha ihb =>
    obtain ⟨c, hc'⟩ := computePrio_step E hc
    rw [ihb, ← iha]
    show St.outer s3 = _
    rw [hc']
    rfl
  | args_nil => rfl
  | args_cons hi hm hb ihi ihb => rw [ihb, ihi]

theorem big_deleted (E : Env U π) {c : Call U π} {s s' : St U π} {r : Res π}
    (hb : Big E c s s' r) (hk : E.kway = true) : s'.deleted = s.deleted :=
  congrArg Prod.fst (big_outer E hb hk)

theorem big_startHeap (E : Env U π) (hk : E.kway = true) {c : Call U π} {s s' : St U π} {r : Res π}
    (hb : Big E c s s' r) : s'.startHeap = s.startHeap :=
  congrArg Prod.snd (big_outer E hb hk)

/-- every call keeps the no-duplicate invariant, only adds entries to the `succ` tables, and `query`
    returns the entry `succ[S][program]` of the new state -/
theorem big_nodup (E : Env U π) (H : GHyp E) {c : Call U π} {s s' : St U π} {r : Res π}
    (hb : Big E c s s' r) : SInv E s → SPre E c → NInv E s → NPre c s → NInv E s' ∧ Stable s s' ∧ NPost c s' r := by
  have hk := H.kway
  induction hb with
  | query_direct h hb ih => intro hs _ hi _; exact ih hs trivial hi trivial
  | query_init h h0 hb ih0 ih =>
    intro hs _ hi _
    obtain ⟨a1, a2, _⟩ := ih0 hs trivial hi trivial
    obtain ⟨b1, b2, b3⟩ := ih (big_sound E H h0 hs trivial).1 trivial a1 trivial
    exact ⟨b1, a2.trans b2, b3⟩
  | lop_hit h =>
    intro _ _ hi _
    exact ⟨hi, Stable.refl _, by intro q hq; cases hq; exact h⟩
  | lop_miss h hb ih => intro hs _ hi _; exact ih hs trivial hi h
  | pop_empty h => intro _ _ hi _; exact ⟨hi, Stable.refl _, by intro q hq; cases hq⟩
  | @pop_deleted s s1 s' nt key e h' x r h hd ha hb iha ihb =>
    intro hs _ hi hpre
    have hs1 : SInv E (s.setHeap nt h') := hs.setHeap_sub _ _ (mem_of_pop _ _ _ _ h).2
    have h1 : NInv E (s.setHeap nt h') := hi.popDrop nt e h' h
    obtain ⟨a1, a2, _⟩ := iha hs1 trivial h1 trivial
    have hst0 : Stable s (s.setHeap nt h') := Stable.refl _
    have hre : NoReent E := by
      rcases hi.del_ok with hd0 | hre
      · rw [hd0] at hd; simp at hd
      · exact hre
    have hpre1 : AList.lookup key (s1.succOf nt) = none := by
      rw [hre _ _ _ _ _ hs1 ha]
      exact hpre
    obtain ⟨b1, b2, b3⟩ := ihb (big_sound E H ha hs1 trivial).1 trivial a1 hpre1
    exact ⟨b1, (hst0.trans a2).trans b2, b3⟩
  | @pop_take s s' nt key e h' x h hd ha iha =>
    intro hs _ hi hpre
    obtain ⟨hm, hsub⟩ := mem_of_pop _ _ _ _ h
    have hs1 := ((hs.setHeap_sub nt h' hsub).setSucc nt key e.2 (hs.heap_seen _ _ hm)).setPred nt e.2 key
    obtain ⟨h1, hst⟩ := hi.popTake nt key e h' h hpre
    obtain ⟨a1, a2, _⟩ := iha hs1 trivial h1 trivial
    refine ⟨a1, hst.trans a2, ?_⟩
    intro q hq
    cases hq
    apply a2
    show AList.lookup key ((s.popTake nt key e h').succOf nt) = some e.2
    rw [popTake_succOf]
    simp only [if_true]
    exact AList.lookup_insert_self _ _ _
  | succ_leaf => intro _ _ hi _; exact ⟨hi, Stable.refl _, trivial⟩
  | succ_fun hk' hb ih =>
    intro hs _ hi _
    obtain ⟨a1, a2, _⟩ := ih hs (hs.keys_ok _ _ _ _ hk') hi trivial
    exact ⟨a1, a2, trivial⟩
  | loop_done => intro _ _ hi _; exact ⟨hi, Stable.refl _, trivial⟩
  | @loop_step s s1 s3 s' F args nt v i ai si r x hai hsi hq hp hb ihq ihb =>
    intro hs hpre hi _
    have hpre' : KeyOK E nt F args v := hpre
    obtain ⟨hs1, hpost⟩ := big_sound E H hq hs trivial
    have hs3 : SInv E s3 := by
      apply hs1.pushStep H F args nt v i r _ s3 hp
      intro q hq'
      exact ⟨hpre'.1, derList_set E args v i q si hpre'.2 hsi (hpost q hq')⟩
    obtain ⟨a1, a2, _⟩ := ihq hs trivial hi trivial
    obtain ⟨b1, b2⟩ := a1.pushStep hk F args nt v i r hp
    obtain ⟨c1, c2, _⟩ := ihb hs3 hpre' b1 trivial
    exact ⟨c1, (a2.trans b2).trans c2, trivial⟩
  | init_skip h => intro _ _ hi _; exact ⟨hi, Stable.refl _, trivial⟩
  | @init_run s s1 s3 s' nt rs b r h hrs hr hp hq ihr ihq =>
    intro hs _ hi _
    have hs0 : SInv E { s with initS := s.initS ++ [nt] } :=
      ⟨hs.cache_ok, hs.heap_prio, hs.heap_seen, hs.seen_der, hs.succ_seen, hs.keys_ok, hs.maxNT_ok, hs.maxRule_ok,
        hs.start_ok⟩
    have hrows : ∀ x ∈ rs, altsOf E nt x.1 = x.2 := by
      intro x hx
      unfold altsOf
      rw [hrs]
      simp only
      rw [AList.lookup_of_mem_nodup (H.rows nt rs hrs) (show (x.1, x.2) ∈ rs from hx)]
      rfl
    have hpre1 : SPre E (.initRules nt rs none) := ⟨hrows, by intro b hb; cases hb⟩
    obtain ⟨hs1, hbest⟩ := big_sound E H hr hs0 hpre1
    have hbd : Der E b.1 nt := hbest b rfl
    have hs2 : SInv E { s1 with maxNT := AList.insert nt b.1 s1.maxNT } := by
      refine ⟨hs1.cache_ok, hs1.heap_prio, hs1.heap_seen, hs1.seen_der, hs1.succ_seen, hs1.keys_ok, ?_, hs1.maxRule_ok,
        hs1.start_ok⟩
      intro nt' m hl
      rw [AList.lookup_insert] at hl
      split at hl
      · rename_i heq; cases hl; subst heq; exact hbd
      · exact hs1.maxNT_ok nt' m hl
    have hs3 := SInv.initPush H nt _ hs2 hp
    have h0 : NInv E { s with initS := s.initS ++ [nt] } :=
      hi.congr (fun _ => rfl) (fun _ => rfl) (fun _ => rfl) rfl
    obtain ⟨a1, a2, _⟩ := ihr hs0 hpre1 h0 trivial
    have h2 : NInv E { s1 with maxNT := AList.insert nt b.1 s1.maxNT } :=
      a1.congr (fun _ => rfl) (fun _ => rfl) (fun _ => rfl) rfl
    obtain ⟨b1, b2⟩ := NInv.initPush hk nt _ h2 hp
    obtain ⟨c1, c2, _⟩ := ihq hs3 trivial b1 trivial
    have a2' : Stable s s1 := a2
    have b2' : Stable s1 s3 := b2
    exact ⟨c1, (a2'.trans b2').trans c2, trivial⟩
  | rules_nil => intro _ _ hi _; exact ⟨hi, Stable.refl _, trivial⟩
  | @rules_cons s s1 s' nt P alts rest best best1 best' ha hb iha ihb =>
    intro hs hpre hi _
    have hP : altsOf E nt P = alts := hpre.1 (P, alts) List.mem_cons_self
    have hpreA : SPre E (.initAlts nt P alts best) := ⟨by intro vw hvw; rw [hP]; exact hvw, hpre.2⟩
    obtain ⟨hs1, hb1⟩ := big_sound E H ha hs hpreA
    obtain ⟨a1, a2, _⟩ := iha hs hpreA hi trivial
    obtain ⟨b1, b2, _⟩ := ihb hs1 ⟨fun x hx => hpre.1 x (List.mem_cons_of_mem _ hx), hb1⟩ a1 trivial
    exact ⟨b1, a2.trans b2, trivial⟩
  | alts_nil => intro _ _ hi _; exact ⟨hi, Stable.refl _, trivial⟩
  | @alts_leaf s s1 s3 nt P v w rest best arguments pr ha hc hv iha =>
    intro hs _ hi _
    obtain ⟨a1, a2, _⟩ := iha hs trivial hi trivial
    have hcs := computePrio_step E hc
    have h3 : NInv E s3 := (a1.congr (s' := { s1 with keys := AList.insert (nt, .node P arguments) v s1.keys })
      (fun _ => rfl) (fun _ => rfl) (fun _ => rfl) rfl).cacheStep hcs
    have hst : Stable s1 s3 := Stable.of_succOf (fun nt' => by rw [hcs.succOf]; rfl)
    exact ⟨h3.congr (fun _ => rfl) (fun _ => rfl) (fun _ => rfl) rfl,
      a2.trans (hst.trans (Stable.of_succOf (fun _ => rfl))), trivial⟩
  | @alts_cons s s1 s3 s' nt P v w rest best arguments pr best' ha hc hv hb iha ihb =>
    intro hs hpre hi _
    have hm := hpre.1 _ List.mem_cons_self
    obtain ⟨hs1, hargs⟩ := big_sound E H ha hs trivial
    have hl : DerList E arguments v := by simpa using hargs [] trivial
    obtain ⟨hs2, hd⟩ := hs1.altStep H nt P v w arguments pr hm hl hc
    obtain ⟨a1, a2, _⟩ := iha hs trivial hi trivial
    have hcs := computePrio_step E hc
    have h3 : NInv E s3 := (a1.congr (s' := { s1 with keys := AList.insert (nt, .node P arguments) v s1.keys })
      (fun _ => rfl) (fun _ => rfl) (fun _ => rfl) rfl).cacheStep hcs
    have hst : Stable s1 s3 := Stable.of_succOf (fun nt' => by rw [hcs.succOf]; rfl)
    obtain ⟨b1, b2, _⟩ := ihb hs2
      ⟨fun vw hvw => hpre.1 vw (List.mem_cons_of_mem _ hvw), bestUpd_der E nt best _ pr hpre.2 hd⟩
      (h3.congr (fun _ => rfl) (fun _ => rfl) (fun _ => rfl) rfl) trivial
    have hst2 : Stable s3 { s3 with maxRule := AList.insert (nt, P, v) (.node P arguments) s3.maxRule } :=
      Stable.of_succOf (fun _ => rfl)
    exact ⟨b1, a2.trans (hst.trans (hst2.trans b2)), trivial⟩
  | args_nil => intro _ _ hi _; exact ⟨hi, Stable.refl _, trivial⟩
  | args_cons hi' hm hb ihi ihb =>
    intro hs _ hi _
    obtain ⟨a1, a2, _⟩ := ihi hs trivial hi trivial
    obtain ⟨b1, b2, _⟩ := ihb (big_sound E H hi' hs trivial).1 trivial a1 trivial
    exact ⟨b1, a2.trans b2, trivial⟩

end PS.UHS
