/- Bee search, SOUNDNESS as a state invariant: every program in a bank is derivable from its non-terminal
   and stored under the index of its true cost; every queued element carries the cost of its combination;
   whatever is yielded is a member of the grammar, accepted by the filter, not deleted, of the cost of the
   current round. -/
import PS.Proofs.Enum.BeeBase
import PS.Proofs.Enum.HeapRoot
namespace PS.Bee
open PS PS.G

variable {S : Type} [DecidableEq S]
set_option linter.unusedSectionVars false
set_option linter.unusedSimpArgs false

/-- every program of a bank is a member for its non-terminal and sits at the index of its cost -/
def BankSound (E : Env S) (s : St S) : Prop :=
  ∀ nt b, (nt, b) ∈ s.bank → ∀ ci ps, (ci, ps) ∈ b → ∀ p ∈ ps,
    gen E.G p nt = true ∧ s.costList[ci]? = some (pcost E p nt)

/-- a queued element carries the real cost of its combination -/
def QSound (E : Env S) (cl : List Int) : NT S Unit → HeapElem → Prop :=
  fun nt e => realCost E cl nt e.P e.combo = some e.cost

structure SInv (E : Env S) (s : St S) : Prop where
  bank : BankSound E s
  queue : QAll (QSound E s.costList) s

theorem realCostLoop_append (cl : List Int) (x : Int) (indices : List Nat) :
    ∀ (k i : Nat) (out c : Int), realCostLoop cl indices i k out = some c →
      realCostLoop (cl ++ [x]) indices i k out = some c := by
  intro k
  induction k with
  | zero => intro i out c h; simpa [realCostLoop] using h
  | succ k ih =>
    intro i out c h
    simp only [realCostLoop] at h ⊢
    cases hi : indices[i]? with
    | none => simp [hi] at h
    | some j =>
      simp only [hi] at h ⊢
      cases hj : cl[j]? with
      | none => simp [hj] at h
      | some v =>
        simp only [hj] at h
        have : (cl ++ [x])[j]? = some v := by
          have hlt := (List.getElem?_eq_some_iff.mp hj).1
          rw [List.getElem?_append_left hlt]; exact hj
        simp only [this]
        exact ih _ _ _ h

theorem realCost_append (E : Env S) (cl : List Int) (x : Int) (nt : NT S Unit) (P : Sym) (idx : List Nat) (c : Int)
    (h : realCost E cl nt P idx = some c) : realCost E (cl ++ [x]) nt P idx = some c := by
  unfold realCost at h ⊢
  cases hw : ruleCost E nt P with
  | none => simp [hw] at h
  | some w =>
    cases ha : ruleArgs E nt P with
    | none => simp [hw, ha] at h
    | some args =>
      simp only [hw, ha] at h ⊢
      exact realCostLoop_append cl x idx _ _ _ _ h

theorem getElem?_append_some {α : Type} (l : List α) (x : α) (i : Nat) (v : α) (h : l[i]? = some v) :
    (l ++ [x])[i]? = some v := by
  have hlt := (List.getElem?_eq_some_iff.mp h).1
  rw [List.getElem?_append_left hlt]; exact h

/-- the candidate programs built from the argument banks of a popped combination are members of the cost of
    the combination -/
theorem prodSound (E : Env S) (s : St S) (hb : BankSound E s) (combo : List Nat) :
    ∀ (args : List (Ty × S)) (i : Nat) (out c : Int) (aps : List (List Prog)),
      argsPossibles s combo args i = some (some aps) →
      realCostLoop s.costList combo i args.length out = some c →
      ∀ kids ∈ product aps, genList E.G kids args = true ∧ c = out + pcostList E kids args := by
  intro args
  induction args with
  | nil =>
    intro i out c aps ha hr kids hk
    simp only [argsPossibles, Option.some.injEq] at ha
    subst ha
    simp only [product, List.mem_singleton] at hk
    subst hk
    simp only [List.length_nil, realCostLoop, Option.some.injEq] at hr
    simp [genList, pcostList, hr]
  | cons a rest ih =>
    intro i out c aps ha hr kids hk
    obtain ⟨t, sx⟩ := a
    simp only [argsPossibles] at ha
    cases hl : AList.lookup (t, (sx, ())) s.bank with
    | none => simp [hl] at ha
    | some localBank =>
      simp only [hl] at ha
      cases hc : combo[i]? with
      | none => simp [hc] at ha
      | some ci =>
        simp only [hc] at ha
        cases hci : AList.lookup ci localBank with
        | none => simp [hci] at ha
        | some ps =>
          cases ps with
          | nil => simp [hci] at ha
          | cons p ps =>
            simp only [hci] at ha
            cases hrec : argsPossibles s combo rest (i + 1) with
            | none => simp [hrec] at ha
            | some r =>
              cases r with
              | none => simp [hrec] at ha
              | some r =>
                simp only [hrec, Option.some.injEq] at ha
                subst ha
                simp only [List.length_cons, realCostLoop, hc] at hr
                cases hcl : s.costList[ci]? with
                | none => simp [hcl] at hr
                | some cc =>
                  simp only [hcl] at hr
                  simp only [product, List.mem_flatMap, List.mem_map] at hk
                  obtain ⟨x, hx, kids', hk', rfl⟩ := hk
                  obtain ⟨hg, hcx⟩ := hb _ _ (AList.lookup_some_mem hl) _ _ (AList.lookup_some_mem hci) x hx
                  rw [hcl] at hcx
                  have hcc : cc = pcost E x (t, (sx, ())) := Option.some.inj hcx
                  obtain ⟨hg2, hc2⟩ := ih (i + 1) (out + cc) c r hrec hr kids' hk'
                  refine ⟨by simp [genList, hg, hg2], ?_⟩
                  simp only [pcostList]
                  rw [hc2, hcc]; omega

/-- `gen` / `pcost` of an application from its rule -/
theorem gen_node (E : Env S) (nt : NT S Unit) (P : Sym) (kids : List Prog) (args : List (Ty × S))
    (ha : ruleArgs E nt P = some args) : gen E.G (.node P kids) nt = genList E.G kids args := by
  unfold ruleArgs at ha
  cases hr : E.G.rule? nt P with
  | none => simp [hr] at ha
  | some rl =>
    obtain ⟨a, u⟩ := rl
    simp only [hr, Option.map_some, Option.some.injEq] at ha
    subst ha
    simp [gen, hr]

theorem pcost_node (E : Env S) (nt : NT S Unit) (P : Sym) (kids : List Prog) (args : List (Ty × S)) (w : Int)
    (ha : ruleArgs E nt P = some args) (hw : ruleCost E nt P = some w) :
    pcost E (.node P kids) nt = w + pcostList E kids args := by
  unfold ruleArgs at ha
  cases hr : E.G.rule? nt P with
  | none => simp [hr] at ha
  | some rl =>
    obtain ⟨a, u⟩ := rl
    simp only [hr, Option.map_some, Option.some.injEq] at ha
    subst ha
    simp [pcost, hr, hw]

/-- the "Generate next combinations" loop only queues / delays -/
theorem succLoop_all (E : Env S) (Q : NT S Unit → HeapElem → Prop) (D : NT S Unit → Delayed → Prop)
    (nt : NT S Unit) (P : Sym) (combo : List Nat) (cl : List Int)
    (hQ : ∀ i v c, combo[i]? = some v → needsDelay cl (combo.set i (v + 1)) (some i) = some false →
      realCost E cl nt P (combo.set i (v + 1)) = some c → Q nt ⟨c, combo.set i (v + 1), P⟩)
    (hD : ∀ i v, combo[i]? = some v → needsDelay cl (combo.set i (v + 1)) (some i) = some true →
      D nt (combo.set i (v + 1), P, some i)) :
    ∀ (k i : Nat) (s s' : St S) (maxi maxi' : Nat), succLoop E nt P combo i k s maxi = some (s', maxi') →
      s.costList = cl → QAll Q s → DAll D s → QD s s' ∧ QAll Q s' ∧ DAll D s' := by
  intro k
  induction k with
  | zero =>
    intro i s s' maxi maxi' h _ hq hd
    simp only [succLoop, Option.some.injEq, Prod.mk.injEq] at h
    obtain ⟨rfl, _⟩ := h
    exact ⟨QD.refl _, hq, hd⟩
  | succ k ih =>
    intro i s s' maxi maxi' h hcl hq hd
    simp only [succLoop] at h
    cases hv : combo[i]? with
    | none => simp [hv] at h
    | some v =>
      simp only [hv] at h
      cases ha : addCombination E s nt P (combo.set i (v + 1)) (some i) with
      | none => simp [ha] at h
      | some s1 =>
        simp only [ha] at h
        obtain ⟨hq1, hd1⟩ := addCombination_all E Q D s s1 nt P _ _ ha
          (fun c hn hc => hQ i v c hv (hcl ▸ hn) (hcl ▸ hc)) (fun hn => hD i v hv (hcl ▸ hn)) hq hd
        have hqd := (addCombination_spec E s s1 nt P _ _ ha).1
        by_cases hb : v + 1 > 1
        · simp only [hb, if_true, Option.some.injEq, Prod.mk.injEq] at h
          obtain ⟨rfl, _⟩ := h
          exact ⟨hqd, hq1, hd1⟩
        · simp only [hb, if_false] at h
          obtain ⟨hqd2, hq2, hd2⟩ := ih _ _ _ _ _ h (hqd.cl.trans hcl) hq1 hd1
          exact ⟨hqd.trans hqd2, hq2, hd2⟩

/-- what must hold of the data kept in the suspended loops -/
def PhaseOK (E : Env S) (s : St S) : Phase S → Prop
  | .whileQ _ cost _ _ _ ci => s.costList[ci]? = some cost
  | .pend _ cost nt _ _ ci pending =>
    s.costList[ci]? = some cost ∧ ∀ p ∈ pending, gen E.G p nt = true ∧ pcost E p nt = cost
  | _ => True

structure GInv (E : Env S) (g : Gen S) : Prop where
  st : SInv E g.st
  ph : PhaseOK E g.st g.phase

/-- the cost of the round the generator is in (when it is inside a round) -/
def Phase.cost? : Phase S → Option Int
  | .forS _ c _ => some c
  | .whileQ _ c _ _ _ _ => some c
  | .pend _ c _ _ _ _ _ => some c
  | _ => none

theorem bankSound_of_eq (E : Env S) {s s' : St S} (hb : s'.bank = s.bank) (hc : s'.costList = s.costList)
    (h : BankSound E s) : BankSound E s' := by
  intro nt b hm ci ps hci p hp
  rw [hb] at hm
  rw [hc]
  exact h nt b hm ci ps hci p hp

theorem bankSound_append (E : Env S) {s s' : St S} (x : Int) (hb : s'.bank = s.bank)
    (hc : s'.costList = s.costList ++ [x]) (h : BankSound E s) : BankSound E s' := by
  intro nt b hm ci ps hci p hp
  rw [hb] at hm
  rw [hc]
  obtain ⟨h1, h2⟩ := h nt b hm ci ps hci p hp
  exact ⟨h1, getElem?_append_some _ _ _ _ h2⟩

/-- `_add_program_` keeps the invariant when the program offered is sound for the index -/
theorem addProgram_sound (E : Env S) (s : St S) (nt : NT S Unit) (p : Prog) (ci : Nat)
    (hp : gen E.G p nt = true ∧ s.costList[ci]? = some (pcost E p nt)) (h : SInv E s) :
    SInv E (addProgram E s nt p ci).1 ∧ (addProgram E s nt p ci).1.costList = s.costList ∧
      ((addProgram E s nt p ci).2 = true → E.filter p = true ∧ s.deleted.contains p = false) := by
  unfold addProgram
  by_cases hd : s.deleted.contains p = true
  · rw [if_pos hd]; exact ⟨h, rfl, fun hh => by simp at hh⟩
  · rw [if_neg hd]
    by_cases hf : E.filter p = true
    · have hnf : ¬ ((!E.filter p) = true) := by simp [hf]
      rw [if_neg hnf]
      refine ⟨⟨?_, h.queue⟩, rfl, fun _ => ⟨hf, by simpa using hd⟩⟩
      intro nt' b hm ci' ps hci q hq
      rcases mem_insert hm with hm | hm
      · cases hm
        unfold bankAppend at hci
        rcases mem_insert hci with hci | hci
        · cases hci
          rcases List.mem_append.mp hq with h1 | h1
          · obtain ⟨l, hl, hql⟩ := getD_lookup_mem h1
            cases hlb : AList.lookup nt s.bank with
            | none => simp [St.bankOf, hlb] at hl
            | some b0 =>
              simp only [St.bankOf, hlb, Option.getD_some] at hl
              exact h.bank _ _ (AList.lookup_some_mem hlb) _ _ hl q hql
          · simp at h1; subst h1; exact hp
        · cases hlb : AList.lookup nt s.bank with
          | none => simp [St.bankOf, hlb] at hci
          | some b0 =>
            simp only [St.bankOf, hlb, Option.getD_some] at hci
            exact h.bank _ _ (AList.lookup_some_mem hlb) _ _ hci q hq
      · exact h.bank _ _ hm _ _ hci q hq
    · have hnf : (!E.filter p) = true := by simpa using hf
      rw [if_pos hnf]
      exact ⟨⟨bankSound_of_eq E rfl rfl h.bank, h.queue⟩, rfl, fun hh => by simp at hh⟩

theorem sinv_maxIndex (E : Env S) (s : St S) (m : AList (NT S Unit) Nat) (h : SInv E s) :
    SInv E { s with maxIndex := m } := ⟨h.bank, h.queue⟩

/-- **one step keeps the soundness invariant**, and a yielded program is a member for the start symbol, of
    the cost of the current round, accepted by the filter and not deleted -/
theorem step_sound (E : Env S) (g g' : Gen S) (out : Option Prog) (h : step E g = some (g', out))
    (hi : GInv E g) :
    GInv E g' ∧ ∀ p, out = some p → gen E.G p E.G.start = true ∧ g.phase.cost? = some (pcost E p E.G.start) ∧
      E.filter p = true ∧ g.st.deleted.contains p = false := by
  unfold step at h
  split at h
  · -- done
    simp only [Option.some.injEq, Prod.mk.injEq] at h; obtain ⟨rfl, rfl⟩ := h
    exact ⟨hi, by simp⟩
  · -- init
    simp only [Option.some.injEq, Prod.mk.injEq] at h; obtain ⟨rfl, rfl⟩ := h
    exact ⟨⟨hi.st, trivial⟩, by simp⟩
  · -- outer
    dsimp only at h
    split at h
    · split at h
      all_goals (repeat' (split at h))
      all_goals
        simp only [Option.some.injEq, Prod.mk.injEq] at h; obtain ⟨rfl, rfl⟩ := h
        exact ⟨⟨hi.st, trivial⟩, by simp⟩
    · simp only [Option.some.injEq, Prod.mk.injEq] at h; obtain ⟨rfl, rfl⟩ := h
      exact ⟨⟨hi.st, trivial⟩, by simp⟩
  · -- forS []
    simp only [Option.some.injEq, Prod.mk.injEq] at h; obtain ⟨rfl, rfl⟩ := h
    exact ⟨⟨hi.st, trivial⟩, by simp⟩
  · -- forS (nt :: rest)
    rename_i succ cost nt rest hph
    simp only at h
    split at h
    · simp at h
    · rename_i s1 ci hac
      simp only [Option.some.injEq, Prod.mk.injEq] at h; obtain ⟨rfl, rfl⟩ := h
      have hs0 := sinv_maxIndex E g.st (AList.insert nt ((AList.lookup nt g.st.maxIndex).getD 0) g.st.maxIndex) hi.st
      obtain ⟨hci, hbk, _, _, _, hcase⟩ := addCost_all E (QSound E g.st.costList) (QSound E (g.st.costList ++ [cost]))
        (fun _ _ => True) (fun _ _ => True) (fun _ _ => True) _ s1 cost ci hac
        (fun nt e hq => realCost_append E _ _ _ _ _ _ hq) (fun _ _ _ => trivial)
        (fun nt idx P chk c _ _ hc => hc) (fun _ _ _ _ _ _ => trivial) hs0.queue (fun _ _ _ _ _ => trivial)
      refine ⟨⟨?_, hci⟩, by simp⟩
      rcases hcase with ⟨rfl, _⟩ | ⟨hcl, _, _, hq, _⟩
      · exact hs0
      · refine ⟨bankSound_append E cost hbk hcl hs0.bank, ?_⟩
        rw [hcl]; exact hq
  · -- whileQ
    rename_i succ cost nt rest maxi ci hph
    have hphase : g.st.costList[ci]? = some cost := by have := hi.ph; rw [hph] at this; exact this
    simp only at h
    split at h
    · -- empty queue: leave
      simp only [Option.some.injEq, Prod.mk.injEq] at h; obtain ⟨rfl, rfl⟩ := h
      exact ⟨⟨sinv_maxIndex E _ _ hi.st, trivial⟩, by simp⟩
    · rename_i top tl hq
      split at h
      · rename_i htop
        split at h
        · simp at h
        · rename_i el q' hpop
          have hperm := Heapq.pop_perm ltE _ _ _ hpop
          have hhead := Heapq.pop_head ltE _ _ _ hpop
          rw [hq] at hhead
          simp only [List.head?_cons, Option.some.injEq] at hhead
          subst hhead
          have helq : top ∈ g.st.queueOf nt := by rw [hq]; exact List.mem_cons_self
          obtain ⟨l0, hl0, he0⟩ := queueOf_mem helq
          have hel : realCost E g.st.costList nt top.P top.combo = some top.cost := hi.st.queue _ _ hl0 _ he0
          -- the state after the pop
          have hs1 : SInv E (g.st.setQueue nt q') := by
            refine ⟨hi.st.bank, ?_⟩
            intro nt' l hm e he
            rcases mem_insert hm with hm | hm
            · cases hm
              have : e ∈ g.st.queueOf nt := (hperm.mem_iff.mpr (List.mem_cons_of_mem _ he))
              obtain ⟨l1, hl1, he1⟩ := queueOf_mem this
              exact hi.st.queue _ _ hl1 _ he1
            · exact hi.st.queue _ _ hm _ he
          split at h
          · simp at h
          · rename_i args hargs
            split at h
            · simp at h
            · rename_i s2 maxi' hsl
              obtain ⟨hqd, hq2, _⟩ := succLoop_all E (QSound E g.st.costList) (fun _ _ => True) nt top.P top.combo
                g.st.costList (fun i v c _ _ hc => hc) (fun _ _ _ _ => trivial) _ _ _ _ _ _ hsl rfl hs1.queue
                (fun _ _ _ _ _ => trivial)
              have hs2 : SInv E s2 := ⟨bankSound_of_eq E hqd.bank hqd.cl hs1.bank, by rw [hqd.cl]; exact hq2⟩
              have hcl2 : s2.costList = g.st.costList := hqd.cl
              split at h
              · simp at h
              · simp only [Option.some.injEq, Prod.mk.injEq] at h; obtain ⟨rfl, rfl⟩ := h
                exact ⟨⟨hs2, by show s2.costList[ci]? = some cost; rw [hcl2]; exact hphase⟩, by simp⟩
              · rename_i aps haps
                simp only [Option.some.injEq, Prod.mk.injEq] at h; obtain ⟨rfl, rfl⟩ := h
                refine ⟨⟨hs2, ?_⟩, by simp⟩
                show s2.costList[ci]? = some cost ∧ _
                refine ⟨by rw [hcl2]; exact hphase, ?_⟩
                intro p hp
                simp only [List.mem_map] at hp
                obtain ⟨kids, hk, rfl⟩ := hp
                unfold realCost at hel
                cases hw : ruleCost E nt top.P with
                | none => simp [hw] at hel
                | some w =>
                  simp only [hw, hargs] at hel
                  rw [← hcl2] at hel
                  obtain ⟨hg, hc⟩ := prodSound E s2 hs2.bank top.combo args 0 w top.cost aps haps hel kids hk
                  refine ⟨by rw [gen_node E nt top.P kids args hargs]; exact hg, ?_⟩
                  rw [pcost_node E nt top.P kids args w hargs hw, ← hc, htop]
      · simp only [Option.some.injEq, Prod.mk.injEq] at h; obtain ⟨rfl, rfl⟩ := h
        exact ⟨⟨sinv_maxIndex E _ _ hi.st, trivial⟩, by simp⟩
  · -- pend []
    rename_i succ cost nt rest maxi ci hph
    simp only [Option.some.injEq, Prod.mk.injEq] at h; obtain ⟨rfl, rfl⟩ := h
    have := hi.ph; rw [hph] at this
    exact ⟨⟨hi.st, this.1⟩, by simp⟩
  · -- pend (p :: ps)
    rename_i succ cost nt rest maxi ci p ps hph
    have hphase := hi.ph; rw [hph] at hphase
    obtain ⟨hci, hpend⟩ := hphase
    obtain ⟨hgp, hcp⟩ := hpend p List.mem_cons_self
    obtain ⟨hs1, hcl1, hadd⟩ := addProgram_sound E g.st nt p ci ⟨hgp, by rw [hcp]; exact hci⟩ hi.st
    cases hap : addProgram E g.st nt p ci with | mk s1 added =>
    simp only [hap] at h
    have e1 : (addProgram E g.st nt p ci).1 = s1 := by rw [hap]
    have e2 : (addProgram E g.st nt p ci).2 = added := by rw [hap]
    rw [e1] at hs1 hcl1
    rw [e2] at hadd
    have hrest : ∀ q ∈ ps, gen E.G q nt = true ∧ pcost E q nt = cost := fun q hq => hpend q (List.mem_cons_of_mem _ hq)
    split at h
    · rename_i hyes
      simp only [Option.some.injEq, Prod.mk.injEq] at h; obtain ⟨rfl, rfl⟩ := h
      simp only [Bool.and_eq_true, decide_eq_true_eq] at hyes
      obtain ⟨ha, hnt⟩ := hyes
      refine ⟨⟨hs1, ?_⟩, ?_⟩
      · show s1.costList[ci]? = some cost ∧ _
        exact ⟨by rw [hcl1]; exact hci, hrest⟩
      · intro q hq
        simp only [Option.some.injEq] at hq; subst hq
        subst hnt
        obtain ⟨hf, hnd⟩ := hadd ha
        refine ⟨hgp, ?_, hf, hnd⟩
        rw [hph]; simp [Phase.cost?, hcp]
    · simp only [Option.some.injEq, Prod.mk.injEq] at h; obtain ⟨rfl, rfl⟩ := h
      refine ⟨⟨hs1, ?_⟩, by simp⟩
      show s1.costList[ci]? = some cost ∧ _
      exact ⟨by rw [hcl1]; exact hci, hrest⟩

end PS.Bee
