/- Bee search, order along every history: `__init__` establishes the order invariant, `merge_program`, `next`,
   `take` and whole histories keep it; the yielded costs never decrease. -/
import PS.Proofs.Enum.BeeOrder
import PS.Proofs.Enum.BeeSoundRun
namespace PS.Bee
open PS PS.G PS.Heapq

variable {S : Type} [DecidableEq S]
set_option linter.unusedSectionVars false
set_option linter.unusedSimpArgs false

/-- the rule table behaves as a dict -/
def DictOK (E : Env S) : Prop := ∀ nt rs, (nt, rs) ∈ E.G.rules → ∀ P rl, (P, rl) ∈ rs → ruleArgs E nt P = some rl.1

theorem dictOK_of_check (E : Env S) (h : dictOK E = true) : DictOK E := by
  intro nt rs hm P rl hp
  unfold dictOK at h
  have h1 := List.all_eq_true.mp h _ hm
  have h2 := List.all_eq_true.mp h1 _ hp
  simpa using h2

/-- the state-level part of the order invariant during `__init__` (cost list still empty) -/
structure OInit (E : Env S) (s : St S) : Prop where
  cl : s.costList = []
  heaps : HAll s
  q : QAll (QOk E 0) s
  d : DAll (DOk E []) s

theorem realCost_nil_nonneg (E : Env S) (hw : NNW E) (nt : NT S Unit) (P : Sym) (idx : List Nat) (c : Int)
    (h : realCost E [] nt P idx = some c) : 0 ≤ c ∧ ∃ args, ruleArgs E nt P = some args := by
  unfold realCost at h
  cases hwc : ruleCost E nt P with
  | none => simp [hwc] at h
  | some w =>
    cases ha : ruleArgs E nt P with
    | none => simp [hwc, ha] at h
    | some args =>
      simp only [hwc, ha] at h
      have := (realCostLoop_lower [] idx (by simp) _ _ _ _ h).1
      have := hw nt P w hwc
      exact ⟨by omega, args, rfl⟩

theorem initRules_order (E : Env S) (hw : NNW E) (nt : NT S Unit) (leaves : Bool) :
    ∀ (rs : List (Sym × (List (Ty × S) × Unit))) (s s' : St S), initRules E nt leaves rs s = some s' →
      (∀ P rl, (P, rl) ∈ rs → ruleArgs E nt P = some rl.1) → OInit E s →
      OInit E s' ∧ s'.bank = s.bank := by
  intro rs
  induction rs with
  | nil =>
    intro s s' h _ ho
    simp only [initRules, Option.some.injEq] at h; subst h; exact ⟨ho, rfl⟩
  | cons r rest ih =>
    intro s s' h hr ho
    obtain ⟨P, rl⟩ := r
    have hrest : ∀ P rl, (P, rl) ∈ rest → ruleArgs E nt P = some rl.1 := fun P rl hm => hr P rl (List.mem_cons_of_mem _ hm)
    have key : ∀ (idx : List Nat) (s1 : St S), idx.length ≤ rl.1.length → addCombination E s nt P idx none = some s1 →
        OInit E s1 ∧ s1.bank = s.bank := by
      intro idx s1 hlen ha
      obtain ⟨hq1, hd1⟩ := addCombination_all E (QOk E 0) (DOk E []) s s1 nt P idx none ha
        (fun c _ hc => by
          rw [ho.cl] at hc
          obtain ⟨h0, _⟩ := realCost_nil_nonneg E hw nt P idx c hc
          exact ⟨h0, h0, rl.1, hr P rl List.mem_cons_self, hlen⟩)
        (fun hn => ⟨by rw [ho.cl] at hn; exact hn, rl.1, hr P rl List.mem_cons_self, hlen⟩) ho.q ho.d
      have hqd := (addCombination_spec E s s1 nt P idx none ha).1
      exact ⟨⟨hqd.cl.trans ho.cl, addCombination_heaps E s s1 nt P idx none ha ho.heaps, hq1, hd1⟩, hqd.bank⟩
    simp only [initRules] at h
    split at h
    · split at h
      · split at h
        · simp at h
        · rename_i s1 ha
          obtain ⟨h1, hb1⟩ := key [] s1 (by simp) ha
          obtain ⟨h2, hb2⟩ := ih s1 s' h hrest h1
          exact ⟨h2, hb2.trans hb1⟩
      · exact ih s s' h hrest ho
    · split at h
      · split at h
        · simp at h
        · rename_i s1 ha
          obtain ⟨h1, hb1⟩ := key _ s1 (by simp) ha
          obtain ⟨h2, hb2⟩ := ih s1 s' h hrest h1
          exact ⟨h2, hb2.trans hb1⟩
      · exact ih s s' h hrest ho

theorem initAll_order (E : Env S) (hw : NNW E) (hdict : DictOK E) (leaves : Bool) :
    ∀ (tab : List (NT S Unit × AList Sym (List (Ty × S) × Unit))) (s s' : St S), initAll E leaves tab s = some s' →
      (∀ e ∈ tab, e ∈ E.G.rules) → OInit E s → OInit E s' := by
  intro tab
  induction tab with
  | nil => intro s s' h _ ho; simp only [initAll, Option.some.injEq] at h; subst h; exact ho
  | cons e rest ih =>
    intro s s' h hsub ho
    obtain ⟨nt, rs⟩ := e
    simp only [initAll] at h
    split at h
    · simp at h
    · rename_i s1 hr
      have h0 : OInit E (if leaves = true then { s with bank := AList.insert nt [] s.bank, queued := AList.insert nt [] s.queued } else s) := by
        by_cases hl : leaves = true
        · rw [if_pos hl]
          refine ⟨ho.cl, ?_, ?_, ho.d⟩
          · intro nt' l hm
            rcases mem_insert hm with hm | hm
            · cases hm; exact isHeap_nil _
            · exact ho.heaps _ _ hm
          · intro nt' l hm e he
            rcases mem_insert hm with hm | hm
            · cases hm; cases he
            · exact ho.q _ _ hm _ he
        · rw [if_neg hl]; exact ho
      obtain ⟨h1, _⟩ := initRules_order E hw nt leaves rs _ s1 hr (hdict nt rs (hsub _ List.mem_cons_self)) h0
      exact ih s1 s' h (fun e he => hsub e (List.mem_cons_of_mem _ he)) h1

/-- the fresh enumerator satisfies the order invariant with any bound `b ≤ 0` -/
theorem gord_new (E : Env S) (hw : NNW E) (hdict : DictOK E) (g0 : Gen S) (h : Gen.new E = some g0) (b : Int) (hb : b ≤ 0) :
    GOrd E g0 b := by
  unfold Gen.new at h
  split at h
  · simp at h
  · rename_i s1 h1
    split at h
    · simp at h
    · rename_i s2 h2
      simp only [Option.some.injEq] at h; subst h
      have o1 := initAll_order E hw hdict true E.G.rules {} s1 h1 (fun e he => he)
        ⟨rfl, (by intro nt l hm; cases hm), (by intro nt l hm; cases hm), (by intro nt l hm; cases hm)⟩
      have o2 := initAll_order E hw hdict false E.G.rules s1 s2 h2 (fun e he => he) o1
      simp only [GOrd, Phase.cost?]
      refine ⟨0, ⟨by rw [o2.cl]; simp, by rw [o2.cl]; simp, Int.le_refl _, by rw [o2.cl]; simp, o2.heaps, o2.q,
        by rw [o2.cl]; exact o2.d⟩, hb⟩

theorem gord_raise (E : Env S) (g : Gen S) (b c : Int) (h : GOrd E g b) (hc : g.phase.cost? = some c) :
    GOrd E g c ∧ b ≤ c := by
  simp only [GOrd, hc] at h ⊢
  exact ⟨⟨h.1, Int.le_refl _⟩, h.2⟩

theorem merge_order (E : Env S) (g : Gen S) (other : Prog) (ty : Ty) (b : Int) (h : GOrd E g b) :
    GOrd E (merge E g other ty) b := by
  unfold merge
  simp only [GOrd] at h ⊢
  cases hc : g.phase.cost? with
  | none =>
    simp only [hc] at h ⊢
    obtain ⟨low, hos, hb⟩ := h
    exact ⟨low, ost_of_eq E (s := g.st) rfl rfl rfl hos, hb⟩
  | some c =>
    simp only [hc] at h ⊢
    exact ⟨ost_of_eq E (s := g.st) rfl rfl rfl h.1, h.2⟩

/-- a yield happens inside a round and stays in it -/
theorem step_yield_phase (E : Env S) (g g' : Gen S) (p : Prog) (h : step E g = some (g', some p)) :
    g'.phase.cost? = g.phase.cost? := by
  unfold step at h
  split at h
  · simp at h
  · simp at h
  · dsimp only at h
    split at h
    · split at h
      · simp at h
      · simp at h
      · split at h <;> simp at h
    · simp at h
  · simp at h
  · simp only at h
    split at h <;> simp at h
  · simp only at h
    split at h
    · simp at h
    · split at h
      · split at h
        · simp at h
        · split at h
          · simp at h
          · split at h
            · simp at h
            · split at h <;> simp at h
      · simp at h
  · simp at h
  · rename_i succ cost nt rest maxi ci q ps hph
    cases hap : addProgram E g.st nt q ci with | mk s1 added =>
    simp only [hap] at h
    split at h
    · simp only [Option.some.injEq, Prod.mk.injEq] at h
      obtain ⟨rfl, _⟩ := h
      rw [hph]; rfl
    · simp at h

/-- `next` keeps both invariants; a yielded program costs at least the bound, and its cost becomes the bound -/
theorem next_order (E : Env S) (hw : NNW E) : ∀ (n : Nat) (g g' : Gen S) (out : Option Prog) (b : Int),
    next E n g = some (g', out) → GInv E g → GOrd E g b →
    GInv E g' ∧ (match out with
      | none => GOrd E g' b
      | some p => b ≤ pcost E p E.G.start ∧ GOrd E g' (pcost E p E.G.start)) := by
  intro n
  induction n with
  | zero => intro g g' out b h; simp [next] at h
  | succ n ih =>
    intro g g' out b h hi ho
    simp only [next] at h
    split at h
    · simp only [Option.some.injEq, Prod.mk.injEq] at h; obtain ⟨rfl, rfl⟩ := h
      exact ⟨hi, ho⟩
    · split at h
      · simp at h
      · rename_i g1 p hs
        simp only [Option.some.injEq, Prod.mk.injEq] at h; obtain ⟨rfl, rfl⟩ := h
        obtain ⟨h1, h2⟩ := step_sound E g g1 (some p) hs hi
        obtain ⟨_, hc, _, _⟩ := h2 p rfl
        have ho1 := step_order E hw g g1 (some p) b hs hi ho
        have hph := step_yield_phase E g g1 p hs
        obtain ⟨h3, h4⟩ := gord_raise E g1 b _ ho1 (hph.trans hc)
        exact ⟨h1, h4, h3⟩
      · rename_i g1 hs
        obtain ⟨h1, _⟩ := step_sound E g g1 none hs hi
        exact ih g1 g' out b h h1 (step_order E hw g g1 none b hs hi ho)

/-- sortedness of an accumulated output with a bound for what comes next -/
def SortedUpTo (E : Env S) (acc : List Prog) (b : Int) : Prop :=
  (acc.map fun p => pcost E p E.G.start).Pairwise (· ≤ ·) ∧ ∀ p ∈ acc, pcost E p E.G.start ≤ b

theorem sortedUpTo_snoc (E : Env S) (acc : List Prog) (b : Int) (p : Prog) (h : SortedUpTo E acc b)
    (hp : b ≤ pcost E p E.G.start) : SortedUpTo E (acc ++ [p]) (pcost E p E.G.start) := by
  obtain ⟨h1, h2⟩ := h
  constructor
  · rw [List.map_append, List.pairwise_append]
    refine ⟨h1, by simp, ?_⟩
    intro x hx y hy
    simp only [List.map_cons, List.map_nil, List.mem_singleton] at hy; subst hy
    obtain ⟨q, hq, rfl⟩ := List.mem_map.mp hx
    have := h2 q hq; omega
  · intro q hq
    rcases List.mem_append.mp hq with hq | hq
    · have := h2 q hq; omega
    · simp at hq; subst hq; exact Int.le_refl _

theorem take_order (E : Env S) (hw : NNW E) (fuel : Nat) : ∀ (k : Nat) (g g' : Gen S) (acc out : List Prog) (fin : Bool) (b : Int),
    take E fuel k g acc = some (g', out, fin) → GInv E g → GOrd E g b → SortedUpTo E acc b →
    GInv E g' ∧ ∃ b', GOrd E g' b' ∧ SortedUpTo E out b' := by
  intro k
  induction k with
  | zero =>
    intro g g' acc out fin b h hi ho hs
    simp only [take, Option.some.injEq, Prod.mk.injEq] at h; obtain ⟨rfl, rfl, rfl⟩ := h
    exact ⟨hi, b, ho, hs⟩
  | succ k ih =>
    intro g g' acc out fin b h hi ho hs
    simp only [take] at h
    split at h
    · simp at h
    · rename_i g1 hn
      simp only [Option.some.injEq, Prod.mk.injEq] at h; obtain ⟨rfl, rfl, rfl⟩ := h
      obtain ⟨h1, h2⟩ := next_order E hw fuel g g1 none b hn hi ho
      exact ⟨h1, b, h2, hs⟩
    · rename_i g1 p hn
      obtain ⟨h1, h2, h3⟩ := next_order E hw fuel g g1 (some p) b hn hi ho
      exact ih g1 g' (acc ++ [p]) out fin _ h h1 h3 (sortedUpTo_snoc E acc b p hs h2)

theorem runActs_order (E : Env S) (hw : NNW E) (fuel : Nat) : ∀ (acts : List Act) (g g' : Gen S) (acc out : List Prog) (b : Int),
    runActs E fuel acts g acc = some (g', out) → GInv E g → GOrd E g b → SortedUpTo E acc b →
    ∃ b', GOrd E g' b' ∧ SortedUpTo E out b' := by
  intro acts
  induction acts with
  | nil =>
    intro g g' acc out b h hi ho hs
    simp only [runActs, Option.some.injEq, Prod.mk.injEq] at h; obtain ⟨rfl, rfl⟩ := h
    exact ⟨b, ho, hs⟩
  | cons a rest ih =>
    intro g g' acc out b h hi ho hs
    cases a with
    | merge p ty =>
      simp only [runActs] at h
      exact ih _ _ _ _ b h (merge_sound E g p ty hi) (merge_order E g p ty b ho) hs
    | take k =>
      simp only [runActs] at h
      split at h
      · simp at h
      · rename_i g1 ys fin ht
        -- `take` starts from the empty accumulator: re-run the argument with the accumulated prefix
        have key : ∀ (k : Nat) (g g1 : Gen S) (a0 ys : List Prog) (fin : Bool), take E fuel k g a0 = some (g1, ys, fin) →
            ∀ pre, take E fuel k g (pre ++ a0) = some (g1, pre ++ ys, fin) := by
          intro k
          induction k with
          | zero =>
            intro g g1 a0 ys fin h pre
            simp only [take, Option.some.injEq, Prod.mk.injEq] at h ⊢
            obtain ⟨rfl, rfl, rfl⟩ := h; exact ⟨rfl, rfl, rfl⟩
          | succ k ihk =>
            intro g g1 a0 ys fin h pre
            simp only [take] at h ⊢
            split at h
            · simp at h
            · rename_i g2 hn
              simp only [Option.some.injEq, Prod.mk.injEq] at h ⊢
              obtain ⟨rfl, rfl, rfl⟩ := h; exact ⟨rfl, rfl, rfl⟩
            · rename_i g2 p hn
              have := ihk g2 g1 (a0 ++ [p]) ys fin h pre
              rw [List.append_assoc]; exact this
        have ht' := key k g g1 [] ys fin ht acc
        simp only [List.append_nil] at ht'
        obtain ⟨h1, b', h2, h3⟩ := take_order E hw fuel k g g1 acc (acc ++ ys) fin b ht' hi ho hs
        exact ih _ _ _ _ b' h h1 h2 h3

end PS.Bee
