/- `compute_priority` never fails on the programs heap search builds; every program added to
   `hash_table_program[S]` is in the heap, or was popped, or is below the threshold.
   Any priority type, threshold, filter. -/
import PS.Proofs.Enum.GTables
namespace PS.HG
open PS PS.G PS.HS
set_option linter.unusedSectionVars false
variable {S π : Type} [DecidableEq S]

def WTotal (E : Env S Unit π) : Prop := ∀ nt F rl, E.G.rule? nt F = some rl → (ruleW E nt F).isSome = true

theorem prioArgs_total (E : Env S Unit π) (c : AList (Prog × NT S Unit) π) :
    ∀ (ks : List Prog) (a : Ty × S) (as : List (Ty × S)) (acc : π),
      genList E.G ks (a :: as) = true →
      (∀ (j : Nat) kj aj, ks[j]? = some kj → (a :: as)[j]? = some aj → (AList.lookup (kj, argNT aj) c).isSome = true) →
      ∃ p, prioArgs E c ks as (argNT a) acc = some p
  | [], a, as, acc, hg, _ => by simp [genList] at hg
  | k :: rest, (t, s0), as, acc, hg, hc => by
    simp only [genList, Bool.and_eq_true] at hg
    unfold prioArgs
    have h0 := hc 0 k (t, s0) rfl rfl
    cases hl : AList.lookup (k, argNT (t, s0)) c with
    | none => rw [hl] at h0; cases h0
    | some pa =>
      simp only
      cases as with
      | nil =>
        have hr := genList_nil_right E.G rest hg.2
        subst hr
        split
        · exact ⟨_, rfl⟩
        · obtain ⟨r2, hr2, _, _⟩ := deriveAll_gen E.G k (argNT (t, s0)) [] hg.1
          rw [hr2]
          exact ⟨E.ops.combine acc pa, by simp [prioArgs]⟩
      | cons a' as' =>
        cases rest with
        | nil => simp [genList] at hg
        | cons k' rest' =>
          simp only [List.isEmpty_cons, Bool.false_and, Bool.false_eq_true, if_false]
          obtain ⟨r2, hr2, hadv1, hadv2⟩ := deriveAll_gen E.G k (argNT (t, s0)) (a' :: as') hg.1
          rw [hr2]
          simp only
          rw [hadv1, hadv2 a' as' rfl]
          exact prioArgs_total E c (k' :: rest') a' as' _ hg.2
            (fun j kj aj hk ha => hc (j + 1) kj aj (by simpa using hk) (by simpa using ha))

theorem computePrio_total (E : Env S Unit π) (hw : WTotal E) (c : AList (Prog × NT S Unit) π)
    (nt : NT S Unit) (F : Sym) (args : List Prog) (ra : List (Ty × S))
    (hr : E.G.rule? nt F = some (ra, ())) (hg : genList E.G args ra = true)
    (hc : ∀ (j : Nat) kj aj, args[j]? = some kj → ra[j]? = some aj → (AList.lookup (kj, argNT aj) c).isSome = true) :
    ∃ r, computePrio E c nt (.node F args) = some r := by
  unfold computePrio
  split
  · exact ⟨_, rfl⟩
  · have hws := hw nt F _ hr
    cases hwv : ruleW E nt F with
    | none => rw [hwv] at hws; cases hws
    | some w =>
      cases args with
      | nil => exact ⟨(AList.insert (Tree.node F [], nt) (E.ops.ofRule w) c, E.ops.ofRule w), by simp [hwv]⟩
      | cons a as =>
        cases ra with
        | nil => simp [genList] at hg
        | cons a0 as0 =>
          have hlen := genList_length' E.G _ _ hg
          obtain ⟨p, hp⟩ := prioArgs_total E c (a :: as) a0 as0 (E.ops.ofRule w) hg hc
          have hdw : deriveWith ([] : Info S) nt (a0 :: as0) () = (as0, argNT a0) := by
            obtain ⟨t0, s0⟩ := a0
            simp [deriveWith, argNT]
          refine ⟨(AList.insert (Tree.node F (a :: as), nt) p c, p), ?_⟩
          simp only [hwv, derive, hr, hdw]
          have : ¬ ((a0 :: as0).length ≠ (a :: as).length) := by rw [hlen]; simp
          simp only [this, if_false, hp]

/-- the memo table only grows, and holds the program just computed -/
theorem computePrio_cache (E : Env S Unit π) (c : AList (Prog × NT S Unit) π) (nt : NT S Unit) (prog : Prog)
    (c' : AList (Prog × NT S Unit) π) (v : π) (h : computePrio E c nt prog = some (c', v)) :
    (∀ key, (AList.lookup key c).isSome = true → (AList.lookup key c').isSome = true) ∧
    (AList.lookup (prog, nt) c').isSome = true := by
  have hins : ∀ (x : π), (∀ key, (AList.lookup key c).isSome = true →
      (AList.lookup key (AList.insert (prog, nt) x c)).isSome = true) ∧
      (AList.lookup (prog, nt) (AList.insert (prog, nt) x c)).isSome = true := by
    intro x
    refine ⟨?_, by rw [AList.lookup_insert_self]; rfl⟩
    intro key hk
    rw [AList.lookup_insert]
    split
    · rfl
    · exact hk
  unfold computePrio at h
  split at h
  · rename_i p hp
    simp only [Option.some.injEq, Prod.mk.injEq] at h
    obtain ⟨rfl, rfl⟩ := h
    split at hp
    · exact ⟨fun _ hk => hk, by rw [hp]; rfl⟩
    · cases hp
  · obtain ⟨F, kids⟩ := prog
    cases kids with
    | nil =>
      simp only at h
      split at h
      · simp at h
      · simp only [Option.some.injEq, Prod.mk.injEq] at h
        obtain ⟨rfl, _⟩ := h
        exact hins _
    | cons a as =>
      simp only at h
      split at h
      · split at h
        · simp at h
        · split at h
          · simp at h
          · simp only [Option.some.injEq, Prod.mk.injEq] at h
            obtain ⟨rfl, _⟩ := h
            exact hins _
      · simp at h

/-- `y` was popped for `nt`: recorded as a successor, or skipped because it is deleted -/
def Popped (E : Env S Unit π) (s : St S Unit π) (nt : NT S Unit) (y : Prog) : Prop :=
  (∃ k, AList.lookup k (s.succOf nt) = some y) ∨
  (y ∈ s.seenOf nt ∧ y ∉ s.heapProgs nt ∧ y ∈ s.deleted ∧ ∃ py, prioSpec E y nt = some py ∧ pushOK E.ops py = true)

structure CInv (E : Env S Unit π) (s : St S Unit π) : Prop where
  seen_cover : ∀ nt p, p ∈ s.seenOf nt → p ∈ s.heapProgs nt ∨ Popped E s nt p ∨
    ∃ pp, prioSpec E p nt = some pp ∧ pushOK E.ops pp = false
  heap_ok : ∀ nt e, e ∈ s.heapOf nt → pushOK E.ops e.1 = true
  heap_cached : ∀ nt e, e ∈ s.heapOf nt → (AList.lookup (e.2, nt) s.cache).isSome = true
  val_cached : ∀ nt k v, AList.lookup k (s.succOf nt) = some v → (AList.lookup (v, nt) s.cache).isSome = true
  args_cached : ∀ nt F args ra, Tree.node F args ∈ s.seenOf nt → E.G.rule? nt F = some (ra, ()) →
    ∀ (i : Nat) ai a, args[i]? = some ai → ra[i]? = some a → (AList.lookup (ai, argNT a) s.cache).isSome = true

theorem cinv_pop (E : Env S Unit π) (H0 : NT S Unit → List (π × Prog)) : PopStep E H0 (CInv E) := by
  intro s nt key e h' hf hP hp _ hkey hnone
  have hsucc := popTake_succOf s nt key e h'
  have hprogs := popTake_heapProgs s nt key e h'
  have hperm := pop_progs hp
  obtain ⟨hm, hsub⟩ := mem_of_pop _ _ _ _ hp
  have hstab := (hf.ninv.popTake nt key e h' hp hnone).2
  have hsubp : ∀ nt' p, p ∉ s.heapProgs nt' → p ∉ (s.popTake nt key e h').heapProgs nt' := by
    intro nt' p hnp hin
    rw [hprogs] at hin
    split at hin
    · rename_i heq; subst heq
      exact hnp (hperm.symm.subset (List.mem_cons_of_mem _ hin))
    · exact hnp hin
  refine ⟨?_, ?_, ?_, ?_, hP.args_cached⟩
  · intro nt' p hmem
    have hmem' : p ∈ s.seenOf nt' := hmem
    rcases hP.seen_cover nt' p hmem' with hh | hpop | hthr
    · rw [hprogs]
      by_cases hne : nt' = nt
      · subst hne
        simp only [if_true]
        rcases List.mem_cons.mp (hperm.subset hh) with rfl | hin
        · right; left; left
          exact ⟨key, by rw [hsucc]; simp only [if_true]; exact AList.lookup_insert_self _ _ _⟩
        · exact Or.inl hin
      · simp only [hne, if_false]; exact Or.inl hh
    · right; left
      rcases hpop with ⟨k, hk⟩ | ⟨h1, h2, h3, h4⟩
      · exact Or.inl ⟨k, hstab nt' k p hk⟩
      · exact Or.inr ⟨h1, hsubp nt' p h2, h3, h4⟩
    · exact Or.inr (Or.inr hthr)
  · intro nt' e' he'
    have he'' : e' ∈ (s.setHeap nt h').heapOf nt' := he'
    rw [St.heapOf_setHeap] at he''
    split at he''
    · rename_i heq; subst heq; exact hP.heap_ok _ e' (hsub e' he'')
    · exact hP.heap_ok nt' e' he''
  · intro nt' e' he'
    have he'' : e' ∈ (s.setHeap nt h').heapOf nt' := he'
    rw [St.heapOf_setHeap] at he''
    show (AList.lookup (e'.2, nt') s.cache).isSome = true
    split at he''
    · rename_i heq; subst heq; exact hP.heap_cached _ e' (hsub e' he'')
    · exact hP.heap_cached nt' e' he''
  · intro nt' k v hk
    show (AList.lookup (v, nt') s.cache).isSome = true
    rw [hsucc] at hk
    split at hk
    · rename_i heq; subst heq
      rw [AList.lookup_insert] at hk
      split at hk
      · cases hk; exact hP.heap_cached _ e hm
      · exact hP.val_cached _ k v hk
    · exact hP.val_cached nt' k v hk

theorem cinv_skip (E : Env S Unit π) (H0 : NT S Unit → List (π × Prog)) : SkipStep E H0 (CInv E) := by
  intro s nt e h' hf hP hp hd
  have hperm := pop_progs hp
  obtain ⟨hm, hsub⟩ := mem_of_pop _ _ _ _ hp
  have hnd : (e.2 :: h'.map (·.2)).Nodup := hperm.nodup_iff.mp (hf.ninv.heap_nodup nt)
  have hprogs : ∀ nt', (s.setHeap nt h').heapProgs nt' = if nt' = nt then h'.map (·.2) else s.heapProgs nt' := by
    intro nt'; unfold St.heapProgs; rw [St.heapOf_setHeap]; split <;> rfl
  have hsubp : ∀ nt' p, p ∉ s.heapProgs nt' → p ∉ (s.setHeap nt h').heapProgs nt' := by
    intro nt' p hnp hin
    rw [hprogs] at hin
    split at hin
    · rename_i heq; subst heq
      exact hnp (hperm.symm.subset (List.mem_cons_of_mem _ hin))
    · exact hnp hin
  refine ⟨?_, ?_, ?_, hP.val_cached, hP.args_cached⟩
  · intro nt' p hmem
    have hmem' : p ∈ s.seenOf nt' := hmem
    rcases hP.seen_cover nt' p hmem' with hh | hpop | hthr
    · rw [hprogs]
      by_cases hne : nt' = nt
      · subst hne
        simp only [if_true]
        rcases List.mem_cons.mp (hperm.subset hh) with rfl | hin
        · right; left; right
          refine ⟨hmem', ?_, by simpa using hd, e.1, hf.sinv.heap_prio _ e hm, hP.heap_ok _ e hm⟩
          rw [hprogs]; simp only [if_true]
          exact (List.nodup_cons.mp hnd).1
        · exact Or.inl hin
      · simp only [hne, if_false]; exact Or.inl hh
    · right; left
      rcases hpop with hv | ⟨h1, h2, h3, h4⟩
      · exact Or.inl hv
      · exact Or.inr ⟨h1, hsubp nt' p h2, h3, h4⟩
    · exact Or.inr (Or.inr hthr)
  · intro nt' e' he'
    rw [St.heapOf_setHeap] at he'
    split at he'
    · rename_i heq; subst heq; exact hP.heap_ok _ e' (hsub e' he')
    · exact hP.heap_ok nt' e' he'
  · intro nt' e' he'
    rw [St.heapOf_setHeap] at he'
    show (AList.lookup (e'.2, nt') s.cache).isSome = true
    split at he'
    · rename_i heq; subst heq; exact hP.heap_cached _ e' (hsub e' he')
    · exact hP.heap_cached nt' e' he'

theorem pushNew_eq (E : Env S Unit π) (s : St S Unit π) (nt : NT S Unit) (np : Prog)
    (c' : AList (Prog × NT S Unit) π) (v : π) (hcp : computePrio E s.cache nt np = some (c', v)) :
    pushNew E s nt np =
      if pushOK E.ops v = true then
        St.setHeap { s.addSeen nt np with cache := c' } nt (Heapq.push (ltE E.ops) (s.heapOf nt) (v, np))
      else { s.addSeen nt np with cache := c' } := by
  unfold pushNew
  have : computePrio E (s.addSeen nt np).cache nt np = some (c', v) := hcp
  simp only [this]
  rfl

/-- the cover invariant after a new program whose priority was computed -/
theorem CInv.pushNew_of_some {E : Env S Unit π} {s : St S Unit π} (hP : CInv E s) (hs : SInv E s) (nt : NT S Unit)
    (F : Sym) (args : List Prog) (ra : List (Ty × S)) (hr : E.G.rule? nt F = some (ra, ()))
    (hg : genList E.G args ra = true) (hnew : Tree.node F args ∉ s.seenOf nt)
    (hargs : ∀ (j : Nat) kj aj, args[j]? = some kj → ra[j]? = some aj → (AList.lookup (kj, argNT aj) s.cache).isSome = true)
    (c' : AList (Prog × NT S Unit) π) (v : π) (hcp : computePrio E s.cache nt (.node F args) = some (c', v)) :
    CInv E (pushNew E s nt (.node F args)) := by
  rw [pushNew_eq E s nt _ c' v hcp]
  obtain ⟨hmono, hnewc⟩ := computePrio_cache E s.cache nt _ c' v hcp
  have hgen : gen E.G (.node F args) nt = true := by rw [gen, hr]; exact hg
  have hv := (computePrio_spec E _ hs.cache_ok nt _ hgen c' v hcp).1
  have hpp := Heapq.push_perm (ltE E.ops) (s.heapOf nt) (v, Tree.node F args)
  have hnh : Tree.node F args ∉ s.heapProgs nt := by
    intro hin
    obtain ⟨e0, he0, he02⟩ := List.mem_map.mp hin
    apply hnew
    have := hs.heap_seen nt e0 he0
    rw [he02] at this
    exact this
  -- facts that do not depend on the threshold test
  have hseen : ∀ nt' p, p ∈ (s.addSeen nt (Tree.node F args)).seenOf nt' →
      (p ∈ s.seenOf nt') ∨ (nt' = nt ∧ p = Tree.node F args) := by
    intro nt' p hmem
    rw [St.seenOf_addSeen] at hmem
    split at hmem
    · rename_i heq
      rcases List.mem_append.mp hmem with h | h
      · subst heq; exact Or.inl h
      · simp only [List.mem_singleton] at h; exact Or.inr ⟨heq, h⟩
    · exact Or.inl hmem
  have hargsc : ∀ nt' F' args' ra', Tree.node F' args' ∈ (s.addSeen nt (Tree.node F args)).seenOf nt' →
      E.G.rule? nt' F' = some (ra', ()) →
      ∀ (i : Nat) ai a, args'[i]? = some ai → ra'[i]? = some a → (AList.lookup (ai, argNT a) c').isSome = true := by
    intro nt' F' args' ra' hmem hr' i ai a hai ha
    rcases hseen nt' _ hmem with hold | ⟨hnt, hp⟩
    · exact hmono _ (hP.args_cached nt' F' args' ra' hold hr' i ai a hai ha)
    · cases hp; subst hnt
      rw [hr] at hr'; cases hr'
      exact hmono _ (hargs i ai a hai ha)
  by_cases hok : pushOK E.ops v = true
  · simp only [hok, if_true]
    have hheap : ∀ nt', (St.setHeap { s.addSeen nt (Tree.node F args) with cache := c' } nt
        (Heapq.push (ltE E.ops) (s.heapOf nt) (v, Tree.node F args))).heapProgs nt' =
        if nt' = nt then (Heapq.push (ltE E.ops) (s.heapOf nt) (v, Tree.node F args)).map (·.2)
        else s.heapProgs nt' := by
      intro nt'
      unfold St.heapProgs
      rw [St.heapOf_setHeap]
      split <;> rfl
    refine ⟨?_, ?_, ?_, ?_, hargsc⟩
    · intro nt' p hmem
      rw [hheap]
      rcases hseen nt' p hmem with hold | ⟨hnt, hp⟩
      · rcases hP.seen_cover nt' p hold with hh | hpop | hthr
        · left
          split
          · rename_i heq; subst heq
            obtain ⟨e0, he0, he02⟩ := List.mem_map.mp hh
            exact List.mem_map.mpr ⟨e0, hpp.symm.subset (List.mem_cons_of_mem _ he0), he02⟩
          · exact hh
        · right; left
          rcases hpop with hv' | ⟨h1, h2, h3, h4⟩
          · exact Or.inl hv'
          · right
            refine ⟨hmem, ?_, h3, h4⟩
            rw [hheap]
            split
            · rename_i heq; subst heq
              intro hin
              obtain ⟨e0, he0, he02⟩ := List.mem_map.mp hin
              rcases List.mem_cons.mp (hpp.subset he0) with rfl | hm0
              · have : p = Tree.node F args := he02.symm
                rw [this] at h1
                exact hnew h1
              · exact h2 (List.mem_map.mpr ⟨e0, hm0, he02⟩)
            · exact h2
        · exact Or.inr (Or.inr hthr)
      · subst hnt; subst hp
        left
        simp only [if_true]
        exact List.mem_map.mpr ⟨(v, _), hpp.symm.subset (List.mem_cons_self), rfl⟩
    · intro nt' e' he'
      rw [St.heapOf_setHeap] at he'
      split at he'
      · rename_i heq; subst heq
        rcases List.mem_cons.mp (hpp.subset he') with rfl | hold
        · exact hok
        · exact hP.heap_ok _ e' hold
      · exact hP.heap_ok nt' e' he'
    · intro nt' e' he'
      show (AList.lookup (e'.2, nt') c').isSome = true
      rw [St.heapOf_setHeap] at he'
      split at he'
      · rename_i heq; subst heq
        rcases List.mem_cons.mp (hpp.subset he') with rfl | hold
        · exact hnewc
        · exact hmono _ (hP.heap_cached _ e' hold)
      · exact hmono _ (hP.heap_cached nt' e' he')
    · intro nt' k v' hk
      show (AList.lookup (v', nt') c').isSome = true
      exact hmono _ (hP.val_cached nt' k v' hk)
  · simp only [hok]
    have hok' : pushOK E.ops v = false := by simpa using hok
    refine ⟨?_, hP.heap_ok, fun nt' e' he' => hmono _ (hP.heap_cached nt' e' he'),
      fun nt' k v' hk => hmono _ (hP.val_cached nt' k v' hk), hargsc⟩
    intro nt' p hmem
    rcases hseen nt' p hmem with hold | ⟨hnt, hp⟩
    · rcases hP.seen_cover nt' p hold with hh | hpop | hthr
      · exact Or.inl hh
      · right; left
        rcases hpop with hv' | ⟨h1, h2, h3, h4⟩
        · exact Or.inl hv'
        · exact Or.inr ⟨hmem, h2, h3, h4⟩
      · exact Or.inr (Or.inr hthr)
    · subst hnt; subst hp
      exact Or.inr (Or.inr ⟨v, hv, hok'⟩)

theorem cinv_push (E : Env S Unit π) (H0 : NT S Unit → List (π × Prog)) (hw : WTotal E) : PushStep E H0 (CInv E) := by
  intro s1 F args nt i r ra a ai hf hP hr hgl ha hai hseen hne _ hq
  unfold pushStep
  cases r with
  | none => exact hP
  | some q =>
    simp only
    split
    · exact hP
    · rename_i hguard
      obtain ⟨hlk, hgq⟩ := hq q rfl
      have hgl' : genList E.G (args.set i q) ra = true := genList_set E.G args ra i q a hgl ha hgq
      have hnew : Tree.node F (args.set i q) ∉ s1.seenOf nt := by
        intro hm; apply hguard; simp [hm]
      have hargs : ∀ (j : Nat) kj aj, (args.set i q)[j]? = some kj → ra[j]? = some aj →
          (AList.lookup (kj, argNT aj) s1.cache).isSome = true := by
        intro j kj aj hkj haj
        by_cases hji : j = i
        · subst hji
          have hlen : j < args.length := (List.getElem?_eq_some_iff.mp hai).1
          rw [List.getElem?_set_self hlen] at hkj
          cases hkj
          rw [ha] at haj; cases haj
          exact hP.val_cached _ _ _ hlk
        · rw [List.getElem?_set_ne (Ne.symm hji)] at hkj
          exact hP.args_cached nt F args ra hseen hr j kj aj hkj haj
      obtain ⟨⟨c', v⟩, hcp⟩ := computePrio_total E hw s1.cache nt F (args.set i q) ra hr hgl' hargs
      exact hP.pushNew_of_some hf.sinv nt F _ ra hr hgl' hnew hargs c' v hcp

theorem big_cinv {E : Env S Unit π} {rank} {Good} (L : Law E rank Good) {H0 : NT S Unit → List (π × Prog)}
    (hw : WTotal E) {c : Call S Unit} {s s' : St S Unit π} {r : Option Prog} (hb : Big E c s s' r)
    (hf : Full E H0 s) (h1 : SPre E c) (h2 : NPre c s) (h3 : OPre E H0 c s) (hP : CInv E s) : CInv E s' :=
  big_prim L (CInv E) (cinv_pop E H0) (cinv_skip E H0) (cinv_push E H0 hw) hb hf h1 h2 h3 hP

end PS.HG
