/- Heap search on unambiguous, acyclic grammars, termination: `compute_priority` never fails on a
   program whose arguments are memoised; the memo table covers every program ever pushed. -/
import PS.Proofs.Enum.UCompleteRun
namespace PS.UHS
open PS PS.G
set_option linter.unusedSectionVars false
variable {U π : Type} [DecidableEq U]
variable {E : Env U π} {rank : UNT U → Nat} {Good : π → Prop}

/-- the memo table of `compute_priority` covers every program of `hash_table_program` -/
def CacheC (s : St U π) : Prop := ∀ nt p, p ∈ s.seenOf nt → ∃ pr, AList.lookup (p, nt) s.cache = some pr

/-- the memo table only grows -/
def CacheGrow (s s' : St U π) : Prop := ∀ k v, AList.lookup k s.cache = some v → ∃ v', AList.lookup k s'.cache = some v'

theorem CacheGrow.refl (s : St U π) : CacheGrow s s := fun _ v h => ⟨v, h⟩
theorem CacheGrow.trans {s s1 s2 : St U π} (h1 : CacheGrow s s1) (h2 : CacheGrow s1 s2) : CacheGrow s s2 := by
  intro k v h
  obtain ⟨v1, hv1⟩ := h1 k v h
  exact h2 k v1 hv1

/-- after `compute_priority(S, p)` the memo table has an entry for `(p, S)` and has lost none -/
theorem computePrio_cache (E : Env U π) {s s' : St U π} {nt : UNT U} {p : Prog} {pr : π}
    (h : computePrio E s nt p = some (s', pr)) :
    (∃ v, AList.lookup (p, nt) s'.cache = some v) ∧ CacheGrow s s' := by
  have hins : ∀ (c : AList (Prog × UNT U) π) (k : Prog × UNT U) (x : π) (k' : Prog × UNT U) (v : π),
      AList.lookup k' c = some v → ∃ v', AList.lookup k' (AList.insert k x c) = some v' := by
    intro c k x k' v hl
    rw [AList.lookup_insert]
    split
    · exact ⟨x, rfl⟩
    · exact ⟨v, hl⟩
  unfold computePrio at h
  split at h
  · rename_i p0 hp
    simp only [Option.some.injEq, Prod.mk.injEq] at h
    obtain ⟨rfl, rfl⟩ := h
    split at hp
    · exact ⟨⟨_, hp⟩, CacheGrow.refl _⟩
    · cases hp
  · obtain ⟨F, kids⟩ := p
    cases kids with
    | nil =>
      simp only at h
      split at h
      · simp only [Option.some.injEq, Prod.mk.injEq] at h
        obtain ⟨rfl, rfl⟩ := h
        exact ⟨⟨_, AList.lookup_insert_self _ _ _⟩, fun k v hl => hins _ _ _ k v hl⟩
      · simp at h
    | cons a as =>
      simp only at h
      split at h
      · simp at h
      · simp only [Option.some.injEq, Prod.mk.injEq] at h
        obtain ⟨rfl, rfl⟩ := h
        exact ⟨⟨_, AList.lookup_insert_self _ _ _⟩, fun k v hl => hins _ _ _ k v hl⟩

theorem argsPrio_total (ops : Prio π) (c : AList (Prog × UNT U) π) : ∀ (as : List Prog) (v : List (UNT U)) (acc : π),
    as.length ≤ v.length →
    (∀ (i : Nat) (ai : Prog) (si : UNT U), as[i]? = some ai → v[i]? = some si → ∃ pr, AList.lookup (ai, si) c = some pr) →
    ∃ pr, argsPrio ops c as v acc = some pr
  | [], _, acc, _, _ => ⟨acc, rfl⟩
  | _ :: _, [], _, h, _ => by simp at h
  | a :: as, si :: v, acc, h, hc => by
    obtain ⟨pa, hpa⟩ := hc 0 a si rfl rfl
    simp only [argsPrio, hpa]
    exact argsPrio_total ops c as v _ (by simpa using h) (fun i ai sj h1 h2 => hc (i + 1) ai sj h1 h2)

/-- **`compute_priority(S, program)` does not fail** on a derivable program recorded in `_keys` whose
    arguments are memoised at the non-terminals of its alternative -/
theorem computePrio_total (H : OHyp E rank Good) (s : St U π) (nt : UNT U) (F : Sym) (kids : List Prog) (v : List (UNT U))
    (hko : KeyOK E nt F kids v) (hkey : AList.lookup (nt, .node F kids) s.keys = some v)
    (hc : ∀ (i : Nat) (ai : Prog) (si : UNT U), kids[i]? = some ai → v[i]? = some si →
      ∃ pr, AList.lookup (ai, si) s.cache = some pr) :
    ∃ res, computePrio E s nt (.node F kids) = some res := by
  unfold computePrio
  split
  · exact ⟨_, rfl⟩
  · obtain ⟨w, hm⟩ := hko.1
    have hlen := derList_length E _ _ hko.2
    cases kids with
    | nil =>
      simp only
      have hv : v = [] := by cases v with | nil => rfl | cons _ _ => simp at hlen
      subst hv
      rw [H.leaf_one nt F w hm]
      exact ⟨_, rfl⟩
    | cons a as =>
      simp only
      have hargs := argsPrio_total E.ops s.cache (a :: as) v (E.ops.ofRule w) (Nat.le_of_eq hlen) hc
      have hfound : ∃ p, (if E.ops.firstFit = true then
            (altsOf E nt F).findSome? (fun vw => argsPrio E.ops s.cache (a :: as) vw.1 (E.ops.ofRule vw.2))
          else
            match AList.lookup (nt, Tree.node F (a :: as)) s.keys with
            | none => none
            | some v =>
              match (altsOf E nt F).find? (fun vw => vw.1 = v) with
              | none => none
              | some vw => argsPrio E.ops s.cache (a :: as) vw.1 (E.ops.ofRule vw.2)) = some p := by
        split
        · obtain ⟨pr, hpr⟩ := hargs
          cases hf : (altsOf E nt F).findSome? (fun vw => argsPrio E.ops s.cache (a :: as) vw.1 (E.ops.ofRule vw.2)) with
          | some p => exact ⟨p, rfl⟩
          | none =>
            rw [List.findSome?_eq_none_iff] at hf
            have := hf (v, w) hm
            simp only at this
            rw [hpr] at this; cases this
        · rw [hkey]
          simp only
          cases hfd : (altsOf E nt F).find? (fun vw => vw.1 = v) with
          | none =>
            rw [List.find?_eq_none] at hfd
            have := hfd (v, w) hm
            simp at this
          | some vw =>
            simp only
            obtain ⟨hm', hv'⟩ := find?_mem_fst _ _ _ hfd
            obtain ⟨vw1, vw2⟩ := vw
            simp only at hv'
            subst hv'
            exact argsPrio_total E.ops s.cache (a :: as) vw1 (E.ops.ofRule vw2) (Nat.le_of_eq hlen) hc
      obtain ⟨p, hp⟩ := hfound
      split
      · rename_i heq
        exact absurd (hp.symm.trans heq) (by simp)
      · exact ⟨_, rfl⟩

theorem CacheC.congr {s s' : St U π} (h : CacheC s) (h1 : ∀ nt, s'.seenOf nt = s.seenOf nt) (h2 : CacheGrow s s') :
    CacheC s' := by
  intro nt p hp
  rw [h1] at hp
  obtain ⟨pr, hpr⟩ := h nt p hp
  exact h2 _ _ hpr

/-- adding a program and memoising its priority -/
theorem CacheC.push {s s2 : St U π} (h : CacheC s) (nt : UNT U) (p : Prog)
    (hseen : ∀ nt' q, q ∈ s2.seenOf nt' → q ∈ s.seenOf nt' ∨ (nt' = nt ∧ q = p))
    (hg : CacheGrow s s2) (hnew : ∃ v, AList.lookup (p, nt) s2.cache = some v) : CacheC s2 := by
  intro nt' q hq
  rcases hseen nt' q hq with h1 | ⟨rfl, rfl⟩
  · obtain ⟨pr, hpr⟩ := h nt' q h1
    exact hg _ _ hpr
  · exact hnew

theorem pushBoth_seen_cache (E : Env U π) (hk : E.kway = true) (s : St U π) (nt : UNT U) (pr : π) (p : Prog) :
    (∀ nt', (pushBoth E s nt pr p).seenOf nt' = s.seenOf nt') ∧ (pushBoth E s nt pr p).cache = s.cache := by
  unfold pushBoth
  split
  · exact ⟨fun _ => rfl, rfl⟩
  · exact ⟨fun _ => rfl, rfl⟩

theorem CacheC.pushStep (E : Env U π) (hk : E.kway = true) {s s3 : St U π} {F args nt v i r} (h : CacheC s)
    (hp : pushStep E s F args nt v i r = some s3) : CacheC s3 ∧ CacheGrow s s3 := by
  unfold UHS.pushStep at hp
  cases r with
  | none => simp only [Option.some.injEq] at hp; subst hp; exact ⟨h, CacheGrow.refl _⟩
  | some q =>
    simp only at hp
    split at hp
    · simp only [Option.some.injEq] at hp; subst hp; exact ⟨h, CacheGrow.refl _⟩
    · split at hp
      · simp at hp
      · rename_i s2' pr hcp
        simp only [Option.some.injEq] at hp; subst hp
        obtain ⟨hnew, hg⟩ := computePrio_cache E hcp
        have hcs := computePrio_step E hcp
        obtain ⟨e1, e2⟩ := pushBoth_seen_cache E hk s2' nt pr (Tree.node F (args.set i q))
        have hg' : CacheGrow s (pushBoth E s2' nt pr (Tree.node F (args.set i q))) := by
          intro k v hl
          rw [e2]
          exact hg k v hl
        refine ⟨h.push nt (Tree.node F (args.set i q)) ?_ hg' (by rw [e2]; exact hnew), hg'⟩
        intro nt' q' hq'
        rw [e1, hcs.seenOf] at hq'
        exact (mem_seenOf_addSeen s nt nt' _ q').mp hq'

theorem CacheC.initPush (E : Env U π) (hk : E.kway = true) (nt : UNT U) : ∀ (l : List (Sym × List (UNT U))) {s s' : St U π},
    CacheC s → initPush E s nt l = some s' → CacheC s' ∧ CacheGrow s s'
  | [], s, s', h, hp => by simp only [UHS.initPush, Option.some.injEq] at hp; subst hp; exact ⟨h, CacheGrow.refl _⟩
  | (P, v) :: rest, s, s', h, hp => by
    simp only [UHS.initPush] at hp
    split at hp
    · simp at hp
    · rename_i prog hm
      split at hp
      · simp at hp
      · split at hp
        · simp at hp
        · rename_i s1 pr hcp
          split at hp
          · simp at hp
          · obtain ⟨hnew, hg⟩ := computePrio_cache E hcp
            have hcs := computePrio_step E hcp
            obtain ⟨e1, e2⟩ := pushBoth_seen_cache E hk s1 nt pr prog
            have hg' : CacheGrow s (pushBoth E s1 nt pr prog) := by
              intro k v hl
              rw [e2]
              exact hg k v hl
            have h2 : CacheC (pushBoth E s1 nt pr prog) := by
              refine h.push nt prog ?_ hg' (by rw [e2]; exact hnew)
              intro nt' q' hq'
              rw [e1, hcs.seenOf] at hq'
              exact (mem_seenOf_addSeen s nt nt' _ q').mp hq'
            obtain ⟨a, b⟩ := CacheC.initPush E hk nt rest h2 hp
            exact ⟨a, hg'.trans b⟩

/-- every call keeps the memo table covering `hash_table_program` -/
theorem big_cacheC (E : Env U π) (hk : E.kway = true) {c : Call U π} {s s' : St U π} {r : Res π}
    (hb : Big E c s s' r) : CacheC s → CacheC s' ∧ CacheGrow s s' := by
  induction hb with
  | query_direct h hb ih => exact ih
  | query_init h h0 hb ih0 ih =>
    intro hc
    obtain ⟨a1, a2⟩ := ih0 hc
    obtain ⟨b1, b2⟩ := ih a1
    exact ⟨b1, a2.trans b2⟩
  | lop_hit h => exact fun hc => ⟨hc, CacheGrow.refl _⟩
  | lop_miss h hb ih => exact ih
  | pop_empty h => exact fun hc => ⟨hc, CacheGrow.refl _⟩
  | @pop_deleted s s1 s' nt key e h' x r h hd ha hb iha ihb =>
    intro hc
    obtain ⟨a1, a2⟩ := iha (hc.congr (s' := s.setHeap nt h') (fun _ => rfl) (CacheGrow.refl _))
    obtain ⟨b1, b2⟩ := ihb a1
    exact ⟨b1, a2.trans b2⟩
  | @pop_take s s' nt key e h' x h hd ha iha =>
    intro hc
    exact iha (hc.congr (s' := ((s.setHeap nt h').setSucc nt key e.2).setPred nt e.2 key) (fun _ => rfl) (CacheGrow.refl _))
  | succ_leaf => exact fun hc => ⟨hc, CacheGrow.refl _⟩
  | succ_fun hk' hb ih => exact ih
  | loop_done => exact fun hc => ⟨hc, CacheGrow.refl _⟩
  | loop_step hai hsi hq hp hb ihq ihb =>
    intro hc
    obtain ⟨a1, a2⟩ := ihq hc
    obtain ⟨b1, b2⟩ := a1.pushStep E hk hp
    obtain ⟨c1, c2⟩ := ihb b1
    exact ⟨c1, (a2.trans b2).trans c2⟩
  | init_skip h => exact fun hc => ⟨hc, CacheGrow.refl _⟩
  | @init_run s s1 s3 s' nt rs b r h hrs hr hp hq ihr ihq =>
    intro hc
    obtain ⟨a1, a2⟩ := ihr (hc.congr (s' := { s with initS := s.initS ++ [nt] }) (fun _ => rfl) (CacheGrow.refl _))
    obtain ⟨b1, b2⟩ := CacheC.initPush E hk nt _
      (a1.congr (s' := { s1 with maxNT := AList.insert nt b.1 s1.maxNT }) (fun _ => rfl) (CacheGrow.refl _)) hp
    obtain ⟨c1, c2⟩ := ihq b1
    have a2' : CacheGrow s s1 := a2
    have b2' : CacheGrow s1 s3 := b2
    exact ⟨c1, (a2'.trans b2').trans c2⟩
  | rules_nil => exact fun hc => ⟨hc, CacheGrow.refl _⟩
  | rules_cons ha hb iha ihb =>
    intro hc
    obtain ⟨a1, a2⟩ := iha hc
    obtain ⟨b1, b2⟩ := ihb a1
    exact ⟨b1, a2.trans b2⟩
  | alts_nil => exact fun hc => ⟨hc, CacheGrow.refl _⟩
  | @alts_leaf s s1 s3 nt P v w rest best arguments pr ha hc' hv iha =>
    intro hc
    obtain ⟨a1, a2⟩ := iha hc
    obtain ⟨_, hg⟩ := computePrio_cache E hc'
    have hcs := computePrio_step E hc'
    have hg' : CacheGrow s1 { s3 with maxRule := AList.insert (nt, P, v) (.node P arguments) s3.maxRule } := hg
    exact ⟨a1.congr (fun nt' => by show s3.seenOf nt' = _; rw [hcs.seenOf]; rfl) hg', a2.trans hg'⟩
  | @alts_cons s s1 s3 s' nt P v w rest best arguments pr best' ha hc' hv hb iha ihb =>
    intro hc
    obtain ⟨a1, a2⟩ := iha hc
    obtain ⟨_, hg⟩ := computePrio_cache E hc'
    have hcs := computePrio_step E hc'
    have hg' : CacheGrow s1 { s3 with maxRule := AList.insert (nt, P, v) (.node P arguments) s3.maxRule } := hg
    obtain ⟨b1, b2⟩ := ihb (a1.congr (fun nt' => by show s3.seenOf nt' = _; rw [hcs.seenOf]; rfl) hg')
    exact ⟨b1, (a2.trans hg').trans b2⟩
  | args_nil => exact fun hc => ⟨hc, CacheGrow.refl _⟩
  | args_cons hi hm hb ihi ihb =>
    intro hc
    obtain ⟨a1, a2⟩ := ihi hc
    obtain ⟨b1, b2⟩ := ihb a1
    exact ⟨b1, a2.trans b2⟩

end PS.UHS
