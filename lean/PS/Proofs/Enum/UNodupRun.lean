/- Heap search on unambiguous grammars, no duplicates: the generator level.  The programs taken from
   one start symbol are the chain `succ[start]` from the sentinel (no repetition because `succ[start]`
   is injective); programs taken from two start symbols differ because the start languages are disjoint. -/
import PS.Proofs.Enum.UInitS
import PS.Proofs.Enum.USoundRun
namespace PS.UHS
open PS PS.G
set_option linter.unusedSectionVars false
variable {U π : Type} [DecidableEq U]

/-- `l` (most recent first) is the chain of a successor table from the sentinel `None` -/
def ChainR (t : AList (Option Prog) Prog) : List Prog → Prop
  | [] => True
  | x :: rest => AList.lookup rest.head? t = some x ∧ ChainR t rest

theorem chainR_split (t : AList (Option Prog) Prog) (x : Prog) (b : List Prog) :
    ∀ a : List Prog, ChainR t (a ++ x :: b) → AList.lookup b.head? t = some x
  | [], h => h.1
  | _ :: a, h => chainR_split t x b a h.2

theorem chainR_nodup (t : AList (Option Prog) Prog)
    (hinj : ∀ k k' v, AList.lookup k t = some v → AList.lookup k' t = some v → k = k') :
    ∀ l : List Prog, ChainR t l → l.Nodup
  | [], _ => List.nodup_nil
  | x :: rest, h => by
    have ih := chainR_nodup t hinj rest h.2
    refine List.nodup_cons.mpr ⟨?_, ih⟩
    intro hx
    obtain ⟨a, b, hab⟩ := List.append_of_mem hx
    have h2 : ChainR t (a ++ x :: b) := hab ▸ h.2
    have hk := hinj _ _ _ h.1 (chainR_split t x b a h2)
    rw [hab] at hk ih
    cases b with
    | nil => cases a <;> simp at hk
    | cons y b' =>
      cases a with
      | nil =>
        simp only [List.nil_append, List.head?_cons, Option.some.injEq] at hk
        subst hk
        simp at ih
      | cons a0 a' =>
        simp only [List.cons_append, List.head?_cons, Option.some.injEq] at hk
        subst hk
        simp at ih

theorem chainR_mono {t t' : AList (Option Prog) Prog}
    (h : ∀ k v, AList.lookup k t = some v → AList.lookup k t' = some v) : ∀ l, ChainR t l → ChainR t' l
  | [], _ => trivial
  | _ :: rest, hc => ⟨h _ _ hc.1, chainR_mono h rest hc.2⟩

/-- the programs taken from the start symbol `nt` so far, most recent first -/
def doneR (em : List (Prog × UNT U)) (nt : UNT U) : List Prog :=
  (em.filter (fun x => decide (x.2 = nt))).map (·.1)

theorem doneR_cons_self (em : List (Prog × UNT U)) (q : Prog) (nt : UNT U) :
    doneR ((q, nt) :: em) nt = q :: doneR em nt := by
  simp [doneR]
theorem doneR_cons_ne (em : List (Prog × UNT U)) (q : Prog) (nt nt' : UNT U) (h : nt ≠ nt') :
    doneR ((q, nt) :: em) nt' = doneR em nt' := by
  simp [doneR, h]
theorem mem_doneR (em : List (Prog × UNT U)) (q : Prog) (nt : UNT U) : q ∈ doneR em nt ↔ (q, nt) ∈ em := by
  simp only [doneR, List.mem_map, List.mem_filter, decide_eq_true_eq]
  constructor
  · rintro ⟨x, ⟨hx, rfl⟩, rfl⟩; exact hx
  · intro h; exact ⟨(q, nt), ⟨h, rfl⟩, rfl⟩

/-- the languages of two start symbols are disjoint -/
def SDisj (E : Env U π) : Prop :=
  ∀ p nt nt', Der E p nt → Der E p nt' → (∃ w, startW E nt = some w) → (∃ w, startW E nt' = some w) → nt = nt'

/-- hypotheses of the no-duplicate theorem -/
structure NHyp (E : Env U π) : Prop where
  ghyp : GHyp E
  disj : SDisj E
  starts_nodup : (E.G.starts.map (·.1)).Nodup
  /-- no filter, or `__add_successors__(p, S)` does not re-enter `query(S, ·)` (acyclic grammars) -/
  filt : (∀ p, E.filter p = true) ∨ NoReent E

/-- the invariant of the generator loop; `em` = the `(program, start)` pairs taken from the start heap,
    most recent first -/
structure GInv (E : Env U π) (s : St U π) (em : List (Prog × UNT U)) : Prop where
  ninv : NInv E s
  sinv : SInv E s
  chain : ∀ nt, ChainR (s.succOf nt) (doneR em nt)
  front : ∀ e, e ∈ s.startHeap → AList.lookup ((doneR em e.2.2).head?) (s.succOf e.2.2) = some e.2.1
  front_nodup : (s.startHeap.map (·.2.2)).Nodup
  em_nodup : (em.map (·.1)).Nodup
  em_der : ∀ x, x ∈ em → Der E x.1 x.2 ∧ ∃ w, startW E x.2 = some w
  inited : s.initS = [] → s.startHeap = [] ∧ em = []

/-- `__push_next_from_start__(start, program)` where `program` is the last program taken from `start` -/
theorem GInv.pushNext {E : Env U π} (H : NHyp E) {fuel : Nat} {s s' : St U π} {em : List (Prog × UNT U)}
    {nt : UNT U} {p : Option Prog} (h : GInv E s em) (hnt : nt ∉ s.startHeap.map (·.2.2))
    (hkey : p = (doneR em nt).head?)
    (hp : pushNext E fuel s nt p = some s') :
    GInv E s' em ∧ (∀ e, e ∈ s'.startHeap → e ∈ s.startHeap ∨ e.2.2 = nt) := by
  have hk := H.ghyp.kway
  unfold UHS.pushNext at hp
  split at hp
  · simp at hp
  · rename_i s1 hq
    simp only [Option.some.injEq] at hp; subst hp
    have hb := big_of_query E hq
    obtain ⟨n1, st, _⟩ := big_nodup E H.ghyp hb h.sinv trivial h.ninv trivial
    have s1' := (big_sound E H.ghyp hb h.sinv trivial).1
    have hsh := big_startHeap E hk hb
    refine ⟨⟨n1, s1', fun nt' => chainR_mono (st nt') _ (h.chain nt'), ?_, hsh ▸ h.front_nodup, h.em_nodup, h.em_der,
      ?_⟩, fun e he => Or.inl (hsh ▸ he)⟩
    · intro e he
      rw [hsh] at he
      exact st _ _ _ (h.front e he)
    · intro h0
      exact absurd (query_initS E hk hb) (by rw [h0]; simp)
  · rename_i s1 q hq
    have hb := big_of_query E hq
    obtain ⟨n1, st, npost⟩ := big_nodup E H.ghyp hb h.sinv trivial h.ninv trivial
    obtain ⟨s1', spost⟩ := big_sound E H.ghyp hb h.sinv trivial
    have hsh : s1.startHeap = s.startHeap := big_startHeap E hk hb
    have hd : Der E q nt := spost q rfl
    have hsucc : AList.lookup p (s1.succOf nt) = some q := npost q rfl
    split at hp
    · rename_i s2 pr w hcp hw
      simp only [Option.some.injEq] at hp; subst hp
      have hcs := computePrio_step E hcp
      obtain ⟨hpr, s2', _⟩ := s1'.computePrio H.ghyp nt q hd s2 pr hcp
      have n2 : NInv E s2 := n1.cacheStep hcs
      have hsh2 : s2.startHeap = s.startHeap := by
        obtain ⟨c, rfl⟩ := hcs; exact hsh
      have hperm := Heapq.push_perm (ltS E.ops) s2.startHeap (E.ops.adjust pr w, q, nt)
      have hmem : ∀ e, e ∈ Heapq.push (ltS E.ops) s2.startHeap (E.ops.adjust pr w, q, nt) →
          e = (E.ops.adjust pr w, q, nt) ∨ e ∈ s.startHeap := by
        intro e he
        rcases List.mem_cons.mp (hperm.subset he) with h1 | h1
        · exact Or.inl h1
        · exact Or.inr (hsh2 ▸ h1)
      refine ⟨⟨n2.congr (fun _ => rfl) (fun _ => rfl) (fun _ => rfl) rfl, ?_, ?_, ?_, ?_, h.em_nodup, h.em_der, ?_⟩, ?_⟩
      · refine ⟨s2'.cache_ok, s2'.heap_prio, s2'.heap_seen, s2'.seen_der, s2'.succ_seen, s2'.keys_ok, s2'.maxNT_ok,
          s2'.maxRule_ok, ?_⟩
        intro e he
        rcases List.mem_cons.mp (hperm.subset he) with rfl | hm
        · exact ⟨w, pr, hw, hpr, rfl⟩
        · exact s2'.start_ok e hm
      · intro nt'
        show ChainR (s2.succOf nt') _
        rw [hcs.succOf]
        exact chainR_mono (st nt') _ (h.chain nt')
      · intro e he
        show AList.lookup _ (s2.succOf e.2.2) = _
        rw [hcs.succOf]
        rcases hmem e he with rfl | hm
        · rw [← hkey]; exact hsucc
        · exact st _ _ _ (h.front e hm)
      · show (List.map _ (Heapq.push (ltS E.ops) s2.startHeap (E.ops.adjust pr w, q, nt))).Nodup
        have := hperm.map (·.2.2)
        rw [this.nodup_iff, hsh2]
        exact List.nodup_cons.mpr ⟨hnt, h.front_nodup⟩
      · intro h0
        have h1 : nt ∈ s1.initS := query_initS E hk hb
        have h2 : s2.initS = s1.initS := by obtain ⟨c, hc⟩ := hcs; rw [hc]
        have h0' : s2.initS = [] := h0
        rw [← h2, h0'] at h1
        cases h1
      · intro e he
        rcases hmem e he with rfl | hm
        · exact Or.inr rfl
        · exact Or.inl hm
    · simp at hp

theorem GInv.pushNexts {E : Env U π} (H : NHyp E) {fuel : Nat} : ∀ (l : List (UNT U)) {s s' : St U π},
    GInv E s [] → l.Nodup → (∀ nt, nt ∈ s.startHeap.map (·.2.2) → nt ∉ l) →
    pushNexts E fuel l s = some s' → GInv E s' []
  | [], s, s', h, _, _, hp => by simp only [UHS.pushNexts, Option.some.injEq] at hp; subst hp; exact h
  | nt :: rest, s, s', h, hnd, hdisj, hp => by
    simp only [UHS.pushNexts] at hp
    split at hp
    · simp at hp
    · rename_i s1 h1
      obtain ⟨g1, hsub⟩ := h.pushNext H (fun hm => hdisj nt hm List.mem_cons_self) (by simp [doneR]) h1
      refine GInv.pushNexts H rest g1 (List.nodup_cons.mp hnd).2 ?_ hp
      intro nt' hm
      obtain ⟨e, he, rfl⟩ := List.mem_map.mp hm
      rcases hsub e he with ho | hn
      · intro hr
        exact hdisj _ (List.mem_map.mpr ⟨e, ho, rfl⟩) (List.mem_cons_of_mem _ hr)
      · rw [hn]; exact (List.nodup_cons.mp hnd).1

/-- the `while len(self._start_heap) > 0` loop of `start_query` -/
theorem GInv.kwayLoop {E : Env U π} (H : NHyp E) {fuel : Nat} : ∀ (k : Nat) {s s' : St U π} {em : List (Prog × UNT U)}
    {r : Option Prog}, GInv E s em → kwayLoop E fuel k s = some (s', r) →
    ∃ em', GInv E s' em' ∧ (∀ x, x ∈ em → x ∈ em') ∧
      ∀ p, r = some p → p ∈ em'.map (·.1) ∧ p ∉ em.map (·.1) ∧ p ∉ s'.deleted
  | 0, s, s', em, r, _, hp => by simp [UHS.kwayLoop] at hp
  | k + 1, s, s', em, r, h, hp => by
    simp only [UHS.kwayLoop] at hp
    split at hp
    · simp only [Option.some.injEq, Prod.mk.injEq] at hp
      obtain ⟨rfl, rfl⟩ := hp
      exact ⟨em, h, fun _ hx => hx, by intro p hp; cases hp⟩
    · rename_i e h' hpop
      obtain ⟨pa, q, nt⟩ := e
      have hperm := Heapq.pop_perm _ _ _ _ hpop
      have hm : (pa, q, nt) ∈ s.startHeap := hperm.symm.subset List.mem_cons_self
      have hsub : ∀ e, e ∈ h' → e ∈ s.startHeap := fun e he => hperm.symm.subset (List.mem_cons_of_mem _ he)
      have hnd : (nt :: h'.map (·.2.2)).Nodup := by
        have := (hperm.map (·.2.2)).nodup_iff.mp h.front_nodup
        simpa using this
      obtain ⟨w, pr, hw, hpr, _⟩ := h.sinv.start_ok _ hm
      have hfront : AList.lookup ((doneR em nt).head?) (s.succOf nt) = some q := h.front _ hm
      have hchain : ChainR (s.succOf nt) (q :: doneR em nt) := ⟨hfront, h.chain nt⟩
      have hqnew : q ∉ em.map (·.1) := by
        intro hq
        obtain ⟨x, hx, hxq⟩ := List.mem_map.mp hq
        obtain ⟨x1, x2⟩ := x
        simp only at hxq
        subst hxq
        obtain ⟨hxd, hxs⟩ := h.em_der _ hx
        have : x2 = nt := H.disj x1 x2 nt hxd ⟨pr, hpr⟩ hxs ⟨w, hw⟩
        subst this
        have hnd' := chainR_nodup _ (h.ninv.succ_inj x2) _ hchain
        exact (List.nodup_cons.mp hnd').1 ((mem_doneR em x1 x2).mpr hx)
      have h0 : GInv E { s with startHeap := h' } ((q, nt) :: em) := by
        refine ⟨h.ninv.congr (fun _ => rfl) (fun _ => rfl) (fun _ => rfl) rfl, ?_, ?_, ?_, ?_, ?_, ?_, ?_⟩
        · exact ⟨h.sinv.cache_ok, h.sinv.heap_prio, h.sinv.heap_seen, h.sinv.seen_der, h.sinv.succ_seen,
            h.sinv.keys_ok, h.sinv.maxNT_ok, h.sinv.maxRule_ok, fun e he => h.sinv.start_ok e (hsub e he)⟩
        · intro nt'
          by_cases hn : nt = nt'
          · subst hn; rw [doneR_cons_self]; exact hchain
          · rw [doneR_cons_ne _ _ _ _ hn]; exact h.chain nt'
        · intro e he
          have hne : nt ≠ e.2.2 := by
            intro heq
            exact (List.nodup_cons.mp hnd).1 (heq ▸ List.mem_map.mpr ⟨e, he, rfl⟩)
          rw [doneR_cons_ne _ _ _ _ hne]
          exact h.front e (hsub e he)
        · exact (List.nodup_cons.mp hnd).2
        · simp only [List.map_cons]
          exact List.nodup_cons.mpr ⟨hqnew, h.em_nodup⟩
        · intro x hx
          rcases List.mem_cons.mp hx with rfl | hx
          · exact ⟨⟨pr, hpr⟩, w, hw⟩
          · exact h.em_der x hx
        · intro hi0
          have := (h.inited hi0).1
          rw [this] at hm
          cases hm
      split at hp
      · simp at hp
      · rename_i s1 hpn
        obtain ⟨g1, _⟩ := h0.pushNext H (fun hm' => (List.nodup_cons.mp hnd).1 hm')
          (by rw [doneR_cons_self]; rfl) hpn
        split at hp
        · obtain ⟨em', g', hsup, hres⟩ := GInv.kwayLoop H k g1 hp
          refine ⟨em', g', fun x hx => hsup x (List.mem_cons_of_mem _ hx), ?_⟩
          intro p hp'
          obtain ⟨a, b, c⟩ := hres p hp'
          exact ⟨a, fun hb => b (by simp only [List.map_cons]; exact List.mem_cons_of_mem _ hb), c⟩
        · rename_i hdel
          simp only [Option.some.injEq, Prod.mk.injEq] at hp
          obtain ⟨rfl, rfl⟩ := hp
          refine ⟨(q, nt) :: em, g1, fun x hx => List.mem_cons_of_mem _ hx, ?_⟩
          intro p hp'
          cases hp'
          refine ⟨by simp, hqnew, ?_⟩
          intro hd
          apply hdel
          simp [hd]

theorem ginv_empty (E : Env U π) : GInv E (St.empty E.G) [] := by
  have hnil : ∀ (l : AList (UNT U) (AList Sym (List (List (UNT U) × Rat)))) (nt : UNT U) {β : Type},
      (AList.lookup nt (l.map (fun r => (r.1, ([] : List β))))).getD [] = [] := by
    intro l nt β
    induction l with
    | nil => rfl
    | cons a l ih =>
      simp only [List.map_cons, AList.lookup]
      split
      · rfl
      · exact ih
  have hheap : ∀ nt, (St.empty E.G : St U π).heapOf nt = [] := fun nt => hnil _ nt
  have hsucc : ∀ nt, (St.empty E.G : St U π).succOf nt = [] := fun nt => hnil _ nt
  refine ⟨⟨?_, ?_, ?_, ?_, ?_, Or.inl rfl⟩, sinv_empty E, fun _ => trivial, ?_, ?_, List.nodup_nil, ?_, ?_⟩
  · intro nt; unfold St.heapProgs; rw [hheap]; exact List.nodup_nil
  · intro nt p hp; unfold St.heapProgs at hp; rw [hheap] at hp; cases hp
  · intro nt k v hk; rw [hsucc] at hk; cases hk
  · intro nt k v hk; rw [hsucc] at hk; cases hk
  · intro nt k k' v hk; rw [hsucc] at hk; cases hk
  · intro e he; cases he
  · exact List.nodup_nil
  · intro x hx; cases hx
  · intro _; exact ⟨rfl, rfl⟩

theorem GInv.startQuery {E : Env U π} (H : NHyp E) {fuel : Nat} {s s' : St U π} {em : List (Prog × UNT U)}
    {r : Option Prog} (h : GInv E s em) (hp : startQuery E fuel s = some (s', r)) :
    ∃ em', GInv E s' em' ∧ (∀ x, x ∈ em → x ∈ em') ∧
      ∀ p, r = some p → p ∈ em'.map (·.1) ∧ p ∉ em.map (·.1) ∧ p ∉ s'.deleted := by
  unfold UHS.startQuery at hp
  simp only [H.ghyp.kway, if_true] at hp
  split at hp
  · simp at hp
  · rename_i s1 h1
    split at h1
    · rename_i hi0
      have hi0' : s.initS = [] := by simpa using hi0
      obtain ⟨hs0, he0⟩ := h.inited hi0'
      subst he0
      have g1 := h.pushNexts H _ H.starts_nodup (by rw [hs0]; intro nt hm; cases hm) h1
      exact g1.kwayLoop H fuel hp
    · simp only [Option.some.injEq] at h1; subst h1
      exact h.kwayLoop H fuel hp

theorem GInv.addDeleted {E : Env U π} {s : St U π} {em : List (Prog × UNT U)} (h : GInv E s em) (p : Prog)
    (hre : NoReent E) : GInv E (s.addDeleted p) em := by
  unfold St.addDeleted
  split
  · exact h
  · exact ⟨⟨h.ninv.heap_nodup, h.ninv.heap_seen, h.ninv.succ_seen, h.ninv.succ_out, h.ninv.succ_inj, Or.inr hre⟩,
      ⟨h.sinv.cache_ok, h.sinv.heap_prio, h.sinv.heap_seen, h.sinv.seen_der, h.sinv.succ_seen, h.sinv.keys_ok,
        h.sinv.maxNT_ok, h.sinv.maxRule_ok, h.sinv.start_ok⟩,
      h.chain, h.front, h.front_nodup, h.em_nodup, h.em_der, h.inited⟩

theorem GInv.next {E : Env U π} (H : NHyp E) {fuel : Nat} : ∀ (k : Nat) {s s' : St U π} {em : List (Prog × UNT U)}
    {r : Option Prog}, GInv E s em → next E fuel k s = some (s', r) →
    ∃ em', GInv E s' em' ∧ (∀ x, x ∈ em → x ∈ em') ∧
      ∀ p, r = some p → p ∈ em'.map (·.1) ∧ p ∉ em.map (·.1) ∧ E.filter p = true
  | 0, s, s', em, r, _, hp => by simp [UHS.next] at hp
  | k + 1, s, s', em, r, h, hp => by
    simp only [UHS.next] at hp
    split at hp
    · simp at hp
    · rename_i s1 hq
      simp only [Option.some.injEq, Prod.mk.injEq] at hp
      obtain ⟨rfl, rfl⟩ := hp
      obtain ⟨em', g, hsup, _⟩ := h.startQuery H hq
      exact ⟨em', g, hsup, by intro p hp; cases hp⟩
    · rename_i s1 p hq
      obtain ⟨em', g, hsup, hres⟩ := h.startQuery H hq
      split at hp
      · rename_i hf
        simp only [Option.some.injEq, Prod.mk.injEq] at hp
        obtain ⟨rfl, rfl⟩ := hp
        refine ⟨em', g, hsup, ?_⟩
        intro q hq'
        cases hq'
        exact ⟨(hres p rfl).1, (hres p rfl).2.1, hf⟩
      · rename_i hf
        have hre : NoReent E := by
          rcases H.filt with hall | hre
          · exact absurd (hall p) hf
          · exact hre
        obtain ⟨em2, g2, hsup2, hres2⟩ := GInv.next H k (g.addDeleted p hre) hp
        refine ⟨em2, g2, fun x hx => hsup2 x (hsup x hx), ?_⟩
        intro q hq'
        obtain ⟨a, b, c⟩ := hres2 q hq'
        refine ⟨a, fun hb => b ?_, c⟩
        obtain ⟨x, hx, hxq⟩ := List.mem_map.mp hb
        exact List.mem_map.mpr ⟨x, hsup x hx, hxq⟩

theorem GInv.take {E : Env U π} (H : NHyp E) {fuel : Nat} : ∀ (k : Nat) {s s' : St U π} {em : List (Prog × UNT U)}
    {acc out : List Prog} {b : Bool}, GInv E s em → acc.Nodup → (∀ p, p ∈ acc → p ∈ em.map (·.1)) →
    (∀ p, p ∈ acc → E.filter p = true) →
    take E fuel k s acc = some (s', out, b) →
    out.Nodup ∧ (∀ p, p ∈ out → E.filter p = true) ∧ ∃ em', GInv E s' em' ∧ ∀ p, p ∈ out → p ∈ em'.map (·.1)
  | 0, s, s', em, acc, out, b, h, hnd, hsub, hf, hp => by
    simp only [UHS.take, Option.some.injEq, Prod.mk.injEq] at hp
    obtain ⟨rfl, rfl, _⟩ := hp
    exact ⟨hnd, hf, em, h, hsub⟩
  | k + 1, s, s', em, acc, out, b, h, hnd, hsub, hf, hp => by
    simp only [UHS.take] at hp
    split at hp
    · simp at hp
    · rename_i s1 hn
      simp only [Option.some.injEq, Prod.mk.injEq] at hp
      obtain ⟨rfl, rfl, _⟩ := hp
      obtain ⟨em', g, hsup, _⟩ := h.next H fuel hn
      refine ⟨hnd, hf, em', g, ?_⟩
      intro p hp
      obtain ⟨x, hx, hxp⟩ := List.mem_map.mp (hsub p hp)
      exact List.mem_map.mpr ⟨x, hsup x hx, hxp⟩
    · rename_i s1 p hn
      obtain ⟨em', g, hsup, hres⟩ := h.next H fuel hn
      obtain ⟨a, b', c⟩ := hres p rfl
      refine GInv.take H k g ?_ ?_ ?_ hp
      · rw [List.nodup_append]
        refine ⟨hnd, by simp, ?_⟩
        intro x hx y hy
        simp only [List.mem_singleton] at hy
        subst hy
        intro hxy
        subst hxy
        exact b' (hsub x hx)
      · intro q hq
        rcases List.mem_append.mp hq with hq | hq
        · obtain ⟨x, hx, hxp⟩ := List.mem_map.mp (hsub q hq)
          exact List.mem_map.mpr ⟨x, hsup x hx, hxp⟩
        · simp only [List.mem_singleton] at hq; subst hq; exact a
      · intro q hq
        rcases List.mem_append.mp hq with hq | hq
        · exact hf q hq
        · simp only [List.mem_singleton] at hq; subst hq; exact c

/-- **no duplicates, every prefix, every fuel**; with a filter too -/
theorem take_nodup (E : Env U π) (H : NHyp E) (fuel k : Nat) (s' : St U π) (out : List Prog) (b : Bool)
    (h : take E fuel k (St.empty E.G) [] = some (s', out, b)) :
    out.Nodup ∧ ∀ p, p ∈ out → E.filter p = true := by
  obtain ⟨a, b, _⟩ := (ginv_empty E).take H k List.nodup_nil (by intro p hp; cases hp) (by intro p hp; cases hp) h
  exact ⟨a, b⟩

end PS.UHS
