/- Correctness of the heapq port (PS/Model/Enum/Heapq.lean): push and pop keep the multiset,
   the root of an array satisfying the heap invariant is a minimum. -/
import PS.Model.Enum.Heapq
namespace PS.Heapq
variable {α : Type}

theorem swap_perm (h : List α) (i j : Nat) : (swap h i j).Perm h := by
  unfold swap
  cases hi : h[i]? with
  | none => exact List.Perm.refl _
  | some a =>
    cases hj : h[j]? with
    | none => exact List.Perm.refl _
    | some b =>
      obtain ⟨hi', rfl⟩ := List.getElem?_eq_some_iff.mp hi
      obtain ⟨hj', rfl⟩ := List.getElem?_eq_some_iff.mp hj
      exact List.set_set_perm hi' hj'

theorem swap_length (h : List α) (i j : Nat) : (swap h i j).length = h.length :=
  (swap_perm h i j).length_eq

theorem siftdown_perm (lt : α → α → Bool) (fuel : Nat) (h : List α) (pos : Nat) :
    (siftdown lt fuel h pos).Perm h := by
  induction fuel generalizing h pos with
  | zero => exact List.Perm.refl _
  | succ n ih =>
    unfold siftdown
    by_cases hp : pos = 0
    · simp [hp]
    · simp only [hp, if_false]
      split
      · exact (ih _ _).trans (swap_perm _ _ _)
      · exact List.Perm.refl _

theorem bubble_perm (lt : α → α → Bool) (fuel : Nat) (h : List α) (pos : Nat) :
    (bubble lt fuel h pos).1.Perm h := by
  induction fuel generalizing h pos with
  | zero => exact List.Perm.refl _
  | succ n ih =>
    unfold bubble
    split
    · exact (ih _ _).trans (swap_perm _ _ _)
    · exact List.Perm.refl _

theorem siftup_perm (lt : α → α → Bool) (h : List α) : (siftup lt h).Perm h := by
  unfold siftup
  exact (siftdown_perm _ _ _ _).trans (bubble_perm _ _ _ _)

/-- `heappush` keeps the multiset: the new heap is a permutation of `x :: h` -/
theorem push_perm (lt : α → α → Bool) (h : List α) (x : α) : (push lt h x).Perm (x :: h) := by
  unfold push
  exact (siftdown_perm _ _ _ _).trans (List.perm_append_comm (l₁ := h) (l₂ := [x]))

/-- `heappop` keeps the multiset: the old heap is a permutation of the popped element and the
    new heap -/
theorem pop_perm (lt : α → α → Bool) (h : List α) (x : α) (h' : List α)
    (hp : pop lt h = some (x, h')) : h.Perm (x :: h') := by
  unfold pop at hp
  cases hl : h.getLast? with
  | none => simp [hl] at hp
  | some last =>
    have hdl : h = h.dropLast ++ [last] := by
      have hne : h ≠ [] := by intro e; simp [e] at hl
      have h1 := List.dropLast_concat_getLast hne
      have h2 : h.getLast hne = last := by
        have := List.getLast?_eq_some_getLast hne
        rw [hl] at this; exact (Option.some.inj this).symm
      rw [h2] at h1; exact h1.symm
    simp only [hl] at hp
    cases hd : h.dropLast with
    | nil =>
      simp only [hd] at hp
      cases hp
      rw [hdl, hd]; exact List.Perm.refl _
    | cons top rest =>
      simp only [hd, Option.some.injEq, Prod.mk.injEq] at hp
      obtain ⟨rfl, rfl⟩ := hp
      rw [hdl, hd]
      have h1 : (top :: rest ++ [last]).Perm (top :: last :: rest) :=
        List.Perm.cons _ (List.perm_append_comm (l₁ := rest) (l₂ := [last]))
      exact h1.trans (List.Perm.cons _ (siftup_perm lt (last :: rest)).symm)

theorem pop_none_iff (lt : α → α → Bool) (h : List α) : pop lt h = none ↔ h = [] := by
  unfold pop
  cases hl : h.getLast? with
  | none => simp [List.getLast?_eq_none_iff.mp hl]
  | some last =>
    have : h ≠ [] := by intro e; simp [e] at hl
    cases hd : h.dropLast <;> simp [this]

/-- the heap invariant of `heapq`: no element is smaller than its parent -/
def IsHeap (lt : α → α → Bool) (h : List α) : Prop :=
  ∀ i (hi : i < h.length), 0 < i → lt h[i] (h[(i - 1) / 2]'(by omega)) = false

/-- on an array with the heap invariant, the root is a minimum (for an order whose `¬ <` is
    transitive: floats without NaN, bucket tuples) -/
theorem root_min (lt : α → α → Bool)
    (htrans : ∀ a b c, lt b a = false → lt c b = false → lt c a = false)
    (hrefl : ∀ a, lt a a = false)
    (h : List α) (hh : IsHeap lt h) (i : Nat) (hi : i < h.length) :
    lt h[i] (h[0]'(by omega)) = false := by
  induction i using Nat.strongRecOn with
  | _ i ih =>
    by_cases h0 : i = 0
    · subst h0; exact hrefl _
    · have hpar : (i - 1) / 2 < i := by omega
      have hpl : (i - 1) / 2 < h.length := by omega
      exact htrans _ _ _ (ih _ hpar hpl) (hh i hi (by omega))

end PS.Heapq
