/- The heapq port (PS/Model/Enum/Heapq.lean) re-establishes the heap invariant:
   `IsHeap h → IsHeap (push h x)`, `IsHeap h → pop h = some (x, h') → IsHeap h' ∧ x minimal`,
   for a strict weak order (`<` asymmetric, `not <` transitive); heapsort corollary. -/
import PS.Proofs.Enum.Heapq
namespace PS.Heapq
variable {α : Type}

/-- what is needed of `<`: asymmetric, and `not <` transitive (a strict weak order; the
    induced `≤ := not >` is a total preorder) -/
structure WeakOrder (lt : α → α → Bool) : Prop where
  asymm : ∀ a b, lt a b = true → lt b a = false
  ntrans : ∀ a b c, lt b a = false → lt c b = false → lt c a = false

theorem WeakOrder.irrefl {lt : α → α → Bool} (w : WeakOrder lt) (a : α) : lt a a = false := by
  cases h : lt a a with
  | false => rfl
  | true => have := w.asymm a a h; rw [h] at this; cases this

/-- `h[i] ≤ h[j]` (vacuous out of range) -/
def LE (lt : α → α → Bool) (h : List α) (i j : Nat) : Prop :=
  ∀ a b, h[i]? = some a → h[j]? = some b → lt b a = false

theorem isHeap_iff (lt : α → α → Bool) (h : List α) :
    IsHeap lt h ↔ ∀ i, 0 < i → LE lt h ((i - 1) / 2) i := by
  constructor
  · intro hh i hi a b ha hb
    obtain ⟨hil, rfl⟩ := List.getElem?_eq_some_iff.mp hb
    obtain ⟨hpl, rfl⟩ := List.getElem?_eq_some_iff.mp ha
    exact hh i hil hi
  · intro hh i hil hi
    exact hh i hi _ _ (List.getElem?_eq_getElem (by omega)) (List.getElem?_eq_getElem hil)

theorem getElem?_swap (h : List α) (i j k : Nat) (hi : i < h.length) (hj : j < h.length) :
    (swap h i j)[k]? = if k = j then h[i]? else if k = i then h[j]? else h[k]? := by
  unfold swap
  rw [List.getElem?_eq_getElem hi, List.getElem?_eq_getElem hj]
  simp only [List.getElem?_set, List.length_set]
  by_cases h1 : k = j
  · subst h1; simp [hj]
  · by_cases h2 : k = i
    · subst h2; simp [h1, Ne.symm h1, hi]
    · simp [h1, h2, Ne.symm h1, Ne.symm h2]

theorem ltAt_true (lt : α → α → Bool) (h : List α) (i j : Nat) (ht : ltAt lt h i j = true) :
    ∃ a b, h[i]? = some a ∧ h[j]? = some b ∧ lt a b = true := by
  unfold ltAt at ht
  cases hi : h[i]? with
  | none => simp [hi] at ht
  | some a =>
    cases hj : h[j]? with
    | none => simp [hi, hj] at ht
    | some b => simp only [hi, hj] at ht; exact ⟨a, b, rfl, rfl, ht⟩

theorem ltAt_false (lt : α → α → Bool) (h : List α) (i j : Nat) (ht : ltAt lt h i j = false) :
    ∀ a b, h[i]? = some a → h[j]? = some b → lt a b = false := by
  intro a b hi hj
  unfold ltAt at ht
  simpa [hi, hj] using ht

/-- invariant of `siftdown`: heap everywhere except at `pos`, whose children are ≥ its parent -/
def SdInv (lt : α → α → Bool) (h : List α) (pos : Nat) : Prop :=
  (∀ i, 0 < i → i ≠ pos → LE lt h ((i - 1) / 2) i) ∧
  (0 < pos → ∀ c, 0 < c → (c - 1) / 2 = pos → LE lt h ((pos - 1) / 2) c)

theorem siftdown_isHeap {lt : α → α → Bool} (w : WeakOrder lt) :
    ∀ (fuel : Nat) (h : List α) (pos : Nat), pos ≤ fuel → pos < h.length → SdInv lt h pos →
      IsHeap lt (siftdown lt fuel h pos) := by
  intro fuel
  induction fuel with
  | zero =>
    intro h pos hf _ hinv
    have : pos = 0 := by omega
    subst this
    rw [isHeap_iff]
    intro i hi
    exact hinv.1 i hi (by omega)
  | succ n ih =>
    intro h pos hf hpl hinv
    unfold siftdown
    by_cases hp : pos = 0
    · subst hp
      simp only [if_true]
      rw [isHeap_iff]
      intro i hi
      exact hinv.1 i hi (by omega)
    · simp only [hp, if_false]
      have hpos : 0 < pos := by omega
      cases hlt : ltAt lt h pos ((pos - 1) / 2) with
      | false =>
        simp only [Bool.false_eq_true, if_false]
        rw [isHeap_iff]
        intro i hi
        by_cases hip : i = pos
        · subst hip
          intro a b ha hb
          exact ltAt_false lt h _ _ hlt b a hb ha
        · exact hinv.1 i hi hip
      | true =>
        simp only [if_true]
        obtain ⟨x, y, hx, hy, hxy⟩ := ltAt_true lt h _ _ hlt
        have hparl : (pos - 1) / 2 < h.length := by omega
        apply ih
        · omega
        · rw [swap_length]; exact hparl
        · have hsw := fun k => getElem?_swap h pos ((pos - 1) / 2) k hpl hparl
          refine ⟨?_, ?_⟩
          · intro i hi hne a b ha hb
            rw [hsw] at ha hb
            by_cases hi1 : i = pos
            · -- the old parent is now at `pos`, the old `pos` at the parent
              subst hi1
              simp only [if_true] at ha
              have : ¬ (i = (i - 1) / 2) := by omega
              simp only [this, if_false, if_true] at hb
              rw [hx] at ha; rw [hy] at hb
              cases ha; cases hb
              exact w.asymm _ _ hxy
            · have hb' : h[i]? = some b := by simpa [hne, hi1] using hb
              by_cases hi2 : (i - 1) / 2 = pos
              · -- a child of `pos`
                have : ¬ (pos = (pos - 1) / 2) := by omega
                rw [hi2] at ha
                simp only [this, if_false, if_true] at ha
                exact hinv.2 hpos i hi hi2 a b ha hb'
              · by_cases hi3 : (i - 1) / 2 = (pos - 1) / 2
                · -- the sibling of `pos`
                  rw [hi3] at ha
                  simp only [if_true] at ha
                  rw [hx] at ha; cases ha
                  have h1 : lt b y = false := hinv.1 i hi hi1 y b (by rw [hi3]; exact hy) hb'
                  have h2 : lt y x = false := w.asymm _ _ hxy
                  exact w.ntrans _ _ _ h2 h1
                · have ha' : h[(i - 1) / 2]? = some a := by simpa [hi2, hi3] using ha
                  exact hinv.1 i hi hi1 a b ha' hb'
          · intro hpar c hc hcp a b ha hb
            rw [hsw] at ha hb
            have e1 : ¬ (((pos - 1) / 2 - 1) / 2 = (pos - 1) / 2) := by omega
            have e2 : ¬ (((pos - 1) / 2 - 1) / 2 = pos) := by omega
            have ha' : h[((pos - 1) / 2 - 1) / 2]? = some a := by simpa [e1, e2] using ha
            have hpy : lt y a = false :=
              hinv.1 ((pos - 1) / 2) hpar (by omega) a y ha' hy
            by_cases hc1 : c = pos
            · subst hc1
              have : ¬ (c = (c - 1) / 2) := by omega
              simp only [this, if_false, if_true] at hb
              rw [hy] at hb; cases hb
              exact hpy
            · have : ¬ (c = (pos - 1) / 2) := by omega
              have hb' : h[c]? = some b := by simpa [this, hc1] using hb
              have h1 : lt b y = false := hinv.1 c hc hc1 y b (by rw [hcp]; exact hy) hb'
              exact w.ntrans _ _ _ hpy h1

/-- invariant of the first loop of `siftup`: heap except around the hole at `pos` -/
def BuInv (lt : α → α → Bool) (h : List α) (pos : Nat) : Prop :=
  (∀ i, 0 < i → i ≠ pos → (i - 1) / 2 ≠ pos → LE lt h ((i - 1) / 2) i) ∧
  (0 < pos → ∀ c, 0 < c → (c - 1) / 2 = pos → LE lt h ((pos - 1) / 2) c)

theorem bubble_spec {lt : α → α → Bool} (w : WeakOrder lt) :
    ∀ (fuel : Nat) (h : List α) (pos : Nat), h.length ≤ fuel + pos → pos < h.length → BuInv lt h pos →
      (bubble lt fuel h pos).2 < (bubble lt fuel h pos).1.length ∧
      SdInv lt (bubble lt fuel h pos).1 (bubble lt fuel h pos).2 := by
  intro fuel
  induction fuel with
  | zero => intro h pos hf hpl _; omega
  | succ n ih =>
    intro h pos hf hpl hinv
    unfold bubble
    by_cases hlim : pos < h.length / 2
    · simp only [hlim, if_true]
      have hl : 2 * pos + 1 < h.length := by omega
      -- the chosen child
      generalize hc : (if 2 * pos + 1 + 1 < h.length ∧ ¬ ltAt lt h (2 * pos + 1) (2 * pos + 1 + 1) = true
        then 2 * pos + 1 + 1 else 2 * pos + 1) = c
      have hcpar : (c - 1) / 2 = pos := by
        split at hc <;> omega
      have hc0 : 0 < c := by split at hc <;> omega
      have hcl : c < h.length := by
        split at hc
        · rename_i hh; omega
        · omega
      -- the chosen child is ≤ its sibling
      have hsib : ∀ s, 0 < s → (s - 1) / 2 = pos → s ≠ c → LE lt h c s := by
        intro s hs hsp hsc a b ha hb
        have hsl : s < h.length := (List.getElem?_eq_some_iff.mp hb).1
        split at hc
        · rename_i hh
          -- c is the right child, s the left one
          have hs' : s = 2 * pos + 1 := by omega
          subst hs'
          have hf' : ltAt lt h (2 * pos + 1) (2 * pos + 1 + 1) = false := by
            cases hq : ltAt lt h (2 * pos + 1) (2 * pos + 1 + 1) with
            | false => rfl
            | true => exact absurd hq hh.2
          rw [← hc] at ha
          exact ltAt_false lt h _ _ hf' b a hb ha
        · rename_i hh
          have hs' : s = 2 * pos + 1 + 1 := by omega
          subst hs'
          have hq : ltAt lt h (2 * pos + 1) (2 * pos + 1 + 1) = true := by
            cases hq : ltAt lt h (2 * pos + 1) (2 * pos + 1 + 1) with
            | true => rfl
            | false => exact absurd ⟨hsl, by simp [hq]⟩ hh
          obtain ⟨x, y, hx, hy, hxy⟩ := ltAt_true lt h _ _ hq
          rw [← hc, hx] at ha; rw [hy] at hb
          cases ha; cases hb
          exact w.asymm _ _ hxy
      have hsw := fun k => getElem?_swap h c pos k hcl hpl
      apply ih
      · rw [swap_length]; omega
      · rw [swap_length]; exact hcl
      · refine ⟨?_, ?_⟩
        · intro i hi hic hipc a b ha hb
          rw [hsw] at ha hb
          by_cases hi1 : i = pos
          · subst hi1
            simp only [if_true] at hb
            have e1 : ¬ ((i - 1) / 2 = i) := by omega
            have e2 : ¬ ((i - 1) / 2 = c) := by omega
            have ha' : h[(i - 1) / 2]? = some a := by simpa [e1, e2] using ha
            exact hinv.2 hi c hc0 hcpar a b ha' hb
          · by_cases hi2 : (i - 1) / 2 = pos
            · rw [hi2] at ha
              simp only [if_true] at ha
              have hb' : h[i]? = some b := by simpa [hi1, hic] using hb
              exact hsib i hi hi2 hic a b ha hb'
            · have ha' : h[(i - 1) / 2]? = some a := by simpa [hi2, hipc] using ha
              have hb' : h[i]? = some b := by simpa [hi1, hic] using hb
              exact hinv.1 i hi hi1 hi2 a b ha' hb'
        · intro _ d hd hdc a b ha hb
          rw [hsw] at ha hb
          rw [hcpar] at ha
          simp only [if_true] at ha
          have e1 : ¬ (d = pos) := by omega
          have e2 : ¬ (d = c) := by omega
          have hb' : h[d]? = some b := by simpa [e1, e2] using hb
          have := hinv.1 d hd e1 (by omega) a b (by rw [hdc]; exact ha) hb'
          exact this
    · simp only [hlim, if_false]
      refine ⟨hpl, ?_, hinv.2⟩
      intro i hi hip a b ha hb
      have hil : i < h.length := (List.getElem?_eq_some_iff.mp hb).1
      exact hinv.1 i hi hip (by omega) a b ha hb

theorem isHeap_nil (lt : α → α → Bool) : IsHeap lt ([] : List α) := by
  intro i hi; simp at hi

/-- **`heappush` re-establishes the heap invariant** -/
theorem push_isHeap {lt : α → α → Bool} (w : WeakOrder lt) (h : List α) (x : α)
    (hh : IsHeap lt h) : IsHeap lt (push lt h x) := by
  unfold push
  apply siftdown_isHeap w
  · omega
  · simp
  · rw [isHeap_iff] at hh
    refine ⟨?_, ?_⟩
    · intro i hi hne a b ha hb
      have hil : i < (h ++ [x]).length := (List.getElem?_eq_some_iff.mp hb).1
      simp only [List.length_append, List.length_singleton] at hil
      have hil' : i < h.length := by omega
      rw [List.getElem?_append_left hil'] at hb
      rw [List.getElem?_append_left (by omega)] at ha
      exact hh i hi a b ha hb
    · intro _ c hc hcp a b ha hb
      have hcl : c < (h ++ [x]).length := (List.getElem?_eq_some_iff.mp hb).1
      simp only [List.length_append, List.length_singleton] at hcl
      omega

theorem isHeap_prefix (lt : α → α → Bool) (h : List α) (x : α) (hh : IsHeap lt (h ++ [x])) :
    IsHeap lt h := by
  rw [isHeap_iff] at hh ⊢
  intro i hi a b ha hb
  have hil : i < h.length := (List.getElem?_eq_some_iff.mp hb).1
  refine hh i hi a b ?_ ?_
  · rw [List.getElem?_append_left (by omega)]; exact ha
  · rw [List.getElem?_append_left hil]; exact hb

theorem siftup_isHeap {lt : α → α → Bool} (w : WeakOrder lt) (top last : α) (rest : List α)
    (hh : IsHeap lt (top :: rest)) : IsHeap lt (siftup lt (last :: rest)) := by
  unfold siftup
  rw [isHeap_iff] at hh
  have hb := bubble_spec w (last :: rest).length (last :: rest) 0 (by omega) (by simp) (by
    refine ⟨?_, fun h0 => absurd h0 (by omega)⟩
    intro i hi _ hpar a b ha hb
    have e1 : (i - 1) / 2 = ((i - 1) / 2 - 1) + 1 := by omega
    have e2 : i = (i - 1) + 1 := by omega
    rw [e1] at ha; rw [e2] at hb
    rw [List.getElem?_cons_succ] at ha hb
    refine hh i hi a b ?_ ?_
    · rw [e1, List.getElem?_cons_succ]; exact ha
    · rw [e2, List.getElem?_cons_succ]; exact hb)
  exact siftdown_isHeap w _ _ _ (by omega) hb.1 hb.2

/-- **`heappop` re-establishes the heap invariant and returns a minimum** -/
theorem pop_isHeap {lt : α → α → Bool} (w : WeakOrder lt) (h : List α) (x : α) (h' : List α)
    (hh : IsHeap lt h) (hp : pop lt h = some (x, h')) :
    IsHeap lt h' ∧ ∀ y ∈ h, lt y x = false := by
  have hmin : ∀ (hne : 0 < h.length), ∀ y ∈ h, lt y (h[0]'hne) = false := by
    intro hne y hy
    obtain ⟨i, hi, rfl⟩ := List.getElem_of_mem hy
    exact root_min lt w.ntrans w.irrefl h hh i hi
  unfold pop at hp
  cases hl : h.getLast? with
  | none => simp [hl] at hp
  | some last =>
    have hne : h ≠ [] := by intro e; simp [e] at hl
    have hdl : h = h.dropLast ++ [last] := by
      have h1 := List.dropLast_concat_getLast hne
      have h2 : h.getLast hne = last := by
        have := List.getLast?_eq_some_getLast hne
        rw [hl] at this; exact (Option.some.inj this).symm
      rw [h2] at h1; exact h1.symm
    simp only [hl] at hp
    cases hd : h.dropLast with
    | nil =>
      simp only [hd] at hp
      cases hp
      refine ⟨isHeap_nil lt, ?_⟩
      intro y hy
      rw [hdl, hd] at hy
      simp only [List.nil_append, List.mem_singleton] at hy
      subst hy
      exact w.irrefl _
    | cons top rest =>
      simp only [hd, Option.some.injEq, Prod.mk.injEq] at hp
      obtain ⟨rfl, rfl⟩ := hp
      have hpre : IsHeap lt (top :: rest) := by
        apply isHeap_prefix lt _ last
        rw [← hd, ← hdl]; exact hh
      refine ⟨siftup_isHeap w top last rest hpre, ?_⟩
      intro y hy
      have hlen : 0 < h.length := by
        cases h with
        | nil => exact absurd rfl hne
        | cons _ _ => simp
      have h0 : h[0]'hlen = top := by
        have : h[0]? = some top := by rw [hdl, hd]; rfl
        exact (List.getElem?_eq_some_iff.mp this).2
      rw [← h0]
      exact hmin hlen y hy

/-! ### heapsort -/

/-- pop until the heap is empty (at most `fuel` times) -/
def drain (lt : α → α → Bool) : Nat → List α → List α
  | 0, _ => []
  | n + 1, h =>
    match pop lt h with
    | none => []
    | some (x, h') => x :: drain lt n h'

/-- the heap built by pushing the elements of `l` one after the other -/
def build (lt : α → α → Bool) (l : List α) : List α := l.foldl (push lt) []

theorem foldl_push_isHeap {lt : α → α → Bool} (w : WeakOrder lt) (l : List α) :
    ∀ h, IsHeap lt h → IsHeap lt (l.foldl (push lt) h) := by
  induction l with
  | nil => intro h hh; exact hh
  | cons x r ih => intro h hh; exact ih _ (push_isHeap w h x hh)

theorem foldl_push_perm (lt : α → α → Bool) (l : List α) :
    ∀ h, (l.foldl (push lt) h).Perm (l ++ h) := by
  induction l with
  | nil => intro h; exact List.Perm.refl _
  | cons x r ih =>
    intro h
    refine (ih _).trans ?_
    refine ((push_perm lt h x).append_left r).trans ?_
    exact (List.perm_middle (l₁ := r) (l₂ := h) (a := x))

theorem build_isHeap {lt : α → α → Bool} (w : WeakOrder lt) (l : List α) : IsHeap lt (build lt l) :=
  foldl_push_isHeap w l [] (isHeap_nil lt)

theorem build_perm (lt : α → α → Bool) (l : List α) : (build lt l).Perm l := by
  have := foldl_push_perm lt l []
  simpa [build] using this

/-- popping a valid heap until it is empty lists its content in non-decreasing order -/
theorem drain_sorted {lt : α → α → Bool} (w : WeakOrder lt) :
    ∀ (n : Nat) (h : List α), IsHeap lt h → h.length ≤ n →
      (drain lt n h).Perm h ∧ (drain lt n h).Pairwise (fun a b => lt b a = false) := by
  intro n
  induction n with
  | zero =>
    intro h _ hl
    have : h = [] := List.eq_nil_of_length_eq_zero (by omega)
    subst this
    exact ⟨List.Perm.refl _, List.Pairwise.nil⟩
  | succ n ih =>
    intro h hh hl
    unfold drain
    cases hp : pop lt h with
    | none =>
      have := (pop_none_iff lt h).mp hp
      subst this
      exact ⟨List.Perm.refl _, List.Pairwise.nil⟩
    | some r =>
      obtain ⟨x, h'⟩ := r
      have hperm := pop_perm lt h x h' hp
      obtain ⟨hh', hmin⟩ := pop_isHeap w h x h' hh hp
      have hl' : h'.length ≤ n := by
        have := hperm.length_eq
        simp only [List.length_cons] at this
        omega
      obtain ⟨ip, is⟩ := ih h' hh' hl'
      refine ⟨(List.Perm.cons x ip).trans hperm.symm, ?_⟩
      refine List.Pairwise.cons ?_ is
      intro y hy
      exact hmin y (hperm.symm.subset (List.mem_cons_of_mem _ (ip.subset hy)))

end PS.Heapq
