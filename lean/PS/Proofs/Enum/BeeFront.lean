/- Bee search, the frontier rule "increment index i until the first index > 1" (bee_search.py:210-218) as pure
   combinatorics: the successor relation `PS.CD.succs` (shared with constant-delay search: every non-zero tuple
   has exactly one predecessor) generates a forest; a frontier that is an antichain stays one when a tuple is
   replaced by its successors.  Plus the algebra of "all entries filed under a key" of an association list. -/
import PS.Proofs.Enum.CDSucc
import PS.Basic
namespace PS.Bee
open PS PS.CD

/-- `c` is a strict ancestor of `t` in the successor forest -/
inductive Anc : List Nat → List Nat → Prop
  | step {c t : List Nat} : t ∈ succs c → Anc c t
  | trans {c t u : List Nat} : Anc c t → u ∈ succs t → Anc c u

theorem succs_sum : ∀ (c t : List Nat), t ∈ succs c → t.sum = c.sum + 1
  | [], t, h => by simp [succs] at h
  | x :: xs, t, h => by
    simp only [succs, List.mem_cons] at h
    rcases h with h | h
    · subst h; simp; omega
    · split at h
      · cases h
      · rw [List.mem_map] at h
        obtain ⟨t', ht', rfl⟩ := h
        have := succs_sum xs t' ht'
        simp [this]; omega

theorem Anc.sum_lt {c t : List Nat} (h : Anc c t) : c.sum < t.sum := by
  induction h with
  | step hs => have := succs_sum _ _ hs; omega
  | trans _ hs ih => have := succs_sum _ _ hs; omega

theorem Anc.irrefl (c : List Nat) : ¬ Anc c c := fun h => Nat.lt_irrefl _ h.sum_lt

theorem Anc.prepend {c t u : List Nat} (hs : t ∈ succs c) (h : Anc t u) : Anc c u := by
  induction h with
  | step h1 => exact Anc.trans (Anc.step hs) h1
  | trans _ h2 ih => exact Anc.trans ih h2

/-- the last step of a path into a successor of `c0` goes through `c0` -/
theorem Anc.into_succ {t u c0 : List Nat} (h : Anc t u) (hu : u ∈ succs c0) : t = c0 ∨ Anc t c0 := by
  cases h with
  | step h1 => exact Or.inl (succs_disjoint _ _ _ h1 hu)
  | trans h1 h2 =>
    have := succs_disjoint _ _ _ h2 hu
    subst this
    exact Or.inr h1

theorem Anc.nonzero {c t : List Nat} (h : Anc c t) : nonzero t = true := by
  cases h with
  | step h1 => exact ((mem_succs_iff _ _).mp h1).1
  | trans _ h2 => exact ((mem_succs_iff _ _).mp h2).1

theorem Anc.length {c t : List Nat} (h : Anc c t) : t.length = c.length := by
  induction h with
  | step hs => exact succs_length _ _ hs
  | trans _ hs ih => rw [succs_length _ _ hs, ih]

theorem succs_ne_nil_of_cons (x : Nat) (xs : List Nat) : succs (x :: xs) ≠ [] := by simp [succs]

/-- a frontier: duplicate-free and no element is an ancestor of another -/
structure Frontier (F : List (List Nat)) : Prop where
  nodup : F.Nodup
  anti : ∀ t ∈ F, ∀ u ∈ F, ¬ Anc t u

/-- `c` has been expanded: it is a strict ancestor of a frontier element, or it is the empty tuple (rule
    without arguments) and is no longer in the frontier -/
def Done (F : List (List Nat)) (c : List Nat) : Prop := (c = [] ∧ [] ∉ F) ∨ ∃ u ∈ F, Anc c u

theorem Frontier.perm {F F' : List (List Nat)} (hp : F'.Perm F) (h : Frontier F) : Frontier F' :=
  ⟨hp.nodup_iff.mpr h.nodup, fun t ht u hu => h.anti t (hp.mem_iff.mp ht) u (hp.mem_iff.mp hu)⟩

theorem Done.perm {F F' : List (List Nat)} (hp : F'.Perm F) {c : List Nat} (h : Done F c) : Done F' c := by
  rcases h with ⟨h1, h2⟩ | ⟨u, hu, ha⟩
  · exact Or.inl ⟨h1, fun hm => h2 (hp.mem_iff.mp hm)⟩
  · exact Or.inr ⟨u, hp.mem_iff.mpr hu, ha⟩

/-- a done tuple is not in the frontier -/
theorem Done.not_mem {F : List (List Nat)} (hF : Frontier F) {c : List Nat} (h : Done F c) : c ∉ F := by
  intro hc
  rcases h with ⟨h1, h2⟩ | ⟨u, hu, ha⟩
  · subst h1; exact h2 hc
  · exact hF.anti c hc u hu ha

/-- **expanding one element**: replacing `c0` by (a permutation of) ALL its successors keeps the frontier, keeps
    what was done, and `c0` is done afterwards -/
theorem Frontier.expand {F : List (List Nat)} (c0 : List Nat) (F' : List (List Nat)) (hF : Frontier (c0 :: F))
    (hp : F'.Perm (succs c0 ++ F)) :
    Frontier F' ∧ Done F' c0 ∧ ∀ c, Done (c0 :: F) c → Done F' c := by
  have hc0 : c0 ∉ F := (List.nodup_cons.mp hF.nodup).1
  have hFn : F.Nodup := (List.nodup_cons.mp hF.nodup).2
  have hfr : Frontier (succs c0 ++ F) := by
    constructor
    · rw [List.nodup_append]
      refine ⟨succs_nodup c0, hFn, ?_⟩
      intro t ht u hu htu
      subst htu
      exact hF.anti c0 List.mem_cons_self t (List.mem_cons_of_mem _ hu) (Anc.step ht)
    · intro t ht u hu ha
      rcases List.mem_append.mp ht with ht1 | ht2
      · rcases List.mem_append.mp hu with hu1 | hu2
        · have h1 := succs_sum _ _ ht1; have h2 := succs_sum _ _ hu1; have := ha.sum_lt; omega
        · exact hF.anti c0 List.mem_cons_self u (List.mem_cons_of_mem _ hu2) (Anc.prepend ht1 ha)
      · rcases List.mem_append.mp hu with hu1 | hu2
        · rcases ha.into_succ hu1 with h1 | h1
          · rw [h1] at ht2; exact hc0 ht2
          · exact hF.anti t (List.mem_cons_of_mem _ ht2) c0 List.mem_cons_self h1
        · exact hF.anti t (List.mem_cons_of_mem _ ht2) u (List.mem_cons_of_mem _ hu2) ha
  have hdone0 : Done (succs c0 ++ F) c0 := by
    cases c0 with
    | nil =>
      refine Or.inl ⟨rfl, ?_⟩
      simp only [succs, List.nil_append]; exact hc0
    | cons x xs =>
      cases hs : succs (x :: xs) with
      | nil => exact absurd hs (succs_ne_nil_of_cons x xs)
      | cons t0 rest =>
        refine Or.inr ⟨t0, by simp, Anc.step (by rw [hs]; exact List.mem_cons_self)⟩
  refine ⟨hfr.perm hp, hdone0.perm hp, ?_⟩
  intro c hc
  apply Done.perm hp
  rcases hc with ⟨h1, h2⟩ | ⟨u, hu, ha⟩
  · subst h1
    refine Or.inl ⟨rfl, ?_⟩
    intro hm
    rcases List.mem_append.mp hm with hm | hm
    · have := ((mem_succs_iff _ _).mp hm).1; simp [nonzero] at this
    · exact h2 (List.mem_cons_of_mem _ hm)
  · rcases List.mem_cons.mp hu with hu | hu
    · subst hu
      cases hs : succs u with
      | nil =>
        cases u with
        | nil => exact absurd ha.nonzero (by simp [nonzero])
        | cons x xs => exact absurd hs (succs_ne_nil_of_cons x xs)
      | cons t0 rest =>
        have hm : t0 ∈ succs u := by rw [hs]; exact List.mem_cons_self
        exact Or.inr ⟨t0, List.mem_append_left _ List.mem_cons_self, Anc.trans ha hm⟩
    · exact Or.inr ⟨u, List.mem_append_right _ hu, ha⟩

/-- a path from `c0` goes through one of its successors -/
theorem Anc.via_succ {c0 c : List Nat} (h : Anc c0 c) : ∃ t ∈ succs c0, t = c ∨ Anc t c := by
  induction h with
  | step hs => exact ⟨_, hs, Or.inl rfl⟩
  | trans _ h2 ih =>
    obtain ⟨t, ht, hc⟩ := ih
    rcases hc with hc | hc
    · subst hc; exact ⟨t, ht, Or.inr (Anc.step h2)⟩
    · exact ⟨t, ht, Or.inr (Anc.trans hc h2)⟩

/-- `c` is covered by the frontier: expanded, pending, or a descendant of a pending tuple -/
def Cov (F : List (List Nat)) (c : List Nat) : Prop := Done F c ∨ c ∈ F ∨ ∃ u ∈ F, Anc u c

theorem Cov.perm {F F' : List (List Nat)} (hp : F'.Perm F) {c : List Nat} (h : Cov F c) : Cov F' c := by
  rcases h with h | h | ⟨u, hu, ha⟩
  · exact Or.inl (h.perm hp)
  · exact Or.inr (Or.inl (hp.mem_iff.mpr h))
  · exact Or.inr (Or.inr ⟨u, hp.mem_iff.mpr hu, ha⟩)

/-- expanding `c0` into ALL its successors keeps every tuple covered -/
theorem Cov.expand {F : List (List Nat)} (c0 : List Nat) (F' : List (List Nat)) (hF : Frontier (c0 :: F))
    (hp : F'.Perm (succs c0 ++ F)) {c : List Nat} (h : Cov (c0 :: F) c) : Cov F' c := by
  obtain ⟨_, e2, e3⟩ := Frontier.expand c0 F' hF hp
  rcases h with h | h | ⟨u, hu, ha⟩
  · exact Or.inl (e3 c h)
  · rcases List.mem_cons.mp h with h | h
    · subst h; exact Or.inl e2
    · exact Or.inr (Or.inl (hp.mem_iff.mpr (List.mem_append_right _ h)))
  · rcases List.mem_cons.mp hu with hu | hu
    · subst hu
      obtain ⟨t, ht, hc⟩ := ha.via_succ
      rcases hc with hc | hc
      · subst hc; exact Or.inr (Or.inl (hp.mem_iff.mpr (List.mem_append_left _ ht)))
      · exact Or.inr (Or.inr ⟨t, hp.mem_iff.mpr (List.mem_append_left _ ht), hc⟩)
    · exact Or.inr (Or.inr ⟨u, hp.mem_iff.mpr (List.mem_append_right _ hu), ha⟩)

theorem parent_length : ∀ t : List Nat, (parent t).length = t.length
  | [] => rfl
  | 0 :: xs => by simp [parent, parent_length xs]
  | (x + 1) :: xs => by simp [parent]

theorem eq_replicate_of_not_nonzero : ∀ t : List Nat, nonzero t = false → t = List.replicate t.length 0
  | [], _ => rfl
  | x :: xs, h => by
    simp only [nonzero, List.any_cons, Bool.or_eq_false_iff, bne_eq_false_iff_eq] at h
    have := eq_replicate_of_not_nonzero xs (by simpa [nonzero] using h.2)
    simp only [List.length_cons, List.replicate_succ, List.cons.injEq]
    exact ⟨h.1, this⟩

/-- **the frontier rule reaches every index tuple**: every tuple is the root `(0,…,0)` or a descendant of it -/
theorem root_anc (c : List Nat) : c = List.replicate c.length 0 ∨ Anc (List.replicate c.length 0) c := by
  generalize hn : c.sum = n
  induction n using Nat.strongRecOn generalizing c with
  | _ n ih =>
    cases hz : nonzero c with
    | false => exact Or.inl (eq_replicate_of_not_nonzero c hz)
    | true =>
      have hc := succs_cover c hz
      have hs := succs_sum _ _ hc
      have hl := parent_length c
      rcases ih (parent c).sum (by omega) (parent c) rfl with h | h
      · right; rw [← hl]; rw [h] at hc; exact Anc.step (by simpa using hc)
      · right; rw [← hl]; exact Anc.trans h hc

/-- adding a fresh ROOT tuple (all zeros) to a frontier in which it does not occur -/
theorem Frontier.add_root {F : List (List Nat)} (z : List Nat) (hz : nonzero z = false) (hF : Frontier F) (hn : z ∉ F)
    (hall : ∀ t ∈ F, nonzero t = false) : Frontier (z :: F) := by
  constructor
  · exact List.nodup_cons.mpr ⟨hn, hF.nodup⟩
  · intro t ht u hu ha
    have := ha.nonzero
    rcases List.mem_cons.mp hu with hu | hu
    · subst hu; rw [hz] at this; cases this
    · rw [hall u hu] at this; cases this

/-! ### everything filed under a key of an association list (all rows, not only the first) -/

section
variable {κ ν : Type} [DecidableEq κ]

/-- the concatenation of the lists of ALL rows with key `k` -/
def allOf (k : κ) : AList κ (List ν) → List ν
  | [] => []
  | (k', l) :: r => if k' = k then l ++ allOf k r else allOf k r

theorem mem_allOf {k : κ} {T : AList κ (List ν)} {x : ν} : x ∈ allOf k T ↔ ∃ l, (k, l) ∈ T ∧ x ∈ l := by
  induction T with
  | nil => simp [allOf]
  | cons p r ih =>
    obtain ⟨k', l⟩ := p
    by_cases hk : k' = k
    · subst hk
      simp only [allOf, if_true, List.mem_append, ih, List.mem_cons, Prod.mk.injEq, true_and]
      constructor
      · rintro (h | ⟨l', h1, h2⟩)
        · exact ⟨l, Or.inl rfl, h⟩
        · exact ⟨l', Or.inr h1, h2⟩
      · rintro ⟨l', h1 | h1, h2⟩
        · subst h1; exact Or.inl h2
        · exact Or.inr ⟨l', h1, h2⟩
    · simp only [allOf, hk, if_false, ih, List.mem_cons, Prod.mk.injEq]
      constructor
      · rintro ⟨l', h1, h2⟩; exact ⟨l', Or.inr h1, h2⟩
      · rintro ⟨l', h1 | h1, h2⟩
        · exact absurd h1.1.symm hk
        · exact ⟨l', h1, h2⟩

/-- replacing the list found by `lookup` (dict assignment `d[k] = f(d.get(k, []))`) -/
theorem allOf_insert_self (k : κ) (f : List ν → List ν) (T : AList κ (List ν)) :
    ∃ rest, allOf k T = (AList.lookup k T).getD [] ++ rest ∧
      allOf k (AList.insert k (f ((AList.lookup k T).getD [])) T) = f ((AList.lookup k T).getD []) ++ rest := by
  induction T with
  | nil => exact ⟨[], by simp [allOf, AList.lookup, AList.insert]⟩
  | cons p r ih =>
    obtain ⟨k', l⟩ := p
    by_cases hk : k' = k
    · subst hk
      exact ⟨allOf k' r, by simp [allOf, AList.lookup, AList.insert]⟩
    · obtain ⟨rest, h1, h2⟩ := ih
      refine ⟨rest, ?_, ?_⟩
      · simp only [allOf, hk, if_false, AList.lookup]; exact h1
      · simp only [AList.lookup, hk, if_false, AList.insert, allOf]; exact h2

theorem allOf_insert_ne {k k' : κ} (hne : k' ≠ k) (v : List ν) (T : AList κ (List ν)) :
    allOf k' (AList.insert k v T) = allOf k' T := by
  induction T with
  | nil => simp [allOf, AList.insert, Ne.symm hne]
  | cons p r ih =>
    obtain ⟨k2, l⟩ := p
    by_cases hk : k2 = k
    · subst hk; simp [AList.insert, allOf, Ne.symm hne]
    · by_cases hk' : k2 = k'
      · subst hk'; simp [AList.insert, allOf, hk, ih]
      · simp [AList.insert, allOf, hk, hk', ih]

end
end PS.Bee
