/- Heap search on unambiguous, acyclic grammars: the order invariant of a non-terminal under the
   primitive steps (a recorded pop, a pushed successor). -/
import PS.Proofs.Enum.UOrderInit
namespace PS.UHS
open PS PS.G
set_option linter.unusedSectionVars false
variable {U π : Type} [DecidableEq U]

variable {E : Env U π} {rank : UNT U → Nat} {Good : π → Prop}

theorem Base.popTake (H : OHyp E rank Good) {s : St U π} (hb : Base E s) (nt : UNT U) (key : Option Prog)
    (e : π × Prog) (h' : List (π × Prog)) (h : Heapq.pop (ltE E.ops) (s.heapOf nt) = some (e, h'))
    (hkey : AList.lookup key (s.succOf nt) = none) :
    Base E (s.popTake nt key e h') ∧ Stable s (s.popTake nt key e h') ∧ Only nt s (s.popTake nt key e h') := by
  obtain ⟨hm, hsub⟩ := mem_of_pop _ _ _ _ h
  have hs1 := ((hb.sinv.setHeap_sub nt h' hsub).setSucc nt key e.2 (hb.sinv.heap_seen _ _ hm)).setPred nt e.2 key
  obtain ⟨n1, st⟩ := hb.ninv.popTake nt key e h' h hkey
  refine ⟨⟨hs1, n1, ?_, hb.delF⟩, st,
    ((only_setHeap s nt h').trans (only_setSucc _ nt key e.2)).trans (only_setPred _ nt e.2 key)⟩
  exact (hb.hinv.pop_on H hb.sinv nt e h' h).1

theorem Popped.der {s : St U π} (hs : SInv E s) {nt : UNT U} {x : Prog} (h : Popped s nt x) : Der E x nt := by
  obtain ⟨k, hk⟩ := h
  exact hs.seen_der nt x (hs.succ_seen nt k x hk)

theorem Popped.seen {s : St U π} (hs : SInv E s) {nt : UNT U} {x : Prog} (h : Popped s nt x) : x ∈ s.seenOf nt := by
  obtain ⟨k, hk⟩ := h
  exact hs.succ_seen nt k x hk

/-- **a pop recorded as the successor of `key`** keeps the order invariant -/
theorem NTInv.popTake (H : OHyp E rank Good) {s : St U π} (hb : Base E s) {nt : UNT U} (hn : NTInv E s nt)
    (key : Option Prog) (e : π × Prog) (h' : List (π × Prog))
    (h : Heapq.pop (ltE E.ops) (s.heapOf nt) = some (e, h'))
    (hkey : AList.lookup key (s.succOf nt) = none) (hkp : ∀ k, key = some k → Popped s nt k) :
    NTInv E (s.popTake nt key e h') nt ∧ Popped (s.popTake nt key e h') nt e.2 ∧
    (∀ x, Popped (s.popTake nt key e h') nt x → LE E nt x e.2) ∧ (∀ k, key = some k → LE E nt k e.2) := by
  obtain ⟨hm, hsub⟩ := mem_of_pop _ _ _ _ h
  have hmin := (hb.hinv.pop_on H hb.sinv nt e h' h).2
  have hsucc : (s.popTake nt key e h').succOf nt = AList.insert key e.2 (s.succOf nt) := by
    rw [popTake_succOf, if_pos rfl]
  have hheap : (s.popTake nt key e h').heapOf nt = h' := by
    show (s.setHeap nt h').heapOf nt = h'
    rw [St.heapOf_setHeap, if_pos rfl]
  have hpop' : ∀ x, Popped (s.popTake nt key e h') nt x → x = e.2 ∨ Popped s nt x := by
    rintro x ⟨k, hk⟩
    rw [hsucc, AList.lookup_insert] at hk
    split at hk
    · left; cases hk; rfl
    · right; exact ⟨k, hk⟩
  -- the popped element is not better than anything popped before
  have hle_e : ∀ x, Popped s nt x → LE E nt x e.2 := fun x hx => hn.heap_le x hx e hm
  -- nothing left in the heap is better than the popped element
  have hle_h : ∀ e', e' ∈ h' → LE E nt e.2 e'.2 := by
    intro e' he' px py hx hy
    have h1 := hb.sinv.heap_prio nt e hm
    have h2 := hb.sinv.heap_prio nt e' (hsub e' he')
    rw [hasPrio_fun H _ _ _ _ hx h1, hasPrio_fun H _ _ _ _ hy h2]
    exact hmin e' (hsub e' he')
  have hkeyEnd : key = lastK none (s.succOf nt) := by
    apply chainL_miss _ none key hn.chain hkey
    cases key with
    | none => exact Or.inl rfl
    | some k =>
      obtain ⟨k', hk'⟩ := hkp k rfl
      exact Or.inr ⟨(k', k), AList.lookup_some_mem hk', rfl⟩
  have hstab : Stable s (s.popTake nt key e h') := (hb.ninv.popTake nt key e h' h hkey).2
  refine ⟨⟨hn.init, ?_, ?_, ?_, ?_, ?_, ?_, fun F v w hm a ha => by
      obtain ⟨x, hx⟩ := hn.closed F v w hm a ha
      exact ⟨x, hstab _ _ _ hx⟩⟩, ⟨key, by rw [hsucc]; exact AList.lookup_insert_self _ _ _⟩, ?_, ?_⟩
  · rw [hsucc, insert_of_lookup_none key e.2 _ hkey, hkeyEnd]
    exact chainL_snoc _ none e.2 hn.chain
  · rw [hsucc, insert_of_lookup_none key e.2 _ hkey]
    unfold AList.keys
    rw [List.map_append, List.nodup_append]
    refine ⟨hn.keys_nodup, by simp, ?_⟩
    intro a ha b hb
    simp only [List.map_cons, List.map_nil, List.mem_singleton] at hb
    subst hb
    intro hab
    subst hab
    have : (AList.lookup a (s.succOf nt)).isSome := AList.lookup_isSome_iff_mem_keys.mpr ha
    rw [hkey] at this
    cases this
  · obtain ⟨m, h1, h2⟩ := hn.first
    refine ⟨m, h1, Or.inl ?_⟩
    rw [hsucc, AList.lookup_insert]
    rcases h2 with h2 | ⟨h2, pr, h3⟩
    · split
      · rename_i hk; rw [hk, hkey] at h2; cases h2
      · exact h2
    · have hk : key = none := by rw [hkeyEnd, h2]; rfl
      rw [if_pos hk.symm]
      have := Heapq.pop_head _ _ _ _ h
      rw [h3] at this
      cases this
      rfl
  · intro F kids v hseen hk i ai si hai hsi
    obtain ⟨k', hk'⟩ := hn.args F kids v hseen hk i ai si hai hsi
    refine ⟨k', ?_⟩
    by_cases hsn : si = nt
    · subst hsn
      rw [hsucc, AList.lookup_insert]
      split
      · rename_i hkk; rw [hkk, hkey] at hk'; cases hk'
      · exact hk'
    · rw [popTake_succOf, if_neg hsn]; exact hk'
  · intro x hx e' he'
    rw [hheap] at he'
    rcases hpop' x hx with rfl | hx'
    · exact hle_h e' he'
    · exact hn.heap_le x hx' e' (hsub e' he')
  · intro k x hk
    rw [hsucc, AList.lookup_insert] at hk
    split at hk
    · rename_i hkk
      cases hk
      exact hle_e k (hkp k hkk.symm)
    · exact hn.sorted k x hk
  · intro x hx
    rcases hpop' x hx with rfl | hx'
    · exact LE.refl H nt _
    · exact hle_e x hx'
  · intro k hk
    exact hle_e k (hkp k hk)

/-- a pop recorded as the successor of `key`: the completeness invariant, the popped program being
    the one whose successors are to be added -/
theorem CInv.popTake {s : St U π} (hb : Base E s) {nt : UNT U} (hc : CInv E rank s nt none 0)
    (key : Option Prog) (e : π × Prog) (h' : List (π × Prog))
    (h : Heapq.pop (ltE E.ops) (s.heapOf nt) = some (e, h'))
    (hkey : AList.lookup key (s.succOf nt) = none) (i : Nat) (hi : ∀ F args, e.2 = Tree.node F args → args.length ≤ i) :
    CInv E rank (s.popTake nt key e h') nt (some e.2) i := by
  obtain ⟨n1, hst⟩ := hb.ninv.popTake nt key e h' h hkey
  have hperm := pop_progs h
  have hsucc : ∀ sj, sj ≠ nt → (s.popTake nt key e h').succOf sj = s.succOf sj := by
    intro sj hne; rw [popTake_succOf, if_neg hne]
  have hheapo : ∀ sj, sj ≠ nt → (s.popTake nt key e h').heapOf sj = s.heapOf sj := by
    intro sj hne
    show (s.setHeap nt h').heapOf sj = _
    rw [St.heapOf_setHeap, if_neg hne]
  have hpe : Popped (s.popTake nt key e h') nt e.2 :=
    ⟨key, by rw [popTake_succOf, if_pos rfl]; exact AList.lookup_insert_self _ _ _⟩
  have hpop' : ∀ x, Popped (s.popTake nt key e h') nt x → x = e.2 ∨ Popped s nt x := by
    rintro x ⟨k, hk⟩
    rw [popTake_succOf, if_pos rfl, AList.lookup_insert] at hk
    split at hk
    · left; cases hk; rfl
    · right; exact ⟨k, hk⟩
  refine ⟨hc.keyed, ?_, ?_, ?_⟩
  · intro F v w hm
    obtain ⟨kids, h1, h2, h3⟩ := hc.initial F v w hm
    exact ⟨kids, h1, h2, fun j aj sj a b => hst _ _ _ (h3 j aj sj a b)⟩
  · intro p hp
    rcases hc.cover p hp with hh | hpp | hrej
    · have := hperm.subset hh
      rcases List.mem_cons.mp this with rfl | hm
      · exact Or.inr (Or.inl hpe)
      · left
        rw [popTake_heapProgs, if_pos rfl]
        exact hm
    · exact Or.inr (Or.inl (hpp.mono hst))
    · exact Or.inr (Or.inr hrej)
  · intro F args v hp hk j aj sj haj hsj hr hex
    have hne : sj ≠ nt := by intro e'; subst e'; exact Nat.lt_irrefl _ hr
    by_cases heq : e.2 = Tree.node F args
    · exfalso
      have h1 := hex (by rw [heq])
      have h2 := hi F args heq
      have h3 : j < args.length := (List.getElem?_eq_some_iff.mp haj).1
      omega
    · have hp0 : Proc s nt (Tree.node F args) := by
        refine ⟨hp.1, fun hin => ?_⟩
        rcases List.mem_cons.mp (hperm.subset hin) with h1 | h1
        · exact heq h1.symm
        · apply hp.2
          rw [popTake_heapProgs, if_pos rfl]
          exact h1
      rcases hc.succs F args v hp0 hk j aj sj haj hsj hr (by intro e'; cases e') with ⟨q, h1, h2⟩ | ⟨h1, h2, h3⟩
      · exact Or.inl ⟨q, by rw [hsucc sj hne]; exact h1, h2⟩
      · exact Or.inr ⟨h1, by rw [hheapo sj hne]; exact h2, by rw [hsucc sj hne]; exact h3⟩

/-- a popped program that is in `deleted` is skipped: the invariants of the state -/
theorem Base.popDrop (H : OHyp E rank Good) {s : St U π} (hb : Base E s) (nt : UNT U) (e : π × Prog) (h' : List (π × Prog))
    (h : Heapq.pop (ltE E.ops) (s.heapOf nt) = some (e, h')) :
    Base E (s.setHeap nt h') ∧ Stable s (s.setHeap nt h') ∧ Only nt s (s.setHeap nt h') :=
  ⟨⟨hb.sinv.setHeap_sub _ _ (mem_of_pop _ _ _ _ h).2, hb.ninv.popDrop nt e h' h, (hb.hinv.pop_on H hb.sinv nt e h' h).1,
    hb.delF⟩, Stable.refl _, only_setHeap s nt h'⟩

theorem NTInv.popDrop (H : OHyp E rank Good) {s : St U π} (hb : Base E s) {nt : UNT U} (hn : NTInv E s nt)
    (e : π × Prog) (h' : List (π × Prog)) (h : Heapq.pop (ltE E.ops) (s.heapOf nt) = some (e, h'))
    (hlive : s.succOf nt ≠ []) :
    NTInv E (s.setHeap nt h') nt ∧ (∀ x, Popped (s.setHeap nt h') nt x → LE E nt x e.2) := by
  obtain ⟨hm, hsub⟩ := mem_of_pop _ _ _ _ h
  have hheap : (s.setHeap nt h').heapOf nt = h' := by rw [St.heapOf_setHeap, if_pos rfl]
  refine ⟨⟨hn.init, hn.chain, hn.keys_nodup, ?_, hn.args, ?_, hn.sorted, hn.closed⟩, fun x hx => hn.heap_le x hx e hm⟩
  · obtain ⟨m, h1, h2⟩ := hn.first
    refine ⟨m, h1, Or.inl ?_⟩
    rcases h2 with h2 | ⟨h2, _⟩
    · exact h2
    · exact absurd h2 hlive
  · intro x hx e' he'
    rw [hheap] at he'
    exact hn.heap_le x hx e' (hsub e' he')

theorem CInv.popDrop {s : St U π} (hb : Base E s) {nt : UNT U} (hc : CInv E rank s nt none 0)
    (e : π × Prog) (h' : List (π × Prog)) (h : Heapq.pop (ltE E.ops) (s.heapOf nt) = some (e, h'))
    (hd : s.deleted.contains e.2 = true) (i : Nat) (hi : ∀ F args, e.2 = Tree.node F args → args.length ≤ i) :
    CInv E rank (s.setHeap nt h') nt (some e.2) i := by
  have hperm := pop_progs h
  have hprogs : (s.setHeap nt h').heapProgs nt = h'.map (·.2) := by
    unfold St.heapProgs; rw [St.heapOf_setHeap, if_pos rfl]
  have hheapo : ∀ sj, sj ≠ nt → (s.setHeap nt h').heapOf sj = s.heapOf sj := by
    intro sj hne; rw [St.heapOf_setHeap, if_neg hne]
  refine ⟨hc.keyed, hc.initial, ?_, ?_⟩
  · intro p hp
    rcases hc.cover p hp with hh | hpp | hrej
    · rcases List.mem_cons.mp (hperm.subset hh) with rfl | hm
      · exact Or.inr (Or.inr (hb.delF _ (by simpa using hd)))
      · left; rw [hprogs]; exact hm
    · exact Or.inr (Or.inl hpp)
    · exact Or.inr (Or.inr hrej)
  · intro F args v hp hk j aj sj haj hsj hr hex
    have hne : sj ≠ nt := by intro e'; subst e'; exact Nat.lt_irrefl _ hr
    by_cases heq : e.2 = Tree.node F args
    · exfalso
      have h1 := hex (by rw [heq])
      have h2 := hi F args heq
      have h3 : j < args.length := (List.getElem?_eq_some_iff.mp haj).1
      omega
    · have hp0 : Proc s nt (Tree.node F args) := by
        refine ⟨hp.1, fun hin => ?_⟩
        rcases List.mem_cons.mp (hperm.subset hin) with h1 | h1
        · exact heq h1.symm
        · apply hp.2; rw [hprogs]; exact h1
      rcases hc.succs F args v hp0 hk j aj sj haj hsj hr (by intro e'; cases e') with ⟨q, h1, h2⟩ | ⟨h1, h2, h3⟩
      · exact Or.inl ⟨q, h1, h2⟩
      · exact Or.inr ⟨h1, by rw [hheapo sj hne]; exact h2, h3⟩

/-- **the loop body of `__add_successors_to_heap__`** keeps the order invariant of `nt` -/
theorem NTInv.pushStep (H : OHyp E rank Good) {s1 s3 : St U π} (hb : Base E s1) {nt : UNT U} (hn : NTInv E s1 nt)
    {F : Sym} {args : List Prog} {v : List (UNT U)} {i : Nat} {ai : Prog} {si : UNT U} {r : Option Prog}
    (hko : KeyOK E nt F args v) (hkey : AList.lookup (nt, Tree.node F args) s1.keys = some v)
    (hprogseen : Tree.node F args ∈ s1.seenOf nt) (hlive : s1.succOf nt ≠ [])
    (hlatest : ∀ x, Popped s1 nt x → LE E nt x (Tree.node F args))
    (hai : args[i]? = some ai) (hsi : v[i]? = some si) (hne : si ≠ nt)
    (hr : ∀ q, r = some q → Popped s1 si q ∧ LE E si ai q)
    (hc : CInv E rank s1 nt (some (Tree.node F args)) (i + 1))
    (hr1 : ∀ q, r = some q → AList.lookup (some ai) (s1.succOf si) = some q)
    (hr2 : r = none → s1.initS.contains si = true ∧ s1.heapOf si = [] ∧ AList.lookup (some ai) (s1.succOf si) = none)
    (hp : pushStep E s1 F args nt v i r = some s3) :
    Base E s3 ∧ NTInv E s3 nt ∧ s3.succOf nt = s1.succOf nt ∧ Only nt s1 s3 ∧ Stable s1 s3 ∧
      AList.lookup (nt, Tree.node F args) s3.keys = some v ∧ CInv E rank s3 nt (some (Tree.node F args)) i ∧
      (∀ p, p ∈ s1.seenOf nt → p ∈ s3.seenOf nt) := by
  have hk := H.ghyp.kway
  -- the position `i` is done when nothing is pushed
  have hcstay : SuccDone s1 nt F args i ai si → CInv E rank s1 nt (some (Tree.node F args)) i := by
    intro hdone
    refine ⟨hc.keyed, hc.initial, hc.cover, ?_⟩
    intro F' args' v' hp' hk' j aj sj haj hsj hrk hex
    by_cases hji : some (Tree.node F args) = some (Tree.node F' args') ∧ j = i
    · obtain ⟨e1, e2⟩ := hji
      cases e1
      subst e2
      rw [hk'] at hkey
      cases hkey
      rw [hai] at haj; cases haj
      rw [hsi] at hsj; cases hsj
      exact hdone
    · apply hc.succs F' args' v' hp' hk' j aj sj haj hsj hrk
      intro e1
      have := hex e1
      have hne : j ≠ i := fun e2 => hji ⟨e1, e2⟩
      omega
  have hstay : SuccDone s1 nt F args i ai si → Base E s1 ∧ NTInv E s1 nt ∧ s1.succOf nt = s1.succOf nt ∧ Only nt s1 s1 ∧
      Stable s1 s1 ∧ AList.lookup (nt, Tree.node F args) s1.keys = some v ∧
      CInv E rank s1 nt (some (Tree.node F args)) i ∧ (∀ p, p ∈ s1.seenOf nt → p ∈ s1.seenOf nt) :=
    fun hdone => ⟨hb, hn, rfl, Only.refl nt s1, Stable.refl s1, hkey, hcstay hdone, fun _ h => h⟩
  unfold UHS.pushStep at hp
  cases r with
  | none => simp only [Option.some.injEq] at hp; subst hp; exact hstay (Or.inr (hr2 rfl))
  | some q =>
    simp only at hp
    split at hp
    · rename_i hseenq
      simp only [Option.some.injEq] at hp; subst hp
      exact hstay (Or.inl ⟨q, hr1 q rfl, by simpa using hseenq⟩)
    · rename_i hnew
      split at hp
      · simp at hp
      · rename_i s2 pr hcp
        simp only [Option.some.injEq] at hp
        subst hp
        obtain ⟨hqp, hqle⟩ := hr q rfl
        have hqd : Der E q si := hqp.der hb.sinv
        have hko' : KeyOK E nt F (args.set i q) v := ⟨hko.1, derList_set E args v i q si hko.2 hsi hqd⟩
        have hnew' : Tree.node F (args.set i q) ∉ s1.seenOf nt := by intro hm; apply hnew; simp [hm]
        have hs0 := (hb.sinv.addSeen nt _ hko'.der).setKey nt F (args.set i q) v hko'
        obtain ⟨hpr, hs2, hcs⟩ := hs0.computePrio H.ghyp nt _ hko'.der s2 pr hcp
        have hseen2 : Tree.node F (args.set i q) ∈ s2.seenOf nt := by
          rw [hcs.seenOf]; exact (mem_seenOf_addSeen s1 nt nt _ _).mpr (Or.inr ⟨rfl, rfl⟩)
        have hs3 := hs2.pushBoth H.ghyp nt pr _ hpr hseen2
        obtain ⟨n3, st3⟩ := hb.ninv.newPush hk nt pr _ hnew' (s2 := s2) (fun _ => hcs.heapOf _) (fun _ => hcs.seenOf _)
          (fun _ => hcs.succOf _) (by obtain ⟨c, rfl⟩ := hcs; rfl)
        have hpb : pushBoth E s2 nt pr (Tree.node F (args.set i q)) =
            s2.setHeap nt (Heapq.push (ltE E.ops) (s2.heapOf nt) (pr, Tree.node F (args.set i q))) := by
          unfold pushBoth pushOK
          rw [H.thr]
          simp [hk]
        have hh3 : HInvN E (pushBoth E s2 nt pr (Tree.node F (args.set i q))) :=
          HInvN.pushBoth_on H hs2 (by intro nt'; rw [hcs.heapOf]; exact hb.hinv nt') nt pr _ hpr
        have hsucc3 : ∀ nt', (pushBoth E s2 nt pr (Tree.node F (args.set i q))).succOf nt' = s1.succOf nt' := by
          intro nt'; rw [hpb]; show s2.succOf nt' = _; rw [hcs.succOf]; rfl
        have hkeys3 : (pushBoth E s2 nt pr (Tree.node F (args.set i q))).keys =
            AList.insert (nt, Tree.node F (args.set i q)) v s1.keys := by
          rw [hpb]; obtain ⟨c, rfl⟩ := hcs; rfl
        have hseen3 : ∀ p, p ∈ (pushBoth E s2 nt pr (Tree.node F (args.set i q))).seenOf nt ↔
            p ∈ s1.seenOf nt ∨ p = Tree.node F (args.set i q) := by
          intro p
          rw [hpb]
          show p ∈ s2.seenOf nt ↔ _
          rw [hcs.seenOf]
          have := mem_seenOf_addSeen s1 nt nt (Tree.node F (args.set i q)) p
          simp only [true_and] at this
          exact this
        have hheap3 : ∀ e, e ∈ (pushBoth E s2 nt pr (Tree.node F (args.set i q))).heapOf nt →
            e = (pr, Tree.node F (args.set i q)) ∨ e ∈ s1.heapOf nt := by
          intro e he
          rw [hpb, St.heapOf_setHeap, if_pos rfl, hcs.heapOf] at he
          exact List.mem_cons.mp ((Heapq.push_perm _ _ _).subset he)
        have hnp_ne : Tree.node F (args.set i q) ≠ Tree.node F args := fun e => hnew' (e ▸ hprogseen)
        have hPop3 : ∀ nt' x, Popped (pushBoth E s2 nt pr (Tree.node F (args.set i q))) nt' x ↔ Popped s1 nt' x := by
          intro nt' x; unfold Popped; rw [hsucc3]
        refine ⟨⟨hs3, n3, hh3, by rw [hpb]; obtain ⟨c, rfl⟩ := hcs; exact hb.delF⟩, ⟨?_, ?_, ?_, ?_, ?_, ?_, ?_, ?_⟩, hsucc3 nt,
          (((only_addSeen s1 nt _).trans (only_setKey _ nt _ v)).trans (only_cacheStep hcs nt)).trans
            (only_pushBoth E hk _ nt pr _), st3, ?_, ?_, fun p hp => (hseen3 p).mpr (Or.inl hp)⟩
        · rw [hpb]; obtain ⟨c, rfl⟩ := hcs; exact hn.init
        · rw [hsucc3]; exact hn.chain
        · rw [hsucc3]; exact hn.keys_nodup
        · obtain ⟨m, h1, h2⟩ := hn.first
          refine ⟨m, by rw [hpb]; obtain ⟨c, rfl⟩ := hcs; exact h1, Or.inl ?_⟩
          rw [hsucc3]
          rcases h2 with h2 | ⟨h2, _⟩
          · exact h2
          · exact absurd h2 hlive
        · intro F' kids v' hseen hk' j aj sj haj hsj
          rw [hPop3]
          rw [hkeys3, AList.lookup_insert] at hk'
          rcases (hseen3 _).mp hseen with hold | hnewp
          · rw [if_neg (by intro e; cases e; exact hnew' hold)] at hk'
            exact hn.args F' kids v' hold hk' j aj sj haj hsj
          · cases hnewp
            rw [if_pos rfl] at hk'
            have hv' : v = v' := Option.some.inj hk'
            subst hv'
            by_cases hji : j = i
            · subst hji
              rw [hsi] at hsj
              cases hsj
              have hlt : j < args.length := (List.getElem?_eq_some_iff.mp hai).1
              rw [List.getElem?_set_self hlt] at haj
              cases haj
              exact hqp
            · rw [List.getElem?_set_ne (fun e => hji e.symm)] at haj
              exact hn.args F args v hprogseen hkey j aj sj haj hsj
        · intro x hx e he
          rw [hPop3] at hx
          rcases hheap3 e he with rfl | hold
          · exact LE.trans H hko.der (hlatest x hx) (LE.set H hko hai hsi hqd hqle)
          · exact hn.heap_le x hx e hold
        · intro k x hk'
          rw [hsucc3] at hk'
          exact hn.sorted k x hk'
        · intro F' v' w' hm' a ha
          rw [hsucc3]
          exact hn.closed F' v' w' hm' a ha
        · rw [hkeys3, AList.lookup_insert, if_neg (by intro e; exact hnp_ne (congrArg Prod.snd e).symm)]
          exact hkey
        · -- the completeness invariant
          have hheapsub : ∀ p, p ∈ s1.heapProgs nt → p ∈ (pushBoth E s2 nt pr (Tree.node F (args.set i q))).heapProgs nt := by
            intro p hp'
            unfold St.heapProgs at hp' ⊢
            rw [hpb, St.heapOf_setHeap, if_pos rfl, hcs.heapOf]
            exact ((Heapq.push_perm (ltE E.ops) _ _).map (·.2)).symm.subset (List.mem_cons_of_mem _ hp')
          have hheapnew : Tree.node F (args.set i q) ∈ (pushBoth E s2 nt pr (Tree.node F (args.set i q))).heapProgs nt := by
            unfold St.heapProgs
            rw [hpb, St.heapOf_setHeap, if_pos rfl, hcs.heapOf]
            exact ((Heapq.push_perm (ltE E.ops) _ _).map (·.2)).symm.subset List.mem_cons_self
          have hheapo : ∀ sj, sj ≠ nt → (pushBoth E s2 nt pr (Tree.node F (args.set i q))).heapOf sj = s1.heapOf sj := by
            intro sj hne'
            rw [hpb, St.heapOf_setHeap, if_neg hne', hcs.heapOf]
            rfl
          have hinit3 : (pushBoth E s2 nt pr (Tree.node F (args.set i q))).initS = s1.initS := by
            rw [hpb]; obtain ⟨c, rfl⟩ := hcs; rfl
          refine ⟨?_, ?_, ?_, ?_⟩
          · intro p hp'
            rw [hkeys3, AList.lookup_insert]
            rcases (hseen3 p).mp hp' with hold | rfl
            · rw [if_neg (by intro e; cases e; exact hnew' hold)]
              exact hc.keyed p hold
            · rw [if_pos rfl]; exact ⟨v, rfl⟩
          · intro F' v' w' hm'
            obtain ⟨kids, h1, h2, h3⟩ := hc.initial F' v' w' hm'
            exact ⟨kids, (hseen3 _).mpr (Or.inl h1), h2, fun j aj sj a b => by rw [hsucc3]; exact h3 j aj sj a b⟩
          · intro p hp'
            rcases (hseen3 p).mp hp' with hold | rfl
            · rcases hc.cover p hold with h1 | h1 | h1
              · exact Or.inl (hheapsub p h1)
              · exact Or.inr (Or.inl ((hPop3 nt p).mpr h1))
              · exact Or.inr (Or.inr h1)
            · exact Or.inl hheapnew
          · intro F' args' v' hp'3 hk' j aj sj haj hsj hrk hex
            have hold : Tree.node F' args' ∈ s1.seenOf nt := by
              rcases (hseen3 _).mp hp'3.1 with h1 | h1
              · exact h1
              · exact absurd (h1 ▸ hheapnew) hp'3.2
            have hp' : Proc s1 nt (Tree.node F' args') := ⟨hold, fun hin => hp'3.2 (hheapsub _ hin)⟩
            rw [hkeys3, AList.lookup_insert, if_neg (by intro e; cases e; exact hnew' hold)] at hk'
            have hnej : sj ≠ nt := by intro e'; subst e'; exact Nat.lt_irrefl _ hrk
            have hlift : SuccDone s1 nt F' args' j aj sj →
                SuccDone (pushBoth E s2 nt pr (Tree.node F (args.set i q))) nt F' args' j aj sj := by
              rintro (⟨q', h1, h2⟩ | ⟨h1, h2, h3⟩)
              · exact Or.inl ⟨q', by rw [hsucc3]; exact h1, (hseen3 _).mpr (Or.inl h2)⟩
              · exact Or.inr ⟨by rw [hinit3]; exact h1, by rw [hheapo sj hnej]; exact h2, by rw [hsucc3]; exact h3⟩
            by_cases hji : some (Tree.node F args) = some (Tree.node F' args') ∧ j = i
            · obtain ⟨e1, e2⟩ := hji
              cases e1
              subst e2
              rw [hk'] at hkey
              cases hkey
              rw [hai] at haj; cases haj
              rw [hsi] at hsj; cases hsj
              exact Or.inl ⟨q, by rw [hsucc3]; exact hr1 q rfl, (hseen3 _).mpr (Or.inr rfl)⟩
            · apply hlift
              apply hc.succs F' args' v' hp' hk' j aj sj haj hsj hrk
              intro e1
              have := hex e1
              have hne'' : j ≠ i := fun e2 => hji ⟨e1, e2⟩
              omega

end PS.UHS
