/- The minimal costs, part 4: during and after the prologue every queue is a heap and the first cost
   of every completed non-terminal is a minimum of its queue (`HeadMin`); with parts 1-3 this gives
   the minimal-cost theorem for the state returned by `_init_non_terminal_(start); _reevaluate_()`. -/
import PS.Proofs.Enum.BeapRules
import PS.Proofs.Enum.BeapOrder
namespace PS.Beap
open PS PS.G PS.Heapq
set_option linter.unusedSectionVars false
variable {S : Type} [DecidableEq S]

/-- first cost ≤ every queue element -/
def HM (s : St S) (nt : NT S Unit) (c : Cost) : Prop := ∀ el ∈ s.queueOf nt, Cost.lt el.cost c = false

structure HInv (stk : List (NT S Unit)) (s : St S) : Prop where
  heap : ∀ nt, IsHeap ltE (s.queueOf nt)
  head : ∀ nt c rest, s.clOf nt = c :: rest → nt ∈ stk ∨ HM s nt c

theorem head_min_of_heap (q : List HeapEl) (e : HeapEl) (q' : List HeapEl) (hq : q = e :: q') (hh : IsHeap ltE q) :
    ∀ el ∈ q, Cost.lt el.cost e.cost = false := by
  intro el hel
  subst hq
  obtain ⟨i, hi, rfl⟩ := List.getElem_of_mem hel
  have := root_min ltE ltE_weak.ntrans ltE_weak.irrefl (e :: q') hh i hi
  exact cost_of_ltE_false _ _ this

theorem hinv_push {stk : List (NT S Unit)} {s : St S} (h : HInv stk s) (nt : NT S Unit) (hmem : nt ∈ stk) (x : HeapEl) :
    HInv stk (s.setQueue nt (Heapq.push ltE (s.queueOf nt) x)) := by
  refine ⟨fun nt' => ?_, fun nt' c rest hc => ?_⟩
  · rw [St.queueOf_setQueue]
    split
    · exact push_isHeap ltE_weak _ _ (h.heap nt)
    · exact h.heap nt'
  · by_cases heq : nt' = nt
    · subst heq; exact Or.inl hmem
    · rcases h.head nt' c rest (by simpa using hc) with h1 | h1
      · exact Or.inl h1
      · refine Or.inr (fun el he => h1 el ?_)
        rw [St.queueOf_setQueue] at he
        simpa [heq] using he

def INH (E : Env S) (n : Nat) : Prop := ∀ s nt s' stk, HInv stk s → initNT E n s nt = some s' → HInv stk s'
def IRH (E : Env S) (n : Nat) : Prop :=
  ∀ s nt rest s' stk, HInv stk s → nt ∈ stk → initRules E n s nt rest = some s' → HInv stk s'
def IAH (E : Env S) (n : Nat) : Prop := ∀ s as c r stk, HInv stk s → initArgs E n s as c = some r → HInv stk r.1

theorem inh_step (E : Env S) (n : Nat) (ihIR : IRH E n) : INH E (n + 1) := by
  intro s nt s' stk hs h
  unfold initNT at h
  split at h
  · cases h
  · next cl hcl =>
    split at h
    · cases h; exact hs
    · split at h
      · cases h
      · next rs hrs =>
        split at h
        · cases h
        · next s1 hir =>
          have hs0 : HInv (nt :: stk) (s.setCL nt (cl ++ [Cost.big])) := by
            refine ⟨fun nt' => hs.heap nt', fun nt' c rest hc' => ?_⟩
            rw [St.clOf_setCL] at hc'
            split at hc'
            · next heq => subst heq; exact Or.inl (List.mem_cons_self ..)
            · rcases hs.head nt' c rest hc' with h1 | h1
              · exact Or.inl (List.mem_cons_of_mem _ h1)
              · exact Or.inr h1
          have hs1 := ihIR _ _ _ _ _ hs0 (List.mem_cons_self ..) hir
          split at h
          · cases h
          · next e q hq =>
            cases h
            refine ⟨fun nt' => hs1.heap nt', fun nt' c rest hc' => ?_⟩
            rw [St.clOf_setCL] at hc'
            split at hc'
            · next heq =>
              subst heq
              right
              have hc0 : c = e.cost := by
                cases hcl1 : s1.clOf nt' with
                | nil => rw [hcl1] at hc'; simp at hc'
                | cons x xs =>
                  rw [hcl1] at hc'
                  simp only [List.set_cons_zero, List.cons.injEq] at hc'
                  exact hc'.1.symm
              subst hc0
              intro el hel
              exact head_min_of_heap _ e q hq (hs1.heap nt') el (by simpa using hel)
            · next hne =>
              rcases hs1.head nt' c rest hc' with h1 | h1
              · rcases List.mem_cons.mp h1 with h2 | h2
                · exact absurd h2 hne
                · exact Or.inl h2
              · exact Or.inr h1

theorem irh_step (E : Env S) (n : Nat) (ihIR : IRH E n) (ihIA : IAH E n) : IRH E (n + 1) := by
  intro s nt rest s' stk hs hmem h
  cases rest with
  | nil => simp only [initRules] at h; cases h; exact hs
  | cons pr rest =>
    obtain ⟨P, rl⟩ := pr
    simp only [initRules] at h
    split at h
    · cases h
    · split at h
      · cases h
      · next s1 cost hia =>
        have hs1 : HInv stk s1 := ihIA _ _ _ _ _ hs hia
        exact ihIR _ _ _ _ _ (hinv_push hs1 nt hmem _) hmem h

theorem iah_step (E : Env S) (n : Nat) (ihIN : INH E n) (ihIA : IAH E n) : IAH E (n + 1) := by
  intro s as c r stk hs h
  cases as with
  | nil => simp only [initArgs] at h; cases h; exact hs
  | cons a as =>
    simp only [initArgs] at h
    split at h
    · cases h
    · next s1 hin =>
      have hs1 := ihIN _ _ _ _ hs hin
      split at h
      · cases h
      · exact ihIA _ _ _ _ _ hs1 h

theorem init_hinv (E : Env S) : ∀ n, INH E n ∧ IRH E n ∧ IAH E n := by
  intro n
  induction n with
  | zero =>
    refine ⟨?_, ?_, ?_⟩
    · intro s nt s' stk _ h; simp [initNT] at h
    · intro s nt rest s' stk _ _ h; simp [initRules] at h
    · intro s as c r stk _ h; simp [initArgs] at h
  | succ n ih =>
    obtain ⟨a, b, c⟩ := ih
    exact ⟨inh_step E n b, irh_step E n b c, iah_step E n a c⟩

theorem reevalPass_hinv (E : Env S) : ∀ (nts : List (NT S Unit)) (s : St S) (ch : Bool) (r : St S × Bool),
    HInv [] s → reevalPass E nts s ch = some r → HInv [] r.1 := by
  intro nts
  induction nts with
  | nil => intro s ch r hs h; simp only [reevalPass] at h; cases h; exact hs
  | cons nt rest ih =>
    intro s ch r hs h
    simp only [reevalPass] at h
    split at h
    · cases h
    · next nq hnq =>
      split at h
      · split at h
        · next e q' c0 cl' hh hcl =>
          refine ih _ _ _ ⟨fun nt' => ?_, fun nt' c rest hc => ?_⟩ h
          · show IsHeap ltE ((s.setQueue nt (e :: q')).queueOf nt')
            rw [St.queueOf_setQueue]
            split
            · rw [← hh]; exact heapify_isHeap ltE_weak nq
            · exact hs.heap nt'
          · right
            have hc' : ((s.setQueue nt (e :: q')).clOf nt' = s.clOf nt') := rfl
            rw [St.clOf_setCL] at hc
            by_cases heq : nt' = nt
            · subst heq
              simp only [if_true, List.cons.injEq] at hc
              obtain ⟨rfl, _⟩ := hc
              intro el hel
              have hel' : el ∈ e :: q' := by
                have : ((s.setQueue nt' (e :: q')).setCL nt' (e.cost :: cl')).queueOf nt' = e :: q' := by
                  simp [St.queueOf_setQueue]
                rw [this] at hel; exact hel
              exact head_min_of_heap (e :: q') e q' rfl (hh ▸ heapify_isHeap ltE_weak nq) el hel'
            · simp only [heq, if_false] at hc
              rcases hs.head nt' c rest hc with h1 | h1
              · cases h1
              · intro el hel
                refine h1 el ?_
                have : ((s.setQueue nt (e :: q')).setCL nt (e.cost :: cl')).queueOf nt' = s.queueOf nt' := by
                  simp [St.queueOf_setQueue, heq]
                rw [this] at hel; exact hel
        · cases h
      · exact ih _ _ _ hs h

theorem reevalLoop_hinv (E : Env S) : ∀ (k : Nat) (s s' : St S), HInv [] s → reevalLoop E k s = some s' → HInv [] s' := by
  intro k
  induction k with
  | zero => intro s s' _ h; simp [reevalLoop] at h
  | succ k ih =>
    intro s s' hs h
    simp only [reevalLoop] at h
    split at h
    · cases h
    · next s1 hp => exact ih _ _ (reevalPass_hinv E _ _ _ _ hs hp) h
    · next s1 hp => cases h; exact reevalPass_hinv E _ _ _ _ hs hp

theorem hinv_empty (G : TT S Unit) : HInv [] (St.empty G) := by
  refine ⟨fun nt => ?_, fun nt c rest hc => ?_⟩
  · have : (St.empty G).queueOf nt = [] := lookup_map_nil G.rules nt
    rw [this]; exact isHeap_nil ltE
  · have : (St.empty G).clOf nt = [] := lookup_map_nil G.rules nt
    rw [this] at hc; cases hc

/-- after the prologue the first cost of every non-terminal is a minimum of its queue, and every queue is a heap -/
theorem prologue_headMin (E : Env S) (fuel : Nat) (s' : St S)
    (h : prologue E fuel (St.empty E.G) = some s') : HeadMin s' ∧ ∀ nt, IsHeap ltE (s'.queueOf nt) := by
  have key : HInv [] s' := by
    unfold prologue at h
    split at h
    · cases h
    · next s1 hin =>
      have h1 := (init_hinv E fuel).1 _ _ _ _ (hinv_empty E.G) hin
      unfold reevaluate at h
      split at h
      · exact reevalLoop_hinv E _ _ _ h1 h
      · cases h; exact h1
  refine ⟨fun nt c rest hc => ?_, key.heap⟩
  rcases key.head nt c rest hc with h1 | h1
  · cases h1
  · exact h1

/-- **the minimal-cost theorem for the state after the prologue** (a fixpoint: e.g. recursive flag set): for every
    initialised non-terminal, `_cost_lists[S][0]` is a lower bound of the cost of every program derivable
    from `S`, is finite as soon as such a program exists, and is then the cost of a derivable program -/
theorem prologue_minCost (E : Env S) (hnd : RowsNodup E.G) (hst : StableAfter E) (fuel : Nat) (s' : St S)
    (h : prologue E fuel (St.empty E.G) = some s') (nt : NT S Unit) (c : Cost) (rest : List Cost)
    (hc : s'.clOf nt = c :: rest) :
    (∀ t k, costOf E t nt = some k → c.inf = 0 ∧ c.fin ≤ k) ∧
    (c.inf = 0 → ∃ t, gen E.G t nt = true ∧ costOf E t nt = some c.fin) := by
  have hst : Stable E s' := hst fuel s' h
  exact minCost_spec E s' (prologue_minv E hnd fuel _ _ (minv_empty E) h) (prologue_headMin E fuel s' h).1
    (prologue_allRules E fuel s' h) hst nt c rest hc

end PS.Beap
