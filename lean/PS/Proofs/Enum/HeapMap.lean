/- heapq commutes with an order-preserving embedding; hence the heap lemmas hold for an order that
   is a strict weak order only on a subset of the elements (bucket tuples of one length). -/
import PS.Proofs.Enum.HeapRoot
namespace PS.Heapq
variable {α β : Type}

theorem swap_map (f : β → α) (h : List β) (i j : Nat) : (swap h i j).map f = swap (h.map f) i j := by
  unfold swap
  simp only [List.getElem?_map]
  cases h[i]? with
  | none => rfl
  | some a =>
    cases h[j]? with
    | none => rfl
    | some b => simp [List.map_set]

theorem ltAt_map (f : β → α) (lt : α → α → Bool) (lt' : β → β → Bool) (hlt : ∀ a b, lt' a b = lt (f a) (f b))
    (h : List β) (i j : Nat) : ltAt lt (h.map f) i j = ltAt lt' h i j := by
  unfold ltAt
  simp only [List.getElem?_map]
  cases h[i]? with
  | none => rfl
  | some a =>
    cases h[j]? with
    | none => rfl
    | some b => simp [hlt]

theorem siftdown_map (f : β → α) (lt : α → α → Bool) (lt' : β → β → Bool) (hlt : ∀ a b, lt' a b = lt (f a) (f b)) :
    ∀ (fuel : Nat) (h : List β) (pos : Nat), (siftdown lt' fuel h pos).map f = siftdown lt fuel (h.map f) pos := by
  intro fuel
  induction fuel with
  | zero => intro h pos; rfl
  | succ n ih =>
    intro h pos
    unfold siftdown
    by_cases hp : pos = 0
    · simp [hp]
    · simp only [hp, if_false, ltAt_map f lt lt' hlt]
      split
      · rw [ih, swap_map]
      · rfl

theorem bubble_map (f : β → α) (lt : α → α → Bool) (lt' : β → β → Bool) (hlt : ∀ a b, lt' a b = lt (f a) (f b)) :
    ∀ (fuel : Nat) (h : List β) (pos : Nat),
      ((bubble lt' fuel h pos).1.map f, (bubble lt' fuel h pos).2) = bubble lt fuel (h.map f) pos := by
  intro fuel
  induction fuel with
  | zero => intro h pos; rfl
  | succ n ih =>
    intro h pos
    unfold bubble
    simp only [List.length_map, ltAt_map f lt lt' hlt]
    split
    · rw [← swap_map]; exact ih _ _
    · rfl

theorem push_map (f : β → α) (lt : α → α → Bool) (lt' : β → β → Bool) (hlt : ∀ a b, lt' a b = lt (f a) (f b))
    (h : List β) (x : β) : (push lt' h x).map f = push lt (h.map f) (f x) := by
  unfold push
  rw [siftdown_map f lt lt' hlt]
  simp

theorem siftup_map (f : β → α) (lt : α → α → Bool) (lt' : β → β → Bool) (hlt : ∀ a b, lt' a b = lt (f a) (f b))
    (h : List β) : (siftup lt' h).map f = siftup lt (h.map f) := by
  unfold siftup
  have hb := bubble_map f lt lt' hlt h.length h 0
  simp only [List.length_map]
  rw [← hb]
  simp only
  exact siftdown_map f lt lt' hlt _ _ _

theorem pop_map (f : β → α) (lt : α → α → Bool) (lt' : β → β → Bool) (hlt : ∀ a b, lt' a b = lt (f a) (f b))
    (h : List β) : (pop lt' h).map (fun r => (f r.1, r.2.map f)) = pop lt (h.map f) := by
  unfold pop
  rw [List.getLast?_map]
  cases h.getLast? with
  | none => rfl
  | some last =>
    simp only [Option.map_some]
    rw [← List.map_dropLast]
    cases h.dropLast with
    | nil => rfl
    | cons top rest =>
      simp only [List.map_cons, Option.map_some]
      rw [siftup_map f lt lt' hlt]
      rfl

theorem isHeap_map (f : β → α) (lt : α → α → Bool) (lt' : β → β → Bool) (hlt : ∀ a b, lt' a b = lt (f a) (f b))
    (h : List β) : IsHeap lt (h.map f) ↔ IsHeap lt' h := by
  unfold IsHeap
  constructor
  · intro hh i hi h0
    have := hh i (by simpa using hi) h0
    simpa [hlt] using this
  · intro hh i hi h0
    have := hh i (by simpa using hi) h0
    simpa [hlt] using this

/-! ### orders that are strict weak orders on a subset -/

/-- `lt` is a strict weak order on the elements satisfying `P` -/
def WeakOrderOn (P : α → Prop) (lt : α → α → Bool) : Prop :=
  WeakOrder (fun a b : { x // P x } => lt a.1 b.1)

theorem WeakOrderOn.asymm {P : α → Prop} {lt : α → α → Bool} (w : WeakOrderOn P lt) {a b : α} (ha : P a) (hb : P b)
    (h : lt a b = true) : lt b a = false := WeakOrder.asymm w ⟨a, ha⟩ ⟨b, hb⟩ h
theorem WeakOrderOn.ntrans {P : α → Prop} {lt : α → α → Bool} (w : WeakOrderOn P lt) {a b c : α} (ha : P a) (hb : P b)
    (hc : P c) (h1 : lt b a = false) (h2 : lt c b = false) : lt c a = false :=
  WeakOrder.ntrans w ⟨a, ha⟩ ⟨b, hb⟩ ⟨c, hc⟩ h1 h2
theorem WeakOrderOn.irrefl {P : α → Prop} {lt : α → α → Bool} (w : WeakOrderOn P lt) {a : α} (ha : P a) :
    lt a a = false := WeakOrder.irrefl w ⟨a, ha⟩
theorem WeakOrder.on {lt : α → α → Bool} (w : WeakOrder lt) (P : α → Prop) : WeakOrderOn P lt :=
  ⟨fun a b h => w.asymm a.1 b.1 h, fun a b c h1 h2 => w.ntrans a.1 b.1 c.1 h1 h2⟩

theorem push_isHeap_on {P : α → Prop} {lt : α → α → Bool} (w : WeakOrderOn P lt) (h : List α) (x : α)
    (hP : ∀ y ∈ h, P y) (hx : P x) (hh : IsHeap lt h) : IsHeap lt (push lt h x) := by
  have e1 : (h.attachWith P hP).map Subtype.val = h := by simp
  have hmap := push_map (Subtype.val : { y // P y } → α) lt (fun a b => lt a.1 b.1) (fun _ _ => rfl)
    (h.attachWith P hP) ⟨x, hx⟩
  rw [e1] at hmap
  rw [← hmap, isHeap_map _ lt _ (fun _ _ => rfl)]
  apply push_isHeap w
  rw [← isHeap_map (Subtype.val : { y // P y } → α) lt _ (fun _ _ => rfl), e1]
  exact hh

theorem pop_isHeap_on {P : α → Prop} {lt : α → α → Bool} (w : WeakOrderOn P lt) (h : List α) (x : α) (h' : List α)
    (hP : ∀ y ∈ h, P y) (hh : IsHeap lt h) (hp : pop lt h = some (x, h')) :
    IsHeap lt h' ∧ ∀ y ∈ h, lt y x = false := by
  have e1 : (h.attachWith P hP).map Subtype.val = h := by simp
  have hmap := pop_map (Subtype.val : { y // P y } → α) lt (fun a b => lt a.1 b.1) (fun _ _ => rfl) (h.attachWith P hP)
  rw [e1, hp] at hmap
  cases hq : pop (fun a b : { y // P y } => lt a.1 b.1) (h.attachWith P hP) with
  | none => rw [hq] at hmap; cases hmap
  | some r =>
    obtain ⟨x', h''⟩ := r
    rw [hq] at hmap
    simp only [Option.map_some, Option.some.injEq, Prod.mk.injEq] at hmap
    obtain ⟨hx', hh''⟩ := hmap
    have hheap' : IsHeap (fun a b : { y // P y } => lt a.1 b.1) (h.attachWith P hP) := by
      rw [← isHeap_map (Subtype.val : { y // P y } → α) lt _ (fun _ _ => rfl), e1]; exact hh
    obtain ⟨a1, a2⟩ := pop_isHeap w _ _ _ hheap' hq
    refine ⟨?_, ?_⟩
    · rw [← hh'', isHeap_map _ lt _ (fun _ _ => rfl)]; exact a1
    · intro y hy
      have := a2 ⟨y, hP y hy⟩ (by simp [List.mem_attachWith]; exact hy)
      rw [← hx']; exact this

theorem push_head_on {P : α → Prop} {lt : α → α → Bool} (w : WeakOrderOn P lt) (h : List α) (x : α)
    (hP : ∀ y ∈ h, P y) (hx : P x) (hh : IsHeap lt h) : (push lt h x).head? = bestStep lt h.head? x := by
  have e1 : (h.attachWith P hP).map Subtype.val = h := by simp
  have hmap := push_map (Subtype.val : { y // P y } → α) lt (fun a b => lt a.1 b.1) (fun _ _ => rfl)
    (h.attachWith P hP) ⟨x, hx⟩
  rw [e1] at hmap
  have hheap' : IsHeap (fun a b : { y // P y } => lt a.1 b.1) (h.attachWith P hP) := by
    rw [← isHeap_map (Subtype.val : { y // P y } → α) lt _ (fun _ _ => rfl), e1]; exact hh
  have := push_head w _ ⟨x, hx⟩ hheap'
  rw [← hmap, List.head?_map, this]
  have e2 : h.head? = ((h.attachWith P hP).head?).map Subtype.val := by
    conv => lhs; rw [← e1]
    rw [List.head?_map]
  rw [e2]
  cases (h.attachWith P hP).head? with
  | none => rfl
  | some b =>
    simp only [bestStep, Option.map_some]
    split <;> rfl

end PS.Heapq
