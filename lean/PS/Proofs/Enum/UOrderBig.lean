/- Heap search on unambiguous, acyclic grammars: every call keeps the order invariant
   (rule induction on the big-step relation). -/
import PS.Proofs.Enum.UOrderStep
namespace PS.UHS
open PS PS.G
set_option linter.unusedSectionVars false
variable {U π : Type} [DecidableEq U]
variable {E : Env U π} {rank : UNT U → Nat} {Good : π → Prop}

/-- the (symbol, alternative) pairs of a list of rules, in the order of the two phases of
    `__init_non_terminal__` -/
def flatOf (rs : List (Sym × List (List (UNT U) × Rat))) : List (Sym × List (UNT U)) :=
  rs.flatMap fun r => r.2.map fun vw => (r.1, vw.1)

def altsFlat (P : Sym) (alts : List (List (UNT U) × Rat)) : List (Sym × List (UNT U)) := alts.map fun vw => (P, vw.1)

/-- the returned program is not better than the key -/
def ResLE (E : Env U π) (nt : UNT U) (p : Option Prog) : Res π → Prop
  | .prog r => ∀ q, r = some q → ∀ k, p = some k → LE E nt k q
  | _ => True

/-- phase 1 has treated the alternatives `flat` -/
def ResPhase (E : Env U π) (s s' : St U π) (nt : UNT U) (flat : List (Sym × List (UNT U))) (best : Option (Prog × π)) :
    Res π → Prop
  | .best best' => ∀ done items, Phase1 E s nt done items best → (done ++ flat).Nodup →
      ∃ items', Phase1 E s' nt (done ++ flat) (items ++ items') best'
  | _ => True

/-- the arguments found are the first pops of their non-terminals -/
def ResArgs (s' : St U π) (v : List (UNT U)) (acc : List Prog) : Res π → Prop
  | .args l => ∃ l', l = acc ++ l' ∧ l'.length = v.length ∧
      ∀ (i : Nat) (ai : Prog) (si : UNT U), l'[i]? = some ai → v[i]? = some si →
        AList.lookup none (s'.succOf si) = some ai
  | _ => True

/-- `None` is only returned by an exhausted non-terminal -/
def ResExh (s' : St U π) (nt : UNT U) (p : Option Prog) : Res π → Prop
  | .prog r => r = none → s'.heapOf nt = [] ∧ AList.lookup p (s'.succOf nt) = none
  | _ => True

/-- the length of the argument list of the program -/
def arity : Prog → Nat
  | .node _ kids => kids.length

/-- the first query of a non-terminal happens before any program was rejected -/
def FirstOK (s : St U π) (nt : UNT U) : Prop := s.succOf nt = [] → s.deleted = []

/-- the order precondition of a call -/
def OPre (E : Env U π) (rank : UNT U → Nat) : Call U π → St U π → Prop
  | .query nt p, s => Below E rank (rank nt) s ∧ (Uninit s nt ∨ (NTInv E s nt ∧ CInv E rank s nt none 0)) ∧
      (∀ k, p = some k → Popped s nt k) ∧ FirstOK s nt
  | .lop nt p, s => Below E rank (rank nt) s ∧ (NTInv E s nt ∧ CInv E rank s nt none 0) ∧ (∀ k, p = some k → Popped s nt k) ∧
      FirstOK s nt
  | .popLoop nt p, s => Below E rank (rank nt) s ∧ (NTInv E s nt ∧ CInv E rank s nt none 0) ∧
      (∀ k, p = some k → Popped s nt k) ∧ FirstOK s nt
  | .addSucc prog nt, s => Below E rank (rank nt) s ∧ (NTInv E s nt ∧ CInv E rank s nt (some prog) (arity prog)) ∧
      prog ∈ s.seenOf nt ∧ s.succOf nt ≠ [] ∧ (∀ x, Popped s nt x → LE E nt x prog)
  | .addLoop F args nt v i, s => Below E rank (rank nt) s ∧ (NTInv E s nt ∧ CInv E rank s nt (some (.node F args)) i) ∧
      Tree.node F args ∈ s.seenOf nt ∧ s.succOf nt ≠ [] ∧
      (∀ x, Popped s nt x → LE E nt x (.node F args)) ∧ AList.lookup (nt, .node F args) s.keys = some v
  | .initNT nt, s => Below E rank (rank nt) s ∧ (Uninit s nt ∨ Full E rank s nt) ∧ FirstOK s nt
  | .initRules nt _ _, s => Below E rank (rank nt) s ∧ Mid s nt ∧ s.deleted = []
  | .initAlts nt _ _ _, s => Below E rank (rank nt) s ∧ Mid s nt ∧ s.deleted = []
  | .initArgs v acc, s => Below E rank (Call.bound rank (.initArgs v acc : Call U π)) s ∧ s.deleted = []

/-- the order postcondition of a call -/
def OPost (E : Env U π) (rank : UNT U → Nat) : Call U π → St U π → St U π → Res π → Prop
  | .query nt p, _, s', r => Below E rank (rank nt) s' ∧ Full E rank s' nt ∧ ResLE E nt p r ∧ ResExh s' nt p r
  | .lop nt p, _, s', r => Below E rank (rank nt) s' ∧ Full E rank s' nt ∧ ResLE E nt p r ∧ ResExh s' nt p r
  | .popLoop nt p, _, s', r => Below E rank (rank nt) s' ∧ Full E rank s' nt ∧ ResLE E nt p r ∧ ResExh s' nt p r
  | .addSucc _ nt, s, s', _ => Below E rank (rank nt) s' ∧ (NTInv E s' nt ∧ CInv E rank s' nt none 0) ∧
      s'.succOf nt = s.succOf nt
  | .addLoop _ _ nt _ _, s, s', _ => Below E rank (rank nt) s' ∧ (NTInv E s' nt ∧ CInv E rank s' nt none 0) ∧
      s'.succOf nt = s.succOf nt
  | .initNT nt, _, s', _ => Below E rank (rank nt) s' ∧ Full E rank s' nt
  | .initRules nt rs best, s, s', r => Below E rank (rank nt) s' ∧ Mid s' nt ∧ ResPhase E s s' nt (flatOf rs) best r
  | .initAlts nt P alts best, s, s', r => Below E rank (rank nt) s' ∧ Mid s' nt ∧
      ResPhase E s s' nt (altsFlat P alts) best r
  | .initArgs v acc, _, s', r => Below E rank (Call.bound rank (.initArgs v acc : Call U π)) s' ∧ ResArgs s' v acc r

theorem ntinv_live_of_first {s : St U π} {nt : UNT U} (hn : NTInv E s nt) (hh : s.heapOf nt = []) :
    s.succOf nt ≠ [] := by
  obtain ⟨m, _, h2⟩ := hn.first
  rcases h2 with h2 | ⟨_, pr, h3⟩
  · intro e; rw [e] at h2; cases h2
  · rw [hh] at h3; cases h3

/-- the state after phase 1 and `max_priority[S] = best`, phase 2 done: the order invariant holds -/
theorem ntinv_after_initPush (H : OHyp E rank Good) {s1 s3 : St U π} {nt : UNT U} {rs} {b : Prog × π}
    {items : List (π × Prog)} (hmid : Mid s1 nt)
    (hph : Phase1 E s1 nt (flatOf rs) items (some b))
    (hp : initPush E { s1 with maxNT := AList.insert nt b.1 s1.maxNT } nt (flatOf rs) = some s3)
    (hb2 : Base E { s1 with maxNT := AList.insert nt b.1 s1.maxNT })
    (hflat : ∀ F v w, (v, w) ∈ altsOf E nt F → (F, v) ∈ flatOf rs) :
    Base E s3 ∧ (NTInv E s3 nt ∧ CInv E rank s3 nt none 0) ∧ Only nt s1 s3 ∧ Stable s1 s3 ∧ s3.deleted = s1.deleted := by
  have hit : Items (ItemOK E { s1 with maxNT := AList.insert nt b.1 s1.maxNT } nt) (flatOf rs) items :=
    Items.mono (fun d it _ h => h) hph.ok
  obtain ⟨r1, r2, r3, r4, r5, r6, r7, r8, r9, r10, r11⟩ := initPush_spec H nt _ items _ s3 hit hb2 hp
  obtain ⟨m1, m2, m3, m4⟩ := hmid
  have hheap : s3.heapOf nt = items.foldl (Heapq.push (ltE E.ops)) [] := by rw [r4]; show List.foldl _ (s1.heapOf nt) _ = _; rw [m2]
  have hseen : s3.seenOf nt = items.map (·.2) := by rw [r5]; show s1.seenOf nt ++ _ = _; rw [m4]; rfl
  have hsucc : s3.succOf nt = [] := by rw [r6]; exact m3
  have hst : Stable s1 s3 := r3
  refine ⟨r1, ⟨⟨?_, ?_, ?_, ?_, ?_, ?_, ?_, ?_⟩, ?_, ?_, ?_, ?_⟩, (only_setMaxNT s1 nt b.1).trans r2, hst, r11⟩
  · rw [r7]; exact m1
  · rw [hsucc]; trivial
  · rw [hsucc]; exact List.nodup_nil
  · refine ⟨b.1, by rw [r8]; exact AList.lookup_insert_self _ _ _, Or.inr ⟨hsucc, b.2, ?_⟩⟩
    rw [hheap, ← hph.root]; rfl
  · intro F kids v hm hk i ai si hai hsi
    rw [hseen] at hm
    obtain ⟨it, hit', hite⟩ := List.mem_map.mp hm
    obtain ⟨⟨dP, dv⟩, _, hmr, hpr, w, kids', hmw, hprog, hdl, hpop, _⟩ := Items.mem_right hph.ok it hit'
    rw [hite] at hprog
    simp only at hprog hmw hdl hpop
    have e1 : F = dP := by injection hprog
    have e2 : kids = kids' := by injection hprog
    subst e1; subst e2
    have hko := r1.sinv.keys_ok nt F kids v hk
    obtain ⟨w', hw'⟩ := hko.1
    obtain ⟨rfl, _⟩ := H.ualt nt F kids v w' dv w hw' hmw hko.2 hdl
    exact ⟨none, hst _ _ _ (hpop i ai si hai hsi)⟩
  · intro x hx
    obtain ⟨k, hk⟩ := hx
    rw [hsucc] at hk; cases hk
  · intro k x hk
    rw [hsucc] at hk; cases hk
  · intro F v w hm a ha
    obtain ⟨it, _, hok⟩ := Items.mem_left hph.ok (F, v) (hflat F v w hm)
    obtain ⟨_, _, w', kids, _, _, hdl, hpop, _⟩ := hok
    simp only at hdl hpop
    obtain ⟨j, hj⟩ := List.getElem?_of_mem ha
    have hjl : j < kids.length := by
      rw [derList_length E _ _ hdl]; exact (List.getElem?_eq_some_iff.mp hj).1
    exact ⟨kids[j], hst _ _ _ (hpop j _ a (List.getElem?_eq_getElem hjl) hj)⟩
  · intro p hp'
    rw [hseen] at hp'
    obtain ⟨it, hit', rfl⟩ := List.mem_map.mp hp'
    obtain ⟨v', hv'⟩ := r10 it hit'
    exact ⟨v', by rw [r9]; exact hv'⟩
  · intro F v w hm
    obtain ⟨it, hit', hok⟩ := Items.mem_left hph.ok (F, v) (hflat F v w hm)
    obtain ⟨_, _, w', kids, _, hprog, hdl, hpop, _⟩ := hok
    simp only at hprog hdl hpop
    refine ⟨kids, ?_, derList_length E _ _ hdl, fun j aj sj a b => hst _ _ _ (hpop j aj sj a b)⟩
    rw [hseen, ← hprog]
    exact List.mem_map.mpr ⟨it, hit', rfl⟩
  · intro p hp'
    left
    rw [hseen] at hp'
    unfold St.heapProgs
    rw [hheap]
    exact ((Heapq.foldl_push_perm (ltE E.ops) items []).map (·.2)).symm.subset (by simpa using hp')
  · intro F args v hp'
    exfalso
    apply hp'.2
    have hs := hp'.1
    rw [hseen] at hs
    unfold St.heapProgs
    rw [hheap]
    exact ((Heapq.foldl_push_perm (ltE E.ops) items []).map (·.2)).symm.subset (by simpa using hs)

/-- one alternative of phase 1 -/
theorem alt_step (H : OHyp E rank Good) {s s1 s3 : St U π} {nt : UNT U} {P : Sym} {v : List (UNT U)} {w : Rat}
    {arguments : List Prog} {pr : π} {best : Option (Prog × π)}
    (hb : Base E s) (hbelow : Below E rank (rank nt) s) (hmid : Mid s nt) (hm : (v, w) ∈ altsOf E nt P)
    (ha : Big E (.initArgs v []) s s1 (.args arguments))
    (hpost : OPost E rank (.initArgs v []) s s1 (.args arguments))
    (hc : computePrio E { s1 with keys := AList.insert (nt, .node P arguments) v s1.keys } nt (.node P arguments)
      = some (s3, pr)) :
    Base E { s3 with maxRule := AList.insert (nt, P, v) (.node P arguments) s3.maxRule } ∧
    Below E rank (rank nt) { s3 with maxRule := AList.insert (nt, P, v) (.node P arguments) s3.maxRule } ∧
    Mid { s3 with maxRule := AList.insert (nt, P, v) (.node P arguments) s3.maxRule } nt ∧
    Der E (.node P arguments) nt ∧
    (∀ done items, Phase1 E s nt done items best → (P, v) ∉ done →
      Phase1 E { s3 with maxRule := AList.insert (nt, P, v) (.node P arguments) s3.maxRule } nt (done ++ [(P, v)])
        (items ++ [(pr, .node P arguments)]) (bestUpd E.ops.lt best (.node P arguments) pr)) := by
  obtain ⟨hb1, hst1, hfr1, _, hargs, hkept1⟩ := big_all H ha hb trivial trivial
  have hbound : Call.bound rank (.initArgs v [] : Call U π) ≤ rank nt :=
    bound_le_of_forall rank v _ (H.acyclic nt P v w hm)
  have hfr1' : Frame rank (Call.bound rank (.initArgs v [] : Call U π)) none s s1 := hfr1
  have hsame1 : Same s s1 nt := hfr1' nt hbound (by simp)
  have hl : DerList E arguments v := by simpa using hargs [] trivial
  obtain ⟨hbel1, l', hl', hlen, hpop⟩ := hpost
  simp only [List.nil_append] at hl'
  subst hl'
  have hcs := computePrio_step E hc
  obtain ⟨hs4, hd⟩ := hb1.sinv.altStep H.ghyp nt P v w arguments pr hm hl hc
  have hko : KeyOK E nt P arguments v := ⟨⟨w, hm⟩, hl⟩
  obtain ⟨hpr, _, _⟩ := (hb1.sinv.setKey nt P arguments v hko).computePrio H.ghyp nt _ hko.der s3 pr hc
  have ho : Only nt s1 { s3 with maxRule := AList.insert (nt, P, v) (.node P arguments) s3.maxRule } :=
    ((only_setKey s1 nt _ v).trans (only_cacheStep hcs nt)).trans (only_setMaxRule s3 nt P v _)
  have hsucc : ∀ nt', St.succOf { s3 with maxRule := AList.insert (nt, P, v) (.node P arguments) s3.maxRule } nt' =
      s1.succOf nt' := fun nt' => by show s3.succOf nt' = _; rw [hcs.succOf]; rfl
  have hst : Stable s1 { s3 with maxRule := AList.insert (nt, P, v) (.node P arguments) s3.maxRule } :=
    Stable.of_succOf hsucc
  have hmid1 : Mid s1 nt := hmid.transfer hsame1
  refine ⟨⟨hs4, ?_, ?_, ?_⟩, ?_, ?_, hd, ?_⟩
  · exact ((hb1.ninv.congr (s' := { s1 with keys := AList.insert (nt, .node P arguments) v s1.keys })
      (fun _ => rfl) (fun _ => rfl) (fun _ => rfl) rfl).cacheStep hcs).congr (fun _ => rfl) (fun _ => rfl)
      (fun _ => rfl) rfl
  · intro nt'
    show Heapq.IsHeap _ (s3.heapOf nt')
    rw [hcs.heapOf]
    exact hb1.hinv nt'
  · show ∀ q, q ∈ s3.deleted → E.filter q = false
    obtain ⟨c, rfl⟩ := hcs
    exact hb1.delF
  · exact ((hbelow.merge_none hfr1' hst1 (fun sj => hkept1 sj (by simp [Call.inner])) hbel1).only ho hst (Nat.le_refl _))
  · obtain ⟨a1, a2, a3, a4⟩ := hmid1
    refine ⟨?_, ?_, ?_, ?_⟩
    · show s3.initS.contains nt = true
      obtain ⟨c, rfl⟩ := hcs; exact a1
    · show s3.heapOf nt = []
      rw [hcs.heapOf]; exact a2
    · rw [hsucc]; exact a3
    · show s3.seenOf nt = []
      rw [hcs.seenOf]; exact a4
  · intro done items hph hnd
    apply hph.step H (P, v) pr (.node P arguments)
    · intro d' it hd' ⟨c1, c2, w', kids', c3, c4, c5, c6, c7⟩
      refine ⟨?_, c2, w', kids', c3, c4, c5, fun i ai si h1 h2 => hst _ _ _ (hst1 _ _ _ (c6 i ai si h1 h2)), ?_⟩
      · show AList.lookup (nt, d'.1, d'.2) (AList.insert (nt, P, v) _ s3.maxRule) = _
        rw [AList.lookup_insert_ne _ _ (by intro e; apply hnd; cases e; exact hd')]
        have : s3.maxRule = s1.maxRule := by obtain ⟨c, rfl⟩ := hcs; rfl
        rw [this, hsame1.maxRule]
        exact c1
      · -- the key of an earlier alternative is not overwritten: its program is another one
        show AList.lookup (nt, it.2) s3.keys = some d'.2
        have hk3 : s3.keys = AList.insert (nt, Tree.node P arguments) v s1.keys := by obtain ⟨c, rfl⟩ := hcs; rfl
        rw [hk3, AList.lookup_insert]
        split
        · rename_i heq
          exfalso
          have hprog : it.2 = Tree.node P arguments := congrArg Prod.snd heq
          rw [c4] at hprog
          have e1 : d'.1 = P := by injection hprog
          have e2 : kids' = arguments := by injection hprog
          subst e2
          rw [e1] at c3
          obtain ⟨e3, _⟩ := H.ualt nt P kids' d'.2 w' v w c3 hm c5 hl
          apply hnd
          have : d' = (P, v) := Prod.ext e1 e3
          rw [← this]; exact hd'
        · rw [hsame1.keys]; exact c7
    · refine ⟨AList.lookup_insert_self _ _ _, hpr, w, arguments, hm, rfl, hl, ?_, ?_⟩
      · intro i ai si h1 h2
        exact hst _ _ _ (hpop i ai si h1 h2)
      · show AList.lookup (nt, Tree.node P arguments) s3.keys = some v
        have hk3 : s3.keys = AList.insert (nt, Tree.node P arguments) v s1.keys := by obtain ⟨c, rfl⟩ := hcs; rfl
        rw [hk3]; exact AList.lookup_insert_self _ _ _

theorem rows_alts (H : GHyp E) {nt : UNT U} {rs} (hrs : AList.lookup nt E.G.rules = some rs) :
    ∀ x ∈ rs, altsOf E nt x.1 = x.2 := by
  intro x hx
  unfold altsOf
  rw [hrs]
  simp only
  rw [AList.lookup_of_mem_nodup (H.rows nt rs hrs) (show (x.1, x.2) ∈ rs from hx)]
  rfl

theorem mem_flatOf_of_alts {nt : UNT U} {rs} (hrs : AList.lookup nt E.G.rules = some rs) (F : Sym) (v : List (UNT U))
    (w : Rat) (hm : (v, w) ∈ altsOf E nt F) : (F, v) ∈ flatOf rs := by
  unfold altsOf at hm
  rw [hrs] at hm
  simp only at hm
  cases hl : AList.lookup F rs with
  | none => simp [hl] at hm
  | some a =>
    simp only [hl, Option.getD_some] at hm
    exact List.mem_flatMap.mpr ⟨(F, a), AList.lookup_some_mem hl, List.mem_map.mpr ⟨(v, w), hm, rfl⟩⟩

/-- **every call keeps the order and completeness invariants** (acyclic unambiguous grammar, no threshold;
    with a filter: rejected programs are skipped by the pop loop) -/
theorem big_order (H : OHyp E rank Good) {c : Call U π} {s s' : St U π} {r : Res π} (hb : Big E c s s' r) :
    Base E s → SPre E c → NPre c s → OPre E rank c s → OPost E rank c s s' r := by
  have hk := H.ghyp.kway
  induction hb with
  | @query_direct s s' nt p r h hb ih =>
    intro hbase _ _ hpre
    obtain ⟨h1, h2, h3, h4⟩ := hpre
    have hn : NTInv E s nt ∧ CInv E rank s nt none 0 := by
      rcases h2 with hu | hn
      · rw [hu.1] at h; cases h
      · exact hn
    exact ih hbase trivial trivial ⟨h1, hn, h3, h4⟩
  | @query_init s s1 s' nt p r0 r h h0 hb ih0 ih =>
    intro hbase _ _ hpre
    obtain ⟨h1, h2, h3, h4⟩ := hpre
    have hu : Uninit s nt := by
      rcases h2 with hu | hn
      · exact hu
      · rw [hn.1.init] at h; cases h
    obtain ⟨hbase1, hst1, _, _, _, _⟩ := big_all H h0 hbase trivial trivial
    obtain ⟨a1, a2⟩ := ih0 hbase trivial trivial ⟨h1, Or.inl hu, h4⟩
    exact ih hbase1 trivial trivial ⟨a1, ⟨a2.1, a2.2.2⟩, fun k hk => (h3 k hk).mono hst1, fun e => absurd e a2.2.1⟩
  | @lop_hit s nt p r h =>
    intro _ _ _ hpre
    obtain ⟨h1, h2, h3, _⟩ := hpre
    refine ⟨h1, ⟨h2.1, ?_, h2.2⟩, ?_, ?_⟩
    · intro e; rw [e] at h; cases h
    · intro q hq k hk
      cases hq; subst hk
      exact h2.1.sorted k _ h
    · intro hq; cases hq
  | lop_miss h hb ih => intro hbase _ _ hpre; exact ih hbase trivial h hpre
  | @pop_empty s nt key h =>
    intro _ _ hnpre hpre
    obtain ⟨h1, h2, h3, _⟩ := hpre
    have hh := (Heapq.pop_none_iff _ _).mp h
    exact ⟨h1, ⟨h2.1, ntinv_live_of_first h2.1 hh, h2.2⟩, (by intro q hq; cases hq), fun _ => ⟨hh, hnpre⟩⟩
  | @pop_deleted s s1 s' nt key e h' x r h hd ha hb iha ihb =>
    intro hbase _ hnpre hpre
    obtain ⟨h1, h2, h3, h4⟩ := hpre
    have hnpre' : AList.lookup key (s.succOf nt) = none := hnpre
    have hlive : s.succOf nt ≠ [] := by
      intro e0
      rw [h4 e0] at hd
      simp at hd
    obtain ⟨hbase0, hst0, ho0⟩ := hbase.popDrop H nt e h' h
    obtain ⟨n0, l0⟩ := h2.1.popDrop H hbase e h' h hlive
    have c0 : CInv E rank (s.setHeap nt h') nt (some e.2) (arity e.2) :=
      h2.2.popDrop hbase e h' h hd _ (by intro F args he; rw [he]; exact Nat.le_refl _)
    have hb0 : Below E rank (rank nt) (s.setHeap nt h') := h1.only ho0 hst0 (Nat.le_refl _)
    have hseen0 : e.2 ∈ (s.setHeap nt h').seenOf nt := hbase.sinv.heap_seen nt e (mem_of_pop _ _ _ _ h).1
    obtain ⟨hbase1, hst1, _, _, _, _⟩ := big_all H ha hbase0 trivial trivial
    obtain ⟨a1, a2, a3⟩ := iha hbase0 trivial trivial ⟨hb0, ⟨n0, c0⟩, hseen0, hlive, l0⟩
    have hsucc1 : s1.succOf nt = s.succOf nt := a3
    exact ihb hbase1 trivial (by show AList.lookup key (s1.succOf nt) = none; rw [hsucc1]; exact hnpre')
      ⟨a1, a2, fun k hk => by unfold Popped; rw [hsucc1]; exact h3 k hk, fun e0 => absurd (hsucc1 ▸ e0) hlive⟩
  | @pop_take s s' nt key e h' x h hd ha iha =>
    intro hbase _ hnpre hpre
    obtain ⟨h1, h2, h3, _⟩ := hpre
    have hnpre' : AList.lookup key (s.succOf nt) = none := hnpre
    obtain ⟨hbase0, hst0, ho0⟩ := hbase.popTake H nt key e h' h hnpre'
    obtain ⟨n0, p0, l0, le0⟩ := h2.1.popTake H hbase key e h' h hnpre' h3
    have c0 : CInv E rank (s.popTake nt key e h') nt (some e.2) (arity e.2) :=
      h2.2.popTake hbase key e h' h hnpre' _ (by intro F args he; rw [he]; exact Nat.le_refl _)
    have hb0 : Below E rank (rank nt) (s.popTake nt key e h') := h1.only ho0 hst0 (Nat.le_refl _)
    have hlive0 : (s.popTake nt key e h').succOf nt ≠ [] := by
      obtain ⟨k, hk⟩ := p0
      intro e'; rw [e'] at hk; cases hk
    obtain ⟨a1, a2, a3⟩ := iha hbase0 trivial trivial ⟨hb0, ⟨n0, c0⟩, p0.seen hbase0.sinv, hlive0, l0⟩
    refine ⟨a1, ⟨a2.1, ?_, a2.2⟩, ?_, ?_⟩
    · rw [a3]; exact hlive0
    · intro q hq k hk
      cases hq
      exact le0 k hk
    · intro hq; cases hq
  | @succ_leaf s F nt =>
    intro _ _ _ hpre
    refine ⟨hpre.1, ⟨hpre.2.1.1, ?_⟩, rfl⟩
    have hc := hpre.2.1.2
    exact ⟨hc.keyed, hc.initial, hc.cover, fun F' args v hp hk j aj sj haj hsj hr _ =>
      hc.succs F' args v hp hk j aj sj haj hsj hr (fun _ => Nat.zero_le _)⟩
  | @succ_fun s s' F a as nt v x hk' hb ih =>
    intro hbase _ _ hpre
    obtain ⟨h1, h2, h3, h3', h4⟩ := hpre
    exact ih hbase (hbase.sinv.keys_ok _ _ _ _ hk') trivial ⟨h1, h2, h3, h3', h4, hk'⟩
  | @loop_done s F args nt v =>
    intro _ _ _ hpre
    refine ⟨hpre.1, ⟨hpre.2.1.1, ?_⟩, rfl⟩
    have hc := hpre.2.1.2
    exact ⟨hc.keyed, hc.initial, hc.cover, fun F' args' v' hp hk j aj sj haj hsj hr _ =>
      hc.succs F' args' v' hp hk j aj sj haj hsj hr (fun _ => Nat.zero_le _)⟩
  | @loop_step s s1 s3 s' F args nt v i ai si r x hai hsi hq hp hb ihq ihb =>
    intro hbase hspre _ hpre
    obtain ⟨h1, h2, hseen, hlive, h4, h5⟩ := hpre
    have hko : KeyOK E nt F args v := hspre
    obtain ⟨w, hw⟩ := hko.1
    have hrk : rank si < rank nt := H.acyclic nt F v w hw si (List.mem_of_getElem? hsi)
    have hne : si ≠ nt := by intro e; rw [e] at hrk; exact Nat.lt_irrefl _ hrk
    have hkp : Popped s si ai := h2.1.args F args v hseen h5 i ai si hai hsi
    obtain ⟨x0, hx0⟩ := h2.1.closed F v w hw si (List.mem_of_getElem? hsi)
    have hsi_full : Full E rank s si := by
      rcases h1 si hrk with hu | hn
      · rw [hu.2.2.1] at hx0; cases hx0
      · exact hn
    obtain ⟨hbase1, hst1, hfr1, hnpost, _, hkept1⟩ := big_all H hq hbase trivial trivial
    have hkept1' : ∀ sj, Kept s s1 sj := fun sj => hkept1 sj (by simp [Call.inner])
    obtain ⟨a1, a2, a4, a5⟩ := ihq hbase trivial trivial
      ⟨h1.mono (Nat.le_of_lt hrk), Or.inr ⟨hsi_full.1, hsi_full.2.2⟩, fun k hk => by cases hk; exact hkp,
        fun e0 => absurd e0 hsi_full.2.1⟩
    have hfr1' : Frame rank (rank si) (some si) s s1 := hfr1
    have hsame : Same s s1 nt := hfr1' nt (Nat.le_of_lt hrk) (by intro e; cases e; exact hne rfl)
    have hbel1 : Below E rank (rank nt) s1 := h1.merge hfr1' hst1 hkept1' a1 a2
    have hn1 : NTInv E s1 nt := h2.1.transfer hsame hst1
    have hc1 : CInv E rank s1 nt (some (Tree.node F args)) (i + 1) := h2.2.transfer hsame hst1 (fun sj _ => hkept1' sj)
    have hpop1 : ∀ x, Popped s1 nt x ↔ Popped s nt x := by intro x; unfold Popped; rw [hsame.succ]
    have hr1 : ∀ q, r = some q → AList.lookup (some ai) (s1.succOf si) = some q := fun q hq' => hnpost q hq'
    have hr : ∀ q, r = some q → Popped s1 si q ∧ LE E si ai q := by
      intro q hq'
      subst hq'
      exact ⟨⟨_, hr1 q rfl⟩, a4 q rfl ai rfl⟩
    have hr2 : r = none → s1.initS.contains si = true ∧ s1.heapOf si = [] ∧ AList.lookup (some ai) (s1.succOf si) = none := by
      intro hq'
      subst hq'
      obtain ⟨e1, e2⟩ := a5 rfl
      exact ⟨a2.1.init, e1, e2⟩
    obtain ⟨hbase3, hn3, hsucc3, ho3, hst3, hkey3, hc3, hseen3⟩ := hn1.pushStep H hbase1 hko (by rw [hsame.keys]; exact h5)
      (by rw [hsame.seen]; exact hseen) (by rw [hsame.succ]; exact hlive) (fun x hx => h4 x ((hpop1 x).mp hx)) hai hsi hne hr
      hc1 hr1 hr2 hp
    have hbel3 : Below E rank (rank nt) s3 := hbel1.only ho3 hst3 (Nat.le_refl _)
    have hpop3 : ∀ x, Popped s3 nt x ↔ Popped s nt x := by intro x; unfold Popped; rw [hsucc3, hsame.succ]
    obtain ⟨b1, b2, b3⟩ := ihb hbase3 hko trivial
      ⟨hbel3, ⟨hn3, hc3⟩, hseen3 _ (by rw [hsame.seen]; exact hseen), by rw [hsucc3, hsame.succ]; exact hlive,
        fun x hx => h4 x ((hpop3 x).mp hx), hkey3⟩
    exact ⟨b1, b2, by rw [b3, hsucc3, hsame.succ]⟩
  | @init_skip s nt h =>
    intro _ _ _ hpre
    obtain ⟨h1, h2, _⟩ := hpre
    rcases h2 with hu | hf
    · rw [hu.1] at h; cases h
    · exact ⟨h1, hf⟩
  | @init_run s s1 s3 s' nt rs b r h hrs hr hp hq ihr ihq =>
    intro hbase _ _ hpre
    obtain ⟨h1, h2, h4⟩ := hpre
    have hu : Uninit s nt := by
      rcases h2 with hu | hf
      · exact hu
      · rw [hf.1.init] at h; cases h
    have hdel : s.deleted = [] := h4 hu.2.2.1
    have hbase0 : Base E { s with initS := s.initS ++ [nt] } :=
      ⟨⟨hbase.sinv.cache_ok, hbase.sinv.heap_prio, hbase.sinv.heap_seen, hbase.sinv.seen_der, hbase.sinv.succ_seen,
        hbase.sinv.keys_ok, hbase.sinv.maxNT_ok, hbase.sinv.maxRule_ok, hbase.sinv.start_ok⟩,
       hbase.ninv.congr (fun _ => rfl) (fun _ => rfl) (fun _ => rfl) rfl, hbase.hinv, hbase.delF⟩
    have hmid0 : Mid { s with initS := s.initS ++ [nt] } nt := by
      refine ⟨?_, hu.2.1, hu.2.2.1, hu.2.2.2⟩
      show (s.initS ++ [nt]).contains nt = true
      simp
    have hbel0 : Below E rank (rank nt) { s with initS := s.initS ++ [nt] } :=
      h1.only (only_addInit s nt) (Stable.refl _) (Nat.le_refl _)
    have hpre1 : SPre E (.initRules nt rs none) := ⟨rows_alts H.ghyp hrs, by intro b hb; cases hb⟩
    obtain ⟨hbase1, hst1, _, _, hbest, _⟩ := big_all H hr hbase0 hpre1 trivial
    obtain ⟨a1, a2, a3⟩ := ihr hbase0 hpre1 trivial ⟨hbel0, hmid0, hdel⟩
    have hdel1 : s1.deleted = [] := by rw [big_deleted E hr hk]; exact hdel
    obtain ⟨items, hph⟩ := a3 [] [] (phase1_nil E _ nt) (by rw [List.nil_append]; exact H.flat_nodup nt rs hrs)
    simp only [List.nil_append] at hph
    have hbd : Der E b.1 nt := hbest b rfl
    have hbase2 : Base E { s1 with maxNT := AList.insert nt b.1 s1.maxNT } := by
      refine ⟨⟨hbase1.sinv.cache_ok, hbase1.sinv.heap_prio, hbase1.sinv.heap_seen, hbase1.sinv.seen_der,
        hbase1.sinv.succ_seen, hbase1.sinv.keys_ok, ?_, hbase1.sinv.maxRule_ok, hbase1.sinv.start_ok⟩,
        hbase1.ninv.congr (fun _ => rfl) (fun _ => rfl) (fun _ => rfl) rfl, hbase1.hinv, hbase1.delF⟩
      intro nt' m hl
      rw [AList.lookup_insert] at hl
      split at hl
      · rename_i heq; cases hl; subst heq; exact hbd
      · exact hbase1.sinv.maxNT_ok nt' m hl
    obtain ⟨hbase3, hn3, ho3, hst3, hdel3⟩ := ntinv_after_initPush H a2 hph hp hbase2 (mem_flatOf_of_alts hrs)
    have hbel3 : Below E rank (rank nt) s3 := a1.only ho3 hst3 (Nat.le_refl _)
    obtain ⟨c1, c2, _, _⟩ := ihq hbase3 trivial trivial
      ⟨hbel3, Or.inr hn3, (by intro k hk; cases hk), fun _ => by rw [hdel3]; exact hdel1⟩
    exact ⟨c1, c2⟩
  | @rules_nil s nt best =>
    intro _ _ _ hpre
    refine ⟨hpre.1, hpre.2.1, ?_⟩
    intro done items hph _
    exact ⟨[], by simpa [flatOf] using hph⟩
  | @rules_cons s s1 s' nt P alts rest best best1 best' ha hb iha ihb =>
    intro hbase hspre _ hpre
    have hP : altsOf E nt P = alts := hspre.1 (P, alts) List.mem_cons_self
    have hpreA : SPre E (.initAlts nt P alts best) := ⟨by intro vw hvw; rw [hP]; exact hvw, hspre.2⟩
    obtain ⟨hbase1, _, _, _, hb1, _⟩ := big_all H ha hbase hpreA trivial
    have hpreR : SPre E (.initRules nt rest best1) := ⟨fun x hx => hspre.1 x (List.mem_cons_of_mem _ hx), hb1⟩
    obtain ⟨a1, a2, a3⟩ := iha hbase hpreA trivial hpre
    have hdel1 : s1.deleted = [] := by rw [big_deleted E ha hk]; exact hpre.2.2
    obtain ⟨b1, b2, b3⟩ := ihb hbase1 hpreR trivial ⟨a1, a2, hdel1⟩
    refine ⟨b1, b2, ?_⟩
    intro done items hph hnd
    have hflat : flatOf ((P, alts) :: rest) = altsFlat P alts ++ flatOf rest := by simp [flatOf, altsFlat]
    rw [hflat, ← List.append_assoc] at hnd ⊢
    obtain ⟨items1, hph1⟩ := a3 done items hph (List.Nodup.sublist (List.sublist_append_left _ _) hnd)
    obtain ⟨items2, hph2⟩ := b3 _ _ hph1 hnd
    exact ⟨items1 ++ items2, by rw [← List.append_assoc]; exact hph2⟩
  | @alts_nil s nt P best =>
    intro _ _ _ hpre
    refine ⟨hpre.1, hpre.2.1, ?_⟩
    intro done items hph _
    exact ⟨[], by simpa [altsFlat] using hph⟩
  | @alts_leaf s s1 s3 nt P v w rest best arguments pr ha hc hv iha =>
    intro hbase hspre _ hpre
    have hm := hspre.1 _ List.mem_cons_self
    have hbound : Call.bound rank (.initArgs v [] : Call U π) ≤ rank nt :=
      bound_le_of_forall rank v _ (H.acyclic nt P v w hm)
    have hpostA := iha hbase trivial trivial ⟨hpre.1.mono hbound, hpre.2.2⟩
    obtain ⟨r1, r2, r3, _, r5⟩ := alt_step H (best := best) hbase hpre.1 hpre.2.1 hm ha hpostA hc
    refine ⟨r2, r3, ?_⟩
    intro done items hph hnd
    have hvnil : v = [] := by simpa using hv
    have hrest : rest = [] := by
      cases rest with
      | nil => rfl
      | cons x rest' =>
        exfalso
        have hone := H.leaf_one nt P w (hvnil ▸ hm)
        have hx : x ∈ altsOf E nt P := hspre.1 x (List.mem_cons_of_mem _ List.mem_cons_self)
        rw [hone] at hx
        simp only [List.mem_singleton] at hx
        subst hx
        subst hvnil
        have := (List.nodup_append.mp hnd).2.1
        simp [altsFlat] at this
    subst hrest
    refine ⟨[(pr, .node P arguments)], ?_⟩
    apply r5 done items hph
    intro hin
    simp only [altsFlat, List.map_cons, List.map_nil] at hnd
    exact (List.nodup_append.mp hnd).2.2 _ hin _ List.mem_cons_self rfl
  | @alts_cons s s1 s3 s' nt P v w rest best arguments pr best' ha hc hv hb iha ihb =>
    intro hbase hspre _ hpre
    have hm := hspre.1 _ List.mem_cons_self
    have hbound : Call.bound rank (.initArgs v [] : Call U π) ≤ rank nt :=
      bound_le_of_forall rank v _ (H.acyclic nt P v w hm)
    have hpostA := iha hbase trivial trivial ⟨hpre.1.mono hbound, hpre.2.2⟩
    obtain ⟨r1, r2, r3, r4, r5⟩ := alt_step H (best := best) hbase hpre.1 hpre.2.1 hm ha hpostA hc
    have hpreR : SPre E (.initAlts nt P rest (bestUpd E.ops.lt best (.node P arguments) pr)) :=
      ⟨fun vw hvw => hspre.1 vw (List.mem_cons_of_mem _ hvw), bestUpd_der E nt best _ pr hspre.2 r4⟩
    have hdel4 : St.deleted { s3 with maxRule := AList.insert (nt, P, v) (.node P arguments) s3.maxRule } = [] := by
      show s3.deleted = []
      obtain ⟨c, hc'⟩ := computePrio_step E hc
      rw [hc']
      show s1.deleted = []
      rw [big_deleted E ha hk]; exact hpre.2.2
    obtain ⟨b1, b2, b3⟩ := ihb r1 hpreR trivial ⟨r2, r3, hdel4⟩
    refine ⟨b1, b2, ?_⟩
    intro done items hph hnd
    have hflat : altsFlat P ((v, w) :: rest) = [(P, v)] ++ altsFlat P rest := by simp [altsFlat]
    rw [hflat, ← List.append_assoc] at hnd ⊢
    have hnotin : (P, v) ∉ done := by
      intro hin
      have := (List.nodup_append.mp (List.Nodup.sublist (List.sublist_append_left _ _) hnd)).2.2
      exact this _ hin _ List.mem_cons_self rfl
    obtain ⟨items2, hph2⟩ := b3 _ _ (r5 done items hph hnotin) hnd
    exact ⟨(pr, .node P arguments) :: items2, by
      have : items ++ (pr, Tree.node P arguments) :: items2 = (items ++ [(pr, Tree.node P arguments)]) ++ items2 := by simp
      rw [this]; exact hph2⟩
  | @args_nil s acc =>
    intro _ _ _ hpre
    exact ⟨hpre.1, [], by simp, rfl, by intro i ai si h; simp at h⟩
  | @args_cons s s1 s' si v acc m r0 l hi' hm hb ihi ihb =>
    intro hbase _ _ hpre
    have hpre' : Below E rank (Call.bound rank (.initArgs (si :: v) acc : Call U π)) s := hpre.1
    have hdel : s.deleted = [] := hpre.2
    have hrk : rank si < Call.bound rank (.initArgs (si :: v) acc : Call U π) := by
      show rank si < max (rank si + 1) _; omega
    have hbv : Call.bound rank (.initArgs v (acc ++ [m]) : Call U π) ≤
        Call.bound rank (.initArgs (si :: v) acc : Call U π) := by
      show _ ≤ max (rank si + 1) _
      exact Nat.le_max_right _ _
    obtain ⟨hbase1, hst1, hfr1, _, _, hkept1⟩ := big_all H hi' hbase trivial trivial
    have hfr1' : Frame rank (rank si) (some si) s s1 := hfr1
    obtain ⟨a1, a2⟩ := ihi hbase trivial trivial ⟨hpre'.mono (Nat.le_of_lt hrk), hpre' si hrk, fun _ => hdel⟩
    have hbel1 := hpre'.merge hfr1' hst1 (fun sj => hkept1 sj (by simp [Call.inner])) a1 a2
    have hdel1 : s1.deleted = [] := by rw [big_deleted E hi' hk]; exact hdel
    obtain ⟨_, hst2, hfr2, _, _, hkept2⟩ := big_all H hb hbase1 trivial trivial
    obtain ⟨b1, l', hl', hlen, hpop⟩ := ihb hbase1 trivial trivial ⟨hbel1.mono hbv, hdel1⟩
    have hb2 : Below E rank (Call.bound rank (.initArgs (si :: v) acc : Call U π)) s' := by
      have hfr2' : Frame rank (Call.bound rank (.initArgs v (acc ++ [m]) : Call U π)) none s1 s' := hfr2
      exact hbel1.merge_none hfr2' hst2 (fun sj => hkept2 sj (by simp [Call.inner])) b1
    refine ⟨hb2, m :: l', by rw [hl']; simp, by simp [hlen], ?_⟩
    intro i ai sj hai hsj
    cases i with
    | zero =>
      simp only [List.getElem?_cons_zero, Option.some.injEq] at hai hsj
      subst hai; subst hsj
      obtain ⟨m', e1, e2⟩ := a2.1.first
      rw [hm] at e1
      cases e1
      rcases e2 with e2 | ⟨e2, _⟩
      · exact hst2 _ _ _ e2
      · exact absurd e2 a2.2.1
    | succ i =>
      simp only [List.getElem?_cons_succ] at hai hsj
      exact hpop i ai sj hai hsj

end PS.UHS
