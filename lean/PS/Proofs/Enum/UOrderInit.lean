/- Heap search on unambiguous, acyclic grammars: `__init_non_terminal__` — the programs pushed in
   phase 2 are the ones scanned in phase 1, in the same order, so the root of the heap is
   `max_priority[S]` (tie-breaking of heapq = strict `<` of the scan). -/
import PS.Proofs.Enum.UOrder
import PS.Proofs.Enum.UHeapsOn
namespace PS.UHS
open PS PS.G
set_option linter.unusedSectionVars false
variable {U π : Type} [DecidableEq U]

/-- the invariants proved so far, for runs without filter -/
structure Base (E : Env U π) (s : St U π) : Prop where
  sinv : SInv E s
  ninv : NInv E s
  hinv : HInvN E s
  /-- `deleted` only holds programs rejected by the filter -/
  delF : ∀ q, q ∈ s.deleted → E.filter q = false

/-- everything the earlier developments say about a call -/
theorem big_all {E : Env U π} {rank : UNT U → Nat} {Good : π → Prop} (H : OHyp E rank Good) {c : Call U π}
    {s s' : St U π} {r : Res π} (hb : Big E c s s' r) (h : Base E s) (h1 : SPre E c) (h2 : NPre c s) :
    Base E s' ∧ Stable s s' ∧ Frame rank (c.bound rank) c.site s s' ∧ NPost c s' r ∧ SPost E c r ∧
      (∀ sj, c.inner ≠ some sj → Kept s s' sj) := by
  obtain ⟨a1, a2⟩ := big_sound E H.ghyp hb h.sinv h1
  obtain ⟨b1, b2, b3⟩ := big_nodup E H.ghyp hb h.sinv h1 h.ninv h2
  exact ⟨⟨a1, b1, big_heaps_on H hb h.sinv h1 h.hinv, by rw [big_deleted E hb H.ghyp.kway]; exact h.delF⟩,
    b2, big_frame E H.ghyp rank H.acyclic hb h.sinv h1, b3, a2, big_emptyKeep E H.ghyp.kway hb⟩

/-- two lists related element by element -/
def Items {α β : Type} (R : α → β → Prop) : List α → List β → Prop
  | [], [] => True
  | a :: as, b :: bs => R a b ∧ Items R as bs
  | [], _ :: _ => False
  | _ :: _, [] => False

theorem Items.mono {α β : Type} {R R' : α → β → Prop} : ∀ {l : List α} {m : List β},
    (∀ a b, a ∈ l → R a b → R' a b) → Items R l m → Items R' l m
  | [], [], _, _ => trivial
  | [], _ :: _, _, h => h.elim
  | _ :: _, [], _, h => h.elim
  | a :: _, b :: _, hr, h =>
    ⟨hr a b List.mem_cons_self h.1, Items.mono (fun x y hx => hr x y (List.mem_cons_of_mem _ hx)) h.2⟩

theorem Items.snoc {α β : Type} {R : α → β → Prop} : ∀ {l : List α} {m : List β} {a : α} {b : β},
    Items R l m → R a b → Items R (l ++ [a]) (m ++ [b])
  | [], [], _, _, _, h => ⟨h, trivial⟩
  | [], _ :: _, _, _, h, _ => h.elim
  | _ :: _, [], _, _, h, _ => h.elim
  | _ :: _, _ :: _, _, _, h, hr => ⟨h.1, Items.snoc h.2 hr⟩

/-- `max_priority[(nt, P, v)] = program` with its priority, arguments popped for their non-terminals -/
def ItemOK (E : Env U π) (s : St U π) (nt : UNT U) (d : Sym × List (UNT U)) (it : π × Prog) : Prop :=
  AList.lookup (nt, d.1, d.2) s.maxRule = some it.2 ∧ HasPrio E it.2 nt it.1 ∧
  ∃ w kids, (d.2, w) ∈ altsOf E nt d.1 ∧ it.2 = Tree.node d.1 kids ∧ DerList E kids d.2 ∧
    (∀ (i : Nat) (ai : Prog) (si : UNT U), kids[i]? = some ai → d.2[i]? = some si →
      AList.lookup none (s.succOf si) = some ai) ∧
    AList.lookup (nt, it.2) s.keys = some d.2

/-- phase 1 of `__init_non_terminal__` after the alternatives `done` -/
structure Phase1 (E : Env U π) (s : St U π) (nt : UNT U) (done : List (Sym × List (UNT U))) (items : List (π × Prog))
    (best : Option (Prog × π)) : Prop where
  ok : Items (ItemOK E s nt) done items
  root : best.map (fun b => (b.2, b.1)) = (items.foldl (Heapq.push (ltE E.ops)) []).head?

theorem phase1_nil (E : Env U π) (s : St U π) (nt : UNT U) : Phase1 E s nt [] [] none := ⟨trivial, rfl⟩

theorem bestUpd_swap (E : Env U π) (best : Option (Prog × π)) (prog : Prog) (pr : π) :
    (bestUpd E.ops.lt best prog pr).map (fun b => (b.2, b.1)) =
      Heapq.bestStep (ltE E.ops) (best.map (fun b => (b.2, b.1))) (pr, prog) := by
  cases best with
  | none => rfl
  | some b =>
    by_cases h : E.ops.lt pr b.2 = true <;> simp [bestUpd, Heapq.bestStep, ltE, h]

theorem Items.forall_right {α β : Type} {R : α → β → Prop} {Q : β → Prop} : ∀ {l : List α} {m : List β}, Items R l m →
    (∀ a b, R a b → Q b) → ∀ b, b ∈ m → Q b
  | [], [], _, _, b, hb => by cases hb
  | [], _ :: _, h, _, _, _ => h.elim
  | _ :: _, [], h, _, _, _ => h.elim
  | a :: _, b0 :: _, h, hq, b, hb => by
    rcases List.mem_cons.mp hb with rfl | hb'
    · exact hq a _ h.1
    · exact Items.forall_right h.2 hq b hb'

theorem Phase1.step {E : Env U π} {rank : UNT U → Nat} {Good : π → Prop} (H : OHyp E rank Good) {s s' : St U π} {nt : UNT U}
    {done : List (Sym × List (UNT U))} {items : List (π × Prog)} {best : Option (Prog × π)} (h : Phase1 E s nt done items best)
    (d : Sym × List (UNT U)) (pr : π) (prog : Prog)
    (hstab : ∀ d' it, d' ∈ done → ItemOK E s nt d' it → ItemOK E s' nt d' it) (hnew : ItemOK E s' nt d (pr, prog)) :
    Phase1 E s' nt (done ++ [d]) (items ++ [(pr, prog)]) (bestUpd E.ops.lt best prog pr) := by
  refine ⟨Items.snoc (Items.mono hstab h.ok) hnew, ?_⟩
  rw [bestUpd_swap, h.root, List.foldl_append]
  simp only [List.foldl_cons, List.foldl_nil]
  have hgood : ∀ y, y ∈ items → Good y.1 :=
    Items.forall_right h.ok (fun a b hab => hasPrio_good H _ _ _ hab.2.1)
  have hfold : ∀ y, y ∈ items.foldl (Heapq.push (ltE E.ops)) [] → Good y.1 := by
    intro y hy
    have := (Heapq.foldl_push_perm (ltE E.ops) items []).subset hy
    simp only [List.append_nil] at this
    exact hgood y this
  rw [Heapq.push_head_on (ltE_weakOrderOn H) _ _ hfold (hasPrio_good H _ _ _ hnew.2.1)
    (foldl_push_isHeap_on (ltE_weakOrderOn H) items [] (by intro y hy; cases hy) hgood (Heapq.isHeap_nil _))]

theorem Items.length_eq {α β : Type} {R : α → β → Prop} : ∀ {l : List α} {m : List β}, Items R l m → l.length = m.length
  | [], [], _ => rfl
  | [], _ :: _, h => h.elim
  | _ :: _, [], h => h.elim
  | _ :: _, _ :: _, h => by simp [Items.length_eq h.2]

/-- **phase 2**: `initPush` pushes exactly the scanned programs with the scanned priorities -/
theorem initPush_spec {E : Env U π} {rank : UNT U → Nat} {Good : π → Prop} (H : OHyp E rank Good) (nt : UNT U) :
    ∀ (l : List (Sym × List (UNT U))) (items : List (π × Prog)) (s s' : St U π),
      Items (ItemOK E s nt) l items → Base E s → initPush E s nt l = some s' →
      Base E s' ∧ Only nt s s' ∧ Stable s s' ∧
      s'.heapOf nt = items.foldl (Heapq.push (ltE E.ops)) (s.heapOf nt) ∧
      s'.seenOf nt = s.seenOf nt ++ items.map (·.2) ∧ s'.succOf nt = s.succOf nt ∧
      s'.initS = s.initS ∧ s'.maxNT = s.maxNT ∧ s'.keys = s.keys ∧
      (∀ it, it ∈ items → ∃ v, AList.lookup (nt, it.2) s.keys = some v) ∧ s'.deleted = s.deleted
  | [], [], s, s', _, hb, hp => by
    simp only [initPush, Option.some.injEq] at hp; subst hp
    exact ⟨hb, Only.refl nt s, Stable.refl s, rfl, by simp, rfl, rfl, rfl, rfl, (by intro it hit; cases hit), rfl⟩
  | [], _ :: _, _, _, h, _, _ => h.elim
  | _ :: _, [], _, _, h, _, _ => h.elim
  | (P, v) :: rest, (pr, prog) :: items, s, s', hit, hb, hp => by
    have hk := H.ghyp.kway
    obtain ⟨⟨hmr, hpr, w, kids, hmw, hprog, hdl, hpop, _⟩, hrest⟩ := hit
    simp only at hmr hpr hprog
    simp only [initPush] at hp
    rw [hmr] at hp
    simp only at hp
    split at hp
    · simp at hp
    · rename_i hnew
      split at hp
      · simp at hp
      · rename_i s1 pr1 hcp
        split at hp
        · simp at hp
        · rename_i hkeyck
          have hd : Der E prog nt := ⟨pr, hpr⟩
          have hs0 := hb.sinv.addSeen nt prog hd
          obtain ⟨hpr1, hs1, hcs⟩ := hs0.computePrio H.ghyp nt prog hd s1 pr1 hcp
          have hpe : pr1 = pr := hasPrio_fun H prog nt pr1 pr hpr1 hpr
          subst hpe
          have hnew' : prog ∉ s.seenOf nt := by intro hm; apply hnew; simp [hm]
          have hseen1 : prog ∈ s1.seenOf nt := by
            rw [hcs.seenOf]; exact (mem_seenOf_addSeen s nt nt prog prog).mpr (Or.inr ⟨rfl, rfl⟩)
          obtain ⟨n2, st2⟩ := hb.ninv.newPush hk nt pr1 prog hnew' (fun _ => hcs.heapOf _) (fun _ => hcs.seenOf _)
            (fun _ => hcs.succOf _) (by obtain ⟨c, rfl⟩ := hcs; rfl)
          have hs2 := hs1.pushBoth H.ghyp nt pr1 prog hpr1 hseen1
          have hpb : pushBoth E s1 nt pr1 prog = s1.setHeap nt (Heapq.push (ltE E.ops) (s1.heapOf nt) (pr1, prog)) := by
            unfold pushBoth pushOK
            rw [H.thr]
            simp [hk]
          have hh2 : HInvN E (pushBoth E s1 nt pr1 prog) :=
            HInvN.pushBoth_on H hs1 (by intro nt'; rw [hcs.heapOf]; exact hb.hinv nt') nt pr1 prog hpr1
          have hb2 : Base E (pushBoth E s1 nt pr1 prog) :=
            ⟨hs2, n2, hh2, by rw [hpb]; obtain ⟨c, rfl⟩ := hcs; exact hb.delF⟩
          have ho2 : Only nt s (pushBoth E s1 nt pr1 prog) :=
            ((only_addSeen s nt prog).trans (only_cacheStep hcs nt)).trans (only_pushBoth E hk _ nt pr1 _)
          have hrest' : Items (ItemOK E (pushBoth E s1 nt pr1 prog) nt) rest items := by
            refine Items.mono ?_ hrest
            intro d it _ ⟨a, b, w', kids', c1, c2, c4, c3, c5⟩
            refine ⟨?_, b, w', kids', c1, c2, c4, fun i ai si h1 h2 => st2 _ _ _ (c3 i ai si h1 h2), ?_⟩
            · rw [hpb]
              obtain ⟨c, rfl⟩ := hcs
              exact a
            · rw [hpb]
              obtain ⟨c, rfl⟩ := hcs
              exact c5
          obtain ⟨r1, r2, r3, r4, r5, r6, r7, r8, r9, r10, r11⟩ := initPush_spec H nt rest items _ s' hrest' hb2 hp
          have hkeys1 : s1.keys = s.keys := by obtain ⟨c, rfl⟩ := hcs; rfl
          have hkeys2 : (pushBoth E s1 nt pr1 prog).keys = s.keys := by rw [hpb]; exact hkeys1
          refine ⟨r1, ho2.trans r2, st2.trans r3, ?_, ?_, ?_, ?_, ?_, ?_, ?_, ?_⟩
          · rw [r4, hpb, St.heapOf_setHeap, if_pos rfl, hcs.heapOf]
            rfl
          · rw [r5, hpb]
            show s1.seenOf nt ++ _ = _
            rw [hcs.seenOf, St.seenOf_addSeen, if_pos rfl]
            simp
          · rw [r6, hpb]
            show s1.succOf nt = _
            rw [hcs.succOf]; rfl
          · rw [r7, hpb]; obtain ⟨c, rfl⟩ := hcs; rfl
          · rw [r8, hpb]; obtain ⟨c, rfl⟩ := hcs; rfl
          · rw [r9, hpb]; obtain ⟨c, rfl⟩ := hcs; rfl
          · intro it hit
            rcases List.mem_cons.mp hit with rfl | hit'
            · cases hl : AList.lookup (nt, prog) s1.keys with
              | none => simp [hl] at hkeyck
              | some v' => exact ⟨v', by rw [← hkeys1]; exact hl⟩
            · obtain ⟨v', hv'⟩ := r10 it hit'
              exact ⟨v', by rw [← hkeys2]; exact hv'⟩
          · rw [r11, hpb]; obtain ⟨c, rfl⟩ := hcs; rfl

theorem Items.mem_right {α β : Type} {R : α → β → Prop} : ∀ {l : List α} {m : List β}, Items R l m →
    ∀ b, b ∈ m → ∃ a, a ∈ l ∧ R a b
  | [], [], _, b, hb => by cases hb
  | [], _ :: _, h, _, _ => h.elim
  | _ :: _, [], h, _, _ => h.elim
  | a :: as, b0 :: bs, h, b, hb => by
    rcases List.mem_cons.mp hb with rfl | hb'
    · exact ⟨a, List.mem_cons_self, h.1⟩
    · obtain ⟨a', ha', hr⟩ := Items.mem_right h.2 b hb'
      exact ⟨a', List.mem_cons_of_mem _ ha', hr⟩

theorem Items.mem_left {α β : Type} {R : α → β → Prop} : ∀ {l : List α} {m : List β}, Items R l m →
    ∀ a, a ∈ l → ∃ b, b ∈ m ∧ R a b
  | [], [], _, a, ha => by cases ha
  | [], _ :: _, h, _, _ => h.elim
  | _ :: _, [], h, _, _ => h.elim
  | a0 :: as, b :: bs, h, a, ha => by
    rcases List.mem_cons.mp ha with rfl | ha'
    · exact ⟨b, List.mem_cons_self, h.1⟩
    · obtain ⟨b', hb', hr⟩ := Items.mem_left h.2 a ha'
      exact ⟨b', List.mem_cons_of_mem _ hb', hr⟩

end PS.UHS
