/- The order invariants of the query phase of beap search under POSITIVE rule costs: every cost list is
   strictly increasing, every queue element is at least as expensive as every entry of the cost list
   of its non-terminal, every queue is a heap.  The delicate point is re-entrance on recursive
   grammars: a `query` running for non-terminal S at cost x only asks for cost indices of cost < x
   (every rule cost is > 0), and such nested queries never touch a non-terminal whose last cost is ≥ x
   (`Prot`): so the tables of S are unchanged while its own `query` is suspended in the argument loop. -/
import PS.Proofs.Enum.BeapOrderRun
namespace PS.Beap
open PS PS.G PS.Heapq
set_option linter.unusedSectionVars false
variable {S : Type} [DecidableEq S]

namespace Cost
theorem lt_false_iff (a b : Cost) (ha : a.inf = 0) (hb : b.inf = 0) : lt a b = false ↔ b.fin ≤ a.fin := by
  unfold lt
  simp only [ha, hb, Bool.or_eq_false_iff, Bool.and_eq_false_iff, decide_eq_false_iff_not]
  constructor
  · rintro ⟨_, h | h⟩
    · exact absurd trivial h
    · grind
  · intro h; exact ⟨by omega, Or.inr (by grind)⟩

theorem eq_of_fin (a b : Cost) (ha : a.inf = 0) (hb : b.inf = 0) (h : a.fin = b.fin) : a = b := by
  cases a; cases b; simp_all
end Cost

/-- every rule cost is positive -/
def PosW (E : Env S) : Prop := ∀ nt P w, ruleW E nt P = some w → 0 < w

structure OI (s : St S) : Prop where
  fin : ∀ nt c, c ∈ s.clOf nt → c.inf = 0
  finQ : ∀ nt el, el ∈ s.queueOf nt → el.cost.inf = 0
  pos : ∀ nt c, c ∈ s.clOf nt → 0 < c.fin
  mono : ∀ nt, (s.clOf nt).Pairwise (fun a b => a.fin < b.fin)
  low : ∀ nt el c, el ∈ s.queueOf nt → c ∈ s.clOf nt → c.fin ≤ el.cost.fin
  heap : ∀ nt, IsHeap ltE (s.queueOf nt)

theorem OI.of_eq {s s' : St S} (hc : ∀ nt, s'.clOf nt = s.clOf nt) (hq : ∀ nt, s'.queueOf nt = s.queueOf nt)
    (h : OI s) : OI s' :=
  ⟨fun nt c hm => h.fin nt c (hc nt ▸ hm), fun nt el hm => h.finQ nt el (hq nt ▸ hm),
   fun nt c hm => h.pos nt c (hc nt ▸ hm), fun nt => (hc nt) ▸ h.mono nt,
   fun nt el c h1 h2 => h.low nt el c (hq nt ▸ h1) (hc nt ▸ h2), fun nt => (hq nt) ▸ h.heap nt⟩

/-- the last cost of `nt` is at least `x` -/
def lastGe (s : St S) (nt : NT S Unit) (x : Rat) : Prop := ∃ c, (s.clOf nt).getLast? = some c ∧ x ≤ c.fin

/-- non-terminals whose last cost is ≥ x keep their cost list and their queue -/
def Prot (x : Rat) (s s' : St S) : Prop := ∀ nt, lastGe s nt x → s'.clOf nt = s.clOf nt ∧ s'.queueOf nt = s.queueOf nt

theorem Prot.refl (x : Rat) (s : St S) : Prot x s s := fun _ _ => ⟨rfl, rfl⟩
theorem Prot.trans {x : Rat} {a b c : St S} (h1 : Prot x a b) (h2 : Prot x b c) : Prot x a c := by
  intro nt hl
  obtain ⟨e1, e2⟩ := h1 nt hl
  have hl' : lastGe b nt x := by obtain ⟨c0, g1, g2⟩ := hl; exact ⟨c0, by rw [e1]; exact g1, g2⟩
  obtain ⟨f1, f2⟩ := h2 nt hl'
  exact ⟨f1.trans e1, f2.trans e2⟩
theorem Prot.mono {x y : Rat} {s s' : St S} (hxy : y ≤ x) (h : Prot y s s') : Prot x s s' := by
  intro nt hl
  obtain ⟨c0, g1, g2⟩ := hl
  exact h nt ⟨c0, g1, by grind⟩
theorem Prot.of_eq {x : Rat} {s s' : St S} (hc : ∀ nt, s'.clOf nt = s.clOf nt) (hq : ∀ nt, s'.queueOf nt = s.queueOf nt) :
    Prot x s s' := fun nt _ => ⟨hc nt, hq nt⟩

/-- the suspended `query(nt, fr.ci)` works on the last entry of the cost list of `nt` -/
def FrO (s : St S) (nt : NT S Unit) (fr : Frame) : Prop :=
  fr.ci + 1 = (s.clOf nt).length ∧ (s.clOf nt)[fr.ci]? = some fr.cost

theorem FrO.last {s : St S} {nt : NT S Unit} {fr : Frame} (h : FrO s nt fr) : (s.clOf nt).getLast? = some fr.cost := by
  rw [List.getLast?_eq_getElem?]
  have : (s.clOf nt).length - 1 = fr.ci := by have := h.1; omega
  rw [this]; exact h.2

/-- an operation that only touches the queue of `nt` (whose last cost is below the bound) is protected -/
theorem prot_setQueue (x : Rat) (s : St S) (nt : NT S Unit) (q : List HeapEl) (c : Cost)
    (hl : (s.clOf nt).getLast? = some c) (hc : c.fin < x) : Prot x s (s.setQueue nt q) := by
  intro nt' hl'
  refine ⟨rfl, ?_⟩
  rw [St.queueOf_setQueue]
  split
  · next heq =>
    subst heq
    obtain ⟨c0, g1, g2⟩ := hl'
    rw [hl] at g1; cases g1
    exact absurd g2 (by grind)
  · rfl

theorem getD_mem' {α : Type} (l : List α) (i : Nat) (d : α) (h : i < l.length) : l.getD i d ∈ l := by
  have := getElem?_getD' l i d h
  exact List.mem_of_getElem? this

/-- pushing an element at least as expensive as every entry of the cost list of `nt` -/
theorem OI.push {s : St S} (h : OI s) (nt : NT S Unit) (x : HeapEl) (hfin : x.cost.inf = 0)
    (hlow : ∀ c ∈ s.clOf nt, c.fin ≤ x.cost.fin) : OI (s.setQueue nt (Heapq.push ltE (s.queueOf nt) x)) := by
  refine ⟨h.fin, fun nt' el hm => ?_, h.pos, h.mono, fun nt' el c h1 h2 => ?_, fun nt' => ?_⟩
  · rw [St.queueOf_setQueue] at hm
    split at hm
    · next heq =>
      subst heq
      rcases (mem_push _ _ _ _).mp hm with rfl | h'
      · exact hfin
      · exact h.finQ _ el h'
    · exact h.finQ nt' el hm
  · rw [St.queueOf_setQueue] at h1
    split at h1
    · next heq =>
      subst heq
      rcases (mem_push _ _ _ _).mp h1 with rfl | h'
      · exact hlow c h2
      · exact h.low _ el c h' h2
    · exact h.low nt' el c h1 h2
  · rw [St.queueOf_setQueue]
    split
    · exact push_isHeap ltE_weak _ _ (h.heap nt)
    · exact h.heap nt'

theorem succLoop_oi (nt : NT S Unit) (cost : Cost) (P : Sym) (comb : List Nat) (hfin : cost.inf = 0) :
    ∀ (as : List (NT S Unit)) (s : St S) (i : Nat), OI s → (∀ c ∈ s.clOf nt, c.fin ≤ cost.fin) →
      OI (succLoop nt cost P comb s i as) ∧ (∀ nt', (succLoop nt cost P comb s i as).clOf nt' = s.clOf nt') ∧
      (∀ nt', nt' ≠ nt → (succLoop nt cost P comb s i as).queueOf nt' = s.queueOf nt') := by
  intro as
  induction as with
  | nil => intro s i hs _; simp [succLoop, hs]
  | cons a as ih =>
    intro s i hs hlow
    unfold succLoop
    simp only
    split
    · split
      · exact ⟨hs, fun _ => rfl, fun _ _ => rfl⟩
      · exact ih s (i + 1) hs hlow
    · next hlt =>
      have hlen : comb.getD i 0 + 1 < (s.clOf a).length := by omega
      have hx := getD_mem' (s.clOf a) (comb.getD i 0) (Cost.ofRat 0) (by omega)
      have hy := getD_mem' (s.clOf a) (comb.getD i 0 + 1) (Cost.ofRat 0) hlen
      have hxf := hs.fin a _ hx
      have hyf := hs.fin a _ hy
      have hxy : ((s.clOf a).getD (comb.getD i 0) (Cost.ofRat 0)).fin < ((s.clOf a).getD (comb.getD i 0 + 1) (Cost.ofRat 0)).fin := by
        have hp := List.pairwise_iff_getElem.mp (hs.mono a) (comb.getD i 0) (comb.getD i 0 + 1) (by omega) hlen (by omega)
        have e1 := getElem?_getD' (s.clOf a) (comb.getD i 0) (Cost.ofRat 0) (by omega)
        have e2 := getElem?_getD' (s.clOf a) (comb.getD i 0 + 1) (Cost.ofRat 0) hlen
        rw [List.getElem?_eq_getElem (by omega)] at e1
        rw [List.getElem?_eq_getElem hlen] at e2
        rw [← Option.some.inj e1, ← Option.some.inj e2]; exact hp
      obtain ⟨nf, nfin⟩ := Cost.sub_add_fin' cost _ _ hfin hxf hyf
      have hpush : OI (s.setQueue nt (Heapq.push ltE (s.queueOf nt)
          ⟨cost - (s.clOf a).getD (comb.getD i 0) (Cost.ofRat 0) + (s.clOf a).getD (comb.getD i 0 + 1) (Cost.ofRat 0),
            comb.set i (comb.getD i 0 + 1), P⟩)) := by
        refine hs.push nt _ nf (fun c hc => ?_)
        have := hlow c hc
        show c.fin ≤ (cost - _ + _).fin
        rw [nfin]; grind
      have hq : ∀ (x : HeapEl) nt', nt' ≠ nt → (s.setQueue nt (Heapq.push ltE (s.queueOf nt) x)).queueOf nt' = s.queueOf nt' := by
        intro x nt' hne; rw [St.queueOf_setQueue]; simp [hne]
      split
      · exact ⟨hpush, fun _ => rfl, hq _⟩
      · obtain ⟨g1, g2, g3⟩ := ih _ (i + 1) hpush (fun c hc => hlow c hc)
        exact ⟨g1, fun nt' => by rw [g2 nt']; rfl, fun nt' hne => by rw [g3 nt' hne, hq _ nt' hne]⟩
where
  Cost.sub_add_fin' (a b c : Cost) (ha : a.inf = 0) (hb : b.inf = 0) (hc : c.inf = 0) :
      (a - b + c).inf = 0 ∧ (a - b + c).fin = a.fin - b.fin + c.fin := by
    have h1 : (a - b).inf = 0 := by show a.inf - b.inf = 0; omega
    have h2 : (a - b).fin = a.fin - b.fin := by
      show (if a.inf - b.inf = 0 then a.fin - b.fin else 0) = _
      simp [ha, hb]
    refine ⟨by simp [h1, hc], ?_⟩
    rw [Cost.add_fin _ _ (by simp [h1, hc]), h2]

theorem markEmpty_tables (s : St S) (nt : NT S Unit) (fr : Frame) :
    (∀ nt', (markEmpty s nt fr).clOf nt' = s.clOf nt') ∧ (∀ nt', (markEmpty s nt fr).queueOf nt' = s.queueOf nt') := by
  unfold markEmpty
  split
  · exact ⟨fun nt' => St.addEmpty_clOf s nt nt' fr.ci, fun nt' => St.addEmpty_queueOf s nt nt' fr.ci⟩
  · exact ⟨fun _ => rfl, fun _ => rfl⟩

theorem emit_tables (E : Env S) (nt : NT S Unit) (ci : Nat) (P : Sym) (isFun : Bool) :
    ∀ (pend : List (List Prog)) (s : St S),
      (∀ nt', (emit E nt ci P isFun s pend).1.clOf nt' = s.clOf nt') ∧
      (∀ nt', (emit E nt ci P isFun s pend).1.queueOf nt' = s.queueOf nt') := by
  intro pend
  induction pend with
  | nil => intro s; simp [emit]
  | cons a rest ih =>
    intro s
    unfold emit
    simp only
    split
    · exact ih s
    · split
      · obtain ⟨h1, h2⟩ := ih (s.addDeleted (mkProg P isFun a))
        exact ⟨fun nt' => by rw [h1, St.addDeleted_clOf], fun nt' => by rw [h2, St.addDeleted_queueOf]⟩
      · exact ⟨fun _ => rfl, fun _ => rfl⟩

/-- in a strictly increasing list every entry is ≤ the last one -/
theorem le_last_of_pairwise (l : List Cost) (h : l.Pairwise (fun a b => a.fin < b.fin)) (last : Cost)
    (hl : l.getLast? = some last) (c : Cost) (hc : c ∈ l) : c.fin ≤ last.fin := by
  obtain ⟨i, hi, rfl⟩ := List.getElem_of_mem hc
  rw [List.getLast?_eq_getElem?] at hl
  have hlast : l[l.length - 1]? = some l[l.length - 1] := List.getElem?_eq_getElem (by omega)
  rw [hlast] at hl; cases hl
  by_cases hi' : i = l.length - 1
  · subst hi'; exact Rat.le_refl
  · have := List.pairwise_iff_getElem.mp h i (l.length - 1) hi (by omega) (by omega)
    grind

/-- the end of a `query` that worked on the last cost index: the next cost is appended -/
theorem epilogue_oi (s : St S) (nt : NT S Unit) (fr : Frame) (x : Rat) (hs : OI s) (hf : FrO s nt fr) (hx : fr.cost.fin < x)
    (hne : ∀ e q, s.queueOf nt = e :: q → e.cost ≠ fr.cost) :
    OI (epilogue s nt fr) ∧ Prot x s (epilogue s nt fr) := by
  obtain ⟨m1, m2⟩ := markEmpty_tables s nt fr
  have h1 : OI (markEmpty s nt fr) := hs.of_eq m1 m2
  have hlast := hf.last
  unfold epilogue
  simp only
  split
  · exact ⟨h1, Prot.of_eq m1 m2⟩
  · next e q hq =>
    have hq' : s.queueOf nt = e :: q := by rw [← m2]; exact hq
    have hemem : e ∈ s.queueOf nt := by rw [hq']; exact List.mem_cons_self ..
    have hef : e.cost.inf = 0 := hs.finQ nt e hemem
    have hfrmem : fr.cost ∈ s.clOf nt := List.mem_of_getElem? hf.2
    have hfrf : fr.cost.inf = 0 := hs.fin nt _ hfrmem
    have hge : fr.cost.fin ≤ e.cost.fin := hs.low nt e _ hemem hfrmem
    have hgt : fr.cost.fin < e.cost.fin := by
      have hne' := hne e q hq'
      by_cases heq : e.cost.fin = fr.cost.fin
      · exact absurd (Cost.eq_of_fin _ _ hef hfrf heq) hne'
      · grind
    have hmin : ∀ el ∈ s.queueOf nt, e.cost.fin ≤ el.cost.fin := by
      intro el hel
      have := head_min_of_heap _ e q hq' (hs.heap nt) el hel
      exact (Cost.lt_false_iff _ _ (hs.finQ nt el hel) hef).mp this
    refine ⟨⟨fun nt' c hm => ?_, fun nt' el hm => hs.finQ nt' el (m2 nt' ▸ hm), fun nt' c hm => ?_, fun nt' => ?_,
      fun nt' el c hm1 hm2 => ?_, fun nt' => (m2 nt') ▸ hs.heap nt'⟩, ?_⟩
    · rw [St.clOf_setCL] at hm
      split at hm
      · next heq =>
        subst heq
        rcases List.mem_append.mp hm with h' | h'
        · exact h1.fin _ c h'
        · simp only [List.mem_singleton] at h'; subst h'; exact hef
      · exact h1.fin nt' c hm
    · rw [St.clOf_setCL] at hm
      split at hm
      · next heq =>
        subst heq
        rcases List.mem_append.mp hm with h' | h'
        · exact h1.pos _ c h'
        · simp only [List.mem_singleton] at h'; subst h'
          have := hs.pos nt' _ hfrmem
          grind
      · exact h1.pos nt' c hm
    · rw [St.clOf_setCL]
      split
      · next heq =>
        subst heq
        rw [List.pairwise_append]
        refine ⟨h1.mono _, List.pairwise_singleton _ _, fun a ha b hb => ?_⟩
        simp only [List.mem_singleton] at hb; subst hb
        have : a.fin ≤ fr.cost.fin := le_last_of_pairwise _ (hs.mono nt') fr.cost hlast a (m1 nt' ▸ ha)
        grind
      · exact h1.mono nt'
    · rw [St.clOf_setCL] at hm2
      have hm1' : el ∈ s.queueOf nt' := m2 nt' ▸ hm1
      split at hm2
      · next heq =>
        subst heq
        rcases List.mem_append.mp hm2 with h' | h'
        · exact hs.low _ el c hm1' (m1 nt' ▸ h')
        · simp only [List.mem_singleton] at h'; subst h'; exact hmin el hm1'
      · exact hs.low nt' el c hm1' (m1 nt' ▸ hm2)
    · intro nt' hl'
      have hne' : nt' ≠ nt := by
        intro heq; subst heq
        obtain ⟨c0, g1, g2⟩ := hl'
        rw [hlast] at g1; cases g1
        exact absurd g2 (by grind)
      refine ⟨?_, m2 nt'⟩
      rw [St.clOf_setCL]; simp only [hne', if_false]; exact m1 nt'

/-- every entry read by a priced combination is at most the sum (entries are positive) -/
theorem combCost_entry_le (s : St S) (hpos : ∀ nt c, c ∈ s.clOf nt → 0 < c.fin) :
    ∀ (args : List (Ty × S)) (comb : List Nat) (k : Rat), combCost s args comb = some k →
      0 ≤ k ∧ ∀ a c, (a, c) ∈ (args.map ntOf).zip comb → ∃ e, (s.clOf a)[c]? = some e ∧ e.fin ≤ k
  | [], [], k, hk => by
    simp only [combCost, Option.some.injEq] at hk; subst hk
    exact ⟨Rat.le_refl, fun a c h => by simp at h⟩
  | [], _ :: _, _, hk => by simp [combCost] at hk
  | _ :: _, [], _, hk => by simp [combCost] at hk
  | a :: as, c :: cs, k, hk => by
    simp only [combCost] at hk
    split at hk
    · next x y hx hy =>
      cases hk
      obtain ⟨g1, g2⟩ := combCost_entry_le s hpos as cs y hy
      have hxp := hpos _ x (List.mem_of_getElem? hx)
      refine ⟨by grind, fun a' c' h => ?_⟩
      simp only [List.map_cons, List.zip_cons_cons, List.mem_cons, Prod.mk.injEq] at h
      rcases h with ⟨rfl, rfl⟩ | h
      · exact ⟨x, hx, by grind⟩
      · obtain ⟨e, h1, h2⟩ := g2 a' c' h
        exact ⟨e, h1, by grind⟩
    · cases hk

theorem cinv_pop (E : Env S) (s1 : St S) (nt : NT S Unit) (el : HeapEl) (q' : List HeapEl) (hs1 : CInv E s1)
    (hpop : Heapq.pop ltE (s1.queueOf nt) = some (el, q')) : CInv E (s1.setQueue nt q') := by
  refine ⟨fun nt' c hm => hs1.fin nt' c hm, fun nt' x hm => ?_, fun nt' ci p hp => hs1.bank nt' ci p hp⟩
  have hx : x ∈ s1.queueOf nt' := by
    rw [St.queueOf_setQueue] at hm
    split at hm
    · next heq => subst heq; exact (mem_of_pop _ _ _ _ hpop x).mpr (Or.inr hm)
    · exact hm
  obtain ⟨rl, w', k', g1, g2, g3, g4⟩ := hs1.queue nt' x hx
  exact ⟨rl, w', k', g1, g2, by rw [combCost_setQueue]; exact g3, g4⟩

theorem oi_pop (s1 : St S) (nt : NT S Unit) (el : HeapEl) (q' : List HeapEl) (hs1 : OI s1)
    (hpop : Heapq.pop ltE (s1.queueOf nt) = some (el, q')) : OI (s1.setQueue nt q') := by
  have hmem : ∀ x, x ∈ q' → x ∈ s1.queueOf nt := fun x hx => (mem_of_pop _ _ _ _ hpop x).mpr (Or.inr hx)
  refine ⟨hs1.fin, fun nt' x hm => ?_, hs1.pos, hs1.mono, fun nt' x c h1 h2 => ?_, fun nt' => ?_⟩
  · rw [St.queueOf_setQueue] at hm
    split at hm
    · next heq => subst heq; exact hs1.finQ _ x (hmem x hm)
    · exact hs1.finQ nt' x hm
  · rw [St.queueOf_setQueue] at h1
    split at h1
    · next heq => subst heq; exact hs1.low _ x c (hmem x h1) h2
    · exact hs1.low nt' x c h1 h2
  · rw [St.queueOf_setQueue]
    split
    · exact (pop_isHeap ltE_weak _ _ _ (hs1.heap nt) hpop).1
    · exact hs1.heap nt'

theorem epilogue_len (s : St S) (nt : NT S Unit) (fr : Frame) :
    ((epilogue s nt fr).clOf nt).length ≤ (s.clOf nt).length + 1 := by
  obtain ⟨m1, _⟩ := markEmpty_tables s nt fr
  unfold epilogue
  simp only
  split
  · rw [m1]; omega
  · rw [St.clOf_setCL]; simp only [if_true, List.length_append, List.length_singleton, m1]; omega

def QLP (E : Env S) (n : Nat) : Prop :=
  ∀ s nt ci r x, CInv E s → OI s → (∀ e, (s.clOf nt)[ci]? = some e → e.fin < x) → queryList E n s nt ci = some r →
    OI r.1 ∧ Prot x s r.1
def RQP (E : Env S) (n : Nat) : Prop :=
  ∀ s nt ci s' x c, CInv E s → OI s → (s.clOf nt)[ci]? = some c → c.fin < x → runQuery E n s nt ci = some s' →
    (ci + 1 = (s.clOf nt).length → OI s' ∧ Prot x s s') ∧
    (ci + 1 ≠ (s.clOf nt).length → s'.bankOf nt = s.bankOf nt ∧ s'.emptiesOf nt = s.emptiesOf nt)
def DP (E : Env S) (n : Nat) : Prop :=
  ∀ s nt fr s' x, CInv E s → FrC E s nt fr → OI s → FrO s nt fr → fr.cost.fin < x → drive E n s nt fr = some s' →
    OI s' ∧ Prot x s s'
def RP (E : Env S) (n : Nat) : Prop :=
  ∀ s nt fr r x, CInv E s → FrC E s nt fr → OI s → FrO s nt fr → fr.cost.fin < x → resume E n s nt fr = some r →
    OI r.1 ∧ Prot x s r.1 ∧ (∀ p fr', r.2 = .yield p fr' → FrO r.1 nt fr') ∧
    (r.2 = .ret → (r.1.clOf nt).length ≤ (s.clOf nt).length + 1)
def AP (E : Env S) (n : Nat) : Prop :=
  ∀ s as cs ae af acc r x, CInv E s → OI s → (∀ a c, (a, c) ∈ as.zip cs → ∃ e, (s.clOf a)[c]? = some e ∧ e.fin < x) →
    argsLoop E n s as cs ae af acc = some r → OI r.1 ∧ Prot x s r.1

theorem qlp_step (E : Env S) (n : Nat) (ih : RQP E n) : QLP E (n + 1) := by
  intro s nt ci r x hc hs hb h
  unfold queryList at h
  split at h
  · cases h; exact ⟨hs, Prot.refl _ _⟩
  · next hemp =>
    split at h
    · cases h; exact ⟨hs, Prot.refl _ _⟩
    · next hlen =>
      split at h
      · cases h; exact ⟨hs, Prot.refl _ _⟩
      · next hbank =>
        split at h
        · cases h
        · next s1 hrq =>
          have hci : ci < (s.clOf nt).length := by omega
          have hget : (s.clOf nt)[ci]? = some (s.clOf nt)[ci] := List.getElem?_eq_getElem hci
          obtain ⟨g1, g2⟩ := ih _ _ _ _ x _ hc hs hget (hb _ hget) hrq
          by_cases hl : ci + 1 = (s.clOf nt).length
          · obtain ⟨q1, q2⟩ := g1 hl
            split at h
            · cases h; exact ⟨q1, q2⟩
            · split at h
              · cases h; exact ⟨q1, q2⟩
              · cases h
          · obtain ⟨q1, q2⟩ := g2 hl
            exfalso
            split at h
            · next hc' => rw [q2] at hc'; exact hemp hc'
            · split at h
              · next ps hps => rw [q1, hbank] at hps; cases hps
              · cases h

theorem dp_step (E : Env S) (n : Nat) (ihR : RP E n) (ihD : DP E n) : DP E (n + 1) := by
  intro s nt fr s' x hc hfc hs hfo hx h
  unfold drive at h
  split at h
  · cases h
  · next s1 hr =>
    cases h
    obtain ⟨g1, g2, _, _⟩ := ihR _ _ _ _ x hc hfc hs hfo hx hr
    exact ⟨g1, g2⟩
  · next s1 p fr1 hr =>
    obtain ⟨g1, g2, g3, _⟩ := ihR _ _ _ _ x hc hfc hs hfo hx hr
    obtain ⟨c1, _, c3⟩ := (cost_all E n).2.2.2.1 _ _ _ _ hc hfc hr
    obtain ⟨_, c5, _, c7⟩ := c3 p fr1 rfl
    obtain ⟨q1, q2⟩ := ihD _ _ _ _ x c1 c5 g1 (g3 p fr1 rfl) (by rw [c7]; exact hx) h
    exact ⟨q1, g2.trans q2⟩

theorem ap_step (E : Env S) (n : Nat) (ihQL : QLP E n) (ihA : AP E n) : AP E (n + 1) := by
  intro s as cs ae af acc r x hc hs hb h
  cases as with
  | nil => simp only [argsLoop] at h; cases h; exact ⟨hs, Prot.refl _ _⟩
  | cons a as =>
    cases cs with
    | nil => simp [argsLoop] at h
    | cons c cs =>
      simp only [argsLoop] at h
      split at h
      · cases h
      · next s1 one poss hql =>
        obtain ⟨e0, he0, he0x⟩ := hb a c (by simp)
        obtain ⟨g1, g2⟩ := ihQL _ _ _ _ x hc hs (fun e he => by rw [he0] at he; cases he; exact he0x) hql
        obtain ⟨c1, c2, _⟩ := (cost_all E n).1 _ _ _ _ hc hql
        have g1 : OI s1 := g1
        have hb' : ∀ a' c', (a', c') ∈ as.zip cs → ∃ e, (s1.clOf a')[c']? = some e ∧ e.fin < x := by
          intro a' c' hm
          obtain ⟨e, h1, h2⟩ := hb a' c' (by simp [hm])
          exact ⟨e, c2.get _ _ _ h1, h2⟩
        split at h
        · split at h
          · cases h; exact ⟨g1, g2⟩
          · obtain ⟨q1, q2⟩ := ihA _ _ _ _ _ _ _ x c1 g1 hb' h
            exact ⟨q1, g2.trans q2⟩
        · obtain ⟨q1, q2⟩ := ihA _ _ _ _ _ _ _ x c1 g1 hb' h
          exact ⟨q1, g2.trans q2⟩

theorem rqp_step (E : Env S) (n : Nat) (ihD : DP E n) : RQP E (n + 1) := by
  intro s nt ci s' x c hc hs hget hcx h
  unfold runQuery at h
  split at h
  · next hnone => rw [hget] at hnone; cases hnone
  · next c' hc' =>
    have : c' = c := by rw [hget] at hc'; exact (Option.some.inj hc').symm
    subst this
    refine ⟨fun hl => ihD _ _ _ _ x hc ⟨hget, fun a ha => by cases ha⟩ hs ⟨hl, hget⟩ hcx h, fun hl => ?_⟩
    have hci : ci < (s.clOf nt).length := (List.getElem?_eq_some_iff.mp hget).1
    -- the last entry of the cost list is strictly larger than entry `ci`
    have hlast : ∃ L, L ∈ s.clOf nt ∧ c'.fin < L.fin := by
      have hl' : (s.clOf nt).length - 1 < (s.clOf nt).length := by omega
      refine ⟨(s.clOf nt)[(s.clOf nt).length - 1], List.getElem_mem hl', ?_⟩
      have := List.pairwise_iff_getElem.mp (hs.mono nt) ci ((s.clOf nt).length - 1) hci hl' (by omega)
      have e : (s.clOf nt)[ci] = c' := by
        have := List.getElem?_eq_getElem hci; rw [hget] at this; exact (Option.some.inj this).symm
      rw [e] at this; exact this
    obtain ⟨L, hL, hLc⟩ := hlast
    cases n with
    | zero => simp [drive] at h
    | succ m =>
      simp only [drive] at h
      cases m with
      | zero => simp [resume] at h
      | succ k =>
        have hres : resume E (k + 1) s nt { ci := ci, cost := c', P := default } =
            some (epilogue s nt { ci := ci, cost := c', P := default }, Res.ret) := by
          unfold resume
          simp only [emit]
          cases hq : s.queueOf nt with
          | nil => rfl
          | cons e0 rest =>
            simp only
            have hne : e0.cost ≠ c' := by
              intro heq
              have := hs.low nt e0 L (by rw [hq]; exact List.mem_cons_self ..) hL
              rw [heq] at this; grind
            simp [hne]
        rw [hres] at h
        simp only [Option.some.injEq] at h
        subst h
        unfold epilogue markEmpty
        simp only [Bool.not_false, Bool.not_true, Bool.and_false, Bool.false_eq_true, if_false]
        split
        · exact ⟨rfl, rfl⟩
        · exact ⟨rfl, rfl⟩

theorem rp_step (E : Env S) (hpos : PosW E) (n : Nat) (ihR : RP E n) (ihA : AP E n) : RP E (n + 1) := by
  intro s nt fr r x hc hfc hs hfo hx h
  unfold resume at h
  obtain ⟨t1, t2⟩ := emit_tables E nt fr.ci fr.P fr.isFun fr.pending s
  obtain ⟨ce1, ce2, ce3⟩ := emit_cost E nt fr.ci fr.P fr.isFun fr.cost fr.pending s hc hfc.1 hfc.2
  split at h
  · next s1 p rest hem =>
    cases h
    have e1 : (emit E nt fr.ci fr.P fr.isFun s fr.pending).1 = s1 := by rw [hem]
    rw [e1] at t1 t2
    refine ⟨hs.of_eq t1 t2, Prot.of_eq t1 t2, fun p' fr' hy => ?_, fun hr => by cases hr⟩
    cases hy
    exact ⟨by rw [t1]; exact hfo.1, by rw [t1]; exact hfo.2⟩
  · next s1 hem =>
    have e1 : (emit E nt fr.ci fr.P fr.isFun s fr.pending).1 = s1 := by rw [hem]
    rw [e1] at t1 t2 ce1 ce2
    have hs1 : OI s1 := hs.of_eq t1 t2
    have hc1 : CInv E s1 := ce1
    have hp1 : Prot x s s1 := Prot.of_eq t1 t2
    have hfo1 : FrO s1 nt fr := ⟨by rw [t1]; exact hfo.1, by rw [t1]; exact hfo.2⟩
    have hfc1 : FrC E s1 nt fr := hfc.ext (Ext.of_eq t1)
    split at h
    · next hq0 =>
      cases h
      obtain ⟨g1, g2⟩ := epilogue_oi s1 nt fr x hs1 hfo1 hx (fun e q hq => by rw [hq0] at hq; cases hq)
      exact ⟨g1, hp1.trans g2, fun _ _ hy => (by cases hy), fun _ => (by rw [← t1 nt]; exact epilogue_len s1 nt fr)⟩
    · next e0 q0 hq0 =>
      split at h
      · next hcost =>
        cases h
        obtain ⟨g1, g2⟩ := epilogue_oi s1 nt fr x hs1 hfo1 hx (fun e q hq => by
          rw [hq0] at hq; cases hq; simpa using hcost)
        exact ⟨g1, hp1.trans g2, fun _ _ hy => (by cases hy), fun _ => (by rw [← t1 nt]; exact epilogue_len s1 nt fr)⟩
      · next hcost =>
        have hcost' : e0.cost = fr.cost := by
          by_cases hce : e0.cost = fr.cost
          · exact hce
          · exact absurd hce (by simpa using hcost)
        split at h
        · cases h
        · next el q' hpop =>
          have hhead : el = e0 := by
            have := pop_head ltE _ _ _ hpop
            rw [hq0] at this; simpa using this.symm
          subst hhead
          have hel : el ∈ s1.queueOf nt := (mem_of_pop _ _ _ _ hpop el).mpr (Or.inl rfl)
          obtain ⟨rl0, w, k, hrl0, hw, hk, hcst⟩ := hc1.queue nt el hel
          have hc2 : CInv E (s1.setQueue nt q') := cinv_pop E s1 nt el q' hc1 hpop
          have hs2 : OI (s1.setQueue nt q') := oi_pop s1 nt el q' hs1 hpop
          have hlast1 := hfo1.last
          have hp2 : Prot x s1 (s1.setQueue nt q') := prot_setQueue x s1 nt q' fr.cost hlast1 hx
          have hfrk : fr.cost.fin = w + k := by rw [← hcost', hcst]; rfl
          have hwpos := hpos nt el.P w hw
          split at h
          · cases h
          · next rl hrl =>
            have : rl0 = rl := by rw [hrl0] at hrl; exact Option.some.inj hrl
            subst this
            simp only at h
            split at h
            · cases h
            · next s3 ae af poss hargs =>
              -- the arguments are asked at costs < fr.cost
              obtain ⟨_, hent⟩ := combCost_entry_le s1 hs1.pos rl0.1 el.comb k hk
              have hb : ∀ a c, (a, c) ∈ (rl0.1.map ntOf).zip el.comb →
                  ∃ e, ((s1.setQueue nt q').clOf a)[c]? = some e ∧ e.fin < fr.cost.fin := by
                intro a c hm
                obtain ⟨e, h1, h2⟩ := hent a c hm
                exact ⟨e, h1, by grind⟩
              obtain ⟨hs3, hp3⟩ := ihA _ _ _ _ _ _ _ fr.cost.fin hc2 hs2 hb hargs
              obtain ⟨hc3, hx3, hposs⟩ := (cost_all E n).2.2.2.2 _ _ _ _ _ [] [] _ hc2 All2.nil hargs
              simp only [List.nil_append] at hposs
              have hs3 : OI s3 := hs3
              have hc3 : CInv E s3 := hc3
              -- the tables of `nt` did not change during the argument loop
              have hnt3 : s3.clOf nt = s1.clOf nt ∧ s3.queueOf nt = q' := by
                obtain ⟨a1, a2⟩ := hp3 nt ⟨fr.cost, hlast1, Rat.le_refl⟩
                refine ⟨a1, ?_⟩
                rw [a2, St.queueOf_setQueue]; simp
              have hx13 : Ext s1 s3 := (Ext.of_eq fun _ => rfl).trans hx3
              have hfo3 : ∀ fr' : Frame, fr'.ci = fr.ci → fr'.cost = fr.cost → FrO s3 nt fr' := by
                intro fr' h1 h2
                exact ⟨by rw [h1, hnt3.1]; exact hfo1.1, by rw [h1, h2, hnt3.1]; exact hfo1.2⟩
              have hfc3 : ∀ (ns : Bool), FrC E s3 nt { fr with noSucc := ns, pending := [] } := fun ns =>
                ⟨hx13.get _ _ _ hfc1.1, fun a ha => by cases ha⟩
              have hp03 : Prot x s s3 := (hp1.trans hp2).trans (hp3.mono (by grind))
              split at h
              · obtain ⟨g1, g2, g3, g4⟩ := ihR _ _ _ _ x hc3 (hfc3 _) hs3 (hfo3 _ rfl rfl) hx h
                exact ⟨g1, hp03.trans g2, g3, fun hr => by have := g4 hr; rw [hnt3.1, t1 nt] at this; exact this⟩
              · next hfo' =>
                have hk3 : combCost s3 rl0.1 el.comb = some k := combCost_ext hx13 _ _ _ hk
                have hfc : fr.cost = Cost.ofRat (w + k) := by rw [← hcost', hcst]
                have hfrf : fr.cost.inf = 0 := by rw [hfc]; rfl
                have hlow3 : ∀ c ∈ s3.clOf nt, c.fin ≤ fr.cost.fin := by
                  intro c hcm
                  rw [hnt3.1] at hcm
                  exact le_last_of_pairwise _ (hs1.mono nt) fr.cost hlast1 c hcm
                obtain ⟨hs4, hcl4, hq4⟩ := succLoop_oi nt fr.cost el.P el.comb hfrf (rl0.1.map ntOf) s3 0 hs3 hlow3
                obtain ⟨hc4, _⟩ := succLoop_cost E nt el.P el.comb rl0 w k hrl0 hw (rl0.1.map ntOf) s3 0 hc3 hk3 (by simp)
                rw [← hfc] at hc4
                have hx34 : Ext s3 (succLoop nt fr.cost el.P el.comb s3 0 (rl0.1.map ntOf)) := Ext.of_eq hcl4
                have hp34 : Prot x s3 (succLoop nt fr.cost el.P el.comb s3 0 (rl0.1.map ntOf)) := by
                  intro nt' hl'
                  refine ⟨hcl4 nt', hq4 nt' ?_⟩
                  intro heq; subst heq
                  obtain ⟨c0, g1, g2⟩ := hl'
                  rw [hnt3.1, hlast1] at g1; cases g1
                  exact absurd g2 (by grind)
                have hfo4 : ∀ fr' : Frame, fr'.ci = fr.ci → fr'.cost = fr.cost →
                    FrO (succLoop nt fr.cost el.P el.comb s3 0 (rl0.1.map ntOf)) nt fr' := by
                  intro fr' h1 h2
                  have := hfo3 fr' h1 h2
                  exact ⟨by rw [hcl4]; exact this.1, by rw [hcl4]; exact this.2⟩
                split at h
                · obtain ⟨g1, g2, g3, g4⟩ := ihR _ _ _ _ x hc4 ((hfc3 _).ext hx34) hs4 (hfo4 _ rfl rfl) hx h
                  exact ⟨g1, (hp03.trans hp34).trans g2, g3, fun hr => by have := g4 hr; rw [hcl4 nt, hnt3.1, t1 nt] at this; exact this⟩
                · next hae =>
                  have haf : af = false := by
                    cases af
                    · rfl
                    · cases ae
                      · exact absurd rfl hfo'
                      · exact absurd rfl hae
                  have hposs' := hposs haf
                  have key : ∀ s5, CInv E s5 → OI s5 → Ext (succLoop nt fr.cost el.P el.comb s3 0 (rl0.1.map ntOf)) s5 →
                      Prot x (succLoop nt fr.cost el.P el.comb s3 0 (rl0.1.map ntOf)) s5 →
                      (s5.clOf nt = (succLoop nt fr.cost el.P el.comb s3 0 (rl0.1.map ntOf)).clOf nt) →
                      resume E n s5 nt { fr with noSucc := fr.noSucc && (af && !ae), P := el.P, isFun := !(rl0.1.map ntOf).isEmpty, pending := product poss } = some r →
                      OI r.1 ∧ Prot x s r.1 ∧ (∀ p fr', r.2 = .yield p fr' → FrO r.1 nt fr') ∧
                        (r.2 = .ret → (r.1.clOf nt).length ≤ (s.clOf nt).length + 1) := by
                    intro s5 hc5 hs5 hx45 hp45 hcl5 hres
                    have hfr5 : FrC E s5 nt { fr with noSucc := fr.noSucc && (af && !ae), P := el.P, isFun := !(rl0.1.map ntOf).isEmpty, pending := product poss } := by
                      refine ⟨(hx34.trans hx45).get _ _ _ (hx13.get _ _ _ hfc1.1), fun a ha => ?_⟩
                      simp only at ha ⊢
                      have ha2 := (mem_product poss a).mp ha
                      have hcl := tuple_cost E s3 a poss rl0.1 el.comb k ha2 hposs' hk3
                      unfold mkProg
                      split
                      · obtain ⟨args, u⟩ := rl0
                        simp only [costOf, hrl0, hw, hcl, hfc]; rfl
                      · next hif =>
                        have hnil : rl0.1 = [] := by
                          cases hrl1 : rl0.1 with
                          | nil => rfl
                          | cons x xs => simp [hrl1] at hif
                        have hk0 : k = 0 := by
                          have := combCost_length s3 _ _ _ hk3
                          rw [hnil] at hk3 this
                          have hc0 : el.comb = [] := List.length_eq_zero_iff.mp (by simpa using this)
                          rw [hc0] at hk3
                          simpa [combCost] using hk3.symm
                        obtain ⟨args, u⟩ := rl0
                        simp only at hnil; subst hnil
                        simp only [costOf, hrl0, hw, costOfList, hfc, hk0]; rfl
                    have hfo5 : FrO s5 nt { fr with noSucc := fr.noSucc && (af && !ae), P := el.P, isFun := !(rl0.1.map ntOf).isEmpty, pending := product poss } := by
                      have := hfo4 { fr with noSucc := fr.noSucc && (af && !ae), P := el.P, isFun := !(rl0.1.map ntOf).isEmpty, pending := product poss } rfl rfl
                      exact ⟨by rw [hcl5]; exact this.1, by rw [hcl5]; exact this.2⟩
                    obtain ⟨g1, g2, g3, g4⟩ := ihR _ _ _ _ x hc5 hfr5 hs5 hfo5 hx hres
                    exact ⟨g1, ((hp03.trans hp34).trans hp45).trans g2, g3, fun hr => by
                      have := g4 hr; rw [hcl5, hcl4 nt, hnt3.1, t1 nt] at this; exact this⟩
                  split at h
                  · exact key _ hc4 hs4 (Ext.refl _) (Prot.refl _ _) rfl h
                  · refine key (St.setBank (succLoop nt fr.cost el.P el.comb s3 0 (rl0.1.map ntOf)) nt fr.ci []) ?_ ?_
                      (Ext.of_eq fun _ => rfl) (Prot.of_eq (fun _ => rfl) (fun _ => rfl)) rfl h
                    · refine ⟨fun nt' c hm => hc4.fin nt' c hm, fun nt' x' hm => ?_, fun nt' ci p hp => ?_⟩
                      · obtain ⟨rl, w', k', g1, g2, g3, g4⟩ := hc4.queue nt' x' hm
                        exact ⟨rl, w', k', g1, g2, by rw [combCost_setBank]; exact g3, g4⟩
                      · rw [St.bankAt_setBank] at hp
                        split at hp
                        · cases hp
                        · exact hc4.bank nt' ci p hp
                    · exact OI.of_eq (s := succLoop nt fr.cost el.P el.comb s3 0 (rl0.1.map ntOf)) (fun _ => rfl) (fun _ => rfl) hs4

theorem order_all (E : Env S) (hpos : PosW E) : ∀ n : Nat, QLP E n ∧ RQP E n ∧ DP E n ∧ RP E n ∧ AP E n := by
  intro n
  induction n with
  | zero =>
    refine ⟨?_, ?_, ?_, ?_, ?_⟩
    · intro s nt ci r x _ _ _ h; simp [queryList] at h
    · intro s nt ci s' x c _ _ _ _ h; simp [runQuery] at h
    · intro s nt fr s' x _ _ _ _ _ h; simp [drive] at h
    · intro s nt fr r x _ _ _ _ _ h; simp [resume] at h
    · intro s as cs ae af acc r x _ _ _ h; simp [argsLoop] at h
  | succ n ih =>
    obtain ⟨a, b, c, d, e⟩ := ih
    exact ⟨qlp_step E n b, rqp_step E n c, dp_step E n d c, rp_step E hpos n d e, ap_step E n a e⟩

end PS.Beap
