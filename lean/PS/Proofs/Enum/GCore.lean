/- Generic core of the heap-search proofs (any priority type, threshold, filter): laws of the
   priority order, state invariants, and their preservation by the two primitive table updates.
   Context-free grammars (`TT S Unit`). -/
import PS.Proofs.Enum.HeapMap
import PS.Proofs.Enum.HSSoundInit
import PS.Proofs.Enum.HSNodupRun
import PS.Proofs.Enum.HSHeaps
namespace PS.HG
open PS PS.G PS.HS
set_option linter.unusedSectionVars false
variable {S π : Type} [DecidableEq S]

/-- laws of the priority order: a strict weak order on the `Good` priorities (all the priorities of
    a run are `Good`), acyclic grammar, replacing an argument by one that is not better gives a
    program that is not better -/
structure Law (E : Env S Unit π) (rank : NT S Unit → Nat) (Good : π → Prop) : Prop where
  weak : Heapq.WeakOrderOn Good E.ops.lt
  good : ∀ p nt v, prioSpec E p nt = some v → Good v
  thr_good : ∀ t, E.ops.thr = some t → Good t
  acyclic : ∀ nt F ra, E.G.rule? nt F = some (ra, ()) → ∀ a ∈ ra, rank (argNT a) < rank nt
  mono : ∀ nt F ra args (i : Nat) q ai a pq pa pF pF', E.G.rule? nt F = some (ra, ()) → genList E.G args ra = true →
    ra[i]? = some a → args[i]? = some ai → gen E.G q (argNT a) = true →
    prioSpec E q (argNT a) = some pq → prioSpec E ai (argNT a) = some pa → E.ops.lt pq pa = false →
    prioSpec E (.node F args) nt = some pF → prioSpec E (.node F (args.set i q)) nt = some pF' →
    E.ops.lt pF' pF = false

theorem Law.ltE {E : Env S Unit π} {rank} {Good} (L : Law E rank Good) :
    Heapq.WeakOrderOn (fun e : π × Prog => Good e.1) (ltE E.ops) :=
  ⟨fun a b h => L.weak.asymm a.2 b.2 h, fun a b c h1 h2 => L.weak.ntrans a.2 b.2 c.2 h1 h2⟩

/-- a better priority passes the threshold test as well -/
theorem Law.pushOK_mono {E : Env S Unit π} {rank} {Good} (L : Law E rank Good) {p p' : π} (hp : Good p) (hp' : Good p')
    (hle : E.ops.lt p p' = false) (h : pushOK E.ops p = true) : pushOK E.ops p' = true := by
  unfold pushOK at h ⊢
  cases ht : E.ops.thr with
  | none => rfl
  | some t =>
    rw [ht] at h
    simp only at h ⊢
    have hg := L.thr_good t ht
    cases hlt : E.ops.lt p' t with
    | true => rfl
    | false =>
      -- t ≤ p' ≤ p contradicts p < t
      have := L.weak.ntrans hg hp' hp hlt hle
      rw [h] at this; cases this

/-! ### no-duplicate invariant without the "no filter" clause -/
structure NInvF (s : St S Unit π) : Prop where
  heap_nodup : ∀ nt, (s.heapProgs nt).Nodup
  heap_seen : ∀ nt p, p ∈ s.heapProgs nt → p ∈ s.seenOf nt
  succ_seen : ∀ nt k v, AList.lookup k (s.succOf nt) = some v → v ∈ s.seenOf nt
  succ_out : ∀ nt k v, AList.lookup k (s.succOf nt) = some v → v ∉ s.heapProgs nt
  succ_inj : ∀ nt k k' v, AList.lookup k (s.succOf nt) = some v → AList.lookup k' (s.succOf nt) = some v → k = k'

theorem NInvF.ofNInv {s : St S Unit π} (h : NInv s) : NInvF s :=
  ⟨h.heap_nodup, h.heap_seen, h.succ_seen, h.succ_out, h.succ_inj⟩

theorem NInvF.popTake {lt : (π × Prog) → (π × Prog) → Bool} {s : St S Unit π} (hi : NInvF s) (nt : NT S Unit)
    (key : Option Prog) (e : π × Prog) (h' : List (π × Prog))
    (h : Heapq.pop lt (s.heapOf nt) = some (e, h'))
    (hkey : AList.lookup key (s.succOf nt) = none) :
    NInvF (s.popTake nt key e h') ∧ Stable s (s.popTake nt key e h') := by
  have hperm := pop_progs h
  have hnd : (e.2 :: h'.map (·.2)).Nodup := hperm.nodup_iff.mp (hi.heap_nodup nt)
  have he_in : e.2 ∈ s.heapProgs nt := hperm.symm.subset (List.mem_cons_self)
  have hsub : ∀ p, p ∈ h'.map (·.2) → p ∈ s.heapProgs nt :=
    fun p hp => hperm.symm.subset (List.mem_cons_of_mem _ hp)
  have hprogs := popTake_heapProgs s nt key e h'
  have hsucc := popTake_succOf s nt key e h'
  have hst : Stable s (s.popTake nt key e h') := by
    intro nt' k v hk
    rw [hsucc]
    split
    · rename_i heq; subst heq
      rw [AList.lookup_insert]
      split
      · rename_i hkk; subst hkk; rw [hkey] at hk; cases hk
      · exact hk
    · exact hk
  refine ⟨⟨?_, ?_, ?_, ?_, ?_⟩, hst⟩
  · intro nt'
    rw [hprogs]
    split
    · exact (List.nodup_cons.mp hnd).2
    · exact hi.heap_nodup nt'
  · intro nt' p hp
    rw [hprogs] at hp
    show p ∈ s.seenOf nt'
    split at hp
    · rename_i heq; subst heq; exact hi.heap_seen _ p (hsub p hp)
    · exact hi.heap_seen nt' p hp
  · intro nt' k v hk
    rw [hsucc] at hk
    show v ∈ s.seenOf nt'
    split at hk
    · rename_i heq; subst heq
      rw [AList.lookup_insert] at hk
      split at hk
      · cases hk; exact hi.heap_seen _ _ he_in
      · exact hi.succ_seen _ k v hk
    · exact hi.succ_seen nt' k v hk
  · intro nt' k v hk hv
    rw [hsucc] at hk
    rw [hprogs] at hv
    split at hk
    · rename_i heq; subst heq
      simp only [if_true] at hv
      rw [AList.lookup_insert] at hk
      split at hk
      · cases hk; exact (List.nodup_cons.mp hnd).1 hv
      · exact hi.succ_out _ k v hk (hsub v hv)
    · rename_i hne
      simp only [hne, if_false] at hv
      exact hi.succ_out nt' k v hk hv
  · intro nt' k k' v hk hk'
    rw [hsucc] at hk hk'
    split at hk
    · rename_i heq; subst heq
      simp only [if_true] at hk'
      rw [AList.lookup_insert] at hk hk'
      split at hk
      · rename_i e1
        cases hk
        split at hk'
        · rename_i e2; rw [e1, e2]
        · exact absurd he_in (hi.succ_out _ k' _ hk')
      · split at hk'
        · cases hk'
          exact absurd he_in (hi.succ_out _ k _ hk)
        · exact hi.succ_inj _ k k' v hk hk'
    · rename_i hne
      simp only [hne, if_false] at hk'
      exact hi.succ_inj nt' k k' v hk hk'

/-- a deleted program is popped and not recorded -/
theorem NInvF.popSkip {lt : (π × Prog) → (π × Prog) → Bool} {s : St S Unit π} (hi : NInvF s) (nt : NT S Unit)
    (e : π × Prog) (h' : List (π × Prog)) (h : Heapq.pop lt (s.heapOf nt) = some (e, h')) :
    NInvF (s.setHeap nt h') := by
  have hperm := pop_progs h
  have hnd : (e.2 :: h'.map (·.2)).Nodup := hperm.nodup_iff.mp (hi.heap_nodup nt)
  have hsub : ∀ p, p ∈ h'.map (·.2) → p ∈ s.heapProgs nt :=
    fun p hp => hperm.symm.subset (List.mem_cons_of_mem _ hp)
  have hprogs : ∀ nt', (s.setHeap nt h').heapProgs nt' = if nt' = nt then h'.map (·.2) else s.heapProgs nt' := by
    intro nt'; unfold St.heapProgs; rw [St.heapOf_setHeap]; split <;> rfl
  refine ⟨?_, ?_, hi.succ_seen, ?_, hi.succ_inj⟩
  · intro nt'; rw [hprogs]; split
    · exact (List.nodup_cons.mp hnd).2
    · exact hi.heap_nodup nt'
  · intro nt' p hp
    rw [hprogs] at hp
    show p ∈ s.seenOf nt'
    split at hp
    · rename_i heq; subst heq; exact hi.heap_seen _ p (hsub p hp)
    · exact hi.heap_seen nt' p hp
  · intro nt' k v hk hv
    rw [hprogs] at hv
    have hk' : AList.lookup k (s.succOf nt') = some v := hk
    split at hv
    · rename_i heq; subst heq; exact hi.succ_out _ k v hk' (hsub v hv)
    · exact hi.succ_out nt' k v hk' hv

theorem NInvF.pushNew {E : Env S Unit π} {s : St S Unit π} (h : NInvF s) (nt : NT S Unit) (np : Prog)
    (hnew : np ∉ s.seenOf nt) : NInvF (pushNew E s nt np) := by
  have hnh : np ∉ s.heapProgs nt := fun hh => hnew (h.heap_seen nt np hh)
  have hseen : ∀ nt' p, p ∈ s.seenOf nt' → p ∈ (s.addSeen nt np).seenOf nt' := by
    intro nt' p hp
    rw [St.seenOf_addSeen]
    split
    · rename_i heq; subst heq; exact List.mem_append_left _ hp
    · exact hp
  have h1 : NInvF (s.addSeen nt np) :=
    ⟨h.heap_nodup, fun nt' p hp => hseen nt' p (h.heap_seen nt' p hp),
     fun nt' k v hk => hseen nt' v (h.succ_seen nt' k v hk), h.succ_out, h.succ_inj⟩
  unfold HS.pushNew
  simp only
  split
  · exact h1
  · rename_i r _
    split
    · refine ⟨?_, ?_, h1.succ_seen, ?_, h1.succ_inj⟩
      · intro nt'
        unfold St.heapProgs
        rw [St.heapOf_setHeap]
        split
        · rename_i heq; subst heq
          have hp := (Heapq.push_perm (ltE E.ops) (s.heapOf nt') (r.2, np)).map (·.2)
          exact hp.nodup_iff.mpr (List.nodup_cons.mpr ⟨hnh, h.heap_nodup nt'⟩)
        · exact h.heap_nodup nt'
      · intro nt' p hp
        unfold St.heapProgs at hp
        rw [St.heapOf_setHeap] at hp
        split at hp
        · rename_i heq; subst heq
          have hpm := ((Heapq.push_perm (ltE E.ops) (s.heapOf nt') (r.2, np)).map (·.2)).subset hp
          rcases List.mem_cons.mp hpm with rfl | hm
          · show p ∈ (s.addSeen nt' p).seenOf nt'
            rw [St.seenOf_addSeen]; simp
          · exact h1.heap_seen nt' p hm
        · exact h1.heap_seen nt' p hp
      · intro nt' k v hk hv
        unfold St.heapProgs at hv
        rw [St.heapOf_setHeap] at hv
        split at hv
        · rename_i heq; subst heq
          have hpm := ((Heapq.push_perm (ltE E.ops) (s.heapOf nt') (r.2, np)).map (·.2)).subset hv
          rcases List.mem_cons.mp hpm with rfl | hm
          · exact hnew (h.succ_seen nt' k v hk)
          · exact h.succ_out nt' k v hk hm
        · exact h.succ_out nt' k v hk hv
    · exact ⟨h1.heap_nodup, h1.heap_seen, h1.succ_seen, h1.succ_out, h1.succ_inj⟩

theorem NInvF.pushStep {E : Env S Unit π} {s : St S Unit π} (h : NInvF s) (F : Sym) (args : List Prog)
    (nt : NT S Unit) (i : Nat) (r : Option Prog) : NInvF (pushStep E s F args nt i r) := by
  unfold HS.pushStep
  cases r with
  | none => exact h
  | some q =>
    simp only
    split
    · exact h
    · rename_i hc
      apply h.pushNew
      intro hmem
      apply hc
      simp [hmem]

/-- the tables of a state after the push of a new program -/
theorem pushNew_views (E : Env S Unit π) (s : St S Unit π) (nt : NT S Unit) (np : Prog) :
    (∀ nt', (pushNew E s nt np).succOf nt' = s.succOf nt') ∧
    (∀ nt', (pushNew E s nt np).seenOf nt' = if nt' = nt then s.seenOf nt ++ [np] else s.seenOf nt') ∧
    (∀ nt' e, e ∈ (pushNew E s nt np).heapOf nt' → e ∈ s.heapOf nt' ∨
      (nt' = nt ∧ e.2 = np ∧ ∃ c', computePrio E s.cache nt np = some (c', e.1))) ∧
    (∀ nt', nt' ≠ nt → (pushNew E s nt np).heapOf nt' = s.heapOf nt') ∧
    (pushNew E s nt np).deleted = s.deleted := by
  unfold pushNew
  simp only
  split
  · exact ⟨fun _ => rfl, fun nt' => St.seenOf_addSeen s nt nt' np, fun _ e he => Or.inl he, fun _ _ => rfl, rfl⟩
  · rename_i r hcp
    split
    · refine ⟨fun _ => rfl, fun nt' => St.seenOf_addSeen s nt nt' np, ?_, ?_, rfl⟩
      · intro nt' e he
        rw [St.heapOf_setHeap] at he
        split at he
        · rename_i heq
          have := (Heapq.push_perm (ltE E.ops) _ (r.2, np)).subset he
          rcases List.mem_cons.mp this with rfl | hm
          · exact Or.inr ⟨heq, rfl, r.1, hcp⟩
          · subst heq; exact Or.inl hm
        · exact Or.inl he
      · intro nt' hne
        rw [St.heapOf_setHeap]
        simp only [hne, if_false]
        rfl
    · exact ⟨fun _ => rfl, fun nt' => St.seenOf_addSeen s nt nt' np, fun _ e he => Or.inl he, fun _ _ => rfl, rfl⟩

theorem pushStep_views (E : Env S Unit π) (s1 : St S Unit π) (F : Sym) (args : List Prog) (nt : NT S Unit)
    (i : Nat) (r : Option Prog) :
    (∀ nt', (pushStep E s1 F args nt i r).succOf nt' = s1.succOf nt') ∧
    (∀ nt' p, p ∈ s1.seenOf nt' → p ∈ (pushStep E s1 F args nt i r).seenOf nt') ∧
    (∀ nt', nt' ≠ nt → (pushStep E s1 F args nt i r).heapOf nt' = s1.heapOf nt' ∧
      (pushStep E s1 F args nt i r).seenOf nt' = s1.seenOf nt') ∧
    (pushStep E s1 F args nt i r).deleted = s1.deleted := by
  unfold pushStep
  cases r with
  | none => exact ⟨fun _ => rfl, fun _ _ h => h, fun _ _ => ⟨rfl, rfl⟩, rfl⟩
  | some q =>
    simp only
    split
    · exact ⟨fun _ => rfl, fun _ _ h => h, fun _ _ => ⟨rfl, rfl⟩, rfl⟩
    · obtain ⟨v1, v2, _, v4, v5⟩ := pushNew_views E s1 nt (.node F (args.set i q))
      refine ⟨v1, ?_, ?_, v5⟩
      · intro nt' p hp
        rw [v2]; split
        · rename_i heq; subst heq; exact List.mem_append_left _ hp
        · exact hp
      · intro nt' hne
        refine ⟨v4 nt' hne, ?_⟩
        rw [v2]; simp [hne]

/-! ### order invariant -/

/-- `x` is what the first pop of the reference heap of `nt` returns (if it returns anything) -/
def FP (E : Env S Unit π) (H0 : NT S Unit → List (π × Prog)) (nt : NT S Unit) (x : Prog) : Prop :=
  ∀ e h', Heapq.pop (ltE E.ops) (H0 nt) = some (e, h') → e.2 = x

/-- every non-terminal whose heap is not empty has started its enumeration -/
def HeapStarted (s : St S Unit π) : Prop := ∀ nt, s.heapOf nt ≠ [] → s.succOf nt ≠ []

structure OInv (E : Env S Unit π) (H0 : NT S Unit → List (π × Prog)) (s : St S Unit π) : Prop where
  /-- (I4) no heap element is better than a program already popped for the non-terminal -/
  below : ∀ nt e, e ∈ s.heapOf nt → ∀ k v pv, AList.lookup k (s.succOf nt) = some v →
    prioSpec E v nt = some pv → E.ops.lt e.1 pv = false
  /-- (I4) a successor is not better than its predecessor -/
  link : ∀ nt k v pk pv, AList.lookup (some k) (s.succOf nt) = some v → prioSpec E k nt = some pk →
    prioSpec E v nt = some pv → E.ops.lt pv pk = false
  val_prio : ∀ nt k v, AList.lookup k (s.succOf nt) = some v → (prioSpec E v nt).isSome = true
  /-- (I1) -/
  args : ∀ nt F args ra, Tree.node F args ∈ s.seenOf nt → E.G.rule? nt F = some (ra, ()) →
    ∀ (i : Nat) ai a, args[i]? = some ai → ra[i]? = some a →
      (∃ k, AList.lookup k (s.succOf (argNT a)) = some ai) ∨ (s.succOf (argNT a) = [] ∧ FP E H0 (argNT a) ai)
  fresh : ∀ nt, s.succOf nt = [] → s.heapOf nt = H0 nt
  /-- programs are rejected only once every non-terminal with a non-empty heap has started -/
  del_ok : s.deleted = [] ∨ HeapStarted s

def SeenMono (s s' : St S Unit π) : Prop := ∀ nt p, p ∈ s.seenOf nt → p ∈ s'.seenOf nt

/-- `prog` is not better than any program popped for `nt` -/
def BelowVals (E : Env S Unit π) (s : St S Unit π) (nt : NT S Unit) (prog : Prog) : Prop :=
  ∃ pp, prioSpec E prog nt = some pp ∧
    ∀ k v pv, AList.lookup k (s.succOf nt) = some v → prioSpec E v nt = some pv → E.ops.lt pp pv = false

def OPre (E : Env S Unit π) (H0 : NT S Unit → List (π × Prog)) : Call S Unit → St S Unit π → Prop
  | .query nt p, s => ∀ x, p = some x →
      (∃ k, AList.lookup k (s.succOf nt) = some x) ∨ (s.succOf nt = [] ∧ FP E H0 nt x)
  | .lop nt p, s => ∀ x, p = some x → (∃ k, AList.lookup k (s.succOf nt) = some x) ∨ s.heapOf nt = []
  | .popLoop nt p, s => ∀ x, p = some x → (∃ k, AList.lookup k (s.succOf nt) = some x) ∨ s.heapOf nt = []
  | .addSucc prog nt, s => prog ∈ s.seenOf nt ∧ s.succOf nt ≠ [] ∧ BelowVals E s nt prog
  | .addLoop F args nt _ _ _ _, s => Tree.node F args ∈ s.seenOf nt ∧ s.succOf nt ≠ [] ∧ BelowVals E s nt (.node F args)

def OFrame (rank : NT S Unit → Nat) : Call S Unit → St S Unit π → St S Unit π → Prop
  | .query nt _, s, s' => ∀ nt', rank nt < rank nt' → s'.succOf nt' = s.succOf nt'
  | .lop nt _, s, s' => ∀ nt', rank nt < rank nt' → s'.succOf nt' = s.succOf nt'
  | .popLoop nt _, s, s' => ∀ nt', rank nt < rank nt' → s'.succOf nt' = s.succOf nt'
  | .addSucc _ nt, s, s' => ∀ nt', rank nt ≤ rank nt' → s'.succOf nt' = s.succOf nt'
  | .addLoop _ _ nt _ _ _ _, s, s' => ∀ nt', rank nt ≤ rank nt' → s'.succOf nt' = s.succOf nt'

/-- the state invariants together -/
structure Full (E : Env S Unit π) (H0 : NT S Unit → List (π × Prog)) (s : St S Unit π) : Prop where
  sinv : SInv E s
  ninv : NInvF s
  hinv : HInv E s
  oinv : OInv E H0 s

theorem heap_good {E : Env S Unit π} {rank} {Good} (L : Law E rank Good) {s : St S Unit π} (hs : SInv E s)
    (nt : NT S Unit) : ∀ e ∈ s.heapOf nt, Good e.1 :=
  fun e he => L.good e.2 nt e.1 (hs.heap_prio nt e he)

/-- the priority of an argument of a program whose priority is defined -/
theorem prioList_arg (E : Env S Unit π) : ∀ (ks : List Prog) (ra : List (Ty × S)) (acc p : π),
    prioList E ks ra acc = some p → ∀ (i : Nat) ki a, ks[i]? = some ki → ra[i]? = some a →
      (prioSpec E ki (argNT a)).isSome = true
  | [], _, _, _, _, _, _, _, hk, _ => by simp at hk
  | _ :: _, [], _, _, h, _, _, _, _, _ => by simp [prioList] at h
  | k :: ks, a0 :: as, acc, p, h, i, ki, a, hk, ha => by
    rw [prioList] at h
    cases hk0 : prioSpec E k (argNT a0) with
    | none => simp [hk0] at h
    | some pk =>
      simp only [hk0] at h
      cases i with
      | zero =>
        simp only [List.getElem?_cons_zero, Option.some.injEq] at hk ha
        subst hk; subst ha; rw [hk0]; rfl
      | succ i =>
        simp only [List.getElem?_cons_succ] at hk ha
        exact prioList_arg E ks as _ p h i ki a hk ha

theorem prioSpec_arg (E : Env S Unit π) (nt : NT S Unit) (F : Sym) (args : List Prog) (ra : List (Ty × S)) (pF : π)
    (hr : E.G.rule? nt F = some (ra, ())) (h : prioSpec E (.node F args) nt = some pF)
    (i : Nat) (ai : Prog) (a : Ty × S) (hai : args[i]? = some ai) (ha : ra[i]? = some a) :
    (prioSpec E ai (argNT a)).isSome = true := by
  rw [prioSpec, hr] at h
  cases hw : ruleW E nt F with
  | none => simp [hw] at h
  | some w =>
    simp only [hw] at h
    exact prioList_arg E args ra _ pF h i ai a hai ha

theorem pushStep_order {E : Env S Unit π} {rank} {Good} (L : Law E rank Good) {H0 : NT S Unit → List (π × Prog)}
    {s1 : St S Unit π}
    (hs : SInv E s1) (ho : OInv E H0 s1) (F : Sym) (args : List Prog) (nt : NT S Unit) (i : Nat) (r : Option Prog)
    (ra : List (Ty × S)) (a : Ty × S) (ai : Prog)
    (hr : E.G.rule? nt F = some (ra, ())) (hgl : genList E.G args ra = true)
    (ha : ra[i]? = some a) (hai : args[i]? = some ai)
    (hseen : Tree.node F args ∈ s1.seenOf nt) (hne : s1.succOf nt ≠ [])
    (hvals : BelowVals E s1 nt (.node F args))
    (hq : ∀ q, r = some q → AList.lookup (some ai) (s1.succOf (argNT a)) = some q ∧ gen E.G q (argNT a) = true) :
    OInv E H0 (pushStep E s1 F args nt i r) := by
  obtain ⟨w1, _, w3, w4⟩ := pushStep_views E s1 F args nt i r
  unfold pushStep at w1 w3 w4 ⊢
  cases r with
  | none => exact ho
  | some q =>
    simp only at w1 w3 w4 ⊢
    split
    · exact ho
    · rename_i hguard
      simp only [hguard, Bool.false_eq_true, if_false] at w1 w3 w4
      obtain ⟨hlk, hgq⟩ := hq q rfl
      obtain ⟨v1, v2, v3, v4, v5⟩ := pushNew_views E s1 nt (.node F (args.set i q))
      have hgnp : gen E.G (.node F (args.set i q)) nt = true := by
        rw [gen, hr]; exact genList_set E.G args ra i q a hgl ha hgq
      obtain ⟨pF, hpF, hbound⟩ := hvals
      refine ⟨?_, ?_, ?_, ?_, ?_, ?_⟩
      · -- below
        intro nt' e he k v pv hk hpv
        rw [v1] at hk
        rcases v3 nt' e he with hold | ⟨hnt, he2, c', hcp⟩
        · exact ho.below nt' e hold k v pv hk hpv
        · subst hnt
          have hv := (computePrio_spec E _ hs.cache_ok nt' _ hgnp c' e.1 hcp).1
          -- priorities of the old and the new argument
          have hpa := prioSpec_arg E nt' F args ra pF hr hpF i ai a hai ha
          have hpq := ho.val_prio _ _ _ hlk
          cases hpa' : prioSpec E ai (argNT a) with
          | none => rw [hpa'] at hpa; cases hpa
          | some pa =>
            cases hpq' : prioSpec E q (argNT a) with
            | none => rw [hpq'] at hpq; cases hpq
            | some pq =>
              have hlink := ho.link _ _ _ pa pq hlk hpa' hpq'
              have hmono := L.mono nt' F ra args i q ai a pq pa pF e.1 hr hgl ha hai hgq hpq' hpa' hlink hpF hv
              exact L.weak.ntrans (L.good _ _ _ hpv) (L.good _ _ _ hpF) (L.good _ _ _ hv) (hbound k v pv hk hpv) hmono
      · intro nt' k v pk pv hk
        rw [v1] at hk
        exact ho.link nt' k v pk pv hk
      · intro nt' k v hk
        rw [v1] at hk
        exact ho.val_prio nt' k v hk
      · -- args
        intro nt' F' args' ra' hmem hr' j aj a' haj ha'
        rw [v1]
        rw [v2] at hmem
        have hold : Tree.node F' args' ∈ s1.seenOf nt' →
            (∃ k, AList.lookup k (s1.succOf (argNT a')) = some aj) ∨
              (s1.succOf (argNT a') = [] ∧ FP E H0 (argNT a') aj) :=
          fun hm => ho.args nt' F' args' ra' hm hr' j aj a' haj ha'
        split at hmem
        · rename_i heq
          rcases List.mem_append.mp hmem with hm | hm
          · subst heq; exact hold hm
          · simp only [List.mem_singleton] at hm
            cases hm
            subst heq
            rw [hr] at hr'
            cases hr'
            by_cases hji : j = i
            · subst hji
              have hlen : j < args.length := (List.getElem?_eq_some_iff.mp hai).1
              rw [List.getElem?_set_self hlen] at haj
              cases haj
              rw [ha] at ha'; cases ha'
              exact Or.inl ⟨_, hlk⟩
            · rw [List.getElem?_set_ne (Ne.symm hji)] at haj
              exact ho.args nt' F args ra hseen hr j aj a' haj ha'
        · exact hold hmem
      · -- fresh
        intro nt' he
        rw [v1] at he
        have hnn : nt' ≠ nt := by intro heq; subst heq; exact hne he
        rw [v4 nt' hnn]
        exact ho.fresh nt' he
      · -- del_ok
        rw [v5]
        rcases ho.del_ok with hd | hd
        · exact Or.inl hd
        · right
          intro nt' hh
          rw [v1]
          by_cases hnn : nt' = nt
          · subst hnn; exact hne
          · rw [v4 nt' hnn] at hh; exact hd nt' hh

theorem insert_ne_nil {κ ν : Type} [DecidableEq κ] (k : κ) (v : ν) (l : AList κ ν) : AList.insert k v l ≠ [] := by
  cases l with
  | nil => simp [AList.insert]
  | cons p r =>
    obtain ⟨k', v'⟩ := p
    simp only [AList.insert]
    split <;> simp

/-- what the pop of an element gives: it is at least as good as the rest, and not better than what
    was popped before -/
theorem pop_facts {E : Env S Unit π} {rank} {Good} (L : Law E rank Good) {H0 : NT S Unit → List (π × Prog)}
    {s : St S Unit π} (hs : SInv E s) (hh : HInv E s) (ho : OInv E H0 s) (nt : NT S Unit) (e : π × Prog)
    (h' : List (π × Prog)) (hp : Heapq.pop (ltE E.ops) (s.heapOf nt) = some (e, h')) :
    e ∈ s.heapOf nt ∧ (∀ e' ∈ h', e' ∈ s.heapOf nt) ∧ (∀ e' ∈ s.heapOf nt, E.ops.lt e'.1 e.1 = false) ∧
    prioSpec E e.2 nt = some e.1 ∧
    (∀ k v pv, AList.lookup k (s.succOf nt) = some v → prioSpec E v nt = some pv → E.ops.lt e.1 pv = false) ∧
    HInv E (s.setHeap nt h') := by
  obtain ⟨hm, hsub⟩ := mem_of_pop _ _ _ _ hp
  obtain ⟨hheap', hmin⟩ := Heapq.pop_isHeap_on L.ltE _ _ _ (heap_good L hs nt) (hh nt) hp
  refine ⟨hm, hsub, hmin, hs.heap_prio nt e hm, fun k v pv hk hpv => ho.below nt e hm k v pv hk hpv, ?_⟩
  intro nt'
  rw [St.heapOf_setHeap]
  split
  · exact hheap'
  · exact hh nt'

theorem popTake_order {E : Env S Unit π} {rank} {Good} (L : Law E rank Good) {H0 : NT S Unit → List (π × Prog)}
    {s : St S Unit π}
    (hs : SInv E s) (hh : HInv E s) (ho : OInv E H0 s) (nt : NT S Unit) (key : Option Prog) (e : π × Prog)
    (h' : List (π × Prog)) (hp : Heapq.pop (ltE E.ops) (s.heapOf nt) = some (e, h'))
    (hkey : ∀ x, key = some x → (∃ k, AList.lookup k (s.succOf nt) = some x) ∨ s.heapOf nt = [])
    (hnone : AList.lookup key (s.succOf nt) = none) :
    OInv E H0 (s.popTake nt key e h') ∧ (s.popTake nt key e h').succOf nt ≠ [] ∧
    BelowVals E (s.popTake nt key e h') nt e.2 := by
  obtain ⟨hm, hsub, hle, he1, hbelow_e, _⟩ := pop_facts L hs hh ho nt e h' hp
  have hheapne : s.heapOf nt ≠ [] := by intro he; rw [he] at hm; cases hm
  have hkey' : ∀ x, key = some x → ∃ k, AList.lookup k (s.succOf nt) = some x := by
    intro x hx
    rcases hkey x hx with h | h
    · exact h
    · exact absurd h hheapne
  have hsucc := popTake_succOf s nt key e h'
  have hheap : ∀ nt', (s.popTake nt key e h').heapOf nt' = if nt' = nt then h' else s.heapOf nt' := by
    intro nt'
    show (s.setHeap nt h').heapOf nt' = _
    rw [St.heapOf_setHeap]
  have hge := L.good _ _ _ he1
  refine ⟨⟨?_, ?_, ?_, ?_, ?_, ?_⟩, ?_, ?_⟩
  · intro nt' e' he' k v pv hk hpv
    rw [hheap] at he'
    rw [hsucc] at hk
    split at hk
    · rename_i heq; subst heq
      simp only [if_true] at he'
      rw [AList.lookup_insert] at hk
      split at hk
      · cases hk
        rw [he1] at hpv; cases hpv
        exact hle e' (hsub e' he')
      · exact ho.below _ e' (hsub e' he') k v pv hk hpv
    · rename_i hne
      simp only [hne, if_false] at he'
      exact ho.below nt' e' he' k v pv hk hpv
  · intro nt' k v pk pv hk hpk hpv
    rw [hsucc] at hk
    split at hk
    · rename_i heq; subst heq
      rw [AList.lookup_insert] at hk
      split at hk
      · rename_i hkk
        cases hk
        obtain ⟨k0, hk0⟩ := hkey' k hkk.symm
        rw [he1] at hpv; cases hpv
        exact ho.below _ e hm k0 k pk hk0 hpk
      · exact ho.link _ k v pk pv hk hpk hpv
    · exact ho.link nt' k v pk pv hk hpk hpv
  · intro nt' k v hk
    rw [hsucc] at hk
    split at hk
    · rename_i heq; subst heq
      rw [AList.lookup_insert] at hk
      split at hk
      · cases hk; rw [he1]; rfl
      · exact ho.val_prio _ k v hk
    · exact ho.val_prio nt' k v hk
  · intro nt' F args ra hmem hr i ai a hai ha
    rw [hsucc]
    rcases ho.args nt' F args ra hmem hr i ai a hai ha with ⟨k, hk⟩ | ⟨hempty, hfp⟩
    · left
      split
      · rename_i heq
        rw [heq] at hk
        by_cases hkk : k = key
        · subst hkk
          rw [hnone] at hk; cases hk
        · exact ⟨k, by rw [AList.lookup_insert_ne _ _ hkk]; exact hk⟩
      · exact ⟨k, hk⟩
    · split
      · rename_i heq
        left
        rw [heq] at hempty hfp
        have hkn : key = none := by
          cases key with
          | none => rfl
          | some x =>
            obtain ⟨k0, hk0⟩ := hkey' x rfl
            rw [hempty] at hk0; simp at hk0
        have hfr := ho.fresh nt hempty
        rw [hfr] at hp
        have := hfp e h' hp
        exact ⟨none, by rw [hkn, AList.lookup_insert_self, this]⟩
      · exact Or.inr ⟨hempty, hfp⟩
  · intro nt' he
    rw [hsucc] at he
    split at he
    · exact absurd he (insert_ne_nil _ _ _)
    · rename_i hne
      rw [hheap]
      simp only [hne, if_false]
      exact ho.fresh nt' he
  · rcases ho.del_ok with hd | hd
    · exact Or.inl hd
    · right
      intro nt' hh'
      rw [hsucc]
      split
      · exact insert_ne_nil _ _ _
      · rename_i hne
        rw [hheap] at hh'
        simp only [hne, if_false] at hh'
        exact hd nt' hh'
  · rw [hsucc]; simp only [if_true]; exact insert_ne_nil _ _ _
  · refine ⟨e.1, he1, ?_⟩
    intro k v pv hk hpv
    rw [hsucc] at hk
    simp only [if_true] at hk
    rw [AList.lookup_insert] at hk
    split at hk
    · cases hk
      rw [he1] at hpv; cases hpv
      exact L.weak.irrefl hge
    · exact hbelow_e k v pv hk hpv

/-- a deleted program is popped and skipped -/
theorem popSkip_order {E : Env S Unit π} {rank} {Good} (L : Law E rank Good) {H0 : NT S Unit → List (π × Prog)}
    {s : St S Unit π}
    (hs : SInv E s) (hh : HInv E s) (ho : OInv E H0 s) (nt : NT S Unit) (e : π × Prog)
    (h' : List (π × Prog)) (hp : Heapq.pop (ltE E.ops) (s.heapOf nt) = some (e, h'))
    (hd : s.deleted.contains e.2 = true) :
    OInv E H0 (s.setHeap nt h') ∧ (s.setHeap nt h').succOf nt ≠ [] ∧ BelowVals E (s.setHeap nt h') nt e.2 := by
  obtain ⟨hm, hsub, _, he1, hbelow_e, _⟩ := pop_facts L hs hh ho nt e h' hp
  have hheapne : s.heapOf nt ≠ [] := by intro he; rw [he] at hm; cases hm
  have hstarted : HeapStarted s := by
    rcases ho.del_ok with hd' | hd'
    · rw [hd'] at hd; simp at hd
    · exact hd'
  have hsne : s.succOf nt ≠ [] := hstarted nt hheapne
  refine ⟨⟨?_, ho.link, ho.val_prio, ho.args, ?_, ?_⟩, hsne, ⟨e.1, he1, hbelow_e⟩⟩
  · intro nt' e' he' k v pv hk hpv
    rw [St.heapOf_setHeap] at he'
    split at he'
    · rename_i heq; subst heq; exact ho.below _ e' (hsub e' he') k v pv hk hpv
    · exact ho.below nt' e' he' k v pv hk hpv
  · intro nt' he
    have he' : s.succOf nt' = [] := he
    rw [St.heapOf_setHeap]
    split
    · rename_i heq; subst heq; exact absurd he' hsne
    · exact ho.fresh nt' he'
  · right
    intro nt' hh'
    show s.succOf nt' ≠ []
    rw [St.heapOf_setHeap] at hh'
    split at hh'
    · rename_i heq; subst heq; exact hsne
    · exact hstarted nt' hh'

end PS.HG
