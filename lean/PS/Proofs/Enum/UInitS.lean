/- Heap search on unambiguous grammars: `_init` only grows, and `query(S, ·)` leaves `S` initialised. -/
import PS.Proofs.Enum.UNodupBig
namespace PS.UHS
open PS PS.G
set_option linter.unusedSectionVars false
variable {U π : Type} [DecidableEq U]

theorem pushBoth_initS (E : Env U π) (hk : E.kway = true) (s : St U π) (nt : UNT U) (pr : π) (p : Prog) :
    (pushBoth E s nt pr p).initS = s.initS := by
  unfold pushBoth
  split
  · rfl
  · rfl

theorem pushStep_initS (E : Env U π) (hk : E.kway = true) {s s3 : St U π} {F args nt v i r}
    (hp : pushStep E s F args nt v i r = some s3) : s3.initS = s.initS := by
  unfold pushStep at hp
  cases r with
  | none => simp only [Option.some.injEq] at hp; subst hp; rfl
  | some q =>
    simp only at hp
    split at hp
    · simp only [Option.some.injEq] at hp; subst hp; rfl
    · split at hp
      · simp at hp
      · rename_i s2' pr hcp
        simp only [Option.some.injEq] at hp; subst hp
        rw [pushBoth_initS E hk]
        obtain ⟨c, rfl⟩ := computePrio_step E hcp
        rfl

theorem initPush_initS (E : Env U π) (hk : E.kway = true) (nt : UNT U) :
    ∀ (l : List (Sym × List (UNT U))) (s s' : St U π), initPush E s nt l = some s' → s'.initS = s.initS := by
  intro l
  induction l with
  | nil => intro s s' hp; simp only [initPush, Option.some.injEq] at hp; subst hp; rfl
  | cons a rest ih =>
    intro s s' hp
    obtain ⟨P, v⟩ := a
    simp only [initPush] at hp
    split at hp
    · simp at hp
    · split at hp
      · simp at hp
      · split at hp
        · simp at hp
        · rename_i s1 pr hcp
          split at hp
          · simp at hp
          · rw [ih _ _ hp, pushBoth_initS E hk]
            obtain ⟨c, rfl⟩ := computePrio_step E hcp
            rfl

theorem big_initS (E : Env U π) (hk : E.kway = true) {c : Call U π} {s s' : St U π} {r : Res π}
    (hb : Big E c s s' r) : ∀ x, x ∈ s.initS → x ∈ s'.initS := by
  induction hb with
  | query_direct h hb ih => exact ih
  | query_init h h0 hb ih0 ih => exact fun x hx => ih x (ih0 x hx)
  | lop_hit h => exact fun _ h => h
  | lop_miss h hb ih => exact ih
  | pop_empty h => exact fun _ h => h
  | pop_deleted h hd ha hb iha ihb => exact fun x hx => ihb x (iha x hx)
  | pop_take h hd ha iha => exact fun x hx => iha x hx
  | succ_leaf => exact fun _ h => h
  | succ_fun hk' hb ih => exact ih
  | loop_done => exact fun _ h => h
  | loop_step hai hsi hq hp hb ihq ihb =>
    refine fun x hx => ihb x ?_
    rw [pushStep_initS E hk hp]
    exact ihq x hx
  | init_skip h => exact fun _ h => h
  | init_run h hrs hr hp hq ihr ihq =>
    refine fun x hx => ihq x ?_
    rw [initPush_initS E hk _ _ _ _ hp]
    exact ihr x (by simp [hx])
  | rules_nil => exact fun _ h => h
  | rules_cons ha hb iha ihb => exact fun x hx => ihb x (iha x hx)
  | alts_nil => exact fun _ h => h
  | alts_leaf ha hc hv iha =>
    obtain ⟨c, hc'⟩ := computePrio_step E hc
    refine fun x hx => ?_
    show x ∈ St.initS _
    rw [hc']
    exact iha x hx
  | alts_cons ha hc hv hb iha ihb =>
    obtain ⟨c, hc'⟩ := computePrio_step E hc
    refine fun x hx => ihb x ?_
    show x ∈ St.initS _
    rw [hc']
    exact iha x hx
  | args_nil => exact fun _ h => h
  | args_cons hi hm hb ihi ihb => exact fun x hx => ihb x (ihi x hx)

/-- after `query(S, ·)` the non-terminal `S` is initialised -/
theorem query_initS (E : Env U π) (hk : E.kway = true) {nt : UNT U} {p : Option Prog} {s s' : St U π} {r : Res π}
    (hb : Big E (.query nt p) s s' r) : nt ∈ s'.initS := by
  cases hb with
  | query_direct h hb => exact big_initS E hk hb nt (by simpa using h)
  | query_init h h0 hb =>
    apply big_initS E hk hb
    cases h0 with
    | init_skip h' => rw [h] at h'; cases h'
    | init_run h' hrs hr hp hq' =>
      apply big_initS E hk hq'
      rw [initPush_initS E hk _ _ _ _ hp]
      exact big_initS E hk hr nt (by simp)

end PS.UHS
