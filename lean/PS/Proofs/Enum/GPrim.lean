/- Generic invariant principle: a state predicate preserved by the three primitive table updates
   (pop recorded as successor, pop of a deleted program, push of one successor) is preserved by
   every call.  Also: exhausted heaps stay exhausted (no invariant needed). -/
import PS.Proofs.Enum.GBig
namespace PS.HG
open PS PS.G PS.HS
set_option linter.unusedSectionVars false
variable {S π : Type} [DecidableEq S]

def PopStep (E : Env S Unit π) (H0 : NT S Unit → List (π × Prog)) (P : St S Unit π → Prop) : Prop :=
  ∀ (s : St S Unit π) (nt : NT S Unit) (key : Option Prog) (e : π × Prog) (h' : List (π × Prog)),
    Full E H0 s → P s → Heapq.pop (ltE E.ops) (s.heapOf nt) = some (e, h') → s.deleted.contains e.2 = false →
    (∀ x, key = some x → ∃ k, AList.lookup k (s.succOf nt) = some x) →
    AList.lookup key (s.succOf nt) = none → P (s.popTake nt key e h')

def SkipStep (E : Env S Unit π) (H0 : NT S Unit → List (π × Prog)) (P : St S Unit π → Prop) : Prop :=
  ∀ (s : St S Unit π) (nt : NT S Unit) (e : π × Prog) (h' : List (π × Prog)),
    Full E H0 s → P s → Heapq.pop (ltE E.ops) (s.heapOf nt) = some (e, h') → s.deleted.contains e.2 = true →
    P (s.setHeap nt h')

def PushStep (E : Env S Unit π) (H0 : NT S Unit → List (π × Prog)) (P : St S Unit π → Prop) : Prop :=
  ∀ (s1 : St S Unit π) (F : Sym) (args : List Prog) (nt : NT S Unit) (i : Nat) (r : Option Prog)
    (ra : List (Ty × S)) (a : Ty × S) (ai : Prog),
    Full E H0 s1 → P s1 → E.G.rule? nt F = some (ra, ()) → genList E.G args ra = true →
    ra[i]? = some a → args[i]? = some ai → Tree.node F args ∈ s1.seenOf nt → s1.succOf nt ≠ [] →
    BelowVals E s1 nt (.node F args) →
    (∀ q, r = some q → AList.lookup (some ai) (s1.succOf (argNT a)) = some q ∧ gen E.G q (argNT a) = true) →
    P (pushStep E s1 F args nt i r)

theorem big_prim {E : Env S Unit π} {rank} {Good} (L : Law E rank Good) {H0 : NT S Unit → List (π × Prog)}
    (P : St S Unit π → Prop) (hpop : PopStep E H0 P) (hskip : SkipStep E H0 P) (hpush : PushStep E H0 P)
    {c : Call S Unit} {s s' : St S Unit π} {r : Option Prog} (hb : Big E c s s' r) :
    Full E H0 s → SPre E c → NPre c s → OPre E H0 c s → P s → P s' := by
  induction hb with
  | @query_direct s s' nt p r h hb ih =>
    intro hf _ _ hpre hp
    refine ih hf trivial trivial ?_ hp
    intro x hx
    rcases hpre x hx with hv | ⟨hempty, _⟩
    · exact Or.inl hv
    · rcases h with h | h
      · rw [h] at hx; cases hx
      · rw [hempty] at h; simp at h
  | @query_first s s1 s' nt p r0 r hp h h0 hb ih0 ih =>
    intro hf _ _ hpre hP
    have hq0 : OPre E H0 (.query nt none) s := by intro x hx; cases hx
    have c0 := big_core L h0 hf trivial trivial hq0
    have hnone : AList.lookup none (s.succOf nt) = none := by
      cases hl : AList.lookup none (s.succOf nt) with
      | none => rfl
      | some v => rw [hl] at h; simp at h
    refine ih c0.full trivial trivial ?_ (ih0 hf trivial trivial hq0 hP)
    intro x hx
    rcases hpre x hx with ⟨k, hk⟩ | ⟨hempty, hfp⟩
    · exact Or.inl ⟨k, c0.stable _ _ _ hk⟩
    · have hdel : s.deleted = [] ∨ s.heapOf nt = [] := by
        rcases hf.oinv.del_ok with hd | hd
        · exact Or.inl hd
        · right
          cases hh : s.heapOf nt with
          | nil => rfl
          | cons e0 r0' => exact absurd hempty (hd nt (by rw [hh]; simp))
      rcases query_none_inv h0 hnone hdel with ⟨hpe, heq⟩ | ⟨e, h', hpt, hr0⟩
      · right; rw [heq]; exact (Heapq.pop_none_iff _ _).mp hpe
      · left
        rw [hf.oinv.fresh nt hempty] at hpt
        have := hfp e h' hpt
        exact ⟨none, by rw [← this]; exact c0.post _ hr0⟩
  | lop_hit h => intro _ _ _ _ hp; exact hp
  | lop_miss h hb ih => intro hf _ _ hpre hp; exact ih hf trivial h hpre hp
  | pop_empty h => intro _ _ _ _ hp; exact hp
  | @pop_deleted s s1 s' nt key e h' x r h hd ha hb iha ihb =>
    intro hf _ hnone hpre hP
    obtain ⟨oa, hnea, hvals⟩ := popSkip_order L hf.sinv hf.hinv hf.oinv nt e h' h hd
    obtain ⟨hm, hsub, _, _, _, hha⟩ := pop_facts L hf.sinv hf.hinv hf.oinv nt e h' h
    have hseen := hf.sinv.heap_seen _ _ hm
    have hg := hf.sinv.seen_gen _ _ hseen
    have hfa : Full E H0 (s.setHeap nt h') :=
      ⟨hf.sinv.setHeap_sub nt h' hsub, hf.ninv.popSkip nt e h' h, hha, oa⟩
    have hopre : OPre E H0 (.addSucc e.2 nt) (s.setHeap nt h') := ⟨hseen, hnea, hvals⟩
    have ca := big_core L ha hfa hg trivial hopre
    have hsucc1 : s1.succOf nt = s.succOf nt := ca.frame nt (Nat.le_refl _)
    have hheapne : s.heapOf nt ≠ [] := by intro he; rw [he] at hm; cases hm
    exact ihb ca.full trivial (by show AList.lookup key (s1.succOf nt) = none; rw [hsucc1]; exact hnone) (by
      intro y hy
      rcases hpre y hy with ⟨k, hk⟩ | he
      · exact Or.inl ⟨k, by rw [hsucc1]; exact hk⟩
      · exact absurd he hheapne) (iha hfa hg trivial hopre (hskip s nt e h' hf hP h hd))
  | @pop_take s s' nt key e h' x h hd ha iha =>
    intro hf _ hnone hpre hP
    obtain ⟨oa, hnea, hvals⟩ := popTake_order L hf.sinv hf.hinv hf.oinv nt key e h' h hpre hnone
    obtain ⟨hm, hsub, _, _, _, hha⟩ := pop_facts L hf.sinv hf.hinv hf.oinv nt e h' h
    have hheapne : s.heapOf nt ≠ [] := by intro he; rw [he] at hm; cases hm
    have hseen := hf.sinv.heap_seen _ _ hm
    have hg := hf.sinv.seen_gen _ _ hseen
    have h1 := (hf.sinv.setHeap_sub nt h' hsub).setSucc nt key e.2 hseen
    have hfa : Full E H0 (s.popTake nt key e h') :=
      ⟨h1.congr (fun _ => rfl) (fun _ => rfl) (fun _ => rfl) h1.cache_ok, (hf.ninv.popTake nt key e h' h hnone).1,
       fun nt' => hha nt', oa⟩
    have hkey : ∀ x, key = some x → ∃ k, AList.lookup k (s.succOf nt) = some x := by
      intro x hx
      rcases hpre x hx with hv | he
      · exact hv
      · exact absurd he hheapne
    exact iha hfa hg trivial ⟨hseen, hnea, hvals⟩ (hpop s nt key e h' hf hP h hd hkey hnone)
  | succ_leaf => intro _ _ _ _ hp; exact hp
  | @succ_fun s s' F a as nt r rl x hd hr hb ih =>
    intro hf hspre _ hpre hP
    exact ih hf (spre_first hspre hd hr) trivial hpre hP
  | loop_done h => intro _ _ _ _ hp; exact hp
  | @loop_step s s1 s' F args nt i argsLen info s2 ai r r' x h hai hq hc hda hb ihq ihb =>
    intro hf hspre _ hpre hP
    obtain ⟨hf3, f3, m3, _, _, hgai, c1, _⟩ := loop_iter L hai h hq (fun a b c d => big_core L hq a b c d) hf hspre hpre
    obtain ⟨ra, hr, hgl, hlen, hinfo⟩ := id hspre
    obtain ⟨hinf, a, ha, hs2⟩ := hinfo h
    have hqpre : OPre E H0 (.query s2 (some ai)) s := by
      intro x hx; cases hx; rw [hs2]; exact hf.oinv.args nt F args ra hpre.1 hr i _ a hai ha
    obtain ⟨_, spost⟩ := big_sound E hq hf.sinv trivial
    have hP1 := ihq hf trivial trivial hqpre hP
    have hrank : rank s2 < rank nt := by
      rw [hs2]; exact L.acyclic nt F ra hr a (List.mem_of_getElem? ha)
    have hsame : s1.succOf nt = s.succOf nt := c1.frame nt hrank
    have hvals1 : BelowVals E s1 nt (.node F args) := by
      obtain ⟨pp, hpp, hb'⟩ := hpre.2.2
      exact ⟨pp, hpp, fun k v pv hk hpv => hb' k v pv (by rw [← hsame]; exact hk) hpv⟩
    have hP3 : P (pushStep E s1 F args nt i r) :=
      hpush s1 F args nt i r ra a ai c1.full hP1 hr hgl ha hai (c1.seen _ _ hpre.1) (by rw [hsame]; exact hpre.2.1) hvals1
        (fun q hq' => ⟨by rw [← hs2]; exact c1.post q hq', by rw [← hs2]; exact spost q hq'⟩)
    have hopre' : OPre E H0 (.addLoop F args nt (i + 1) argsLen r'.1 r'.2) (pushStep E s1 F args nt i r) := by
      refine ⟨m3 _ _ hpre.1, ?_, ?_⟩
      · rw [f3 nt (Nat.le_refl _)]; exact hpre.2.1
      · obtain ⟨pp, hpp, hbd⟩ := hpre.2.2
        exact ⟨pp, hpp, fun k v pv hk hpv => hbd k v pv (by rw [← f3 nt (Nat.le_refl _)]; exact hk) hpv⟩
    exact ihb hf3 (spre_next hspre h hc hgai hda) trivial hopre' hP3
  | @loop_last s s1 F args nt i argsLen info s2 ai r h hai hq hc ihq =>
    intro hf hspre _ hpre hP
    obtain ⟨_, _, _, _, _, _, c1, _⟩ := loop_iter L hai h hq (fun a b c d => big_core L hq a b c d) hf hspre hpre
    obtain ⟨ra, hr, hgl, hlen, hinfo⟩ := hspre
    obtain ⟨hinf, a, ha, hs2⟩ := hinfo h
    have hqpre : OPre E H0 (.query s2 (some ai)) s := by
      intro x hx; cases hx; rw [hs2]; exact hf.oinv.args nt F args ra hpre.1 hr i _ a hai ha
    obtain ⟨_, spost⟩ := big_sound E hq hf.sinv trivial
    have hP1 := ihq hf trivial trivial hqpre hP
    have hrank : rank s2 < rank nt := by
      rw [hs2]; exact L.acyclic nt F ra hr a (List.mem_of_getElem? ha)
    have hsame : s1.succOf nt = s.succOf nt := c1.frame nt hrank
    have hvals1 : BelowVals E s1 nt (.node F args) := by
      obtain ⟨pp, hpp, hb'⟩ := hpre.2.2
      exact ⟨pp, hpp, fun k v pv hk hpv => hb' k v pv (by rw [← hsame]; exact hk) hpv⟩
    exact hpush s1 F args nt i r ra a ai c1.full hP1 hr hgl ha hai (c1.seen _ _ hpre.1) (by rw [hsame]; exact hpre.2.1) hvals1
      (fun q hq' => ⟨by rw [← hs2]; exact c1.post q hq', by rw [← hs2]; exact spost q hq'⟩)

/-! ### exhausted heaps stay exhausted -/

theorem pushStep_other (E : Env S Unit π) (s : St S Unit π) (F : Sym) (args : List Prog) (nt nt' : NT S Unit) (i : Nat)
    (r : Option Prog) (hne : nt' ≠ nt) :
    (pushStep E s F args nt i r).heapOf nt' = s.heapOf nt' ∧ (pushStep E s F args nt i r).succOf nt' = s.succOf nt' := by
  obtain ⟨w1, _, w3, _⟩ := pushStep_views E s F args nt i r
  exact ⟨(w3 nt' hne).1, w1 nt'⟩

theorem big_emptyStable (E : Env S Unit π) {c : Call S Unit} {s s' : St S Unit π} {r : Option Prog}
    (hb : Big E c s s' r) : ∀ nt', s.heapOf nt' = [] → ¬ c.addsAt nt' →
    s'.heapOf nt' = [] ∧ s'.succOf nt' = s.succOf nt' := by
  induction hb with
  | query_direct h hb ih => intro nt' he _; exact ih nt' he (fun h => h)
  | query_first hp h h0 hb ih0 ih =>
    intro nt' he _
    obtain ⟨a1, a2⟩ := ih0 nt' he (fun h => h)
    obtain ⟨b1, b2⟩ := ih nt' a1 (fun h => h)
    exact ⟨b1, b2.trans a2⟩
  | lop_hit h => intro _ he _; exact ⟨he, rfl⟩
  | lop_miss h hb ih => intro nt' he _; exact ih nt' he (fun h => h)
  | pop_empty h => intro _ he _; exact ⟨he, rfl⟩
  | @pop_deleted s s1 s' nt key e h' x r h hd ha hb iha ihb =>
    intro nt' he _
    have hne : nt' ≠ nt := by
      intro heq; subst heq
      rw [he] at h; simp [Heapq.pop] at h
    have h1 : (s.setHeap nt h').heapOf nt' = [] := by
      rw [St.heapOf_setHeap]; simp only [hne, if_false]; exact he
    obtain ⟨a1, a2⟩ := iha nt' h1 (fun heq => hne heq.symm)
    obtain ⟨b1, b2⟩ := ihb nt' a1 (fun h => h)
    exact ⟨b1, b2.trans a2⟩
  | @pop_take s s' nt key e h' x h hd ha iha =>
    intro nt' he _
    have hne : nt' ≠ nt := by
      intro heq; subst heq
      rw [he] at h; simp [Heapq.pop] at h
    have h1 : (s.popTake nt key e h').heapOf nt' = [] := by
      show (s.setHeap nt h').heapOf nt' = []
      rw [St.heapOf_setHeap]; simp only [hne, if_false]; exact he
    obtain ⟨a1, a2⟩ := iha nt' h1 (fun heq => hne heq.symm)
    refine ⟨a1, a2.trans ?_⟩
    show (s.popTake nt key e h').succOf nt' = s.succOf nt'
    rw [popTake_succOf]; simp [hne]
  | succ_leaf => intro _ he _; exact ⟨he, rfl⟩
  | succ_fun hd hr hb ih => intro nt' he hna; exact ih nt' he hna
  | loop_done h => intro _ he _; exact ⟨he, rfl⟩
  | @loop_step s s1 s' F args nt i argsLen info s2 ai r r' x h hai hq hc hda hb ihq ihb =>
    intro nt' he hna
    have hne : nt' ≠ nt := fun heq => hna heq.symm
    obtain ⟨a1, a2⟩ := ihq nt' he (fun h => h)
    obtain ⟨p1, p2⟩ := pushStep_other E s1 F args nt nt' i r hne
    obtain ⟨b1, b2⟩ := ihb nt' (p1.trans a1) hna
    exact ⟨b1, (b2.trans p2).trans a2⟩
  | @loop_last s s1 F args nt i argsLen info s2 ai r h hai hq hc ihq =>
    intro nt' he hna
    have hne : nt' ≠ nt := fun heq => hna heq.symm
    obtain ⟨a1, a2⟩ := ihq nt' he (fun h => h)
    obtain ⟨p1, p2⟩ := pushStep_other E s1 F args nt nt' i r hne
    exact ⟨p1.trans a1, p2.trans a2⟩

end PS.HG
