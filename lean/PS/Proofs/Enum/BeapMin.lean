/- The minimal costs computed by `_init_non_terminal_` / `_reevaluate_`, part 2: at a fixpoint of
   `_reevaluate_` (`Stable`), when every queue holds all the rules of its non-terminal (`AllRules`)
   and the first cost of a non-terminal is a minimum of its queue (`HeadMin`), the first cost of
   every initialised non-terminal is a LOWER BOUND of the cost of every program derivable from it;
   with part 1 (`MInv`: it is the cost of an actual program unless it is a placeholder) it is the
   true minimum. -/
import PS.Proofs.Enum.BeapInit
namespace PS.Beap
open PS PS.G
set_option linter.unusedSectionVars false
variable {S : Type} [DecidableEq S]

/-- `_cost_lists[S][0]` is not larger than the cost of any element of `_queues[S]` -/
def HeadMin (s : St S) : Prop :=
  ∀ nt c rest, s.clOf nt = c :: rest → ∀ el ∈ s.queueOf nt, Cost.lt el.cost c = false

/-- the queue of an initialised non-terminal holds an element for each of its rules -/
def AllRules (E : Env S) (s : St S) : Prop :=
  ∀ nt c rest, s.clOf nt = c :: rest → ∀ P rl, E.G.rule? nt P = some rl → ∃ el ∈ s.queueOf nt, el.P = P

/-- a fixpoint of `_reevaluate_`: recomputing the cost of a queued derivation from the current
    first costs changes nothing -/
def Stable (E : Env S) (s : St S) : Prop :=
  ∀ nt el, el ∈ s.queueOf nt → ∃ el', recost E s nt el = some el' ∧ el'.cost = el.cost

mutual
  theorem lower_bound (E : Env S) (s : St S) (hm : MInv E s) (hh : HeadMin s) (ha : AllRules E s) (hst : Stable E s) :
      ∀ (t : Prog) (nt : NT S Unit) (k : Rat), costOf E t nt = some k →
        ∀ c rest, s.clOf nt = c :: rest → c.inf = 0 ∧ c.fin ≤ k
    | .node f kids, nt, k, hk, c, rest, hc => by
      simp only [costOf] at hk
      split at hk
      · next args u w hr hw =>
        split at hk
        · next x hx =>
          cases hk
          obtain ⟨el, hel, hP⟩ := ha nt c rest hc f (args, u) hr
          obtain ⟨el', hre, hcost⟩ := hst nt el hel
          unfold recost at hre
          rw [hP, hw, hr] at hre
          simp only at hre
          split at hre
          · cases hre
          · next c' hc' =>
            cases hre
            simp only at hcost
            obtain ⟨l1, l2⟩ := lower_boundList E s hm hh ha hst kids args x hx (Cost.ofRat 0) c' hc' rfl
            have e1 : el.cost.inf = 0 := by rw [← hcost]; simp [l1]
            have e2 : el.cost.fin = w + c'.fin := by rw [← hcost, Cost.add_fin _ _ (by simp [l1])]; rfl
            have hlt := hh nt c rest hc el hel
            have hnn := (hm.cl nt c rest hc).1
            unfold Cost.lt at hlt
            simp only [Bool.or_eq_false_iff, Bool.and_eq_false_iff, decide_eq_false_iff_not] at hlt
            obtain ⟨h1, h2⟩ := hlt
            rw [e1] at h1 h2
            have hz : c.inf = 0 := by omega
            refine ⟨hz, ?_⟩
            rcases h2 with h2 | h2
            · exact absurd hz.symm h2
            · simp only [Cost.ofRat_fin] at l2
              grind
        · cases hk
      · cases hk
  theorem lower_boundList (E : Env S) (s : St S) (hm : MInv E s) (hh : HeadMin s) (ha : AllRules E s) (hst : Stable E s) :
      ∀ (kids : List Prog) (args : List (Ty × S)) (x : Rat), costOfList E kids args = some x →
        ∀ acc c, sumFirst s args acc = some c → acc.inf = 0 → c.inf = 0 ∧ c.fin ≤ acc.fin + x
    | [], [], x, hx, acc, c, hs, hacc => by
      simp only [costOfList, Option.some.injEq] at hx
      simp only [sumFirst, Option.some.injEq] at hs
      subst hx; subst hs
      exact ⟨hacc, by grind⟩
    | [], _ :: _, _, hx, _, _, _, _ => by simp [costOfList] at hx
    | _ :: _, [], _, hx, _, _, _, _ => by simp [costOfList] at hx
    | k1 :: ks, a :: as, x, hx, acc, c, hs, hacc => by
      simp only [costOfList] at hx
      split at hx
      · next y x' hy hx' =>
        cases hx
        simp only [sumFirst] at hs
        split at hs
        · cases hs
        · next c0 rest0 hcl =>
          obtain ⟨b1, b2⟩ := lower_bound E s hm hh ha hst k1 (ntOf a) y hy c0 rest0 hcl
          have hinf : (acc + c0).inf = 0 := by simp [hacc, b1]
          obtain ⟨l1, l2⟩ := lower_boundList E s hm hh ha hst ks as x' hx' (acc + c0) c hs hinf
          refine ⟨l1, ?_⟩
          rw [Cost.add_fin _ _ (by simp [hacc, b1])] at l2
          grind
      · cases hx
end

/-- **the first cost of a non-terminal is its minimal cost**: it is a lower bound of the cost of every
    derivable program, it is not a placeholder as soon as a program exists, and it is the cost of a
    derivable program -/
theorem minCost_spec (E : Env S) (s : St S) (hm : MInv E s) (hh : HeadMin s) (ha : AllRules E s) (hst : Stable E s)
    (nt : NT S Unit) (c : Cost) (rest : List Cost) (hc : s.clOf nt = c :: rest) :
    (∀ t k, costOf E t nt = some k → c.inf = 0 ∧ c.fin ≤ k) ∧
    (c.inf = 0 → ∃ t, gen E.G t nt = true ∧ costOf E t nt = some c.fin) :=
  ⟨fun t k hk => lower_bound E s hm hh ha hst t nt k hk c rest hc, (hm.cl nt c rest hc).2⟩

/-! ### `Stable` holds when the `while changed` loop of `_reevaluate_` exits -/
theorem mapOpt_keys {α β γ : Type} (f : α → Option β) (g : β → γ) (g' : α → γ) :
    ∀ (l : List α) (l' : List β), mapOpt f l = some l' → l'.map g = l.map g' →
      ∀ x ∈ l, ∃ y, f x = some y ∧ g y = g' x
  | [], _, _, _, x, hx => by cases hx
  | a :: as, l', h, hk, x, hx => by
    unfold mapOpt at h
    split at h
    · next y ys h1 h2 =>
      cases h
      simp only [List.map_cons, List.cons.injEq] at hk
      rcases List.mem_cons.mp hx with rfl | hx'
      · exact ⟨y, h1, hk.1⟩
      · exact mapOpt_keys f g g' as ys h2 hk.2 x hx'
    · cases h

/-- a pass that reports "unchanged" leaves the state as it is and certifies every non-terminal visited -/
theorem reevalPass_unchanged (E : Env S) : ∀ (nts : List (NT S Unit)) (s : St S) (s' : St S),
    reevalPass E nts s false = some (s', false) →
    s' = s ∧ ∀ nt ∈ nts, ∀ el ∈ s.queueOf nt, ∃ el', recost E s nt el = some el' ∧ el'.cost = el.cost := by
  intro nts
  induction nts with
  | nil => intro s s' h; simp only [reevalPass] at h; cases h; exact ⟨rfl, fun nt hnt => by cases hnt⟩
  | cons nt rest ih =>
    intro s s' h
    simp only [reevalPass] at h
    split at h
    · cases h
    · next nq hnq =>
      split at h
      · split at h
        · exact absurd h (reevalPass_true_ne E rest _ _)
        · cases h
      · next hkeys =>
        obtain ⟨g1, g2⟩ := ih s s' h
        refine ⟨g1, fun nt' hnt' el hel => ?_⟩
        rcases List.mem_cons.mp hnt' with rfl | hin
        · have hk : nq.map HeapEl.key = (s.queueOf nt').map HeapEl.key := by
            by_cases hq : nq.map HeapEl.key = (s.queueOf nt').map HeapEl.key
            · exact hq
            · exact absurd hq (by simpa using hkeys)
          obtain ⟨y, hy1, hy2⟩ := mapOpt_keys (recost E s nt') HeapEl.key HeapEl.key _ _ hnq hk el hel
          exact ⟨y, hy1, by simpa [HeapEl.key] using (congrArg Prod.fst hy2)⟩
        · exact g2 nt' hin el hel
where
  reevalPass_true_ne (E : Env S) : ∀ (nts : List (NT S Unit)) (s : St S) (s' : St S),
      reevalPass E nts s true ≠ some (s', false) := by
    intro nts
    induction nts with
    | nil => intro s s' h; simp [reevalPass] at h
    | cons nt rest ih =>
      intro s s' h
      simp only [reevalPass] at h
      split at h
      · cases h
      · split at h
        · split at h
          · exact ih _ _ h
          · cases h
        · exact ih _ _ h

theorem reevalLoop_stable (E : Env S) : ∀ (k : Nat) (s s' : St S), reevalLoop E k s = some s' →
    ∀ nt ∈ AList.keys s'.queues, ∀ el ∈ s'.queueOf nt, ∃ el', recost E s' nt el = some el' ∧ el'.cost = el.cost := by
  intro k
  induction k with
  | zero => intro s s' h; simp [reevalLoop] at h
  | succ k ih =>
    intro s s' h
    simp only [reevalLoop] at h
    split at h
    · cases h
    · exact ih _ _ h
    · next s1 hp =>
      cases h
      obtain ⟨g1, g2⟩ := reevalPass_unchanged E _ _ _ hp
      subst g1
      exact g2

/-- a non-terminal without table entry has an empty queue -/
theorem queueOf_nil_of_not_mem (s : St S) (nt : NT S Unit) (h : nt ∉ AList.keys s.queues) : s.queueOf nt = [] := by
  unfold St.queueOf
  cases hl : AList.lookup nt s.queues with
  | none => rfl
  | some q =>
    have : (AList.lookup nt s.queues).isSome := by simp [hl]
    exact absurd (AList.lookup_isSome_iff_mem_keys.mp this) h

/-- when `_reevaluate_` returns on a grammar flagged recursive, the state is a fixpoint -/
theorem reevaluate_stable (E : Env S) (hrec : E.recursive = true) (fuel : Nat) (s s' : St S)
    (h : reevaluate E fuel s = some s') : Stable E s' := by
  unfold reevaluate at h
  rw [hrec] at h
  simp only [if_true] at h
  intro nt el hel
  by_cases hk : nt ∈ AList.keys s'.queues
  · exact reevalLoop_stable E fuel s s' h nt hk el hel
  · rw [queueOf_nil_of_not_mem s' nt hk] at hel; cases hel

/-- the state returned by the prologue is a fixpoint of `_reevaluate_` (whatever the fuel) -/
def StableAfter (E : Env S) : Prop := ∀ fuel s', prologue E fuel (St.empty E.G) = some s' → Stable E s'

/-- it is, on a grammar flagged recursive (`_reevaluate_` runs to its fixpoint) -/
theorem stableAfter_of_rec (E : Env S) (hrec : E.recursive = true) : StableAfter E := by
  intro fuel s' h
  unfold prologue at h
  split at h
  · cases h
  · exact reevaluate_stable E hrec fuel _ _ h

end PS.Beap
