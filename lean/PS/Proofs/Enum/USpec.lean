/- Specification side of the heap search on unambiguous grammars (PS/Model/Enum/UHeapSearch.lean):
   `HasPrio E p nt pr` — the program `p` has a derivation from the non-terminal `nt` whose priority
   (the rule priorities combined from left to right along the derivation; heap search: the product
   of the rule weights) is `pr`; `Der E p nt` — `p` is derivable from `nt`. -/
import PS.Proofs.Enum.UBig
namespace PS.UHS
open PS PS.G
set_option linter.unusedSectionVars false
variable {U π : Type} [DecidableEq U]

/- `HasPrio E p nt pr`: there is an alternative `(v, w)` of the head of `p` at `nt` from whose
   non-terminals the arguments are derivable with priorities `p₁ … pₖ`, and
   `pr = combine (… (combine (ofRule w) p₁) …) pₖ` -/
mutual
  def HasPrio (E : Env U π) : Prog → UNT U → π → Prop
    | .node F kids, nt, pr => ∃ v w, (v, w) ∈ altsOf E nt F ∧ HasPrioList E kids v (E.ops.ofRule w) pr
  def HasPrioList (E : Env U π) : List Prog → List (UNT U) → π → π → Prop
    | [], [], acc, pr => pr = acc
    | k :: ks, a :: as, acc, pr => ∃ pk, HasPrio E k a pk ∧ HasPrioList E ks as (E.ops.combine acc pk) pr
    | [], _ :: _, _, _ => False
    | _ :: _, [], _, _ => False
end

/-- derivable from `nt` -/
def Der (E : Env U π) (p : Prog) (nt : UNT U) : Prop := ∃ pr, HasPrio E p nt pr

/-- the arguments are derivable from the non-terminals of the alternative, position by position -/
def DerList (E : Env U π) : List Prog → List (UNT U) → Prop
  | [], [] => True
  | k :: ks, a :: as => Der E k a ∧ DerList E ks as
  | [], _ :: _ => False
  | _ :: _, [] => False

theorem hasPrio_node (E : Env U π) (F : Sym) (kids : List Prog) (nt : UNT U) (pr : π) :
    HasPrio E (.node F kids) nt pr ↔
      ∃ v w, (v, w) ∈ altsOf E nt F ∧ HasPrioList E kids v (E.ops.ofRule w) pr := by
  rw [HasPrio]

theorem hasPrioList_derList (E : Env U π) : ∀ (ks : List Prog) (v : List (UNT U)) (acc pr : π),
    HasPrioList E ks v acc pr → DerList E ks v
  | [], [], _, _, _ => trivial
  | [], _ :: _, _, _, h => by simp [HasPrioList] at h
  | _ :: _, [], _, _, h => by simp [HasPrioList] at h
  | k :: ks, a :: as, acc, pr, h => by
    rw [HasPrioList] at h
    obtain ⟨pk, h1, h2⟩ := h
    exact ⟨⟨pk, h1⟩, hasPrioList_derList E ks as _ pr h2⟩

theorem derList_hasPrioList (E : Env U π) : ∀ (ks : List Prog) (v : List (UNT U)) (acc : π),
    DerList E ks v → ∃ pr, HasPrioList E ks v acc pr
  | [], [], acc, _ => ⟨acc, by simp [HasPrioList]⟩
  | [], _ :: _, _, h => by simp [DerList] at h
  | _ :: _, [], _, h => by simp [DerList] at h
  | k :: ks, a :: as, acc, h => by
    obtain ⟨⟨pk, hk⟩, ht⟩ := h
    obtain ⟨pr, hpr⟩ := derList_hasPrioList E ks as (E.ops.combine acc pk) ht
    exact ⟨pr, by rw [HasPrioList]; exact ⟨pk, hk, hpr⟩⟩

theorem der_node (E : Env U π) (F : Sym) (kids : List Prog) (nt : UNT U) :
    Der E (.node F kids) nt ↔ ∃ v w, (v, w) ∈ altsOf E nt F ∧ DerList E kids v := by
  constructor
  · rintro ⟨pr, h⟩
    rw [hasPrio_node] at h
    obtain ⟨v, w, hm, hl⟩ := h
    exact ⟨v, w, hm, hasPrioList_derList E _ _ _ _ hl⟩
  · rintro ⟨v, w, hm, hl⟩
    obtain ⟨pr, hpr⟩ := derList_hasPrioList E kids v (E.ops.ofRule w) hl
    exact ⟨pr, by rw [hasPrio_node]; exact ⟨v, w, hm, hpr⟩⟩

theorem derList_length (E : Env U π) : ∀ (ks : List Prog) (v : List (UNT U)), DerList E ks v → ks.length = v.length
  | [], [], _ => rfl
  | [], _ :: _, h => by simp [DerList] at h
  | _ :: _, [], h => by simp [DerList] at h
  | _ :: ks, _ :: as, h => by simp [derList_length E ks as h.2]

theorem derList_get (E : Env U π) : ∀ (ks : List Prog) (v : List (UNT U)) (i : Nat) (k : Prog) (a : UNT U),
    DerList E ks v → ks[i]? = some k → v[i]? = some a → Der E k a
  | [], _, _, _, _, _, h, _ => by simp at h
  | _ :: _, [], _, _, _, h, _, _ => by simp [DerList] at h
  | k0 :: ks, a0 :: as, 0, k, a, h, hk, ha => by
    simp only [List.getElem?_cons_zero, Option.some.injEq] at hk ha
    subst hk; subst ha; exact h.1
  | k0 :: ks, a0 :: as, i + 1, k, a, h, hk, ha => by
    simp only [List.getElem?_cons_succ] at hk ha
    exact derList_get E ks as i k a h.2 hk ha

theorem derList_set (E : Env U π) : ∀ (ks : List Prog) (v : List (UNT U)) (i : Nat) (q : Prog) (a : UNT U),
    DerList E ks v → v[i]? = some a → Der E q a → DerList E (ks.set i q) v
  | [], _, _, _, _, h, _, _ => by simpa using h
  | _ :: _, [], _, _, _, h, _, _ => by simp [DerList] at h
  | k0 :: ks, a0 :: as, 0, q, a, h, ha, hq => by
    simp only [List.getElem?_cons_zero, Option.some.injEq] at ha
    subst ha
    exact ⟨hq, h.2⟩
  | k0 :: ks, a0 :: as, i + 1, q, a, h, ha, hq => by
    simp only [List.getElem?_cons_succ] at ha
    exact ⟨h.1, derList_set E ks as i q a h.2 ha hq⟩

theorem derList_append (E : Env U π) : ∀ (ks : List Prog) (v : List (UNT U)) (k : Prog) (a : UNT U),
    DerList E ks v → Der E k a → DerList E (ks ++ [k]) (v ++ [a])
  | [], [], _, _, _, hk => ⟨hk, trivial⟩
  | [], _ :: _, _, _, h, _ => by simp [DerList] at h
  | _ :: _, [], _, _, h, _ => by simp [DerList] at h
  | _ :: ks, _ :: as, k, a, h, hk => ⟨h.1, derList_append E ks as k a h.2 hk⟩

/-! ### `compute_priority` -/

/-- the memo table of `compute_priority` (`probabilities` / `bucket_tuples`) is correct -/
def CacheOK (E : Env U π) (c : AList (Prog × UNT U) π) : Prop :=
  ∀ p nt pr, AList.lookup (p, nt) c = some pr → HasPrio E p nt pr

theorem CacheOK.insert {E : Env U π} {c : AList (Prog × UNT U) π} (h : CacheOK E c)
    (p : Prog) (nt : UNT U) (pr : π) (hv : HasPrio E p nt pr) : CacheOK E (AList.insert (p, nt) pr c) := by
  intro p' nt' v' hl
  rw [AList.lookup_insert] at hl
  split at hl
  · rename_i heq; cases hl; cases heq; exact hv
  · exact h p' nt' v' hl

theorem argsPrio_spec (E : Env U π) (c : AList (Prog × UNT U) π) (hc : CacheOK E c) :
    ∀ (as : List Prog) (v : List (UNT U)) (acc pr : π), argsPrio E.ops c as v acc = some pr →
      as.length ≤ v.length ∧ HasPrioList E as (v.take as.length) acc pr
  | [], v, acc, pr, h => by
    simp only [argsPrio, Option.some.injEq] at h
    subst h
    simp [HasPrioList]
  | a :: as, [], acc, pr, h => by simp [argsPrio] at h
  | a :: as, si :: v, acc, pr, h => by
    simp only [argsPrio] at h
    cases hl : AList.lookup (a, si) c with
    | none => simp [hl] at h
    | some pa =>
      simp only [hl] at h
      obtain ⟨h1, h2⟩ := argsPrio_spec E c hc as v _ pr h
      refine ⟨by simp; omega, ?_⟩
      simp only [List.length_cons, List.take_succ_cons]
      rw [HasPrioList]
      exact ⟨pa, hc _ _ _ hl, h2⟩

/-- what `compute_priority` changes: only the memo table -/
def CacheStep (s s' : St U π) : Prop := ∃ c, s' = { s with cache := c }

theorem find?_mem_fst {α β : Type} [DecidableEq α] (l : List (α × β)) (v : α) (x : α × β)
    (h : l.find? (fun vw => vw.1 = v) = some x) : x ∈ l ∧ x.1 = v := by
  have h1 := List.mem_of_find?_eq_some h
  have h2 := List.find?_some h
  exact ⟨h1, by simpa using h2⟩

/-- **`compute_priority(S, program)`** returns the priority of a derivation of `program` from `S`
    (on a derivable program whose alternative `_keys[S][program]` has as many non-terminals as the
    program has arguments) and keeps the memo table correct -/
theorem computePrio_spec (E : Env U π) (s : St U π) (hc : CacheOK E s.cache) (nt : UNT U) (prog : Prog)
    (hd : Der E prog nt)
    (hk : ∀ F kids v, prog = .node F kids → AList.lookup (nt, prog) s.keys = some v → kids.length = v.length)
    (hff : E.ops.firstFit = true → ∀ F kids v w, prog = .node F kids → (v, w) ∈ altsOf E nt F →
      kids.length ≤ v.length → kids.length = v.length)
    (s' : St U π) (pr : π) (h : computePrio E s nt prog = some (s', pr)) :
    HasPrio E prog nt pr ∧ CacheOK E s'.cache ∧ CacheStep s s' := by
  unfold computePrio at h
  split at h
  · rename_i p hp
    simp only [Option.some.injEq, Prod.mk.injEq] at h
    obtain ⟨rfl, rfl⟩ := h
    split at hp
    · exact ⟨hc _ _ _ hp, hc, ⟨s.cache, rfl⟩⟩
    · cases hp
  · obtain ⟨F, kids⟩ := prog
    cases kids with
    | nil =>
      simp only at h
      split at h
      · rename_i v0 w hal
        simp only [Option.some.injEq, Prod.mk.injEq] at h
        obtain ⟨rfl, rfl⟩ := h
        have hv : HasPrio E (.node F []) nt (E.ops.ofRule w) := by
          obtain ⟨pr0, hp0⟩ := hd
          rw [hasPrio_node] at hp0 ⊢
          obtain ⟨v, w', hm, hl⟩ := hp0
          rw [hal] at hm
          simp only [List.mem_singleton, Prod.mk.injEq] at hm
          obtain ⟨rfl, rfl⟩ := hm
          refine ⟨v, w', by rw [hal]; simp, ?_⟩
          cases v with
          | nil => simp [HasPrioList]
          | cons _ _ => simp [HasPrioList] at hl
        exact ⟨hv, hc.insert _ _ _ hv, ⟨_, rfl⟩⟩
      · simp at h
    | cons a as =>
      simp only at h
      split at h
      · simp at h
      · rename_i p hfound
        simp only [Option.some.injEq, Prod.mk.injEq] at h
        obtain ⟨rfl, rfl⟩ := h
        have hv : HasPrio E (.node F (a :: as)) nt p := by
          rw [hasPrio_node]
          split at hfound
          · rename_i hff'
            obtain ⟨vw, hm, hvw⟩ := List.exists_of_findSome?_eq_some hfound
            obtain ⟨hlen, hpl⟩ := argsPrio_spec E s.cache hc _ _ _ _ hvw
            have heq := hff hff' F (a :: as) vw.1 vw.2 rfl hm hlen
            rw [heq, List.take_length] at hpl
            exact ⟨vw.1, vw.2, hm, hpl⟩
          · cases hkl : AList.lookup (nt, Tree.node F (a :: as)) s.keys with
            | none => simp [hkl] at hfound
            | some v =>
              simp only [hkl] at hfound
              cases hfd : (altsOf E nt F).find? (fun vw => vw.1 = v) with
              | none => simp [hfd] at hfound
              | some vw =>
                simp only [hfd] at hfound
                obtain ⟨hm, hv1⟩ := find?_mem_fst _ _ _ hfd
                obtain ⟨hlen, hpl⟩ := argsPrio_spec E s.cache hc _ _ _ _ hfound
                have heq := hk F (a :: as) v rfl hkl
                rw [hv1, heq, List.take_length] at hpl
                exact ⟨vw.1, vw.2, hm, by rw [hv1]; exact hpl⟩
        exact ⟨hv, hc.insert _ _ _ hv, ⟨_, rfl⟩⟩

end PS.UHS
