/- Shape of the tables after the prologue of beap search: every cost list has at most one entry, only
   non-terminals of the rule table are initialised, every queued combination is the all-zero one, the
   banks are untouched. -/
import PS.Proofs.Enum.BeapCostRun
namespace PS.Beap
open PS PS.G PS.Heapq
set_option linter.unusedSectionVars false
variable {S : Type} [DecidableEq S]

structure PI (E : Env S) (s : St S) : Prop where
  len : ∀ nt, (s.clOf nt).length ≤ 1
  keys : ∀ nt, s.clOf nt ≠ [] → (AList.lookup nt E.G.rules).isSome
  zero : ∀ nt el, el ∈ s.queueOf nt → ∀ rl, E.G.rule? nt el.P = some rl → el.comb = List.replicate rl.1.length 0
  bank : s.bank = (St.empty E.G).bank

theorem pi_empty (E : Env S) : PI E (St.empty E.G) := by
  refine ⟨fun nt => ?_, fun nt h => ?_, fun nt el he => ?_, rfl⟩
  · have : (St.empty E.G).clOf nt = [] := lookup_map_nil E.G.rules nt
    simp [this]
  · have : (St.empty E.G).clOf nt = [] := lookup_map_nil E.G.rules nt
    exact absurd this h
  · have : (St.empty E.G).queueOf nt = [] := lookup_map_nil E.G.rules nt
    rw [this] at he; cases he

theorem PI.setQueue {E : Env S} {s : St S} (h : PI E s) (nt : NT S Unit) (q : List HeapEl)
    (hq : ∀ el ∈ q, ∀ rl, E.G.rule? nt el.P = some rl → el.comb = List.replicate rl.1.length 0) : PI E (s.setQueue nt q) := by
  refine ⟨h.len, h.keys, fun nt' el he => ?_, h.bank⟩
  rw [St.queueOf_setQueue] at he
  split at he
  · next heq => subst heq; exact hq el he
  · exact h.zero nt' el he

theorem PI.setCL {E : Env S} {s : St S} (h : PI E s) (nt : NT S Unit) (cl : List Cost) (hl : cl.length ≤ 1)
    (hk : cl ≠ [] → (AList.lookup nt E.G.rules).isSome) : PI E (s.setCL nt cl) := by
  refine ⟨fun nt' => ?_, fun nt' hne => ?_, h.zero, h.bank⟩
  · rw [St.clOf_setCL]; split
    · exact hl
    · exact h.len nt'
  · rw [St.clOf_setCL] at hne; split at hne
    · next heq => subst heq; exact hk hne
    · exact h.keys nt' hne

def INP (E : Env S) (n : Nat) : Prop := ∀ s nt s', PI E s → initNT E n s nt = some s' → PI E s'
def IRP (E : Env S) (n : Nat) : Prop :=
  ∀ s nt rest s', PI E s → (∀ P rl, (P, rl) ∈ rest → E.G.rule? nt P = some rl) → initRules E n s nt rest = some s' → PI E s'
def IAP (E : Env S) (n : Nat) : Prop := ∀ s as c r, PI E s → initArgs E n s as c = some r → PI E r.1

theorem inp_step (E : Env S) (hnd : RowsNodup E.G) (n : Nat) (ihIR : IRP E n) : INP E (n + 1) := by
  intro s nt s' hs h
  unfold initNT at h
  split at h
  · cases h
  · next cl hcl =>
    split at h
    · cases h; exact hs
    · next hlen =>
      have hnil : cl = [] := by
        cases cl with
        | nil => rfl
        | cons x xs => simp at hlen
      subst hnil
      split at h
      · cases h
      · next rs hrs =>
        have hsome : (AList.lookup nt E.G.rules).isSome := by simp [hrs]
        split at h
        · cases h
        · next s1 hir =>
          have hs0 : PI E (s.setCL nt ([] ++ [Cost.big])) := hs.setCL nt _ (by simp) (fun _ => hsome)
          have hs1 := ihIR _ _ _ _ hs0 (fun P rl hm => by
            unfold TT.rule?; rw [hrs]; exact AList.lookup_of_mem_nodup (hnd nt rs hrs) hm) hir
          split at h
          · cases h
          · cases h
            exact hs1.setCL nt _ (by rw [List.length_set]; exact hs1.len nt) (fun _ => hsome)

theorem irp_step (E : Env S) (n : Nat) (ihIR : IRP E n) (ihIA : IAP E n) : IRP E (n + 1) := by
  intro s nt rest s' hs hrest h
  cases rest with
  | nil => simp only [initRules] at h; cases h; exact hs
  | cons pr rest =>
    obtain ⟨P, rl⟩ := pr
    simp only [initRules] at h
    split at h
    · cases h
    · split at h
      · cases h
      · next s1 cost hia =>
        have hs1 : PI E s1 := ihIA _ _ _ _ hs hia
        have hr : E.G.rule? nt P = some rl := hrest P rl (List.mem_cons_self ..)
        refine ihIR _ _ _ _ (hs1.setQueue nt _ (fun el he rl' hrl' => ?_)) (fun P' rl' hm => hrest P' rl' (List.mem_cons_of_mem _ hm)) h
        rcases (mem_push _ _ _ _).mp he with h' | h'
        · subst h'
          simp only at hrl'
          rw [hr] at hrl'; cases hrl'; rfl
        · exact hs1.zero nt el h' rl' hrl'

theorem iap_step (E : Env S) (n : Nat) (ihIN : INP E n) (ihIA : IAP E n) : IAP E (n + 1) := by
  intro s as c r hs h
  cases as with
  | nil => simp only [initArgs] at h; cases h; exact hs
  | cons a as =>
    simp only [initArgs] at h
    split at h
    · cases h
    · next s1 hin =>
      have hs1 := ihIN _ _ _ hs hin
      split at h
      · cases h
      · exact ihIA _ _ _ _ hs1 h

theorem init_pi (E : Env S) (hnd : RowsNodup E.G) : ∀ n, INP E n ∧ IRP E n ∧ IAP E n := by
  intro n
  induction n with
  | zero =>
    refine ⟨?_, ?_, ?_⟩
    · intro s nt s' _ h; simp [initNT] at h
    · intro s nt rest s' _ _ h; simp [initRules] at h
    · intro s as c r _ h; simp [initArgs] at h
  | succ n ih =>
    obtain ⟨a, b, c⟩ := ih
    exact ⟨inp_step E hnd n b, irp_step E n b c, iap_step E n a c⟩

theorem reevalPass_pi (E : Env S) : ∀ (nts : List (NT S Unit)) (s : St S) (ch : Bool) (r : St S × Bool),
    PI E s → reevalPass E nts s ch = some r → PI E r.1 := by
  intro nts
  induction nts with
  | nil => intro s ch r hs h; simp only [reevalPass] at h; cases h; exact hs
  | cons nt rest ih =>
    intro s ch r hs h
    simp only [reevalPass] at h
    split at h
    · cases h
    · next nq hnq =>
      split at h
      · split at h
        · next e q' c0 cl' hh hcl =>
          refine ih _ _ _ ((hs.setQueue nt _ (fun el he rl hrl => ?_)).setCL nt _ ?_ (fun _ => ?_)) h
          · have hmem : el ∈ nq := by
              have := (heapify_perm ltE nq).mem_iff (a := el)
              rw [hh] at this; exact this.mp he
            obtain ⟨x, hx, hf⟩ := mapOpt_mem _ _ _ hnq el hmem
            obtain ⟨h1, h2⟩ := recost_keeps E s nt x el hf
            rw [h2]; exact hs.zero nt x hx rl (h1 ▸ hrl)
          · have := hs.len nt; rw [hcl] at this; simpa using this
          · exact hs.keys nt (by rw [hcl]; simp)
        · cases h
      · exact ih _ _ _ hs h

theorem reevalLoop_pi (E : Env S) : ∀ (k : Nat) (s s' : St S), PI E s → reevalLoop E k s = some s' → PI E s' := by
  intro k
  induction k with
  | zero => intro s s' _ h; simp [reevalLoop] at h
  | succ k ih =>
    intro s s' hs h
    simp only [reevalLoop] at h
    split at h
    · cases h
    · next s1 hp => exact ih _ _ (reevalPass_pi E _ _ _ _ hs hp) h
    · next s1 hp => cases h; exact reevalPass_pi E _ _ _ _ hs hp

theorem prologue_pi (E : Env S) (hnd : RowsNodup E.G) (fuel : Nat) (s' : St S)
    (h : prologue E fuel (St.empty E.G) = some s') : PI E s' := by
  unfold prologue at h
  split at h
  · cases h
  · next s1 hin =>
    have hs1 := (init_pi E hnd fuel).1 _ _ _ (pi_empty E) hin
    unfold reevaluate at h
    split at h
    · exact reevalLoop_pi E _ _ _ hs1 h
    · cases h; exact hs1

/-- every non-terminal of the rule table derives a program (with all rule costs defined) -/
def Productive (E : Env S) : Prop := ∀ nt, (AList.lookup nt E.G.rules).isSome → ∃ t k, costOf E t nt = some k

/-- **the cost invariant holds after the prologue** on a grammar flagged recursive all of whose
    non-terminals derive a program -/
theorem prologue_cinv (E : Env S) (hnd : RowsNodup E.G) (hst : StableAfter E) (hprod : Productive E) (fuel : Nat) (s' : St S)
    (h : prologue E fuel (St.empty E.G) = some s') : CInv E s' := by
  have hpi := prologue_pi E hnd fuel s' h
  have hst' : StableAfter E := hst
  have hst : Stable E s' := hst fuel s' h
  refine cinv_base E s' (fun nt c hc => ?_) hst hpi.zero (fun nt ci p hp => ?_)
  · cases hcl : s'.clOf nt with
    | nil => rw [hcl] at hc; cases hc
    | cons c0 rest =>
      have hlen := hpi.len nt
      rw [hcl] at hlen hc
      have hrest : rest = [] := by
        cases rest with
        | nil => rfl
        | cons _ _ => simp at hlen
      subst hrest
      simp only [List.mem_singleton] at hc; subst hc
      obtain ⟨t, k, hk⟩ := hprod nt (hpi.keys nt (by rw [hcl]; simp))
      exact ((prologue_minCost E hnd hst' fuel s' h nt c [] hcl).1 t k hk).1
  · have : s'.bankAt nt ci = (St.empty E.G).bankAt nt ci := by
      unfold St.bankAt St.bankOf; rw [hpi.bank]
    rw [this] at hp
    have : (St.empty E.G).bankOf nt = [] := lookup_map_nil E.G.rules nt
    simp [St.bankAt, this] at hp

end PS.Beap
