/- The frontier rule of beap search ("Generate next combinations", beap_search.py:177-193): from a
   combination `c` the loop pushes `c + e_i` for i = 0, 1, … and stops after the first i whose new
   index is > 1 (i.e. `c[i] ≥ 1`), skipping positions whose cost list is exhausted.  Hence `t` is
   pushed from `c` iff `t = c + e_i` where `i` is the FIRST non-zero coordinate of `t` (and `t[i]` is
   inside the cost list): every combination has exactly one producer (decrement its first non-zero
   coordinate) — the "produced-from" relation is a tree rooted at `0ᵏ`, so each combination is pushed
   at most once. -/
import PS.Proofs.Enum.BeapBase
namespace PS.Beap
open PS PS.G
set_option linter.unusedSectionVars false

/-- the combinations pushed from `comb` at positions `i, i+1, …`; `lens` = lengths of the cost lists of
    the argument non-terminals at these positions -/
def succCombs (comb : List Nat) : Nat → List Nat → List (List Nat)
  | _, [] => []
  | i, len :: lens =>
    if comb.getD i 0 + 1 ≥ len then
      if comb.getD i 0 + 1 > 1 then [] else succCombs comb (i + 1) lens
    else
      comb.set i (comb.getD i 0 + 1) :: (if comb.getD i 0 + 1 > 1 then [] else succCombs comb (i + 1) lens)

/-- **characterisation**: `t` is pushed from `comb` at a position ≥ i0 iff it increments one position `i`
    all of whose predecessors (from i0) are 0, and the new index is inside the cost list -/
theorem mem_succCombs (comb t : List Nat) : ∀ (lens : List Nat) (i0 : Nat),
    t ∈ succCombs comb i0 lens ↔
      ∃ i, i0 ≤ i ∧ i < i0 + lens.length ∧ (∀ j, i0 ≤ j → j < i → comb.getD j 0 = 0) ∧
        t = comb.set i (comb.getD i 0 + 1) ∧ comb.getD i 0 + 1 < lens.getD (i - i0) 0 := by
  intro lens
  induction lens with
  | nil =>
    intro i0
    simp only [succCombs, List.not_mem_nil, List.length_nil, false_iff]
    rintro ⟨i, h1, h2, _⟩
    omega
  | cons len lens ih =>
    intro i0
    unfold succCombs
    have hrest : (t ∈ (if comb.getD i0 0 + 1 > 1 then [] else succCombs comb (i0 + 1) lens)) ↔
        ∃ i, i0 + 1 ≤ i ∧ i < i0 + 1 + lens.length ∧ (∀ j, i0 ≤ j → j < i → comb.getD j 0 = 0) ∧
          t = comb.set i (comb.getD i 0 + 1) ∧ comb.getD i 0 + 1 < lens.getD (i - (i0 + 1)) 0 := by
      split
      · next hgt =>
        simp only [List.not_mem_nil, false_iff]
        rintro ⟨i, h1, _, h3, _⟩
        have := h3 i0 (Nat.le_refl _) (by omega)
        omega
      · next hle =>
        rw [ih (i0 + 1)]
        have hz : comb.getD i0 0 = 0 := by omega
        constructor
        · rintro ⟨i, h1, h2, h3, h4, h5⟩
          refine ⟨i, h1, h2, fun j hj1 hj2 => ?_, h4, h5⟩
          by_cases hj : j = i0
          · subst hj; exact hz
          · exact h3 j (by omega) hj2
        · rintro ⟨i, h1, h2, h3, h4, h5⟩
          exact ⟨i, h1, h2, fun j hj1 hj2 => h3 j (by omega) hj2, h4, h5⟩
    have hshift : ∀ i, i0 + 1 ≤ i → (len :: lens).getD (i - i0) 0 = lens.getD (i - (i0 + 1)) 0 := by
      intro i hi
      have : i - i0 = (i - (i0 + 1)) + 1 := by omega
      rw [this]; simp
    split
    · next hge =>
      rw [hrest]
      constructor
      · rintro ⟨i, h1, h2, h3, h4, h5⟩
        exact ⟨i, by omega, by simp; omega, h3, h4, by rw [hshift i h1]; exact h5⟩
      · rintro ⟨i, h1, h2, h3, h4, h5⟩
        by_cases hi : i = i0
        · subst hi
          rw [Nat.sub_self] at h5
          have h5' : comb.getD i 0 + 1 < len := h5
          omega
        · exact ⟨i, by omega, by simp at h2; omega, h3, h4, by rw [← hshift i (by omega)]; exact h5⟩
    · next hlt =>
      rw [List.mem_cons, hrest]
      constructor
      · rintro (h | ⟨i, h1, h2, h3, h4, h5⟩)
        · exact ⟨i0, Nat.le_refl _, by simp, fun j hj1 hj2 => by omega, h, by rw [Nat.sub_self]; show comb.getD i0 0 + 1 < len; omega⟩
        · exact ⟨i, by omega, by simp; omega, h3, h4, by rw [hshift i h1]; exact h5⟩
      · rintro ⟨i, h1, h2, h3, h4, h5⟩
        by_cases hi : i = i0
        · subst hi; exact Or.inl h4
        · exact Or.inr ⟨i, by omega, by simp at h2; omega, h3, h4, by rw [← hshift i (by omega)]; exact h5⟩

/-- at position `i`, `comb.set i (comb[i] + 1)` reads `comb[i] + 1`, elsewhere `comb` -/
theorem getD_set_succ (comb : List Nat) (i j : Nat) (hi : i < comb.length) :
    (comb.set i (comb.getD i 0 + 1)).getD j 0 = if j = i then comb.getD i 0 + 1 else comb.getD j 0 := by
  simp only [List.getD_eq_getElem?_getD, List.getElem?_set]
  by_cases h : i = j
  · subst h; simp [hi]
  · have : ¬ j = i := fun e => h e.symm
    simp [h, this]

/-- **unique producer**: a combination is pushed from at most one combination of the same length -/
theorem succCombs_producer_unique (c c' t : List Nat) (lens : List Nat) (hc : c.length = lens.length)
    (hc' : c'.length = lens.length) (h : t ∈ succCombs c 0 lens) (h' : t ∈ succCombs c' 0 lens) : c = c' := by
  obtain ⟨i, _, hi, hz, ht, _⟩ := (mem_succCombs c t lens 0).mp h
  obtain ⟨i', _, hi', hz', ht', _⟩ := (mem_succCombs c' t lens 0).mp h'
  have hil : i < c.length := by omega
  have hil' : i' < c'.length := by omega
  -- i is the first non-zero coordinate of t (seen from c), and so is i'
  have hti : ∀ j, t.getD j 0 = if j = i then c.getD i 0 + 1 else c.getD j 0 := fun j => by rw [ht]; exact getD_set_succ c i j hil
  have hti' : ∀ j, t.getD j 0 = if j = i' then c'.getD i' 0 + 1 else c'.getD j 0 := fun j => by rw [ht']; exact getD_set_succ c' i' j hil'
  have hii : i = i' := by
    rcases Nat.lt_trichotomy i i' with hlt | heq | hgt
    · have a1 := hti i; have a2 := hti' i
      have := hz' i (Nat.zero_le _) hlt
      simp only [if_true] at a1
      have hne : ¬ i = i' := by omega
      simp only [hne, if_false] at a2
      omega
    · exact heq
    · have a1 := hti i'; have a2 := hti' i'
      have := hz i' (Nat.zero_le _) hgt
      simp only [if_true] at a2
      have hne : ¬ i' = i := by omega
      simp only [hne, if_false] at a1
      omega
  subst hii
  apply List.ext_getElem
  · omega
  · intro j hj hj'
    have a1 := hti j; have a2 := hti' j
    have e1 : c.getD j 0 = c[j] := by simp [List.getD_eq_getElem?_getD, hj]
    have e2 : c'.getD j 0 = c'[j] := by simp [List.getD_eq_getElem?_getD, hj']
    by_cases hji : j = i
    · subst hji
      simp only [if_true] at a1 a2
      omega
    · simp only [hji, if_false] at a1 a2
      omega

/-- **every non-zero combination inside the box has a producer inside the box, of smaller weight** -/
theorem succCombs_producer_exists (t lens : List Nat) (ht : t.length = lens.length)
    (hbox : ∀ j, j < t.length → t.getD j 0 < lens.getD j 0) (i : Nat) (hi : i < t.length)
    (hfirst : ∀ j, j < i → t.getD j 0 = 0) (hnz : 0 < t.getD i 0) :
    t ∈ succCombs (t.set i (t.getD i 0 - 1)) 0 lens ∧
      (∀ j, j < t.length → (t.set i (t.getD i 0 - 1)).getD j 0 < lens.getD j 0) ∧
      (t.set i (t.getD i 0 - 1)).getD i 0 + 1 = t.getD i 0 := by
  have hget : ∀ j, (t.set i (t.getD i 0 - 1)).getD j 0 = if j = i then t.getD i 0 - 1 else t.getD j 0 := by
    intro j
    simp only [List.getD_eq_getElem?_getD, List.getElem?_set]
    by_cases h : i = j
    · subst h; simp [hi]
    · have : ¬ j = i := fun e => h e.symm
      simp [h, this]
  refine ⟨?_, fun j hj => ?_, by rw [hget i]; simp only [if_true]; omega⟩
  · rw [mem_succCombs]
    refine ⟨i, Nat.zero_le _, by omega, fun j _ hj => ?_, ?_, ?_⟩
    · rw [hget j]; have : ¬ j = i := by omega
      simp only [this, if_false]; exact hfirst j hj
    · rw [hget i]; simp only [if_true]
      have : t.getD i 0 - 1 + 1 = t.getD i 0 := by omega
      rw [this]
      apply List.ext_getElem
      · simp
      · intro j hj1 hj2
        simp only [List.getElem_set]
        by_cases hji : i = j
        · subst hji; simp [List.getD_eq_getElem?_getD, hi]
        · simp [hji]
    · rw [hget i]; simp only [if_true, Nat.sub_zero]
      have := hbox i hi; omega
  · rw [hget j]
    have := hbox j hj
    split
    · next h => subst h; omega
    · omega

/-- the combinations pushed from one combination are pairwise distinct -/
theorem succCombs_nodup (comb : List Nat) : ∀ (lens : List Nat) (i0 : Nat), i0 + lens.length ≤ comb.length →
    (succCombs comb i0 lens).Nodup := by
  intro lens
  induction lens with
  | nil => intro i0 _; simp [succCombs]
  | cons len lens ih =>
    intro i0 hl
    simp only [List.length_cons] at hl
    unfold succCombs
    have hrest : (if comb.getD i0 0 + 1 > 1 then [] else succCombs comb (i0 + 1) lens).Nodup := by
      split
      · exact List.nodup_nil
      · exact ih (i0 + 1) (by omega)
    split
    · exact hrest
    · refine List.nodup_cons.mpr ⟨fun hmem => ?_, hrest⟩
      split at hmem
      · cases hmem
      · obtain ⟨i, h1, h2, _, h4, _⟩ := (mem_succCombs comb _ lens (i0 + 1)).mp hmem
        have hne : ¬ i0 = i := by omega
        have a1 : (comb.set i0 (comb.getD i0 0 + 1)).getD i0 0 = comb.getD i0 0 + 1 := by
          rw [getD_set_succ comb i0 i0 (by omega)]; simp only [if_true]
        have a2 : (comb.set i (comb.getD i 0 + 1)).getD i0 0 = comb.getD i0 0 := by
          rw [getD_set_succ comb i i0 (by omega)]; simp only [hne, if_false]
        rw [h4] at a1
        omega

/-! ### the model's successor loop pushes exactly `succCombs` -/
variable {S : Type} [DecidableEq S]

/-- the heap elements pushed by the successor loop -/
def succEls (cost : Cost) (P : Sym) (comb : List Nat) (s : St S) : Nat → List (NT S Unit) → List HeapEl
  | _, [] => []
  | i, a :: as =>
    if comb.getD i 0 + 1 ≥ (s.clOf a).length then
      if comb.getD i 0 + 1 > 1 then [] else succEls cost P comb s (i + 1) as
    else
      ⟨cost - (s.clOf a).getD (comb.getD i 0) (Cost.ofRat 0) + (s.clOf a).getD (comb.getD i 0 + 1) (Cost.ofRat 0),
        comb.set i (comb.getD i 0 + 1), P⟩ ::
        (if comb.getD i 0 + 1 > 1 then [] else succEls cost P comb s (i + 1) as)

theorem succEls_comb (cost : Cost) (P : Sym) (comb : List Nat) (s : St S) : ∀ (as : List (NT S Unit)) (i : Nat),
    (succEls cost P comb s i as).map (·.comb) = succCombs comb i (as.map fun a => (s.clOf a).length) := by
  intro as
  induction as with
  | nil => intro i; rfl
  | cons a as ih =>
    intro i
    unfold succEls succCombs
    simp only [List.map_cons]
    split
    · split
      · rfl
      · exact ih (i + 1)
    · split
      · rfl
      · simp only [List.map_cons, ih (i + 1)]

theorem succEls_P (cost : Cost) (P : Sym) (comb : List Nat) (s : St S) : ∀ (as : List (NT S Unit)) (i : Nat),
    ∀ el ∈ succEls cost P comb s i as, el.P = P := by
  intro as
  induction as with
  | nil => intro i el h; cases h
  | cons a as ih =>
    intro i el h
    unfold succEls at h
    split at h
    · split at h
      · cases h
      · exact ih (i + 1) el h
    · rcases List.mem_cons.mp h with rfl | h'
      · rfl
      · split at h'
        · cases h'
        · exact ih (i + 1) el h'

theorem succEls_congr (cost : Cost) (P : Sym) (comb : List Nat) (s s' : St S) (h : ∀ a, s'.clOf a = s.clOf a) :
    ∀ (as : List (NT S Unit)) (i : Nat), succEls cost P comb s' i as = succEls cost P comb s i as := by
  intro as
  induction as with
  | nil => intro i; rfl
  | cons a as ih => intro i; unfold succEls; simp only [h a, ih (i + 1)]

theorem succEls_setQueue (cost : Cost) (P : Sym) (comb : List Nat) (s : St S) (nt : NT S Unit) (q : List HeapEl)
    (as : List (NT S Unit)) (i : Nat) : succEls cost P comb (s.setQueue nt q) i as = succEls cost P comb s i as :=
  succEls_congr cost P comb s (s.setQueue nt q) (fun _ => rfl) as i

/-- the queue of `nt` after the successor loop = the pushed elements + the queue before (as multisets);
    the other queues are untouched -/
theorem succLoop_perm (nt : NT S Unit) (cost : Cost) (P : Sym) (comb : List Nat) :
    ∀ (as : List (NT S Unit)) (s : St S) (i : Nat),
      ((succLoop nt cost P comb s i as).queueOf nt).Perm (succEls cost P comb s i as ++ s.queueOf nt) ∧
      ∀ nt', nt' ≠ nt → (succLoop nt cost P comb s i as).queueOf nt' = s.queueOf nt' := by
  intro as
  induction as with
  | nil => intro s i; simp [succLoop, succEls]
  | cons a as ih =>
    intro s i
    unfold succLoop succEls
    simp only
    have hpush : ∀ x : HeapEl, ((s.setQueue nt (Heapq.push ltE (s.queueOf nt) x)).queueOf nt).Perm (x :: s.queueOf nt) := by
      intro x
      rw [St.queueOf_setQueue]; simp only [if_true]
      exact Heapq.push_perm ltE _ x
    have hother : ∀ (x : HeapEl) nt', nt' ≠ nt → (s.setQueue nt (Heapq.push ltE (s.queueOf nt) x)).queueOf nt' = s.queueOf nt' := by
      intro x nt' hne
      rw [St.queueOf_setQueue]; simp [hne]
    split
    · split
      · exact ⟨by simp, fun _ _ => rfl⟩
      · exact ih s (i + 1)
    · split
      · exact ⟨by simpa using hpush _, hother _⟩
      · obtain ⟨g1, g2⟩ := ih (s.setQueue nt (Heapq.push ltE (s.queueOf nt)
            ⟨cost - (s.clOf a).getD (comb.getD i 0) (Cost.ofRat 0) + (s.clOf a).getD (comb.getD i 0 + 1) (Cost.ofRat 0),
              comb.set i (comb.getD i 0 + 1), P⟩)) (i + 1)
        rw [succEls_setQueue] at g1
        refine ⟨?_, fun nt' hne => by rw [g2 nt' hne, hother _ nt' hne]⟩
        refine g1.trans ?_
        refine ((hpush _).append_left _).trans ?_
        simp only [List.cons_append]
        exact List.perm_middle

end PS.Beap
