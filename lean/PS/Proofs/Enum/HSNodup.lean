/- Heap search without a filter (`deleted = ∅`): a program enters `heaps[S]` at most once, what is
   popped never comes back, the successor table `succ[S]` is injective and only grows — hence the
   yielded sequence has no duplicates. Any tree-traversing grammar, any priority type. -/
import PS.Proofs.Enum.HSBig
namespace PS.HS
open PS PS.G
set_option linter.unusedSectionVars false
variable {S T π : Type} [DecidableEq S] [DecidableEq T]

/-- programs currently in the heap of `nt` -/
def St.heapProgs (s : St S T π) (nt : NT S T) : List Prog := (s.heapOf nt).map (·.2)

/-- **no-duplicate invariant** -/
structure NInv (s : St S T π) : Prop where
  heap_nodup : ∀ nt, (s.heapProgs nt).Nodup
  heap_seen : ∀ nt p, p ∈ s.heapProgs nt → p ∈ s.seenOf nt
  succ_seen : ∀ nt k v, AList.lookup k (s.succOf nt) = some v → v ∈ s.seenOf nt
  /-- what was popped is not in the heap any more -/
  succ_out : ∀ nt k v, AList.lookup k (s.succOf nt) = some v → v ∉ s.heapProgs nt
  /-- a program is the successor of at most one key -/
  succ_inj : ∀ nt k k' v, AList.lookup k (s.succOf nt) = some v → AList.lookup k' (s.succOf nt) = some v → k = k'
  no_deleted : s.deleted = []

/-- the successor table only grows -/
def Stable (s s' : St S T π) : Prop :=
  ∀ nt k v, AList.lookup k (s.succOf nt) = some v → AList.lookup k (s'.succOf nt) = some v

theorem Stable.refl (s : St S T π) : Stable s s := fun _ _ _ h => h
theorem Stable.trans {s s1 s2 : St S T π} (h1 : Stable s s1) (h2 : Stable s1 s2) : Stable s s2 :=
  fun nt k v h => h2 nt k v (h1 nt k v h)

theorem NInv.pushNew {E : Env S T π} {s : St S T π} (h : NInv s) (nt : NT S T) (np : Prog)
    (hnew : np ∉ s.seenOf nt) : NInv (pushNew E s nt np) ∧ Stable s (pushNew E s nt np) := by
  have hnh : np ∉ s.heapProgs nt := fun hh => hnew (h.heap_seen nt np hh)
  have hseen : ∀ nt' p, p ∈ s.seenOf nt' → p ∈ (s.addSeen nt np).seenOf nt' := by
    intro nt' p hp
    rw [St.seenOf_addSeen]
    split
    · rename_i heq; subst heq; exact List.mem_append_left _ hp
    · exact hp
  have h1 : NInv (s.addSeen nt np) :=
    ⟨h.heap_nodup, fun nt' p hp => hseen nt' p (h.heap_seen nt' p hp),
     fun nt' k v hk => hseen nt' v (h.succ_seen nt' k v hk), h.succ_out, h.succ_inj, h.no_deleted⟩
  unfold HS.pushNew
  simp only
  split
  · exact ⟨h1, Stable.refl _⟩
  · rename_i r _
    split
    · refine ⟨⟨?_, ?_, h1.succ_seen, ?_, h1.succ_inj, h1.no_deleted⟩, Stable.refl _⟩
      · intro nt'
        unfold St.heapProgs
        rw [St.heapOf_setHeap]
        split
        · rename_i heq; subst heq
          have hp := (Heapq.push_perm (ltE E.ops) (s.heapOf nt') (r.2, np)).map (·.2)
          exact hp.nodup_iff.mpr (List.nodup_cons.mpr ⟨hnh, h.heap_nodup nt'⟩)
        · exact h.heap_nodup nt'
      · intro nt' p hp
        unfold St.heapProgs at hp
        rw [St.heapOf_setHeap] at hp
        split at hp
        · rename_i heq; subst heq
          have hpm := ((Heapq.push_perm (ltE E.ops) (s.heapOf nt') (r.2, np)).map (·.2)).subset hp
          rcases List.mem_cons.mp hpm with rfl | hm
          · show p ∈ (s.addSeen nt' p).seenOf nt'
            rw [St.seenOf_addSeen]; simp
          · exact h1.heap_seen nt' p hm
        · exact h1.heap_seen nt' p hp
      · intro nt' k v hk hv
        unfold St.heapProgs at hv
        rw [St.heapOf_setHeap] at hv
        split at hv
        · rename_i heq; subst heq
          have hpm := ((Heapq.push_perm (ltE E.ops) (s.heapOf nt') (r.2, np)).map (·.2)).subset hv
          rcases List.mem_cons.mp hpm with rfl | hm
          · exact hnew (h.succ_seen nt' k v hk)
          · exact h.succ_out nt' k v hk hm
        · exact h.succ_out nt' k v hk hv
    · exact ⟨⟨h1.heap_nodup, h1.heap_seen, h1.succ_seen, h1.succ_out, h1.succ_inj, h1.no_deleted⟩, Stable.refl _⟩

theorem NInv.pushStep {E : Env S T π} {s : St S T π} (h : NInv s) (F : Sym) (args : List Prog)
    (nt : NT S T) (i : Nat) (r : Option Prog) :
    NInv (pushStep E s F args nt i r) ∧ Stable s (pushStep E s F args nt i r) := by
  unfold HS.pushStep
  cases r with
  | none => exact ⟨h, Stable.refl _⟩
  | some q =>
    simp only
    split
    · exact ⟨h, Stable.refl _⟩
    · rename_i hc
      apply h.pushNew
      intro hmem
      apply hc
      simp [hmem]

/-- precondition: `popLoop` is entered for a key that has no successor yet -/
def NPre : Call S T → St S T π → Prop
  | .popLoop nt key, s => AList.lookup key (s.succOf nt) = none
  | _, _ => True

/-- postcondition: `query` returns the entry of the successor table -/
def NPost : Call S T → St S T π → Option Prog → Prop
  | .query nt p, s', r => ∀ q, r = some q → AList.lookup p (s'.succOf nt) = some q
  | .lop nt p, s', r => ∀ q, r = some q → AList.lookup p (s'.succOf nt) = some q
  | .popLoop nt p, s', r => ∀ q, r = some q → AList.lookup p (s'.succOf nt) = some q
  | _, _, _ => True

theorem pop_progs {lt : (π × Prog) → (π × Prog) → Bool} {h h' : List (π × Prog)} {e : π × Prog}
    (hp : Heapq.pop lt h = some (e, h')) : (h.map (·.2)).Perm (e.2 :: h'.map (·.2)) := by
  have := (Heapq.pop_perm lt h e h' hp).map (·.2)
  simpa using this

/-- the state after a pop that is recorded as the successor of `key` -/
def St.popTake (s : St S T π) (nt : NT S T) (key : Option Prog) (e : π × Prog) (h' : List (π × Prog)) : St S T π :=
  ((s.setHeap nt h').setSucc nt key e.2).setPred nt e.2 key

theorem popTake_heapProgs (s : St S T π) (nt : NT S T) (key : Option Prog) (e : π × Prog) (h' : List (π × Prog)) :
    ∀ nt', (s.popTake nt key e h').heapProgs nt' = if nt' = nt then h'.map (·.2) else s.heapProgs nt' := by
  intro nt'
  show ((s.setHeap nt h').heapOf nt').map (·.2) = _
  rw [St.heapOf_setHeap]
  split <;> rfl

theorem popTake_succOf (s : St S T π) (nt : NT S T) (key : Option Prog) (e : π × Prog) (h' : List (π × Prog)) :
    ∀ nt', (s.popTake nt key e h').succOf nt' =
      if nt' = nt then AList.insert key e.2 (s.succOf nt) else s.succOf nt' := by
  intro nt'
  show ((s.setHeap nt h').setSucc nt key e.2).succOf nt' = _
  rw [St.succOf_setSucc]; rfl

theorem NInv.popTake {lt : (π × Prog) → (π × Prog) → Bool} {s : St S T π} (hi : NInv s) (nt : NT S T)
    (key : Option Prog) (e : π × Prog) (h' : List (π × Prog))
    (h : Heapq.pop lt (s.heapOf nt) = some (e, h'))
    (hkey : AList.lookup key (s.succOf nt) = none) :
    NInv (s.popTake nt key e h') ∧ Stable s (s.popTake nt key e h') := by
  have hperm := pop_progs h
  have hnd : (e.2 :: h'.map (·.2)).Nodup := hperm.nodup_iff.mp (hi.heap_nodup nt)
  have he_in : e.2 ∈ s.heapProgs nt := hperm.symm.subset (List.mem_cons_self)
  have hsub : ∀ p, p ∈ h'.map (·.2) → p ∈ s.heapProgs nt :=
    fun p hp => hperm.symm.subset (List.mem_cons_of_mem _ hp)
  have hprogs := popTake_heapProgs s nt key e h'
  have hsucc := popTake_succOf s nt key e h'
  have hst : Stable s (s.popTake nt key e h') := by
    intro nt' k v hk
    rw [hsucc]
    split
    · rename_i heq; subst heq
      rw [AList.lookup_insert]
      split
      · rename_i hkk; subst hkk; rw [hkey] at hk; cases hk
      · exact hk
    · exact hk
  refine ⟨⟨?_, ?_, ?_, ?_, ?_, hi.no_deleted⟩, hst⟩
  · intro nt'
    rw [hprogs]
    split
    · exact (List.nodup_cons.mp hnd).2
    · exact hi.heap_nodup nt'
  · intro nt' p hp
    rw [hprogs] at hp
    show p ∈ s.seenOf nt'
    split at hp
    · rename_i heq; subst heq; exact hi.heap_seen _ p (hsub p hp)
    · exact hi.heap_seen nt' p hp
  · intro nt' k v hk
    rw [hsucc] at hk
    show v ∈ s.seenOf nt'
    split at hk
    · rename_i heq; subst heq
      rw [AList.lookup_insert] at hk
      split at hk
      · cases hk; exact hi.heap_seen _ _ he_in
      · exact hi.succ_seen _ k v hk
    · exact hi.succ_seen nt' k v hk
  · intro nt' k v hk hv
    rw [hsucc] at hk
    rw [hprogs] at hv
    split at hk
    · rename_i heq; subst heq
      simp only [if_true] at hv
      rw [AList.lookup_insert] at hk
      split at hk
      · cases hk; exact (List.nodup_cons.mp hnd).1 hv
      · exact hi.succ_out _ k v hk (hsub v hv)
    · rename_i hne
      simp only [hne, if_false] at hv
      exact hi.succ_out nt' k v hk hv
  · intro nt' k k' v hk hk'
    rw [hsucc] at hk hk'
    split at hk
    · rename_i heq; subst heq
      simp only [if_true] at hk'
      rw [AList.lookup_insert] at hk hk'
      split at hk
      · rename_i e1
        cases hk
        split at hk'
        · rename_i e2; rw [e1, e2]
        · exact absurd he_in (hi.succ_out _ k' _ hk')
      · split at hk'
        · cases hk'
          exact absurd he_in (hi.succ_out _ k _ hk)
        · exact hi.succ_inj _ k k' v hk hk'
    · rename_i hne
      simp only [hne, if_false] at hk'
      exact hi.succ_inj nt' k k' v hk hk'

theorem big_nodup (E : Env S T π) {c : Call S T} {s s' : St S T π} {r : Option Prog}
    (hb : Big E c s s' r) : NInv s → NPre c s → NInv s' ∧ Stable s s' ∧ NPost c s' r := by
  induction hb with
  | query_direct h hb ih => intro hi _; exact ih hi trivial
  | query_first hp h h0 hb ih0 ih =>
    intro hi _
    obtain ⟨a1, a2, _⟩ := ih0 hi trivial
    obtain ⟨b1, b2, b3⟩ := ih a1 trivial
    exact ⟨b1, a2.trans b2, b3⟩
  | lop_hit h =>
    intro hi _
    exact ⟨hi, Stable.refl _, by intro q hq; cases hq; exact h⟩
  | lop_miss h hb ih => intro hi _; exact ih hi h
  | pop_empty h => intro hi _; exact ⟨hi, Stable.refl _, by intro q hq; cases hq⟩
  | pop_deleted h hd ha hb iha ihb =>
    intro hi _
    rw [hi.no_deleted] at hd
    simp at hd
  | @pop_take s s' nt key e h' x h hd ha iha =>
    intro hi hpre
    obtain ⟨h1, hst⟩ := hi.popTake nt key e h' h hpre
    obtain ⟨a1, a2, _⟩ := iha h1 trivial
    refine ⟨a1, hst.trans a2, ?_⟩
    intro q hq
    cases hq
    apply a2
    show AList.lookup key ((s.popTake nt key e h').succOf nt) = some e.2
    rw [popTake_succOf]
    simp only [if_true]
    exact AList.lookup_insert_self _ _ _
  | succ_leaf => intro hi _; exact ⟨hi, Stable.refl _, trivial⟩
  | succ_fun hd hr hb ih =>
    intro hi _
    obtain ⟨a1, a2, _⟩ := ih hi trivial
    exact ⟨a1, a2, trivial⟩
  | loop_done h => intro hi _; exact ⟨hi, Stable.refl _, trivial⟩
  | @loop_step s s1 s' F args nt i argsLen info s2 ai r r' x h hai hq hc hda hb ihq ihb =>
    intro hi _
    obtain ⟨a1, a2, _⟩ := ihq hi trivial
    obtain ⟨b1, b2⟩ := a1.pushStep (E := E) F args nt i r
    obtain ⟨c1, c2, _⟩ := ihb b1 trivial
    exact ⟨c1, (a2.trans b2).trans c2, trivial⟩
  | @loop_last s s1 F args nt i argsLen info s2 ai r h hai hq hc ihq =>
    intro hi _
    obtain ⟨a1, a2, _⟩ := ihq hi trivial
    obtain ⟨b1, b2⟩ := a1.pushStep (E := E) F args nt i r
    exact ⟨b1, a2.trans b2, trivial⟩

end PS.HS
