/- Global no-duplicates, part 2: the invariant of the banks.
   `BInv`: the banks `_bank_nt[S][ci]` of one non-terminal are duplicate-free and pairwise disjoint across cost
   indices.  To keep it through `query` one needs the PROVENANCE of the stored programs: every program `P(kids)` of a
   bank of `S` was built from a list of pools `ps` stored in `_bank_derivation[args][c]` (`kids[i] ∈ pool i`), where
   `c` is a derivation index the rule `P` of `S` has already consumed: `c <` the index of the pending `Derivation` of
   `P` in the heap of `S` (`HeapC`), `c <` the index of a popped element whose `query_derivation` is running
   (`LimboC`, suspended frames), and for the frame that is iterating over products, `c ≤` its index with the pools of
   index `c` restricted to those already started (`FrOK`).  Since the pools of a tuple of programs are unique (banks
   disjoint) and no list of pools is stored twice (CDGPoss.lean), a program about to be appended is new. -/
import PS.Proofs.Enum.CDGPoss
import PS.Proofs.Enum.CDNodup
namespace PS.CD
variable {α : Type}

/-- `p ∈ _bank_nt[S][ci]` -/
def InBankAt (s : St α) (S : NT) (ci : Nat) (p : Prog) : Prop :=
  ∃ b l, AList.lookup S s.bankNt = some b ∧ AList.lookup ci b = some l ∧ p ∈ l

def InBank (s : St α) (S : NT) (p : Prog) : Prop := ∃ ci, InBankAt s S ci p

/-- the banks of every non-terminal: no program twice in one list, no program under two cost indices -/
def BInv (s : St α) : Prop :=
  (∀ S b ci l, AList.lookup S s.bankNt = some b → AList.lookup ci b = some l → l.Nodup) ∧
  (∀ S ci cj p, InBankAt s S ci p → InBankAt s S cj p → ci = cj)

theorem mem_resolve_iff (s : St α) (S : NT) (ci : Nat) (k : Prog) : k ∈ s.resolve (some (S, ci)) ↔ InBankAt s S ci k := by
  unfold InBankAt
  simp only [St.resolve]
  cases hb : AList.lookup S s.bankNt with
  | none => simp
  | some b =>
    cases hl : AList.lookup ci b with
    | none => simp [hl]
    | some l => simp [hl]

theorem mem_resolve {s : St α} {r : Ref} {k : Prog} (h : k ∈ s.resolve r) : ∃ S ci, r = some (S, ci) ∧ InBankAt s S ci k := by
  cases r with
  | none => simp [St.resolve] at h
  | some x =>
    obtain ⟨S, ci⟩ := x
    exact ⟨S, ci, rfl, (mem_resolve_iff s S ci k).mp h⟩

theorem resolve_nodup {s : St α} (h : BInv s) (r : Ref) : (s.resolve r).Nodup := by
  cases r with
  | none => simp [St.resolve]
  | some x =>
    obtain ⟨S, ci⟩ := x
    simp only [St.resolve]
    cases hb : AList.lookup S s.bankNt with
    | none => simp
    | some b =>
      cases hl : AList.lookup ci b with
      | none => simp [hl]
      | some l => simpa [hl] using h.1 S b ci l hb hl

/-- `kids[i] ∈ pool i` now -/
def KidsNow (s : St α) (ps : List Ref) (kids : List Prog) : Prop := All2 (fun r k => k ∈ s.resolve r) ps kids

/-- `kids[i] ∈ pool i`, or `kids[i]` has been deleted since (`merge_program` removes programs from the banks and puts
    them in `_deleted`) -/
def KidsIn (s : St α) (ps : List Ref) (kids : List Prog) : Prop :=
  All2 (fun r k => k ∈ s.resolve r ∨ k ∈ s.deleted) ps kids

theorem All2.imp {β γ : Type} {R R' : β → γ → Prop} (hi : ∀ x y, R x y → R' x y) {l1 : List β} {l2 : List γ}
    (h : All2 R l1 l2) : All2 R' l1 l2 := by
  induction h with
  | nil => exact .nil
  | cons h1 _ ih => exact .cons (hi _ _ h1) ih

theorem KidsNow.weak {s : St α} {ps : List Ref} {kids : List Prog} (h : KidsNow s ps kids) : KidsIn s ps kids :=
  All2.imp (fun _ _ hk => Or.inl hk) h

/-- growth of the banks -/
def BMono (s s' : St α) : Prop := ∀ S c q, InBankAt s S c q → InBankAt s' S c q

/-- growth of `_deleted` -/
def DSub (s s' : St α) : Prop := ∀ p ∈ s.deleted, p ∈ s'.deleted

theorem DSub.refl (s : St α) : DSub s s := fun _ h => h
theorem DSub.trans {s1 s2 s3 : St α} (h1 : DSub s1 s2) (h2 : DSub s2 s3) : DSub s1 s3 := fun p h => h2 p (h1 p h)
theorem DSub.of_eq {s s' : St α} (h : s'.deleted = s.deleted) : DSub s s' := by intro p hp; rw [h]; exact hp

theorem BMono.refl (s : St α) : BMono s s := fun _ _ _ h => h
theorem BMono.trans {s1 s2 s3 : St α} (h1 : BMono s1 s2) (h2 : BMono s2 s3) : BMono s1 s3 :=
  fun S c q h => h2 S c q (h1 S c q h)
theorem BMono.of_eq {s s' : St α} (h : s'.bankNt = s.bankNt) : BMono s s' := by
  intro S c q hq; unfold InBankAt at *; rw [h]; exact hq
theorem BMono.inBank {s s' : St α} (h : BMono s s') {S : NT} {q : Prog} (hq : InBank s S q) : InBank s' S q := by
  obtain ⟨c, hc⟩ := hq; exact ⟨c, h S c q hc⟩

theorem BMono.resolve {s s' : St α} (h : BMono s s') (r : Ref) (k : Prog) (hk : k ∈ s.resolve r) : k ∈ s'.resolve r := by
  obtain ⟨S, ci, rfl, hi⟩ := mem_resolve hk
  exact (mem_resolve_iff s' S ci k).mpr (h S ci k hi)

theorem KidsIn.mono {s s' : St α} (h : BMono s s') (hd : DSub s s') {ps : List Ref} {kids : List Prog} (hk : KidsIn s ps kids) :
    KidsIn s' ps kids :=
  All2.imp (fun r k hrk => hrk.elim (fun a => Or.inl (h.resolve r k a)) (fun a => Or.inr (hd k a))) hk

theorem cartesian_kidsIn (s : St α) : ∀ (ps : List Ref) (tup : List Prog), tup ∈ cartesian (ps.map s.resolve) → KidsNow s ps tup
  | [], tup, h => by
    simp only [List.map_nil, cartesian, List.mem_singleton] at h; subst h; exact .nil
  | r :: ps, tup, h => by
    simp only [List.map_cons, cartesian, List.mem_flatMap, List.mem_map] at h
    obtain ⟨x, hx, rest, hr, rfl⟩ := h
    exact .cons hx (cartesian_kidsIn s ps rest hr)

theorem okRef_refsOf : ∀ (args : List NT) (comb : List Nat), comb.length = args.length → All2 okRef (refsOf args comb) args
  | [], comb, h => by
    simp only [List.length_nil, List.length_eq_zero_iff] at h; subst h; exact .nil
  | _ :: _, [], h => by simp at h
  | a :: as, c :: cs, h => by
    refine .cons ?_ (okRef_refsOf as cs (by simpa using h))
    intro S ci he
    simp only [Option.some.injEq, Prod.mk.injEq] at he
    exact he.1.symm

theorem tinv2_okRef {s : St α} {Λ : List NT → List (List Nat)} (h : TInv2 s Λ) {args : List NT} {c : Nat} {ps : List Ref}
    (hp : PossAt s.bankDer args c ps) : All2 okRef ps args := by
  obtain ⟨_, _, D, _, _, _, h3⟩ := h args
  obtain ⟨comb, _, hl, he⟩ := h3 c ps hp
  rw [he]; exact okRef_refsOf args comb hl

/-- deleted programs are in no bank -/
def DelOut (s : St α) : Prop := ∀ p ∈ s.deleted, ∀ S c, ¬ InBankAt s S c p

/-- **the pools of a tuple of programs are unique** when the banks are disjoint: a tuple that is in the pools `ps` now
    was not built from other pools `ps'` before -/
theorem refs_unique {s : St α} (hB : BInv s) (hDel : DelOut s) : ∀ (args : List NT) (ps ps' : List Ref) (kids : List Prog),
    All2 okRef ps args → All2 okRef ps' args → KidsIn s ps kids → KidsNow s ps' kids → ps = ps'
  | [], ps, ps', kids, h1, h2, _, _ => by cases h1; cases h2; rfl
  | a :: as, ps, ps', kids, h1, h2, h3, h4 => by
    unfold KidsIn at h3
    unfold KidsNow at h4
    cases h1 with
    | cons hr h1 =>
      cases h2 with
      | cons hr' h2 =>
        cases h3 with
        | cons hk h3 =>
          cases h4 with
          | cons hk' h4 =>
            obtain ⟨S2, c2, e2, i2⟩ := mem_resolve hk'
            have hk1 : _ ∈ s.resolve _ := hk.elim (fun a => a) (fun a => absurd i2 (hDel _ a S2 c2))
            obtain ⟨S1, c1, e1, i1⟩ := mem_resolve hk1
            have a1 := hr S1 c1 e1
            have a2 := hr' S2 c2 e2
            subst a1; subst a2
            have := hB.2 _ c1 c2 _ i1 i2
            subst this
            rw [e1, e2, refs_unique hB hDel as _ _ _ h1 h2 h3 h4]

/-- all programs `P(…)` in the banks of `S` were built from pools stored under a derivation index `< c0`, or
    under `c0` itself and in `extra` -/
def Consumed (E : Env α) (s : St α) (S : NT) (P : Sym) (c0 : Nat) (extra : List (List Ref)) : Prop :=
  ∀ args w kids, E.G.rule? S P = some (args, w) → InBank s S (.node P kids) →
    args ≠ [] ∧ ∃ c ps, PossAt s.bankDer args c ps ∧ KidsIn s ps kids ∧ (c < c0 ∨ (c = c0 ∧ ps ∈ extra))

theorem Consumed.mono {E : Env α} {s s' : St α} {S : NT} {P : Sym} {c0 c0' : Nat} {extra extra' : List (List Ref)}
    (h : Consumed E s S P c0 extra)
    (hb : ∀ kids, InBank s' S (.node P kids) → InBank s S (.node P kids))
    (hp : ∀ args c ps, PossAt s.bankDer args c ps → PossAt s'.bankDer args c ps)
    (hr : BMono s s') (hd : DSub s s')
    (hce : c0 < c0' ∨ (c0 = c0' ∧ ∀ ps ∈ extra, ps ∈ extra')) : Consumed E s' S P c0' extra' := by
  intro args w kids hrule hin
  obtain ⟨hne, c, ps, h1, h2, h3⟩ := h args w kids hrule (hb kids hin)
  refine ⟨hne, c, ps, hp args c ps h1, h2.mono hr hd, ?_⟩
  rcases h3 with h3 | h3
  · rcases hce with h4 | h4
    · exact Or.inl (Nat.lt_trans h3 h4)
    · exact Or.inl (h4.1 ▸ h3)
  · rcases hce with h4 | h4
    · exact Or.inl (h3.1 ▸ h4)
    · exact Or.inr ⟨h3.1.trans h4.1, h4.2 ps h3.2⟩

/-- every pending `Derivation` of a heap is ahead of the programs built for its rule -/
def HeapC (E : Env α) (s : St α) : Prop :=
  ∀ S h d, AList.lookup S s.queueNt = some h → d ∈ h → Consumed E s S d.P d.comb []

/-- so is every popped element of a suspended frame (`L S`: symbol and derivation index) -/
def LimboC (E : Env α) (s : St α) (L : NT → List (Sym × Nat)) : Prop :=
  ∀ S P c0, (P, c0) ∈ L S → Consumed E s S P c0 []

/-- every program in a bank was accepted by the filter -/
def AccB (E : Env α) (s : St α) : Prop := ∀ S c q, InBankAt s S c q → E.filter q = true

structure NInv (E : Env α) (s : St α) (L : NT → List (Sym × Nat)) : Prop where
  binv : BInv s
  heapc : HeapC E s
  limboc : LimboC E s L
  accb : AccB E s
  delout : DelOut s

def symL (L : NT → List (Sym × Nat)) : NT → List Sym := fun S => (L S).map (·.1)
def addL (L : NT → List (Sym × Nat)) (S : NT) (x : Sym × Nat) : NT → List (Sym × Nat) :=
  fun S' => if S' = S then x :: L S' else L S'
def noL : NT → List (Sym × Nat) := fun _ => []

theorem symL_addL (L : NT → List (Sym × Nat)) (S : NT) (P : Sym) (c : Nat) :
    symL (addL L S (P, c)) = addLimbo (symL L) S P := by
  funext S'; unfold symL addL addLimbo; split <;> simp

theorem symL_noL : symL noL = noLimbo := rfl

/-- transfer of the invariant to a state with the same heaps, banks that hold the same programs, the same `_deleted` and
    more stored pools -/
theorem ninv_transfer {E : Env α} {s s' : St α} {L : NT → List (Sym × Nat)} (h : NInv E s L)
    (hq : s'.queueNt = s.queueNt) (hB : BInv s') (hb : BMono s' s) (hr : BMono s s')
    (hp : ∀ args c ps, PossAt s.bankDer args c ps → PossAt s'.bankDer args c ps) (hdel : s'.deleted = s.deleted) :
    NInv E s' L := by
  refine ⟨hB, ?_, ?_, ?_, ?_⟩
  · intro S hh d hl hd
    rw [hq] at hl
    exact (h.heapc S hh d hl hd).mono (fun kids hk => hb.inBank hk) hp hr (DSub.of_eq hdel) (Or.inr ⟨rfl, fun _ h => h⟩)
  · intro S P c0 hm
    exact (h.limboc S P c0 hm).mono (fun kids hk => hb.inBank hk) hp hr (DSub.of_eq hdel) (Or.inr ⟨rfl, fun _ h => h⟩)
  · intro S c q hq'; exact h.accb S c q (hb S c q hq')
  · intro p hp' S c hin; rw [hdel] at hp'; exact h.delout p hp' S c (hb S c p hin)

theorem binv_of_eq {s s' : St α} (h1 : s'.bankNt = s.bankNt) (h : BInv s) : BInv s' := by
  unfold BInv InBankAt at *; rw [h1]; exact h

theorem ninv_of_eq {E : Env α} {s s' : St α} {L : NT → List (Sym × Nat)} (h1 : s'.bankNt = s.bankNt)
    (h2 : s'.bankDer = s.bankDer) (h3 : s'.queueNt = s.queueNt) (h4 : s'.deleted = s.deleted) (h : NInv E s L) : NInv E s' L :=
  ninv_transfer h h3 (binv_of_eq h1 h.binv) (BMono.of_eq h1.symm) (BMono.of_eq h1) (fun _ _ _ hp => by rw [h2]; exact hp) h4

/-- weakening the limbo set -/
theorem ninv_limbo {E : Env α} {s : St α} {L L' : NT → List (Sym × Nat)} (h : NInv E s L')
    (hsub : ∀ S x, x ∈ L S → x ∈ L' S) : NInv E s L :=
  ⟨h.binv, h.heapc, fun S P c0 hm => h.limboc S P c0 (hsub S _ hm), h.accb, h.delout⟩

theorem mem_addL {L : NT → List (Sym × Nat)} {S : NT} {x : Sym × Nat} (S' : NT) (y : Sym × Nat) (h : y ∈ L S') :
    y ∈ addL L S x S' := by
  unfold addL; split
  · exact List.mem_cons_of_mem _ h
  · exact h

/-! ### the operations on the banks -/

theorem appendBank_spec {s s' : St α} {S : NT} {ci : Nat} {p : Prog} (he : s.appendBank S ci p = some s') :
    ∃ b l, AList.lookup S s.bankNt = some b ∧ AList.lookup ci b = some l ∧
      s' = { s with bankNt := AList.insert S (AList.insert ci (l ++ [p]) b) s.bankNt } := by
  unfold St.appendBank at he
  split at he
  · simp at he
  · rename_i b hb
    split at he
    · simp at he
    · rename_i l hl
      simp only [Option.some.injEq] at he
      exact ⟨b, l, hb, hl, he.symm⟩

/-- what the banks hold after `bank[ci].append(p)` -/
theorem inBankAt_append {s : St α} {S : NT} {ci : Nat} {b : AList Nat (List Prog)} {l : List Prog} {p : Prog}
    (hb : AList.lookup S s.bankNt = some b) (hl : AList.lookup ci b = some l) (S' : NT) (c' : Nat) (q : Prog) :
    InBankAt { s with bankNt := AList.insert S (AList.insert ci (l ++ [p]) b) s.bankNt } S' c' q ↔
      InBankAt s S' c' q ∨ (S' = S ∧ c' = ci ∧ q = p) := by
  unfold InBankAt
  simp only
  by_cases hS : S' = S
  · subst hS
    rw [AList.lookup_insert_self]
    by_cases hc : c' = ci
    · subst hc
      constructor
      · rintro ⟨b2, l2, h1, h2, h3⟩
        simp only [Option.some.injEq] at h1; subst h1
        rw [AList.lookup_insert_self] at h2
        simp only [Option.some.injEq] at h2; subst h2
        rcases List.mem_append.mp h3 with h4 | h4
        · exact Or.inl ⟨b, l, hb, hl, h4⟩
        · exact Or.inr ⟨rfl, rfl, by simpa using h4⟩
      · rintro (⟨b2, l2, h1, h2, h3⟩ | ⟨_, _, h3⟩)
        · rw [hb] at h1; simp only [Option.some.injEq] at h1; subst h1
          rw [hl] at h2; simp only [Option.some.injEq] at h2; subst h2
          exact ⟨_, _, rfl, AList.lookup_insert_self _ _ _, List.mem_append_left _ h3⟩
        · exact ⟨_, _, rfl, AList.lookup_insert_self _ _ _, List.mem_append_right _ (by simp [h3])⟩
    · constructor
      · rintro ⟨b2, l2, h1, h2, h3⟩
        simp only [Option.some.injEq] at h1; subst h1
        rw [AList.lookup_insert_ne _ _ hc] at h2
        exact Or.inl ⟨b, l2, hb, h2, h3⟩
      · rintro (⟨b2, l2, h1, h2, h3⟩ | ⟨_, h2, _⟩)
        · rw [hb] at h1; simp only [Option.some.injEq] at h1; subst h1
          exact ⟨_, l2, rfl, by rw [AList.lookup_insert_ne _ _ hc]; exact h2, h3⟩
        · exact absurd h2 hc
  · rw [AList.lookup_insert_ne _ _ hS]
    constructor
    · intro h; exact Or.inl h
    · rintro (h | ⟨h1, _, _⟩)
      · exact h
      · exact absurd h1 hS

theorem bmono_append {s : St α} {S : NT} {ci : Nat} {b : AList Nat (List Prog)} {l : List Prog} {p : Prog}
    (hb : AList.lookup S s.bankNt = some b) (hl : AList.lookup ci b = some l) :
    BMono s { s with bankNt := AList.insert S (AList.insert ci (l ++ [p]) b) s.bankNt } :=
  fun S' c' q h => (inBankAt_append hb hl S' c' q).mpr (Or.inl h)

theorem binv_append {s : St α} {S : NT} {ci : Nat} {b : AList Nat (List Prog)} {l : List Prog} {p : Prog}
    (hb : AList.lookup S s.bankNt = some b) (hl : AList.lookup ci b = some l) (h : BInv s) (hnew : ¬ InBank s S p) :
    BInv { s with bankNt := AList.insert S (AList.insert ci (l ++ [p]) b) s.bankNt } := by
  refine ⟨?_, ?_⟩
  · intro S' b' c' l' hb' hl'
    simp only at hb'
    rw [AList.lookup_insert] at hb'
    split at hb'
    · rename_i he
      simp only [Option.some.injEq] at hb'; subst hb'; subst he
      rw [AList.lookup_insert] at hl'
      split at hl'
      · simp only [Option.some.injEq] at hl'; subst hl'
        rw [List.nodup_append]
        refine ⟨h.1 S' b ci l hb hl, by simp, ?_⟩
        intro x hx y hy hxy
        simp only [List.mem_singleton] at hy
        subst hy; subst hxy
        exact hnew ⟨ci, b, l, hb, hl, hx⟩
      · exact h.1 S' b c' l' hb hl'
    · exact h.1 S' b' c' l' hb' hl'
  · intro S' c1 c2 q h1 h2
    rcases (inBankAt_append hb hl S' c1 q).mp h1 with a | a <;> rcases (inBankAt_append hb hl S' c2 q).mp h2 with a' | a'
    · exact h.2 S' c1 c2 q a a'
    · obtain ⟨e1, _, e3⟩ := a'
      subst e1; subst e3
      exact absurd ⟨c1, a⟩ hnew
    · obtain ⟨e1, _, e3⟩ := a
      subst e1; subst e3
      exact absurd ⟨c2, a'⟩ hnew
    · rw [a.2.1, a'.2.1]

theorem ensureBank_deleted {s s' : St α} {S : NT} {ci : Nat} (he : s.ensureBank S ci = some s') : s'.deleted = s.deleted := by
  unfold St.ensureBank at he
  split at he
  · simp at he
  · split at he
    · simp only [Option.some.injEq] at he; subst he; rfl
    · simp only [Option.some.injEq] at he; subst he; rfl

theorem exitQuery_deleted {s s' : St α} {fr : Frame α} (he : exitQuery s fr = some s') : s'.deleted = s.deleted := by
  unfold exitQuery at he
  simp only at he
  split at he
  · simp at he
  · rename_i s1 hs1
    have h1 : s1.deleted = s.deleted := by
      split at hs1
      · split at hs1
        · simp at hs1
        · simp only [Option.some.injEq] at hs1; subst hs1; rfl
      · simp only [Option.some.injEq] at hs1; subst hs1; rfl
    split at he
    · simp only [Option.some.injEq] at he; subst he; exact h1
    · simp only [Option.some.injEq] at he; subst he; exact h1
    · simp at he

theorem succLoop_deleted (A : Arith α) (bb : Bool) (args : List NT) (c : α) (comb : List Nat) :
    ∀ (rem i : Nat) (s s' : St α), succLoop A bb args c comb rem i s = some s' → s'.deleted = s.deleted := by
  intro rem
  induction rem with
  | zero => intro i s s' h; simp only [succLoop, Option.some.injEq] at h; subst h; rfl
  | succ rem ih =>
    intro i s s' h
    simp only [succLoop] at h
    split at h
    · split at h
      · simp at h
      · split at h
        · split at h
          · simp only [Option.some.injEq] at h; subst h; rfl
          · exact ih _ _ _ h
        · split at h
          · split at h
            · simp at h
            · split at h
              · simp only [Option.some.injEq] at h; subst h; rfl
              · have := ih _ _ _ h
                exact this
          · simp at h
    · simp at h

theorem ensureBank_spec {s s' : St α} {S : NT} {ci : Nat} (he : s.ensureBank S ci = some s') :
    s'.queueNt = s.queueNt ∧ s'.bankDer = s.bankDer ∧ BMono s s' ∧ BMono s' s ∧ (BInv s → BInv s') := by
  unfold St.ensureBank at he
  split at he
  · simp at he
  · rename_i b hb
    split at he
    · simp only [Option.some.injEq] at he; subst he
      exact ⟨rfl, rfl, BMono.refl _, BMono.refl _, fun h => h⟩
    · rename_i hnone
      have hn : AList.lookup ci b = none := by
        cases h : AList.lookup ci b with
        | none => rfl
        | some _ => simp [h] at hnone
      simp only [Option.some.injEq] at he; subst he
      have key : ∀ S' c' q, InBankAt { s with bankNt := AList.insert S (AList.insert ci [] b) s.bankNt } S' c' q ↔
          InBankAt s S' c' q := by
        intro S' c' q
        unfold InBankAt
        simp only
        by_cases hS : S' = S
        · subst hS
          rw [AList.lookup_insert_self]
          constructor
          · rintro ⟨b2, l2, h1, h2, h3⟩
            simp only [Option.some.injEq] at h1; subst h1
            rw [AList.lookup_insert] at h2
            split at h2
            · simp only [Option.some.injEq] at h2; subst h2; simp at h3
            · exact ⟨b, l2, hb, h2, h3⟩
          · rintro ⟨b2, l2, h1, h2, h3⟩
            rw [hb] at h1; simp only [Option.some.injEq] at h1; subst h1
            refine ⟨_, l2, rfl, ?_, h3⟩
            rw [AList.lookup_insert]
            split
            · rename_i hc; subst hc; rw [hn] at h2; simp at h2
            · exact h2
        · rw [AList.lookup_insert_ne _ _ hS]
      refine ⟨rfl, rfl, fun S' c' q h => (key S' c' q).mpr h, fun S' c' q h => (key S' c' q).mp h, ?_⟩
      intro hB
      refine ⟨?_, ?_⟩
      · intro S' b' c' l' hb' hl'
        simp only at hb'
        rw [AList.lookup_insert] at hb'
        split at hb'
        · rename_i hS
          simp only [Option.some.injEq] at hb'; subst hb'; subst hS
          rw [AList.lookup_insert] at hl'
          split at hl'
          · simp only [Option.some.injEq] at hl'; subst hl'; simp
          · exact hB.1 S' b c' l' hb hl'
        · exact hB.1 S' b' c' l' hb' hl'
      · intro S' c1 c2 q h1 h2
        exact hB.2 S' c1 c2 q ((key S' c1 q).mp h1) ((key S' c2 q).mp h2)

theorem addDeleted_fields (s : St α) (p : Prog) :
    (s.addDeleted p).bankNt = s.bankNt ∧ (s.addDeleted p).bankDer = s.bankDer ∧ (s.addDeleted p).queueNt = s.queueNt := by
  unfold St.addDeleted; split <;> exact ⟨rfl, rfl, rfl⟩

theorem exitQuery_fields {s s' : St α} {fr : Frame α} (he : exitQuery s fr = some s') :
    s'.bankNt = s.bankNt ∧ s'.bankDer = s.bankDer ∧ s'.queueNt = s.queueNt := by
  unfold exitQuery at he
  simp only at he
  split at he
  · simp at he
  · rename_i s1 hs1
    have h1 : s1.bankNt = s.bankNt ∧ s1.bankDer = s.bankDer ∧ s1.queueNt = s.queueNt := by
      split at hs1
      · split at hs1
        · simp at hs1
        · simp only [Option.some.injEq] at hs1; subst hs1; exact ⟨rfl, rfl, rfl⟩
      · simp only [Option.some.injEq] at hs1; subst hs1; exact ⟨rfl, rfl, rfl⟩
    split at he
    · simp only [Option.some.injEq] at he; subst he; exact h1
    · simp only [Option.some.injEq] at he; subst he; exact h1
    · simp at he

theorem succLoop_fields (A : Arith α) (bb : Bool) (args : List NT) (c : α) (comb : List Nat) :
    ∀ (rem i : Nat) (s s' : St α), succLoop A bb args c comb rem i s = some s' →
      s'.bankNt = s.bankNt ∧ s'.bankDer = s.bankDer ∧ s'.queueNt = s.queueNt := by
  intro rem
  induction rem with
  | zero => intro i s s' h; simp only [succLoop, Option.some.injEq] at h; subst h; exact ⟨rfl, rfl, rfl⟩
  | succ rem ih =>
    intro i s s' h
    simp only [succLoop] at h
    split at h
    · split at h
      · simp at h
      · split at h
        · split at h
          · simp only [Option.some.injEq] at h; subst h; exact ⟨rfl, rfl, rfl⟩
          · exact ih _ _ _ h
        · split at h
          · split at h
            · simp at h
            · split at h
              · simp only [Option.some.injEq] at h; subst h; exact ⟨rfl, rfl, rfl⟩
              · obtain ⟨x1, x2, x3⟩ := ih _ _ _ h
                exact ⟨x1, x2, x3⟩
          · simp at h
    · simp at h

/-! ### the frame that iterates over the products -/

/-- the invariant of a frame inside `for possibles in args_possibles: for new_args in product(*possibles)`:
    `c0` the derivation index of its popped element, `done` the lists of pools of `_bank_derivation[args][c0]`
    already started, `possRem` those to come, `tups` the rest of the current product -/
def FrOK (E : Env α) (s : St α) (L : NT → List (Sym × Nat)) (fr : Frame α) : Prop :=
  match fr.cur with
  | none => True
  | some (P, possRem, tups) =>
    ∃ args w c0 done, E.G.rule? fr.S P = some (args, w) ∧ args ≠ [] ∧
      (possRem = [] ∨ ∃ b, AList.lookup args s.bankDer = some b ∧ AList.lookup c0 b = some (done ++ possRem)) ∧
      Consumed E s fr.S P c0 done ∧
      (∀ h d, AList.lookup fr.S s.queueNt = some h → d ∈ h → d.P = P → c0 < d.comb) ∧
      (∀ c1, (P, c1) ∉ L fr.S) ∧
      tups.Nodup ∧ (∀ tup ∈ tups, ¬ InBank s fr.S (.node P tup)) ∧
      (∀ tup ∈ tups, ∃ ps ∈ done, PossAt s.bankDer args c0 ps ∧ KidsIn s ps tup)

theorem frok_none {E : Env α} {s : St α} {L : NT → List (Sym × Nat)} {fr : Frame α} (h : fr.cur = none) : FrOK E s L fr := by
  unfold FrOK; rw [h]; trivial

theorem frok_of_eq {E : Env α} {s s' : St α} {L : NT → List (Sym × Nat)} {fr : Frame α} (h1 : s'.bankNt = s.bankNt)
    (h2 : s'.bankDer = s.bankDer) (h3 : s'.queueNt = s.queueNt) (h4 : DSub s s') (h : FrOK E s L fr) : FrOK E s' L fr := by
  unfold FrOK at *
  split
  · trivial
  · rename_i P possRem tups hcur
    rw [hcur] at h
    simp only at h
    obtain ⟨args, w, c0, done, a1, a2, a3, a4, a5, a6, a7, a8, a9⟩ := h
    have m1 : BMono s s' := BMono.of_eq h1
    have m2 : BMono s' s := BMono.of_eq h1.symm
    refine ⟨args, w, c0, done, a1, a2, ?_, ?_, ?_, a6, a7, ?_, ?_⟩
    · rw [h2]; exact a3
    · exact a4.mono (fun kids hk => m2.inBank hk) (fun _ _ _ hp => by rw [h2]; exact hp) m1 h4 (Or.inr ⟨rfl, fun _ h => h⟩)
    · rw [h3]; exact a5
    · intro tup ht hin; exact a8 tup ht (m2.inBank hin)
    · intro tup ht
      obtain ⟨ps, hps, hp, hk⟩ := a9 tup ht
      exact ⟨ps, hps, by rw [h2]; exact hp, hk.mono m1 h4⟩

/-- the invariant after `bank[ci].append(p)`: `p` is new, accepted, not deleted, and the pending elements / limbo
    entries of its rule are ahead of it (vacuous for a rule without arguments) -/
theorem ninv_append {E : Env α} {s : St α} {L : NT → List (Sym × Nat)} {S : NT} {ci : Nat} {b : AList Nat (List Prog)}
    {l : List Prog} {P : Sym} {kids : List Prog} (hN : NInv E s L) (hb : AList.lookup S s.bankNt = some b)
    (hl : AList.lookup ci b = some l) (hnew : ¬ InBank s S (.node P kids))
    (hH : ∀ h d, AList.lookup S s.queueNt = some h → d ∈ h → d.P = P → ∀ args w, E.G.rule? S P = some (args, w) →
      args ≠ [] ∧ ∃ c ps, PossAt s.bankDer args c ps ∧ KidsIn s ps kids ∧ c < d.comb)
    (hLm : ∀ c1, (P, c1) ∉ L S) (hacc : E.filter (.node P kids) = true) (hnd : (Tree.node P kids : Prog) ∉ s.deleted) :
    NInv E { s with bankNt := AList.insert S (AList.insert ci (l ++ [.node P kids]) b) s.bankNt } L := by
  have hm := bmono_append (p := .node P kids) hb hl
  have hds : DSub s { s with bankNt := AList.insert S (AList.insert ci (l ++ [.node P kids]) b) s.bankNt } := DSub.of_eq rfl
  refine ⟨binv_append hb hl hN.binv hnew, ?_, ?_, ?_, ?_⟩
  · intro S' hh d hlk hd args w kids' hrule hin
    obtain ⟨c', hin⟩ := hin
    rcases (inBankAt_append hb hl S' c' _).mp hin with a | a
    · obtain ⟨hne, c, ps, h1, h2, h3⟩ := hN.heapc S' hh d hlk hd args w kids' hrule ⟨c', a⟩
      exact ⟨hne, c, ps, h1, h2.mono hm hds, h3⟩
    · obtain ⟨e1, _, e3⟩ := a
      subst e1
      simp only [Tree.node.injEq] at e3
      obtain ⟨e3, e4⟩ := e3
      subst e4
      obtain ⟨hne, c, ps, h1, h2, h3⟩ := hH hh d hlk hd e3 args w (e3 ▸ hrule)
      exact ⟨hne, c, ps, h1, h2.mono hm hds, Or.inl h3⟩
  · intro S' P' c0 hmem args w kids' hrule hin
    obtain ⟨c', hin⟩ := hin
    rcases (inBankAt_append hb hl S' c' _).mp hin with a | a
    · obtain ⟨hne, c, ps, h1, h2, h3⟩ := hN.limboc S' P' c0 hmem args w kids' hrule ⟨c', a⟩
      exact ⟨hne, c, ps, h1, h2.mono hm hds, h3⟩
    · obtain ⟨e1, _, e3⟩ := a
      subst e1
      simp only [Tree.node.injEq] at e3
      exact absurd (e3.1 ▸ hmem) (hLm c0)
  · intro S' c' q hin
    rcases (inBankAt_append hb hl S' c' q).mp hin with a | a
    · exact hN.accb S' c' q a
    · rw [a.2.2]; exact hacc
  · intro p hp S' c' hin
    have hp' : p ∈ s.deleted := hp
    rcases (inBankAt_append hb hl S' c' p).mp hin with a | a
    · exact hN.delout p hp' S' c' a
    · rw [a.2.2] at hp'; exact hnd hp'

theorem addDeleted_sub (s : St α) (p : Prog) : DSub s (s.addDeleted p) := by
  intro q hq
  unfold St.addDeleted; split
  · exact hq
  · exact List.mem_append_left _ hq

theorem mem_addDeleted_iff (s : St α) (p q : Prog) (h : q ∈ (s.addDeleted p).deleted) : q ∈ s.deleted ∨ q = p := by
  unfold St.addDeleted at h
  split at h
  · exact Or.inl h
  · rcases List.mem_append.mp h with h1 | h1
    · exact Or.inl h1
    · exact Or.inr (by simpa using h1)

/-- `self.deleted.add(p)` for a program the filter rejects -/
theorem ninv_addDeleted {E : Env α} {s : St α} {L : NT → List (Sym × Nat)} (p : Prog) (hN : NInv E s L)
    (hrej : E.filter p = false) : NInv E (s.addDeleted p) L := by
  have e := addDeleted_fields s p
  have m1 : BMono s (s.addDeleted p) := BMono.of_eq e.1
  have m2 : BMono (s.addDeleted p) s := BMono.of_eq e.1.symm
  have hd := addDeleted_sub s p
  refine ⟨binv_of_eq e.1 hN.binv, ?_, ?_, ?_, ?_⟩
  · intro S hh d hl hdm
    rw [e.2.2] at hl
    exact (hN.heapc S hh d hl hdm).mono (fun kids hk => m2.inBank hk) (fun _ _ _ hp => by rw [e.2.1]; exact hp) m1 hd
      (Or.inr ⟨rfl, fun _ h => h⟩)
  · intro S P c0 hm
    exact (hN.limboc S P c0 hm).mono (fun kids hk => m2.inBank hk) (fun _ _ _ hp => by rw [e.2.1]; exact hp) m1 hd
      (Or.inr ⟨rfl, fun _ h => h⟩)
  · intro S c q hin; exact hN.accb S c q (m2 S c q hin)
  · intro q hq S c hin
    rcases mem_addDeleted_iff s p q hq with h1 | h1
    · exact hN.delout q h1 S c (m2 S c q hin)
    · subst h1
      have := hN.accb S c q (m2 S c q hin)
      rw [hrej] at this; cases this

end PS.CD
