/- Bee search, NO DUPLICATES: the step theorem and its lifting to `next` / `take`. -/
import PS.Proofs.Enum.BeeNodup
namespace PS.Bee
open PS PS.G

variable {S : Type} [DecidableEq S]
set_option linter.unusedSectionVars false
set_option linter.unusedSimpArgs false

theorem gn_same_st (E : Env S) (g : Gen S) (ph : Phase S) (h : GN E g) (hp : PhaseN E g.st ph) (progs : Int) (failed : Nat) :
    GN E { g with progs := progs, failed := failed, phase := ph } := ⟨h.st, hp⟩

/-- **one step keeps the no-duplicates invariant**; banks only grow; a yielded program was in no index of the
    start symbol's bank before the step and is in it afterwards -/
theorem step_nodup (E : Env S) (g g' : Gen S) (out : Option Prog) (h : step E g = some (g', out)) (hi : GN E g) :
    GN E g' ∧ (∀ nt ci p, inBank g.st nt ci p → inBank g'.st nt ci p) ∧
      ∀ p, out = some p → (∀ cj, ¬ inBank g.st E.G.start cj p) ∧ ∃ ci, inBank g'.st E.G.start ci p := by
  unfold step at h
  split at h
  · simp only [Option.some.injEq, Prod.mk.injEq] at h; obtain ⟨rfl, rfl⟩ := h
    exact ⟨hi, fun _ _ _ h => h, by simp⟩
  · simp only [Option.some.injEq, Prod.mk.injEq] at h; obtain ⟨rfl, rfl⟩ := h
    exact ⟨⟨hi.st, trivial⟩, fun _ _ _ h => h, by simp⟩
  · dsimp only at h
    split at h
    · split at h
      all_goals (repeat' (split at h))
      all_goals
        simp only [Option.some.injEq, Prod.mk.injEq] at h; obtain ⟨rfl, rfl⟩ := h
        exact ⟨⟨hi.st, trivial⟩, fun _ _ _ h => h, by simp⟩
    · simp only [Option.some.injEq, Prod.mk.injEq] at h; obtain ⟨rfl, rfl⟩ := h
      exact ⟨⟨hi.st, trivial⟩, fun _ _ _ h => h, by simp⟩
  · simp only [Option.some.injEq, Prod.mk.injEq] at h; obtain ⟨rfl, rfl⟩ := h
    exact ⟨⟨hi.st, trivial⟩, fun _ _ _ h => h, by simp⟩
  · -- forS (nt :: rest): `_add_cost_`
    rename_i succ cost nt rest hph
    simp only at h
    split at h
    · simp at h
    · rename_i s1 ci hac
      simp only [Option.some.injEq, Prod.mk.injEq] at h; obtain ⟨rfl, rfl⟩ := h
      have hq0 : QAll (QWf E) { g.st with maxIndex := AList.insert nt ((AList.lookup nt g.st.maxIndex).getD 0) g.st.maxIndex } := hi.st.wfq
      have hd0 : DAll (DWf E) { g.st with maxIndex := AList.insert nt ((AList.lookup nt g.st.maxIndex).getD 0) g.st.maxIndex } := hi.st.wfd
      obtain ⟨_, hbank, _, _, _, hcase⟩ := addCost_all E (QWf E) (QWf E) (DWf E) (DWf E) (DWf E) _ s1 cost ci hac
        (fun _ _ hq => hq) (fun _ _ hd => hd) (fun nt idx P chk c hd _ _ => hd) (fun nt idx P chk hd _ => hd) hq0 hd0
      have hpend := addCost_pend E _ s1 cost ci hac
      have hqd : QAll (QWf E) s1 ∧ DAll (DWf E) s1 := by
        rcases hcase with ⟨rfl, _⟩ | ⟨_, _, _, hq, hd⟩
        · exact ⟨hq0, hd0⟩
        · exact ⟨hq, hd⟩
      have hn : NSt E s1 := nst_frame E (s := g.st) hbank (fun nt P => hpend nt P) hqd.1 hqd.2 hi.st
      exact ⟨⟨hn, trivial⟩, fun nt' ci' p hin => (inBank_of_bank_eq (s := g.st) hbank nt' ci' p).mpr hin, by simp⟩
  · -- whileQ
    rename_i succ cost nt rest maxi ci hph
    simp only at h
    have hleave : ∀ m : AList (NT S Unit) Nat, NSt E { g.st with maxIndex := m } :=
      fun m => nst_frame E (s := g.st) rfl (fun _ _ => List.Perm.refl _) hi.st.wfq hi.st.wfd hi.st
    split at h
    · simp only [Option.some.injEq, Prod.mk.injEq] at h; obtain ⟨rfl, rfl⟩ := h
      exact ⟨⟨hleave _, trivial⟩, fun _ _ _ h => h, by simp⟩
    · rename_i top tl hq
      split at h
      · rename_i htop
        split at h
        · simp at h
        · rename_i el q' hpop
          have hhead := Heapq.pop_head ltE _ _ _ hpop
          rw [hq] at hhead
          simp only [List.head?_cons, Option.some.injEq] at hhead
          subst hhead
          split at h
          · simp at h
          · rename_i args hargs
            split at h
            · simp at h
            · rename_i s2 maxi' hsl
              obtain ⟨hbank, hq2, hd2, hfront, hdone, hdone0, hmem, hlen, _⟩ := pop_expand E g.st s2 nt top q' args maxi maxi' hi.st hpop hargs hsl
              have hin : ∀ nt' ci' p, inBank g.st nt' ci' p ↔ inBank s2 nt' ci' p :=
                fun nt' ci' p => (inBank_of_bank_eq hbank nt' ci' p).symm
              have hn2 : NSt E s2 := by
                refine ⟨hq2, hd2, hfront, ?_, ?_, ?_⟩
                · intro nt' ci' ps hl
                  have : s2.bankOf nt' = g.st.bankOf nt' := by unfold St.bankOf; rw [hbank]
                  rw [this] at hl; exact hi.st.bankNd nt' ci' ps hl
                · intro nt' ci' cj p h1 h2
                  exact hi.st.bankU nt' ci' cj p ((hin _ _ _).mpr h1) ((hin _ _ _).mpr h2)
                · intro nt' ci' p h1
                  exact src_mono E (fun a b c hh => (hin a b c).mp hh) hdone (hi.st.src nt' ci' p ((hin _ _ _).mpr h1))
              split at h
              · simp at h
              · simp only [Option.some.injEq, Prod.mk.injEq] at h; obtain ⟨rfl, rfl⟩ := h
                exact ⟨⟨hn2, trivial⟩, fun a b c hh => (hin a b c).mp hh, by simp⟩
              · rename_i aps haps
                simp only [Option.some.injEq, Prod.mk.injEq] at h; obtain ⟨rfl, rfl⟩ := h
                refine ⟨⟨hn2, ?_⟩, fun a b c hh => (hin a b c).mp hh, by simp⟩
                obtain ⟨hlists, hkids⟩ := argsPossibles_spec s2 top.combo args 0 aps haps
                show PendOK E s2 nt _
                constructor
                · have hpn : (product aps).Nodup := by
                    apply product_nodup
                    intro l hl
                    obtain ⟨nt', ci', hlk⟩ := hlists l hl
                    exact hn2.bankNd nt' ci' l hlk
                  exact List.Pairwise.map (fun kids => Tree.node top.P kids)
                    (fun a b (hab : a ≠ b) h => hab (by simpa using h)) hpn
                · intro p hp
                  simp only [List.mem_map] at hp
                  obtain ⟨kids, hk, rfl⟩ := hp
                  obtain ⟨hklen, hkin⟩ := hkids kids hk
                  have hsrc : Src E s2 nt (.node top.P kids) :=
                    ⟨top.P, kids, args, top.combo, rfl, hargs, hlen, hklen, hdone0,
                      fun i a k v ha hkk hv => hkin i a k v ha hkk (by simpa using hv)⟩
                  refine ⟨?_, hsrc⟩
                  intro cj hcj
                  -- a banked copy would come from an expanded combination equal to the one just popped
                  have hold := hi.st.src nt cj _ ((hin _ _ _).mpr hcj)
                  obtain ⟨P', kids', args', c', he, ha', hc'len, hk'len, hdone', hin'⟩ := hold
                  cases he
                  rw [hargs] at ha'; cases ha'
                  have hceq : c' = top.combo := by
                    apply List.ext_getElem?
                    intro j
                    by_cases hj : j < args.length
                    · have h1 : j < c'.length := by omega
                      have h2 : j < top.combo.length := by omega
                      have h3 : j < kids.length := by omega
                      rw [List.getElem?_eq_getElem h1, List.getElem?_eq_getElem h2]
                      have a1 := hin' j args[j] kids[j] c'[j] (List.getElem?_eq_getElem hj) (List.getElem?_eq_getElem h3)
                        (List.getElem?_eq_getElem h1)
                      have a2 := hkin j args[j] kids[j] top.combo[j] (List.getElem?_eq_getElem hj) (List.getElem?_eq_getElem h3)
                        (by simpa using List.getElem?_eq_getElem h2)
                      have := hi.st.bankU _ _ _ _ a1 ((hin _ _ _).mpr a2)
                      rw [this]
                    · rw [List.getElem?_eq_none (by omega), List.getElem?_eq_none (by omega)]
                  subst hceq
                  exact Done.not_mem (hi.st.front nt top.P) hdone' hmem
      · simp only [Option.some.injEq, Prod.mk.injEq] at h; obtain ⟨rfl, rfl⟩ := h
        exact ⟨⟨hleave _, trivial⟩, fun _ _ _ h => h, by simp⟩
  · -- pend []
    simp only [Option.some.injEq, Prod.mk.injEq] at h; obtain ⟨rfl, rfl⟩ := h
    exact ⟨⟨hi.st, trivial⟩, fun _ _ _ h => h, by simp⟩
  · -- pend (p :: ps)
    rename_i succ cost nt rest maxi ci p ps hph
    have hph' := hi.ph; rw [hph] at hph'
    obtain ⟨hnd, hall⟩ : PendOK E g.st nt (p :: ps) := hph'
    obtain ⟨hfresh, hsrcp⟩ := hall p List.mem_cons_self
    have hpnd := List.nodup_cons.mp hnd
    obtain ⟨fq, fd, _⟩ := addProgram_frame E g.st nt p ci
    have hpendeq : ∀ nt' P', pend (addProgram E g.st nt p ci).1 nt' P' = pend g.st nt' P' := by
      intro nt' P'; unfold pend; rw [fq, fd]
    have hdoneeq : ∀ nt' P' c, Done (pend g.st nt' P') c → Done (pend (addProgram E g.st nt p ci).1 nt' P') c := by
      intro nt' P' c hd; rw [hpendeq]; exact hd
    -- the state after `_add_program_`
    have key : NSt E (addProgram E g.st nt p ci).1 ∧
        (∀ nt' ci' q, inBank g.st nt' ci' q → inBank (addProgram E g.st nt p ci).1 nt' ci' q) ∧
        PendOK E (addProgram E g.st nt p ci).1 nt ps ∧
        ((addProgram E g.st nt p ci).2 = true → inBank (addProgram E g.st nt p ci).1 nt ci p) := by
      rcases bankOf_addProgram E g.st nt p ci with ⟨hno, hb⟩ | ⟨hyes, hb1, hb2⟩
      · have hin : ∀ nt' ci' q, inBank (addProgram E g.st nt p ci).1 nt' ci' q ↔ inBank g.st nt' ci' q :=
          fun a b c => inBank_of_bank_eq hb a b c
        refine ⟨nst_frame E hb (fun a b => by rw [hpendeq]) (by intro a l hm; rw [fq] at hm; exact hi.st.wfq a l hm)
          (by intro a l hm; rw [fd] at hm; exact hi.st.wfd a l hm) hi.st, fun a b c hh => (hin a b c).mpr hh, ?_, by simp [hno]⟩
        refine ⟨hpnd.2, ?_⟩
        intro q hq
        obtain ⟨h1, h2⟩ := hall q (List.mem_cons_of_mem _ hq)
        exact ⟨fun cj hh => h1 cj ((hin _ _ _).mp hh), src_mono E (fun a b c hh => (hin a b c).mpr hh) hdoneeq h2⟩
      · have hin : ∀ nt' cj q, inBank (addProgram E g.st nt p ci).1 nt' cj q ↔
            (inBank g.st nt' cj q ∨ (nt' = nt ∧ cj = ci ∧ q = p)) := by
          intro nt' cj q
          unfold inBank
          by_cases hn : nt' = nt
          · subst hn
            rw [hb1, inBank_append]; simp
          · rw [hb2 nt' hn]; simp [hn]
        have hmono : ∀ nt' ci' q, inBank g.st nt' ci' q → inBank (addProgram E g.st nt p ci).1 nt' ci' q :=
          fun a b c hh => (hin a b c).mpr (Or.inl hh)
        refine ⟨⟨by intro a l hm; rw [fq] at hm; exact hi.st.wfq a l hm, by intro a l hm; rw [fd] at hm; exact hi.st.wfd a l hm,
          fun a b => by rw [hpendeq]; exact hi.st.front a b, ?_, ?_, ?_⟩, hmono, ?_, fun _ => (hin _ _ _).mpr (Or.inr ⟨rfl, rfl, rfl⟩)⟩
        · intro nt' cj l hl
          by_cases hn : nt' = nt
          · subst hn
            rw [hb1] at hl
            unfold bankAppend at hl
            rw [AList.lookup_insert] at hl
            by_cases hc : cj = ci
            · subst hc
              simp only [if_true, Option.some.injEq] at hl
              subst hl
              rw [List.nodup_append]
              refine ⟨?_, by simp, ?_⟩
              · cases hlo : AList.lookup cj (g.st.bankOf nt') with
                | none => simp
                | some l0 => simpa using hi.st.bankNd nt' cj l0 hlo
              · intro a ha b hb hab
                simp only [List.mem_singleton] at hb; subst hb; subst hab
                cases hlo : AList.lookup cj (g.st.bankOf nt') with
                | none => simp [hlo] at ha
                | some l0 =>
                  simp only [hlo, Option.getD_some] at ha
                  exact hfresh cj ⟨l0, hlo, ha⟩
            · simp only [hc, if_false] at hl
              exact hi.st.bankNd nt' cj l hl
          · rw [hb2 nt' hn] at hl; exact hi.st.bankNd nt' cj l hl
        · intro nt' c1 c2 q h1 h2
          rcases (hin _ _ _).mp h1 with g1 | ⟨e1, e2, e3⟩ <;> rcases (hin _ _ _).mp h2 with g2 | ⟨f1, f2, f3⟩
          · exact hi.st.bankU nt' c1 c2 q g1 g2
          · subst f1; subst f3; exact absurd g1 (hfresh c1)
          · subst e1; subst e3; exact absurd g2 (hfresh c2)
          · rw [e2, f2]
        · intro nt' cj q hq
          rcases (hin _ _ _).mp hq with hq | ⟨e1, _, e3⟩
          · exact src_mono E hmono hdoneeq (hi.st.src nt' cj q hq)
          · subst e1; subst e3; exact src_mono E hmono hdoneeq hsrcp
        · refine ⟨hpnd.2, ?_⟩
          intro q hq
          obtain ⟨h1, h2⟩ := hall q (List.mem_cons_of_mem _ hq)
          refine ⟨?_, src_mono E hmono hdoneeq h2⟩
          intro cj hh
          rcases (hin _ _ _).mp hh with hh | ⟨_, _, e3⟩
          · exact h1 cj hh
          · subst e3; exact hpnd.1 hq
    obtain ⟨k1, k2, k3, k4⟩ := key
    cases hap : addProgram E g.st nt p ci with | mk s1 added =>
    rw [hap] at k1 k2 k3 k4
    simp only [hap] at h
    split at h
    · rename_i hyes
      simp only [Option.some.injEq, Prod.mk.injEq] at h; obtain ⟨rfl, rfl⟩ := h
      simp only [Bool.and_eq_true, decide_eq_true_eq] at hyes
      obtain ⟨ha, hnt⟩ := hyes
      refine ⟨⟨k1, k3⟩, k2, ?_⟩
      intro q hq
      simp only [Option.some.injEq] at hq; subst hq
      subst hnt
      exact ⟨hfresh, ci, k4 ha⟩
    · simp only [Option.some.injEq, Prod.mk.injEq] at h; obtain ⟨rfl, rfl⟩ := h
      exact ⟨⟨k1, k3⟩, k2, by simp⟩

end PS.Bee
