/- `heapq.heapify` (the port in PS/Model/Enum/BeapSearch.lean) establishes the heap invariant:
   after `siftup(heap, k)` for `k = n/2 - 1, …, 0` every parent is ≤ its children.  The proof is the
   one of `heappush` / `heappop` (PS/Proofs/Enum/HeapInv.lean) relativised to the sub-tree of `k`. -/
import PS.Proofs.Enum.HeapInv
import PS.Proofs.Enum.BeapBase
namespace PS.Beap
open PS PS.Heapq
variable {α : Type}

/-- all parent/child pairs whose parent index is at least `k` are ordered -/
def HeapFrom (lt : α → α → Bool) (h : List α) (k : Nat) : Prop :=
  ∀ i, 0 < i → k ≤ (i - 1) / 2 → LE lt h ((i - 1) / 2) i

/-- `pos` lies in the sub-tree rooted at `k` -/
inductive Desc (k : Nat) : Nat → Prop
  | self : Desc k k
  | child {c : Nat} : 0 < c → Desc k ((c - 1) / 2) → Desc k c

theorem Desc.le {k pos : Nat} (h : Desc k pos) : k ≤ pos := by
  induction h with
  | self => exact Nat.le_refl _
  | child hc _ ih => omega

theorem Desc.parent {k pos : Nat} (h : Desc k pos) (hne : pos ≠ k) : Desc k ((pos - 1) / 2) ∧ k ≤ (pos - 1) / 2 := by
  cases h with
  | self => exact absurd rfl hne
  | child hc hp => exact ⟨hp, hp.le⟩

def SdInvK (lt : α → α → Bool) (h : List α) (k pos : Nat) : Prop :=
  (∀ i, 0 < i → k ≤ (i - 1) / 2 → i ≠ pos → LE lt h ((i - 1) / 2) i) ∧
  (k < pos → ∀ c, 0 < c → (c - 1) / 2 = pos → LE lt h ((pos - 1) / 2) c)

theorem siftdownFrom_heapFrom {lt : α → α → Bool} (w : WeakOrder lt) (k : Nat) :
    ∀ (fuel : Nat) (h : List α) (pos : Nat), pos ≤ fuel → pos < h.length → Desc k pos → SdInvK lt h k pos →
      HeapFrom lt (siftdownFrom lt k fuel h pos) k := by
  intro fuel
  induction fuel with
  | zero =>
    intro h pos hf _ hd hinv
    have hp0 : pos = 0 := by omega
    unfold siftdownFrom
    intro i hi hg
    exact hinv.1 i hi hg (by omega)
  | succ n ih =>
    intro h pos hf hpl hd hinv
    unfold siftdownFrom
    by_cases hp : pos ≤ k
    · simp only [hp, if_true]
      have hpk : pos = k := Nat.le_antisymm hp hd.le
      intro i hi hg
      exact hinv.1 i hi hg (by omega)
    · simp only [hp, if_false]
      have hpos : 0 < pos := by omega
      have hkp : k < pos := by omega
      obtain ⟨hdpar, hkpar⟩ := hd.parent (by omega)
      cases hlt : ltAt lt h pos ((pos - 1) / 2) with
      | false =>
        simp only [Bool.false_eq_true, if_false]
        intro i hi hg
        by_cases hip : i = pos
        · subst hip
          intro a b ha hb
          exact ltAt_false lt h _ _ hlt b a hb ha
        · exact hinv.1 i hi hg hip
      | true =>
        simp only [if_true]
        obtain ⟨x, y, hx, hy, hxy⟩ := ltAt_true lt h _ _ hlt
        have hparl : (pos - 1) / 2 < h.length := by omega
        apply ih
        · omega
        · rw [swap_length]; exact hparl
        · exact hdpar
        · have hsw := fun j => getElem?_swap h pos ((pos - 1) / 2) j hpl hparl
          refine ⟨?_, ?_⟩
          · intro i hi hg hne a b ha hb
            rw [hsw] at ha hb
            by_cases hi1 : i = pos
            · subst hi1
              simp only [if_true] at ha
              have : ¬ (i = (i - 1) / 2) := by omega
              simp only [this, if_false, if_true] at hb
              rw [hx] at ha; rw [hy] at hb
              cases ha; cases hb
              exact w.asymm _ _ hxy
            · have hb' : h[i]? = some b := by simpa [hne, hi1] using hb
              by_cases hi2 : (i - 1) / 2 = pos
              · have : ¬ (pos = (pos - 1) / 2) := by omega
                rw [hi2] at ha
                simp only [this, if_false, if_true] at ha
                exact hinv.2 hkp i hi hi2 a b ha hb'
              · by_cases hi3 : (i - 1) / 2 = (pos - 1) / 2
                · rw [hi3] at ha
                  simp only [if_true] at ha
                  rw [hx] at ha; cases ha
                  have h1 : lt b y = false := hinv.1 i hi hg hi1 y b (by rw [hi3]; exact hy) hb'
                  have h2 : lt y x = false := w.asymm _ _ hxy
                  exact w.ntrans _ _ _ h2 h1
                · have ha' : h[(i - 1) / 2]? = some a := by simpa [hi2, hi3] using ha
                  exact hinv.1 i hi hg hi1 a b ha' hb'
          · intro hpar c hc hcp a b ha hb
            rw [hsw] at ha hb
            have hpar0 : 0 < (pos - 1) / 2 := by omega
            have hgp : k ≤ ((pos - 1) / 2 - 1) / 2 := (hdpar.parent (by omega)).2
            have e1 : ¬ (((pos - 1) / 2 - 1) / 2 = (pos - 1) / 2) := by omega
            have e2 : ¬ (((pos - 1) / 2 - 1) / 2 = pos) := by omega
            have ha' : h[((pos - 1) / 2 - 1) / 2]? = some a := by simpa [e1, e2] using ha
            have hpy : lt y a = false :=
              hinv.1 ((pos - 1) / 2) hpar0 hgp (by omega) a y ha' hy
            by_cases hc1 : c = pos
            · subst hc1
              have : ¬ (c = (c - 1) / 2) := by omega
              simp only [this, if_false, if_true] at hb
              rw [hy] at hb; cases hb
              exact hpy
            · have : ¬ (c = (pos - 1) / 2) := by omega
              have hb' : h[c]? = some b := by simpa [this, hc1] using hb
              have h1 : lt b y = false := hinv.1 c hc (by omega) hc1 y b (by rw [hcp]; exact hy) hb'
              exact w.ntrans _ _ _ hpy h1

def BuInvK (lt : α → α → Bool) (h : List α) (k pos : Nat) : Prop :=
  (∀ i, 0 < i → k ≤ (i - 1) / 2 → i ≠ pos → (i - 1) / 2 ≠ pos → LE lt h ((i - 1) / 2) i) ∧
  (k < pos → ∀ c, 0 < c → (c - 1) / 2 = pos → LE lt h ((pos - 1) / 2) c)

theorem bubble_specK {lt : α → α → Bool} (w : WeakOrder lt) (k : Nat) :
    ∀ (fuel : Nat) (h : List α) (pos : Nat), h.length ≤ fuel + pos → pos < h.length → Desc k pos → BuInvK lt h k pos →
      (bubble lt fuel h pos).2 < (bubble lt fuel h pos).1.length ∧ Desc k (bubble lt fuel h pos).2 ∧
      (bubble lt fuel h pos).1.length = h.length ∧
      SdInvK lt (bubble lt fuel h pos).1 k (bubble lt fuel h pos).2 := by
  intro fuel
  induction fuel with
  | zero => intro h pos hf hpl _ _; omega
  | succ n ih =>
    intro h pos hf hpl hd hinv
    unfold bubble
    by_cases hlim : pos < h.length / 2
    · simp only [hlim, if_true]
      have hl : 2 * pos + 1 < h.length := by omega
      generalize hc : (if 2 * pos + 1 + 1 < h.length ∧ ¬ ltAt lt h (2 * pos + 1) (2 * pos + 1 + 1) = true
        then 2 * pos + 1 + 1 else 2 * pos + 1) = c
      have hcpar : (c - 1) / 2 = pos := by
        split at hc <;> omega
      have hc0 : 0 < c := by split at hc <;> omega
      have hcl : c < h.length := by
        split at hc
        · rename_i hh; omega
        · omega
      have hsib : ∀ s, 0 < s → (s - 1) / 2 = pos → s ≠ c → LE lt h c s := by
        intro s hs hsp hsc a b ha hb
        have hsl : s < h.length := (List.getElem?_eq_some_iff.mp hb).1
        split at hc
        · rename_i hh
          have hs' : s = 2 * pos + 1 := by omega
          subst hs'
          have hf' : ltAt lt h (2 * pos + 1) (2 * pos + 1 + 1) = false := by
            cases hq : ltAt lt h (2 * pos + 1) (2 * pos + 1 + 1) with
            | false => rfl
            | true => exact absurd hq hh.2
          rw [← hc] at ha
          exact ltAt_false lt h _ _ hf' b a hb ha
        · rename_i hh
          have hs' : s = 2 * pos + 1 + 1 := by omega
          subst hs'
          have hq : ltAt lt h (2 * pos + 1) (2 * pos + 1 + 1) = true := by
            cases hq : ltAt lt h (2 * pos + 1) (2 * pos + 1 + 1) with
            | true => rfl
            | false => exact absurd ⟨hsl, by simp [hq]⟩ hh
          obtain ⟨x, y, hx, hy, hxy⟩ := ltAt_true lt h _ _ hq
          rw [← hc, hx] at ha; rw [hy] at hb
          cases ha; cases hb
          exact w.asymm _ _ hxy
      have hsw := fun j => getElem?_swap h c pos j hcl hpl
      have hdc : Desc k c := Desc.child hc0 (hcpar ▸ hd)
      have hkp := hd.le
      have := ih (swap h c pos) c (by rw [swap_length]; omega) (by rw [swap_length]; exact hcl) hdc (by
        refine ⟨?_, ?_⟩
        · intro i hi hg hic hipc a b ha hb
          rw [hsw] at ha hb
          by_cases hi1 : i = pos
          · subst hi1
            simp only [if_true] at hb
            have e1 : ¬ ((i - 1) / 2 = i) := by omega
            have e2 : ¬ ((i - 1) / 2 = c) := by omega
            have ha' : h[(i - 1) / 2]? = some a := by simpa [e1, e2] using ha
            exact hinv.2 (by omega) c hc0 hcpar a b ha' hb
          · by_cases hi2 : (i - 1) / 2 = pos
            · rw [hi2] at ha
              simp only [if_true] at ha
              have hb' : h[i]? = some b := by simpa [hi1, hic] using hb
              exact hsib i hi hi2 hic a b ha hb'
            · have ha' : h[(i - 1) / 2]? = some a := by simpa [hi2, hipc] using ha
              have hb' : h[i]? = some b := by simpa [hi1, hic] using hb
              exact hinv.1 i hi hg hi1 hi2 a b ha' hb'
        · intro _ d hd' hdc' a b ha hb
          rw [hsw] at ha hb
          rw [hcpar] at ha
          simp only [if_true] at ha
          have e1 : ¬ (d = pos) := by omega
          have e2 : ¬ (d = c) := by omega
          have hb' : h[d]? = some b := by simpa [e1, e2] using hb
          exact hinv.1 d hd' (by omega) e1 (by omega) a b (by rw [hdc']; exact ha) hb')
      obtain ⟨g1, g2, g3, g4⟩ := this
      exact ⟨g1, g2, by rw [g3, swap_length], g4⟩
    · simp only [hlim, if_false]
      refine ⟨hpl, hd, trivial, ?_, hinv.2⟩
      intro i hi hg hip a b ha hb
      have hil : i < h.length := (List.getElem?_eq_some_iff.mp hb).1
      exact hinv.1 i hi hg hip (by omega) a b ha hb

theorem siftdownFrom_length (lt : α → α → Bool) (k fuel : Nat) (h : List α) (pos : Nat) :
    (siftdownFrom lt k fuel h pos).length = h.length := (siftdownFrom_perm lt k fuel h pos).length_eq

/-- one step of `heapify` -/
theorem siftupAt_heapFrom {lt : α → α → Bool} (w : WeakOrder lt) (h : List α) (k : Nat) (hk : k < h.length)
    (hh : HeapFrom lt h (k + 1)) : HeapFrom lt (siftupAt lt h k) k := by
  unfold siftupAt
  obtain ⟨g1, g2, _, g4⟩ := bubble_specK w k h.length h k (by omega) hk Desc.self (by
    refine ⟨fun i hi hg hik hpk a b ha hb => hh i hi (by omega) a b ha hb, fun hlt => absurd hlt (by omega)⟩)
  exact siftdownFrom_heapFrom w k _ _ _ (by omega) g1 g2 g4

theorem heapifyLoop_isHeap {lt : α → α → Bool} (w : WeakOrder lt) : ∀ (k : Nat) (h : List α), k ≤ h.length / 2 →
    HeapFrom lt h k → IsHeap lt (heapifyLoop lt k h) := by
  intro k
  induction k with
  | zero =>
    intro h _ hh
    unfold heapifyLoop
    rw [isHeap_iff]
    intro i hi
    exact hh i hi (by omega)
  | succ k ih =>
    intro h hk hh
    unfold heapifyLoop
    have hlen : (siftupAt lt h k).length = h.length := (siftupAt_perm lt h k).length_eq
    exact ih _ (by rw [hlen]; omega) (siftupAt_heapFrom w h k (by omega) hh)

/-- **`heapify` establishes the heap invariant** -/
theorem heapify_isHeap {lt : α → α → Bool} (w : WeakOrder lt) (h : List α) : IsHeap lt (heapify lt h) := by
  unfold heapify
  apply heapifyLoop_isHeap w _ _ (Nat.le_refl _)
  intro i hi hg a b _ hb
  have hil : i < h.length := (List.getElem?_eq_some_iff.mp hb).1
  omega

end PS.Beap
