/- Big-step presentation of the heap-search machine (PS/Model/Enum/HeapSearch.lean): the fuelled
   mutual recursion `query / popLoop / addSucc / addLoop` is sound for the inductive relation `Big`
   (every terminating run of the model is a derivation), so state invariants are proved by rule
   induction on `Big`.  Also: how the primitive updates act on the tables. -/
import PS.Model.Enum.HeapSearch
import PS.Proofs.Enum.Heapq
namespace PS.HS
open PS PS.G
set_option linter.unusedSectionVars false
variable {S T π : Type} [DecidableEq S] [DecidableEq T]

/-! ### table accessors under the primitive updates -/
namespace St

theorem getD_lookup_insert {κ ν : Type} [DecidableEq κ] (k k' : κ) (v d : ν) (l : AList κ ν) :
    (AList.lookup k' (AList.insert k v l)).getD d = if k' = k then v else (AList.lookup k' l).getD d := by
  rw [AList.lookup_insert]; split <;> rfl

@[simp] theorem heapOf_setHeap (s : St S T π) (nt nt' : NT S T) (h : List (π × Prog)) :
    (s.setHeap nt h).heapOf nt' = if nt' = nt then h else s.heapOf nt' := by
  unfold heapOf setHeap; exact getD_lookup_insert _ _ _ _ _
@[simp] theorem seenOf_setHeap (s : St S T π) (nt nt' : NT S T) (h : List (π × Prog)) :
    (s.setHeap nt h).seenOf nt' = s.seenOf nt' := rfl
@[simp] theorem succOf_setHeap (s : St S T π) (nt nt' : NT S T) (h : List (π × Prog)) :
    (s.setHeap nt h).succOf nt' = s.succOf nt' := rfl
@[simp] theorem deleted_setHeap (s : St S T π) (nt : NT S T) (h : List (π × Prog)) :
    (s.setHeap nt h).deleted = s.deleted := rfl
@[simp] theorem cache_setHeap (s : St S T π) (nt : NT S T) (h : List (π × Prog)) :
    (s.setHeap nt h).cache = s.cache := rfl

@[simp] theorem succOf_setSucc (s : St S T π) (nt nt' : NT S T) (k : Option Prog) (v : Prog) :
    (s.setSucc nt k v).succOf nt' = if nt' = nt then AList.insert k v (s.succOf nt) else s.succOf nt' := by
  unfold succOf setSucc; exact getD_lookup_insert _ _ _ _ _
@[simp] theorem heapOf_setSucc (s : St S T π) (nt nt' : NT S T) (k : Option Prog) (v : Prog) :
    (s.setSucc nt k v).heapOf nt' = s.heapOf nt' := rfl
@[simp] theorem seenOf_setSucc (s : St S T π) (nt nt' : NT S T) (k : Option Prog) (v : Prog) :
    (s.setSucc nt k v).seenOf nt' = s.seenOf nt' := rfl
@[simp] theorem deleted_setSucc (s : St S T π) (nt : NT S T) (k : Option Prog) (v : Prog) :
    (s.setSucc nt k v).deleted = s.deleted := rfl
@[simp] theorem cache_setSucc (s : St S T π) (nt : NT S T) (k : Option Prog) (v : Prog) :
    (s.setSucc nt k v).cache = s.cache := rfl

@[simp] theorem succOf_setPred (s : St S T π) (nt nt' : NT S T) (k : Prog) (v : Option Prog) :
    (s.setPred nt k v).succOf nt' = s.succOf nt' := rfl
@[simp] theorem heapOf_setPred (s : St S T π) (nt nt' : NT S T) (k : Prog) (v : Option Prog) :
    (s.setPred nt k v).heapOf nt' = s.heapOf nt' := rfl
@[simp] theorem seenOf_setPred (s : St S T π) (nt nt' : NT S T) (k : Prog) (v : Option Prog) :
    (s.setPred nt k v).seenOf nt' = s.seenOf nt' := rfl
@[simp] theorem deleted_setPred (s : St S T π) (nt : NT S T) (k : Prog) (v : Option Prog) :
    (s.setPred nt k v).deleted = s.deleted := rfl
@[simp] theorem cache_setPred (s : St S T π) (nt : NT S T) (k : Prog) (v : Option Prog) :
    (s.setPred nt k v).cache = s.cache := rfl

@[simp] theorem seenOf_addSeen (s : St S T π) (nt nt' : NT S T) (p : Prog) :
    (s.addSeen nt p).seenOf nt' = if nt' = nt then s.seenOf nt ++ [p] else s.seenOf nt' := by
  unfold seenOf addSeen; exact getD_lookup_insert _ _ _ _ _
@[simp] theorem heapOf_addSeen (s : St S T π) (nt nt' : NT S T) (p : Prog) :
    (s.addSeen nt p).heapOf nt' = s.heapOf nt' := rfl
@[simp] theorem succOf_addSeen (s : St S T π) (nt nt' : NT S T) (p : Prog) :
    (s.addSeen nt p).succOf nt' = s.succOf nt' := rfl
@[simp] theorem deleted_addSeen (s : St S T π) (nt : NT S T) (p : Prog) :
    (s.addSeen nt p).deleted = s.deleted := rfl
@[simp] theorem cache_addSeen (s : St S T π) (nt : NT S T) (p : Prog) :
    (s.addSeen nt p).cache = s.cache := rfl

end St

/-! ### the big-step relation -/

/-- the body of the `for i` loop of `__add_successors__` after `query` returned `r` -/
def pushStep (E : Env S T π) (s1 : St S T π) (F : Sym) (args : List Prog) (nt : NT S T) (i : Nat)
    (r : Option Prog) : St S T π :=
  match r with
  | none => s1
  | some q =>
    let np : Prog := .node F (args.set i q)
    if (s1.seenOf nt).contains np || (E.dropDeleted && s1.deleted.contains np) then s1
    else pushNew E s1 nt np

inductive Call (S T : Type) where
  | query (nt : NT S T) (p : Option Prog)
  | lop (nt : NT S T) (p : Option Prog)
  | popLoop (nt : NT S T) (key : Option Prog)
  | addSucc (prog : Prog) (nt : NT S T)
  | addLoop (F : Sym) (args : List Prog) (nt : NT S T) (i argsLen : Nat) (info : Info S) (s2 : NT S T)

/-- `Big E c s s' r`: the call `c` started in state `s` returns `r` in state `s'` -/
inductive Big (E : Env S T π) : Call S T → St S T π → St S T π → Option Prog → Prop
  | query_direct {s s' nt p r} (h : p = none ∨ (AList.lookup none (s.succOf nt)).isSome = true)
      (hb : Big E (.lop nt p) s s' r) : Big E (.query nt p) s s' r
  | query_first {s s1 s' nt p r0 r} (hp : p ≠ none) (h : (AList.lookup none (s.succOf nt)).isSome = false)
      (h0 : Big E (.query nt none) s s1 r0) (hb : Big E (.lop nt p) s1 s' r) : Big E (.query nt p) s s' r
  | lop_hit {s nt p r} (h : AList.lookup p (s.succOf nt) = some r) : Big E (.lop nt p) s s (some r)
  | lop_miss {s s' nt p r} (h : AList.lookup p (s.succOf nt) = none)
      (hb : Big E (.popLoop nt p) s s' r) : Big E (.lop nt p) s s' r
  | pop_empty {s nt key} (h : Heapq.pop (ltE E.ops) (s.heapOf nt) = none) : Big E (.popLoop nt key) s s none
  | pop_deleted {s s1 s' nt key e h' x r} (h : Heapq.pop (ltE E.ops) (s.heapOf nt) = some (e, h'))
      (hd : s.deleted.contains e.2 = true)
      (ha : Big E (.addSucc e.2 nt) (s.setHeap nt h') s1 x)
      (hb : Big E (.popLoop nt key) s1 s' r) : Big E (.popLoop nt key) s s' r
  | pop_take {s s' nt key e h' x} (h : Heapq.pop (ltE E.ops) (s.heapOf nt) = some (e, h'))
      (hd : s.deleted.contains e.2 = false)
      (ha : Big E (.addSucc e.2 nt) (((s.setHeap nt h').setSucc nt key e.2).setPred nt e.2 key) s' x) :
      Big E (.popLoop nt key) s s' (some e.2)
  | succ_leaf {s F nt} : Big E (.addSucc (.node F []) nt) s s none
  | succ_fun {s s' F a as nt r rl x} (hd : derive E.G [] nt F = some r) (hr : E.G.rule? nt F = some rl)
      (hb : Big E (.addLoop F (a :: as) nt 0 rl.1.length r.1 r.2) s s' x) :
      Big E (.addSucc (.node F (a :: as)) nt) s s' none
  | loop_done {s F args nt i argsLen info s2} (h : i ≥ argsLen) :
      Big E (.addLoop F args nt i argsLen info s2) s s none
  | loop_step {s s1 s' F args nt i argsLen info s2 ai r r' x} (h : i < argsLen) (hai : args[i]? = some ai)
      (hq : Big E (.query s2 (some ai)) s s1 r) (hc : i + 1 < argsLen)
      (hda : deriveAll E.G ai info s2 = some r')
      (hb : Big E (.addLoop F args nt (i + 1) argsLen r'.1 r'.2) (pushStep E s1 F args nt i r) s' x) :
      Big E (.addLoop F args nt i argsLen info s2) s s' none
  | loop_last {s s1 F args nt i argsLen info s2 ai r} (h : i < argsLen) (hai : args[i]? = some ai)
      (hq : Big E (.query s2 (some ai)) s s1 r) (hc : ¬ i + 1 < argsLen) :
      Big E (.addLoop F args nt i argsLen info s2) s (pushStep E s1 F args nt i r) none

/-- every terminating run of the model is a `Big` derivation -/
theorem big_of_run (E : Env S T π) : ∀ n : Nat,
    (∀ s nt p s' r, query E n s nt p = some (s', r) → Big E (.query nt p) s s' r) ∧
    (∀ s nt key s' r, popLoop E n s nt key = some (s', r) → Big E (.popLoop nt key) s s' r) ∧
    (∀ s prog nt s', addSucc E n s prog nt = some s' → Big E (.addSucc prog nt) s s' none) ∧
    (∀ s F args nt i argsLen info s2 s', addLoop E n s F args nt i argsLen info s2 = some s' →
      Big E (.addLoop F args nt i argsLen info s2) s s' none) := by
  intro n
  induction n with
  | zero =>
    refine ⟨?_, ?_, ?_, ?_⟩
    · intro s nt p s' r h; simp [query] at h
    · intro s nt key s' r h; simp [popLoop] at h
    · intro s prog nt s' h; simp [addSucc] at h
    · intro s F args nt i argsLen info s2 s' h; simp [addLoop] at h
  | succ n ih =>
    obtain ⟨ihq, ihp, ihs, ihl⟩ := ih
    refine ⟨?_, ?_, ?_, ?_⟩
    · -- query
      intro s nt p s' r h
      unfold query at h
      -- the continuation after the optional first query
      have cont : ∀ s1 : St S T π,
          (match AList.lookup p (s1.succOf nt) with
            | some r => some (s1, some r)
            | none => popLoop E n s1 nt p) = some (s', r) → Big E (.lop nt p) s1 s' r := by
        intro s1 h1
        cases hl : AList.lookup p (s1.succOf nt) with
        | some q =>
          simp only [hl, Option.some.injEq, Prod.mk.injEq] at h1
          obtain ⟨rfl, rfl⟩ := h1
          exact Big.lop_hit hl
        | none =>
          simp only [hl] at h1
          exact Big.lop_miss hl (ihp _ _ _ _ _ h1)
      cases p with
      | none =>
        simp only at h
        exact Big.query_direct (Or.inl rfl) (cont s h)
      | some x =>
        simp only at h
        cases hn : (AList.lookup none (s.succOf nt)).isSome with
        | true =>
          simp only [hn, if_true] at h
          exact Big.query_direct (Or.inr hn) (cont s h)
        | false =>
          simp only [hn, Bool.false_eq_true, if_false] at h
          cases hq : query E n s nt none with
          | none => simp [hq] at h
          | some r0 =>
            simp only [hq, Option.map_some] at h
            exact Big.query_first (by simp) hn (ihq _ _ _ _ _ hq) (cont r0.1 h)
    · -- popLoop
      intro s nt key s' r h
      unfold popLoop at h
      cases hp : Heapq.pop (ltE E.ops) (s.heapOf nt) with
      | none =>
        simp only [hp, Option.some.injEq, Prod.mk.injEq] at h
        obtain ⟨rfl, rfl⟩ := h
        exact Big.pop_empty hp
      | some eh =>
        obtain ⟨e, h'⟩ := eh
        simp only [hp] at h
        cases hd : s.deleted.contains e.2 with
        | true =>
          have hd' : (s.setHeap nt h').deleted.contains e.2 = true := hd
          simp only [hd', if_true] at h
          cases ha : addSucc E n (s.setHeap nt h') e.2 nt with
          | none => simp [ha] at h
          | some s1 =>
            simp only [ha] at h
            exact Big.pop_deleted hp hd (ihs _ _ _ _ ha) (ihp _ _ _ _ _ h)
        | false =>
          have hd' : (s.setHeap nt h').deleted.contains e.2 = false := hd
          simp only [hd', Bool.false_eq_true, if_false] at h
          cases ha : addSucc E n (((s.setHeap nt h').setSucc nt key e.2).setPred nt e.2 key) e.2 nt with
          | none => simp [ha] at h
          | some s1 =>
            simp only [ha, Option.some.injEq, Prod.mk.injEq] at h
            obtain ⟨rfl, rfl⟩ := h
            exact Big.pop_take hp hd (ihs _ _ _ _ ha)
    · -- addSucc
      intro s prog nt s' h
      obtain ⟨F, kids⟩ := prog
      cases kids with
      | nil =>
        simp only [addSucc, Option.some.injEq] at h
        subst h
        exact Big.succ_leaf
      | cons a as =>
        simp only [addSucc] at h
        cases hd : derive E.G [] nt F with
        | none => simp [hd] at h
        | some r =>
          cases hr : E.G.rule? nt F with
          | none => simp [hd, hr] at h
          | some rl =>
            simp only [hd, hr] at h
            exact Big.succ_fun hd hr (ihl _ _ _ _ _ _ _ _ _ h)
    · -- addLoop
      intro s F args nt i argsLen info s2 s' h
      unfold addLoop at h
      by_cases hi : i ≥ argsLen
      · simp only [hi, if_true, Option.some.injEq] at h
        subst h
        exact Big.loop_done hi
      · simp only [hi, if_false] at h
        cases hai : args[i]? with
        | none => simp [hai] at h
        | some ai =>
          simp only [hai] at h
          cases hq : query E n s s2 (some ai) with
          | none => simp [hq] at h
          | some sr =>
            obtain ⟨s1, r⟩ := sr
            simp only [hq] at h
            by_cases hc : i + 1 < argsLen
            · simp only [hc, if_true] at h
              cases hda : deriveAll E.G ai info s2 with
              | none => simp [hda] at h
              | some r' =>
                simp only [hda] at h
                have h2 : addLoop E n (pushStep E s1 F args nt i r) F args nt (i + 1) argsLen r'.1 r'.2 = some s' := by
                  cases r <;> exact h
                exact Big.loop_step (by omega) hai (ihq _ _ _ _ _ hq) hc hda (ihl _ _ _ _ _ _ _ _ _ h2)
            · simp only [hc, if_false, Option.some.injEq] at h
              have h2 : pushStep E s1 F args nt i r = s' := by
                cases r <;> exact h
              subst h2
              exact Big.loop_last (by omega) hai (ihq _ _ _ _ _ hq) hc

theorem big_of_query (E : Env S T π) {n s nt p s' r} (h : query E n s nt p = some (s', r)) :
    Big E (.query nt p) s s' r := (big_of_run E n).1 _ _ _ _ _ h

end PS.HS
