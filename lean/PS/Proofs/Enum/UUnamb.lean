/- An unambiguous grammar (`U.unambiguousOn`: at most one derivation from at most one start symbol)
   has pairwise disjoint start languages. -/
import PS.Proofs.Enum.UBridge
import PS.Proofs.Enum.UNodupRun
namespace PS.UHS
open PS PS.G
set_option linter.unusedSectionVars false
variable {U π : Type} [DecidableEq U]

theorem two_le_flatMap_length {α β : Type} (f : α → List β) : ∀ (l : List α) (x y : α), x ∈ l → y ∈ l → x ≠ y →
    f x ≠ [] → f y ≠ [] → 2 ≤ (l.flatMap f).length
  | [], _, _, hx, _, _, _, _ => by cases hx
  | a :: l, x, y, hx, hy, hne, fx, fy => by
    have one : ∀ z, z ∈ l → f z ≠ [] → 1 ≤ (l.flatMap f).length := by
      intro z hz hfz
      obtain ⟨b, hb⟩ := List.exists_mem_of_ne_nil _ hfz
      exact List.length_pos_of_mem (List.mem_flatMap.mpr ⟨z, hz, hb⟩)
    simp only [List.flatMap_cons, List.length_append]
    rcases List.mem_cons.mp hx with rfl | hx'
    · rcases List.mem_cons.mp hy with rfl | hy'
      · exact absurd rfl hne
      · have := one y hy' fy
        have := List.length_pos_iff.mpr fx
        omega
    · rcases List.mem_cons.mp hy with rfl | hy'
      · have := one x hx' fx
        have := List.length_pos_iff.mpr fy
        omega
      · have := two_le_flatMap_length f l x y hx' hy' hne fx fy
        omega

/-- unambiguity on every program makes the start languages disjoint -/
theorem sdisj_of_unambiguous (E : Env U π) (d : UNT U)
    (h : ∀ p, PS.U.unambiguousOn (E.G.toUCFG d) p = true) : SDisj E := by
  intro p nt nt' hd hd' hs hs'
  apply Classical.byContradiction
  intro hne
  have hu := h p
  unfold PS.U.unambiguousOn PS.U.allDerivs at hu
  simp only [decide_eq_true_eq] at hu
  have h1 : nt ∈ (E.G.toUCFG d).starts := (startW_some_iff E nt).mp hs
  have h2 : nt' ∈ (E.G.toUCFG d).starts := (startW_some_iff E nt').mp hs'
  have := two_le_flatMap_length (fun s => (PS.U.derivs (E.G.toUCFG d) p s).map (fun d => (s, d)))
    (E.G.toUCFG d).starts nt nt' h1 h2 hne
    (by simpa using (der_iff_derivs E d p nt).mp hd) (by simpa using (der_iff_derivs E d p nt').mp hd')
  omega

/-- the rule table is bottom-up deterministic (the shape produced by `UCFG.from_DFTA`): a symbol and
    a vector of argument non-terminals determine the non-terminal -/
def BUDet (E : Env U π) : Prop :=
  ∀ nt nt' F v w w', (v, w) ∈ altsOf E nt F → (v, w') ∈ altsOf E nt' F → nt = nt'

mutual
  theorem der_unique (E : Env U π) (hdet : BUDet E) : ∀ (p : Prog) (nt nt' : UNT U), Der E p nt → Der E p nt' → nt = nt'
    | .node F kids, nt, nt', h, h' => by
      obtain ⟨v, w, hm, hl⟩ := (der_node E F kids nt).mp h
      obtain ⟨v', w', hm', hl'⟩ := (der_node E F kids nt').mp h'
      have := derList_unique E hdet kids v v' hl hl'
      subst this
      exact hdet nt nt' F v w w' hm hm'
  theorem derList_unique (E : Env U π) (hdet : BUDet E) : ∀ (ks : List Prog) (v v' : List (UNT U)),
      DerList E ks v → DerList E ks v' → v = v'
    | [], [], [], _, _ => rfl
    | [], [], _ :: _, _, h => by simp [DerList] at h
    | [], _ :: _, _, h, _ => by simp [DerList] at h
    | _ :: _, [], _, h, _ => by simp [DerList] at h
    | _ :: _, _ :: _, [], _, h => by simp [DerList] at h
    | k :: ks, a :: as, a' :: as', h, h' => by
      rw [der_unique E hdet k a a' h.1 h'.1, derList_unique E hdet ks as as' h.2 h'.2]
end

theorem sdisj_of_budet (E : Env U π) (hdet : BUDet E) : SDisj E :=
  fun p nt nt' h h' _ _ => der_unique E hdet p nt nt' h h'

/-- the Boolean check of `BUDet` on a literal grammar -/
def budetB (G : UG U) : Bool :=
  G.rules.all (fun r => G.rules.all (fun r' => r.2.all (fun a => r'.2.all (fun a' =>
    decide (a.1 = a'.1) → a.2.all (fun x => a'.2.all (fun y => decide (x.1 = y.1) → decide (r.1 = r'.1)))))))

theorem budet_of_check (E : Env U π) (h : budetB E.G = true) : BUDet E := by
  intro nt nt' F v w w' hm hm'
  obtain ⟨rs, h1, a, h2, h3⟩ := altsOf_mem E nt F _ hm
  obtain ⟨rs', h1', a', h2', h3'⟩ := altsOf_mem E nt' F _ hm'
  have r1 := List.all_eq_true.mp h (nt, rs) h1
  have r2 := List.all_eq_true.mp r1 (nt', rs') h1'
  have r3 := List.all_eq_true.mp r2 (F, a) h2
  have r4 := List.all_eq_true.mp r3 (F, a') h2'
  simp only [decide_true, Bool.decide_eq_true, forall_const] at r4
  have r5 := List.all_eq_true.mp r4 (v, w) h3
  have r6 := List.all_eq_true.mp r5 (v, w') h3'
  simpa using r6

end PS.UHS
