/- An unambiguous grammar (`U.unambiguousOn`: at most one derivation from at most one start symbol)
   has pairwise disjoint start languages. -/
import PS.Proofs.Enum.UBridge
import PS.Proofs.Enum.UNodupRun
namespace PS.UHS
open PS PS.G
set_option linter.unusedSectionVars false
variable {U π : Type} [DecidableEq U]

theorem two_le_flatMap_length {α β : Type} (f : α → List β) : ∀ (l : List α) (x y : α), x ∈ l → y ∈ l → x ≠ y →
    f x ≠ [] → f y ≠ [] → 2 ≤ (l.flatMap f).length
  | [], _, _, hx, _, _, _, _ => by cases hx
  | a :: l, x, y, hx, hy, hne, fx, fy => by
    have one : ∀ z, z ∈ l → f z ≠ [] → 1 ≤ (l.flatMap f).length := by
      intro z hz hfz
      obtain ⟨b, hb⟩ := List.exists_mem_of_ne_nil _ hfz
      exact List.length_pos_of_mem (List.mem_flatMap.mpr ⟨z, hz, hb⟩)
    simp only [List.flatMap_cons, List.length_append]
    rcases List.mem_cons.mp hx with rfl | hx'
    · rcases List.mem_cons.mp hy with rfl | hy'
      · exact absurd rfl hne
      · have := one y hy' fy
        have := List.length_pos_iff.mpr fx
        omega
    · rcases List.mem_cons.mp hy with rfl | hy'
      · have := one x hx' fx
        have := List.length_pos_iff.mpr fy
        omega
      · have := two_le_flatMap_length f l x y hx' hy' hne fx fy
        omega

/-- unambiguity on every program makes the start languages disjoint -/
theorem sdisj_of_unambiguous (E : Env U π) (d : UNT U)
    (h : ∀ p, PS.U.unambiguousOn (E.G.toUCFG d) p = true) : SDisj E := by
  intro p nt nt' hd hd' hs hs'
  apply Classical.byContradiction
  intro hne
  have hu := h p
  unfold PS.U.unambiguousOn PS.U.allDerivs at hu
  simp only [decide_eq_true_eq] at hu
  have h1 : nt ∈ (E.G.toUCFG d).starts := (startW_some_iff E nt).mp hs
  have h2 : nt' ∈ (E.G.toUCFG d).starts := (startW_some_iff E nt').mp hs'
  have := two_le_flatMap_length (fun s => (PS.U.derivs (E.G.toUCFG d) p s).map (fun d => (s, d)))
    (E.G.toUCFG d).starts nt nt' h1 h2 hne
    (by simpa using (der_iff_derivs E d p nt).mp hd) (by simpa using (der_iff_derivs E d p nt').mp hd')
  omega

/-- the rule table is bottom-up deterministic (the shape produced by `UCFG.from_DFTA`): a symbol and
    a vector of argument non-terminals determine the non-terminal -/
def BUDet (E : Env U π) : Prop :=
  ∀ nt nt' F v w w', (v, w) ∈ altsOf E nt F → (v, w') ∈ altsOf E nt' F → nt = nt'

mutual
  theorem der_unique (E : Env U π) (hdet : BUDet E) : ∀ (p : Prog) (nt nt' : UNT U), Der E p nt → Der E p nt' → nt = nt'
    | .node F kids, nt, nt', h, h' => by
      obtain ⟨v, w, hm, hl⟩ := (der_node E F kids nt).mp h
      obtain ⟨v', w', hm', hl'⟩ := (der_node E F kids nt').mp h'
      have := derList_unique E hdet kids v v' hl hl'
      subst this
      exact hdet nt nt' F v w w' hm hm'
  theorem derList_unique (E : Env U π) (hdet : BUDet E) : ∀ (ks : List Prog) (v v' : List (UNT U)),
      DerList E ks v → DerList E ks v' → v = v'
    | [], [], [], _, _ => rfl
    | [], [], _ :: _, _, h => by simp [DerList] at h
    | [], _ :: _, _, h, _ => by simp [DerList] at h
    | _ :: _, [], _, h, _ => by simp [DerList] at h
    | _ :: _, _ :: _, [], _, h => by simp [DerList] at h
    | k :: ks, a :: as, a' :: as', h, h' => by
      rw [der_unique E hdet k a a' h.1 h'.1, derList_unique E hdet ks as as' h.2 h'.2]
end

theorem sdisj_of_budet (E : Env U π) (hdet : BUDet E) : SDisj E :=
  fun p nt nt' h h' _ _ => der_unique E hdet p nt nt' h h'

/-- the Boolean check of `BUDet` on a literal grammar -/
def budetB (G : UG U) : Bool :=
  G.rules.all (fun r => G.rules.all (fun r' => r.2.all (fun a => r'.2.all (fun a' =>
    decide (a.1 = a'.1) → a.2.all (fun x => a'.2.all (fun y => decide (x.1 = y.1) → decide (r.1 = r'.1)))))))

theorem budet_of_check (E : Env U π) (h : budetB E.G = true) : BUDet E := by
  intro nt nt' F v w w' hm hm'
  obtain ⟨rs, h1, a, h2, h3⟩ := altsOf_mem E nt F _ hm
  obtain ⟨rs', h1', a', h2', h3'⟩ := altsOf_mem E nt' F _ hm'
  have r1 := List.all_eq_true.mp h (nt, rs) h1
  have r2 := List.all_eq_true.mp r1 (nt', rs') h1'
  have r3 := List.all_eq_true.mp r2 (F, a) h2
  have r4 := List.all_eq_true.mp r3 (F, a') h2'
  simp only [decide_true, Bool.decide_eq_true, forall_const] at r4
  have r5 := List.all_eq_true.mp r4 (v, w) h3
  have r6 := List.all_eq_true.mp r5 (v, w') h3'
  simpa using r6

/-! ### bottom-up determinism implies unambiguity -/

theorem flatMap_length_le_one {α β : Type} (f : α → List β) : ∀ (l : List α), l.Nodup → (∀ x, x ∈ l → (f x).length ≤ 1) →
    (∀ x y, x ∈ l → y ∈ l → f x ≠ [] → f y ≠ [] → x = y) → (l.flatMap f).length ≤ 1
  | [], _, _, _ => by simp
  | a :: l, hnd, h1, h2 => by
    simp only [List.flatMap_cons, List.length_append]
    have ih := flatMap_length_le_one f l (List.nodup_cons.mp hnd).2 (fun x hx => h1 x (List.mem_cons_of_mem _ hx))
      (fun x y hx hy => h2 x y (List.mem_cons_of_mem _ hx) (List.mem_cons_of_mem _ hy))
    have ha := h1 a List.mem_cons_self
    by_cases hfa : f a = []
    · rw [hfa]; simpa using ih
    · have : l.flatMap f = [] := by
        rw [List.flatMap_eq_nil_iff]
        intro x hx
        apply Classical.byContradiction
        intro hfx
        have := h2 a x List.mem_cons_self (List.mem_cons_of_mem _ hx) hfa hfx
        subst this
        exact (List.nodup_cons.mp hnd).1 hx
      rw [this]; simpa using ha

theorem alts?_nodup (E : Env U π) (d : UNT U) (hkeys : ∀ nt F, ((altsOf E nt F).map (·.1)).Nodup) (nt : UNT U) (F : Sym)
    (cands : List (List (UNT U))) (hc : (E.G.toUCFG d).alts? nt F = some cands) : cands.Nodup := by
  rw [alts?_toUCFG] at hc
  have := hkeys nt F
  unfold altsOf at this
  cases hl : AList.lookup nt E.G.rules with
  | none => simp [hl] at hc
  | some rs =>
    simp only [hl] at hc this
    cases hl2 : AList.lookup F rs with
    | none => simp [hl2] at hc
    | some a =>
      simp only [hl2, Option.map_some, Option.some.injEq, Option.getD_some] at hc this
      rw [← hc]; exact this

mutual
  theorem derivs_length_le_one (E : Env U π) (d : UNT U) (hdet : BUDet E)
      (hkeys : ∀ nt F, ((altsOf E nt F).map (·.1)).Nodup) : ∀ (p : Prog) (nt : UNT U),
      (PS.U.derivs (E.G.toUCFG d) p nt).length ≤ 1
    | .node F kids, nt => by
      rw [PS.U.derivs]
      cases hc : (E.G.toUCFG d).alts? nt F with
      | none => simp
      | some cands =>
        simp only
        apply flatMap_length_le_one _ cands (alts?_nodup E d hkeys nt F cands hc)
        · intro v _
          rw [List.length_map]
          exact derivsList_length_le_one E d hdet hkeys kids v
        · intro v v' _ _ h1 h2
          have e1 : PS.U.derivsList (E.G.toUCFG d) kids v ≠ [] := by intro e; apply h1; rw [e]; rfl
          have e2 : PS.U.derivsList (E.G.toUCFG d) kids v' ≠ [] := by intro e; apply h2; rw [e]; rfl
          exact derList_unique E hdet kids v v' ((derList_iff_derivsList E d kids v).mpr e1)
            ((derList_iff_derivsList E d kids v').mpr e2)
  theorem derivsList_length_le_one (E : Env U π) (d : UNT U) (hdet : BUDet E)
      (hkeys : ∀ nt F, ((altsOf E nt F).map (·.1)).Nodup) : ∀ (ks : List Prog) (v : List (UNT U)),
      (PS.U.derivsList (E.G.toUCFG d) ks v).length ≤ 1
    | [], [] => by simp [PS.U.derivsList]
    | [], _ :: _ => by simp [PS.U.derivsList]
    | _ :: _, [] => by simp [PS.U.derivsList]
    | k :: ks, a :: as => by
      rw [PS.U.derivsList]
      have h1 := derivs_length_le_one E d hdet hkeys k a
      have h2 := derivsList_length_le_one E d hdet hkeys ks as
      match hd : PS.U.derivs (E.G.toUCFG d) k a, h1 with
      | [], _ => simp
      | [x], _ =>
        simp only [List.flatMap_cons, List.flatMap_nil, List.append_nil, List.length_map]
        exact h2
end

/-- a bottom-up deterministic table with distinct alternatives and distinct start symbols is an
    unambiguous grammar in the sense of the specification -/
theorem unambiguous_of_budet (E : Env U π) (d : UNT U) (hdet : BUDet E)
    (hkeys : ∀ nt F, ((altsOf E nt F).map (·.1)).Nodup) (hstarts : (E.G.starts.map (·.1)).Nodup) (p : Prog) :
    PS.U.unambiguousOn (E.G.toUCFG d) p = true := by
  unfold PS.U.unambiguousOn PS.U.allDerivs
  simp only [decide_eq_true_eq]
  apply flatMap_length_le_one _ _ hstarts
  · intro nt _
    rw [List.length_map]
    exact derivs_length_le_one E d hdet hkeys p nt
  · intro nt nt' _ _ h1 h2
    have e1 : PS.U.derivs (E.G.toUCFG d) p nt ≠ [] := by intro e; apply h1; rw [e]; rfl
    have e2 : PS.U.derivs (E.G.toUCFG d) p nt' ≠ [] := by intro e; apply h2; rw [e]; rfl
    exact der_unique E hdet p nt nt' ((der_iff_derivs E d p nt).mpr e1) ((der_iff_derivs E d p nt').mpr e2)

end PS.UHS
