/- `__init_heap__` on tables in sync gives a `Base` state (generic priority, threshold). -/
import PS.Proofs.Enum.GInit
namespace PS.HG
open PS PS.G PS.HS
set_option linter.unusedSectionVars false
variable {S π : Type} [DecidableEq S]

theorem bestStep_filter_step {α : Type} {P : α → Prop} {lt : α → α → Bool} (w : Heapq.WeakOrderOn P lt)
    (ok : α → Bool) (hup : ∀ x y, P x → P y → ok x = true → lt x y = false → ok y = true)
    (acc : Option α) (x : α) (hx : P x) (ha : ∀ a, acc = some a → P a) :
    (if ok x = true then Heapq.bestStep lt (acc.filter ok) x else acc.filter ok) =
      (Heapq.bestStep lt acc x).filter ok := by
  cases acc with
  | none =>
    by_cases hox : ok x = true
    · simp [Option.filter, Heapq.bestStep, hox]
    · simp [Option.filter, Heapq.bestStep, hox]
  | some a =>
    have hPa := ha a rfl
    by_cases hlt : lt x a = true
    · by_cases hox : ok x = true
      · by_cases hoa : ok a = true
        · simp [Option.filter, Heapq.bestStep, hox, hoa, hlt]
        · simp [Option.filter, Heapq.bestStep, hox, hoa, hlt]
      · have hoa : ¬ ok a = true := fun hoa => hox (hup a x hPa hx hoa (w.asymm hx hPa hlt))
        simp [Option.filter, Heapq.bestStep, hox, hoa, hlt]
    · have hlt' : lt x a = false := by simpa using hlt
      by_cases hox : ok x = true
      · have hoa : ok a = true := hup x a hx hPa hox hlt'
        simp [Option.filter, Heapq.bestStep, hox, hoa, hlt']
      · by_cases hoa : ok a = true
        · simp [Option.filter, Heapq.bestStep, hox, hoa, hlt']
        · simp [Option.filter, Heapq.bestStep, hox, hoa, hlt']

/-- the first best of the elements passing a test that is closed under "at least as good" -/
theorem foldl_bestStep_filter {α : Type} {P : α → Prop} {lt : α → α → Bool} (w : Heapq.WeakOrderOn P lt)
    (ok : α → Bool) (hup : ∀ x y, P x → P y → ok x = true → lt x y = false → ok y = true) :
    ∀ (l : List α) (acc : Option α), (∀ x ∈ l, P x) → (∀ a, acc = some a → P a) →
      (l.filter ok).foldl (Heapq.bestStep lt) (acc.filter ok) = (l.foldl (Heapq.bestStep lt) acc).filter ok := by
  intro l
  induction l with
  | nil => intro acc _ _; rfl
  | cons x r ih =>
    intro acc hl ha
    have hx := hl x (List.mem_cons_self)
    have hr : ∀ y ∈ r, P y := fun y hy => hl y (List.mem_cons_of_mem _ hy)
    have hacc' : ∀ a, Heapq.bestStep lt acc x = some a → P a := by
      intro a h
      cases acc with
      | none => simp only [Heapq.bestStep, Option.some.injEq] at h; subst h; exact hx
      | some a0 =>
        simp only [Heapq.bestStep] at h
        split at h
        · simp only [Option.some.injEq] at h; subst h; exact hx
        · simp only [Option.some.injEq] at h; subst h; exact ha a0 rfl
    simp only [List.foldl_cons]
    rw [← ih (Heapq.bestStep lt acc x) hr hacc', ← bestStep_filter_step w ok hup acc x hx ha]
    by_cases hox : ok x = true
    · simp [List.filter_cons, hox]
    · simp [List.filter_cons, hox]

theorem foldl_push_head_on {α : Type} {P : α → Prop} {lt : α → α → Bool} (w : Heapq.WeakOrderOn P lt) (xs : List α) :
    ∀ h, (∀ y ∈ h, P y) → (∀ y ∈ xs, P y) → Heapq.IsHeap lt h →
      (xs.foldl (Heapq.push lt) h).head? = xs.foldl (Heapq.bestStep lt) h.head? ∧
      Heapq.IsHeap lt (xs.foldl (Heapq.push lt) h) := by
  induction xs with
  | nil => intro h _ _ hh; exact ⟨rfl, hh⟩
  | cons x r ih =>
    intro h hP hxs hh
    simp only [List.foldl_cons]
    have hx := hxs x (List.mem_cons_self)
    have hP' : ∀ y ∈ Heapq.push lt h x, P y := by
      intro y hy
      rcases List.mem_cons.mp ((Heapq.push_perm lt h x).subset hy) with rfl | hy'
      · exact hx
      · exact hP y hy'
    obtain ⟨a1, a2⟩ := ih _ hP' (fun y hy => hxs y (List.mem_cons_of_mem _ hy)) (Heapq.push_isHeap_on w h x hP hx hh)
    exact ⟨by rw [a1, Heapq.push_head_on w h x hP hx hh], a2⟩

/-- the elements `__init_heap__` actually pushes -/
def pushed (E : Env S Unit π) (s : St S Unit π) (nt : NT S Unit) (Ps : List Sym) : List (π × Prog) :=
  (entries E s nt Ps).filter (fun e => pushOK E.ops e.1)

/-- one `__init_heap__(nt)` -/
theorem initHeapLoop_spec (E : Env S Unit π) (nt : NT S Unit) :
    ∀ (Ps : List Sym) (s s' : St S Unit π), SInv E s → MInv E s → CInv E s →
      (∀ P ∈ Ps, ∀ prog, MR s nt P = some prog → ∀ F args ra, prog = .node F args → E.G.rule? nt F = some (ra, ()) →
        ∀ (i : Nat) ai a, args[i]? = some ai → ra[i]? = some a → (AList.lookup (ai, argNT a) s.cache).isSome = true) →
      initHeapLoop E nt Ps s = some s' →
      s'.heapOf nt = (pushed E s nt Ps).foldl (Heapq.push (ltE E.ops)) (s.heapOf nt) ∧
      s'.seenOf nt = s.seenOf nt ++ (entries E s nt Ps).map (·.2) ∧
      (entries E s nt Ps).length = Ps.length ∧
      (∀ nt', nt' ≠ nt → s'.heapOf nt' = s.heapOf nt' ∧ s'.seenOf nt' = s.seenOf nt') ∧
      (∀ nt', s'.succOf nt' = s.succOf nt') ∧ s'.maxRule = s.maxRule ∧ s'.maxNT = s.maxNT ∧ s'.deleted = s.deleted ∧
      SInv E s' ∧ MInv E s' ∧ CInv E s' ∧
      (∀ key, (AList.lookup key s.cache).isSome = true → (AList.lookup key s'.cache).isSome = true) := by
  intro Ps
  induction Ps with
  | nil =>
    intro s s' hs hm hc _ h
    simp only [initHeapLoop, Option.some.injEq] at h
    subst h
    exact ⟨rfl, by simp [entries], rfl, fun _ _ => ⟨rfl, rfl⟩, fun _ => rfl, rfl, rfl, rfl, hs, hm, hc, fun _ h => h⟩
  | cons P rest ih =>
    intro s s' hs hm hc hargs h
    unfold initHeapLoop at h
    split at h
    · simp at h
    · rename_i prog hl
      split at h
      · simp at h
      · rename_i hnotseen
        dsimp only at h
        split at h
        · simp at h
        · rename_i r hcp
          have hg := hm.rule_gen nt P prog hl
          have hcp' : computePrio E s.cache nt prog = some (r.1, r.2) := hcp
          obtain ⟨hv, _⟩ := computePrio_spec E _ hs.cache_ok nt prog hg r.1 r.2 hcp'
          have heq : (if pushOK E.ops r.2 = true then
                St.setHeap { s.addSeen nt prog with cache := r.1 } nt
                  (Heapq.push (ltE E.ops) (St.heapOf { s.addSeen nt prog with cache := r.1 } nt) (r.2, prog))
              else { s.addSeen nt prog with cache := r.1 }) = pushNew E s nt prog := by
            unfold pushNew
            simp only [hcp]
          rw [heq] at h
          have hs1 := hs.pushNew nt prog hg
          have hmr := pushNew_maxRule E s nt prog
          have hm1 : MInv E (pushNew E s nt prog) :=
            ⟨fun a b c hh => hm.rule_gen a b c (hmr.1 ▸ hh), fun a b hh => hm.nt_gen a b (hmr.2 ▸ hh), hs1.cache_ok⟩
          -- the cover invariant
          obtain ⟨F, args⟩ := prog
          have hg' := hg
          rw [gen] at hg'
          cases hr : E.G.rule? nt F with
          | none => simp [hr] at hg'
          | some rl =>
            obtain ⟨ra, u⟩ := rl
            cases u
            simp only [hr] at hg'
            have hnew : Tree.node F args ∉ s.seenOf nt := by
              intro hmem; apply hnotseen; simp [hmem]
            have hargs0 := hargs P (List.mem_cons_self) _ hl F args ra rfl hr
            have hc1 : CInv E (pushNew E s nt (.node F args)) :=
              hc.pushNew_of_some hs nt F args ra hr hg' hnew hargs0 r.1 r.2 hcp'
            obtain ⟨mono, _⟩ := computePrio_cache E s.cache nt _ r.1 r.2 hcp'
            have hpe := pushNew_eq E s nt (.node F args) r.1 r.2 hcp'
            have hcache1 : ∀ key, (AList.lookup key s.cache).isSome = true →
                (AList.lookup key (pushNew E s nt (.node F args)).cache).isSome = true := by
              intro key hk
              rw [hpe]
              split <;> exact mono key hk
            obtain ⟨a1, a2, a2', a3, a4, a5, a6, a6', a7, a8, a9, a10⟩ := ih _ _ hs1 hm1 hc1 (by
              intro Q hQ pq hmq F' args' ra' hp' hr' i ai a hai ha
              have hmq' : MR s nt Q = some pq := by unfold MR at hmq ⊢; rw [← hmr.1]; exact hmq
              exact hcache1 _ (hargs Q (List.mem_cons_of_mem _ hQ) pq hmq' F' args' ra' hp' hr' i ai a hai ha)) h
            obtain ⟨v1, v2, _, v4, v5⟩ := pushNew_views E s nt (.node F args)
            have hent : entry E s nt P = some (r.2, .node F args) := by
              unfold entry; rw [hl]; simp only [Option.bind_some, hv, Option.map_some]
            have hcons : entries E s nt (P :: rest) = (r.2, .node F args) :: entries E s nt rest := by
              unfold entries; simp only [List.filterMap_cons, hent]
            have hcg := entries_congr E hmr.1 nt rest
            have hheap1 : (pushNew E s nt (.node F args)).heapOf nt =
                if pushOK E.ops r.2 = true then Heapq.push (ltE E.ops) (s.heapOf nt) (r.2, .node F args) else s.heapOf nt := by
              rw [hpe]
              split
              · rw [St.heapOf_setHeap]; simp only [if_true]
              · rfl
            refine ⟨?_, ?_, ?_, ?_, ?_, a5.trans hmr.1, a6.trans hmr.2, a6'.trans v5, a7, a8, a9,
              fun key hk => a10 key (hcache1 key hk)⟩
            · rw [a1]
              unfold pushed
              rw [hcons, hcg, hheap1]
              by_cases hok : pushOK E.ops r.2 = true
              · simp [List.filter_cons, hok]
              · simp [List.filter_cons, hok]
            · rw [a2, hcons, v2, hcg]; simp
            · rw [hcons, List.length_cons, ← hcg, a2']; simp
            · intro nt' hne
              obtain ⟨b1, b2⟩ := a3 nt' hne
              refine ⟨b1.trans (v4 nt' hne), ?_⟩
              rw [b2, v2]; simp [hne]
            · intro nt'; rw [a4, v1]

/-- the arguments of the max-priority programs are memoised -/
def ArgsCached (E : Env S Unit π) (s : St S Unit π) : Prop :=
  ∀ nt P prog, MR s nt P = some prog → ∀ F args ra, prog = .node F args → E.G.rule? nt F = some (ra, ()) →
    ∀ (i : Nat) ai a, args[i]? = some ai → ra[i]? = some a → (AList.lookup (ai, argNT a) s.cache).isSome = true

theorem initHeaps_spec (E : Env S Unit π) :
    ∀ (rows : List (NT S Unit × AList Sym (List (Ty × S) × Unit))) (s s' : St S Unit π),
      (AList.keys rows).Nodup → SInv E s → MInv E s → CInv E s → ArgsCached E s → initHeaps E rows s = some s' →
      (∀ nt rs, (nt, rs) ∈ rows →
        s'.heapOf nt = (pushed E s nt (AList.keys rs)).foldl (Heapq.push (ltE E.ops)) (s.heapOf nt) ∧
        s'.seenOf nt = s.seenOf nt ++ (entries E s nt (AList.keys rs)).map (·.2) ∧
        (entries E s nt (AList.keys rs)).length = (AList.keys rs).length) ∧
      (∀ nt, nt ∉ AList.keys rows → s'.heapOf nt = s.heapOf nt ∧ s'.seenOf nt = s.seenOf nt) ∧
      (∀ nt', s'.succOf nt' = s.succOf nt') ∧ s'.maxRule = s.maxRule ∧ s'.maxNT = s.maxNT ∧ s'.deleted = s.deleted ∧
      SInv E s' ∧ MInv E s' ∧ CInv E s' := by
  intro rows
  induction rows with
  | nil =>
    intro s s' _ hs hm hc _ h
    simp only [initHeaps, Option.some.injEq] at h
    subst h
    exact ⟨(fun _ _ hm => by cases hm), fun _ _ => ⟨rfl, rfl⟩, fun _ => rfl, rfl, rfl, rfl, hs, hm, hc⟩
  | cons row rest ih =>
    intro s s' hnd hs hm hc hac h
    obtain ⟨nt0, rs0⟩ := row
    unfold initHeaps at h
    split at h
    · simp at h
    · rename_i s1 hl
      simp only [AList.keys, List.map_cons, List.nodup_cons] at hnd
      obtain ⟨a1, a2, a2', a3, a4, a5, a6, a6', a7, a8, a9, a10⟩ := initHeapLoop_spec E nt0 _ _ _ hs hm hc
        (fun P _ prog hmr => hac nt0 P prog hmr) hl
      have hac1 : ArgsCached E s1 := by
        intro nt P prog hmr F args ra hp hr i ai a hai ha
        have hmr' : MR s nt P = some prog := by unfold MR at hmr ⊢; rw [← a5]; exact hmr
        exact a10 _ (hac nt P prog hmr' F args ra hp hr i ai a hai ha)
      obtain ⟨b1, b2, b3, b4, b5, b5', b6, b7, b8⟩ := ih _ _ hnd.2 a7 a8 a9 hac1 h
      refine ⟨?_, ?_, fun nt' => (b3 nt').trans (a4 nt'), b4.trans a5, b5.trans a6, b5'.trans a6', b6, b7, b8⟩
      · intro nt rs hmem
        rcases List.mem_cons.mp hmem with heq | hmem'
        · cases heq
          obtain ⟨c1, c2⟩ := b2 nt0 hnd.1
          exact ⟨c1.trans a1, c2.trans a2, a2'⟩
        · have hne : nt ≠ nt0 := by
            intro heq; subst heq
            exact hnd.1 (List.mem_map.mpr ⟨(nt, rs), hmem', rfl⟩)
          obtain ⟨c1, c2, c3⟩ := b1 nt rs hmem'
          obtain ⟨d1, d2⟩ := a3 nt hne
          have he : entries E s1 nt (AList.keys rs) = entries E s nt (AList.keys rs) := entries_congr E a5 nt _
          unfold pushed at c1 ⊢
          rw [c1, c2, he, d1, d2]
          exact ⟨rfl, rfl, by rw [← he]; exact c3⟩
      · intro nt hnot
        simp only [AList.keys, List.map_cons, List.mem_cons, not_or] at hnot
        obtain ⟨c1, c2⟩ := b2 nt hnot.2
        obtain ⟨d1, d2⟩ := a3 nt hnot.1
        exact ⟨c1.trans d1, c2.trans d2⟩

end PS.HG
