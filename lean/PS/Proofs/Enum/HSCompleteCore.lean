/- Completeness core (DESIGN B.2): in a quiescent state satisfying the invariants, an exhausted
   non-terminal (empty heap) has popped every program derivable from it. -/
import PS.Proofs.Enum.HSCover
namespace PS.HS
open PS PS.G
set_option linter.unusedSectionVars false
variable {S : Type} [DecidableEq S]

/-- what holds between two top-level calls -/
structure Quiet (E : Env S Unit Rat) (H0 : NT S Unit → List (Rat × Prog)) (s : St S Unit Rat) : Prop where
  full : Full E H0 s
  tinv : TInv E H0 s
  cinv : CInv s
  i3 : I3 E s
  /-- every non-terminal of the rule table has started its enumeration -/
  started : ∀ nt rs, AList.lookup nt E.G.rules = some rs → s.succOf nt ≠ []
  /-- the initial program of every rule was pushed: its arguments are the first pops -/
  init_seen : ∀ nt F ra, E.G.rule? nt F = some (ra, ()) →
    ∃ ms, Tree.node F ms ∈ s.seenOf nt ∧
      ∀ (i : Nat) a m, ra[i]? = some a → ms[i]? = some m → FP E H0 (argNT a) m

/-- the arguments are popped programs of their non-terminals, `n` = total distance from the sentinels -/
inductive TupleDepth (s : St S Unit Rat) : List (Ty × S) → List Prog → Nat → Prop
  | nil : TupleDepth s [] [] 0
  | cons {a ra x args l n} : chainFrom (s.succOf (argNT a)) none (l ++ [x]) → TupleDepth s ra args n →
      TupleDepth s (a :: ra) (x :: args) (l.length + n)

theorem TupleDepth.length {s : St S Unit Rat} {ra : List (Ty × S)} {args : List Prog} {n : Nat}
    (h : TupleDepth s ra args n) : args.length = ra.length := by
  induction h with
  | nil => rfl
  | cons _ _ ih => simp [ih]

theorem tupleDepth_of_values {E : Env S Unit Rat} {H0} {s : St S Unit Rat} (ht : TInv E H0 s) :
    ∀ (ra : List (Ty × S)) (args : List Prog), args.length = ra.length →
      (∀ (i : Nat) a ai, ra[i]? = some a → args[i]? = some ai → ∃ k, AList.lookup k (s.succOf (argNT a)) = some ai) →
      ∃ n, TupleDepth s ra args n
  | [], [], _, _ => ⟨0, .nil⟩
  | [], _ :: _, h, _ => by simp at h
  | _ :: _, [], h, _ => by simp at h
  | a :: ra, x :: args, h, hv => by
    obtain ⟨k, hk⟩ := hv 0 a x rfl rfl
    obtain ⟨l, hl, _⟩ := ht.reach _ k x hk
    obtain ⟨n, hn⟩ := tupleDepth_of_values ht ra args (by simpa using h)
      (fun i a' ai ha hai => hv (i + 1) a' ai (by simpa using ha) (by simpa using hai))
    exact ⟨_, .cons hl hn⟩

/-- depth 0: every argument is the first popped program of its non-terminal -/
theorem TupleDepth.zero {s : St S Unit Rat} {ra : List (Ty × S)} {args : List Prog} {n : Nat}
    (h : TupleDepth s ra args n) (hn : n = 0) :
    ∀ (i : Nat) a ai, ra[i]? = some a → args[i]? = some ai → AList.lookup none (s.succOf (argNT a)) = some ai := by
  induction h with
  | nil => intro i a ai ha; simp at ha
  | @cons a ra x args l n hc ht ih =>
    intro i a' ai ha hai
    have hl : l = [] := List.eq_nil_of_length_eq_zero (by omega)
    subst hl
    cases i with
    | zero =>
      simp only [List.getElem?_cons_zero, Option.some.injEq] at ha hai
      subst ha; subst hai
      exact hc.1
    | succ i =>
      simp only [List.getElem?_cons_succ] at ha hai
      exact ih (by simp at hn; omega) i a' ai ha hai

/-- depth > 0: some argument has a predecessor; replacing it decreases the depth -/
theorem TupleDepth.pred {s : St S Unit Rat} {ra : List (Ty × S)} {args : List Prog} {n : Nat}
    (h : TupleDepth s ra args n) (hn : 0 < n) :
    ∃ (j : Nat) (a : Ty × S) (x z : Prog) (n' : Nat), ra[j]? = some a ∧ args[j]? = some z ∧
      AList.lookup (some x) (s.succOf (argNT a)) = some z ∧ TupleDepth s ra (args.set j x) n' ∧ n' < n := by
  induction h with
  | nil => omega
  | @cons a ra x args l n hc ht ih =>
    by_cases hl : l = []
    · subst hl
      simp only [List.length_nil, Nat.zero_add] at hn
      obtain ⟨j, a', x', z, n', h1, h2, h3, h4, h5⟩ := ih hn
      refine ⟨j + 1, a', x', z, 0 + n', by simpa using h1, by simpa using h2, h3, ?_, by simpa using h5⟩
      have := TupleDepth.cons (l := []) hc h4
      simpa using this
    · obtain ⟨l', x', rfl⟩ : ∃ l' x', l = l' ++ [x'] := by
        cases hrev : l.reverse with
        | nil => simp at hrev; exact absurd hrev hl
        | cons y ys =>
          refine ⟨ys.reverse, y, ?_⟩
          have := congrArg List.reverse hrev
          simpa using this
      rw [chainFrom_snoc, lastOr_snoc] at hc
      refine ⟨0, a, x', x, l'.length + n, rfl, rfl, hc.2, ?_, by simp⟩
      simpa using TupleDepth.cons hc.1 ht

/-- **all tuples of popped arguments were popped** for an exhausted non-terminal -/
theorem tuple_popped {E : Env S Unit Rat} {H0} {s : St S Unit Rat} (Q : Quiet E H0 s)
    (nt : NT S Unit) (hempty : s.heapOf nt = []) (F : Sym) (ra : List (Ty × S))
    (hr : E.G.rule? nt F = some (ra, ())) :
    ∀ (n : Nat) (args : List Prog), TupleDepth s ra args n → ∃ k, AList.lookup k (s.succOf nt) = some (.node F args) := by
  have hcover : ∀ p, p ∈ s.seenOf nt → ∃ k, AList.lookup k (s.succOf nt) = some p := by
    intro p hp
    rcases Q.cinv.seen_cover nt p hp with hh | hv
    · unfold St.heapProgs at hh; rw [hempty] at hh; cases hh
    · exact hv
  intro n
  induction n using Nat.strongRecOn with
  | _ n ih =>
    intro args ht
    by_cases hn : n = 0
    · -- the initial program of the rule
      obtain ⟨ms, hms, hfp⟩ := Q.init_seen nt F ra hr
      have hz := ht.zero hn
      have hgen := Q.full.sinv.seen_gen nt _ hms
      rw [gen, hr] at hgen
      have hlen : ms.length = args.length := by
        rw [genList_length' E.G ms ra hgen, ht.length]
      have heq : args = ms := by
        apply List.ext_getElem?
        intro i
        cases hai : args[i]? with
        | none =>
          have : args.length ≤ i := List.getElem?_eq_none_iff.mp hai
          exact (List.getElem?_eq_none_iff.mpr (by omega)).symm
        | some ai =>
          have hil : i < args.length := (List.getElem?_eq_some_iff.mp hai).1
          have hilr : i < ra.length := by rw [← ht.length]; exact hil
          have him : i < ms.length := by omega
          have hv := hz i ra[i] ai (List.getElem?_eq_getElem hilr) hai
          obtain ⟨e, h', hpop, he⟩ := Q.tinv.first_val _ ai hv
          have := hfp i ra[i] ms[i] (List.getElem?_eq_getElem hilr) (List.getElem?_eq_getElem him) e h' hpop
          rw [List.getElem?_eq_getElem him, ← this, he]
      rw [heq]; exact hcover _ hms
    · obtain ⟨j, a, x, z, n', ha, hz, hlk, ht', hlt⟩ := ht.pred (by omega)
      obtain ⟨k, hk⟩ := ih n' hlt _ ht'
      have hjl : j < args.length := (List.getElem?_eq_some_iff.mp hz).1
      have hfact := Q.i3 nt k _ hk F (args.set j x) ra rfl hr j a x (Nat.zero_le _) ha
        (by rw [List.getElem?_set_self hjl])
      rcases hfact with ⟨z', hz', hm⟩ | ⟨hnone, _⟩
      · rw [hlk] at hz'
        cases hz'
        have : (args.set j x).set j z = args := by
          rw [List.set_set]
          apply List.ext_getElem?
          intro i
          by_cases hij : i = j
          · subst hij; rw [List.getElem?_set_self hjl, hz]
          · rw [List.getElem?_set_ne (Ne.symm hij)]
        rw [this] at hm
        exact hcover _ hm
      · rw [hlk] at hnone; cases hnone

/-- every non-terminal used by a rule has a row -/
def Closed (G : TT S Unit) : Prop :=
  ∀ nt F ra, G.rule? nt F = some (ra, ()) → ∀ a ∈ ra, (AList.lookup (argNT a) G.rules).isSome = true

/-- a tuple of last popped programs -/
theorem tips_exist {E : Env S Unit Rat} {H0} {s : St S Unit Rat} (Q : Quiet E H0 s) :
    ∀ (ra : List (Ty × S)), (∀ a ∈ ra, (AList.lookup (argNT a) E.G.rules).isSome = true) →
      ∃ ts : List Prog, ts.length = ra.length ∧
        ∀ (i : Nat) a t, ra[i]? = some a → ts[i]? = some t →
          (∃ k, AList.lookup k (s.succOf (argNT a)) = some t) ∧ AList.lookup (some t) (s.succOf (argNT a)) = none
  | [], _ => ⟨[], rfl, by intro i a t ha; simp at ha⟩
  | a :: ra, hrow => by
    obtain ⟨ts, hl, hts⟩ := tips_exist Q ra (fun a' ha' => hrow a' (List.mem_cons_of_mem _ ha'))
    have hsome := hrow a (List.mem_cons_self)
    cases hl' : AList.lookup (argNT a) E.G.rules with
    | none => rw [hl'] at hsome; cases hsome
    | some rs =>
      obtain ⟨k, v, hk, htip⟩ := Q.tinv.tip _ (Q.started _ rs hl')
      refine ⟨v :: ts, by simp [hl], ?_⟩
      intro i a' t ha ht
      cases i with
      | zero =>
        simp only [List.getElem?_cons_zero, Option.some.injEq] at ha ht
        subst ha; subst ht
        exact ⟨⟨k, hk⟩, htip⟩
      | succ i =>
        simp only [List.getElem?_cons_succ] at ha ht
        exact hts i a' t ha ht

/-- **completeness of an exhausted non-terminal** (induction on the rank) -/
theorem exhausted_complete {E : Env S Unit Rat} {rank} (H : OrdHyp E rank) (hcl : Closed E.G) {H0}
    {s : St S Unit Rat} (Q : Quiet E H0 s) :
    ∀ (r : Nat) (nt : NT S Unit), rank nt = r → s.heapOf nt = [] →
      ∀ p, gen E.G p nt = true → ∃ k, AList.lookup k (s.succOf nt) = some p := by
  intro r
  induction r using Nat.strongRecOn with
  | _ r ih =>
    intro nt hrk hempty p hg
    obtain ⟨F, kids⟩ := p
    rw [gen] at hg
    cases hr : E.G.rule? nt F with
    | none => simp [hr] at hg
    | some rl =>
      obtain ⟨ra, u⟩ := rl
      cases u
      simp only [hr] at hg
      have hrows := hcl nt F ra hr
      -- the non-terminals of the arguments are exhausted too: look at the tuple of last pops
      have hchild : ∀ a ∈ ra, s.heapOf (argNT a) = [] := by
        intro a ha
        obtain ⟨ts, hl, hts⟩ := tips_exist Q ra hrows
        obtain ⟨n, hn⟩ := tupleDepth_of_values Q.tinv ra ts hl (fun i a' t ha' ht => (hts i a' t ha' ht).1)
        obtain ⟨k, hk⟩ := tuple_popped Q nt hempty F ra hr n ts hn
        obtain ⟨i, hi, hia⟩ := List.getElem_of_mem ha
        have hit : i < ts.length := by omega
        have hfact := Q.i3 nt k _ hk F ts ra rfl hr i a ts[i] (Nat.zero_le _)
          (by rw [List.getElem?_eq_getElem hi, hia]) (List.getElem?_eq_getElem hit)
        have htip := (hts i a ts[i] (by rw [List.getElem?_eq_getElem hi, hia]) (List.getElem?_eq_getElem hit)).2
        rcases hfact with ⟨z, hz, _⟩ | ⟨_, he⟩
        · rw [htip] at hz; cases hz
        · exact he
      -- by induction the arguments were popped for their non-terminals
      have hlen := genList_length' E.G kids ra hg
      have hvals : ∀ (i : Nat) a ai, ra[i]? = some a → kids[i]? = some ai →
          ∃ k, AList.lookup k (s.succOf (argNT a)) = some ai := by
        intro i a ai ha hai
        have hmem := List.mem_of_getElem? ha
        have hlt : rank (argNT a) < r := by rw [← hrk]; exact H.acyclic nt F ra hr a hmem
        exact ih _ hlt (argNT a) rfl (hchild a hmem) ai (genList_get E.G kids ra i ai a hg hai ha)
      obtain ⟨n, hn⟩ := tupleDepth_of_values Q.tinv ra kids hlen hvals
      exact tuple_popped Q nt hempty F ra hr n kids hn

end PS.HS
