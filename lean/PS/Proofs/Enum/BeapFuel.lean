/- The fuel of the beap-search model is a proof artifact: a run that returns with some fuel returns the same result
   with every larger fuel (queryList / runQuery / drive / resume / argsLoop, the prologue, next, take). -/
import PS.Proofs.Enum.BeapBase
namespace PS.Beap
open PS PS.G PS.Heapq
set_option linter.unusedSectionVars false
variable {S : Type} [DecidableEq S]

def QLF (E : Env S) (n : Nat) : Prop := ∀ s nt ci r, queryList E n s nt ci = some r → queryList E (n + 1) s nt ci = some r
def RQF (E : Env S) (n : Nat) : Prop := ∀ s nt ci r, runQuery E n s nt ci = some r → runQuery E (n + 1) s nt ci = some r
def DF (E : Env S) (n : Nat) : Prop := ∀ s nt fr r, drive E n s nt fr = some r → drive E (n + 1) s nt fr = some r
def RF (E : Env S) (n : Nat) : Prop := ∀ s nt fr r, resume E n s nt fr = some r → resume E (n + 1) s nt fr = some r
def AF (E : Env S) (n : Nat) : Prop :=
  ∀ s as cs ae af acc r, argsLoop E n s as cs ae af acc = some r → argsLoop E (n + 1) s as cs ae af acc = some r

theorem fuel_step (E : Env S) : ∀ n : Nat, QLF E n ∧ RQF E n ∧ DF E n ∧ RF E n ∧ AF E n := by
  intro n
  induction n with
  | zero =>
    refine ⟨?_, ?_, ?_, ?_, ?_⟩
    · intro s nt ci r h; simp [queryList] at h
    · intro s nt ci r h; simp [runQuery] at h
    · intro s nt fr r h; simp [drive] at h
    · intro s nt fr r h; simp [resume] at h
    · intro s as cs ae af acc r h; simp [argsLoop] at h
  | succ n ih =>
    obtain ⟨iq, irq, id, ir, ia⟩ := ih
    refine ⟨?_, ?_, ?_, ?_, ?_⟩
    · intro s nt ci r h
      rw [queryList] at h ⊢
      split
      · next hc => simp only [hc, if_true] at h; exact h
      · next hc =>
        simp only [hc] at h
        split
        · next hl => simp only [hl, if_true] at h; exact h
        · next hl =>
          simp only [hl] at h
          cases hlk : AList.lookup ci (s.bankOf nt) with
          | some ps => simp only [hlk] at h ⊢; exact h
          | none =>
            simp only [hlk] at h ⊢
            cases hr : runQuery E n s nt ci with
            | none => simp [hr] at h
            | some s1 => rw [irq _ _ _ _ hr]; simp only [hr] at h; exact h
    · intro s nt ci r h
      rw [runQuery] at h ⊢
      cases hc : (s.clOf nt)[ci]? with
      | none => simp only [hc] at h ⊢; exact h
      | some c => simp only [hc] at h ⊢; exact id _ _ _ _ h
    · intro s nt fr r h
      rw [drive] at h ⊢
      cases hr : resume E n s nt fr with
      | none => simp [hr] at h
      | some x =>
        rw [ir _ _ _ _ hr]
        simp only [hr] at h
        obtain ⟨s1, res⟩ := x
        cases res with
        | ret => exact h
        | yield p fr1 => exact id _ _ _ _ h
    · intro s nt fr r h
      rw [resume] at h ⊢
      split
      · next s1 p rest hem => simp only [hem] at h; exact h
      · next s1 hem =>
        simp only [hem] at h
        split
        · next hq => simp only [hq] at h; exact h
        · next e0 q0 hq =>
          simp only [hq] at h
          split
          · next hcost => rw [if_pos hcost] at h; exact h
          · next hcost =>
            rw [if_neg hcost] at h
            rw [hq]
            cases hpop : Heapq.pop ltE (e0 :: q0) with
            | none => simp [hpop] at h
            | some x =>
              obtain ⟨el, q'⟩ := x
              simp only [hpop] at h ⊢
              cases hrl : E.G.rule? nt el.P with
              | none => simp [hrl] at h
              | some rl =>
                simp only [hrl] at h ⊢
                cases ha : argsLoop E n (s1.setQueue nt q') (rl.1.map ntOf) el.comb false false [] with
                | none => simp [ha] at h
                | some y =>
                  obtain ⟨s3, ae, af, poss⟩ := y
                  rw [ia _ _ _ _ _ _ _ ha]
                  simp only [ha] at h
                  simp only
                  split
                  · next hf => rw [if_pos hf] at h; exact ir _ _ _ _ h
                  · next hf =>
                    rw [if_neg hf] at h
                    split
                    · next hae => rw [if_pos hae] at h; exact ir _ _ _ _ h
                    · next hae => rw [if_neg hae] at h; exact ir _ _ _ _ h
    · intro s as cs ae af acc r h
      cases as with
      | nil => simp only [argsLoop] at h ⊢; exact h
      | cons a as =>
        cases cs with
        | nil => simp [argsLoop] at h
        | cons c cs =>
          simp only [argsLoop] at h ⊢
          cases hq : queryList E n s a c with
          | none => simp [hq] at h
          | some x =>
            obtain ⟨s1, one, poss⟩ := x
            rw [iq _ _ _ _ hq]
            simp only [hq] at h
            simp only
            split
            · next hp =>
              rw [if_pos hp] at h
              split
              · next ho => rw [if_pos ho] at h; exact h
              · next ho => rw [if_neg ho] at h; exact ia _ _ _ _ _ _ _ h
            · next hp => rw [if_neg hp] at h; exact ia _ _ _ _ _ _ _ h

/-- the initialisation -/
theorem init_fuel_step (E : Env S) : ∀ n : Nat,
    (∀ s nt r, initNT E n s nt = some r → initNT E (n + 1) s nt = some r) ∧
    (∀ s nt rs r, initRules E n s nt rs = some r → initRules E (n + 1) s nt rs = some r) ∧
    (∀ s as c r, initArgs E n s as c = some r → initArgs E (n + 1) s as c = some r) := by
  intro n
  induction n with
  | zero =>
    refine ⟨?_, ?_, ?_⟩
    · intro s nt r h; simp [initNT] at h
    · intro s nt rs r h; simp [initRules] at h
    · intro s as c r h; simp [initArgs] at h
  | succ n ih =>
    obtain ⟨iN, iR, iA⟩ := ih
    refine ⟨?_, ?_, ?_⟩
    · intro s nt r h
      rw [initNT] at h ⊢
      cases hl : AList.lookup nt s.costLists with
      | none => simp [hl] at h
      | some cl =>
        simp only [hl] at h ⊢
        split
        · next hc => rw [if_pos hc] at h; exact h
        · next hc =>
          rw [if_neg hc] at h
          cases hrs : AList.lookup nt E.G.rules with
          | none => simp [hrs] at h
          | some rs =>
            simp only [hrs] at h ⊢
            cases hir : initRules E n (s.setCL nt (cl ++ [Cost.big])) nt rs with
            | none => simp [hir] at h
            | some s1 => rw [iR _ _ _ _ hir]; simp only [hir] at h; exact h
    · intro s nt rs r h
      cases rs with
      | nil => simp only [initRules] at h ⊢; exact h
      | cons pr rest =>
        obtain ⟨P, rl⟩ := pr
        simp only [initRules] at h ⊢
        cases hw : ruleW E nt P with
        | none => simp [hw] at h
        | some w =>
          simp only [hw] at h ⊢
          cases hia : initArgs E n s rl.1 (Cost.ofRat w) with
          | none => simp [hia] at h
          | some x =>
            obtain ⟨s1, cost⟩ := x
            rw [iA _ _ _ _ hia]
            simp only [hia] at h
            exact iR _ _ _ _ h
    · intro s as c r h
      cases as with
      | nil => simp only [initArgs] at h ⊢; exact h
      | cons a as =>
        simp only [initArgs] at h ⊢
        cases hin : initNT E n s (ntOf a) with
        | none => simp [hin] at h
        | some s1 =>
          rw [iN _ _ _ hin]
          simp only [hin] at h
          simp only
          cases hcl : s1.clOf (ntOf a) with
          | nil => simp [hcl] at h
          | cons c0 r0 => simp only [hcl] at h ⊢; exact iA _ _ _ _ h

theorem reevalLoop_fuel_step (E : Env S) : ∀ (k : Nat) (s r : St S), reevalLoop E k s = some r → reevalLoop E (k + 1) s = some r := by
  intro k
  induction k with
  | zero => intro s r h; simp [reevalLoop] at h
  | succ k ih =>
    intro s r h
    rw [reevalLoop] at h ⊢
    cases hp : reevalPass E (AList.keys s.queues) s false with
    | none => simp [hp] at h
    | some x =>
      obtain ⟨s1, ch⟩ := x
      simp only [hp] at h ⊢
      cases ch with
      | true => exact ih _ _ h
      | false => exact h

theorem prologue_fuel_step (E : Env S) (fuel : Nat) (s r : St S) (h : prologue E fuel s = some r) :
    prologue E (fuel + 1) s = some r := by
  unfold prologue at h ⊢
  cases hin : initNT E fuel s E.G.start with
  | none => simp [hin] at h
  | some s1 =>
    rw [(init_fuel_step E fuel).1 _ _ _ hin]
    simp only [hin] at h
    simp only
    unfold reevaluate at h ⊢
    split
    · next hr => rw [if_pos hr] at h; exact reevalLoop_fuel_step E _ _ _ h
    · next hr => rw [if_neg hr] at h; exact h

theorem nextLoop_fuel_step (E : Env S) (fuel : Nat) : ∀ (k : Nat) (s : St S) (n : Nat) (failed : Bool) (fro : Option Frame)
    (r : Gen S × Option Prog), nextLoop E fuel k s n failed fro = some r → nextLoop E (fuel + 1) (k + 1) s n failed fro = some r := by
  intro k
  induction k with
  | zero => intro s n failed fro r h; simp [nextLoop] at h
  | succ k ih =>
    intro s n failed fro r h
    cases fro with
    | some fr =>
      rw [nextLoop] at h ⊢
      cases hr : resume E fuel s E.G.start fr with
      | none => simp [hr] at h
      | some x =>
        rw [(fuel_step E fuel).2.2.2.1 _ _ _ _ hr]
        simp only [hr] at h
        obtain ⟨s1, res⟩ := x
        cases res with
        | yield p fr1 => exact h
        | ret =>
          simp only at h ⊢
          split
          · next hc => rw [if_pos hc] at h; exact h
          · next hc => rw [if_neg hc] at h; exact ih _ _ _ _ _ h
    | none =>
      rw [nextLoop] at h ⊢
      split
      · next hg => simp only [hg] at h; exact h
      · next c hg => simp only [hg] at h; exact ih _ _ _ _ _ h

theorem next_fuel_step (E : Env S) (fuel : Nat) (g : Gen S) (r : Gen S × Option Prog) (h : next E fuel g = some r) :
    next E (fuel + 1) g = some r := by
  unfold next at h ⊢
  split
  · next hf => rw [if_pos hf] at h; exact h
  · next hf =>
    rw [if_neg hf] at h
    split
    · next hs => rw [if_pos hs] at h; exact nextLoop_fuel_step E fuel fuel _ _ _ _ _ h
    · next hs =>
      rw [if_neg hs] at h
      cases hp : prologue E fuel g.st with
      | none => simp [hp] at h
      | some s =>
        rw [prologue_fuel_step E fuel _ _ hp]
        simp only [hp] at h
        exact nextLoop_fuel_step E fuel fuel _ _ _ _ _ h

theorem take_fuel_step (E : Env S) (fuel : Nat) : ∀ (k : Nat) (g : Gen S) (acc : List Prog) (r : Gen S × List Prog × Bool),
    take E fuel k g acc = some r → take E (fuel + 1) k g acc = some r := by
  intro k
  induction k with
  | zero => intro g acc r h; simp only [take] at h ⊢; exact h
  | succ k ih =>
    intro g acc r h
    simp only [take] at h ⊢
    cases hn : next E fuel g with
    | none => simp [hn] at h
    | some x =>
      rw [next_fuel_step E fuel g _ hn]
      simp only [hn] at h
      obtain ⟨g', op⟩ := x
      cases op with
      | none => exact h
      | some p => exact ih _ _ _ h

/-- **the result of a run does not depend on the fuel**: a run of `take k` that returns with fuel `fuel` returns the
    same generator, the same programs and the same flag with every larger fuel -/
theorem take_fuel_mono (E : Env S) (k : Nat) (g : Gen S) (acc : List Prog) (r : Gen S × List Prog × Bool) :
    ∀ (fuel fuel' : Nat), fuel ≤ fuel' → take E fuel k g acc = some r → take E fuel' k g acc = some r := by
  intro fuel fuel' hle h
  obtain ⟨d, rfl⟩ := Nat.exists_eq_add_of_le hle
  induction d with
  | zero => exact h
  | succ d ih => exact take_fuel_step E (fuel + d) k g acc r (ih (Nat.le_add_right _ _))

end PS.Beap
