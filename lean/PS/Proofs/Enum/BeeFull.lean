/- Bee search, COMPLETENESS along runs without merge declarations (any filter): all invariants together, the
   start bank is exactly what was yielded, prefix completeness, and completeness of a stopped generator of the
   repaired variant (`Env.fixF11`: stop when the cheapest queued cost exceeds the maximal program cost). -/
import PS.Proofs.Enum.BeeBelow
namespace PS.Bee
open PS PS.G

variable {S : Type} [DecidableEq S]
set_option linter.unusedSectionVars false
set_option linter.unusedSimpArgs false

/-- the static hypotheses (all decidable on a literal case, see `hyp_of_checks`) -/
structure Hyp (E : Env S) : Prop where
  nnw : NNW E
  pos : PosArgs E
  costs : HasCosts E
  dict : DictOK E
  front : initFrontOK E = true
  cover : initCoverOK E = true

theorem hyp_of_checks (E : Env S) (h1 : nonnegW E = true) (h2 : posArgCosts E = true) (h3 : hasCosts E = true)
    (h4 : dictOK E = true) (h5 : initFrontOK E = true) (h6 : initCoverOK E = true) : Hyp E :=
  ⟨nnw_of_check E h1, posArgs_of_check E h2, hasCosts_of_check E h3, dictOK_of_check E h4, h5, h6⟩

/-- every accepted member of the start symbol (below the maximal cost, when one is given) is in the start bank -/
def Stopped (E : Env S) (g : Gen S) : Prop :=
  ∀ p, gen E.G p E.G.start = true → Strict E p → (∀ m, E.maxCost = some m → pcost E p E.G.start ≤ m) →
    ∃ ci, inBank g.st E.G.start ci p

structure All (E : Env S) (g : Gen S) : Prop where
  sound : GInv E g
  nodup : GN E g
  cov : CovSt E g.st
  ord : ∃ b, GOrd E g b
  comp : GC E g
  stop : g.phase.isDone = true → Stopped E g

theorem nextCheapestLoop_nonempty : ∀ (tab : AList (NT S Unit) (List HeapElem)) (cont : List (NT S Unit)) (ch : Option Int)
    (nts : List (NT S Unit)) (c : Int), (ch.isSome = true → cont ≠ []) → nextCheapestLoop tab cont ch = (nts, some c) → nts ≠ [] := by
  intro tab
  induction tab with
  | nil =>
    intro cont ch nts c hinv h
    simp only [nextCheapestLoop, Prod.mk.injEq] at h
    obtain ⟨rfl, rfl⟩ := h
    exact hinv rfl
  | cons e rest ih =>
    intro cont ch nts c hinv h
    obtain ⟨nt, heap⟩ := e
    cases heap with
    | nil => simp only [nextCheapestLoop] at h; exact ih _ _ _ _ hinv h
    | cons item tl =>
      simp only [nextCheapestLoop] at h
      cases ch with
      | none => simp only at h; exact ih _ _ _ _ (fun _ => by simp) h
      | some x =>
        simp only at h
        by_cases hle : item.cost ≤ x
        · rw [if_pos hle] at h
          by_cases hlt : item.cost < x
          · rw [if_pos hlt] at h; exact ih _ _ _ _ (fun _ => by simp) h
          · rw [if_neg hlt] at h; exact ih _ _ _ _ (fun _ => by simp) h
        · rw [if_neg hle] at h; exact ih _ _ _ _ hinv h

theorem nextCheapestLoop_none : ∀ (tab : AList (NT S Unit) (List HeapElem)) (cont : List (NT S Unit)) (ch : Option Int)
    (nts : List (NT S Unit)), nextCheapestLoop tab cont ch = (nts, none) → ∀ nt l, (nt, l) ∈ tab → l = [] := by
  intro tab
  induction tab with
  | nil => intro cont ch nts _ nt l hm; cases hm
  | cons e rest ih =>
    intro cont ch nts h nt l hm
    obtain ⟨nt0, heap⟩ := e
    cases heap with
    | nil =>
      simp only [nextCheapestLoop] at h
      rcases List.mem_cons.mp hm with hm | hm
      · cases hm; rfl
      · exact ih _ _ _ h nt l hm
    | cons item tl =>
      exfalso
      simp only [nextCheapestLoop] at h
      -- once a cost is found the answer is `some`
      have key : ∀ (tab : AList (NT S Unit) (List HeapElem)) (cont : List (NT S Unit)) (x : Int) (nts : List (NT S Unit)),
          nextCheapestLoop tab cont (some x) ≠ (nts, none) := by
        intro tab
        induction tab with
        | nil => intro cont x nts hh; simp [nextCheapestLoop] at hh
        | cons e r ih2 =>
          intro cont x nts hh
          obtain ⟨n1, hp⟩ := e
          cases hp with
          | nil => simp only [nextCheapestLoop] at hh; exact ih2 _ _ _ hh
          | cons it t2 =>
            simp only [nextCheapestLoop] at hh
            by_cases hle : it.cost ≤ x
            · rw [if_pos hle] at hh
              by_cases hlt : it.cost < x
              · rw [if_pos hlt] at hh; exact ih2 _ _ _ hh
              · rw [if_neg hlt] at hh; exact ih2 _ _ _ hh
            · rw [if_neg hle] at hh; exact ih2 _ _ _ hh
      cases ch with
      | none => simp only at h; exact key _ _ _ _ h
      | some x =>
        simp only at h
        by_cases hle : item.cost ≤ x
        · rw [if_pos hle] at h
          by_cases hlt : item.cost < x
          · rw [if_pos hlt] at h; exact key _ _ _ _ h
          · rw [if_neg hlt] at h; exact key _ _ _ _ h
        · rw [if_neg hle] at h; exact key _ _ _ _ h

/-- the OSt of a state, whatever the phase -/
theorem ost_of_gord (E : Env S) (g : Gen S) (b : Int) (h : GOrd E g b) : ∃ low, OSt E g.st low := by
  unfold GOrd at h
  cases hc : g.phase.cost? with
  | none => simp only [hc] at h; obtain ⟨low, h1, _⟩ := h; exact ⟨low, h1⟩
  | some c => simp only [hc] at h; exact ⟨c, h.1⟩

/-- the start bank only receives what is yielded -/
theorem step_bank_start (E : Env S) (g g' : Gen S) (out : Option Prog) (h : step E g = some (g', out)) :
    ∀ ci q, inBank g'.st E.G.start ci q → inBank g.st E.G.start ci q ∨ out = some q := by
  intro ci q hin
  unfold step at h
  split at h
  · simp only [Option.some.injEq, Prod.mk.injEq] at h; obtain ⟨rfl, _⟩ := h; exact Or.inl hin
  · simp only [Option.some.injEq, Prod.mk.injEq] at h; obtain ⟨rfl, _⟩ := h; exact Or.inl hin
  · dsimp only at h
    split at h
    · split at h
      all_goals (repeat' (split at h))
      all_goals
        simp only [Option.some.injEq, Prod.mk.injEq] at h; obtain ⟨rfl, _⟩ := h; exact Or.inl hin
    · simp only [Option.some.injEq, Prod.mk.injEq] at h; obtain ⟨rfl, _⟩ := h; exact Or.inl hin
  · simp only [Option.some.injEq, Prod.mk.injEq] at h; obtain ⟨rfl, _⟩ := h; exact Or.inl hin
  · simp only at h
    split at h
    · simp at h
    · rename_i s1 ci' hac
      simp only [Option.some.injEq, Prod.mk.injEq] at h; obtain ⟨rfl, _⟩ := h
      obtain ⟨_, hbank, _⟩ := addCost_all E (fun _ _ => True) (fun _ _ => True) (fun _ _ => True) (fun _ _ => True)
        (fun _ _ => True) _ s1 _ ci' hac (fun _ _ _ => trivial) (fun _ _ _ => trivial) (fun _ _ _ _ _ _ _ _ => trivial)
        (fun _ _ _ _ _ _ => trivial) (fun _ _ _ _ _ => trivial) (fun _ _ _ _ _ => trivial)
      exact Or.inl ((inBank_of_bank_eq (s := g.st) hbank _ _ _).mp hin)
  · simp only at h
    split at h
    · simp only [Option.some.injEq, Prod.mk.injEq] at h; obtain ⟨rfl, _⟩ := h; exact Or.inl hin
    · split at h
      · split at h
        · simp at h
        · split at h
          · simp at h
          · split at h
            · simp at h
            · rename_i s2 maxi' hsl
              have hqd := (succLoop_all E (fun _ _ => True) (fun _ _ => True) _ _ _ _
                (fun _ _ _ _ _ _ => trivial) (fun _ _ _ _ => trivial) _ _ _ _ _ _ hsl rfl (fun _ _ _ _ _ => trivial)
                (fun _ _ _ _ _ => trivial)).1
              have hb : s2.bank = g.st.bank := hqd.bank
              split at h
              · simp at h
              · simp only [Option.some.injEq, Prod.mk.injEq] at h; obtain ⟨rfl, _⟩ := h
                exact Or.inl ((inBank_of_bank_eq hb _ _ _).mp hin)
              · simp only [Option.some.injEq, Prod.mk.injEq] at h; obtain ⟨rfl, _⟩ := h
                exact Or.inl ((inBank_of_bank_eq hb _ _ _).mp hin)
      · simp only [Option.some.injEq, Prod.mk.injEq] at h; obtain ⟨rfl, _⟩ := h; exact Or.inl hin
  · simp only [Option.some.injEq, Prod.mk.injEq] at h; obtain ⟨rfl, _⟩ := h; exact Or.inl hin
  · rename_i succ cost nt rest maxi ci' p ps hph
    rcases bankOf_addProgram E g.st nt p ci' with ⟨hno, hb⟩ | ⟨hyes, hb1, hb2⟩
    · cases hap : addProgram E g.st nt p ci' with | mk s1 added =>
      rw [hap] at hno hb
      simp only [hap] at h
      simp only at hno; subst hno
      simp only [Bool.false_and, Bool.false_eq_true, if_false, Option.some.injEq, Prod.mk.injEq] at h
      obtain ⟨rfl, _⟩ := h
      exact Or.inl ((inBank_of_bank_eq hb _ _ _).mp hin)
    · cases hap : addProgram E g.st nt p ci' with | mk s1 added =>
      rw [hap] at hyes hb1 hb2
      simp only [hap] at h
      simp only at hyes; subst hyes
      by_cases hnt : nt = E.G.start
      · subst hnt
        simp only [Bool.true_and, decide_true, if_true, Option.some.injEq, Prod.mk.injEq] at h
        obtain ⟨rfl, rfl⟩ := h
        unfold inBank at hin
        rw [hb1] at hin
        rcases (inBank_append _ ci' ci p q).mp hin with h1 | ⟨_, h1⟩
        · exact Or.inl h1
        · exact Or.inr (by rw [h1])
      · simp only [Bool.true_and, hnt, decide_false, Bool.false_eq_true, if_false, Option.some.injEq, Prod.mk.injEq] at h
        obtain ⟨rfl, _⟩ := h
        unfold inBank at hin
        rw [hb2 _ (fun e => hnt e.symm)] at hin
        exact Or.inl hin


/-- the generator only becomes done at the `while` test, and then for one of two reasons -/
theorem step_to_done (E : Env S) (hfix : E.fixF11 = true) (g g' : Gen S) (out : Option Prog) (h : step E g = some (g', out))
    (hd : g'.phase.isDone = true) :
    (g.phase.isDone = true ∧ g' = g) ∨
    (g'.st = g.st ∧ ((∀ nt l, (nt, l) ∈ g.st.queued → l = []) ∨
      ∃ c nts, nextCheapest g.st = (nts, some c) ∧ stopAt E c = true)) := by
  unfold step at h
  split at h
  · rename_i hph
    simp only [Option.some.injEq, Prod.mk.injEq] at h; obtain ⟨rfl, _⟩ := h
    exact Or.inl ⟨by rw [hph]; rfl, rfl⟩
  · simp only [Option.some.injEq, Prod.mk.injEq] at h; obtain ⟨rfl, _⟩ := h; simp [Phase.isDone] at hd
  · dsimp only at h
    rw [hfix] at h
    simp only [Bool.true_or, if_true] at h
    split at h
    · rename_i nts hnc
      simp only [Option.some.injEq, Prod.mk.injEq] at h; obtain ⟨rfl, _⟩ := h
      exact Or.inr ⟨rfl, Or.inl (nextCheapestLoop_none _ _ _ _ hnc)⟩
    · rename_i c hnc
      exfalso
      exact nextCheapestLoop_nonempty _ _ _ _ c (by simp) hnc rfl
    · rename_i nt nts cost hnc
      split at h
      · rename_i hstop
        simp only [Option.some.injEq, Prod.mk.injEq] at h; obtain ⟨rfl, _⟩ := h
        exact Or.inr ⟨rfl, Or.inr ⟨cost, _, hnc, hstop⟩⟩
      · simp only [Option.some.injEq, Prod.mk.injEq] at h; obtain ⟨rfl, _⟩ := h; simp [Phase.isDone] at hd
  · simp only [Option.some.injEq, Prod.mk.injEq] at h; obtain ⟨rfl, _⟩ := h; simp [Phase.isDone] at hd
  · simp only at h
    split at h
    · simp at h
    · simp only [Option.some.injEq, Prod.mk.injEq] at h; obtain ⟨rfl, _⟩ := h; simp [Phase.isDone] at hd
  · simp only at h
    split at h
    · simp only [Option.some.injEq, Prod.mk.injEq] at h; obtain ⟨rfl, _⟩ := h; simp [Phase.isDone] at hd
    · split at h
      · split at h
        · simp at h
        · split at h
          · simp at h
          · split at h
            · simp at h
            · split at h
              · simp at h
              · simp only [Option.some.injEq, Prod.mk.injEq] at h; obtain ⟨rfl, _⟩ := h; simp [Phase.isDone] at hd
              · simp only [Option.some.injEq, Prod.mk.injEq] at h; obtain ⟨rfl, _⟩ := h; simp [Phase.isDone] at hd
      · simp only [Option.some.injEq, Prod.mk.injEq] at h; obtain ⟨rfl, _⟩ := h; simp [Phase.isDone] at hd
  · simp only [Option.some.injEq, Prod.mk.injEq] at h; obtain ⟨rfl, _⟩ := h; simp [Phase.isDone] at hd
  · rename_i succ cost nt rest maxi ci p ps hph
    cases hap : addProgram E g.st nt p ci with | mk s1 added =>
    simp only [hap] at h
    split at h
    all_goals
      simp only [Option.some.injEq, Prod.mk.injEq] at h; obtain ⟨rfl, _⟩ := h; simp [Phase.isDone] at hd

theorem offered_cost (E : Env S) (g : Gen S) (hi : GInv E g) (nt : NT S Unit) (p : Prog) (h : Offered g nt p) :
    g.phase.cost? = some (pcost E p nt) := by
  have hph := hi.ph
  unfold Offered at h
  cases hp : g.phase with
  | pend succ cost nt' rest maxi ci pending =>
    rw [hp] at h hph
    simp only at h
    obtain ⟨rfl, hm⟩ := h
    simp only [PhaseOK] at hph
    simp [Phase.cost?, (hph.2 p hm).2]
  | _ => rw [hp] at h; simp at h

/-- **one step keeps everything**; a yielded program: every cheaper accepted member is already in the start bank -/
theorem step_all (E : Env S) (H : Hyp E) (hfix : E.fixF11 = true) (g g' : Gen S) (out : Option Prog)
    (h : step E g = some (g', out)) (ha : All E g) :
    All E g' ∧ ∀ q, out = some q → ∀ p, gen E.G p E.G.start = true → Strict E p →
      pcost E p E.G.start < pcost E q E.G.start → ∃ ci, inBank g.st E.G.start ci p := by
  obtain ⟨b, hob⟩ := ha.ord
  obtain ⟨hs', hyield⟩ := step_sound E g g' out h ha.sound
  obtain ⟨hn', _, _⟩ := step_nodup E g g' out h ha.nodup
  have hcov' := step_cover E g g' out h ha.nodup ha.cov
  have ho' := step_order E H.nnw g g' out b h ha.sound hob
  have hc' := step_comp E H.pos g g' out b h ha.sound ha.nodup hob ha.comp
  refine ⟨⟨hs', hn', hcov', ⟨b, ho'⟩, hc', ?_⟩, ?_⟩
  · intro hd
    rcases step_to_done E hfix g g' out h hd with ⟨hd0, rfl⟩ | ⟨hst, hreason⟩
    · exact ha.stop hd0
    · intro p hgen hstrict hmax
      obtain ⟨low, hos⟩ := ost_of_gord E g' b ho'
      have hoff : ∀ (L : Int) nt q, Offered g' nt q → L ≤ pcost E q nt := by
        intro L nt q hq
        unfold Offered at hq
        cases hp : g'.phase <;> rw [hp] at hq hd <;> simp [Phase.isDone] at hq hd
      rcases hreason with hempty | ⟨c, nts, hnc, hstop⟩
      · exact bank_complete E H.nnw H.pos H.costs g' hs' hcov' hc' low hos (pcost E p E.G.start + 1)
          (fun nt l hm e he => by rw [hst] at hm; rw [hempty nt l hm] at he; cases he) (hoff _) _ p E.G.start (Nat.le_refl _)
          hgen hstrict (by omega)
      · unfold stopAt at hstop
        rw [hfix] at hstop
        cases hm : E.maxCost with
        | none => simp [hm] at hstop
        | some m =>
          simp only [hm, Bool.true_and, decide_eq_true_eq] at hstop
          have hpm := hmax m hm
          have hmin := (nextCheapest_min g.st (by rw [← hst]; exact hos.heaps) nts c hnc).1
          exact bank_complete E H.nnw H.pos H.costs g' hs' hcov' hc' low hos c
            (fun nt l hmm e he => by rw [hst] at hmm; exact hmin nt l hmm e he) (hoff _) _ p E.G.start (Nat.le_refl _)
            hgen hstrict (by omega)
  · intro q hq p hgen hstrict hlt
    obtain ⟨_, hcq, _, _⟩ := hyield q hq
    -- the state before the yield: every queued / offered program costs at least the cost of the round
    have hor := hob
    unfold GOrd at hor
    rw [hcq] at hor
    simp only at hor
    exact bank_complete E H.nnw H.pos H.costs g ha.sound ha.cov ha.comp _ hor.1 (pcost E q E.G.start)
      (fun nt l hm e he => (hor.1.q nt l hm e he).1)
      (fun nt x hx => by
        have := offered_cost E g ha.sound nt x hx
        rw [hcq] at this
        have e : pcost E q E.G.start = pcost E x nt := Option.some.inj this
        omega)
      _ p E.G.start (Nat.le_refl _) hgen hstrict hlt

end PS.Bee
