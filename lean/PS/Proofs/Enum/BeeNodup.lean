/- Bee search, NO DUPLICATES (without merge declarations, any filter): the pending combinations of every rule form
   a frontier of the successor forest, every program of a bank was built from an expanded combination whose
   argument programs sit in the argument banks at the combination's indices, and a program occurs at most once
   in the bank of a non-terminal.  Hence a program is added to a bank at most once and yielded at most once. -/
import PS.Proofs.Enum.BeePend
import PS.Proofs.Enum.BeeSoundRun
import PS.Proofs.Enum.HeapRoot
namespace PS.Bee
open PS PS.G

variable {S : Type} [DecidableEq S]
set_option linter.unusedSectionVars false
set_option linter.unusedSimpArgs false

/-- `p` is in `_bank[nt][ci]` -/
def inBank (s : St S) (nt : NT S Unit) (ci : Nat) (p : Prog) : Prop :=
  ∃ ps, AList.lookup ci (s.bankOf nt) = some ps ∧ p ∈ ps

/-- where a banked program comes from: an expanded combination of its rule, argument `i` in the bank of the
    argument's non-terminal at index `c[i]` -/
def Src (E : Env S) (s : St S) (nt : NT S Unit) (p : Prog) : Prop :=
  ∃ P kids args c, p = .node P kids ∧ ruleArgs E nt P = some args ∧ c.length = args.length ∧
    kids.length = args.length ∧ Done (pend s nt P) c ∧
    ∀ (i : Nat) (a : Ty × S) (k : Prog) (v : Nat), args[i]? = some a → kids[i]? = some k → c[i]? = some v →
      inBank s (a.1, (a.2, ())) v k

/-- well-formed queued / delayed combinations: as long as the arity of their rule -/
def QWf (E : Env S) : NT S Unit → HeapElem → Prop := fun nt e =>
  ∃ args, ruleArgs E nt e.P = some args ∧ e.combo.length = args.length
def DWf (E : Env S) : NT S Unit → Delayed → Prop := fun nt d =>
  ∃ args, ruleArgs E nt d.2.1 = some args ∧ d.1.length = args.length

structure NSt (E : Env S) (s : St S) : Prop where
  wfq : QAll (QWf E) s
  wfd : DAll (DWf E) s
  front : ∀ nt P, Frontier (pend s nt P)
  bankNd : ∀ nt ci ps, AList.lookup ci (s.bankOf nt) = some ps → ps.Nodup
  bankU : ∀ nt ci cj p, inBank s nt ci p → inBank s nt cj p → ci = cj
  src : ∀ nt ci p, inBank s nt ci p → Src E s nt p

theorem src_frame (E : Env S) {s s' : St S} (hbank : s'.bank = s.bank)
    (hp : ∀ nt P, (pend s' nt P).Perm (pend s nt P)) {nt : NT S Unit} {p : Prog} (h : Src E s nt p) : Src E s' nt p := by
  obtain ⟨P, kids, args, c, h1, h2, h3, h4, h5, h6⟩ := h
  refine ⟨P, kids, args, c, h1, h2, h3, h4, h5.perm (hp nt P), ?_⟩
  intro i a k v ha hk hv
  have := h6 i a k v ha hk hv
  unfold inBank St.bankOf at this ⊢
  rw [hbank]; exact this

/-- frame: the banks unchanged, the pending combinations permuted -/
theorem nst_frame (E : Env S) {s s' : St S} (hbank : s'.bank = s.bank)
    (hp : ∀ nt P, (pend s' nt P).Perm (pend s nt P)) (hq : QAll (QWf E) s') (hd : DAll (DWf E) s') (h : NSt E s) :
    NSt E s' := by
  have hb : ∀ nt, s'.bankOf nt = s.bankOf nt := fun nt => by unfold St.bankOf; rw [hbank]
  refine ⟨hq, hd, fun nt P => (h.front nt P).perm (hp nt P), ?_, ?_, ?_⟩
  · intro nt ci ps hl; rw [hb] at hl; exact h.bankNd nt ci ps hl
  · intro nt ci cj p h1 h2
    unfold inBank at h1 h2; rw [hb] at h1 h2; exact h.bankU nt ci cj p h1 h2
  · intro nt ci p h1
    have h1' : inBank s nt ci p := by unfold inBank at h1 ⊢; rw [hb] at h1; exact h1
    exact src_frame E hbank hp (h.src nt ci p h1')

/-! ### the product of the argument banks -/

theorem product_nodup {α : Type} : ∀ (aps : List (List α)), (∀ l ∈ aps, l.Nodup) → (product aps).Nodup
  | [], _ => by simp [product]
  | l :: ls, h => by
    have hls := product_nodup ls (fun l' hl' => h l' (List.mem_cons_of_mem _ hl'))
    have hl := h l List.mem_cons_self
    simp only [product]
    clear h
    induction l with
    | nil => simp
    | cons x xs ih =>
      simp only [List.flatMap_cons]
      rw [List.nodup_append]
      have hx := List.nodup_cons.mp hl
      refine ⟨?_, ih hx.2, ?_⟩
      · exact List.Pairwise.map (x :: ·) (fun a b hab h => hab (by simpa using h)) hls
      · intro a ha b hb hab
        subst hab
        simp only [List.mem_map] at ha
        obtain ⟨r, _, rfl⟩ := ha
        simp only [List.mem_flatMap, List.mem_map] at hb
        obtain ⟨y, hy, r', _, hr'⟩ := hb
        simp only [List.cons.injEq] at hr'
        exact hx.1 (hr'.1 ▸ hy)

/-- what `argsPossibles` delivers: lists of the argument banks at the indices of the combination -/
theorem argsPossibles_spec (s : St S) (combo : List Nat) :
    ∀ (args : List (Ty × S)) (i : Nat) (aps : List (List Prog)), argsPossibles s combo args i = some (some aps) →
      (∀ l ∈ aps, ∃ nt ci, AList.lookup ci (s.bankOf nt) = some l) ∧
      ∀ kids ∈ product aps, kids.length = args.length ∧
        ∀ (j : Nat) (a : Ty × S) (k : Prog) (v : Nat), args[j]? = some a → kids[j]? = some k → combo[i + j]? = some v →
          inBank s (a.1, (a.2, ())) v k := by
  intro args
  induction args with
  | nil =>
    intro i aps h
    simp only [argsPossibles, Option.some.injEq] at h; subst h
    refine ⟨by simp, ?_⟩
    intro kids hk
    simp only [product, List.mem_singleton] at hk; subst hk
    exact ⟨rfl, fun j a k v ha => by simp at ha⟩
  | cons a rest ih =>
    intro i aps h
    obtain ⟨t, sx⟩ := a
    simp only [argsPossibles] at h
    cases hl : AList.lookup (t, (sx, ())) s.bank with
    | none => simp [hl] at h
    | some localBank =>
      simp only [hl] at h
      cases hc : combo[i]? with
      | none => simp [hc] at h
      | some ci =>
        simp only [hc] at h
        cases hci : AList.lookup ci localBank with
        | none => simp [hci] at h
        | some ps =>
          cases ps with
          | nil => simp [hci] at h
          | cons p ps =>
            simp only [hci] at h
            cases hrec : argsPossibles s combo rest (i + 1) with
            | none => simp [hrec] at h
            | some r =>
              cases r with
              | none => simp [hrec] at h
              | some r =>
                simp only [hrec, Option.some.injEq] at h; subst h
                obtain ⟨ih1, ih2⟩ := ih (i + 1) r hrec
                have hbo : s.bankOf (t, (sx, ())) = localBank := by simp [St.bankOf, hl]
                refine ⟨?_, ?_⟩
                · intro l hlm
                  rcases List.mem_cons.mp hlm with hlm | hlm
                  · subst hlm; exact ⟨(t, (sx, ())), ci, by rw [hbo]; exact hci⟩
                  · exact ih1 l hlm
                · intro kids hk
                  simp only [product, List.mem_flatMap, List.mem_map] at hk
                  obtain ⟨x, hx, kids', hk', rfl⟩ := hk
                  obtain ⟨hlen, hin⟩ := ih2 kids' hk'
                  refine ⟨by simp [hlen], ?_⟩
                  intro j a k v ha hkk hv
                  cases j with
                  | zero =>
                    simp only [List.getElem?_cons_zero, Option.some.injEq] at ha hkk
                    subst ha; subst hkk
                    simp only [Nat.add_zero] at hv
                    rw [hc] at hv; cases hv
                    exact ⟨p :: ps, by rw [hbo]; exact hci, hx⟩
                  | succ j =>
                    simp only [List.getElem?_cons_succ] at ha hkk
                    have : i + (j + 1) = i + 1 + j := by omega
                    rw [this] at hv
                    exact hin j a k v ha hkk hv

/-! ### `_add_program_` -/

theorem bankOf_addProgram (E : Env S) (s : St S) (nt : NT S Unit) (p : Prog) (ci : Nat) :
    ((addProgram E s nt p ci).2 = false ∧ (addProgram E s nt p ci).1.bank = s.bank) ∨
    ((addProgram E s nt p ci).2 = true ∧
      (addProgram E s nt p ci).1.bankOf nt = bankAppend (s.bankOf nt) ci p ∧
      ∀ nt', nt' ≠ nt → (addProgram E s nt p ci).1.bankOf nt' = s.bankOf nt') := by
  unfold addProgram
  split
  · exact Or.inl ⟨rfl, rfl⟩
  · split
    · exact Or.inl ⟨rfl, rfl⟩
    · refine Or.inr ⟨rfl, ?_, ?_⟩
      · simp [St.bankOf, AList.lookup_insert_self]
      · intro nt' hne
        simp only [St.bankOf]
        rw [AList.lookup_insert_ne _ _ hne]

theorem addProgram_frame (E : Env S) (s : St S) (nt : NT S Unit) (p : Prog) (ci : Nat) :
    (addProgram E s nt p ci).1.queued = s.queued ∧ (addProgram E s nt p ci).1.delayed = s.delayed ∧
    (addProgram E s nt p ci).1.costList = s.costList := by
  unfold addProgram
  split
  · exact ⟨rfl, rfl, rfl⟩
  · split <;> exact ⟨rfl, rfl, rfl⟩

theorem inBank_append (b : AList Nat (List Prog)) (ci cj : Nat) (p q : Prog) :
    (∃ ps, AList.lookup cj (bankAppend b ci p) = some ps ∧ q ∈ ps) ↔
      (∃ ps, AList.lookup cj b = some ps ∧ q ∈ ps) ∨ (cj = ci ∧ q = p) := by
  unfold bankAppend
  rw [AList.lookup_insert]
  by_cases hc : cj = ci
  · subst hc
    simp only [if_true, Option.some.injEq, exists_eq_left', List.mem_append, List.mem_singleton, true_and]
    cases hl : AList.lookup cj b with
    | none => simp
    | some l => simp
  · simp [hc]


theorem src_mono (E : Env S) {s s' : St S} (hin : ∀ nt ci p, inBank s nt ci p → inBank s' nt ci p)
    (hdone : ∀ nt P c, Done (pend s nt P) c → Done (pend s' nt P) c) {nt : NT S Unit} {p : Prog}
    (h : Src E s nt p) : Src E s' nt p := by
  obtain ⟨P, kids, args, c, h1, h2, h3, h4, h5, h6⟩ := h
  exact ⟨P, kids, args, c, h1, h2, h3, h4, hdone nt P c h5, fun i a k v ha hk hv => hin _ _ _ (h6 i a k v ha hk hv)⟩

/-- the candidate programs of a suspended product: pairwise distinct, not yet in the bank, with a source -/
def PendOK (E : Env S) (s : St S) (nt : NT S Unit) (pending : List Prog) : Prop :=
  pending.Nodup ∧ ∀ p ∈ pending, (∀ cj, ¬ inBank s nt cj p) ∧ Src E s nt p

def PhaseN (E : Env S) (s : St S) : Phase S → Prop
  | .pend _ _ nt _ _ _ pending => PendOK E s nt pending
  | _ => True

structure GN (E : Env S) (g : Gen S) : Prop where
  st : NSt E g.st
  ph : PhaseN E g.st g.phase

theorem qwf_set (E : Env S) (nt : NT S Unit) (c : Int) (combo : List Nat) (P : Sym) (i v : Nat)
    (h : QWf E nt ⟨c, combo, P⟩) (c' : Int) : QWf E nt ⟨c', combo.set i v, P⟩ := by
  obtain ⟨args, h1, h2⟩ := h
  exact ⟨args, h1, by simpa using h2⟩

/-- the pop of the cheapest element of `nt` followed by the successor loop: the frontier of every rule is kept,
    the popped combination is done, everything done stays done, the banks are untouched -/
theorem pop_expand (E : Env S) (s s2 : St S) (nt : NT S Unit) (top : HeapElem) (q' : List HeapElem)
    (args : List (Ty × S)) (maxi maxi' : Nat) (h : NSt E s)
    (hpop : Heapq.pop ltE (s.queueOf nt) = some (top, q')) (hargs : ruleArgs E nt top.P = some args)
    (hsl : succLoop E nt top.P top.combo 0 args.length (s.setQueue nt q') maxi = some (s2, maxi')) :
    s2.bank = s.bank ∧ QAll (QWf E) s2 ∧ DAll (DWf E) s2 ∧ (∀ nt' P', Frontier (pend s2 nt' P')) ∧
    (∀ nt' P' c, Done (pend s nt' P') c → Done (pend s2 nt' P') c) ∧ Done (pend s2 nt top.P) top.combo ∧
    top.combo ∈ pend s nt top.P ∧ top.combo.length = args.length ∧
    (∀ nt' P' c, Cov (pend s nt' P') c → Cov (pend s2 nt' P') c) := by
  have hperm := Heapq.pop_perm ltE _ _ _ hpop
  have htop : top ∈ s.queueOf nt := hperm.mem_iff.mpr List.mem_cons_self
  obtain ⟨l0, hl0, he0⟩ := queueOf_mem htop
  obtain ⟨args', ha', hlen⟩ := h.wfq _ _ hl0 _ he0
  rw [hargs] at ha'; cases ha'
  -- well-formedness after the pop and the loop
  have hq1 : QAll (QWf E) (s.setQueue nt q') := by
    intro nt' l hm e he
    rcases mem_insert hm with hm | hm
    · cases hm
      have : e ∈ s.queueOf nt := hperm.mem_iff.mpr (List.mem_cons_of_mem _ he)
      obtain ⟨l1, hl1, he1⟩ := queueOf_mem this
      exact h.wfq _ _ hl1 _ he1
    · exact h.wfq _ _ hm _ he
  obtain ⟨hqd, hq2, hd2⟩ := succLoop_all E (QWf E) (DWf E) nt top.P top.combo (s.setQueue nt q').costList
    (fun i v c _ _ _ => ⟨args, hargs, by simpa using hlen⟩) (fun i v _ _ => ⟨args, hargs, by simpa using hlen⟩)
    _ _ _ _ _ _ hsl rfl hq1 h.wfd
  -- the pending combinations
  obtain ⟨rest, p1, p2, p3⟩ := pend_setQueue s nt q'
  have hsl' : succLoop E nt top.P ([] ++ top.combo) ([] : List Nat).length top.combo.length (s.setQueue nt q') maxi = some (s2, maxi') := by
    simpa [hlen] using hsl
  have hpend2 := succLoop_pend E nt top.P top.combo [] _ _ _ _ hsl'
  have hq : ∀ P, (qcmb P (s.queueOf nt)).Perm ((if top.P = P then [top.combo] else []) ++ qcmb P q') := by
    intro P
    refine (qcmb_perm P hperm).trans ?_
    by_cases hP : top.P = P <;> simp [qcmb, hP]
  have hF0 : (pend s nt top.P).Perm (top.combo :: pend (s.setQueue nt q') nt top.P) := by
    rw [p1, p2]
    have := (hq top.P).append_right (qcmb top.P rest ++ dcmb top.P (allOf nt s.delayed))
    simpa using this
  have h2 : (pend s2 nt top.P).Perm (CD.succs top.combo ++ pend (s.setQueue nt q') nt top.P) := by
    have := hpend2 nt top.P
    simpa using this
  obtain ⟨e1, e2, e3⟩ := Frontier.expand top.combo (pend s2 nt top.P) ((h.front nt top.P).perm hF0.symm) h2
  have hother : ∀ nt' P', ¬ (nt' = nt ∧ P' = top.P) → (pend s2 nt' P').Perm (pend s nt' P') := by
    intro nt' P' hne
    have := hpend2 nt' P'
    simp only [hne, if_false, List.nil_append] at this
    refine this.trans ?_
    by_cases hn : nt' = nt
    · subst hn
      have hP : ¬ top.P = P' := fun e => hne ⟨rfl, e.symm⟩
      rw [p1, p2]
      have := (hq P').append_right (qcmb P' rest ++ dcmb P' (allOf nt' s.delayed))
      simp only [hP, if_false, List.nil_append] at this
      exact this.symm
    · rw [p3 nt' P' hn]
  refine ⟨hqd.bank, hq2, hd2, ?_, ?_, e2, hF0.mem_iff.mpr List.mem_cons_self, hlen, ?_⟩
  · intro nt' P'
    by_cases hc : nt' = nt ∧ P' = top.P
    · obtain ⟨rfl, rfl⟩ := hc; exact e1
    · exact (h.front nt' P').perm (hother nt' P' hc)
  · intro nt' P' c hd
    by_cases hc : nt' = nt ∧ P' = top.P
    · obtain ⟨rfl, rfl⟩ := hc; exact e3 c (hd.perm hF0.symm)
    · exact hd.perm (hother nt' P' hc)
  · intro nt' P' c hd
    by_cases hc : nt' = nt ∧ P' = top.P
    · obtain ⟨rfl, rfl⟩ := hc
      exact Cov.expand top.combo (pend s2 nt' top.P) ((h.front nt' top.P).perm hF0.symm) h2 (hd.perm hF0.symm)
    · exact hd.perm (hother nt' P' hc)

theorem inBank_of_bank_eq {s s' : St S} (hb : s'.bank = s.bank) (nt : NT S Unit) (ci : Nat) (p : Prog) :
    inBank s' nt ci p ↔ inBank s nt ci p := by
  unfold inBank St.bankOf; rw [hb]

end PS.Bee
