/- No duplicates in beap search, part 2: the state invariant.  A ghost table `pp` records, per
   non-terminal, the (rule, combination) pairs popped so far.
   * K1 the pairs in the queue and the popped pairs are pairwise distinct;
   * K2 every non-zero combination in the queue or popped has its `Succ`-predecessor among the popped ones;
   * K3 every program of a bank was built from a popped pair and a tuple taken from the banks of the arguments;
   * K4 every bank entry is duplicate-free. -/
import PS.Proofs.Enum.BeapNodupBase
namespace PS.Beap
open PS PS.G PS.Heapq
set_option linter.unusedSectionVars false
variable {S : Type} [DecidableEq S]

abbrev Ghost (S : Type) := NT S Unit → List (Sym × List Nat)

structure NI (E : Env S) (s : St S) (pp : Ghost S) : Prop where
  k1 : ∀ nt, ((s.queueOf nt).map key2 ++ pp nt).Nodup
  k2 : ∀ nt P t, (P, t) ∈ (s.queueOf nt).map key2 ++ pp nt → (∀ j, t.getD j 0 = 0) ∨ ∃ c, (P, c) ∈ pp nt ∧ Succ c t
  k3 : ∀ nt ci p, p ∈ s.bankAt nt ci → ∃ P comb a rl, (P, comb) ∈ pp nt ∧ E.G.rule? nt P = some rl ∧
    p = mkProg P (!(rl.1.map ntOf).isEmpty) a ∧ Prov s rl.1 comb a
  k4 : ∀ nt ci, (s.bankAt nt ci).Nodup

def BankMono (s s' : St S) : Prop := ∀ nt ci p, p ∈ s.bankAt nt ci → p ∈ s'.bankAt nt ci
theorem BankMono.refl (s : St S) : BankMono s s := fun _ _ _ h => h
theorem BankMono.trans {a b c : St S} (h1 : BankMono a b) (h2 : BankMono b c) : BankMono a c :=
  fun nt ci p h => h2 nt ci p (h1 nt ci p h)
theorem BankMono.of_eq {s s' : St S} (h : ∀ nt ci, s'.bankAt nt ci = s.bankAt nt ci) : BankMono s s' :=
  fun nt ci p hp => by rw [h]; exact hp

theorem Prov.mono {s s' : St S} {args : List (Ty × S)} {comb : List Nat} {a : List Prog} (h : Prov s args comb a)
    (hm : BankMono s s') : Prov s' args comb a :=
  ⟨h.1.mono (fun _ _ hr => hm _ _ _ hr), h.2⟩

/-- protected non-terminals keep their ghost entry and their banks -/
def ProtG (x : Rat) (s s' : St S) (pp pp' : Ghost S) : Prop :=
  ∀ nt, lastGe s nt x → pp' nt = pp nt ∧ ∀ ci, s'.bankAt nt ci = s.bankAt nt ci

/-- the part of the frame invariant about the tuples still to be consumed -/
def PendOK (E : Env S) (s : St S) (nt : NT S Unit) (ci : Nat) (P : Sym) (isFun : Bool) (pend : List (List Prog)) (pp : Ghost S) : Prop :=
  pend.Nodup ∧ (pend = [] ∨ ∃ comb rl, (P, comb) ∈ pp nt ∧ E.G.rule? nt P = some rl ∧ isFun = (!(rl.1.map ntOf).isEmpty) ∧
    ∀ a ∈ pend, Prov s rl.1 comb a ∧ mkProg P isFun a ∉ s.bankAt nt ci)

theorem NI.of_eq {E : Env S} {s s' : St S} {pp : Ghost S} (hq : ∀ nt, s'.queueOf nt = s.queueOf nt)
    (hb : ∀ nt ci, s'.bankAt nt ci = s.bankAt nt ci) (h : NI E s pp) : NI E s' pp := by
  refine ⟨fun nt => (hq nt) ▸ h.k1 nt, fun nt P t hm => h.k2 nt P t ((hq nt) ▸ hm), fun nt ci p hp => ?_, fun nt ci => (hb nt ci) ▸ h.k4 nt ci⟩
  obtain ⟨P, comb, a, rl, g1, g2, g3, g4⟩ := h.k3 nt ci p (hb nt ci ▸ hp)
  exact ⟨P, comb, a, rl, g1, g2, g3, g4.mono (BankMono.of_eq hb)⟩

theorem prov_nil_args (s : St S) (comb : List Nat) (a : List Prog) (h : Prov s [] comb a) : a = [] := by
  have := h.1
  simp only [List.map_nil, List.zip_nil_left] at this
  cases this; rfl

/-- the product loop: each program appended to the bank is new, the invariant is kept -/
theorem emit_ni (E : Env S) (nt : NT S Unit) (ci : Nat) (P : Sym) (isFun : Bool) (pp : Ghost S) :
    ∀ (pend : List (List Prog)) (s : St S), NI E s pp → PendOK E s nt ci P isFun pend pp →
      NI E (emit E nt ci P isFun s pend).1 pp ∧ BankMono s (emit E nt ci P isFun s pend).1 ∧
      (∀ nt' ci', (nt', ci') ≠ (nt, ci) → (emit E nt ci P isFun s pend).1.bankAt nt' ci' = s.bankAt nt' ci') ∧
      ∀ p rest, (emit E nt ci P isFun s pend).2 = some (p, rest) →
        p ∉ s.bankAt nt ci ∧ p ∈ (emit E nt ci P isFun s pend).1.bankAt nt ci ∧
        PendOK E (emit E nt ci P isFun s pend).1 nt ci P isFun rest pp := by
  intro pend
  induction pend with
  | nil => intro s hs _; simp [emit, hs, BankMono.refl]
  | cons a rest ih =>
    intro s hs hp
    have hnd := List.nodup_cons.mp hp.1
    have hp_rest : ∀ s' : St S, (∀ nt' ci', s'.bankAt nt' ci' = s.bankAt nt' ci') → PendOK E s' nt ci P isFun rest pp := by
      intro s' hb
      refine ⟨hnd.2, ?_⟩
      rcases hp.2 with h | ⟨comb, rl, g1, g2, g3, g4⟩
      · cases h
      · by_cases hr : rest = []
        · exact Or.inl hr
        · exact Or.inr ⟨comb, rl, g1, g2, g3, fun a' ha' => by
            obtain ⟨q1, q2⟩ := g4 a' (List.mem_cons_of_mem _ ha')
            exact ⟨q1.mono (BankMono.of_eq hb), by rw [hb]; exact q2⟩⟩
    unfold emit
    simp only
    split
    · obtain ⟨h1, h2, h3, h4⟩ := ih s hs (hp_rest s (fun _ _ => rfl))
      exact ⟨h1, h2, h3, h4⟩
    · split
      · have hb : ∀ nt' ci', (s.addDeleted (mkProg P isFun a)).bankAt nt' ci' = s.bankAt nt' ci' :=
          fun nt' ci' => St.addDeleted_bankAt s nt' _ ci'
        have hs' : NI E (s.addDeleted (mkProg P isFun a)) pp := hs.of_eq (fun nt' => St.addDeleted_queueOf s nt' _) hb
        obtain ⟨h1, h2, h3, h4⟩ := ih _ hs' (hp_rest _ hb)
        refine ⟨h1, (BankMono.of_eq hb).trans h2, fun nt' ci' hne => by rw [h3 nt' ci' hne, hb], fun p r hpr => ?_⟩
        obtain ⟨q1, q2, q3⟩ := h4 p r hpr
        exact ⟨by rw [← hb]; exact q1, q2, q3⟩
      · -- the program is appended
        dsimp only
        rcases hp.2 with h | ⟨comb, rl, g1, g2, g3, g4⟩
        · cases h
        · obtain ⟨ga, gnew⟩ := g4 a (List.mem_cons_self ..)
          have hold : (AList.lookup ci (s.bankOf nt)).getD [] = s.bankAt nt ci := rfl
          rw [hold]
          have hbm : BankMono s (s.setBank nt ci (s.bankAt nt ci ++ [mkProg P isFun a])) := by
            intro nt' ci' p hp'
            rw [St.bankAt_setBank]
            split
            · next heq => obtain ⟨rfl, rfl⟩ := heq; exact List.mem_append_left _ hp'
            · exact hp'
          have hother : ∀ nt' ci', (nt', ci') ≠ (nt, ci) →
              (s.setBank nt ci (s.bankAt nt ci ++ [mkProg P isFun a])).bankAt nt' ci' = s.bankAt nt' ci' := by
            intro nt' ci' hne
            rw [St.bankAt_setBank]
            split
            · next heq => exact absurd (Prod.ext heq.1 heq.2) hne
            · rfl
          have hself : (s.setBank nt ci (s.bankAt nt ci ++ [mkProg P isFun a])).bankAt nt ci = s.bankAt nt ci ++ [mkProg P isFun a] := by
            rw [St.bankAt_setBank]; simp
          refine ⟨⟨fun nt' => hs.k1 nt', fun nt' P' t hm => hs.k2 nt' P' t hm, fun nt' ci' p hp' => ?_, fun nt' ci' => ?_⟩, hbm, hother, ?_⟩
          · by_cases heq : (nt', ci') = (nt, ci)
            · cases heq
              rw [hself] at hp'
              rcases List.mem_append.mp hp' with h | h
              · obtain ⟨P', comb', a', rl', q1, q2, q3, q4⟩ := hs.k3 nt ci p h
                exact ⟨P', comb', a', rl', q1, q2, q3, q4.mono hbm⟩
              · simp only [List.mem_singleton] at h; subst h
                exact ⟨P, comb, a, rl, g1, g2, by rw [g3], ga.mono hbm⟩
            · rw [hother nt' ci' heq] at hp'
              obtain ⟨P', comb', a', rl', q1, q2, q3, q4⟩ := hs.k3 nt' ci' p hp'
              exact ⟨P', comb', a', rl', q1, q2, q3, q4.mono hbm⟩
          · by_cases heq : (nt', ci') = (nt, ci)
            · cases heq
              rw [hself, List.nodup_append]
              refine ⟨hs.k4 nt ci, List.pairwise_singleton _ _, fun x hx y hy hxy => ?_⟩
              simp only [List.mem_singleton] at hy; subst hy; subst hxy
              exact gnew hx
            · rw [hother nt' ci' heq]; exact hs.k4 nt' ci'
          · intro p r hpr
            simp only [Option.some.injEq, Prod.mk.injEq] at hpr
            obtain ⟨rfl, rfl⟩ := hpr
            refine ⟨gnew, by rw [hself]; simp, hnd.2, ?_⟩
            by_cases hr : rest = []
            · exact Or.inl hr
            · refine Or.inr ⟨comb, rl, g1, g2, g3, fun a' ha' => ?_⟩
              obtain ⟨q1, q2⟩ := g4 a' (List.mem_cons_of_mem _ ha')
              refine ⟨q1.mono hbm, ?_⟩
              rw [hself]
              intro hm
              rcases List.mem_append.mp hm with h | h
              · exact q2 h
              · simp only [List.mem_singleton] at h
                -- two different tuples of the same element build different programs
                have hne : a' ≠ a := fun e => hnd.1 (e ▸ ha')
                by_cases hf : isFun = true
                · rw [hf] at h
                  simp only [mkProg, if_true, Tree.node.injEq, true_and] at h
                  exact hne h
                · -- no argument: both tuples are empty
                  have hf' : (!(rl.1.map ntOf).isEmpty) = false := by rw [← g3]; simpa using hf
                  have hnil : rl.1 = [] := by
                    cases hrl : rl.1 with
                    | nil => rfl
                    | cons x xs => simp [hrl] at hf'
                  have e1 := prov_nil_args s comb a (hnil ▸ ga)
                  have e2 := prov_nil_args s comb a' (hnil ▸ q1)
                  exact hne (e2.trans e1.symm)

/-- update of the ghost table at one non-terminal -/
def gset (pp : Ghost S) (nt : NT S Unit) (l : List (Sym × List Nat)) : Ghost S := fun x => if x = nt then l else pp x

theorem gset_self (pp : Ghost S) (nt : NT S Unit) (l : List (Sym × List Nat)) : gset pp nt l nt = l := by simp [gset]
theorem gset_other (pp : Ghost S) (nt nt' : NT S Unit) (l : List (Sym × List Nat)) (h : nt' ≠ nt) : gset pp nt l nt' = pp nt' := by
  simp [gset, h]

/-- popping an element: its pair moves from the queue to the ghost table -/
theorem pop_ni (E : Env S) (s : St S) (pp : Ghost S) (nt : NT S Unit) (el : HeapEl) (q' : List HeapEl) (hs : NI E s pp)
    (hpop : Heapq.pop ltE (s.queueOf nt) = some (el, q')) :
    NI E (s.setQueue nt q') (gset pp nt (key2 el :: pp nt)) ∧ key2 el ∉ pp nt ∧ key2 el ∉ q'.map key2 := by
  have hperm : (s.queueOf nt).Perm (el :: q') := pop_perm ltE _ _ _ hpop
  have hperm2 : ((s.queueOf nt).map key2 ++ pp nt).Perm (q'.map key2 ++ key2 el :: pp nt) := by
    have h1 : ((s.queueOf nt).map key2).Perm (key2 el :: q'.map key2) := by simpa using hperm.map key2
    refine (h1.append_right _).trans ?_
    simp only [List.cons_append]
    exact List.perm_middle.symm
  have hnd := (hperm2.nodup_iff).mp (hs.k1 nt)
  have hnotpp : key2 el ∉ pp nt ∧ key2 el ∉ q'.map key2 := by
    rw [List.nodup_append] at hnd
    obtain ⟨_, h2, h3⟩ := hnd
    exact ⟨(List.nodup_cons.mp h2).1, fun hm => h3 _ hm _ (List.mem_cons_self ..) rfl⟩
  refine ⟨⟨fun nt' => ?_, fun nt' P t hm => ?_, fun nt' ci p hp => ?_, fun nt' ci => hs.k4 nt' ci⟩, hnotpp.1, hnotpp.2⟩
  · by_cases heq : nt' = nt
    · subst heq
      rw [St.queueOf_setQueue, gset_self]; simp only [if_true]; exact hnd
    · rw [St.queueOf_setQueue, gset_other _ _ _ _ heq]; simp only [heq, if_false]; exact hs.k1 nt'
  · by_cases heq : nt' = nt
    · subst heq
      rw [St.queueOf_setQueue, gset_self] at hm; simp only [if_true] at hm
      have hm' : (P, t) ∈ (s.queueOf nt').map key2 ++ pp nt' := (hperm2.mem_iff).mpr hm
      rcases hs.k2 nt' P t hm' with h | ⟨c, h1, h2⟩
      · exact Or.inl h
      · exact Or.inr ⟨c, by rw [gset_self]; exact List.mem_cons_of_mem _ h1, h2⟩
    · rw [St.queueOf_setQueue, gset_other _ _ _ _ heq] at hm; simp only [heq, if_false] at hm
      rcases hs.k2 nt' P t hm with h | ⟨c, h1, h2⟩
      · exact Or.inl h
      · exact Or.inr ⟨c, by rw [gset_other _ _ _ _ heq]; exact h1, h2⟩
  · obtain ⟨P, comb, a, rl, g1, g2, g3, g4⟩ := hs.k3 nt' ci p hp
    refine ⟨P, comb, a, rl, ?_, g2, g3, g4⟩
    by_cases heq : nt' = nt
    · subst heq; rw [gset_self]; exact List.mem_cons_of_mem _ g1
    · rw [gset_other _ _ _ _ heq]; exact g1

/-- the successor loop pushes new pairs only -/
theorem succLoop_ni (E : Env S) (s : St S) (pp : Ghost S) (nt : NT S Unit) (cost : Cost) (P : Sym) (comb : List Nat)
    (sargs : List (NT S Unit)) (hs : NI E s pp) (hlen : sargs.length = comb.length) (hk : (P, comb) ∈ pp nt)
    (hnew : ∀ t, Succ comb t → (P, t) ∉ (s.queueOf nt).map key2 ++ pp nt) :
    NI E (succLoop nt cost P comb s 0 sargs) pp ∧ (∀ nt' ci, (succLoop nt cost P comb s 0 sargs).bankAt nt' ci = s.bankAt nt' ci) := by
  obtain ⟨hperm, hother⟩ := succLoop_perm nt cost P comb sargs s 0
  have hcomb := succEls_comb cost P comb s sargs 0
  have hP := succEls_P cost P comb s sargs 0
  have hbank : ∀ nt' ci, (succLoop nt cost P comb s 0 sargs).bankAt nt' ci = s.bankAt nt' ci := by
    intro nt' ci
    exact succLoop_bank nt cost P comb sargs s 0 nt' ci
  have hkeys : (succEls cost P comb s 0 sargs).map key2 = (succCombs comb 0 (sargs.map fun a => (s.clOf a).length)).map (fun t => (P, t)) := by
    rw [← hcomb, List.map_map]
    apply List.map_congr_left
    intro el hel
    simp [key2, hP el hel]
  have hsucc : ∀ t ∈ succCombs comb 0 (sargs.map fun a => (s.clOf a).length), Succ comb t :=
    fun t ht => succ_of_mem comb t _ (by simpa using hlen) ht
  have hnd0 : (succCombs comb 0 (sargs.map fun a => (s.clOf a).length)).Nodup :=
    succCombs_nodup comb _ 0 (by simp; omega)
  have hpermk : ((succLoop nt cost P comb s 0 sargs).queueOf nt).map key2 ++ pp nt |>.Perm
      ((succCombs comb 0 (sargs.map fun a => (s.clOf a).length)).map (fun t => (P, t)) ++ ((s.queueOf nt).map key2 ++ pp nt)) := by
    have := (hperm.map key2).append_right (pp nt)
    simpa [hkeys, List.append_assoc] using this
  refine ⟨⟨fun nt' => ?_, fun nt' P' t hm => ?_, fun nt' ci p hp => ?_, fun nt' ci => (hbank nt' ci) ▸ hs.k4 nt' ci⟩, hbank⟩
  · by_cases heq : nt' = nt
    · subst heq
      rw [hpermk.nodup_iff, List.nodup_append]
      refine ⟨?_, hs.k1 nt', fun x hx y hy hxy => ?_⟩
      · exact map_pair_nodup P _ hnd0
      · subst hxy
        simp only [List.mem_map] at hx
        obtain ⟨t, ht, rfl⟩ := hx
        exact hnew t (hsucc t ht) hy
    · rw [hother nt' heq]; exact hs.k1 nt'
  · by_cases heq : nt' = nt
    · subst heq
      have hm' := (hpermk.mem_iff).mp hm
      rcases List.mem_append.mp hm' with h | h
      · simp only [List.mem_map, Prod.mk.injEq] at h
        obtain ⟨t', ht', rfl, rfl⟩ := h
        exact Or.inr ⟨comb, hk, hsucc t' ht'⟩
      · exact hs.k2 nt' P' t h
    · rw [hother nt' heq] at hm; exact hs.k2 nt' P' t hm
  · rw [hbank] at hp
    obtain ⟨P', comb', a, rl, g1, g2, g3, g4⟩ := hs.k3 nt' ci p hp
    exact ⟨P', comb', a, rl, g1, g2, g3, g4.mono (BankMono.of_eq hbank)⟩
where
  succLoop_bank (nt : NT S Unit) (cost : Cost) (P : Sym) (comb : List Nat) : ∀ (as : List (NT S Unit)) (s : St S) (i : Nat) (nt' : NT S Unit) (ci : Nat),
      (succLoop nt cost P comb s i as).bankAt nt' ci = s.bankAt nt' ci := by
    intro as
    induction as with
    | nil => intro s i nt' ci; simp [succLoop]
    | cons a as ih =>
      intro s i nt' ci
      unfold succLoop
      simp only
      split
      · split
        · rfl
        · exact ih s (i + 1) nt' ci
      · split
        · rfl
        · rw [ih]; rfl
  map_pair_nodup (P : Sym) : ∀ (l : List (List Nat)), l.Nodup → (l.map (fun t => (P, t))).Nodup
    | [], _ => List.nodup_nil
    | t :: ts, h => by
      have hh := List.nodup_cons.mp h
      simp only [List.map_cons]
      refine List.nodup_cons.mpr ⟨fun hm => ?_, map_pair_nodup P ts hh.2⟩
      simp only [List.mem_map, Prod.mk.injEq, true_and] at hm
      obtain ⟨t', ht', he⟩ := hm
      exact hh.1 (he ▸ ht')

end PS.Beap
