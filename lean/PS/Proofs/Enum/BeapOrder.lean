/- `HeapElement.__lt__` (the lexicographic order on (cost, combination)) is a strict weak order, so
   the heapq lemmas apply to the queues of beap search. -/
import PS.Proofs.Enum.BeapHeapify
namespace PS.Beap
open PS PS.Heapq

namespace Cost
theorem lt_iff (a b : Cost) : lt a b = true ↔ a.inf < b.inf ∨ (a.inf = b.inf ∧ a.fin < b.fin) := by
  unfold lt; simp
theorem lt_irrefl (a : Cost) : lt a a = false := by
  cases h : lt a a with
  | false => rfl
  | true => rw [lt_iff] at h; rcases h with h | h
            · omega
            · exact absurd h.2 (by grind)
theorem lt_asymm (a b : Cost) (h : lt a b = true) : lt b a = false := by
  cases h' : lt b a with
  | false => rfl
  | true =>
    rw [lt_iff] at h h'
    rcases h with h | h <;> rcases h' with h' | h'
    · omega
    · omega
    · omega
    · have := h.2; have := h'.2; grind
theorem lt_trans (a b c : Cost) (h1 : lt a b = true) (h2 : lt b c = true) : lt a c = true := by
  rw [lt_iff] at *
  rcases h1 with h1 | h1 <;> rcases h2 with h2 | h2
  · left; omega
  · left; omega
  · left; omega
  · right; exact ⟨by omega, by have := h1.2; have := h2.2; grind⟩
theorem lt_total (a b : Cost) (hne : a ≠ b) : lt a b = true ∨ lt b a = true := by
  rw [lt_iff, lt_iff]
  by_cases h1 : a.inf < b.inf
  · exact Or.inl (Or.inl h1)
  · by_cases h2 : b.inf < a.inf
    · exact Or.inr (Or.inl h2)
    · have he : a.inf = b.inf := by omega
      have hf : a.fin ≠ b.fin := by
        intro hf; apply hne
        cases a; cases b; simp_all
      by_cases h3 : a.fin < b.fin
      · exact Or.inl (Or.inr ⟨he, h3⟩)
      · exact Or.inr (Or.inr ⟨he.symm, by grind⟩)
end Cost

theorem listLt_irrefl : ∀ a : List Nat, listLt a a = false
  | [] => rfl
  | x :: xs => by simp [listLt, listLt_irrefl xs]

theorem listLt_asymm : ∀ a b : List Nat, listLt a b = true → listLt b a = false
  | [], [], h => by simp [listLt] at h
  | [], _ :: _, _ => rfl
  | _ :: _, [], h => by simp [listLt] at h
  | x :: xs, y :: ys, h => by
    simp only [listLt] at h ⊢
    by_cases hxy : x = y
    · subst hxy; simp only [if_true] at h ⊢; exact listLt_asymm xs ys h
    · have : ¬ y = x := fun e => hxy e.symm
      simp only [hxy, this, if_false, decide_eq_true_eq, decide_eq_false_iff_not] at h ⊢
      omega

theorem listLt_trans : ∀ a b c : List Nat, listLt a b = true → listLt b c = true → listLt a c = true
  | [], [], _, h, _ => by simp [listLt] at h
  | [], _ :: _, [], _, h => by simp [listLt] at h
  | [], _ :: _, _ :: _, _, _ => rfl
  | _ :: _, [], _, h, _ => by simp [listLt] at h
  | _ :: _, _ :: _, [], _, h => by simp [listLt] at h
  | x :: xs, y :: ys, z :: zs, h1, h2 => by
    simp only [listLt] at h1 h2 ⊢
    by_cases hxy : x = y
    · subst hxy
      simp only [if_true] at h1
      by_cases hxz : x = z
      · subst hxz; simp only [if_true] at h2 ⊢; exact listLt_trans xs ys zs h1 h2
      · simp only [hxz, if_false] at h2 ⊢; exact h2
    · simp only [hxy, if_false, decide_eq_true_eq] at h1
      by_cases hyz : y = z
      · subst hyz; simp only [hxy, if_false, decide_eq_true_eq]; exact h1
      · simp only [hyz, if_false, decide_eq_true_eq] at h2
        have : ¬ x = z := by omega
        simp only [this, if_false, decide_eq_true_eq]; omega

theorem listLt_total : ∀ a b : List Nat, a ≠ b → listLt a b = true ∨ listLt b a = true
  | [], [], h => absurd rfl h
  | [], _ :: _, _ => Or.inl rfl
  | _ :: _, [], _ => Or.inr rfl
  | x :: xs, y :: ys, h => by
    simp only [listLt]
    by_cases hxy : x = y
    · subst hxy
      simp only [if_true]
      exact listLt_total xs ys (fun e => h (by rw [e]))
    · have : ¬ y = x := fun e => hxy e.symm
      simp only [hxy, this, if_false, decide_eq_true_eq]
      omega

/-- `¬ listLt b a → ¬ listLt c b → ¬ listLt c a` -/
theorem listLt_ntrans (a b c : List Nat) (h1 : listLt b a = false) (h2 : listLt c b = false) : listLt c a = false := by
  cases h : listLt c a with
  | false => rfl
  | true =>
    by_cases hab : a = b
    · subst hab; rw [h] at h2; cases h2
    · by_cases hbc : b = c
      · subst hbc; rw [h] at h1; cases h1
      · have h3 : listLt a b = true := by
          rcases listLt_total a b hab with h3 | h3
          · exact h3
          · rw [h3] at h1; cases h1
        have h4 : listLt b c = true := by
          rcases listLt_total b c hbc with h4 | h4
          · exact h4
          · rw [h4] at h2; cases h2
        have := listLt_asymm _ _ (listLt_trans _ _ _ h3 h4)
        rw [h] at this; cases this

theorem Cost.lt_ntrans (a b c : Cost) (h1 : Cost.lt b a = false) (h2 : Cost.lt c b = false) : Cost.lt c a = false := by
  cases h : Cost.lt c a with
  | false => rfl
  | true =>
    by_cases hab : a = b
    · subst hab; rw [h] at h2; cases h2
    · by_cases hbc : b = c
      · subst hbc; rw [h] at h1; cases h1
      · have h3 : Cost.lt a b = true := by
          rcases Cost.lt_total a b hab with h3 | h3
          · exact h3
          · rw [h3] at h1; cases h1
        have h4 : Cost.lt b c = true := by
          rcases Cost.lt_total b c hbc with h4 | h4
          · exact h4
          · rw [h4] at h2; cases h2
        have := Cost.lt_asymm _ _ (Cost.lt_trans _ _ _ h3 h4)
        rw [h] at this; cases this

/-- `HeapElement.__lt__` is a strict weak order -/
theorem ltE_weak : WeakOrder ltE := by
  refine ⟨fun a b h => ?_, fun a b c h1 h2 => ?_⟩
  · unfold ltE at h ⊢
    by_cases hc : a.cost = b.cost
    · simp only [hc, if_true] at h ⊢; exact listLt_asymm _ _ h
    · have : ¬ b.cost = a.cost := fun e => hc e.symm
      simp only [hc, this, if_false] at h ⊢; exact Cost.lt_asymm _ _ h
  · unfold ltE at h1 h2 ⊢
    by_cases hca : c.cost = a.cost
    · simp only [hca, if_true]
      by_cases hba : b.cost = a.cost
      · have hcb : c.cost = b.cost := hca.trans hba.symm
        simp only [hba, hcb, if_true] at h1 h2
        exact listLt_ntrans _ _ _ h1 h2
      · have hcb : ¬ c.cost = b.cost := fun e => hba (e.symm.trans hca)
        simp only [hba, hcb, if_false] at h1 h2
        rw [hca] at h2
        rcases Cost.lt_total b.cost a.cost hba with h3 | h3
        · rw [h3] at h1; cases h1
        · rw [h3] at h2; cases h2
    · simp only [hca, if_false]
      by_cases hba : b.cost = a.cost
      · have hcb : ¬ c.cost = b.cost := fun e => hca (e.trans hba)
        simp only [hcb, if_false] at h2
        rw [hba] at h2; exact h2
      · simp only [hba, if_false] at h1
        by_cases hcb : c.cost = b.cost
        · rw [hcb]; exact h1
        · simp only [hcb, if_false] at h2
          exact Cost.lt_ntrans _ _ _ h1 h2

/-- not smaller as a heap element ⇒ not cheaper -/
theorem cost_of_ltE_false (a b : HeapEl) (h : ltE a b = false) : Cost.lt a.cost b.cost = false := by
  unfold ltE at h
  by_cases hc : a.cost = b.cost
  · rw [hc]; exact Cost.lt_irrefl _
  · simpa [hc] using h

end PS.Beap
