/- The max-priority phase of heap search leaves tables in sync (generic priority type):
   port of HSMaxOK / HSBase to any priority order. -/
import PS.Proofs.Enum.GFrontier
namespace PS.HG
open PS PS.G PS.HS
set_option linter.unusedSectionVars false
variable {S π : Type} [DecidableEq S]

/-- the heap element `__init_heap__` pushes for rule `P` of `nt` -/
def entry (E : Env S Unit π) (s : St S Unit π) (nt : NT S Unit) (P : Sym) : Option (π × Prog) :=
  (AList.lookup (nt, P) s.maxRule).bind (fun p => (prioSpec E p nt).map (fun v => (v, p)))

def entries (E : Env S Unit π) (s : St S Unit π) (nt : NT S Unit) (Ps : List Sym) : List (π × Prog) :=
  Ps.filterMap (entry E s nt)

/-- the max-priority tables are in sync -/
structure MaxOK (E : Env S Unit π) (s : St S Unit π) : Prop where
  /-- `max_priority[(S, P)] = P(max_priority[S1], …)` for the current `max_priority[Si]` -/
  sync : ∀ nt F prog ra, AList.lookup (nt, F) s.maxRule = some prog → E.G.rule? nt F = some (ra, ()) →
    ∃ ms, prog = .node F ms ∧
      ∀ (i : Nat) a m, ra[i]? = some a → ms[i]? = some m → AList.lookup (argNT a) s.maxNT = some m
  /-- `max_priority[S]` is the first best of the `max_priority[(S, P)]` in rule order -/
  best : ∀ nt rs m, AList.lookup nt E.G.rules = some rs → AList.lookup nt s.maxNT = some m →
    ∃ pr, (entries E s nt (AList.keys rs)).foldl (Heapq.bestStep (ltE E.ops)) none = some (pr, m)

theorem entries_congr (E : Env S Unit π) {s s' : St S Unit π} (h : s'.maxRule = s.maxRule)
    (nt : NT S Unit) (Ps : List Sym) : entries E s' nt Ps = entries E s nt Ps := by
  unfold entries entry; rw [h]

abbrev MN (s : St S Unit π) (nt : NT S Unit) : Option Prog := AList.lookup nt s.maxNT
abbrev MR (s : St S Unit π) (nt : NT S Unit) (P : Sym) : Option Prog := AList.lookup (nt, P) s.maxRule

/-- static hypotheses of the max-priority phase -/
structure InitHyp (E : Env S Unit π) (rank : NT S Unit → Nat) : Prop where
  rows : RowsNodup E.G
  acyclic : ∀ nt F ra, E.G.rule? nt F = some (ra, ()) → ∀ a ∈ ra, rank (argNT a) < rank nt
  nonempty : ∀ nt rs, AList.lookup nt E.G.rules = some rs → rs ≠ []

structure KInv (E : Env S Unit π) (s : St S Unit π) : Prop where
  sync : ∀ nt F prog ra, MR s nt F = some prog → E.G.rule? nt F = some (ra, ()) →
    ∃ ms, prog = .node F ms ∧ ∀ (i : Nat) a m, ra[i]? = some a → ms[i]? = some m → MN s (argNT a) = some m
  best : ∀ nt rs m, AList.lookup nt E.G.rules = some rs → MN s nt = some m →
    (∀ P ∈ AList.keys rs, (MR s nt P).isSome = true) ∧
    ∃ pr, (entries E s nt (AList.keys rs)).foldl (Heapq.bestStep (ltE E.ops)) none = some (pr, m)
  prog_init : ∀ nt, nt ∈ s.initS → MN s nt = none
  owned : ∀ nt P prog, MR s nt P = some prog → (MN s nt).isSome = true ∨ nt ∈ s.initS
  prio : ∀ nt P prog, MR s nt P = some prog → (prioSpec E prog nt).isSome = true
  has_rule : ∀ nt P prog, MR s nt P = some prog → ∃ ra, E.G.rule? nt P = some (ra, ())

theorem KInv.maxOK {E : Env S Unit π} {s : St S Unit π} (h : KInv E s) : MaxOK E s :=
  ⟨h.sync, fun nt rs m hl hm => (h.best nt rs m hl hm).2⟩

/-- entries only get added, never changed -/
def Ext (s s' : St S Unit π) : Prop :=
  (∀ nt m, MN s nt = some m → MN s' nt = some m) ∧ (∀ nt P p, MR s nt P = some p → MR s' nt P = some p)

theorem Ext.refl (s : St S Unit π) : Ext s s := ⟨fun _ _ h => h, fun _ _ _ h => h⟩
theorem Ext.trans {s s1 s2 : St S Unit π} (h1 : Ext s s1) (h2 : Ext s1 s2) : Ext s s2 :=
  ⟨fun nt m h => h2.1 nt m (h1.1 nt m h), fun nt P p h => h2.2 nt P p (h1.2 nt P p h)⟩

/-- the entries of the non-terminals of rank at least `b` are untouched -/
def LowFrame (rank : NT S Unit → Nat) (b : Nat) (s s' : St S Unit π) : Prop :=
  ∀ nt, b ≤ rank nt → MN s' nt = MN s nt ∧ ∀ P, MR s' nt P = MR s nt P

theorem LowFrame.refl (rank : NT S Unit → Nat) (b : Nat) (s : St S Unit π) : LowFrame rank b s s :=
  fun _ _ => ⟨rfl, fun _ => rfl⟩
theorem LowFrame.trans {rank : NT S Unit → Nat} {b : Nat} {s s1 s2 : St S Unit π}
    (h1 : LowFrame rank b s s1) (h2 : LowFrame rank b s1 s2) : LowFrame rank b s s2 :=
  fun nt hb => ⟨((h2 nt hb).1).trans (h1 nt hb).1, fun P => ((h2 nt hb).2 P).trans ((h1 nt hb).2 P)⟩
theorem LowFrame.mono {rank : NT S Unit → Nat} {b b' : Nat} {s s' : St S Unit π}
    (h : LowFrame rank b s s') (hb : b ≤ b') : LowFrame rank b' s s' :=
  fun nt hn => h nt (Nat.le_trans hb hn)

theorem entries_eq_of_MR (E : Env S Unit π) {s s' : St S Unit π} (nt : NT S Unit) (Ps : List Sym)
    (h : ∀ P ∈ Ps, MR s' nt P = MR s nt P) : entries E s' nt Ps = entries E s nt Ps := by
  unfold entries
  induction Ps with
  | nil => rfl
  | cons P rest ih =>
    have h1 : entry E s' nt P = entry E s nt P := by
      unfold entry
      have := h P (List.mem_cons_self)
      unfold MR at this
      rw [this]
    simp only [List.filterMap_cons, h1]
    rw [ih (fun Q hQ => h Q (List.mem_cons_of_mem _ hQ))]

theorem entries_ext (E : Env S Unit π) {s s' : St S Unit π} (hx : Ext s s') (nt : NT S Unit) (Ps : List Sym)
    (hall : ∀ P ∈ Ps, (MR s nt P).isSome = true) : entries E s' nt Ps = entries E s nt Ps := by
  apply entries_eq_of_MR
  intro P hP
  have := hall P hP
  cases hm : MR s nt P with
  | none => rw [hm] at this; cases this
  | some p => exact hx.2 nt P p hm

theorem entries_append (E : Env S Unit π) (s : St S Unit π) (nt : NT S Unit) (a b : List Sym) :
    entries E s nt (a ++ b) = entries E s nt a ++ entries E s nt b := by
  unfold entries; simp

/-- `KInv` is stable under extension of the tables that leaves `initS` alone -/
theorem KInv.ext_sync {E : Env S Unit π} {s s' : St S Unit π} (h : KInv E s) (hx : Ext s s') :
    ∀ nt F prog ra, MR s nt F = some prog → E.G.rule? nt F = some (ra, ()) →
    ∃ ms, prog = .node F ms ∧ ∀ (i : Nat) a m, ra[i]? = some a → ms[i]? = some m → MN s' (argNT a) = some m := by
  intro nt F prog ra hm hr
  obtain ⟨ms, h1, h2⟩ := h.sync nt F prog ra hm hr
  exact ⟨ms, h1, fun i a m ha hmi => hx.1 _ _ (h2 i a m ha hmi)⟩

theorem erase_append_self {α : Type} [BEq α] [LawfulBEq α] (l : List α) (a : α) (h : a ∉ l) :
    (l ++ [a]).erase a = l := by
  induction l with
  | nil => simp
  | cons b r ih =>
    have hne : b ≠ a := by intro e; subst e; exact h (List.mem_cons_self)
    have hr : a ∉ r := fun hm => h (List.mem_cons_of_mem _ hm)
    simp only [List.cons_append]
    rw [List.erase_cons_tail (by simpa using hne), ih hr]

def swapP (b : Prog × π) : π × Prog := (b.2, b.1)

theorem foldl_bestStep_some {α : Type} (lt : α → α → Bool) (l : List α) (b : α) :
    ∃ c, l.foldl (Heapq.bestStep lt) (some b) = some c := by
  induction l generalizing b with
  | nil => exact ⟨b, rfl⟩
  | cons x r ih =>
    simp only [List.foldl_cons, Heapq.bestStep]
    split <;> exact ih _

theorem foldl_bestStep_ne_none {α : Type} (lt : α → α → Bool) (l : List α) (h : l ≠ []) :
    ∃ c, l.foldl (Heapq.bestStep lt) none = some c := by
  cases l with
  | nil => exact absurd rfl h
  | cons x r => simp only [List.foldl_cons, Heapq.bestStep]; exact foldl_bestStep_some lt r x

/-- precondition of the argument loop -/
def PreK (ra : List (Ty × S)) (acc : List Prog) (k : Nat) (info : Info S) (cur : NT S Unit)
    (s : St S Unit π) : Prop :=
  acc.length + k = ra.length ∧
  (∀ (j : Nat) m a, acc[j]? = some m → ra[j]? = some a → MN s (argNT a) = some m) ∧
  (0 < k → info = ra.drop (acc.length + 1) ∧ ∃ a, ra[acc.length]? = some a ∧ cur = argNT a)

/-- statements of the mutual induction -/
def StI (E : Env S Unit π) (rank : NT S Unit → Nat) (n : Nat) : Prop :=
  ∀ s nt s', KInv E s → MInv E s → (∀ x ∈ s.initS, rank nt < rank x) → initNT E n s nt = some s' →
    KInv E s' ∧ (MN s' nt).isSome = true ∧ s'.initS = s.initS ∧ Ext s s' ∧ LowFrame rank (rank nt + 1) s s'

def StL (E : Env S Unit π) (rank : NT S Unit → Nat) (n : Nat) : Prop :=
  ∀ s nt rs done rest best s' best', KInv E s → MInv E s → AList.lookup nt E.G.rules = some rs →
    rs = done ++ rest → nt ∈ s.initS → (∀ x ∈ s.initS, rank nt ≤ rank x) →
    (∀ P ∈ AList.keys done, (MR s nt P).isSome = true) → (∀ P ∈ AList.keys rest, MR s nt P = none) →
    best.map swapP = (entries E s nt (AList.keys done)).foldl (Heapq.bestStep (ltE E.ops)) none →
    maxLoop E n s nt rest best = some (s', best') →
    KInv E s' ∧ s'.initS = s.initS ∧ Ext s s' ∧ LowFrame rank (rank nt + 1) s s' ∧
    (∀ P ∈ AList.keys rs, (MR s' nt P).isSome = true) ∧
    best'.map swapP = (entries E s' nt (AList.keys rs)).foldl (Heapq.bestStep (ltE E.ops)) none

def StA (E : Env S Unit π) (rank : NT S Unit → Nat) (n : Nat) : Prop :=
  ∀ s nt F ra k info cur acc s' arguments, KInv E s → MInv E s → E.G.rule? nt F = some (ra, ()) →
    nt ∈ s.initS → (∀ x ∈ s.initS, rank nt ≤ rank x) → PreK ra acc k info cur s →
    maxArgs E n s k info cur acc = some (s', arguments) →
    KInv E s' ∧ s'.initS = s.initS ∧ Ext s s' ∧ LowFrame rank (rank nt) s s' ∧
    arguments.length = ra.length ∧
    (∀ (j : Nat) m a, arguments[j]? = some m → ra[j]? = some a → MN s' (argNT a) = some m)

/-! #### the argument loop -/
theorem stA_step (E : Env S Unit π) (rank : NT S Unit → Nat) (H : InitHyp E rank) (n : Nat)
    (ihI : StI E rank n) (ihA : StA E rank n) : StA E rank (n + 1) := by
  intro s nt F ra k info cur acc s' arguments hk hmi hr hin hrk hpre h
  cases k with
  | zero =>
    simp only [maxArgs, Option.some.injEq, Prod.mk.injEq] at h
    obtain ⟨rfl, rfl⟩ := h
    exact ⟨hk, rfl, Ext.refl _, LowFrame.refl _ _ _, by have := hpre.1; omega, hpre.2.1⟩
  | succ k =>
    unfold maxArgs at h
    obtain ⟨hlen, hacc, hk0⟩ := hpre
    obtain ⟨hinfo, a, ha, hcur⟩ := hk0 (by omega)
    have hrc : rank cur < rank nt := by
      rw [hcur]; exact H.acyclic nt F ra hr a (List.mem_of_getElem? ha)
    split at h
    · simp at h
    · rename_i s1 hi
      obtain ⟨k1, hsome, hinit, hx1, hlf1⟩ := ihI s cur s1 hk hmi
        (fun x hx => Nat.lt_of_lt_of_le hrc (hrk x hx)) hi
      obtain ⟨hmi1, _⟩ := (init_sound E H.rows n).1 s cur s1 hmi hi
      split at h
      · rename_i hnone
        have hnone' : MN s1 cur = none := hnone
        rw [hnone'] at hsome; cases hsome
      · rename_i m hm
        split at h
        · simp at h
        · rename_i r hda
          have hgm := hmi1.nt_gen cur m hm
          obtain ⟨r2, hr2, hadv1, hadv2⟩ := deriveAll_gen E.G m cur info hgm
          rw [hda] at hr2; cases hr2
          have hpre' : PreK ra (acc ++ [m]) k r.1 r.2 s1 := by
            refine ⟨by simp; omega, ?_, ?_⟩
            · intro j m' a' hj ha'
              by_cases hjl : j < acc.length
              · rw [List.getElem?_append_left hjl] at hj
                exact hx1.1 _ _ (hacc j m' a' hj ha')
              · have hjl' : acc.length ≤ j := by omega
                rw [List.getElem?_append_right hjl'] at hj
                have hj0 : j - acc.length = 0 := by
                  cases hjj : j - acc.length with
                  | zero => rfl
                  | succ q => rw [hjj] at hj; simp at hj
                rw [hj0] at hj
                simp only [List.getElem?_cons_zero, Option.some.injEq] at hj
                subst hj
                have : j = acc.length := by omega
                subst this
                rw [ha] at ha'; cases ha'
                rw [← hcur]; exact hm
            · intro hk0'
              have hlt : acc.length + 1 < ra.length := by omega
              have hdrop : ra.drop (acc.length + 1) = ra[acc.length + 1] :: ra.drop (acc.length + 1 + 1) :=
                List.drop_eq_getElem_cons hlt
              refine ⟨?_, ra[acc.length + 1], ?_, ?_⟩
              · rw [hadv1, hinfo, hdrop]; simp
              · simp [List.getElem?_eq_getElem hlt]
              · exact hadv2 _ _ (by rw [hinfo, hdrop])
          obtain ⟨k2, hinit2, hx2, hlf2, hl2, ha2⟩ := ihA s1 nt F ra k r.1 r.2 (acc ++ [m]) s' arguments k1 hmi1 hr
            (hinit ▸ hin) (fun x hx => hrk x (hinit ▸ hx)) hpre' h
          exact ⟨k2, hinit2.trans hinit, hx1.trans hx2, (hlf1.mono (by omega)).trans hlf2, hl2, ha2⟩

/-! #### `__init_non_terminal__` -/
theorem stI_step (E : Env S Unit π) (rank : NT S Unit → Nat) (H : InitHyp E rank) (n : Nat)
    (ihL : StL E rank n) : StI E rank (n + 1) := by
  intro s nt s' hk hmi hrk h
  have hnin : nt ∉ s.initS := fun hm => Nat.lt_irrefl _ (hrk nt hm)
  unfold initNT at h
  split at h
  · rename_i hc
    exact absurd (by simpa using hc) hnin
  · split at h
    · simp at h
    · rename_i rs hrs
      have hne := H.nonempty nt rs hrs
      split at h
      · -- every rule has its entry: the non-terminal is done
        rename_i hall
        cases h
        refine ⟨hk, ?_, rfl, Ext.refl _, LowFrame.refl _ _ _⟩
        cases rs with
        | nil => exact absurd rfl hne
        | cons r0 rest =>
          have h0 := (List.all_eq_true.mp hall) r0 (List.mem_cons_self)
          cases hm : MR s nt r0.1 with
          | none =>
            have h0' : (MR s nt r0.1).isSome = true := h0
            rw [hm] at h0'; cases h0'
          | some p =>
            rcases hk.owned nt r0.1 p hm with h1 | h1
            · exact h1
            · exact absurd h1 hnin
      · rename_i hall
        -- the non-terminal has no entry at all
        have hMN : MN s nt = none := by
          cases hm : MN s nt with
          | none => rfl
          | some m =>
            exfalso
            apply hall
            apply List.all_eq_true.mpr
            intro r hr
            exact (hk.best nt rs m hrs hm).1 r.1 (List.mem_map.mpr ⟨r, hr, rfl⟩)
        have hMR : ∀ P, MR s nt P = none := by
          intro P
          cases hm : MR s nt P with
          | none => rfl
          | some p =>
            rcases hk.owned nt P p hm with h1 | h1
            · rw [hMN] at h1; cases h1
            · exact absurd h1 hnin
        split at h
        · simp at h
        · rename_i s1 best hml
          have hk0 : KInv E { s with initS := s.initS ++ [nt] } := by
            refine ⟨hk.sync, hk.best, ?_, ?_, hk.prio, hk.has_rule⟩
            · intro x hx
              rcases List.mem_append.mp hx with hx | hx
              · exact hk.prog_init x hx
              · simp only [List.mem_singleton] at hx; subst hx; exact hMN
            · intro x P p hm
              rcases hk.owned x P p hm with h1 | h1
              · exact Or.inl h1
              · exact Or.inr (List.mem_append_left _ h1)
          have hmi0 : MInv E { s with initS := s.initS ++ [nt] } := ⟨hmi.rule_gen, hmi.nt_gen, hmi.cache_ok⟩
          obtain ⟨k1, hinit1, hx1, hlf1, hall1, hbest1⟩ := ihL { s with initS := s.initS ++ [nt] } nt rs [] rs none s1 best
            hk0 hmi0 hrs rfl (List.mem_append_right _ (List.mem_singleton.mpr rfl))
            (by
              intro x hx
              rcases List.mem_append.mp hx with hx | hx
              · exact Nat.le_of_lt (hrk x hx)
              · simp only [List.mem_singleton] at hx; subst hx; exact Nat.le_refl _)
            (by intro P hP; simp [AList.keys] at hP) (fun P _ => hMR P) rfl hml
          have hinit1' : s1.initS = s.initS ++ [nt] := hinit1
          -- the best program exists: the row is not empty
          have hent : entries E s1 nt (AList.keys rs) ≠ [] := by
            cases rs with
            | nil => exact absurd rfl hne
            | cons r0 rest =>
              have h0 := hall1 r0.1 (by simp [AList.keys])
              cases hm : MR s1 nt r0.1 with
              | none => rw [hm] at h0; cases h0
              | some p =>
                unfold entries
                simp only [AList.keys, List.map_cons, List.filterMap_cons]
                have hpr := k1.prio nt r0.1 p hm
                cases hpv : prioSpec E p nt with
                | none => rw [hpv] at hpr; cases hpr
                | some v =>
                  have : entry E s1 nt r0.1 = some (v, p) := by
                    unfold entry; unfold MR at hm; rw [hm]; simp only [Option.bind_some, hpv, Option.map_some]
                  rw [this]; simp
          obtain ⟨c, hc⟩ := foldl_bestStep_ne_none (ltE E.ops) _ hent
          rw [hc] at hbest1
          cases best with
          | none => simp at hbest1
          | some b =>
            simp only [Option.map_some, Option.some.injEq] at hbest1
            simp only [Option.some.injEq] at h
            subst h
            have hMN1 : MN s1 nt = none :=
              k1.prog_init nt (hinit1' ▸ List.mem_append_right _ (List.mem_singleton.mpr rfl))
            have hMNs' : ∀ x, MN { s1 with initS := s1.initS.erase nt, maxNT := AList.insert nt b.1 s1.maxNT } x =
                if x = nt then some b.1 else MN s1 x := by
              intro x
              show AList.lookup x (AList.insert nt b.1 s1.maxNT) = _
              rw [AList.lookup_insert]
            have hxs' : Ext s1 { s1 with initS := s1.initS.erase nt, maxNT := AList.insert nt b.1 s1.maxNT } := by
              refine ⟨?_, fun _ _ _ h => h⟩
              intro x m hm
              rw [hMNs']
              split
              · rename_i heq; subst heq; rw [hMN1] at hm; cases hm
              · exact hm
            have hers : s1.initS.erase nt = s.initS := by
              rw [hinit1']; exact erase_append_self _ _ hnin
            refine ⟨⟨?_, ?_, ?_, ?_, k1.prio, k1.has_rule⟩, ?_, hers, ?_, ?_⟩
            · exact k1.ext_sync hxs'
            · intro x rs' m hl hm
              rw [hMNs'] at hm
              split at hm
              · rename_i heq
                subst heq
                rw [hrs] at hl; cases hl
                cases hm
                refine ⟨hall1, b.2, ?_⟩
                have : entries E { s1 with initS := s1.initS.erase x, maxNT := AList.insert x b.1 s1.maxNT } x
                    (AList.keys rs) = entries E s1 x (AList.keys rs) := entries_eq_of_MR E x _ (fun _ _ => rfl)
                rw [this, hc, ← hbest1]; rfl
              · obtain ⟨h1, pr, h2⟩ := k1.best x rs' m hl hm
                refine ⟨h1, pr, ?_⟩
                have : entries E { s1 with initS := s1.initS.erase nt, maxNT := AList.insert nt b.1 s1.maxNT } x
                    (AList.keys rs') = entries E s1 x (AList.keys rs') := entries_eq_of_MR E x _ (fun _ _ => rfl)
                rw [this]; exact h2
            · intro x hx
              have hx' : x ∈ s.initS := hers ▸ hx
              rw [hMNs']
              have hne' : x ≠ nt := by intro e; subst e; exact hnin hx'
              simp only [hne', if_false]
              exact k1.prog_init x (hinit1' ▸ List.mem_append_left _ hx')
            · intro x P p hm
              rcases k1.owned x P p hm with h1 | h1
              · left
                cases hmx : MN s1 x with
                | none => rw [hmx] at h1; cases h1
                | some m => rw [hxs'.1 x m hmx]; rfl
              · rw [hinit1'] at h1
                rcases List.mem_append.mp h1 with h1 | h1
                · exact Or.inr (hers ▸ h1)
                · simp only [List.mem_singleton] at h1
                  subst h1
                  left; rw [hMNs']; simp
            · rw [hMNs']; simp
            · exact (Ext.trans ⟨fun _ _ h => h, fun _ _ _ h => h⟩ hx1).trans hxs'
            · intro x hx
              obtain ⟨a1, a2⟩ := hlf1 x hx
              refine ⟨?_, a2⟩
              rw [hMNs']
              have hne' : x ≠ nt := by intro e; subst e; omega
              simp only [hne', if_false]
              exact a1

/-! #### `__compute_max_prio__` -/

theorem keys_append {κ ν : Type} (a b : AList κ ν) : AList.keys (a ++ b) = AList.keys a ++ AList.keys b := by
  simp [AList.keys]

/-- `if best_priority is None or priority < best_priority` -/
def bestUpd (lt : π → π → Bool) (best : Option (Prog × π)) (prog : Prog) (pr : π) : Option (Prog × π) :=
  match best with
  | none => some (prog, pr)
  | some b => if lt pr b.2 then some (prog, pr) else some b

/-- the state after one iteration of `__compute_max_prio__` and what the next iteration needs -/
theorem tail_facts (E : Env S Unit π) (rank : NT S Unit → Nat) (H : InitHyp E rank)
    {s s1 : St S Unit π} {nt : NT S Unit} {rs done rest' : AList Sym (List (Ty × S) × Unit)} {P : Sym}
    {ra : List (Ty × S)} {best : Option (Prog × π)}
    {args : List Prog} {c : AList (Prog × NT S Unit) π} {pr : π} {bb : Option (Prog × π)}
    (hk1 : KInv E s1) (hmi1 : MInv E s1) (hrs : AList.lookup nt E.G.rules = some rs)
    (hsplit : rs = done ++ (P, (ra, ())) :: rest') (hr : E.G.rule? nt P = some (ra, ()))
    (hin : nt ∈ s1.initS) (hx1 : Ext s s1) (hlf1 : LowFrame rank (rank nt) s s1)
    (hdone : ∀ Q ∈ AList.keys done, (MR s nt Q).isSome = true)
    (hrest : ∀ Q ∈ AList.keys ((P, (ra, ())) :: rest'), MR s nt Q = none)
    (hbest : best.map swapP = (entries E s nt (AList.keys done)).foldl (Heapq.bestStep (ltE E.ops)) none)
    (hlen : args.length = ra.length)
    (hargs : ∀ (j : Nat) m a, args[j]? = some m → ra[j]? = some a → MN s1 (argNT a) = some m)
    (hcp : computePrio E s1.cache nt (.node P args) = some (c, pr))
    (hbb : bb = bestUpd E.ops.lt best (Tree.node P args) pr) :
    KInv E { s1 with cache := c, maxRule := AList.insert (nt, P) (.node P args) s1.maxRule } ∧ MInv E { s1 with cache := c, maxRule := AList.insert (nt, P) (.node P args) s1.maxRule } ∧ Ext s { s1 with cache := c, maxRule := AList.insert (nt, P) (.node P args) s1.maxRule } ∧
    rs = (done ++ [(P, (ra, ()))]) ++ rest' ∧
    (∀ Q ∈ AList.keys (done ++ [(P, (ra, ()))]), (MR { s1 with cache := c, maxRule := AList.insert (nt, P) (.node P args) s1.maxRule } nt Q).isSome = true) ∧
    (∀ Q ∈ AList.keys rest', MR { s1 with cache := c, maxRule := AList.insert (nt, P) (.node P args) s1.maxRule } nt Q = none) ∧
    bb.map swapP = (entries E { s1 with cache := c, maxRule := AList.insert (nt, P) (.node P args) s1.maxRule } nt (AList.keys (done ++ [(P, (ra, ()))]))).foldl (Heapq.bestStep (ltE E.ops)) none ∧
    LowFrame rank (rank nt + 1) s1 { s1 with cache := c, maxRule := AList.insert (nt, P) (.node P args) s1.maxRule } ∧ gen E.G (.node P args) nt = true := by
  have hnd := H.rows nt rs hrs
  rw [hsplit, keys_append] at hnd
  simp only [AList.keys, List.map_cons] at hnd
  have hPdone : P ∉ AList.keys done := by
    intro hm
    have := (List.nodup_append.mp hnd).2.2 P hm P (List.mem_cons_self)
    exact this rfl
  have hPrest : P ∉ AList.keys rest' := (List.nodup_cons.mp (List.nodup_append.mp hnd).2.1).1
  -- the program is derivable, its priority is the specified one
  have hg : gen E.G (.node P args) nt = true := by
    rw [gen, hr]
    exact genList_of_pointwise E.G args ra hlen (fun j m a hj ha => hmi1.nt_gen _ m (hargs j m a hj ha))
  obtain ⟨hv, hcc⟩ := computePrio_spec E _ hmi1.cache_ok nt _ hg c pr hcp
  have hMRs1 : MR s1 nt P = none := by
    rw [(hlf1 nt (Nat.le_refl _)).2 P]; exact hrest P (by simp [AList.keys])
  have hMN1 : MN s1 nt = none := hk1.prog_init nt hin
  -- the new state
  have hMR2 : ∀ x Q, MR { s1 with cache := c, maxRule := AList.insert (nt, P) (.node P args) s1.maxRule } x Q =
      if (x, Q) = (nt, P) then some (.node P args) else MR s1 x Q := by
    intro x Q
    show AList.lookup (x, Q) (AList.insert (nt, P) _ s1.maxRule) = _
    rw [AList.lookup_insert]
  have hx2 : Ext s1 { s1 with cache := c, maxRule := AList.insert (nt, P) (.node P args) s1.maxRule } := by
    refine ⟨fun _ _ h => h, ?_⟩
    intro x Q p hm
    rw [hMR2]
    split
    · rename_i heq; cases heq; rw [hMRs1] at hm; cases hm
    · exact hm
  have hk2 : KInv E { s1 with cache := c, maxRule := AList.insert (nt, P) (.node P args) s1.maxRule } := by
    refine ⟨?_, ?_, hk1.prog_init, ?_, ?_, ?_⟩
    rotate_left 3
    · intro x Q p hm
      rw [hMR2] at hm
      split at hm
      · rename_i heq; cases heq; cases hm; rw [hv]; rfl
      · exact hk1.prio x Q p hm
    · intro x Q p hm
      rw [hMR2] at hm
      split at hm
      · rename_i heq; cases heq; exact ⟨ra, hr⟩
      · exact hk1.has_rule x Q p hm
    · intro x F prog ra' hm hr'
      rw [hMR2] at hm
      split at hm
      · rename_i heq
        cases heq
        cases hm
        rw [hr] at hr'; cases hr'
        exact ⟨args, rfl, fun i a m ha hm => hargs i m a hm ha⟩
      · exact hk1.sync x F prog ra' hm hr'
    · intro x rs' m hl hm
      have hxne : x ≠ nt := by intro e; subst e; rw [hMN1] at hm; cases hm
      obtain ⟨h1, pr', h2⟩ := hk1.best x rs' m hl hm
      have hsame : ∀ Q, MR { s1 with cache := c, maxRule := AList.insert (nt, P) (.node P args) s1.maxRule } x Q
          = MR s1 x Q := by
        intro Q; rw [hMR2]
        have : (x, Q) ≠ (nt, P) := by intro e; cases e; exact hxne rfl
        simp [this]
      refine ⟨fun Q hQ => by rw [hsame]; exact h1 Q hQ, pr', ?_⟩
      rw [entries_eq_of_MR E x _ (fun Q _ => hsame Q)]; exact h2
    · intro x Q p hm
      rw [hMR2] at hm
      split at hm
      · rename_i heq; cases heq; exact Or.inr hin
      · exact hk1.owned x Q p hm
  have hmi2 : MInv E { s1 with cache := c, maxRule := AList.insert (nt, P) (.node P args) s1.maxRule } := by
    refine ⟨?_, hmi1.nt_gen, hcc⟩
    intro x Q p hm
    have hm' : MR { s1 with cache := c, maxRule := AList.insert (nt, P) (.node P args) s1.maxRule } x Q = some p := hm
    rw [hMR2] at hm'
    split at hm'
    · rename_i heq; cases heq; cases hm'; exact hg
    · exact hmi1.rule_gen x Q p hm'
  have hxs2 := hx1.trans hx2
  have hsplit' : rs = (done ++ [(P, (ra, ()))]) ++ rest' := by rw [hsplit]; simp
  -- the processed prefix in the new state
  have hdone2 : ∀ Q ∈ AList.keys (done ++ [(P, (ra, ()))]),
      (MR { s1 with cache := c, maxRule := AList.insert (nt, P) (.node P args) s1.maxRule } nt Q).isSome = true := by
    intro Q hQ
    rw [keys_append] at hQ
    rcases List.mem_append.mp hQ with hQ | hQ
    · have := hdone Q hQ
      cases hm : MR s nt Q with
      | none => rw [hm] at this; cases this
      | some p => rw [hxs2.2 nt Q p hm]; rfl
    · simp only [AList.keys, List.map_cons, List.map_nil, List.mem_singleton] at hQ
      subst hQ
      rw [hMR2]; simp
  have hrest2 : ∀ Q ∈ AList.keys rest',
      MR { s1 with cache := c, maxRule := AList.insert (nt, P) (.node P args) s1.maxRule } nt Q = none := by
    intro Q hQ
    have hne : Q ≠ P := by intro e; subst e; exact hPrest hQ
    rw [hMR2]
    have : (nt, Q) ≠ (nt, P) := by intro e; cases e; exact hne rfl
    simp only [this, if_false]
    rw [(hlf1 nt (Nat.le_refl _)).2 Q]
    exact hrest Q (by simp only [AList.keys, List.map_cons, List.mem_cons]; exact Or.inr hQ)
  have hbest2 : bb.map swapP = (entries E { s1 with cache := c, maxRule := AList.insert (nt, P) (.node P args) s1.maxRule }
      nt (AList.keys (done ++ [(P, (ra, ()))]))).foldl (Heapq.bestStep (ltE E.ops)) none := by
    rw [keys_append, entries_append, List.foldl_append]
    have e1 : entries E { s1 with cache := c, maxRule := AList.insert (nt, P) (.node P args) s1.maxRule } nt
        (AList.keys done) = entries E s nt (AList.keys done) := entries_ext E hxs2 nt _ hdone
    have e2 : entries E { s1 with cache := c, maxRule := AList.insert (nt, P) (.node P args) s1.maxRule } nt
        (AList.keys [(P, (ra, ()))]) = [(pr, .node P args)] := by
      unfold entries
      simp only [AList.keys, List.map_cons, List.map_nil, List.filterMap_cons, List.filterMap_nil]
      have : entry E { s1 with cache := c, maxRule := AList.insert (nt, P) (.node P args) s1.maxRule } nt P
          = some (pr, .node P args) := by
        unfold entry
        have hm := hMR2 nt P
        simp only [if_true] at hm
        unfold MR at hm
        rw [hm]
        simp only [Option.bind_some, hv, Option.map_some]
      rw [this]
    rw [e1, e2, ← hbest, hbb]
    simp only [List.foldl_cons, List.foldl_nil]
    cases best with
    | none => rfl
    | some b =>
      simp only [bestUpd, Option.map_some, Heapq.bestStep, ltE, swapP]
      by_cases hlt : E.ops.lt pr b.2 = true <;> simp [hlt, swapP]
  refine ⟨hk2, hmi2, hxs2, hsplit', hdone2, hrest2, hbest2, ?_, hg⟩
  intro x hx
  refine ⟨rfl, ?_⟩
  intro Q
  rw [hMR2]
  have : (x, Q) ≠ (nt, P) := by intro e; cases e; omega
  simp [this]

/-- the tail of one iteration of `__compute_max_prio__`: record the program, update the best -/
theorem stL_tail (E : Env S Unit π) (rank : NT S Unit → Nat) (H : InitHyp E rank) (n : Nat)
    (ihL : StL E rank n)
    {s s1 : St S Unit π} {nt : NT S Unit} {rs done rest' : AList Sym (List (Ty × S) × Unit)} {P : Sym}
    {ra : List (Ty × S)} {best : Option (Prog × π)} {s' : St S Unit π} {best' : Option (Prog × π)}
    {args : List Prog} {c : AList (Prog × NT S Unit) π} {pr : π} {bb : Option (Prog × π)}
    (hk1 : KInv E s1) (hmi1 : MInv E s1) (hrs : AList.lookup nt E.G.rules = some rs)
    (hsplit : rs = done ++ (P, (ra, ())) :: rest') (hr : E.G.rule? nt P = some (ra, ()))
    (hin : nt ∈ s1.initS) (hrk : ∀ x ∈ s1.initS, rank nt ≤ rank x) (hinit : s1.initS = s.initS)
    (hx1 : Ext s s1) (hlf1 : LowFrame rank (rank nt) s s1)
    (hdone : ∀ Q ∈ AList.keys done, (MR s nt Q).isSome = true)
    (hrest : ∀ Q ∈ AList.keys ((P, (ra, ())) :: rest'), MR s nt Q = none)
    (hbest : best.map swapP = (entries E s nt (AList.keys done)).foldl (Heapq.bestStep (ltE E.ops)) none)
    (hlen : args.length = ra.length)
    (hargs : ∀ (j : Nat) m a, args[j]? = some m → ra[j]? = some a → MN s1 (argNT a) = some m)
    (hcp : computePrio E s1.cache nt (.node P args) = some (c, pr))
    (hbb : bb = bestUpd E.ops.lt best (Tree.node P args) pr)
    (h : maxLoop E n { s1 with cache := c, maxRule := AList.insert (nt, P) (.node P args) s1.maxRule } nt rest' bb
      = some (s', best')) :
    KInv E s' ∧ s'.initS = s.initS ∧ Ext s s' ∧ LowFrame rank (rank nt + 1) s s' ∧
    (∀ Q ∈ AList.keys rs, (MR s' nt Q).isSome = true) ∧
    best'.map swapP = (entries E s' nt (AList.keys rs)).foldl (Heapq.bestStep (ltE E.ops)) none := by
  have hnd := H.rows nt rs hrs
  rw [hsplit, keys_append] at hnd
  simp only [AList.keys, List.map_cons] at hnd
  have hPdone : P ∉ AList.keys done := by
    intro hm
    have := (List.nodup_append.mp hnd).2.2 P hm P (List.mem_cons_self)
    exact this rfl
  have hPrest : P ∉ AList.keys rest' := (List.nodup_cons.mp (List.nodup_append.mp hnd).2.1).1
  -- the program is derivable, its priority is the specified one
  have hg : gen E.G (.node P args) nt = true := by
    rw [gen, hr]
    exact genList_of_pointwise E.G args ra hlen (fun j m a hj ha => hmi1.nt_gen _ m (hargs j m a hj ha))
  obtain ⟨hv, hcc⟩ := computePrio_spec E _ hmi1.cache_ok nt _ hg c pr hcp
  have hMRs1 : MR s1 nt P = none := by
    rw [(hlf1 nt (Nat.le_refl _)).2 P]; exact hrest P (by simp [AList.keys])
  have hMN1 : MN s1 nt = none := hk1.prog_init nt hin
  -- the new state
  have hMR2 : ∀ x Q, MR { s1 with cache := c, maxRule := AList.insert (nt, P) (.node P args) s1.maxRule } x Q =
      if (x, Q) = (nt, P) then some (.node P args) else MR s1 x Q := by
    intro x Q
    show AList.lookup (x, Q) (AList.insert (nt, P) _ s1.maxRule) = _
    rw [AList.lookup_insert]
  have hx2 : Ext s1 { s1 with cache := c, maxRule := AList.insert (nt, P) (.node P args) s1.maxRule } := by
    refine ⟨fun _ _ h => h, ?_⟩
    intro x Q p hm
    rw [hMR2]
    split
    · rename_i heq; cases heq; rw [hMRs1] at hm; cases hm
    · exact hm
  have hk2 : KInv E { s1 with cache := c, maxRule := AList.insert (nt, P) (.node P args) s1.maxRule } := by
    refine ⟨?_, ?_, hk1.prog_init, ?_, ?_, ?_⟩
    rotate_left 3
    · intro x Q p hm
      rw [hMR2] at hm
      split at hm
      · rename_i heq; cases heq; cases hm; rw [hv]; rfl
      · exact hk1.prio x Q p hm
    · intro x Q p hm
      rw [hMR2] at hm
      split at hm
      · rename_i heq; cases heq; exact ⟨ra, hr⟩
      · exact hk1.has_rule x Q p hm
    · intro x F prog ra' hm hr'
      rw [hMR2] at hm
      split at hm
      · rename_i heq
        cases heq
        cases hm
        rw [hr] at hr'; cases hr'
        exact ⟨args, rfl, fun i a m ha hm => hargs i m a hm ha⟩
      · exact hk1.sync x F prog ra' hm hr'
    · intro x rs' m hl hm
      have hxne : x ≠ nt := by intro e; subst e; rw [hMN1] at hm; cases hm
      obtain ⟨h1, pr', h2⟩ := hk1.best x rs' m hl hm
      have hsame : ∀ Q, MR { s1 with cache := c, maxRule := AList.insert (nt, P) (.node P args) s1.maxRule } x Q
          = MR s1 x Q := by
        intro Q; rw [hMR2]
        have : (x, Q) ≠ (nt, P) := by intro e; cases e; exact hxne rfl
        simp [this]
      refine ⟨fun Q hQ => by rw [hsame]; exact h1 Q hQ, pr', ?_⟩
      rw [entries_eq_of_MR E x _ (fun Q _ => hsame Q)]; exact h2
    · intro x Q p hm
      rw [hMR2] at hm
      split at hm
      · rename_i heq; cases heq; exact Or.inr hin
      · exact hk1.owned x Q p hm
  have hmi2 : MInv E { s1 with cache := c, maxRule := AList.insert (nt, P) (.node P args) s1.maxRule } := by
    refine ⟨?_, hmi1.nt_gen, hcc⟩
    intro x Q p hm
    have hm' : MR { s1 with cache := c, maxRule := AList.insert (nt, P) (.node P args) s1.maxRule } x Q = some p := hm
    rw [hMR2] at hm'
    split at hm'
    · rename_i heq; cases heq; cases hm'; exact hg
    · exact hmi1.rule_gen x Q p hm'
  have hxs2 := hx1.trans hx2
  have hsplit' : rs = (done ++ [(P, (ra, ()))]) ++ rest' := by rw [hsplit]; simp
  -- the processed prefix in the new state
  have hdone2 : ∀ Q ∈ AList.keys (done ++ [(P, (ra, ()))]),
      (MR { s1 with cache := c, maxRule := AList.insert (nt, P) (.node P args) s1.maxRule } nt Q).isSome = true := by
    intro Q hQ
    rw [keys_append] at hQ
    rcases List.mem_append.mp hQ with hQ | hQ
    · have := hdone Q hQ
      cases hm : MR s nt Q with
      | none => rw [hm] at this; cases this
      | some p => rw [hxs2.2 nt Q p hm]; rfl
    · simp only [AList.keys, List.map_cons, List.map_nil, List.mem_singleton] at hQ
      subst hQ
      rw [hMR2]; simp
  have hrest2 : ∀ Q ∈ AList.keys rest',
      MR { s1 with cache := c, maxRule := AList.insert (nt, P) (.node P args) s1.maxRule } nt Q = none := by
    intro Q hQ
    have hne : Q ≠ P := by intro e; subst e; exact hPrest hQ
    rw [hMR2]
    have : (nt, Q) ≠ (nt, P) := by intro e; cases e; exact hne rfl
    simp only [this, if_false]
    rw [(hlf1 nt (Nat.le_refl _)).2 Q]
    exact hrest Q (by simp only [AList.keys, List.map_cons, List.mem_cons]; exact Or.inr hQ)
  have hbest2 : bb.map swapP = (entries E { s1 with cache := c, maxRule := AList.insert (nt, P) (.node P args) s1.maxRule }
      nt (AList.keys (done ++ [(P, (ra, ()))]))).foldl (Heapq.bestStep (ltE E.ops)) none := by
    rw [keys_append, entries_append, List.foldl_append]
    have e1 : entries E { s1 with cache := c, maxRule := AList.insert (nt, P) (.node P args) s1.maxRule } nt
        (AList.keys done) = entries E s nt (AList.keys done) := entries_ext E hxs2 nt _ hdone
    have e2 : entries E { s1 with cache := c, maxRule := AList.insert (nt, P) (.node P args) s1.maxRule } nt
        (AList.keys [(P, (ra, ()))]) = [(pr, .node P args)] := by
      unfold entries
      simp only [AList.keys, List.map_cons, List.map_nil, List.filterMap_cons, List.filterMap_nil]
      have : entry E { s1 with cache := c, maxRule := AList.insert (nt, P) (.node P args) s1.maxRule } nt P
          = some (pr, .node P args) := by
        unfold entry
        have hm := hMR2 nt P
        simp only [if_true] at hm
        unfold MR at hm
        rw [hm]
        simp only [Option.bind_some, hv, Option.map_some]
      rw [this]
    rw [e1, e2, ← hbest, hbb]
    simp only [List.foldl_cons, List.foldl_nil]
    cases best with
    | none => rfl
    | some b =>
      simp only [bestUpd, Option.map_some, Heapq.bestStep, ltE, swapP]
      by_cases hlt : E.ops.lt pr b.2 = true <;> simp [hlt, swapP]
  obtain ⟨k3, hinit3, hx3, hlf3, hall3, hbest3⟩ := ihL _ nt rs (done ++ [(P, (ra, ()))]) rest' bb s' best'
    hk2 hmi2 hrs hsplit' hin hrk hdone2 hrest2 hbest2 h
  refine ⟨k3, hinit3.trans hinit, hxs2.trans hx3, ?_, hall3, hbest3⟩
  refine ((hlf1.mono (Nat.le_succ _)).trans ?_).trans hlf3
  intro x hx
  refine ⟨rfl, ?_⟩
  intro Q
  rw [hMR2]
  have : (x, Q) ≠ (nt, P) := by intro e; cases e; omega
  simp [this]

theorem stL_step (E : Env S Unit π) (rank : NT S Unit → Nat) (H : InitHyp E rank) (n : Nat)
    (ihL : StL E rank n) (ihA : StA E rank n) : StL E rank (n + 1) := by
  intro s nt rs done rest best s' best' hk hmi hrs hsplit hin hrk hdone hrest hbest h
  cases rest with
  | nil =>
    simp only [maxLoop, Option.some.injEq, Prod.mk.injEq] at h
    obtain ⟨rfl, rfl⟩ := h
    have : rs = done := by rw [hsplit]; simp
    subst this
    exact ⟨hk, rfl, Ext.refl _, LowFrame.refl _ _ _, hdone, hbest⟩
  | cons hd rest' =>
    obtain ⟨P, ra, u⟩ := hd
    cases u
    have hr : E.G.rule? nt P = some (ra, ()) := by
      unfold TT.rule?
      rw [hrs]
      exact AList.lookup_of_mem_nodup (H.rows nt rs hrs) (by rw [hsplit]; simp)
    unfold maxLoop at h
    dsimp only at h
    by_cases hlen : ra.length > 0
    · rw [if_pos hlen] at h
      unfold derive at h
      rw [hr] at h
      dsimp only at h
      have hpreK : PreK ra [] ra.length (deriveWith [] nt ra ()).1 (deriveWith [] nt ra ()).2 s := by
        refine ⟨by simp, by intro j m a hj; simp at hj, ?_⟩
        intro _
        cases ra with
        | nil => simp at hlen
        | cons a0 as0 =>
          obtain ⟨t0, s0⟩ := a0
          exact ⟨by simp [deriveWith], (t0, s0), by simp, by simp [deriveWith, argNT]⟩
      have hpreA : PreA E ra [] ra.length (deriveWith [] nt ra ()).1 (deriveWith [] nt ra ()).2 := by
        refine ⟨by simp, by intro j m a hj; simp at hj, ?_⟩
        intro _
        cases ra with
        | nil => simp at hlen
        | cons a0 as0 =>
          obtain ⟨t0, s0⟩ := a0
          exact ⟨by simp [deriveWith], (t0, s0), by simp, by simp [deriveWith, argNT]⟩
      split at h
      · simp at h
      · rename_i s1 hb
        -- a rule is never skipped: the arguments are complete
        split at hb
        · simp at hb
        · rename_i s1' arguments hma
          obtain ⟨_, _, _, _, hal, _⟩ := ihA s nt P ra ra.length _ _ [] s1' arguments hk hmi hr hin hrk hpreK hma
          split at hb
          · rename_i hne; exact absurd hal hne
          · simp at hb
      · rename_i s1 prog hb
        split at hb
        · simp at hb
        · rename_i s1' arguments hma
          obtain ⟨k1, hinit1, hx1, hlf1, hal, hargs⟩ := ihA s nt P ra ra.length _ _ [] s1' arguments hk hmi hr hin hrk
            hpreK hma
          obtain ⟨hmi1, _, _⟩ := (init_sound E H.rows n).2.2 s ra.length _ _ [] s1' arguments ra hmi hpreA hma
          split at hb
          · simp at hb
          · simp only [Option.some.injEq, Prod.mk.injEq] at hb
            obtain ⟨rfl, rfl⟩ := hb
            split at h
            · simp at h
            · rename_i c pr hcp
              exact stL_tail E rank H n ihL k1 hmi1 hrs hsplit hr (hinit1 ▸ hin) (fun x hx => hrk x (hinit1 ▸ hx))
                hinit1 hx1 hlf1 hdone hrest hbest hal hargs hcp (by cases best <;> rfl) h
    · rw [if_neg hlen] at h
      dsimp only at h
      have hra : ra = [] := by
        cases ra with
        | nil => rfl
        | cons _ _ => simp at hlen
      subst hra
      split at h
      · simp at h
      · rename_i c pr hcp
        exact stL_tail E rank H n ihL hk hmi hrs hsplit hr hin hrk rfl (Ext.refl _) (LowFrame.refl _ _ _) hdone hrest
          hbest rfl (by intro j m a hj; simp at hj) hcp (by cases best <;> rfl) h

theorem init_K (E : Env S Unit π) (rank : NT S Unit → Nat) (H : InitHyp E rank) :
    ∀ n, StI E rank n ∧ StL E rank n ∧ StA E rank n := by
  intro n
  induction n with
  | zero =>
    refine ⟨?_, ?_, ?_⟩
    · intro s nt s' _ _ _ h; simp [initNT] at h
    · intro s nt rs done rest best s' best' _ _ _ _ _ _ _ _ _ h; simp [maxLoop] at h
    · intro s nt F ra k info cur acc s' arguments _ _ _ _ _ _ h; simp [maxArgs] at h
  | succ n ih =>
    obtain ⟨ihI, ihL, ihA⟩ := ih
    exact ⟨stI_step E rank H n ihL, stL_step E rank H n ihL ihA, stA_step E rank H n ihI ihA⟩

end PS.HG
