/- Bee search, soundness along every history: `__init__` establishes the invariant, `merge_program`,
   `next`, `take` and whole histories keep it. -/
import PS.Proofs.Enum.BeeSound
namespace PS.Bee
open PS PS.G

variable {S : Type} [DecidableEq S]
set_option linter.unusedSectionVars false
set_option linter.unusedSimpArgs false

/-- all banks are empty (state during `__init__`) -/
def BankEmpty (s : St S) : Prop := ∀ nt b, (nt, b) ∈ s.bank → b = []

theorem initRules_spec (E : Env S) (Q : NT S Unit → HeapElem → Prop) (cl : List Int) (nt : NT S Unit) (leaves : Bool)
    (hQ : ∀ P idx c, realCost E cl nt P idx = some c → Q nt ⟨c, idx, P⟩) :
    ∀ (rs : List (Sym × (List (Ty × S) × Unit))) (s s' : St S), initRules E nt leaves rs s = some s' →
      s.costList = cl → QAll Q s → QD s s' ∧ QAll Q s' := by
  intro rs
  induction rs with
  | nil =>
    intro s s' h _ hq
    simp only [initRules, Option.some.injEq] at h; subst h
    exact ⟨QD.refl _, hq⟩
  | cons r rest ih =>
    intro s s' h hcl hq
    obtain ⟨P, rl⟩ := r
    simp only [initRules] at h
    split at h
    · split at h
      · split at h
        · simp at h
        · rename_i s1 ha
          obtain ⟨hq1, _⟩ := addCombination_all E Q (fun _ _ => True) s s1 nt P _ _ ha
            (fun c _ hc => hQ P _ c (hcl ▸ hc)) (fun _ => trivial) hq (fun _ _ _ _ _ => trivial)
          have hqd := (addCombination_spec E s s1 nt P _ _ ha).1
          obtain ⟨hqd2, hq2⟩ := ih s1 s' h (hqd.cl.trans hcl) hq1
          exact ⟨hqd.trans hqd2, hq2⟩
      · exact ih s s' h hcl hq
    · split at h
      · split at h
        · simp at h
        · rename_i s1 ha
          obtain ⟨hq1, _⟩ := addCombination_all E Q (fun _ _ => True) s s1 nt P _ _ ha
            (fun c _ hc => hQ P _ c (hcl ▸ hc)) (fun _ => trivial) hq (fun _ _ _ _ _ => trivial)
          have hqd := (addCombination_spec E s s1 nt P _ _ ha).1
          obtain ⟨hqd2, hq2⟩ := ih s1 s' h (hqd.cl.trans hcl) hq1
          exact ⟨hqd.trans hqd2, hq2⟩
      · exact ih s s' h hcl hq

theorem initAll_spec (E : Env S) (leaves : Bool) :
    ∀ (tab : List (NT S Unit × AList Sym (List (Ty × S) × Unit))) (s s' : St S), initAll E leaves tab s = some s' →
      s.costList = [] → BankEmpty s → QAll (QSound E []) s →
      s'.costList = [] ∧ BankEmpty s' ∧ QAll (QSound E []) s' ∧ s'.deleted = s.deleted ∧ s'.hasMerged = s.hasMerged := by
  intro tab
  induction tab with
  | nil =>
    intro s s' h hcl hb hq
    simp only [initAll, Option.some.injEq] at h; subst h
    exact ⟨hcl, hb, hq, rfl, rfl⟩
  | cons e rest ih =>
    intro s s' h hcl hb hq
    obtain ⟨nt, rs⟩ := e
    simp only [initAll] at h
    split at h
    · simp at h
    · rename_i s1 hr
      have h0 : ∀ s0 : St S, s0 = (if leaves = true then { s with bank := AList.insert nt [] s.bank, queued := AList.insert nt [] s.queued } else s) →
          s0.costList = [] ∧ BankEmpty s0 ∧ QAll (QSound E []) s0 ∧ s0.deleted = s.deleted ∧ s0.hasMerged = s.hasMerged := by
        intro s0 hs0
        by_cases hl : leaves = true
        · rw [if_pos hl] at hs0; subst hs0
          refine ⟨hcl, ?_, ?_, rfl, rfl⟩
          · intro nt' b hm
            rcases mem_insert hm with hm | hm
            · cases hm; rfl
            · exact hb _ _ hm
          · intro nt' l hm e he
            rcases mem_insert hm with hm | hm
            · cases hm; cases he
            · exact hq _ _ hm _ he
        · rw [if_neg hl] at hs0; subst hs0
          exact ⟨hcl, hb, hq, rfl, rfl⟩
      obtain ⟨hc0, hb0, hq0, hd0, hm0⟩ := h0 _ rfl
      obtain ⟨hqd, hq1⟩ := initRules_spec E (QSound E []) [] nt leaves (fun P idx c hc => hc) rs _ s1 hr hc0 hq0
      have hb1 : BankEmpty s1 := by intro nt' b hm; rw [hqd.bank] at hm; exact hb0 _ _ hm
      obtain ⟨h1, h2, h3, h4, h5⟩ := ih s1 s' h (hqd.cl.trans hc0) hb1 hq1
      exact ⟨h1, h2, h3, h4.trans (hqd.deleted.trans hd0), h5.trans (hqd.hasMerged.trans hm0)⟩

/-- **the fresh enumerator satisfies the invariant** -/
theorem ginv_new (E : Env S) (g0 : Gen S) (h : Gen.new E = some g0) :
    GInv E g0 ∧ g0.phase = .init ∧ g0.st.costList = [] ∧ g0.st.deleted = [] ∧ g0.st.hasMerged = false ∧ BankEmpty g0.st := by
  unfold Gen.new at h
  split at h
  · simp at h
  · rename_i s1 h1
    split at h
    · simp at h
    · rename_i s2 h2
      simp only [Option.some.injEq] at h; subst h
      obtain ⟨a1, a2, a3, a4, a5⟩ := initAll_spec E true E.G.rules {} s1 h1 rfl (by intro nt b hm; cases hm)
        (by intro nt l hm; cases hm)
      obtain ⟨b1, b2, b3, b4, b5⟩ := initAll_spec E false E.G.rules s1 s2 h2 a1 a2 a3
      refine ⟨⟨⟨?_, by show QAll (QSound E s2.costList) s2; rw [b1]; exact b3⟩, trivial⟩, rfl, b1, b4.trans a4, b5.trans a5, b2⟩
      intro nt b hm ci ps hci
      rw [b2 nt b hm] at hci; cases hci

theorem mem_erase_of {α : Type} [DecidableEq α] {a b : α} {l : List α} (h : a ∈ l.erase b) : a ∈ l :=
  List.mem_of_mem_erase h

/-- **`merge_program` keeps the invariant** -/
theorem merge_sound (E : Env S) (g : Gen S) (other : Prog) (ty : Ty) (hi : GInv E g) : GInv E (merge E g other ty) := by
  unfold merge
  refine ⟨⟨?_, hi.st.queue⟩, ?_⟩
  · intro nt b hm ci ps hci p hp
    simp only [List.mem_map] at hm
    obtain ⟨e, he, heq⟩ := hm
    split at heq
    · cases heq
      unfold removeFromBank at hci
      simp only [List.mem_map] at hci
      obtain ⟨e2, he2, heq2⟩ := hci
      cases heq2
      exact hi.st.bank e.1 e.2 he e2.1 e2.2 he2 p (mem_erase_of hp)
    · subst heq
      exact hi.st.bank _ _ he _ _ hci p hp
  · have := hi.ph
    cases hph : g.phase <;> simp only [hph, PhaseOK] at this ⊢ <;> exact this

/-- `next` keeps the invariant; what it yields is sound -/
theorem next_sound (E : Env S) : ∀ (n : Nat) (g g' : Gen S) (out : Option Prog), next E n g = some (g', out) → GInv E g →
    GInv E g' ∧ ∀ p, out = some p → gen E.G p E.G.start = true ∧ E.filter p = true := by
  intro n
  induction n with
  | zero => intro g g' out h; simp [next] at h
  | succ n ih =>
    intro g g' out h hi
    simp only [next] at h
    split at h
    · simp only [Option.some.injEq, Prod.mk.injEq] at h; obtain ⟨rfl, rfl⟩ := h
      exact ⟨hi, by simp⟩
    · split at h
      · simp at h
      · rename_i g1 p hs
        simp only [Option.some.injEq, Prod.mk.injEq] at h; obtain ⟨rfl, rfl⟩ := h
        obtain ⟨h1, h2⟩ := step_sound E g g1 (some p) hs hi
        refine ⟨h1, ?_⟩
        intro q hq
        obtain ⟨a, _, c, _⟩ := h2 q hq
        exact ⟨a, c⟩
      · rename_i g1 hs
        obtain ⟨h1, _⟩ := step_sound E g g1 none hs hi
        exact ih g1 g' out h h1

theorem take_sound (E : Env S) (fuel : Nat) : ∀ (k : Nat) (g g' : Gen S) (acc out : List Prog) (fin : Bool),
    take E fuel k g acc = some (g', out, fin) → GInv E g →
    (∀ p ∈ acc, gen E.G p E.G.start = true ∧ E.filter p = true) →
    GInv E g' ∧ ∀ p ∈ out, gen E.G p E.G.start = true ∧ E.filter p = true := by
  intro k
  induction k with
  | zero =>
    intro g g' acc out fin h hi hacc
    simp only [take, Option.some.injEq, Prod.mk.injEq] at h; obtain ⟨rfl, rfl, rfl⟩ := h
    exact ⟨hi, hacc⟩
  | succ k ih =>
    intro g g' acc out fin h hi hacc
    simp only [take] at h
    split at h
    · simp at h
    · rename_i g1 hn
      simp only [Option.some.injEq, Prod.mk.injEq] at h; obtain ⟨rfl, rfl, rfl⟩ := h
      exact ⟨(next_sound E fuel g g1 none hn hi).1, hacc⟩
    · rename_i g1 p hn
      obtain ⟨h1, h2⟩ := next_sound E fuel g g1 (some p) hn hi
      apply ih g1 g' (acc ++ [p]) out fin h h1
      intro q hq
      rcases List.mem_append.mp hq with hq | hq
      · exact hacc q hq
      · simp at hq; subst hq; exact h2 q rfl

theorem runActs_sound (E : Env S) (fuel : Nat) : ∀ (acts : List Act) (g g' : Gen S) (acc out : List Prog),
    runActs E fuel acts g acc = some (g', out) → GInv E g →
    (∀ p ∈ acc, gen E.G p E.G.start = true ∧ E.filter p = true) →
    GInv E g' ∧ ∀ p ∈ out, gen E.G p E.G.start = true ∧ E.filter p = true := by
  intro acts
  induction acts with
  | nil =>
    intro g g' acc out h hi hacc
    simp only [runActs, Option.some.injEq, Prod.mk.injEq] at h; obtain ⟨rfl, rfl⟩ := h
    exact ⟨hi, hacc⟩
  | cons a rest ih =>
    intro g g' acc out h hi hacc
    cases a with
    | merge p ty =>
      simp only [runActs] at h
      exact ih _ _ _ _ h (merge_sound E g p ty hi) hacc
    | take k =>
      simp only [runActs] at h
      split at h
      · simp at h
      · rename_i g1 ys fin ht
        obtain ⟨h1, h2⟩ := take_sound E fuel k g g1 [] ys fin ht hi (by simp)
        apply ih _ _ _ _ h h1
        intro q hq
        rcases List.mem_append.mp hq with hq | hq
        · exact hacc q hq
        · exact h2 q hq

end PS.Bee
