/- Cost soundness of beap search, continued: the invariant `CInv` holds after the prologue (when no
   placeholder is left), is kept by `next` and `merge_program`; every program yielded by `next` while the
   generator is at index `n` has cost `_cost_lists[start][n]`, and `n` never decreases. -/
import PS.Proofs.Enum.BeapCost
namespace PS.Beap
open PS PS.G PS.Heapq
set_option linter.unusedSectionVars false
variable {S : Type} [DecidableEq S]

/-- invariant of a started generator object -/
def GC (E : Env S) (g : Gen S) : Prop :=
  CInv E g.st ∧ ∀ fr, g.frame = some fr → FrC E g.st E.G.start fr ∧ fr.ci = g.n

theorem nextLoop_cost (E : Env S) (fuel : Nat) : ∀ (k : Nat) (s : St S) (n : Nat) (failed : Bool) (fro : Option Frame)
    (r : Gen S × Option Prog), CInv E s → (∀ fr, fro = some fr → FrC E s E.G.start fr ∧ fr.ci = n) →
    nextLoop E fuel k s n failed fro = some r →
    GC E r.1 ∧ Ext s r.1.st ∧ n ≤ r.1.n ∧
    ∀ p, r.2 = some p → ∃ c, (r.1.st.clOf E.G.start)[r.1.n]? = some c ∧ costOf E p E.G.start = some c.fin := by
  intro k
  induction k with
  | zero => intro s n failed fro r _ _ h; simp [nextLoop] at h
  | succ k ih =>
    intro s n failed fro r hs hf h
    cases fro with
    | some fr =>
      obtain ⟨hfr, hci⟩ := hf fr rfl
      simp only [nextLoop] at h
      split at h
      · cases h
      · next s1 p fr1 hr =>
        cases h
        obtain ⟨h1, h2, h3⟩ := (cost_all E fuel).2.2.2.1 _ _ _ _ hs hfr hr
        obtain ⟨g1, g2, g3, g4⟩ := h3 p fr1 rfl
        refine ⟨⟨h1, fun fr' he => ?_⟩, h2, Nat.le_refl _, fun p' hp' => ?_⟩
        · cases he; exact ⟨g2, by rw [g3, hci]⟩
        · cases hp'
          refine ⟨fr.cost, ?_, g1⟩
          have := g2.1
          rw [g3, hci, g4] at this; exact this
      · next s1 hr =>
        obtain ⟨h1, h2, _⟩ := (cost_all E fuel).2.2.2.1 _ _ _ _ hs hfr hr
        split at h
        · cases h
          exact ⟨⟨h1, fun fr' he => by cases he⟩, h2, Nat.le_succ _, fun p' hp' => by cases hp'⟩
        · obtain ⟨q1, q2, q3, q4⟩ := ih _ _ _ _ _ h1 (fun fr' he => by cases he) h
          exact ⟨q1, h2.trans q2, by omega, q4⟩
    | none =>
      simp only [nextLoop] at h
      have hs0 : CInv E { s with failedByEmpties := false } := CInv.of_eq (s := s) (fun _ => rfl) (fun _ => rfl) (fun _ _ => rfl) hs
      have hx0 : Ext s { s with failedByEmpties := false } := Ext.of_eq (fun _ => rfl)
      split at h
      · cases h
        exact ⟨⟨hs0, fun fr' he => by cases he⟩, hx0, Nat.le_succ _, fun p' hp' => by cases hp'⟩
      · next c hc =>
        obtain ⟨q1, q2, q3, q4⟩ := ih _ _ _ _ _ hs0 (fun fr' he => by
          cases he
          exact ⟨⟨hc, fun a ha => by cases ha⟩, rfl⟩) h
        exact ⟨q1, hx0.trans q2, q3, q4⟩

/-- `merge_program` keeps the cost invariant (it only removes programs from the banks) -/
theorem merge_cost (E : Env S) (g : Gen S) (other : Prog) (ok : NT S Unit → Bool) (hg : GC E g) : GC E (merge g other ok) := by
  have hcl : ∀ nt, (merge g other ok).st.clOf nt = g.st.clOf nt := by
    intro nt; unfold merge St.clOf; simp only; unfold St.addDeleted; split <;> rfl
  have hq : ∀ nt, (merge g other ok).st.queueOf nt = g.st.queueOf nt := by
    intro nt; unfold merge St.queueOf; simp only; unfold St.addDeleted; split <;> rfl
  refine ⟨⟨fun nt c hm => hg.1.fin nt c (hcl nt ▸ hm), fun nt el hm => ?_, fun nt ci p hp => ?_⟩, fun fr he => ?_⟩
  · obtain ⟨rl, w, k, h1, h2, h3, h4⟩ := hg.1.queue nt el (hq nt ▸ hm)
    exact ⟨rl, w, k, h1, h2, (combCost_of_cl hcl _ _).trans h3, h4⟩
  · obtain ⟨c, h1, h2⟩ := hg.1.bank nt ci p (merge_bankAt_subset g other ok nt ci p hp)
    exact ⟨c, by rw [hcl nt]; exact h1, h2⟩
  · obtain ⟨h1, h2⟩ := hg.2 fr he
    exact ⟨⟨by rw [hcl]; exact h1.1, h1.2⟩, h2⟩

/-! ### the base case: the state after the prologue -/

/-- no placeholder is left in the cost lists (Boolean) -/
def finB (E : Env S) (s : St S) : Bool := (AList.keys E.G.rules).all fun nt => (s.clOf nt).all fun c => decide (c.inf = 0)

/-- every queued combination is the all-zero one (Boolean) -/
def zeroB (E : Env S) (s : St S) : Bool :=
  (AList.keys E.G.rules).all fun nt => (s.queueOf nt).all fun el => el.comb.all (· == 0)

/-- all banks are empty (Boolean) -/
def bankEmptyB (E : Env S) (s : St S) : Bool := (AList.keys E.G.rules).all fun nt => (s.bankOf nt).all fun e => e.2.isEmpty

theorem clOf_nil_of_not_mem (s : St S) (nt : NT S Unit) (h : nt ∉ AList.keys s.costLists) : s.clOf nt = [] := by
  unfold St.clOf
  cases hl : AList.lookup nt s.costLists with
  | none => rfl
  | some q =>
    have : (AList.lookup nt s.costLists).isSome := by simp [hl]
    exact absurd (AList.lookup_isSome_iff_mem_keys.mp this) h

theorem sumFirst_comb (s : St S) (hfin : ∀ nt c, c ∈ s.clOf nt → c.inf = 0) : ∀ (args : List (Ty × S)) (acc c : Cost),
    sumFirst s args acc = some c → acc.inf = 0 →
    c.inf = 0 ∧ ∃ k, combCost s args (List.replicate args.length 0) = some k ∧ c.fin = acc.fin + k := by
  intro args
  induction args with
  | nil =>
    intro acc c h ha
    simp only [sumFirst, Option.some.injEq] at h
    subst h
    exact ⟨ha, 0, by simp [combCost], by grind⟩
  | cons a as ih =>
    intro acc c h ha
    simp only [sumFirst] at h
    split at h
    · cases h
    · next c0 rest0 hcl =>
      have hc0 : c0.inf = 0 := hfin _ c0 (by rw [hcl]; exact List.mem_cons_self ..)
      obtain ⟨g1, k, g2, g3⟩ := ih (acc + c0) c h (by simp [ha, hc0])
      refine ⟨g1, c0.fin + k, ?_, ?_⟩
      · simp only [List.length_cons, List.replicate_succ, combCost, hcl, List.getElem?_cons_zero, g2]
      · rw [g3, Cost.add_fin _ _ (by simp [ha, hc0])]; grind

/-- the cost invariant for a state of the prologue kind: no placeholder, a fixpoint of `_reevaluate_`,
    all combinations zero, all banks empty -/
theorem cinv_base (E : Env S) (s : St S)
    (hfin : ∀ nt c, c ∈ s.clOf nt → c.inf = 0) (hst : Stable E s)
    (hz : ∀ nt el, el ∈ s.queueOf nt → ∀ rl, E.G.rule? nt el.P = some rl → el.comb = List.replicate rl.1.length 0)
    (hb : ∀ nt ci p, p ∉ s.bankAt nt ci) : CInv E s := by
  refine ⟨hfin, fun nt el hel => ?_, fun nt ci p hp => absurd hp (hb nt ci p)⟩
  obtain ⟨el', hre, hcost⟩ := hst nt el hel
  unfold recost at hre
  split at hre
  · next w rl hw hr =>
    split at hre
    · cases hre
    · next c hc =>
      cases hre
      simp only at hcost
      obtain ⟨g1, k, g2, g3⟩ := sumFirst_comb s hfin rl.1 (Cost.ofRat 0) c hc rfl
      refine ⟨rl, w, k, hr, hw, by rw [hz nt el hel rl hr]; exact g2, ?_⟩
      rw [← hcost]
      show Cost.add _ _ = _
      unfold Cost.add
      simp only [Cost.ofRat_inf, Cost.ofRat_fin, g1, Int.add_zero, if_true, g3]
      congr 1; grind
  · cases hre

end PS.Beap
