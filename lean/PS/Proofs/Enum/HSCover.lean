/- `compute_priority` never fails on the programs heap search builds (weights defined for every
   rule, arguments memoised), so every program added to `hash_table_program[S]` is pushed:
   seen = heap ∪ popped (no threshold). -/
import PS.Proofs.Enum.HSTables
namespace PS.HS
open PS PS.G
set_option linter.unusedSectionVars false
variable {S : Type} [DecidableEq S]

/-- a weight is defined for every rule -/
def WTotal (E : Env S Unit Rat) : Prop := ∀ nt F rl, E.G.rule? nt F = some rl → (ruleW E nt F).isSome = true

theorem prioArgs_total (E : Env S Unit Rat) (c : AList (Prog × NT S Unit) Rat) :
    ∀ (ks : List Prog) (a : Ty × S) (as : List (Ty × S)) (acc : Rat),
      genList E.G ks (a :: as) = true →
      (∀ (j : Nat) kj aj, ks[j]? = some kj → (a :: as)[j]? = some aj → (AList.lookup (kj, argNT aj) c).isSome = true) →
      ∃ p, prioArgs E c ks as (argNT a) acc = some p
  | [], a, as, acc, hg, _ => by simp [genList] at hg
  | k :: rest, (t, s0), as, acc, hg, hc => by
    simp only [genList, Bool.and_eq_true] at hg
    unfold prioArgs
    have h0 := hc 0 k (t, s0) rfl rfl
    cases hl : AList.lookup (k, argNT (t, s0)) c with
    | none => rw [hl] at h0; cases h0
    | some pa =>
      simp only
      cases as with
      | nil =>
        have hr := genList_nil_right E.G rest hg.2
        subst hr
        split
        · exact ⟨_, rfl⟩
        · obtain ⟨r2, hr2, _, _⟩ := deriveAll_gen E.G k (argNT (t, s0)) [] hg.1
          rw [hr2]
          exact ⟨E.ops.combine acc pa, by simp [prioArgs]⟩
      | cons a' as' =>
        cases rest with
        | nil => simp [genList] at hg
        | cons k' rest' =>
          simp only [List.isEmpty_cons, Bool.false_and, Bool.false_eq_true, if_false]
          obtain ⟨r2, hr2, hadv1, hadv2⟩ := deriveAll_gen E.G k (argNT (t, s0)) (a' :: as') hg.1
          rw [hr2]
          simp only
          rw [hadv1, hadv2 a' as' rfl]
          exact prioArgs_total E c (k' :: rest') a' as' _ hg.2
            (fun j kj aj hk ha => hc (j + 1) kj aj (by simpa using hk) (by simpa using ha))

/-- **`compute_priority` succeeds** on a derivable program whose arguments are memoised -/
theorem computePrio_total (E : Env S Unit Rat) (hw : WTotal E) (c : AList (Prog × NT S Unit) Rat)
    (nt : NT S Unit) (F : Sym) (args : List Prog) (ra : List (Ty × S))
    (hr : E.G.rule? nt F = some (ra, ())) (hg : genList E.G args ra = true)
    (hc : ∀ (j : Nat) kj aj, args[j]? = some kj → ra[j]? = some aj → (AList.lookup (kj, argNT aj) c).isSome = true) :
    ∃ r, computePrio E c nt (.node F args) = some r := by
  unfold computePrio
  split
  · exact ⟨_, rfl⟩
  · have hws := hw nt F _ hr
    cases hwv : ruleW E nt F with
    | none => rw [hwv] at hws; cases hws
    | some w =>
      cases args with
      | nil => exact ⟨(AList.insert (Tree.node F [], nt) (E.ops.ofRule w) c, E.ops.ofRule w), by simp [hwv]⟩
      | cons a as =>
        cases ra with
        | nil => simp [genList] at hg
        | cons a0 as0 =>
          have hlen := genList_length' E.G _ _ hg
          obtain ⟨p, hp⟩ := prioArgs_total E c (a :: as) a0 as0 (E.ops.ofRule w) hg hc
          have hdw : deriveWith ([] : Info S) nt (a0 :: as0) () = (as0, argNT a0) := by
            obtain ⟨t0, s0⟩ := a0
            simp [deriveWith, argNT]
          refine ⟨(AList.insert (Tree.node F (a :: as), nt) p c, p), ?_⟩
          simp only [hwv, derive, hr, hdw]
          have : ¬ ((a0 :: as0).length ≠ (a :: as).length) := by rw [hlen]; simp
          simp only [this, if_false, hp]

/-- the memo table only grows, and holds the program just computed -/
theorem computePrio_cache (E : Env S Unit Rat) (c : AList (Prog × NT S Unit) Rat) (nt : NT S Unit) (prog : Prog)
    (c' : AList (Prog × NT S Unit) Rat) (v : Rat) (h : computePrio E c nt prog = some (c', v))
    (hcached : E.ops.cached = true) :
    (∀ key, (AList.lookup key c).isSome = true → (AList.lookup key c').isSome = true) ∧
    (AList.lookup (prog, nt) c').isSome = true := by
  have hins : ∀ (x : Rat), (∀ key, (AList.lookup key c).isSome = true →
      (AList.lookup key (AList.insert (prog, nt) x c)).isSome = true) ∧
      (AList.lookup (prog, nt) (AList.insert (prog, nt) x c)).isSome = true := by
    intro x
    refine ⟨?_, by rw [AList.lookup_insert_self]; rfl⟩
    intro key hk
    rw [AList.lookup_insert]
    split
    · rfl
    · exact hk
  unfold computePrio at h
  split at h
  · rename_i p hp
    simp only [Option.some.injEq, Prod.mk.injEq] at h
    obtain ⟨rfl, rfl⟩ := h
    rw [hcached] at hp
    simp only [if_true] at hp
    exact ⟨fun _ hk => hk, by rw [hp]; rfl⟩
  · obtain ⟨F, kids⟩ := prog
    cases kids with
    | nil =>
      simp only at h
      split at h
      · simp at h
      · simp only [Option.some.injEq, Prod.mk.injEq] at h
        obtain ⟨rfl, _⟩ := h
        exact hins _
    | cons a as =>
      simp only at h
      split at h
      · split at h
        · simp at h
        · split at h
          · simp at h
          · simp only [Option.some.injEq, Prod.mk.injEq] at h
            obtain ⟨rfl, _⟩ := h
            exact hins _
      · simp at h

/-- **cover invariant**: every program added to `hash_table_program[S]` is in the heap or was
    popped; heap elements and popped programs are memoised -/
structure CInv (s : St S Unit Rat) : Prop where
  seen_cover : ∀ nt p, p ∈ s.seenOf nt → p ∈ s.heapProgs nt ∨ ∃ k, AList.lookup k (s.succOf nt) = some p
  heap_cached : ∀ nt e, e ∈ s.heapOf nt → (AList.lookup (e.2, nt) s.cache).isSome = true
  val_cached : ∀ nt k v, AList.lookup k (s.succOf nt) = some v → (AList.lookup (v, nt) s.cache).isSome = true

theorem pushNew_eq (E : Env S Unit Rat) (s : St S Unit Rat) (nt : NT S Unit) (np : Prog)
    (c' : AList (Prog × NT S Unit) Rat) (v : Rat) (hcp : computePrio E s.cache nt np = some (c', v))
    (hok : pushOK E.ops v = true) :
    pushNew E s nt np =
      St.setHeap { s.addSeen nt np with cache := c' } nt (Heapq.push (ltE E.ops) (s.heapOf nt) (v, np)) := by
  unfold pushNew
  have : computePrio E (s.addSeen nt np).cache nt np = some (c', v) := hcp
  simp only [this, hok, if_true]
  rfl

theorem cinv_pop (E : Env S Unit Rat) (H0 : NT S Unit → List (Rat × Prog)) : PopStep E H0 CInv := by
  intro s nt key e h' hf hP hp hkey hnone
  have hsucc := popTake_succOf s nt key e h'
  have hprogs := popTake_heapProgs s nt key e h'
  have hperm := pop_progs hp
  obtain ⟨hm, hsub⟩ := mem_of_pop _ _ _ _ hp
  have hstab := (hf.ninv.popTake nt key e h' hp hnone).2
  refine ⟨?_, ?_, ?_⟩
  · intro nt' p hmem
    have hmem' : p ∈ s.seenOf nt' := hmem
    rcases hP.seen_cover nt' p hmem' with hh | ⟨k, hk⟩
    · rw [hprogs]
      by_cases hne : nt' = nt
      · subst hne
        simp only [if_true]
        rcases List.mem_cons.mp (hperm.subset hh) with rfl | hin
        · right
          exact ⟨key, by rw [hsucc]; simp only [if_true]; exact AList.lookup_insert_self _ _ _⟩
        · exact Or.inl hin
      · simp only [hne, if_false]; exact Or.inl hh
    · exact Or.inr ⟨k, hstab nt' k p hk⟩
  · intro nt' e' he'
    have he'' : e' ∈ (s.setHeap nt h').heapOf nt' := he'
    rw [St.heapOf_setHeap] at he''
    show (AList.lookup (e'.2, nt') s.cache).isSome = true
    split at he''
    · rename_i heq; subst heq; exact hP.heap_cached _ e' (hsub e' he'')
    · exact hP.heap_cached nt' e' he''
  · intro nt' k v hk
    show (AList.lookup (v, nt') s.cache).isSome = true
    rw [hsucc] at hk
    split at hk
    · rename_i heq; subst heq
      rw [AList.lookup_insert] at hk
      split at hk
      · cases hk; exact hP.heap_cached _ e hm
      · exact hP.val_cached _ k v hk
    · exact hP.val_cached nt' k v hk

/-- static hypotheses of the push step -/
structure CoverHyp (E : Env S Unit Rat) (H0 : NT S Unit → List (Rat × Prog)) : Prop where
  wtotal : WTotal E
  thr : E.ops.thr = none
  cached : E.ops.cached = true
  h0_nonempty : ∀ nt F ra, E.G.rule? nt F = some (ra, ()) → ∀ a ∈ ra, H0 (argNT a) ≠ []

theorem cinv_push (E : Env S Unit Rat) (H0 : NT S Unit → List (Rat × Prog)) (HC : CoverHyp E H0) :
    PushStep E H0 CInv := by
  intro s1 F args nt i r ra a ai hf hP hr hgl ha hai hseen hne hq
  unfold pushStep
  cases r with
  | none => exact hP
  | some q =>
    simp only
    split
    · exact hP
    · rename_i hguard
      obtain ⟨hlk, hgq⟩ := hq q rfl
      have hgl' : genList E.G (args.set i q) ra = true := genList_set E.G args ra i q a hgl ha hgq
      -- the arguments of the new program are memoised
      have hargs : ∀ (j : Nat) kj aj, (args.set i q)[j]? = some kj → ra[j]? = some aj →
          (AList.lookup (kj, argNT aj) s1.cache).isSome = true := by
        intro j kj aj hkj haj
        by_cases hji : j = i
        · subst hji
          have hlen : j < args.length := (List.getElem?_eq_some_iff.mp hai).1
          rw [List.getElem?_set_self hlen] at hkj
          cases hkj
          rw [ha] at haj; cases haj
          exact hP.val_cached _ _ _ hlk
        · rw [List.getElem?_set_ne (Ne.symm hji)] at hkj
          rcases hf.oinv.args nt F args ra hseen hr j kj aj hkj haj with ⟨k, hk⟩ | ⟨hempty, hfp⟩
          · exact hP.val_cached _ k kj hk
          · have hh0 := HC.h0_nonempty nt F ra hr aj (List.mem_of_getElem? haj)
            cases hpop : Heapq.pop (ltE E.ops) (H0 (argNT aj)) with
            | none => exact absurd ((Heapq.pop_none_iff _ _).mp hpop) hh0
            | some eh =>
              obtain ⟨e, h'⟩ := eh
              have he2 := hfp e h' hpop
              have hmem := (mem_of_pop _ _ _ _ hpop).1
              rw [← hf.oinv.fresh _ hempty] at hmem
              rw [← he2]
              exact hP.heap_cached _ e hmem
      obtain ⟨⟨c', v⟩, hcp⟩ := computePrio_total E HC.wtotal s1.cache nt F (args.set i q) ra hr hgl' hargs
      have hok : pushOK E.ops v = true := by unfold pushOK; rw [HC.thr]
      rw [pushNew_eq E s1 nt _ c' v hcp hok]
      obtain ⟨hmono, hnew⟩ := computePrio_cache E s1.cache nt _ c' v hcp HC.cached
      have hpp := Heapq.push_perm (ltE E.ops) (s1.heapOf nt) (v, Tree.node F (args.set i q))
      refine ⟨?_, ?_, ?_⟩
      · intro nt' p hmem
        have hmem' : p ∈ (s1.addSeen nt (Tree.node F (args.set i q))).seenOf nt' := hmem
        rw [St.seenOf_addSeen] at hmem'
        have hsuccsame : ∀ k, AList.lookup k ((St.setHeap { s1.addSeen nt (Tree.node F (args.set i q)) with cache := c' } nt
            (Heapq.push (ltE E.ops) (s1.heapOf nt) (v, Tree.node F (args.set i q)))).succOf nt') =
            AList.lookup k (s1.succOf nt') := fun _ => rfl
        have hheap : (St.setHeap { s1.addSeen nt (Tree.node F (args.set i q)) with cache := c' } nt
            (Heapq.push (ltE E.ops) (s1.heapOf nt) (v, Tree.node F (args.set i q)))).heapProgs nt' =
            if nt' = nt then (Heapq.push (ltE E.ops) (s1.heapOf nt) (v, Tree.node F (args.set i q))).map (·.2)
            else s1.heapProgs nt' := by
          unfold St.heapProgs
          rw [St.heapOf_setHeap]
          split <;> rfl
        rw [hheap]
        split at hmem'
        · rename_i heq
          subst heq
          simp only [if_true]
          rcases List.mem_append.mp hmem' with hold | hnew'
          · rcases hP.seen_cover _ p hold with hh | hv
            · left
              obtain ⟨e0, he0, he02⟩ := List.mem_map.mp hh
              exact List.mem_map.mpr ⟨e0, hpp.symm.subset (List.mem_cons_of_mem _ he0), he02⟩
            · exact Or.inr hv
          · simp only [List.mem_singleton] at hnew'
            subst hnew'
            left
            exact List.mem_map.mpr ⟨(v, _), hpp.symm.subset (List.mem_cons_self), rfl⟩
        · rename_i hne'
          simp only [hne', if_false]
          exact hP.seen_cover nt' p hmem'
      · intro nt' e' he'
        show (AList.lookup (e'.2, nt') c').isSome = true
        rw [St.heapOf_setHeap] at he'
        split at he'
        · rename_i heq
          subst heq
          rcases List.mem_cons.mp (hpp.subset he') with rfl | hold
          · exact hnew
          · exact hmono _ (hP.heap_cached _ e' hold)
        · exact hmono _ (hP.heap_cached nt' e' he')
      · intro nt' k v' hk
        show (AList.lookup (v', nt') c').isSome = true
        exact hmono _ (hP.val_cached nt' k v' hk)

theorem big_cinv {E : Env S Unit Rat} {rank} (H : OrdHyp E rank) {H0 : NT S Unit → List (Rat × Prog)}
    (HC : CoverHyp E H0)
    {c : Call S Unit} {s s' : St S Unit Rat} {r : Option Prog} (hb : Big E c s s' r)
    (hf : Full E H0 s) (h1 : SPre E c) (h2 : NPre c s) (h3 : OPre E H0 c s) (hP : CInv s) : CInv s' :=
  big_generic H CInv (cinv_pop E H0) (cinv_push E H0 HC) hb hf h1 h2 h3 hP

end PS.HS
