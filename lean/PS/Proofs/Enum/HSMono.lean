/- Monotonicity of the probability in each argument (what DESIGN B.2 (I4) uses): replacing an
   argument by a less probable one gives a program that is not more probable. -/
import PS.Proofs.Mass
import PS.Proofs.Enum.HSSound
namespace PS.HS
open PS PS.G
set_option linter.unusedSectionVars false
variable {S : Type} [DecidableEq S]

/-- all rule weights are non-negative -/
def WNonneg (tags : Tags S Unit) : Prop := ∀ nt P, 0 ≤ weight tags nt P

theorem derWeight_nonneg (tags : Tags S Unit) (h : WNonneg tags) (d : List (NT S Unit × Sym)) :
    0 ≤ derWeight tags d := by
  unfold derWeight
  induction d with
  | nil => simp only [List.map_nil, List.prod_nil]; decide
  | cons x xs ih =>
    simp only [List.map_cons, List.prod_cons]
    exact Rat.mul_nonneg (h x.1 x.2) ih

theorem prob_nonneg (G : TT S Unit) (tags : Tags S Unit) (h : WNonneg tags) (t : Prog) (nt : NT S Unit) :
    0 ≤ prob G tags t nt := by
  unfold prob
  split
  · exact derWeight_nonneg tags h _
  · exact Rat.le_refl

/-- the product over the arguments, as in `prob_node` -/
def argProd (G : TT S Unit) (tags : Tags S Unit) (ra : List (Ty × S)) (ks : List Prog) : Rat :=
  ((ra.zip ks).map (fun p => prob G tags p.2 (argNT p.1))).prod

theorem argProd_nonneg (G : TT S Unit) (tags : Tags S Unit) (h : WNonneg tags) :
    ∀ (ra : List (Ty × S)) (ks : List Prog), 0 ≤ argProd G tags ra ks
  | [], _ => by simp only [argProd, List.zip_nil_left, List.map_nil, List.prod_nil]; decide
  | _ :: _, [] => by simp only [argProd, List.zip_nil_right, List.map_nil, List.prod_nil]; decide
  | a :: ra, k :: ks => by
    simp only [argProd, List.zip_cons_cons, List.map_cons, List.prod_cons]
    exact Rat.mul_nonneg (prob_nonneg G tags h k (argNT a)) (argProd_nonneg G tags h ra ks)

theorem argProd_set_le (G : TT S Unit) (tags : Tags S Unit) (h : WNonneg tags) :
    ∀ (ra : List (Ty × S)) (ks : List Prog) (i : Nat) (q ai : Prog) (a : Ty × S),
      ra[i]? = some a → ks[i]? = some ai → prob G tags q (argNT a) ≤ prob G tags ai (argNT a) →
      argProd G tags ra (ks.set i q) ≤ argProd G tags ra ks
  | [], _, _, _, _, _, ha, _, _ => by simp at ha
  | _ :: _, [], _, _, _, _, _, hk, _ => by simp at hk
  | a0 :: ra, k :: ks, 0, q, ai, a, ha, hk, hle => by
    simp only [List.getElem?_cons_zero, Option.some.injEq] at ha hk
    subst ha; subst hk
    simp only [List.set_cons_zero, argProd, List.zip_cons_cons, List.map_cons, List.prod_cons]
    exact Rat.mul_le_mul_of_nonneg_right hle (argProd_nonneg G tags h ra ks)
  | a0 :: ra, k :: ks, i + 1, q, ai, a, ha, hk, hle => by
    simp only [List.getElem?_cons_succ] at ha hk
    simp only [List.set_cons_succ, argProd, List.zip_cons_cons, List.map_cons, List.prod_cons]
    exact Rat.mul_le_mul_of_nonneg_left (argProd_set_le G tags h ra ks i q ai a ha hk hle)
      (prob_nonneg G tags h k (argNT a0))

/-- **monotonicity**: the successor of an argument gives a program that is not more probable -/
theorem prob_set_le (G : TT S Unit) (tags : Tags S Unit) (h : WNonneg tags) (nt : NT S Unit) (F : Sym)
    (ra : List (Ty × S)) (args : List Prog) (i : Nat) (q ai : Prog) (a : Ty × S)
    (hr : G.rule? nt F = some (ra, ())) (hg : genList G args ra = true)
    (ha : ra[i]? = some a) (hai : args[i]? = some ai) (hq : gen G q (argNT a) = true)
    (hle : prob G tags q (argNT a) ≤ prob G tags ai (argNT a)) :
    prob G tags (.node F (args.set i q)) nt ≤ prob G tags (.node F args) nt := by
  rw [prob_node G tags nt F ra args hr hg,
    prob_node G tags nt F ra (args.set i q) hr (genList_set G args ra i q a hg ha hq)]
  exact Rat.mul_le_mul_of_nonneg_left (argProd_set_le G tags h ra args i q ai a ha hai hle) (h nt F)

end PS.HS
