/- Bee search, ORDER: with a non-negative cost table the global cost list is strictly increasing, every queued
   element costs at least the cost of the current round, and the costs of the rounds never decrease. -/
import PS.Proofs.Enum.BeeSound
import PS.Proofs.Enum.BeeHeap
namespace PS.Bee
open PS PS.G PS.Heapq

variable {S : Type} [DecidableEq S]
set_option linter.unusedSectionVars false
set_option linter.unusedSimpArgs false

/-- every entry of the cost table is ≥ 0 -/
def NNW (E : Env S) : Prop := ∀ nt P w, ruleCost E nt P = some w → 0 ≤ w

theorem nnw_of_check (E : Env S) (h : nonnegW E = true) : NNW E := by
  intro nt P w hw
  unfold ruleCost at hw
  cases hl : AList.lookup nt E.W with
  | none => simp [hl] at hw
  | some ws =>
    simp only [hl] at hw
    unfold nonnegW at h
    have h1 := List.all_eq_true.mp h _ (AList.lookup_some_mem hl)
    have h2 := List.all_eq_true.mp h1 _ (AList.lookup_some_mem hw)
    simpa using h2

/-- lower bounds of the real cost of a combination -/
theorem realCostLoop_lower (cl : List Int) (idx : List Nat) (hnn : ∀ x ∈ cl, 0 ≤ x) :
    ∀ (k i : Nat) (out c : Int), realCostLoop cl idx i k out = some c →
      out ≤ c ∧ ∀ j v x, i ≤ j → j < i + k → idx[j]? = some v → cl[v]? = some x → out + x ≤ c := by
  intro k
  induction k with
  | zero =>
    intro i out c h
    simp only [realCostLoop, Option.some.injEq] at h; subst h
    exact ⟨Int.le_refl _, fun j v x h1 h2 => by omega⟩
  | succ k ih =>
    intro i out c h
    simp only [realCostLoop] at h
    cases hi : idx[i]? with
    | none => simp [hi] at h
    | some j0 =>
      simp only [hi] at h
      cases hj : cl[j0]? with
      | none => simp [hj] at h
      | some y =>
        simp only [hj] at h
        obtain ⟨h1, h2⟩ := ih _ _ _ h
        have hy : 0 ≤ y := hnn y (List.mem_of_getElem? hj)
        refine ⟨by omega, ?_⟩
        intro j v x hij hjk hv hx
        by_cases hji : j = i
        · subst hji
          rw [hi] at hv; cases hv
          rw [hj] at hx; cases hx
          exact h1
        · have := h2 j v x (by omega) (by omega) hv hx
          omega

/-- monotonicity of the real cost in the indices, for a non-decreasing cost list -/
theorem realCostLoop_mono (cl : List Int) (idx idx' : List Nat)
    (hm : ∀ (a b : Nat) (x y : Int), a ≤ b → cl[a]? = some x → cl[b]? = some y → x ≤ y)
    (hp : ∀ (j a b : Nat), idx[j]? = some a → idx'[j]? = some b → a ≤ b) :
    ∀ (k i : Nat) (out out' c c' : Int), out ≤ out' → realCostLoop cl idx i k out = some c →
      realCostLoop cl idx' i k out' = some c' → c ≤ c' := by
  intro k
  induction k with
  | zero =>
    intro i out out' c c' ho h h'
    simp only [realCostLoop, Option.some.injEq] at h h'; omega
  | succ k ih =>
    intro i out out' c c' ho h h'
    simp only [realCostLoop] at h h'
    cases hi : idx[i]? with
    | none => simp [hi] at h
    | some a =>
      cases hi' : idx'[i]? with
      | none => simp [hi'] at h'
      | some b =>
        simp only [hi] at h
        simp only [hi'] at h'
        cases hx : cl[a]? with
        | none => simp [hx] at h
        | some x =>
          cases hy : cl[b]? with
          | none => simp [hy] at h'
          | some y =>
            simp only [hx] at h
            simp only [hy] at h'
            have := hm a b x y (hp i a b hi hi') hx hy
            exact ih _ _ _ _ _ (by omega) h h'

theorem pairwise_mono (cl : List Int) (h : cl.Pairwise (· < ·)) :
    ∀ (a b : Nat) (x y : Int), a ≤ b → cl[a]? = some x → cl[b]? = some y → x ≤ y := by
  intro a b x y hab hx hy
  by_cases he : a = b
  · subst he; rw [hx] at hy; cases hy; exact Int.le_refl _
  · obtain ⟨ha, rfl⟩ := List.getElem?_eq_some_iff.mp hx
    obtain ⟨hb, rfl⟩ := List.getElem?_eq_some_iff.mp hy
    have := (List.pairwise_iff_getElem.mp h) a b ha hb (by omega)
    omega

/-- a queued element: cost at least `low` and ≥ 0, combination no longer than the rule's arity -/
def QOk (E : Env S) (low : Int) : NT S Unit → HeapElem → Prop := fun nt e =>
  low ≤ e.cost ∧ 0 ≤ e.cost ∧ ∃ args, ruleArgs E nt e.P = some args ∧ e.combo.length ≤ args.length

/-- a delayed combination really needs a cost index that does not exist yet -/
def DOk (E : Env S) (cl : List Int) : NT S Unit → Delayed → Prop := fun nt d =>
  needsDelay cl d.1 d.2.2 = some true ∧ ∃ args, ruleArgs E nt d.2.1 = some args ∧ d.1.length ≤ args.length

structure OSt (E : Env S) (s : St S) (low : Int) : Prop where
  mono : s.costList.Pairwise (· < ·)
  nonneg : ∀ x ∈ s.costList, 0 ≤ x
  low_nn : 0 ≤ low
  cl_le : ∀ x ∈ s.costList, x ≤ low
  heaps : HAll s
  q : QAll (QOk E low) s
  d : DAll (DOk E s.costList) s

theorem ost_of_eq (E : Env S) {s s' : St S} {low : Int} (hc : s'.costList = s.costList) (hq : s'.queued = s.queued)
    (hd : s'.delayed = s.delayed) (h : OSt E s low) : OSt E s' low := by
  refine ⟨by rw [hc]; exact h.mono, by rw [hc]; exact h.nonneg, h.low_nn, by rw [hc]; exact h.cl_le, ?_, ?_, ?_⟩
  · intro nt l hm; rw [hq] at hm; exact h.heaps _ _ hm
  · intro nt l hm; rw [hq] at hm; exact h.q _ _ hm
  · intro nt l hm; rw [hd] at hm; rw [hc]; exact h.d _ _ hm

/-- a re-triggered combination that is no longer delayed uses the new (last) cost -/
theorem trigger_low (E : Env S) (hw : NNW E) (cl : List Int) (cost : Int) (hnn : ∀ x ∈ cl ++ [cost], 0 ≤ x)
    (nt : NT S Unit) (idx : List Nat) (P : Sym) (chk : Option Nat) (c : Int)
    (hd : DOk E cl nt (idx, P, chk)) (hn : needsDelay (cl ++ [cost]) idx chk = some false)
    (hc : realCost E (cl ++ [cost]) nt P idx = some c) : cost ≤ c ∧ 0 ≤ c := by
  obtain ⟨hold, args, ha, hlen⟩ := hd
  simp only at hold ha hlen
  -- some position holds the index `cl.length`
  have hpos : ∃ i, i < idx.length ∧ idx[i]? = some cl.length := by
    cases chk with
    | some i =>
      simp only [needsDelay] at hold hn
      cases hv : idx[i]? with
      | none => simp [hv] at hold
      | some v =>
        simp only [hv, Option.some.injEq, decide_eq_true_eq, decide_eq_false_iff_not, List.length_append,
          List.length_singleton] at hold hn
        have : v = cl.length := by omega
        subst this
        exact ⟨i, (List.getElem?_eq_some_iff.mp hv).1, hv⟩
    | none =>
      simp only [needsDelay, Option.some.injEq, List.any_eq_true, decide_eq_true_eq] at hold
      simp only [needsDelay, Option.some.injEq, List.any_eq_false, decide_eq_true_eq, List.length_append,
        List.length_singleton] at hn
      obtain ⟨v, hv, hge⟩ := hold
      have := hn v hv
      have hveq : v = cl.length := by omega
      subst hveq
      obtain ⟨i, hi, hiv⟩ := List.getElem_of_mem hv
      exact ⟨i, hi, by rw [List.getElem?_eq_getElem hi, hiv]⟩
  obtain ⟨i, hi, hiv⟩ := hpos
  unfold realCost at hc
  cases hwc : ruleCost E nt P with
  | none => simp [hwc] at hc
  | some w =>
    simp only [hwc, ha] at hc
    obtain ⟨h1, h2⟩ := realCostLoop_lower (cl ++ [cost]) idx hnn _ _ _ _ hc
    have hx : (cl ++ [cost])[cl.length]? = some cost := by simp
    have := h2 i cl.length cost (by omega) (by omega) hiv hx
    have hw0 := hw nt P w hwc
    have hcost0 : 0 ≤ cost := hnn cost (by simp)
    exact ⟨by omega, by omega⟩

/-- the order invariant of the generator: `b` is a lower bound of every cost still to come -/
def GOrd (E : Env S) (g : Gen S) (b : Int) : Prop :=
  match g.phase.cost? with
  | some c => OSt E g.st c ∧ b ≤ c
  | none => ∃ low, OSt E g.st low ∧ b ≤ low

theorem pairwise_append_lt (cl : List Int) (c : Int) (hm : cl.Pairwise (· < ·)) (hle : ∀ x ∈ cl, x ≤ c)
    (hne : cl.getLast? ≠ some c) : (cl ++ [c]).Pairwise (· < ·) := by
  rw [List.pairwise_append]
  refine ⟨hm, by simp, ?_⟩
  intro x hx y hy
  simp only [List.mem_singleton] at hy; subst hy
  have hxc := hle x hx
  by_cases he : x = y
  · -- then x is not the last element, and the last one is larger
    exfalso
    subst he
    have hnil : cl ≠ [] := by intro e; rw [e] at hx; cases hx
    have hlast : cl.getLast hnil ≠ x := by
      intro e; apply hne; rw [List.getLast?_eq_some_getLast hnil, e]
    have hdl := List.dropLast_concat_getLast hnil
    rw [← hdl] at hx hm
    rcases List.mem_append.mp hx with h1 | h1
    · have := (List.pairwise_append.mp hm).2.2 x h1 (cl.getLast hnil) (by simp)
      have := hle (cl.getLast hnil) (List.getLast_mem hnil)
      omega
    · simp at h1; exact hlast h1.symm
  · omega

/-- **one step keeps the order invariant** (for a non-negative cost table) -/
theorem step_order (E : Env S) (hw : NNW E) (g g' : Gen S) (out : Option Prog) (b : Int)
    (h : step E g = some (g', out)) (hi : GInv E g) (ho : GOrd E g b) : GOrd E g' b := by
  unfold step at h
  split at h
  · simp only [Option.some.injEq, Prod.mk.injEq] at h; obtain ⟨rfl, rfl⟩ := h; exact ho
  · -- init
    rename_i hph
    simp only [Option.some.injEq, Prod.mk.injEq] at h; obtain ⟨rfl, rfl⟩ := h
    simp only [GOrd, hph, Phase.cost?] at ho ⊢; exact ho
  · -- outer
    rename_i hph
    simp only [GOrd, hph, Phase.cost?] at ho
    obtain ⟨low, hos, hbl⟩ := ho
    dsimp only at h
    split at h
    · split at h
      · simp only [Option.some.injEq, Prod.mk.injEq] at h; obtain ⟨rfl, rfl⟩ := h
        simp only [GOrd, Phase.cost?]; exact ⟨low, hos, hbl⟩
      · simp only [Option.some.injEq, Prod.mk.injEq] at h; obtain ⟨rfl, rfl⟩ := h
        simp only [GOrd, Phase.cost?]; exact ⟨low, hos, hbl⟩
      · rename_i nt nts cost hnc
        split at h
        · simp only [Option.some.injEq, Prod.mk.injEq] at h; obtain ⟨rfl, rfl⟩ := h
          simp only [GOrd, Phase.cost?]; exact ⟨low, hos, hbl⟩
        simp only [Option.some.injEq, Prod.mk.injEq] at h; obtain ⟨rfl, rfl⟩ := h
        obtain ⟨hmin, nt0, l0, e0, hm0, he0, hc0⟩ := nextCheapest_min g.st hos.heaps _ _ hnc
        have hq0 := hos.q _ _ hm0 _ he0
        have hlc : low ≤ cost := by rw [← hc0]; exact hq0.1
        simp only [GOrd, Phase.cost?]
        refine ⟨⟨hos.mono, hos.nonneg, by rw [← hc0]; exact hq0.2.1, fun x hx => Int.le_trans (hos.cl_le x hx) hlc,
          hos.heaps, ?_, hos.d⟩, Int.le_trans hbl hlc⟩
        intro nt1 l1 hm1 e1 he1
        obtain ⟨_, h2, h3⟩ := hos.q _ _ hm1 _ he1
        exact ⟨hmin _ _ hm1 _ he1, h2, h3⟩
    · simp only [Option.some.injEq, Prod.mk.injEq] at h; obtain ⟨rfl, rfl⟩ := h
      simp only [GOrd, Phase.cost?]; exact ⟨low, hos, hbl⟩
  · -- forS []
    rename_i hph
    simp only [Option.some.injEq, Prod.mk.injEq] at h; obtain ⟨rfl, rfl⟩ := h
    simp only [GOrd, hph, Phase.cost?] at ho ⊢
    exact ⟨_, ho.1, ho.2⟩
  · -- forS (nt :: rest)
    rename_i succ cost nt rest hph
    simp only [GOrd, hph, Phase.cost?] at ho
    obtain ⟨hos, hbc⟩ := ho
    simp only at h
    split at h
    · simp at h
    · rename_i s1 ci hac
      simp only [Option.some.injEq, Prod.mk.injEq] at h; obtain ⟨rfl, rfl⟩ := h
      have hos0 : OSt E { g.st with maxIndex := AList.insert nt ((AList.lookup nt g.st.maxIndex).getD 0) g.st.maxIndex } cost :=
        ost_of_eq E (s := g.st) rfl rfl rfl hos
      have hnn' : ∀ x ∈ g.st.costList ++ [cost], 0 ≤ x := by
        intro x hx
        rcases List.mem_append.mp hx with hx | hx
        · exact hos.nonneg x hx
        · simp at hx; subst hx; exact hos.low_nn
      obtain ⟨_, _, _, _, _, hcase⟩ := addCost_all E (QOk E cost) (QOk E cost) (DOk E g.st.costList) (DOk E g.st.costList)
        (DOk E (g.st.costList ++ [cost])) _ s1 cost ci hac (fun _ _ hq => hq) (fun _ _ hd => hd)
        (fun nt idx P chk c hd hn hc => by
          obtain ⟨h1, h2⟩ := trigger_low E hw g.st.costList cost hnn' nt idx P chk c hd hn hc
          exact ⟨h1, h2, hd.2⟩)
        (fun nt idx P chk hd hn => ⟨hn, hd.2⟩) hos0.q hos0.d
      have hheaps := addCost_heaps E _ s1 cost ci hac hos0.heaps
      simp only [GOrd, Phase.cost?]
      refine ⟨?_, hbc⟩
      rcases hcase with ⟨rfl, _⟩ | ⟨hcl, hne, _, hq, hd⟩
      · exact hos0
      · refine ⟨?_, by rw [hcl]; exact hnn', hos.low_nn, ?_, hheaps, hq, by rw [hcl]; exact hd⟩
        · rw [hcl]; exact pairwise_append_lt _ _ hos.mono hos.cl_le hne
        · rw [hcl]; intro x hx
          rcases List.mem_append.mp hx with hx | hx
          · exact hos.cl_le x hx
          · simp at hx; subst hx; exact Int.le_refl _
  · -- whileQ
    rename_i succ cost nt rest maxi ci hph
    simp only [GOrd, hph, Phase.cost?] at ho
    obtain ⟨hos, hbc⟩ := ho
    simp only at h
    split at h
    · simp only [Option.some.injEq, Prod.mk.injEq] at h; obtain ⟨rfl, rfl⟩ := h
      simp only [GOrd, Phase.cost?]; exact ⟨ost_of_eq E (s := g.st) rfl rfl rfl hos, hbc⟩
    · rename_i top tl hq
      split at h
      · rename_i htop
        split at h
        · simp at h
        · rename_i el q' hpop
          have hperm := Heapq.pop_perm ltE _ _ _ hpop
          have hhead := Heapq.pop_head ltE _ _ _ hpop
          rw [hq] at hhead
          simp only [List.head?_cons, Option.some.injEq] at hhead
          subst hhead
          have helq : top ∈ g.st.queueOf nt := by rw [hq]; exact List.mem_cons_self
          obtain ⟨l0, hl0, he0⟩ := queueOf_mem helq
          have hel : realCost E g.st.costList nt top.P top.combo = some top.cost := hi.st.queue _ _ hl0 _ he0
          obtain ⟨_, _, targs, htargs, htlen⟩ := hos.q _ _ hl0 _ he0
          have hos1 : OSt E (g.st.setQueue nt q') cost := by
            refine ⟨hos.mono, hos.nonneg, hos.low_nn, hos.cl_le, ?_, ?_, hos.d⟩
            · intro nt' l hm
              rcases mem_insert hm with hm | hm
              · cases hm; exact (pop_isHeap ltE_weakOrder _ _ _ (queueOf_isHeap hos.heaps nt) hpop).1
              · exact hos.heaps _ _ hm
            · intro nt' l hm e he
              rcases mem_insert hm with hm | hm
              · cases hm
                have : e ∈ g.st.queueOf nt := (hperm.mem_iff.mpr (List.mem_cons_of_mem _ he))
                obtain ⟨l1, hl1, he1⟩ := queueOf_mem this
                exact hos.q _ _ hl1 _ he1
              · exact hos.q _ _ hm _ he
          split at h
          · simp at h
          · rename_i args hargs
            split at h
            · simp at h
            · rename_i s2 maxi' hsl
              have hQ : ∀ i v c, top.combo[i]? = some v →
                  needsDelay g.st.costList (top.combo.set i (v + 1)) (some i) = some false →
                  realCost E g.st.costList nt top.P (top.combo.set i (v + 1)) = some c →
                  QOk E cost nt ⟨c, top.combo.set i (v + 1), top.P⟩ := by
                intro i v c hv _ hc
                have hle : top.cost ≤ c := by
                  unfold realCost at hel hc
                  cases hwc : ruleCost E nt top.P with
                  | none => simp [hwc] at hel
                  | some w =>
                    simp only [hwc, hargs] at hel hc
                    refine realCostLoop_mono g.st.costList top.combo (top.combo.set i (v + 1))
                      (pairwise_mono _ hos.mono) ?_ _ _ _ _ _ _ (Int.le_refl _) hel hc
                    intro j a b' ha hb'
                    rw [List.getElem?_set] at hb'
                    by_cases hij : i = j
                    · subst hij
                      have hlt : i < top.combo.length := (List.getElem?_eq_some_iff.mp hv).1
                      simp only [hlt, if_true, Option.some.injEq] at hb'
                      rw [hv] at ha; cases ha; omega
                    · simp only [hij, if_false] at hb'
                      rw [ha] at hb'; cases hb'; exact Nat.le_refl _
                have hl0 := hos.low_nn
                have hc1 : cost ≤ c := by omega
                have hc2 : (0 : Int) ≤ c := by omega
                exact ⟨hc1, hc2, targs, htargs, by simpa using htlen⟩
              have hD : ∀ i v, top.combo[i]? = some v →
                  needsDelay g.st.costList (top.combo.set i (v + 1)) (some i) = some true →
                  DOk E g.st.costList nt (top.combo.set i (v + 1), top.P, some i) :=
                fun i v _ hn => ⟨hn, targs, htargs, by simpa using htlen⟩
              obtain ⟨hqd, hq2, hd2⟩ := succLoop_all E (QOk E cost) (DOk E g.st.costList) nt top.P top.combo
                g.st.costList hQ hD _ _ _ _ _ _ hsl rfl hos1.q hos1.d
              have hh2 := succLoop_heaps E nt top.P top.combo _ _ _ _ _ _ hsl hos1.heaps
              have hos2 : OSt E s2 cost :=
                ⟨by rw [hqd.cl]; exact hos.mono, by rw [hqd.cl]; exact hos.nonneg, hos.low_nn,
                 by rw [hqd.cl]; exact hos.cl_le, hh2, hq2, by rw [hqd.cl]; exact hd2⟩
              split at h
              · simp at h
              · simp only [Option.some.injEq, Prod.mk.injEq] at h; obtain ⟨rfl, rfl⟩ := h
                simp only [GOrd, Phase.cost?]; exact ⟨hos2, hbc⟩
              · simp only [Option.some.injEq, Prod.mk.injEq] at h; obtain ⟨rfl, rfl⟩ := h
                simp only [GOrd, Phase.cost?]; exact ⟨hos2, hbc⟩
      · simp only [Option.some.injEq, Prod.mk.injEq] at h; obtain ⟨rfl, rfl⟩ := h
        simp only [GOrd, Phase.cost?]; exact ⟨ost_of_eq E (s := g.st) rfl rfl rfl hos, hbc⟩
  · -- pend []
    rename_i hph
    simp only [Option.some.injEq, Prod.mk.injEq] at h; obtain ⟨rfl, rfl⟩ := h
    simp only [GOrd, hph, Phase.cost?] at ho ⊢; exact ho
  · -- pend (p :: ps)
    rename_i succ cost nt rest maxi ci p ps hph
    simp only [GOrd, hph, Phase.cost?] at ho
    obtain ⟨hos, hbc⟩ := ho
    cases hap : addProgram E g.st nt p ci with | mk s1 added =>
    simp only [hap] at h
    have hfr : s1.costList = g.st.costList ∧ s1.queued = g.st.queued ∧ s1.delayed = g.st.delayed := by
      have : s1 = (addProgram E g.st nt p ci).1 := by rw [hap]
      rw [this]; unfold addProgram
      split
      · exact ⟨rfl, rfl, rfl⟩
      · split <;> exact ⟨rfl, rfl, rfl⟩
    have hos1 : OSt E s1 cost := ost_of_eq E hfr.1 hfr.2.1 hfr.2.2 hos
    split at h
    · simp only [Option.some.injEq, Prod.mk.injEq] at h; obtain ⟨rfl, rfl⟩ := h
      simp only [GOrd, Phase.cost?]; exact ⟨hos1, hbc⟩
    · simp only [Option.some.injEq, Prod.mk.injEq] at h; obtain ⟨rfl, rfl⟩ := h
      simp only [GOrd, Phase.cost?]; exact ⟨hos1, hbc⟩

end PS.Bee
