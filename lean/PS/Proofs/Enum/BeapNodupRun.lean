/- No duplicates in beap search, part 3: the invariant `NI` through `_query_list_` / `query`. -/
import PS.Proofs.Enum.BeapNodup
namespace PS.Beap
open PS PS.G PS.Heapq
set_option linter.unusedSectionVars false
variable {S : Type} [DecidableEq S]

theorem ProtG.refl (x : Rat) (s : St S) (pp : Ghost S) : ProtG x s s pp pp := fun _ _ => ⟨rfl, fun _ => rfl⟩

theorem ProtG.trans {x : Rat} {a b c : St S} {p1 p2 p3 : Ghost S} (hp : Prot x a b) (h1 : ProtG x a b p1 p2)
    (h2 : ProtG x b c p2 p3) : ProtG x a c p1 p3 := by
  intro nt hl
  obtain ⟨e1, e2⟩ := h1 nt hl
  have hl' : lastGe b nt x := by
    obtain ⟨c0, g1, g2⟩ := hl
    exact ⟨c0, by rw [(hp nt ⟨c0, g1, g2⟩).1]; exact g1, g2⟩
  obtain ⟨f1, f2⟩ := h2 nt hl'
  exact ⟨f1.trans e1, fun ci => (f2 ci).trans (e2 ci)⟩

theorem ProtG.mono {x y : Rat} {s s' : St S} {pp pp' : Ghost S} (hxy : y ≤ x) (h : ProtG y s s' pp pp') : ProtG x s s' pp pp' := by
  intro nt hl
  obtain ⟨c0, g1, g2⟩ := hl
  exact h nt ⟨c0, g1, by grind⟩

/-- the programs of `ps` are in the bank entry, without repetition -/
def PossN (s : St S) (ps : List Prog) (ac : NT S Unit × Nat) : Prop := (∀ p ∈ ps, p ∈ s.bankAt ac.1 ac.2) ∧ ps.Nodup

theorem possN_nil (s : St S) (ac : NT S Unit × Nat) : PossN s [] ac := ⟨fun p hp => (by cases hp), List.nodup_nil⟩

def QLN (E : Env S) (n : Nat) : Prop :=
  ∀ s nt ci r x pp, CInv E s → OI s → NI E s pp → (∀ e, (s.clOf nt)[ci]? = some e → e.fin < x) → queryList E n s nt ci = some r →
    ∃ pp', NI E r.1 pp' ∧ BankMono s r.1 ∧ ProtG x s r.1 pp pp' ∧ PossN r.1 r.2.2 (nt, ci)
def RQN (E : Env S) (n : Nat) : Prop :=
  ∀ s nt ci s' x c pp, CInv E s → OI s → NI E s pp → (s.clOf nt)[ci]? = some c → c.fin < x → ci + 1 = (s.clOf nt).length →
    runQuery E n s nt ci = some s' → ∃ pp', NI E s' pp' ∧ BankMono s s' ∧ ProtG x s s' pp pp'
def DN (E : Env S) (n : Nat) : Prop :=
  ∀ s nt fr s' x pp, CInv E s → FrC E s nt fr → OI s → FrO s nt fr → NI E s pp →
    PendOK E s nt fr.ci fr.P fr.isFun fr.pending pp → fr.cost.fin < x → drive E n s nt fr = some s' →
    ∃ pp', NI E s' pp' ∧ BankMono s s' ∧ ProtG x s s' pp pp'
def RN (E : Env S) (n : Nat) : Prop :=
  ∀ s nt fr r x pp, CInv E s → FrC E s nt fr → OI s → FrO s nt fr → NI E s pp →
    PendOK E s nt fr.ci fr.P fr.isFun fr.pending pp → fr.cost.fin < x → resume E n s nt fr = some r →
    ∃ pp', NI E r.1 pp' ∧ BankMono s r.1 ∧ ProtG x s r.1 pp pp' ∧
      ∀ p fr', r.2 = .yield p fr' → p ∉ s.bankAt nt fr.ci ∧ p ∈ r.1.bankAt nt fr.ci ∧
        PendOK E r.1 nt fr'.ci fr'.P fr'.isFun fr'.pending pp'
def AN (E : Env S) (n : Nat) : Prop :=
  ∀ s as cs ae af acc done r x pp, CInv E s → OI s → NI E s pp →
    (∀ a c, (a, c) ∈ as.zip cs → ∃ e, (s.clOf a)[c]? = some e ∧ e.fin < x) → All2 (PossN s) acc done →
    argsLoop E n s as cs ae af acc = some r →
    ∃ pp', NI E r.1 pp' ∧ BankMono s r.1 ∧ ProtG x s r.1 pp pp' ∧ (r.2.2.1 = false → All2 (PossN r.1) r.2.2.2 (done ++ as.zip cs))

theorem PossN.mono {s s' : St S} {ps : List Prog} {ac : NT S Unit × Nat} (h : PossN s ps ac) (hm : BankMono s s') : PossN s' ps ac :=
  ⟨fun p hp => hm _ _ _ (h.1 p hp), h.2⟩

theorem qln_step (E : Env S) (n : Nat) (ih : RQN E n) (ihP : RQP E n) : QLN E (n + 1) := by
  intro s nt ci r x pp hc hs hn hb h
  have key0 : ∀ (b : Bool) (ps : List Prog), PossN s ps (nt, ci) → (r = (s, b, ps)) →
      ∃ pp', NI E r.1 pp' ∧ BankMono s r.1 ∧ ProtG x s r.1 pp pp' ∧ PossN r.1 r.2.2 (nt, ci) := by
    intro b ps hps hr; subst hr; exact ⟨pp, hn, BankMono.refl _, ProtG.refl _ _ _, hps⟩
  unfold queryList at h
  split at h
  · cases h; exact key0 true [] (possN_nil _ _) rfl
  · next hemp =>
    split at h
    · cases h; exact key0 false [] (possN_nil _ _) rfl
    · next hlen =>
      split at h
      · next ps hps =>
        cases h
        have hbk : s.bankAt nt ci = ps := by simp [St.bankAt, hps]
        exact key0 _ ps ⟨fun p hp => (by rw [hbk]; exact hp), hbk ▸ hn.k4 nt ci⟩ rfl
      · next hbank =>
        split at h
        · cases h
        · next s1 hrq =>
          have hci : ci < (s.clOf nt).length := by omega
          have hget : (s.clOf nt)[ci]? = some (s.clOf nt)[ci] := List.getElem?_eq_getElem hci
          obtain ⟨_, g2⟩ := ihP _ _ _ _ x _ hc hs hget (hb _ hget) hrq
          by_cases hl : ci + 1 = (s.clOf nt).length
          · obtain ⟨pp', q1, q2, q3⟩ := ih _ _ _ _ x _ pp hc hs hn hget (hb _ hget) hl hrq
            split at h
            · cases h; exact ⟨pp', q1, q2, q3, possN_nil _ _⟩
            · split at h
              · next ps hps =>
                cases h
                have hbk : s1.bankAt nt ci = ps := by simp [St.bankAt, hps]
                exact ⟨pp', q1, q2, q3, fun p hp => (by rw [hbk]; exact hp), hbk ▸ q1.k4 nt ci⟩
              · cases h
          · obtain ⟨q1, q2⟩ := g2 hl
            exfalso
            split at h
            · next hc' => rw [q2] at hc'; exact hemp hc'
            · split at h
              · next ps hps => rw [q1, hbank] at hps; cases hps
              · cases h

theorem rqn_step (E : Env S) (n : Nat) (ihD : DN E n) : RQN E (n + 1) := by
  intro s nt ci s' x c pp hc hs hn hget hcx hl h
  unfold runQuery at h
  split at h
  · next hnone => rw [hget] at hnone; cases hnone
  · next c' hc' =>
    have : c' = c := by rw [hget] at hc'; exact (Option.some.inj hc').symm
    subst this
    exact ihD _ _ _ _ x pp hc ⟨hget, fun a ha => by cases ha⟩ hs ⟨hl, hget⟩ hn ⟨List.nodup_nil, Or.inl rfl⟩ hcx h

theorem dn_step (E : Env S) (hpos : PosW E) (n : Nat) (ihR : RN E n) (ihD : DN E n) : DN E (n + 1) := by
  intro s nt fr s' x pp hc hfc hs hfo hn hpd hx h
  unfold drive at h
  split at h
  · cases h
  · next s1 hr =>
    cases h
    obtain ⟨pp', g1, g2, g3, _⟩ := ihR _ _ _ _ x pp hc hfc hs hfo hn hpd hx hr
    exact ⟨pp', g1, g2, g3⟩
  · next s1 p fr1 hr =>
    obtain ⟨pp1, g1, g2, g3, g4⟩ := ihR _ _ _ _ x pp hc hfc hs hfo hn hpd hx hr
    obtain ⟨c1, _, c3⟩ := (cost_all E n).2.2.2.1 _ _ _ _ hc hfc hr
    obtain ⟨_, c5, _, c7⟩ := c3 p fr1 rfl
    obtain ⟨o1, o2, o3, _⟩ := (order_all E hpos n).2.2.2.1 _ _ _ _ x hc hfc hs hfo hx hr
    obtain ⟨pp2, q1, q2, q3⟩ := ihD _ _ _ _ x pp1 c1 c5 o1 (o3 p fr1 rfl) g1 (g4 p fr1 rfl).2.2 (by rw [c7]; exact hx) h
    exact ⟨pp2, q1, g2.trans q2, ProtG.trans o2 g3 q3⟩

theorem an_step (E : Env S) (hpos : PosW E) (n : Nat) (ihQL : QLN E n) (ihA : AN E n) : AN E (n + 1) := by
  intro s as cs ae af acc done r x pp hc hs hn hb hacc h
  cases as with
  | nil =>
    simp only [argsLoop] at h; cases h
    exact ⟨pp, hn, BankMono.refl _, ProtG.refl _ _ _, fun _ => by simpa using hacc⟩
  | cons a as =>
    cases cs with
    | nil => simp [argsLoop] at h
    | cons c cs =>
      simp only [argsLoop] at h
      split at h
      · cases h
      · next s1 one poss hql =>
        obtain ⟨e0, he0, he0x⟩ := hb a c (by simp)
        have hbq : ∀ e, (s.clOf a)[c]? = some e → e.fin < x := fun e he => by rw [he0] at he; cases he; exact he0x
        obtain ⟨pp1, g1, g2, g3, g4⟩ := ihQL _ _ _ _ x pp hc hs hn hbq hql
        obtain ⟨c1, c2, _⟩ := (cost_all E n).1 _ _ _ _ hc hql
        obtain ⟨o1, o2⟩ := (order_all E hpos n).1 _ _ _ _ x hc hs hbq hql
        have g1 : NI E s1 pp1 := g1
        have hb' : ∀ a' c', (a', c') ∈ as.zip cs → ∃ e, (s1.clOf a')[c']? = some e ∧ e.fin < x := by
          intro a' c' hm
          obtain ⟨e, h1, h2⟩ := hb a' c' (by simp [hm])
          exact ⟨e, c2.get _ _ _ h1, h2⟩
        have hacc' : All2 (PossN s1) (acc ++ [poss]) (done ++ [(a, c)]) :=
          (hacc.mono (fun _ _ hr => hr.mono g2)).append (All2.cons g4 All2.nil)
        split at h
        · split at h
          · cases h; exact ⟨pp1, g1, g2, g3, fun hf => by simp at hf⟩
          · obtain ⟨pp2, q1, q2, q3, q4⟩ := ihA _ _ _ _ _ _ _ _ x pp1 c1 o1 g1 hb' hacc' h
            exact ⟨pp2, q1, g2.trans q2, ProtG.trans o2 g3 q3, fun hf => by simpa using q4 hf⟩
        · obtain ⟨pp2, q1, q2, q3, q4⟩ := ihA _ _ _ _ _ _ _ _ x pp1 c1 o1 g1 hb' hacc' h
          exact ⟨pp2, q1, g2.trans q2, ProtG.trans o2 g3 q3, fun hf => by simpa using q4 hf⟩

theorem epilogue_qb (s : St S) (nt : NT S Unit) (fr : Frame) :
    (∀ nt', (epilogue s nt fr).queueOf nt' = s.queueOf nt') ∧ (∀ nt' ci, (epilogue s nt fr).bankAt nt' ci = s.bankAt nt' ci) := by
  have m2 : ∀ nt', (markEmpty s nt fr).queueOf nt' = s.queueOf nt' := (markEmpty_tables s nt fr).2
  have m3 : ∀ nt' ci, (markEmpty s nt fr).bankAt nt' ci = s.bankAt nt' ci := by
    intro nt' ci; unfold markEmpty; split
    · exact St.addEmpty_bankAt s nt nt' fr.ci ci
    · rfl
  unfold epilogue
  simp only
  split
  · exact ⟨m2, m3⟩
  · exact ⟨m2, m3⟩

/-- a tuple of the product of the lists returned by the argument loop was taken from the banks -/
theorem tuple_prov (s : St S) : ∀ (a : List Prog) (poss : List (List Prog)) (zs : List (NT S Unit × Nat)),
    All2 (· ∈ ·) a poss → All2 (PossN s) poss zs → All2 (fun x (ac : NT S Unit × Nat) => x ∈ s.bankAt ac.1 ac.2) a zs
  | [], [], [], _, _ => All2.nil
  | _ :: _, _ :: _, _ :: _, h1, h2 => by
    cases h1 with
    | cons m1 r1 =>
      cases h2 with
      | cons m2 r2 => exact All2.cons (m2.1 _ m1) (tuple_prov s _ _ _ r1 r2)
  | [], _ :: _, _, h1, _ => by cases h1
  | _ :: _, [], _, h1, _ => by cases h1
  | [], [], _ :: _, _, h2 => by cases h2
  | _ :: _, _ :: _, [], _, h2 => by cases h2

theorem all2_nodup {α β : Type} {R : List α → β → Prop} (hR : ∀ l b, R l b → l.Nodup) : ∀ (ls : List (List α)) (bs : List β),
    All2 R ls bs → ∀ l ∈ ls, l.Nodup
  | [], _, _, l, hl => by cases hl
  | _ :: _, _ :: _, h, l, hl => by
    cases h with
    | cons h1 h2 =>
      rcases List.mem_cons.mp hl with rfl | hl'
      · exact hR _ _ h1
      · exact all2_nodup hR _ _ h2 l hl'
  | _ :: _, [], h, _, _ => by cases h

theorem rn_step (E : Env S) (hpos : PosW E) (n : Nat) (ihR : RN E n) (ihA : AN E n) : RN E (n + 1) := by
  intro s nt fr r x pp hc hfc hs hfo hn hpd hx h
  unfold resume at h
  obtain ⟨t1, t2⟩ := emit_tables E nt fr.ci fr.P fr.isFun fr.pending s
  obtain ⟨ce1, ce2, ce3⟩ := emit_cost E nt fr.ci fr.P fr.isFun fr.cost fr.pending s hc hfc.1 hfc.2
  obtain ⟨ne1, ne2, ne3, ne4⟩ := emit_ni E nt fr.ci fr.P fr.isFun pp fr.pending s hn hpd
  have hlast0 := hfo.last
  -- `nt` itself is not protected w.r.t. the outer bound
  have hunprot : ∀ (s0 : St S), s0.clOf nt = s.clOf nt → ¬ lastGe s0 nt x := by
    intro s0 he ⟨c0, g1, g2⟩
    rw [he, hlast0] at g1; cases g1
    exact absurd g2 (by grind)
  split at h
  · next s1 p rest hem =>
    cases h
    have e1 : (emit E nt fr.ci fr.P fr.isFun s fr.pending).1 = s1 := by rw [hem]
    have e2 : (emit E nt fr.ci fr.P fr.isFun s fr.pending).2 = some (p, rest) := by rw [hem]
    rw [e1] at ne1 ne2 ne3 ne4
    refine ⟨pp, ne1, ne2, ?_, fun p' fr' hy => ?_⟩
    · intro nt' hl'
      refine ⟨rfl, fun ci' => ne3 nt' ci' ?_⟩
      intro heq
      cases heq
      exact hunprot s rfl hl'
    · cases hy
      exact ne4 p rest e2
  · next s1 hem =>
    have e1 : (emit E nt fr.ci fr.P fr.isFun s fr.pending).1 = s1 := by rw [hem]
    rw [e1] at t1 t2 ce1 ce2 ne1 ne2 ne3
    have hs1 : OI s1 := hs.of_eq t1 t2
    have hc1 : CInv E s1 := ce1
    have hn1 : NI E s1 pp := ne1
    have hp1 : Prot x s s1 := Prot.of_eq t1 t2
    have hg1 : ProtG x s s1 pp pp := by
      intro nt' hl'
      refine ⟨rfl, fun ci' => ne3 nt' ci' ?_⟩
      intro heq; cases heq; exact hunprot s rfl hl'
    have hfo1 : FrO s1 nt fr := ⟨by rw [t1]; exact hfo.1, by rw [t1]; exact hfo.2⟩
    have hfc1 : FrC E s1 nt fr := hfc.ext (Ext.of_eq t1)
    have hepi : ∀ (hne : ∀ e q, s1.queueOf nt = e :: q → e.cost ≠ fr.cost), r = (epilogue s1 nt fr, Res.ret) →
        ∃ pp', NI E r.1 pp' ∧ BankMono s r.1 ∧ ProtG x s r.1 pp pp' ∧
          ∀ p fr', r.2 = .yield p fr' → p ∉ s.bankAt nt fr.ci ∧ p ∈ r.1.bankAt nt fr.ci ∧
            PendOK E r.1 nt fr'.ci fr'.P fr'.isFun fr'.pending pp' := by
      intro hne hr
      subst hr
      obtain ⟨q1, q2⟩ := epilogue_qb s1 nt fr
      refine ⟨pp, hn1.of_eq q1 q2, ne2.trans (BankMono.of_eq q2), ?_, fun _ _ hy => by cases hy⟩
      exact ProtG.trans hp1 hg1 (fun nt' _ => ⟨rfl, fun ci' => q2 nt' ci'⟩)
    split at h
    · next hq0 =>
      cases h
      exact hepi (fun e q hq => by rw [hq0] at hq; cases hq) rfl
    · next e0 q0 hq0 =>
      split at h
      · next hcost =>
        cases h
        exact hepi (fun e q hq => by rw [hq0] at hq; cases hq; simpa using hcost) rfl
      · next hcost =>
        have hcost' : e0.cost = fr.cost := by
          by_cases hce : e0.cost = fr.cost
          · exact hce
          · exact absurd hce (by simpa using hcost)
        split at h
        · cases h
        · next el q' hpop =>
          have hhead : el = e0 := by
            have := pop_head ltE _ _ _ hpop
            rw [hq0] at this; simpa using this.symm
          subst hhead
          have hel : el ∈ s1.queueOf nt := (mem_of_pop _ _ _ _ hpop el).mpr (Or.inl rfl)
          obtain ⟨rl0, w, k, hrl0, hw, hk, hcst⟩ := hc1.queue nt el hel
          have hc2 : CInv E (s1.setQueue nt q') := cinv_pop E s1 nt el q' hc1 hpop
          have hs2 : OI (s1.setQueue nt q') := oi_pop s1 nt el q' hs1 hpop
          obtain ⟨hn2, hk0pp, hk0q⟩ := pop_ni E s1 pp nt el q' hn1 hpop
          have hlast1 := hfo1.last
          have hp2 : Prot x s1 (s1.setQueue nt q') := prot_setQueue x s1 nt q' fr.cost hlast1 hx
          have hg2 : ProtG x s1 (s1.setQueue nt q') pp (gset pp nt (key2 el :: pp nt)) := by
            intro nt' hl'
            have hne' : nt' ≠ nt := by
              intro heq; subst heq; exact hunprot s1 (t1 nt') hl'
            exact ⟨gset_other _ _ _ _ hne', fun _ => rfl⟩
          have hwpos := hpos nt el.P w hw
          have hfrk : fr.cost.fin = w + k := by rw [← hcost', hcst]; rfl
          split at h
          · cases h
          · next rl hrl =>
            have : rl0 = rl := by rw [hrl0] at hrl; exact Option.some.inj hrl
            subst this
            simp only at h
            split at h
            · cases h
            · next s3 ae af poss hargs =>
              obtain ⟨_, hent⟩ := combCost_entry_le s1 hs1.pos rl0.1 el.comb k hk
              have hb : ∀ a c, (a, c) ∈ (rl0.1.map ntOf).zip el.comb →
                  ∃ e, ((s1.setQueue nt q').clOf a)[c]? = some e ∧ e.fin < fr.cost.fin := by
                intro a c hm
                obtain ⟨e, h1, h2⟩ := hent a c hm
                exact ⟨e, h1, by grind⟩
              obtain ⟨hs3, hp3⟩ := (order_all E hpos n).2.2.2.2 _ _ _ _ _ _ _ fr.cost.fin hc2 hs2 hb hargs
              obtain ⟨hc3, hx3, _⟩ := (cost_all E n).2.2.2.2 _ _ _ _ _ [] [] _ hc2 All2.nil hargs
              obtain ⟨pp3, hn3, hbm3, hg3, hposs⟩ := ihA _ _ _ _ _ [] [] _ fr.cost.fin _ hc2 hs2 hn2 hb All2.nil hargs
              simp only [List.nil_append] at hposs
              have hs3 : OI s3 := hs3
              have hc3 : CInv E s3 := hc3
              have hn3 : NI E s3 pp3 := hn3
              have hprot_nt : lastGe (s1.setQueue nt q') nt fr.cost.fin := ⟨fr.cost, hlast1, Rat.le_refl⟩
              have hnt3 : s3.clOf nt = s1.clOf nt ∧ s3.queueOf nt = q' := by
                obtain ⟨a1, a2⟩ := hp3 nt hprot_nt
                refine ⟨a1, ?_⟩
                rw [a2, St.queueOf_setQueue]; simp
              have hpp3 : pp3 nt = key2 el :: pp nt := by
                rw [(hg3 nt hprot_nt).1, gset_self]
              have hbank3 : ∀ ci', s3.bankAt nt ci' = s1.bankAt nt ci' := fun ci' => (hg3 nt hprot_nt).2 ci'
              have hx13 : Ext s1 s3 := (Ext.of_eq fun _ => rfl).trans hx3
              have hfo3 : ∀ fr' : Frame, fr'.ci = fr.ci → fr'.cost = fr.cost → FrO s3 nt fr' := by
                intro fr' h1 h2
                exact ⟨by rw [h1, hnt3.1]; exact hfo1.1, by rw [h1, h2, hnt3.1]; exact hfo1.2⟩
              have hfc3 : ∀ (ns : Bool), FrC E s3 nt { fr with noSucc := ns, pending := [] } := fun ns =>
                ⟨hx13.get _ _ _ hfc1.1, fun a ha => by cases ha⟩
              have hp03 : Prot x s s3 := (hp1.trans hp2).trans (hp3.mono (by grind))
              have hg03 : ProtG x s s3 pp pp3 :=
                ProtG.trans (hp1.trans hp2) (ProtG.trans hp1 hg1 hg2) (hg3.mono (by grind))
              have hbm03 : BankMono s s3 := (ne2.trans (BankMono.of_eq fun _ _ => rfl)).trans hbm3
              have hpend0 : ∀ (s0 : St S) (P0 : Sym) (b0 : Bool), PendOK E s0 nt fr.ci P0 b0 [] pp3 := fun _ _ _ => ⟨List.nodup_nil, Or.inl rfl⟩
              -- composing the conclusion of a recursive call made from a state `s5`
              have compose : ∀ (s5 : St S) (fr5 : Frame), fr5.ci = fr.ci → Prot x s s5 → ProtG x s s5 pp pp3 → BankMono s s5 →
                  (∃ pp', NI E r.1 pp' ∧ BankMono s5 r.1 ∧ ProtG x s5 r.1 pp3 pp' ∧
                    ∀ p fr', r.2 = .yield p fr' → p ∉ s5.bankAt nt fr5.ci ∧ p ∈ r.1.bankAt nt fr5.ci ∧
                      PendOK E r.1 nt fr'.ci fr'.P fr'.isFun fr'.pending pp') →
                  ∃ pp', NI E r.1 pp' ∧ BankMono s r.1 ∧ ProtG x s r.1 pp pp' ∧
                    ∀ p fr', r.2 = .yield p fr' → p ∉ s.bankAt nt fr.ci ∧ p ∈ r.1.bankAt nt fr.ci ∧
                      PendOK E r.1 nt fr'.ci fr'.P fr'.isFun fr'.pending pp' := by
                intro s5 fr5 hci hpr hgr hbm ⟨pp', g1, g2, g3, g4⟩
                refine ⟨pp', g1, hbm.trans g2, ProtG.trans hpr hgr g3, fun p fr' hy => ?_⟩
                obtain ⟨q1, q2, q3⟩ := g4 p fr' hy
                rw [hci] at q1 q2
                exact ⟨fun hm => q1 (hbm _ _ _ hm), q2, q3⟩
              split at h
              · exact compose s3 { fr with noSucc := fr.noSucc && (af && !ae), pending := [] } rfl hp03 hg03 hbm03
                  (ihR s3 nt { fr with noSucc := fr.noSucc && (af && !ae), pending := [] } r x pp3 hc3 (hfc3 _) hs3
                    (hfo3 _ rfl rfl) hn3 (hpend0 s3 fr.P fr.isFun) hx h)
              · next hfo' =>
                have hk3 : combCost s3 rl0.1 el.comb = some k := combCost_ext hx13 _ _ _ hk
                have hfc : fr.cost = Cost.ofRat (w + k) := by rw [← hcost', hcst]
                have hfrf : fr.cost.inf = 0 := by rw [hfc]; rfl
                have hlow3 : ∀ c ∈ s3.clOf nt, c.fin ≤ fr.cost.fin := by
                  intro c hcm
                  rw [hnt3.1] at hcm
                  exact le_last_of_pairwise _ (hs1.mono nt) fr.cost hlast1 c hcm
                obtain ⟨hs4, hcl4, hq4⟩ := succLoop_oi nt fr.cost el.P el.comb hfrf (rl0.1.map ntOf) s3 0 hs3 hlow3
                obtain ⟨hc4, _⟩ := succLoop_cost E nt el.P el.comb rl0 w k hrl0 hw (rl0.1.map ntOf) s3 0 hc3 hk3 (by simp)
                rw [← hfc] at hc4
                have hlen : (rl0.1.map ntOf).length = el.comb.length := by
                  have := combCost_length s1 _ _ _ hk; simp [this]
                have hkin : (el.P, el.comb) ∈ pp3 nt := by rw [hpp3]; exact List.mem_cons_self ..
                have hnew : ∀ t, Succ el.comb t → (el.P, t) ∉ (s3.queueOf nt).map key2 ++ pp3 nt := by
                  intro t hsucc hm
                  rw [hnt3.2, hpp3] at hm
                  have hm1 : (el.P, t) ∈ (s1.queueOf nt).map key2 ++ pp nt := by
                    rcases List.mem_append.mp hm with h1 | h1
                    · simp only [List.mem_map] at h1
                      obtain ⟨e', he', hk'⟩ := h1
                      exact List.mem_append_left _ (List.mem_map.mpr ⟨e', (mem_of_pop _ _ _ _ hpop e').mpr (Or.inr he'), hk'⟩)
                    · rcases List.mem_cons.mp h1 with h2 | h2
                      · exfalso
                        simp only [key2, Prod.mk.injEq] at h2
                        exact succ_ne _ _ hsucc h2.2
                      · exact List.mem_append_right _ h2
                  rcases hn1.k2 nt el.P t hm1 with hz | ⟨c, hc1', hc2'⟩
                  · exact succ_not_zero _ _ hsucc hz
                  · have := succ_unique _ _ _ hc2' hsucc
                    subst this
                    exact hk0pp hc1'
                obtain ⟨hn4, hbank4⟩ := succLoop_ni E s3 pp3 nt fr.cost el.P el.comb (rl0.1.map ntOf) hn3 hlen hkin hnew
                have hx34 : Ext s3 (succLoop nt fr.cost el.P el.comb s3 0 (rl0.1.map ntOf)) := Ext.of_eq hcl4
                have hp34 : Prot x s3 (succLoop nt fr.cost el.P el.comb s3 0 (rl0.1.map ntOf)) := by
                  intro nt' hl'
                  refine ⟨hcl4 nt', hq4 nt' ?_⟩
                  intro heq; subst heq
                  exact hunprot s3 (hnt3.1.trans (t1 nt')) hl'
                have hg34 : ProtG x s3 (succLoop nt fr.cost el.P el.comb s3 0 (rl0.1.map ntOf)) pp3 pp3 :=
                  fun nt' _ => ⟨rfl, fun ci' => hbank4 nt' ci'⟩
                have hbm34 : BankMono s3 (succLoop nt fr.cost el.P el.comb s3 0 (rl0.1.map ntOf)) := BankMono.of_eq hbank4
                have hfo4 : ∀ fr' : Frame, fr'.ci = fr.ci → fr'.cost = fr.cost →
                    FrO (succLoop nt fr.cost el.P el.comb s3 0 (rl0.1.map ntOf)) nt fr' := by
                  intro fr' h1 h2
                  have := hfo3 fr' h1 h2
                  exact ⟨by rw [hcl4]; exact this.1, by rw [hcl4]; exact this.2⟩
                split at h
                · exact compose _ { fr with noSucc := fr.noSucc && (af && !ae), pending := [] } rfl (hp03.trans hp34)
                    (ProtG.trans hp03 hg03 hg34) (hbm03.trans hbm34)
                    (ihR _ nt { fr with noSucc := fr.noSucc && (af && !ae), pending := [] } r x pp3 hc4 ((hfc3 _).ext hx34) hs4
                      (hfo4 _ rfl rfl) hn4 (hpend0 _ fr.P fr.isFun) hx h)
                · next hae =>
                  have haf : af = false := by
                    cases af
                    · rfl
                    · cases ae
                      · exact absurd rfl hfo'
                      · exact absurd rfl hae
                  have hposs' := hposs haf
                  have hcposs := (cost_all E n).2.2.2.2 _ _ _ _ _ [] [] _ hc2 All2.nil hargs
                  have hcposs' : All2 (PossC E s3) poss ((rl0.1.map ntOf).zip el.comb) := by
                    have := hcposs.2.2 haf; simpa using this
                  -- the state in which the product is consumed
                  have key : ∀ s5, CInv E s5 → OI s5 → NI E s5 pp3 → Ext (succLoop nt fr.cost el.P el.comb s3 0 (rl0.1.map ntOf)) s5 →
                      (∀ nt' ci', s5.bankAt nt' ci' = (succLoop nt fr.cost el.P el.comb s3 0 (rl0.1.map ntOf)).bankAt nt' ci') →
                      (∀ nt', s5.clOf nt' = (succLoop nt fr.cost el.P el.comb s3 0 (rl0.1.map ntOf)).clOf nt') →
                      (∀ nt', s5.queueOf nt' = (succLoop nt fr.cost el.P el.comb s3 0 (rl0.1.map ntOf)).queueOf nt') →
                      resume E n s5 nt { fr with noSucc := fr.noSucc && (af && !ae), P := el.P, isFun := !(rl0.1.map ntOf).isEmpty, pending := product poss } = some r →
                      ∃ pp', NI E r.1 pp' ∧ BankMono s r.1 ∧ ProtG x s r.1 pp pp' ∧
                        ∀ p fr', r.2 = .yield p fr' → p ∉ s.bankAt nt fr.ci ∧ p ∈ r.1.bankAt nt fr.ci ∧
                          PendOK E r.1 nt fr'.ci fr'.P fr'.isFun fr'.pending pp' := by
                    intro s5 hc5 hs5 hn5 hx45 hb5 hcl5 hq5 hres
                    have hbm35 : BankMono s3 s5 := hbm34.trans (BankMono.of_eq hb5)
                    have hfr5 : FrC E s5 nt { fr with noSucc := fr.noSucc && (af && !ae), P := el.P, isFun := !(rl0.1.map ntOf).isEmpty, pending := product poss } := by
                      refine ⟨(hx34.trans hx45).get _ _ _ (hx13.get _ _ _ hfc1.1), fun a ha => ?_⟩
                      simp only at ha ⊢
                      have ha2 := (mem_product poss a).mp ha
                      have hcl := tuple_cost E s3 a poss rl0.1 el.comb k ha2 hcposs' hk3
                      unfold mkProg
                      split
                      · obtain ⟨args, u⟩ := rl0
                        simp only [costOf, hrl0, hw, hcl, hfc]; rfl
                      · next hif =>
                        have hnil : rl0.1 = [] := by
                          cases hrl1 : rl0.1 with
                          | nil => rfl
                          | cons x xs => simp [hrl1] at hif
                        have hk0 : k = 0 := by
                          have := combCost_length s3 _ _ _ hk3
                          rw [hnil] at hk3 this
                          have hc0 : el.comb = [] := List.length_eq_zero_iff.mp (by simpa using this)
                          rw [hc0] at hk3
                          simpa [combCost] using hk3.symm
                        obtain ⟨args, u⟩ := rl0
                        simp only at hnil; subst hnil
                        simp only [costOf, hrl0, hw, costOfList, hfc, hk0]; rfl
                    have hfo5 : FrO s5 nt { fr with noSucc := fr.noSucc && (af && !ae), P := el.P, isFun := !(rl0.1.map ntOf).isEmpty, pending := product poss } := by
                      have := hfo4 { fr with noSucc := fr.noSucc && (af && !ae), P := el.P, isFun := !(rl0.1.map ntOf).isEmpty, pending := product poss } rfl rfl
                      exact ⟨by rw [hcl5]; exact this.1, by rw [hcl5]; exact this.2⟩
                    have hpd5 : PendOK E s5 nt fr.ci el.P (!(rl0.1.map ntOf).isEmpty) (product poss) pp3 := by
                      refine ⟨product_nodup poss (all2_nodup (fun l b (hr : PossN s3 l b) => hr.2) _ _ hposs'), Or.inr ⟨el.comb, rl0, hkin, hrl0, rfl, fun a ha => ?_⟩⟩
                      have ha2 := (mem_product poss a).mp ha
                      have hprov3 : Prov s3 rl0.1 el.comb a := ⟨tuple_prov s3 a poss _ ha2 hposs', by have := combCost_length s1 _ _ _ hk; exact this⟩
                      have hprov5 : Prov s5 rl0.1 el.comb a := hprov3.mono hbm35
                      refine ⟨hprov5, fun hmem => ?_⟩
                      -- a program already in the bank comes from an earlier pair
                      have hmem1 : mkProg el.P (!(rl0.1.map ntOf).isEmpty) a ∈ s1.bankAt nt fr.ci := by
                        rw [hb5, hbank4, hbank3] at hmem; exact hmem
                      obtain ⟨P', comb', a', rl', q1, q2, q3, q4⟩ := hn1.k3 nt fr.ci _ hmem1
                      have hne : (el.P, el.comb) ≠ (P', comb') := by
                        intro heq
                        rw [← heq] at q1
                        exact hk0pp q1
                      have hbm15 : BankMono s1 s5 := ((BankMono.of_eq fun _ _ => rfl).trans hbm3).trans hbm35
                      exact prog_differ E s5 hc5 hs5 nt el.P P' rl0 rl' hrl0 q2 el.comb comb' a a' hprov5 (q4.mono hbm15) hne q3
                    have hpr5 : Prot x s s5 := (hp03.trans hp34).trans (Prot.of_eq hcl5 hq5)
                    have hgr5 : ProtG x s s5 pp pp3 :=
                      ProtG.trans (hp03.trans hp34) (ProtG.trans hp03 hg03 hg34) (fun nt' _ => ⟨rfl, fun ci' => hb5 nt' ci'⟩)
                    exact compose s5 { fr with noSucc := fr.noSucc && (af && !ae), P := el.P, isFun := !(rl0.1.map ntOf).isEmpty, pending := product poss }
                      rfl hpr5 hgr5 ((hbm03.trans hbm34).trans (BankMono.of_eq hb5))
                      (ihR s5 nt { fr with noSucc := fr.noSucc && (af && !ae), P := el.P, isFun := !(rl0.1.map ntOf).isEmpty, pending := product poss }
                        r x pp3 hc5 hfr5 hs5 hfo5 hn5 hpd5 hx hres)
                  split at h
                  · exact key _ hc4 hs4 hn4 (Ext.refl _) (fun _ _ => rfl) (fun _ => rfl) (fun _ => rfl) h
                  · next hlk =>
                    have hbnil : (succLoop nt fr.cost el.P el.comb s3 0 (rl0.1.map ntOf)).bankAt nt fr.ci = [] := by
                      unfold St.bankAt
                      cases hlk' : AList.lookup fr.ci ((succLoop nt fr.cost el.P el.comb s3 0 (rl0.1.map ntOf)).bankOf nt) with
                      | none => rfl
                      | some v => simp [hlk'] at hlk
                    have hb5 : ∀ nt' ci', (St.setBank (succLoop nt fr.cost el.P el.comb s3 0 (rl0.1.map ntOf)) nt fr.ci []).bankAt nt' ci' =
                        (succLoop nt fr.cost el.P el.comb s3 0 (rl0.1.map ntOf)).bankAt nt' ci' := by
                      intro nt' ci'
                      rw [St.bankAt_setBank]
                      split
                      · next heq => obtain ⟨rfl, rfl⟩ := heq; exact hbnil.symm
                      · rfl
                    refine key (St.setBank (succLoop nt fr.cost el.P el.comb s3 0 (rl0.1.map ntOf)) nt fr.ci []) ?_ ?_ ?_
                      (Ext.of_eq fun _ => rfl) hb5 (fun _ => rfl) (fun _ => rfl) h
                    · refine ⟨fun nt' c hm => hc4.fin nt' c hm, fun nt' x' hm => ?_, fun nt' ci p hp => ?_⟩
                      · obtain ⟨rl, w', k', g1, g2, g3, g4⟩ := hc4.queue nt' x' hm
                        exact ⟨rl, w', k', g1, g2, by rw [combCost_setBank]; exact g3, g4⟩
                      · rw [hb5] at hp
                        exact hc4.bank nt' ci p hp
                    · exact OI.of_eq (s := succLoop nt fr.cost el.P el.comb s3 0 (rl0.1.map ntOf)) (fun _ => rfl) (fun _ => rfl) hs4
                    · exact NI.of_eq (s := succLoop nt fr.cost el.P el.comb s3 0 (rl0.1.map ntOf)) (fun _ => rfl) hb5 hn4

theorem nodup_all (E : Env S) (hpos : PosW E) : ∀ n : Nat, QLN E n ∧ RQN E n ∧ DN E n ∧ RN E n ∧ AN E n := by
  intro n
  induction n with
  | zero =>
    refine ⟨?_, ?_, ?_, ?_, ?_⟩
    · intro s nt ci r x pp _ _ _ _ h; simp [queryList] at h
    · intro s nt ci s' x c pp _ _ _ _ _ _ h; simp [runQuery] at h
    · intro s nt fr s' x pp _ _ _ _ _ _ _ h; simp [drive] at h
    · intro s nt fr r x pp _ _ _ _ _ _ _ h; simp [resume] at h
    · intro s as cs ae af acc done r x pp _ _ _ _ _ h; simp [argsLoop] at h
  | succ n ih =>
    obtain ⟨a, b, c, d, e⟩ := ih
    exact ⟨qln_step E n b (order_all E hpos n).2.1, rqn_step E n c, dn_step E hpos n d c, rn_step E hpos n d e, an_step E hpos n a e⟩

end PS.Beap
