/- Soundness of beap search, continued: the invariant `SInv` holds for the tables of `__init__`, is
   kept by `_init_non_terminal_`, `_reevaluate_`, `next` and `merge_program`; every program yielded
   by `next`, after any history of `next` / `merge_program` calls, is derivable from the start symbol
   and accepted by the filter. -/
import PS.Proofs.Enum.BeapSound
namespace PS.Beap
open PS PS.G
set_option linter.unusedSectionVars false
variable {S : Type} [DecidableEq S]

/-- Python dicts have distinct keys: every row of the rule table -/
def RowsNodup (G : TT S Unit) : Prop := ∀ nt rs, AList.lookup nt G.rules = some rs → (AList.keys rs).Nodup

theorem lookup_map_nil {κ ν ω : Type} [DecidableEq κ] (l : AList κ ν) (k : κ) :
    (AList.lookup k (l.map fun r => (r.1, ([] : List ω)))).getD [] = [] := by
  induction l with
  | nil => rfl
  | cons p r ih =>
    simp only [List.map_cons, AList.lookup]
    split
    · rfl
    · exact ih

theorem sinv_empty (E : Env S) : SInv E (St.empty E.G) := by
  refine ⟨fun nt el he => ?_, fun nt ci p hp => ?_⟩
  · have : (St.empty E.G).queueOf nt = [] := lookup_map_nil E.G.rules nt
    rw [this] at he; cases he
  · have : (St.empty E.G).bankOf nt = [] := lookup_map_nil E.G.rules nt
    simp [St.bankAt, this] at hp

/-! ### `_init_non_terminal_` -/
def INSpec (E : Env S) (n : Nat) : Prop := ∀ s nt s', SInv E s → initNT E n s nt = some s' → SInv E s'
def IRSpec (E : Env S) (n : Nat) : Prop :=
  ∀ s nt rest s', SInv E s → (∀ P rl, (P, rl) ∈ rest → E.G.rule? nt P = some rl) → initRules E n s nt rest = some s' → SInv E s'
def IASpec (E : Env S) (n : Nat) : Prop := ∀ s as c r, SInv E s → initArgs E n s as c = some r → SInv E r.1

theorem in_step (E : Env S) (hnd : RowsNodup E.G) (n : Nat) (ihIR : IRSpec E n) : INSpec E (n + 1) := by
  intro s nt s' hs h
  unfold initNT at h
  split at h
  · cases h
  · next cl hcl =>
    split at h
    · cases h; exact hs
    · split at h
      · cases h
      · next rs hrs =>
        split at h
        · cases h
        · next s1 hir =>
          have hs0 : SInv E (s.setCL nt (cl ++ [Cost.big])) := SInv.of_eq (s := s) (fun _ => rfl) (fun _ _ => rfl) hs
          have hs1 := ihIR _ _ _ _ hs0 (fun P rl hm => by
            unfold TT.rule?; rw [hrs]; exact AList.lookup_of_mem_nodup (hnd nt rs hrs) hm) hir
          split at h
          · cases h
          · cases h; exact SInv.of_eq (s := s1) (fun _ => rfl) (fun _ _ => rfl) hs1

theorem ir_step (E : Env S) (n : Nat) (ihIR : IRSpec E n) (ihIA : IASpec E n) : IRSpec E (n + 1) := by
  intro s nt rest s' hs hrest h
  cases rest with
  | nil => simp only [initRules] at h; cases h; exact hs
  | cons pr rest =>
    obtain ⟨P, rl⟩ := pr
    simp only [initRules] at h
    split at h
    · cases h
    · split at h
      · cases h
      · next w hw s1 cost hia =>
        have hs1 : SInv E s1 := ihIA _ _ _ _ hs hia
        refine ihIR _ _ _ _ (hs1.setQueue nt _ (fun el he => ?_)) (fun P' rl' hm => hrest P' rl' (List.mem_cons_of_mem _ hm)) h
        rcases (mem_push _ _ _ _).mp he with h' | h'
        · subst h'
          exact ⟨rl, hrest P rl (List.mem_cons_self ..), by simp⟩
        · exact hs1.queue nt el h'

theorem ia_step (E : Env S) (n : Nat) (ihIN : INSpec E n) (ihIA : IASpec E n) : IASpec E (n + 1) := by
  intro s as c r hs h
  cases as with
  | nil => simp only [initArgs] at h; cases h; exact hs
  | cons a as =>
    simp only [initArgs] at h
    split at h
    · cases h
    · next s1 hin =>
      have hs1 := ihIN _ _ _ hs hin
      split at h
      · cases h
      · exact ihIA _ _ _ _ hs1 h

theorem init_sound (E : Env S) (hnd : RowsNodup E.G) : ∀ n, INSpec E n ∧ IRSpec E n ∧ IASpec E n := by
  intro n
  induction n with
  | zero =>
    refine ⟨?_, ?_, ?_⟩
    · intro s nt s' _ h; simp [initNT] at h
    · intro s nt rest s' _ _ h; simp [initRules] at h
    · intro s as c r _ h; simp [initArgs] at h
  | succ n ih =>
    obtain ⟨a, b, c⟩ := ih
    exact ⟨in_step E hnd n b, ir_step E n b c, ia_step E n a c⟩

/-! ### `_reevaluate_` -/
theorem recost_keeps (E : Env S) (s : St S) (nt : NT S Unit) (el el' : HeapEl) (h : recost E s nt el = some el') :
    el'.P = el.P ∧ el'.comb = el.comb := by
  unfold recost at h
  split at h
  · split at h
    · cases h
    · cases h; exact ⟨rfl, rfl⟩
  · cases h

theorem mapOpt_mem {α β : Type} (f : α → Option β) : ∀ (l : List α) (l' : List β), mapOpt f l = some l' →
    ∀ y ∈ l', ∃ x ∈ l, f x = some y
  | [], l', h, y, hy => by simp [mapOpt] at h; subst h; cases hy
  | x :: xs, l', h, y, hy => by
    unfold mapOpt at h
    split at h
    · next y0 ys h1 h2 =>
      cases h
      rcases List.mem_cons.mp hy with rfl | hy'
      · exact ⟨x, List.mem_cons_self .., h1⟩
      · obtain ⟨x', hx', hf⟩ := mapOpt_mem f xs ys h2 y hy'
        exact ⟨x', List.mem_cons_of_mem _ hx', hf⟩
    · cases h

theorem reevalPass_sound (E : Env S) : ∀ (nts : List (NT S Unit)) (s : St S) (ch : Bool) (r : St S × Bool),
    SInv E s → reevalPass E nts s ch = some r → SInv E r.1 := by
  intro nts
  induction nts with
  | nil => intro s ch r hs h; simp only [reevalPass] at h; cases h; exact hs
  | cons nt rest ih =>
    intro s ch r hs h
    simp only [reevalPass] at h
    split at h
    · cases h
    · next nq hnq =>
      split at h
      · split at h
        · next e q' c0 cl' hh hcl =>
          refine ih _ _ _ ?_ h
          refine SInv.of_eq (s := s.setQueue nt (e :: q')) (fun _ => rfl) (fun _ _ => rfl) (hs.setQueue nt _ (fun el he => ?_))
          have hmem : el ∈ nq := by
            have := (heapify_perm ltE nq).mem_iff (a := el)
            rw [hh] at this; exact this.mp he
          obtain ⟨x, hx, hf⟩ := mapOpt_mem _ _ _ hnq el hmem
          obtain ⟨h1, h2⟩ := recost_keeps E s nt x el hf
          obtain ⟨rl, g1, g2⟩ := hs.queue nt x hx
          exact ⟨rl, h1 ▸ g1, h2 ▸ g2⟩
        · cases h
      · exact ih _ _ _ hs h

theorem reevalLoop_sound (E : Env S) : ∀ (k : Nat) (s s' : St S), SInv E s → reevalLoop E k s = some s' → SInv E s' := by
  intro k
  induction k with
  | zero => intro s s' _ h; simp [reevalLoop] at h
  | succ k ih =>
    intro s s' hs h
    simp only [reevalLoop] at h
    split at h
    · cases h
    · next s1 hp => exact ih _ _ (reevalPass_sound E _ _ _ _ hs hp) h
    · next s1 hp => cases h; exact reevalPass_sound E _ _ _ _ hs hp

theorem prologue_sound (E : Env S) (hnd : RowsNodup E.G) (fuel : Nat) (s s' : St S) (hs : SInv E s)
    (h : prologue E fuel s = some s') : SInv E s' := by
  unfold prologue at h
  split at h
  · cases h
  · next s1 hin =>
    have hs1 := (init_sound E hnd fuel).1 _ _ _ hs hin
    unfold reevaluate at h
    split at h
    · exact reevalLoop_sound E _ _ _ hs1 h
    · cases h; exact hs1

/-! ### the generator -/
/-- invariant of the generator object: tables sound, the suspended query builds derivable programs -/
def GInv (E : Env S) (g : Gen S) : Prop := SInv E g.st ∧ ∀ fr, g.frame = some fr → FrInv E E.G.start fr

theorem nextLoop_sound (E : Env S) (fuel : Nat) : ∀ (k : Nat) (s : St S) (n : Nat) (failed : Bool) (fro : Option Frame)
    (r : Gen S × Option Prog), SInv E s → (∀ fr, fro = some fr → FrInv E E.G.start fr) →
    nextLoop E fuel k s n failed fro = some r →
    GInv E r.1 ∧ ∀ p, r.2 = some p → gen E.G p E.G.start = true ∧ E.filter p = true := by
  intro k
  induction k with
  | zero => intro s n failed fro r _ _ h; simp [nextLoop] at h
  | succ k ih =>
    intro s n failed fro r hs hf h
    cases fro with
    | some fr =>
      simp only [nextLoop] at h
      split at h
      · cases h
      · next s1 p fr1 hr =>
        cases h
        obtain ⟨h1, h2⟩ := (sound_all E fuel).2.2.2.1 _ _ _ _ hs (hf fr rfl) hr
        obtain ⟨g1, g2, g3⟩ := h2 p fr1 rfl
        exact ⟨⟨h1, fun fr' he => by cases he; exact g3⟩, fun p' hp' => by cases hp'; exact ⟨g1, g2⟩⟩
      · next s1 hr =>
        have h1 := ((sound_all E fuel).2.2.2.1 _ _ _ _ hs (hf fr rfl) hr).1
        split at h
        · cases h; exact ⟨⟨h1, fun fr' he => by cases he⟩, fun p' hp' => by cases hp'⟩
        · exact ih _ _ _ _ _ h1 (fun fr' he => by cases he) h
    | none =>
      simp only [nextLoop] at h
      have hs0 : SInv E { s with failedByEmpties := false } := SInv.of_eq (s := s) (fun _ => rfl) (fun _ _ => rfl) hs
      split at h
      · cases h; exact ⟨⟨hs0, fun fr' he => by cases he⟩, fun p' hp' => by cases hp'⟩
      · exact ih _ _ _ _ _ hs0 (fun fr' he => by cases he; intro a ha; cases ha) h

theorem next_sound (E : Env S) (hnd : RowsNodup E.G) (fuel : Nat) (g : Gen S) (r : Gen S × Option Prog)
    (hg : GInv E g) (h : next E fuel g = some r) :
    GInv E r.1 ∧ ∀ p, r.2 = some p → gen E.G p E.G.start = true ∧ E.filter p = true := by
  unfold next at h
  split at h
  · cases h; exact ⟨hg, fun p hp => by cases hp⟩
  · split at h
    · exact nextLoop_sound E fuel _ _ _ _ _ _ hg.1 hg.2 h
    · split at h
      · cases h
      · next s hp =>
        exact nextLoop_sound E fuel _ _ _ _ _ _ (prologue_sound E hnd fuel _ _ hg.1 hp) (fun fr he => by cases he) h

theorem ginv_new (E : Env S) : GInv E (Gen.new E.G) := ⟨sinv_empty E, fun fr he => by cases he⟩

theorem lookup_map_val {κ ν : Type} [DecidableEq κ] (f : κ → ν → ν) (l : AList κ ν) (k : κ) :
    AList.lookup k (l.map fun r => (r.1, f r.1 r.2)) = (AList.lookup k l).map (f k) := by
  induction l with
  | nil => rfl
  | cons p r ih =>
    simp only [List.map_cons, AList.lookup]
    split
    · next h => subst h; rfl
    · exact ih

/-- `merge_program` only removes programs from the banks -/
theorem merge_bankAt_subset (g : Gen S) (other : Prog) (ok : NT S Unit → Bool) (nt : NT S Unit) (ci : Nat) (p : Prog)
    (hp : p ∈ (merge g other ok).st.bankAt nt ci) : p ∈ g.st.bankAt nt ci := by
  unfold merge at hp
  simp only [St.bankAt, St.bankOf] at hp ⊢
  have hb : (g.st.addDeleted other).bank = g.st.bank := by unfold St.addDeleted; split <;> rfl
  rw [hb] at hp
  have := lookup_map_val (fun k (b : AList Nat (List Prog)) => if ok k then b.map (fun e => (e.1, e.2.erase other)) else b) g.st.bank nt
  have heq : (g.st.bank.map fun r => if ok r.1 = true then (r.1, r.2.map fun e => (e.1, e.2.erase other)) else r) =
      (g.st.bank.map fun r => (r.1, if ok r.1 = true then r.2.map (fun e => (e.1, e.2.erase other)) else r.2)) := by
    apply List.map_congr_left
    intro r _
    split <;> rfl
  rw [heq, this] at hp
  cases hl : AList.lookup nt g.st.bank with
  | none => simp [hl] at hp
  | some b =>
    simp only [hl, Option.map_some, Option.getD_some] at hp ⊢
    split at hp
    · have := lookup_map_val (fun _ (ps : List Prog) => ps.erase other) b ci
      rw [this] at hp
      cases hl2 : AList.lookup ci b with
      | none => simp [hl2] at hp
      | some ps =>
        simp only [hl2, Option.map_some, Option.getD_some] at hp ⊢
        exact List.mem_of_mem_erase hp
    · exact hp

theorem merge_sound (E : Env S) (g : Gen S) (other : Prog) (ok : NT S Unit → Bool) (hg : GInv E g) :
    GInv E (merge g other ok) := by
  refine ⟨⟨fun nt el he => hg.1.queue nt el ?_, fun nt ci p hp => hg.1.bank nt ci p (merge_bankAt_subset g other ok nt ci p hp)⟩, hg.2⟩
  have : (merge g other ok).st.queueOf nt = g.st.queueOf nt := by
    unfold merge St.queueOf
    simp only
    unfold St.addDeleted; split <;> rfl
  rw [this] at he; exact he

end PS.Beap
