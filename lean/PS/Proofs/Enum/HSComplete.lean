/- Completeness of heap search on acyclic context-free grammars (no filter, no threshold): when the
   generator stops, every program derivable from the start symbol was yielded. -/
import PS.Proofs.Enum.HSBaseMore
namespace PS.HS
open PS PS.G
set_option linter.unusedSectionVars false
variable {S : Type} [DecidableEq S]

/-- `Quiet` without "every non-terminal has started" -/
structure Quiet0 (E : Env S Unit Rat) (H0 : NT S Unit → List (Rat × Prog)) (s : St S Unit Rat) : Prop where
  full : Full E H0 s
  tinv : TInv E H0 s
  cinv : CInv s
  i3 : I3 E s
  init_seen : ∀ nt F ra, E.G.rule? nt F = some (ra, ()) →
    ∃ ms, Tree.node F ms ∈ s.seenOf nt ∧
      ∀ (i : Nat) a m, ra[i]? = some a → ms[i]? = some m → FP E H0 (argNT a) m

def Started (E : Env S Unit Rat) (s : St S Unit Rat) : Prop :=
  ∀ nt rs, AList.lookup nt E.G.rules = some rs → s.succOf nt ≠ []

theorem Quiet0.quiet {E : Env S Unit Rat} {H0} {s : St S Unit Rat} (q : Quiet0 E H0 s) (hs : Started E s) :
    Quiet E H0 s := ⟨q.full, q.tinv, q.cinv, q.i3, hs, q.init_seen⟩

theorem Started.stable {E : Env S Unit Rat} {s s' : St S Unit Rat} (hs : Started E s) (hst : Stable s s') :
    Started E s' := by
  intro nt rs hl hempty
  have hne := hs nt rs hl
  cases hT : s.succOf nt with
  | nil => exact hne hT
  | cons p r =>
    obtain ⟨k, v⟩ := p
    have : AList.lookup k (s.succOf nt) = some v := by rw [hT]; simp [AList.lookup]
    have := hst nt k v this
    rw [hempty] at this; simp at this

/-- a top-level `query` keeps the quiescent invariants -/
theorem quiet0_query {E : Env S Unit Rat} {rank} (H : OrdHyp E rank) {H0 : NT S Unit → List (Rat × Prog)}
    (HC : CoverHyp E H0) {s s' : St S Unit Rat} {nt : NT S Unit} {p r : Option Prog}
    (q : Quiet0 E H0 s) (hpre : OPre E H0 (.query nt p) s) (hb : Big E (.query nt p) s s' r) : Quiet0 E H0 s' := by
  refine ⟨(big_full H hb q.full trivial trivial hpre).1, big_tinv H hb q.full trivial trivial hpre q.tinv,
    big_cinv H HC hb q.full trivial trivial hpre q.cinv, ?_, ?_⟩
  · intro nt' k y hk
    rcases (big_i3 H hb q.full trivial trivial hpre).1 nt' k y hk with hold | hd
    · exact (q.i3 nt' k y hold).stable hb q.full.ninv trivial (fun _ _ _ _ _ _ _ h => h)
    · exact hd
  · intro nt' F ra hr
    obtain ⟨ms, hm, hfp⟩ := q.init_seen nt' F ra hr
    exact ⟨ms, big_seenMono E hb q.full.ninv trivial _ _ hm, hfp⟩

theorem filterMap_length_of_all {α β : Type} (f : α → Option β) (l : List α) (h : ∀ x ∈ l, (f x).isSome = true) :
    (l.filterMap f).length = l.length := by
  induction l with
  | nil => rfl
  | cons x r ih =>
    have hx := h x (List.mem_cons_self)
    cases hfx : f x with
    | none => rw [hfx] at hx; cases hx
    | some y =>
      simp only [List.filterMap_cons, hfx, List.length_cons]
      rw [ih (fun z hz => h z (List.mem_cons_of_mem _ hz))]

/-- static hypotheses of the completeness theorem -/
structure CompHyp (E : Env S Unit Rat) (rank : NT S Unit → Nat) : Prop where
  ord : OrdHyp E rank
  init : InitHyp E rank
  thr : E.ops.thr = none
  keys : (AList.keys E.G.rules).Nodup
  wtotal : WTotal E
  closed : Closed E.G
  nofilter : ∀ p, E.filter p = true

theorem CompHyp.cached {E : Env S Unit Rat} {rank} (C : CompHyp E rank) : E.ops.cached = true := by
  obtain ⟨t, ht⟩ := C.ord.ops
  rw [ht]; rfl

/-- **the state built by `__init_heap__` satisfies the quiescent invariants** -/
theorem preHeaps_quiet (E : Env S Unit Rat) (rank : NT S Unit → Nat) (C : CompHyp E rank) (fuel : Nat) :
    ∀ s3, preHeaps E fuel (St.empty E.G) = some s3 → Quiet0 E s3.heapOf s3 ∧ CoverHyp E s3.heapOf ∧
      (∀ nt rs, AList.lookup nt E.G.rules = some rs → s3.heapOf nt ≠ []) := by
  intro s3 h
  have hbase := preHeaps_base E rank C.init C.ord.weak C.thr C.keys fuel s3 h
  have hg := ginv_new E
  obtain ⟨hs3, hn3, hh3⟩ := preHeaps_invs C.ord.weak C.init.rows fuel _ _ hg.1 (hg.2 rfl) (ninv_empty E.G)
    (hinv_new E) h
  unfold preHeaps at h
  split at h
  · simp at h
  · rename_i s1 h1
    split at h
    · simp at h
    · rename_i s2 h2
      have hm0 : MInv E (St.empty E.G) := hg.2 rfl
      obtain ⟨k1, _, hi1, _, _⟩ := (init_K E rank C.init fuel).1 _ _ s1 (kinv_empty E) hm0
        (by intro x hx; simp [St.empty] at hx) h1
      obtain ⟨hm1, hf1⟩ := initNT_sound E C.init.rows hm0 h1
      obtain ⟨k2, hm2⟩ := reevaluate_K E rank C.init fuel _ _ _ k1 hm1 (hi1.trans rfl) h2
      obtain ⟨_, hf2⟩ := reevaluate_sound E C.init.rows fuel _ _ _ hm1 h2
      have hs2 : SInv E s2 := hf2.sinv (hf1.sinv hg.1 hm1.cache_ok) hm2.cache_ok
      have hfr := hf1.trans hf2
      have hempty : ∀ nt, s2.heapOf nt = [] ∧ s2.seenOf nt = [] ∧ s2.succOf nt = [] := by
        intro nt
        obtain ⟨f1, f2, _, f4, _⟩ := hfr
        refine ⟨?_, ?_, ?_⟩
        · unfold St.heapOf; rw [f1]; exact getD_lookup_map_const _ _ _
        · unfold St.seenOf; rw [f4]; exact getD_lookup_map_const _ _ _
        · unfold St.succOf; rw [f2]; exact getD_lookup_map_const _ _ _
      have hc2 : CInv s2 := by
        refine ⟨?_, ?_, ?_⟩
        · intro nt p hp; rw [(hempty nt).2.1] at hp; cases hp
        · intro nt e he; rw [(hempty nt).1] at he; cases he
        · intro nt k v hk; rw [(hempty nt).2.2] at hk; simp at hk
      obtain ⟨hc3, hpresent⟩ := initHeaps_more E C.thr C.cached _ _ _ hc2 h
      obtain ⟨a1, a2, a3, a4, a5⟩ := initHeaps_spec E C.thr _ _ _ C.keys hs2 hm2 h
      -- the tables of a non-terminal after `__init_heap__`
      have hrow : ∀ nt rs, AList.lookup nt E.G.rules = some rs →
          s3.heapOf nt = (entries E s2 nt (AList.keys rs)).foldl (Heapq.push (ltE E.ops)) [] ∧
          s3.seenOf nt = (entries E s2 nt (AList.keys rs)).map (·.2) ∧
          (entries E s2 nt (AList.keys rs)).length = (AList.keys rs).length := by
        intro nt rs hl
        obtain ⟨b1, b2⟩ := a1 nt rs (AList.lookup_some_mem hl)
        rw [(hempty nt).1] at b1
        rw [(hempty nt).2.1] at b2
        refine ⟨b1, by simpa using b2, ?_⟩
        unfold entries
        apply filterMap_length_of_all
        intro P hP
        have := hpresent nt rs (AList.lookup_some_mem hl) P hP
        unfold entry
        unfold MR at this
        cases hm : AList.lookup (nt, P) s2.maxRule with
        | none => rw [hm] at this; cases this
        | some p => rfl
      have hno_succ := hbase.no_succ
      have hrows_ne : ∀ nt rs, AList.lookup nt E.G.rules = some rs → s3.heapOf nt ≠ [] := by
        intro nt rs hl hempty'
        obtain ⟨b1, _, b3⟩ := hrow _ rs hl
        have hperm := Heapq.foldl_push_perm (ltE E.ops) (entries E s2 nt (AList.keys rs)) []
        rw [← b1, hempty'] at hperm
        have hlen := hperm.length_eq
        simp only [List.length_nil, List.append_nil] at hlen
        have hne := C.init.nonempty _ rs hl
        have : (AList.keys rs).length = 0 := by rw [← b3]; exact hlen.symm
        cases rs with
        | nil => exact hne rfl
        | cons _ _ => simp [AList.keys] at this
      refine ⟨⟨⟨hs3, hn3, hh3, hbase.oinv⟩, ?_, hc3, ?_, ?_⟩, ⟨C.wtotal, C.thr, C.cached, ?_⟩, hrows_ne⟩
      · -- TInv: all successor tables are empty
        refine ⟨?_, ?_, ?_, ?_, ?_⟩
        · intro nt x v hk; rw [hno_succ] at hk; simp at hk
        · intro nt hne; exact absurd (hno_succ nt) hne
        · intro nt hne; exact absurd (hno_succ nt) hne
        · intro nt k v hk; rw [hno_succ] at hk; simp at hk
        · intro nt v hk; rw [hno_succ] at hk; simp at hk
      · intro nt k y hk; rw [hno_succ] at hk; simp at hk
      · -- the initial program of every rule
        intro nt F ra hr
        have hr' := hr
        unfold TT.rule? at hr'
        cases hl : AList.lookup nt E.G.rules with
        | none => rw [hl] at hr'; cases hr'
        | some rs =>
          rw [hl] at hr'
          have hFk : F ∈ AList.keys rs := List.mem_map.mpr ⟨(F, (ra, ())), AList.lookup_some_mem hr', rfl⟩
          have hpres := hpresent nt rs (AList.lookup_some_mem hl) F hFk
          unfold MR at hpres
          cases hm : AList.lookup (nt, F) s2.maxRule with
          | none => rw [hm] at hpres; cases hpres
          | some prog =>
            obtain ⟨ms, hms, _⟩ := k2.sync nt F prog ra hm hr
            have hin : prog ∈ s3.seenOf nt := by
              rw [(hrow nt rs hl).2.1]
              apply List.mem_map.mpr
              refine ⟨((prioSpec E prog nt).getD 0, prog), ?_, rfl⟩
              unfold entries
              apply List.mem_filterMap.mpr
              exact ⟨F, hFk, by unfold entry; rw [hm]; rfl⟩
            rw [hms] at hin
            exact ⟨ms, hin, fun i a m ha hmi => hbase.args_first nt F ms ra hin hr i m a hmi ha⟩
      · -- initial heaps of the non-terminals used by the rules are not empty
        intro nt F ra hr a ha
        have hrowc := C.closed nt F ra hr a ha
        cases hl : AList.lookup (argNT a) E.G.rules with
        | none => rw [hl] at hrowc; cases hrowc
        | some rs => exact hrows_ne _ rs hl

/-! ### first queries, generator loop -/

theorem firstQueries_quiet {E : Env S Unit Rat} {rank} (H : OrdHyp E rank) {H0 : NT S Unit → List (Rat × Prog)}
    (HC : CoverHyp E H0) (hne : ∀ nt rs, AList.lookup nt E.G.rules = some rs → H0 nt ≠ []) (fuel : Nat) :
    ∀ (nts : List (NT S Unit)) (s s' : St S Unit Rat), Quiet0 E H0 s → firstQueries E fuel nts s = some s' →
      Quiet0 E H0 s' ∧ Stable s s' ∧
      ∀ nt ∈ nts, ∀ rs, AList.lookup nt E.G.rules = some rs → s'.succOf nt ≠ [] := by
  intro nts
  induction nts with
  | nil =>
    intro s s' q h
    simp only [firstQueries, Option.some.injEq] at h
    subst h
    exact ⟨q, Stable.refl _, by intro nt hm; cases hm⟩
  | cons nt rest ih =>
    intro s s' q h
    unfold firstQueries at h
    split at h
    · simp at h
    · rename_i r hq
      have hb := big_of_query E (s' := r.1) (r := r.2) hq
      have hpre : OPre E H0 (.query nt none) s := by intro x hx; cases hx
      have q1 := quiet0_query H HC q hpre hb
      obtain ⟨_, st1, np1⟩ := big_nodup E hb q.full.ninv trivial
      have nn1 := big_nonePost E hb q.full.ninv trivial
      obtain ⟨q2, st2, hst⟩ := ih _ _ q1 h
      refine ⟨q2, st1.trans st2, ?_⟩
      intro nt' hm rs hl
      rcases List.mem_cons.mp hm with rfl | hm
      · -- the query just made started the enumeration
        have h1 : r.1.succOf nt' ≠ [] := by
          cases hr2 : r.2 with
          | some v =>
            intro hempty
            have := np1 v hr2
            rw [hempty] at this; simp at this
          | none =>
            obtain ⟨n1, n2⟩ := nn1 hr2
            intro hempty
            have := q1.full.oinv.fresh nt' hempty
            rw [n2] at this
            exact hne nt' rs hl this.symm
        intro hempty
        cases hT : r.1.succOf nt' with
        | nil => exact h1 hT
        | cons p r' =>
          obtain ⟨k, v⟩ := p
          have : AList.lookup k (r.1.succOf nt') = some v := by rw [hT]; simp [AList.lookup]
          have := st2 nt' k v this
          rw [hempty] at this; simp at this
      · exact hst nt' hm rs hl

/-- the prologue leaves a quiescent state in which every non-terminal has started -/
theorem prologue_quiet (E : Env S Unit Rat) (rank : NT S Unit → Nat) (C : CompHyp E rank) (fuel : Nat)
    (s3 : St S Unit Rat) (h3 : preHeaps E fuel (St.empty E.G) = some s3) :
    ∀ s0, prologue E fuel (St.empty E.G) = some s0 → Quiet0 E s3.heapOf s0 ∧ Started E s0 ∧ CoverHyp E s3.heapOf := by
  intro s0 hp
  obtain ⟨q3, hc, hne⟩ := preHeaps_quiet E rank C fuel s3 h3
  rw [prologue_eq, h3] at hp
  simp only at hp
  obtain ⟨q0, _, hst⟩ := firstQueries_quiet C.ord hc hne fuel _ _ _ q3 hp
  refine ⟨q0, ?_, hc⟩
  intro nt rs hl
  exact hst nt ((AList.lookup_isSome_iff_mem_keys (k := nt) (d := E.G.rules)).mp (by rw [hl]; rfl)) rs hl

/-- two chains of a table from the same key: the one that cannot be extended contains the other -/
theorem chain_prefix (Tb : AList (Option Prog) Prog) :
    ∀ (l2 l1 : List Prog) (prev : Option Prog), chainFrom Tb prev l1 → chainFrom Tb prev l2 →
      AList.lookup (lastOr prev l1) Tb = none → ∀ p ∈ l2, p ∈ l1
  | [], _, _, _, _, _, p, hp => by cases hp
  | y :: ys, l1, prev, h1, h2, hend, p, hp => by
    cases l1 with
    | nil =>
      simp only [lastOr, List.getLast?_nil] at hend
      rw [h2.1] at hend; cases hend
    | cons y' l1' =>
      have : y' = y := by
        have a := h1.1; have b := h2.1
        rw [a] at b; exact Option.some.inj b
      subst this
      rcases List.mem_cons.mp hp with rfl | hp
      · exact List.mem_cons_self
      · rw [lastOr_cons] at hend
        exact List.mem_cons_of_mem _ (chain_prefix Tb ys l1' (some y') h1.2 h2.2 hend p hp)

/-- **when `query(start, current)` returns `None`, everything derivable was yielded** -/
theorem stop_complete {E : Env S Unit Rat} {rank} (C : CompHyp E rank) {H0 : NT S Unit → List (Rat × Prog)}
    (HC : CoverHyp E H0) {s s' : St S Unit Rat} {out : List Prog} (fuel : Nat)
    (q : Quiet0 E H0 s) (hs : Started E s) (hch : chainFrom (s.succOf E.G.start) none out)
    (hq : query E fuel s E.G.start (lastOr none out) = some (s', none)) :
    ∀ p, gen E.G p E.G.start = true → p ∈ out := by
  have hb := big_of_query E hq
  have hpre : OPre E H0 (.query E.G.start (lastOr none out)) s := by
    intro x hx
    left
    rcases lastOr_mem none out with e | ⟨z, hz, e⟩
    · rw [e] at hx; cases hx
    · rw [e] at hx; cases hx
      exact chain_mem_value _ out none hch x hz
  have q' := quiet0_query C.ord HC q hpre hb
  obtain ⟨_, st1, _⟩ := big_nodup E hb q.full.ninv trivial
  obtain ⟨n1, n2⟩ := big_nonePost E hb q.full.ninv trivial rfl
  have Q := q'.quiet (hs.stable st1)
  intro p hg
  obtain ⟨k, hk⟩ := exhausted_complete C.ord C.closed Q _ E.G.start rfl n2 p hg
  obtain ⟨l, hl, _⟩ := Q.tinv.reach _ k p hk
  have hch' : chainFrom (s'.succOf E.G.start) none out := chainFrom_stable (fun k v h => st1 _ k v h) _ _ hch
  exact chain_prefix _ (l ++ [p]) out none hch' hl n1 p (by simp)

/-- invariant of the generator object for the completeness theorem -/
def CGen (E : Env S Unit Rat) (H0 : NT S Unit → List (Rat × Prog)) (g : Gen S Unit Rat) (acc : List Prog) : Prop :=
  NGInv E g acc ∧
  (g.started = true → Quiet0 E H0 g.st ∧ Started E g.st ∧ CoverHyp E H0) ∧
  (g.started = false → g.st = St.empty E.G ∧ acc = [])

theorem next_complete {E : Env S Unit Rat} {rank} (C : CompHyp E rank) {H0 : NT S Unit → List (Rat × Prog)}
    (fuel : Nat)
    (hpq : ∀ s0, prologue E fuel (St.empty E.G) = some s0 → Quiet0 E H0 s0 ∧ Started E s0 ∧ CoverHyp E H0)
    (g g' : Gen S Unit Rat) (acc : List Prog) (r : Option Prog)
    (hg : CGen E H0 g acc) (h : next E fuel g = some (g', r)) :
    (∀ p, r = some p → CGen E H0 g' (acc ++ [p])) ∧
    (r = none → ∀ p, gen E.G p E.G.start = true → p ∈ acc) := by
  obtain ⟨hng, hst1, hst0⟩ := hg
  have hng' := next_nodup E C.nofilter fuel g g' acc r hng h
  have key : ∀ s : St S Unit Rat, Quiet0 E H0 s → Started E s → CoverHyp E H0 →
      chainFrom (s.succOf E.G.start) none acc →
      nextLoop E fuel fuel s g.current = some (g', r) →
      (∀ p, r = some p → CGen E H0 g' (acc ++ [p])) ∧
      (r = none → ∀ p, gen E.G p E.G.start = true → p ∈ acc) := by
    intro s q hs HC hch hl
    have hq := nextLoop_query E C.nofilter fuel _ _ _ _ _ hl
    have hstd := (nextLoop_sound E fuel _ _ _ _ _ q.full.sinv hl).2.1
    rw [hng.2.2] at hq
    constructor
    · intro p hp
      subst hp
      have hb := big_of_query E hq
      have hpre : OPre E H0 (.query E.G.start (lastOr none acc)) s := by
        intro x hx
        left
        rcases lastOr_mem none acc with e | ⟨z, hz, e⟩
        · rw [e] at hx; cases hx
        · rw [e] at hx; cases hx
          exact chain_mem_value _ acc none hch x hz
      refine ⟨hng'.1 p rfl, fun _ => ⟨quiet0_query C.ord HC q hpre hb,
        hs.stable (big_nodup E hb q.full.ninv trivial).2.1, HC⟩, ?_⟩
      intro hc; rw [hstd] at hc; cases hc
    · intro hr
      subst hr
      exact stop_complete C HC fuel q hs hch hq
  unfold next at h
  split at h
  · rename_i hstd
    obtain ⟨q, hs, HC⟩ := hst1 hstd
    exact key _ q hs HC hng.2.1 h
  · rename_i hstd
    have hstd' : g.started = false := by simpa using hstd
    obtain ⟨hempty, hacc⟩ := hst0 hstd'
    split at h
    · simp at h
    · rename_i s0 hp
      rw [hempty] at hp
      obtain ⟨q, hs, HC⟩ := hpq s0 hp
      refine key s0 q hs HC ?_ h
      rw [hacc]; trivial

theorem take_complete_aux {E : Env S Unit Rat} {rank} (C : CompHyp E rank) {H0 : NT S Unit → List (Rat × Prog)}
    (fuel : Nat)
    (hpq : ∀ s0, prologue E fuel (St.empty E.G) = some s0 → Quiet0 E H0 s0 ∧ Started E s0 ∧ CoverHyp E H0) :
    ∀ (k : Nat) (g : Gen S Unit Rat) (acc : List Prog) (g' : Gen S Unit Rat) (out : List Prog),
      CGen E H0 g acc → take E fuel k g acc = some (g', out, true) →
      ∀ p, gen E.G p E.G.start = true → p ∈ out := by
  intro k
  induction k with
  | zero =>
    intro g acc g' out _ h
    simp [take] at h
  | succ k ih =>
    intro g acc g' out hg h
    unfold take at h
    split at h
    · simp at h
    · rename_i g1 hn
      simp only [Option.some.injEq, Prod.mk.injEq] at h
      obtain ⟨_, rfl, _⟩ := h
      exact (next_complete C fuel hpq _ _ _ _ hg hn).2 rfl
    · rename_i g1 p hn
      exact ih _ _ _ _ ((next_complete C fuel hpq _ _ _ _ hg hn).1 p rfl) h

/-- **COMPLETENESS**: if heap search stops, every program of the grammar was yielded -/
theorem take_complete (E : Env S Unit Rat) (rank : NT S Unit → Nat) (C : CompHyp E rank) (fuel k : Nat)
    (g' : Gen S Unit Rat) (out : List Prog) (h : take E fuel k (Gen.new E.G) [] = some (g', out, true)) :
    ∀ p, gen E.G p E.G.start = true → p ∈ out := by
  have hnew : ∀ H0, CGen E H0 (Gen.new E.G) [] :=
    fun H0 => ⟨ngInv_new E, (fun hc => by cases hc), fun _ => ⟨rfl, rfl⟩⟩
  cases h3 : preHeaps E fuel (St.empty E.G) with
  | none =>
    have hpq : ∀ s0, prologue E fuel (St.empty E.G) = some s0 →
        Quiet0 E (fun _ => []) s0 ∧ Started E s0 ∧ CoverHyp E (fun _ => []) := by
      intro s0 hp
      rw [prologue_eq, h3] at hp
      cases hp
    exact take_complete_aux C fuel hpq k _ _ _ _ (hnew _) h
  | some s3 =>
    exact take_complete_aux C fuel (prologue_quiet E rank C fuel s3 h3) k _ _ _ _ (hnew _) h

end PS.HS
