/- Bee search, TERMINATION of the repaired generator loop on a finite grammar (a bound `maxCost = some m` is handed
   to the loop): a lexicographic measure (twice the distance of the round's cost to m+1, the non-terminals still to be
   handled in the round, the elements of the round's cost in the current queue, the candidate programs of the
   suspended product) decreases with every step; no step raises. -/
import PS.Proofs.Enum.BeeTotal
namespace PS.Bee
open PS PS.G PS.Heapq

variable {S : Type} [DecidableEq S]
set_option linter.unusedSectionVars false
set_option linter.unusedSimpArgs false

/-- number of elements of cost `c` -/
def cnt (c : Int) (l : List HeapElem) : Nat := (l.filter fun e => decide (e.cost = c)).length

theorem cnt_perm (c : Int) {a b : List HeapElem} (h : a.Perm b) : cnt c a = cnt c b := (h.filter _).length_eq

theorem queueOf_setQueue (s : St S) (nt : NT S Unit) (l : List HeapElem) : (s.setQueue nt l).queueOf nt = l := by
  simp [St.queueOf, St.setQueue, AList.lookup_insert_self]

/-- `_add_combination_` leaves the number of cost-`c` elements of `nt`'s queue alone when what it pushes does not cost `c` -/
theorem addCombination_cnt (E : Env S) (s s' : St S) (nt : NT S Unit) (P : Sym) (idx : List Nat) (chk : Option Nat) (c : Int)
    (h : addCombination E s nt P idx chk = some s') (hne : ∀ c', realCost E s.costList nt P idx = some c' → c' ≠ c) :
    cnt c (s'.queueOf nt) = cnt c (s.queueOf nt) := by
  obtain ⟨_, hs⟩ := addCombination_spec E s s' nt P idx chk h
  rcases hs with ⟨_, hqe, _⟩ | ⟨_, _, c', hc', hqe⟩
  · unfold St.queueOf; rw [hqe]
  · have : s'.queueOf nt = Heapq.push ltE (s.queueOf nt) ⟨c', idx, P⟩ := by
      unfold St.queueOf; rw [hqe, AList.lookup_insert_self]; rfl
    rw [this, cnt_perm c (Heapq.push_perm ltE _ _)]
    have := hne c' hc'
    simp [cnt, this]

theorem succLoop_cnt (E : Env S) (nt : NT S Unit) (P : Sym) (combo : List Nat) (cl : List Int) (c : Int)
    (hne : ∀ i v c', combo[i]? = some v → realCost E cl nt P (combo.set i (v + 1)) = some c' → c' ≠ c) :
    ∀ (k i : Nat) (s s' : St S) (maxi maxi' : Nat), succLoop E nt P combo i k s maxi = some (s', maxi') → s.costList = cl →
      cnt c (s'.queueOf nt) = cnt c (s.queueOf nt) := by
  intro k
  induction k with
  | zero =>
    intro i s s' maxi maxi' h _
    simp only [succLoop, Option.some.injEq, Prod.mk.injEq] at h; obtain ⟨rfl, _⟩ := h; rfl
  | succ k ih =>
    intro i s s' maxi maxi' h hcl
    simp only [succLoop] at h
    cases hv : combo[i]? with
    | none => simp [hv] at h
    | some v =>
      simp only [hv] at h
      cases ha : addCombination E s nt P (combo.set i (v + 1)) (some i) with
      | none => simp [ha] at h
      | some s1 =>
        simp only [ha] at h
        have h1 := addCombination_cnt E s s1 nt P _ _ c ha (fun c' hc' => hne i v c' hv (hcl ▸ hc'))
        have hqd := (addCombination_spec E s s1 nt P _ _ ha).1
        by_cases hb : v + 1 > 1
        · simp only [hb, if_true, Option.some.injEq, Prod.mk.injEq] at h; obtain ⟨rfl, _⟩ := h; exact h1
        · simp only [hb, if_false] at h
          rw [ih _ _ _ _ _ h (hqd.cl.trans hcl), h1]

/-- in `forS` the round's cost is already in the cost list unless no non-terminal was handled yet -/
def InCl (g : Gen S) : Prop :=
  match g.phase with
  | .forS _ c nts => c ∈ g.st.costList ∨ nts ≠ []
  | _ => True

/-- last entry of the cost list, `-1` when empty -/
def lastD (cl : List Int) : Int := cl.getLast?.getD (-1)

def bud (m x : Int) : Nat := (m + 1 - x).toNat

/-- the termination measure -/
def meas (m : Int) (g : Gen S) : Nat × Nat × Nat × Nat :=
  match g.phase with
  | .done => (0, 0, 0, 0)
  | .init => (2 * (m + 2).toNat + 4, 0, 0, 0)
  | .outer => (2 * bud m (lastD g.st.costList) + 1, 0, 0, 0)
  | .forS _ c nts => (2 * bud m c + 2, 2 * nts.length + 1, 0, 0)
  | .whileQ _ c nt rest _ _ => (2 * bud m c + 2, 2 * rest.length + 2, cnt c (g.st.queueOf nt), 0)
  | .pend _ c nt rest _ _ pending => (2 * bud m c + 2, 2 * rest.length + 2, cnt c (g.st.queueOf nt), pending.length + 1)

def LT4 : (Nat × Nat × Nat × Nat) → (Nat × Nat × Nat × Nat) → Prop :=
  Prod.Lex (· < ·) (Prod.Lex (· < ·) (Prod.Lex (· < ·) (· < ·)))

theorem lt4_wf : WellFounded LT4 :=
  (Prod.lex Nat.lt_wfRel (Prod.lex Nat.lt_wfRel (Prod.lex Nat.lt_wfRel Nat.lt_wfRel))).wf

theorem lastD_ge (cl : List Int) (hnn : ∀ x ∈ cl, 0 ≤ x) : -1 ≤ lastD cl := by
  unfold lastD
  cases h : cl.getLast? with
  | none => simp
  | some x => simp; have := hnn x (List.mem_of_getLast? h); omega

theorem lastD_max (cl : List Int) (hm : cl.Pairwise (· < ·)) (x : Int) (hx : x ∈ cl) : x ≤ lastD cl := by
  unfold lastD
  have hne : cl ≠ [] := by intro e; rw [e] at hx; cases hx
  rw [List.getLast?_eq_some_getLast hne]
  simp only [Option.getD_some]
  have hdl := List.dropLast_concat_getLast hne
  rw [← hdl] at hx hm
  rcases List.mem_append.mp hx with h1 | h1
  · have := (List.pairwise_append.mp hm).2.2 x h1 (cl.getLast hne) (by simp); omega
  · simp at h1; omega

theorem lastD_mem (cl : List Int) (hne : cl ≠ []) : lastD cl ∈ cl := by
  unfold lastD
  rw [List.getLast?_eq_some_getLast hne]; simp


theorem succ_cost_ne (E : Env S) (cl : List Int) (hm : cl.Pairwise (· < ·)) (nt : NT S Unit) (P : Sym) (combo : List Nat)
    (args : List (Ty × S)) (ha : ruleArgs E nt P = some args) (hlen : combo.length = args.length) (c : Int)
    (hel : realCost E cl nt P combo = some c) :
    ∀ i v c', combo[i]? = some v → realCost E cl nt P (combo.set i (v + 1)) = some c' → c' ≠ c := by
  intro i v c' hv hc'
  unfold realCost at hel hc'
  cases hw : ruleCost E nt P with
  | none => simp [hw] at hel
  | some w =>
    simp only [hw, ha] at hel hc'
    have hi : i < combo.length := (List.getElem?_eq_some_iff.mp hv).1
    have := realCostLoop_strict cl combo (combo.set i (v + 1)) (pairwise_mono cl hm) (pairwise_strict cl hm)
      (by
        intro j a b' haj hbj
        rw [List.getElem?_set] at hbj
        by_cases hij : i = j
        · subst hij; simp only [hi, if_true, Option.some.injEq] at hbj; rw [hv] at haj; cases haj; omega
        · simp only [hij, if_false] at hbj; rw [haj] at hbj; cases hbj; exact Nat.le_refl _)
      args.length 0 w w c c' (Int.le_refl _)
      ⟨i, v, v + 1, Nat.zero_le _, by omega, hv, by rw [List.getElem?_set]; simp [hi], by omega⟩ hel hc'
    omega

/-- **every step of a generator that has not stopped decreases the measure** (repaired loop with bound `m`) -/
theorem step_term (E : Env S) (m : Int) (hmax : E.maxCost = some m) (hfix : E.fixF11 = true) (g g' : Gen S)
    (out : Option Prog) (b : Int) (h : step E g = some (g', out)) (hnd : g.phase.isDone = false) (hi : GInv E g)
    (hn : NSt E g.st) (ho : GOrd E g b) (hk : KN g.st) (hs : StrictQ g) (hic : InCl g) :
    LT4 (meas m g') (meas m g) ∧ InCl g' := by
  unfold step at h
  split at h
  · rename_i hph; rw [hph] at hnd; simp [Phase.isDone] at hnd
  · -- init
    rename_i hph
    simp only [Option.some.injEq, Prod.mk.injEq] at h; obtain ⟨rfl, _⟩ := h
    obtain ⟨low, hos, _⟩ : ∃ low, OSt E g.st low ∧ b ≤ low := by
      have := ho; simp only [GOrd, hph, Phase.cost?] at this; exact this
    refine ⟨?_, trivial⟩
    simp only [meas, hph]
    apply Prod.Lex.left
    have := lastD_ge g.st.costList hos.nonneg
    unfold bud; omega
  · -- outer
    rename_i hph
    obtain ⟨low, hos, _⟩ : ∃ low, OSt E g.st low ∧ b ≤ low := by
      have := ho; simp only [GOrd, hph, Phase.cost?] at this; exact this
    simp only [StrictQ, hph, Phase.cost?] at hs
    dsimp only at h
    rw [hfix] at h
    simp only [Bool.true_or, if_true] at h
    split at h
    · simp only [Option.some.injEq, Prod.mk.injEq] at h; obtain ⟨rfl, _⟩ := h
      exact ⟨by simp only [meas, hph]; exact Prod.Lex.left _ _ (by omega), trivial⟩
    · simp only [Option.some.injEq, Prod.mk.injEq] at h; obtain ⟨rfl, _⟩ := h
      exact ⟨by simp only [meas, hph]; exact Prod.Lex.left _ _ (by omega), trivial⟩
    · rename_i nt nts cost hnc
      split at h
      · simp only [Option.some.injEq, Prod.mk.injEq] at h; obtain ⟨rfl, _⟩ := h
        exact ⟨by simp only [meas, hph]; exact Prod.Lex.left _ _ (by omega), trivial⟩
      · rename_i hstop
        simp only [Option.some.injEq, Prod.mk.injEq] at h; obtain ⟨rfl, _⟩ := h
        refine ⟨?_, by simp [InCl]⟩
        have hcm : cost ≤ m := by
          unfold stopAt at hstop
          rw [hfix, hmax] at hstop
          simpa using hstop
        obtain ⟨_, nt0, l0, e0, hm0, he0, hc0⟩ := nextCheapest_min g.st hos.heaps _ _ hnc
        have hgt : lastD g.st.costList < cost := by
          by_cases hne : g.st.costList = []
          · rw [hne]; simp only [lastD, List.getLast?_nil, Option.getD_none]
            have := (hos.q _ _ hm0 _ he0).2.1; omega
          · have := hs nt0 l0 hm0 e0 he0 _ (lastD_mem _ hne); omega
        simp only [meas, hph]
        apply Prod.Lex.left
        unfold bud; omega
  · -- forS []
    rename_i succ cost hph
    simp only [Option.some.injEq, Prod.mk.injEq] at h; obtain ⟨rfl, _⟩ := h
    have hos : OSt E g.st cost := by have := ho; simp only [GOrd, hph, Phase.cost?] at this; exact this.1
    refine ⟨?_, trivial⟩
    have hin : cost ∈ g.st.costList := by
      have := hic; simp only [InCl, hph] at this
      rcases this with h1 | h1
      · exact h1
      · exact absurd rfl h1
    have h1 := lastD_max _ hos.mono cost hin
    have h2 := hos.cl_le _ (lastD_mem _ (by intro e; rw [e] at hin; cases hin))
    have : lastD g.st.costList = cost := by omega
    simp only [meas, hph, this]
    exact Prod.Lex.left _ _ (by omega)
  · -- forS (nt :: rest)
    rename_i succ cost nt rest hph
    simp only at h
    split at h
    · simp at h
    · simp only [Option.some.injEq, Prod.mk.injEq] at h; obtain ⟨rfl, _⟩ := h
      refine ⟨?_, trivial⟩
      simp only [meas, hph, List.length_cons]
      exact Prod.Lex.right _ (Prod.Lex.left _ _ (by omega))
  · -- whileQ
    rename_i succ cost nt rest maxi ci hph
    have hos : OSt E g.st cost := by have := ho; simp only [GOrd, hph, Phase.cost?] at this; exact this.1
    have hcostin : cost ∈ g.st.costList := by
      have := hi.ph; rw [hph] at this; exact List.mem_of_getElem? this
    simp only at h
    split at h
    · simp only [Option.some.injEq, Prod.mk.injEq] at h; obtain ⟨rfl, _⟩ := h
      exact ⟨by simp only [meas, hph]; exact Prod.Lex.right _ (Prod.Lex.left _ _ (by omega)), Or.inl hcostin⟩
    · rename_i top tl hq
      split at h
      · rename_i htop
        split at h
        · simp at h
        · rename_i el q' hpop
          have hperm := Heapq.pop_perm ltE _ _ _ hpop
          have hhead := Heapq.pop_head ltE _ _ _ hpop
          rw [hq] at hhead
          simp only [List.head?_cons, Option.some.injEq] at hhead
          subst hhead
          have helq : top ∈ g.st.queueOf nt := by rw [hq]; exact List.mem_cons_self
          obtain ⟨l0, hl0, he0⟩ := queueOf_mem helq
          have hel : realCost E g.st.costList nt top.P top.combo = some top.cost := hi.st.queue _ _ hl0 _ he0
          obtain ⟨args', ha', hlen⟩ := hn.wfq _ _ hl0 _ he0
          split at h
          · simp at h
          · rename_i args hargs
            have hlen2 : top.combo.length = args.length := by
              rw [hargs] at ha'; rw [Option.some.inj ha']; exact hlen
            split at h
            · simp at h
            · rename_i s2 maxi' hsl
              have hc2 := succLoop_cnt E nt top.P top.combo g.st.costList cost
                (by rw [← htop]; exact succ_cost_ne E g.st.costList hos.mono nt top.P top.combo args hargs hlen2 top.cost hel)
                _ _ _ _ _ _ hsl rfl
              rw [queueOf_setQueue] at hc2
              have hc1 : cnt cost (g.st.queueOf nt) = cnt cost q' + 1 := by
                rw [cnt_perm cost hperm]; simp [cnt, htop]
              have hlt : cnt cost (s2.queueOf nt) < cnt cost (g.st.queueOf nt) := by omega
              split at h
              · simp at h
              · simp only [Option.some.injEq, Prod.mk.injEq] at h; obtain ⟨rfl, _⟩ := h
                exact ⟨by simp only [meas, hph]; exact Prod.Lex.right _ (Prod.Lex.right _ (Prod.Lex.left _ _ hlt)), trivial⟩
              · simp only [Option.some.injEq, Prod.mk.injEq] at h; obtain ⟨rfl, _⟩ := h
                exact ⟨by simp only [meas, hph]; exact Prod.Lex.right _ (Prod.Lex.right _ (Prod.Lex.left _ _ hlt)), trivial⟩
      · simp only [Option.some.injEq, Prod.mk.injEq] at h; obtain ⟨rfl, _⟩ := h
        exact ⟨by simp only [meas, hph]; exact Prod.Lex.right _ (Prod.Lex.left _ _ (by omega)), Or.inl hcostin⟩
  · -- pend []
    rename_i hph
    simp only [Option.some.injEq, Prod.mk.injEq] at h; obtain ⟨rfl, _⟩ := h
    exact ⟨by simp only [meas, hph]; exact Prod.Lex.right _ (Prod.Lex.right _ (Prod.Lex.right _ (by simp))), trivial⟩
  · -- pend (p :: ps)
    rename_i succ cost nt rest maxi ci p ps hph
    obtain ⟨fq, _, _⟩ := addProgram_frame E g.st nt p ci
    cases hap : addProgram E g.st nt p ci with | mk s1 added =>
    rw [hap] at fq
    have hqo : s1.queueOf nt = g.st.queueOf nt := by unfold St.queueOf; rw [fq]
    simp only [hap] at h
    split at h
    all_goals
      simp only [Option.some.injEq, Prod.mk.injEq] at h; obtain ⟨rfl, _⟩ := h
      refine ⟨?_, trivial⟩
      simp only [meas, hph, hqo, List.length_cons]
      exact Prod.Lex.right _ (Prod.Lex.right _ (Prod.Lex.right _ (by omega)))

end PS.Bee
