/- Bee search: costs along the successor forest.  An ancestor combination is pointwise smaller, hence (increasing
   cost list) cheaper; every pending combination's PARENT has a cost that is in the cost list (it was popped in the
   round of that cost); hence every expanded combination costs at most the largest entry of the cost list; a
   combination that uses the index of the current round's cost at an argument position costs strictly more than
   that cost when rules with arguments cost > 0. -/
import PS.Proofs.Enum.BeeOrder
import PS.Proofs.Enum.BeeNodup
namespace PS.Bee
open PS PS.G

variable {S : Type} [DecidableEq S]
set_option linter.unusedSectionVars false
set_option linter.unusedSimpArgs false

theorem realCostLoop_defined (cl : List Int) (idx idx' : List Nat) (hle : Le idx idx') :
    ∀ (k i : Nat) (out out' c' : Int), realCostLoop cl idx' i k out' = some c' → ∃ c, realCostLoop cl idx i k out = some c := by
  intro k
  induction k with
  | zero => intro i out out' c' _; exact ⟨out, rfl⟩
  | succ k ih =>
    intro i out out' c' h
    simp only [realCostLoop] at h ⊢
    cases hi' : idx'[i]? with
    | none => simp [hi'] at h
    | some b =>
      simp only [hi'] at h
      cases hy : cl[b]? with
      | none => simp [hy] at h
      | some y =>
        simp only [hy] at h
        have hil : i < idx.length := by rw [hle.1]; exact (List.getElem?_eq_some_iff.mp hi').1
        have ha : idx[i]? = some idx[i] := List.getElem?_eq_getElem hil
        have hab := hle.2 i idx[i] b ha hi'
        have hbl := (List.getElem?_eq_some_iff.mp hy).1
        have hx : cl[idx[i]]? = some cl[idx[i]] := List.getElem?_eq_getElem (by omega)
        simp only [ha, hx]
        exact ih _ _ _ _ h

/-- a pointwise smaller combination of the same rule has a cost, and it is smaller -/
theorem realCost_le (E : Env S) (cl : List Int) (hm : cl.Pairwise (· < ·)) (nt : NT S Unit) (P : Sym) (d u : List Nat)
    (hle : Le d u) (x : Int) (hu : realCost E cl nt P u = some x) : ∃ y, realCost E cl nt P d = some y ∧ y ≤ x := by
  unfold realCost at hu ⊢
  cases hw : ruleCost E nt P with
  | none => simp [hw] at hu
  | some w =>
    cases ha : ruleArgs E nt P with
    | none => simp [hw, ha] at hu
    | some args =>
      simp only [hw, ha] at hu ⊢
      obtain ⟨y, hy⟩ := realCostLoop_defined cl d u hle _ 0 w w x hu
      exact ⟨y, hy, realCostLoop_mono cl d u (pairwise_mono cl hm) hle.2 _ _ _ _ _ _ (Int.le_refl _) hy hu⟩

theorem parent_le (u : List Nat) (h : CD.nonzero u = true) : Le (CD.parent u) u :=
  succs_le _ _ (CD.succs_cover u h)

/-- every pending non-root combination's parent has a cost, and that cost is in the cost list -/
def PSt (E : Env S) (s : St S) : Prop :=
  ∀ nt P u, u ∈ pend s nt P → CD.nonzero u = true →
    ∃ x, realCost E s.costList nt P (CD.parent u) = some x ∧ x ∈ s.costList

/-- **an expanded combination (with arguments) costs at most an entry of the cost list** -/
theorem done_cost (E : Env S) (s : St S) (hp : PSt E s) (hm : s.costList.Pairwise (· < ·)) (nt : NT S Unit) (P : Sym)
    (d : List Nat) (h : ∃ u ∈ pend s nt P, Anc d u) :
    ∃ y x, realCost E s.costList nt P d = some y ∧ x ∈ s.costList ∧ y ≤ x := by
  obtain ⟨u, hu, ha⟩ := h
  obtain ⟨x, hx, hxin⟩ := hp nt P u hu ha.nonzero
  have hle : Le d (CD.parent u) := by
    rcases ha.into_succ (CD.succs_cover u ha.nonzero) with h1 | h1
    · rw [h1]; exact Le.refl _
    · exact h1.le
  obtain ⟨y, hy, hyx⟩ := realCost_le E s.costList hm nt P d _ hle x hx
  exact ⟨y, x, hy, hxin, hyx⟩

/-- rules with arguments cost > 0 -/
def PosArgs (E : Env S) : Prop :=
  ∀ nt P args w, ruleArgs E nt P = some args → args ≠ [] → ruleCost E nt P = some w → 0 < w

theorem posArgs_of_check (E : Env S) (h : posArgCosts E = true) : PosArgs E := by
  intro nt P args w ha hne hw
  unfold ruleArgs TT.rule? at ha
  cases hl : AList.lookup nt E.G.rules with
  | none => simp [hl] at ha
  | some rs =>
    simp only [hl] at ha
    cases hr : AList.lookup P rs with
    | none => simp [hr] at ha
    | some rl =>
      simp only [hr, Option.map_some, Option.some.injEq] at ha
      unfold posArgCosts at h
      have h1 := List.all_eq_true.mp h _ (AList.lookup_some_mem hl)
      have h2 := List.all_eq_true.mp h1 _ (AList.lookup_some_mem hr)
      simp only [Bool.or_eq_true, List.isEmpty_iff, decide_eq_true_eq] at h2
      rcases h2 with h2 | h2
      · exact absurd (ha ▸ h2) hne
      · simpa [hw] using h2

/-- a combination that uses cost-list index `v` at an argument position costs more than `cl[v]` -/
theorem realCost_gt (E : Env S) (hpos : PosArgs E) (cl : List Int) (hnn : ∀ x ∈ cl, 0 ≤ x) (nt : NT S Unit) (P : Sym)
    (args : List (Ty × S)) (ha : ruleArgs E nt P = some args) (d : List Nat) (y : Int)
    (hy : realCost E cl nt P d = some y) (i v : Nat) (hi : i < args.length) (hv : d[i]? = some v) (c : Int)
    (hc : cl[v]? = some c) : c < y := by
  unfold realCost at hy
  cases hw : ruleCost E nt P with
  | none => simp [hw] at hy
  | some w =>
    simp only [hw, ha] at hy
    have := (realCostLoop_lower cl d hnn _ _ _ _ hy).2 i v c (Nat.zero_le _) (by omega) hv hc
    have hw0 := hpos nt P args w ha (by intro e; rw [e] at hi; simp at hi) hw
    omega

end PS.Bee
