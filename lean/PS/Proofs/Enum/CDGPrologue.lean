/- Global no-duplicates, part 5: the prologue.  After `__init__` every derivation queue is empty; `_init_derivation_`
   pushes the single index tuple (0,…,0) into a queue once (guarded by the cost list of `args`, with the tuples being
   initialised held in `Pd`), `_reevaluate_` and `__compute_bounds__` pop everything and push it back: the state the
   prologue produces has derivation queues holding nothing or the single tuple (0,…,0), which is the hypothesis
   `startB` of CDGRun.lean. -/
import PS.Proofs.Enum.CDGRun
namespace PS.CD
variable {α : Type}

/-! ### pops and pushes as permutations of the stored index tuples -/

theorem popAll_perm : ∀ (f : Nat) (q : Q α) (acc out : List (CT α)) (q1 : Q α), QWF q → popAll q f acc = some (out, q1) →
    QWF q1 ∧ (out.flatMap (·.combs) ++ q1.contents).Perm (acc.flatMap (·.combs) ++ q.contents) := by
  intro f
  induction f with
  | zero => intro q acc out q1 _ h; simp [popAll] at h
  | succ f ih =>
    intro q acc out q1 hq h
    rw [popAll] at h
    split at h
    · simp only [Option.some.injEq, Prod.mk.injEq] at h
      obtain ⟨h1, h2⟩ := h; subst h1; subst h2
      exact ⟨hq, List.Perm.refl _⟩
    · split at h
      · simp at h
      · rename_i ct q' hpop
        obtain ⟨hq', _, hperm, _⟩ := qwf_pop q q' ct hq hpop
        obtain ⟨h1, h2⟩ := ih q' _ out q1 hq' h
        refine ⟨h1, h2.trans ?_⟩
        simp only [List.flatMap_append, List.flatMap_cons, List.flatMap_nil, List.append_nil, List.append_assoc]
        exact List.Perm.append_left _ hperm.symm

theorem pushAll_perm (A : Arith α) (b : Bool) : ∀ (es : List (CT α)) (q q' : Q α), QWF q → pushAll A b es q = some q' →
    QWF q' ∧ q'.contents.Perm (q.contents ++ es.flatMap (·.combs))
  | [], q, q', hq, h => by
    simp only [pushAll, Option.some.injEq] at h; subst h
    exact ⟨hq, by simp⟩
  | e :: es, q, q', hq, h => by
    rw [pushAll] at h
    split at h
    · simp at h
    · rename_i q1 hp
      obtain ⟨hq1, _, hperm, _⟩ := qwf_push A q q1 e b hq hp
      obtain ⟨h1, h2⟩ := pushAll_perm A b es q1 q' hq1 h
      refine ⟨h1, h2.trans ?_⟩
      simp only [List.flatMap_cons]
      rw [← List.append_assoc]
      exact List.Perm.append_right _ hperm

theorem insertCT_perm (A : Arith α) (x : CT α) : ∀ (l : List (CT α)), (insertCT A x l).Perm (x :: l)
  | [] => by simp [insertCT]
  | y :: ys => by
    rw [insertCT]
    split
    · exact List.Perm.refl _
    · exact ((insertCT_perm A x ys).cons y).trans (List.Perm.swap x y ys)

theorem sortCT_perm (A : Arith α) (l : List (CT α)) : (sortCT A l).Perm l := by
  unfold sortCT
  have key : ∀ (l acc : List (CT α)), (l.foldl (fun acc x => insertCT A x acc) acc).Perm (l ++ acc) := by
    intro l
    induction l with
    | nil => intro acc; exact List.Perm.refl _
    | cons x xs ih =>
      intro acc
      simp only [List.foldl_cons]
      refine (ih _).trans ?_
      refine (List.Perm.append_left xs (insertCT_perm A x acc)).trans ?_
      simpa using (List.perm_middle (a := x) (l₁ := xs) (l₂ := acc))
  simpa using key l []

/-- a part of nothing or of a single tuple is nothing or that tuple -/
theorem small_part {β : Type} {X Y C : List β} {z : β} (h : (X ++ Y).Perm C) (hC : C = [] ∨ C = [z]) : X = [] ∨ X = [z] := by
  rcases hC with hC | hC
  · subst hC
    have := h.eq_nil
    simp at this
    exact Or.inl this.1
  · subst hC
    have := List.perm_singleton.mp h
    cases X with
    | nil => exact Or.inl rfl
    | cons x X' =>
      simp only [List.cons_append, List.cons.injEq, List.append_eq_nil_iff] at this
      exact Or.inr (by rw [this.1, this.2.1])

theorem small_perm {β : Type} {X C : List β} {z : β} (h : X.Perm C) (hC : C = [] ∨ C = [z]) : X = [] ∨ X = [z] := by
  rcases hC with hC | hC
  · subst hC; exact Or.inl h.eq_nil
  · subst hC; exact Or.inr (List.perm_singleton.mp h)

/-! ### the invariant of the prologue -/

def zeros (args : List NT) : List Nat := List.replicate args.length 0

/-- every derivation queue holds nothing, or the tuple (0,…,0) and then its cost list has been started; the argument
    tuples `Pd` whose `_init_derivation_` is running have a started cost list and an empty queue -/
def ZInv (s : St α) (Pd : List (List NT)) : Prop :=
  (∀ args q, AList.lookup args s.queueDer = some q → QWF q ∧
    (q.contents = [] ∨ (q.contents = [zeros args] ∧ args ∉ Pd ∧ ∃ cl, AList.lookup args s.costDer = some cl ∧ cl ≠ []))) ∧
  (∀ a ∈ Pd, ∃ cl, AList.lookup a s.costDer = some cl ∧ cl ≠ [])

theorem zinv_of_eq {s s' : St α} {Pd : List (List NT)} (h1 : s'.queueDer = s.queueDer) (h2 : s'.costDer = s.costDer)
    (h : ZInv s Pd) : ZInv s' Pd := by
  unfold ZInv; rw [h1, h2]; exact h

theorem set_ne_nil {β : Type} {l : List β} (x : β) (h : l ≠ []) : l.set 0 x ≠ [] := by
  intro he
  have := congrArg List.length he
  simp only [List.length_set, List.length_nil] at this
  exact h (List.length_eq_zero_iff.mp this)

/-- replacing the queue of `args` (no `_init_derivation_` running) by one with part of its content, and the head of
    its cost list -/
theorem zinv_requeue {s : St α} {args : List NT} {q q2 : Q α} {cl : List α} (x : α) (h : ZInv s [])
    (hq : AList.lookup args s.queueDer = some q) (hq2 : QWF q2)
    (hc : q2.contents = [] ∨ (q2.contents = [zeros args] ∧ q.contents = [zeros args]))
    (hcl : AList.lookup args s.costDer = some cl) (hne : cl ≠ []) :
    ZInv ((s.setQueueDer args q2).setCostDer args (cl.set 0 x)) [] := by
  refine ⟨?_, fun a ha => by simp at ha⟩
  intro a qa hqa
  simp only [St.setCostDer, St.setQueueDer] at hqa ⊢
  rw [AList.lookup_insert] at hqa
  split at hqa
  · rename_i he
    simp only [Option.some.injEq] at hqa; subst hqa; subst he
    refine ⟨hq2, ?_⟩
    rcases hc with hc | hc
    · exact Or.inl hc
    · exact Or.inr ⟨hc.1, by simp, cl.set 0 x, AList.lookup_insert_self _ _ _, set_ne_nil x hne⟩
  · rename_i he
    obtain ⟨w, c⟩ := h.1 a qa hqa
    refine ⟨w, ?_⟩
    rcases c with c | ⟨c1, c2, cl', c3, c4⟩
    · exact Or.inl c
    · exact Or.inr ⟨c1, c2, cl', by rw [AList.lookup_insert_ne _ _ he]; exact c3, c4⟩

structure IZ (E : Env α) (f : Nat) : Prop where
  nt : ∀ s S s' Pd, initNT E f s S = some s' → ZInv s Pd → ZInv s' Pd
  rules : ∀ s S rs s' Pd, initRules E f s S rs = some s' → ZInv s Pd → ZInv s' Pd
  der : ∀ s args s' Pd, initDer E f s args = some s' → ZInv s Pd → ZInv s' Pd
  args : ∀ s as c s' c' Pd, initArgs E f s as c = some (s', c') → ZInv s Pd → ZInv s' Pd

theorem iz_all (E : Env α) : ∀ f, IZ E f := by
  intro f
  induction f with
  | zero =>
    refine ⟨?_, ?_, ?_, ?_⟩
    · intro s S s' Pd h; simp [initNT] at h
    · intro s S rs s' Pd h; simp [initRules] at h
    · intro s args s' Pd h; simp [initDer] at h
    · intro s as c s' c' Pd h; simp [initArgs] at h
  | succ f ih =>
    refine ⟨?_, ?_, ?_, ?_⟩
    · intro s S s' Pd h hs
      rw [initNT] at h
      split at h
      · simp at h
      · split at h
        · simp only [Option.some.injEq] at h; subst h; exact hs
        · split at h
          · simp at h
          · split at h
            · simp at h
            · rename_i s2 h2
              have hs2 := ih.rules _ _ _ _ _ h2 (zinv_of_eq (s := s) rfl rfl hs)
              split at h
              · simp only [Option.some.injEq] at h; subst h; exact zinv_of_eq rfl rfl hs2
              · simp at h
    · intro s S rs s' Pd h hs
      cases rs with
      | nil => simp only [initRules, Option.some.injEq] at h; subst h; exact hs
      | cons r rest =>
        obtain ⟨P, args, w⟩ := r
        rw [initRules] at h
        split at h
        · simp at h
        · rename_i s1 base hr
          have hs1 : ZInv s1 Pd := by
            split at hr
            · simp only [Option.some.injEq, Prod.mk.injEq] at hr; rw [← hr.1]; exact hs
            · split at hr
              · simp at hr
              · rename_i s1' hd
                split at hr
                · simp only [Option.some.injEq, Prod.mk.injEq] at hr; rw [← hr.1]; exact ih.der _ _ _ _ hd hs
                · simp at hr
          split at h
          · simp at h
          · exact ih.rules _ _ _ _ _ h (zinv_of_eq (s := s1) rfl rfl hs1)
    · -- `_init_derivation_`
      intro s args s' Pd h hs
      rw [initDer] at h
      split at h
      · simp at h
      · rename_i cl hcl
        split at h
        · simp only [Option.some.injEq] at h; subst h; exact hs
        · rename_i hlen
          have hcl0 : cl = [] := by
            cases cl with
            | nil => rfl
            | cons _ _ => simp at hlen
          subst hcl0
          have hnotPd : args ∉ Pd := by
            intro hm
            obtain ⟨cl', h1, h2⟩ := hs.2 args hm
            rw [hcl] at h1; simp only [Option.some.injEq] at h1; exact h2 h1.symm
          have hsa : ZInv (s.setCostDer args [E.A.big]) (args :: Pd) := by
            refine ⟨?_, ?_⟩
            · intro a q hq
              obtain ⟨w, c⟩ := hs.1 a q hq
              refine ⟨w, ?_⟩
              by_cases he : a = args
              · subst he
                rcases c with c | ⟨_, _, cl', c3, c4⟩
                · exact Or.inl c
                · rw [hcl] at c3; simp only [Option.some.injEq] at c3; exact absurd c3.symm c4
              · rcases c with c | ⟨c1, c2, cl', c3, c4⟩
                · exact Or.inl c
                · refine Or.inr ⟨c1, ?_, cl', ?_, c4⟩
                  · simp only [List.mem_cons, not_or]; exact ⟨he, c2⟩
                  · simp only [St.setCostDer]; rw [AList.lookup_insert_ne _ _ he]; exact c3
            · intro a ha
              rcases List.mem_cons.mp ha with h1 | h1
              · subst h1
                exact ⟨[E.A.big], by simp [St.setCostDer, AList.lookup_insert_self], by simp⟩
              · obtain ⟨cl', c3, c4⟩ := hs.2 a h1
                have he : a ≠ args := fun he => hnotPd (he ▸ h1)
                exact ⟨cl', by simp only [St.setCostDer]; rw [AList.lookup_insert_ne _ _ he]; exact c3, c4⟩
          split at h
          · simp at h
          · rename_i s2 cost ha
            have hs2 := ih.args _ _ _ _ _ _ ha hsa
            split at h
            · simp at h
            · rename_i q hq
              split at h
              · simp at h
              · rename_i q1 hpush
                split at h
                · simp at h
                · rename_i q2 hupd
                  split at h
                  · rename_i pk cl2 hpk hcl2
                    simp only [Option.some.injEq] at h; subst h
                    obtain ⟨hwf, hc⟩ := hs2.1 args q hq
                    have hc0 : q.contents = [] := by
                      rcases hc with hc | ⟨_, c2, _⟩
                      · exact hc
                      · exact absurd List.mem_cons_self c2
                    obtain ⟨hwf1, _, hperm, _⟩ := qwf_push E.A q q1 _ E.asserts hwf hpush
                    have hc1 : q1.contents = [zeros args] := by
                      rw [hc0] at hperm
                      have : q1.contents = [List.replicate args.length 0] := List.perm_singleton.mp (by simpa using hperm)
                      exact this
                    obtain ⟨hwf2, hc2⟩ := qwf_update E.A q1 q2 hwf1 hupd
                    obtain ⟨cl2', e1, e2⟩ := hs2.2 args List.mem_cons_self
                    rw [hcl2] at e1; simp only [Option.some.injEq] at e1; subst e1
                    refine ⟨?_, ?_⟩
                    · intro a qa hqa
                      simp only [St.setCostDer, St.setQueueDer] at hqa ⊢
                      rw [AList.lookup_insert] at hqa
                      split at hqa
                      · rename_i he
                        simp only [Option.some.injEq] at hqa; subst hqa; subst he
                        exact ⟨hwf2, Or.inr ⟨by rw [hc2, hc1], hnotPd, cl2.set 0 pk.cost, AList.lookup_insert_self _ _ _,
                          set_ne_nil _ e2⟩⟩
                      · rename_i he
                        obtain ⟨w, c⟩ := hs2.1 a qa hqa
                        refine ⟨w, ?_⟩
                        rcases c with c | ⟨c1, c2, cl', c3, c4⟩
                        · exact Or.inl c
                        · refine Or.inr ⟨c1, fun hm => c2 (List.mem_cons_of_mem _ hm), cl', ?_, c4⟩
                          rw [AList.lookup_insert_ne _ _ he]; exact c3
                    · intro a ha
                      obtain ⟨cl', c3, c4⟩ := hs2.2 a (List.mem_cons_of_mem _ ha)
                      have he : a ≠ args := fun he => hnotPd (he ▸ ha)
                      exact ⟨cl', by simp only [St.setCostDer, St.setQueueDer]; rw [AList.lookup_insert_ne _ _ he]; exact c3, c4⟩
                  · simp at h
    · intro s as c s' c' Pd h hs
      cases as with
      | nil => simp only [initArgs, Option.some.injEq, Prod.mk.injEq] at h; rw [← h.1]; exact hs
      | cons Si rest =>
        rw [initArgs] at h
        split at h
        · simp at h
        · rename_i s1 h1
          split at h
          · exact ih.args _ _ _ _ _ _ h (ih.nt _ _ _ _ h1 hs)
          · simp at h

/-! ### `_reevaluate_` and `__compute_bounds__` -/

theorem reevalDer_zinv (A : Arith α) (b : Bool) {s s' : St α} {args : List NT} (h : reevalDer A b s args = some s')
    (hs : ZInv s []) : ZInv s' [] := by
  unfold reevalDer at h
  split at h
  · simp only [Option.some.injEq] at h; subst h; exact hs
  · split at h
    · simp at h
    · rename_i q hq
      obtain ⟨hwf, hc⟩ := hs.1 args q hq
      split at h
      · simp at h
      · rename_i popped q1 hpa
        obtain ⟨hq1, hperm⟩ := popAll_perm _ q [] popped q1 hwf hpa
        simp only at h
        split at h
        · simp at h
        · rename_i elems he
          have hel : elems.flatMap (·.combs) = popped.flatMap (·.combs) := by
            split at he
            · rename_i hemp
              simp only [Option.some.injEq] at he; subst he
              have : popped = [] := by simpa using hemp
              subst this; rfl
            · split at he
              · simp at he
              · simp only [Option.some.injEq] at he; subst he
                simp [List.flatMap_map]
          split at h
          · simp at h
          · rename_i q2 hpu
            obtain ⟨hq2, hp2⟩ := pushAll_perm A b _ _ q2 (qwf_clear q1 hq1).1 hpu
            have hp3 : q2.contents.Perm (popped.flatMap (·.combs)) := by
              refine hp2.trans ?_
              have e0 : q1.clear.contents = [] := by simp [Q.contents, (qwf_clear q1 hq1).2]
              rw [e0, List.nil_append, ← hel]
              exact ((List.reverse_perm _).trans (sortCT_perm A elems)).flatMap_right _
            have hC : q.contents = [] ∨ q.contents = [zeros args] := by
              rcases hc with hc | hc
              · exact Or.inl hc
              · exact Or.inr hc.1
            have hX := small_part (by simpa using hperm) hC
            have hq2c := small_perm hp3 hX
            split at h
            · rename_i pk cl hpk hcl
              split at h
              · simp at h
              · rename_i hemp
                simp only [Option.some.injEq] at h; subst h
                have hne : cl ≠ [] := by intro h0; subst h0; simp at hemp
                refine zinv_requeue pk.cost hs hq hq2 ?_ hcl hne
                rcases hq2c with h1 | h1
                · exact Or.inl h1
                · refine Or.inr ⟨h1, ?_⟩
                  rcases hC with h2 | h2
                  · exfalso
                    rw [h2] at hperm
                    have := hperm.eq_nil
                    simp only [List.flatMap_nil, List.nil_append, List.append_eq_nil_iff] at this
                    rw [this.1] at hp3
                    rw [hp3.eq_nil] at h1
                    simp at h1
                  · exact h2
            · simp at h

theorem reevalDers_zinv (A : Arith α) (b : Bool) : ∀ (rs : List (Sym × (List NT × Int))) (s s' : St α),
    reevalDers A b rs s = some s' → ZInv s [] → ZInv s' []
  | [], s, s', h, hs => by simp only [reevalDers, Option.some.injEq] at h; subst h; exact hs
  | (_, (args, _)) :: rest, s, s', h, hs => by
    rw [reevalDers] at h
    split at h
    · simp at h
    · rename_i s1 h1
      exact reevalDers_zinv A b rest s1 s' h (reevalDer_zinv A b h1 hs)

theorem reevalPass_zinv {E : Env α} : ∀ (rs : List (NT × AList Sym (List NT × Int))) (s : St α) (ch : Bool) (s' : St α) (ch' : Bool),
    reevalPass E rs s ch = some (s', ch') → ZInv s [] → ZInv s' []
  | [], s, ch, s', ch', h, hs => by
    simp only [reevalPass, Option.some.injEq, Prod.mk.injEq] at h; rw [← h.1]; exact hs
  | (S, rs) :: rest, s, ch, s', ch', h, hs => by
    rw [reevalPass] at h
    split at h
    · simp at h
    · rename_i s1 h1
      have hs1 := reevalDers_zinv _ _ _ _ _ h1 hs
      split at h
      · simp at h
      · split at h
        · simp at h
        · split at h
          · exact reevalPass_zinv rest s1 ch s' ch' h hs1
          · simp only at h
            split at h
            · split at h
              · simp at h
              · exact reevalPass_zinv rest _ true s' ch' h (zinv_of_eq (s := s1) rfl rfl hs1)
            · simp at h

theorem reevaluate_zinv {E : Env α} : ∀ (f : Nat) (s s' : St α), reevaluate E f s = some s' → ZInv s [] → ZInv s' [] := by
  intro f
  induction f with
  | zero => intro s s' h; simp [reevaluate] at h
  | succ f ih =>
    intro s s' h hs
    rw [reevaluate] at h
    split at h
    · simp at h
    · rename_i s1 h1
      exact ih _ _ h (reevalPass_zinv _ _ _ _ _ h1 hs)
    · rename_i s1 h1
      simp only [Option.some.injEq] at h; subst h
      exact reevalPass_zinv _ _ _ _ _ h1 hs

theorem rebuildQueues_zinv (A : Arith α) (b : Bool) (values : AList NT Int) : ∀ (keys : List (List NT)) (s s' : St α),
    rebuildQueues A b values keys s = some s' → ZInv s [] → ZInv s' []
  | [], s, s', h, hs => by simp only [rebuildQueues, Option.some.injEq] at h; subst h; exact hs
  | arg :: rest, s, s', h, hs => by
    rw [rebuildQueues] at h
    split at h
    · simp at h
    · rename_i q hq
      obtain ⟨hwf, hc⟩ := hs.1 arg q hq
      split at h
      · rename_i elems qx mv hpa _
        simp only at h
        split at h
        · simp at h
        · rename_i q0 hnew
          split at h
          · simp at h
          · rename_i q1 hpu
            split at h
            · simp at h
            · obtain ⟨_, hperm⟩ := popAll_perm _ q [] elems qx hwf hpa
              obtain ⟨hq0, ht0⟩ := qwf_new A _ _ q0 hnew
              obtain ⟨hq1, hp1⟩ := pushAll_perm A b _ _ q1 hq0 hpu
              have hp3 : q1.contents.Perm (elems.flatMap (·.combs)) := by
                refine hp1.trans ?_
                have e0 : q0.contents = [] := by simp [Q.contents, ht0]
                rw [e0, List.nil_append]
                exact (sortCT_perm A elems).flatMap_right _
              have hC : q.contents = [] ∨ q.contents = [zeros arg] := by
                rcases hc with hc | hc
                · exact Or.inl hc
                · exact Or.inr hc.1
              have hX := small_part (by simpa using hperm) hC
              have hq1c := small_perm hp3 hX
              refine rebuildQueues_zinv A b values rest _ s' h ⟨?_, fun a ha => by simp at ha⟩
              intro a qa hqa
              simp only [St.setQueueDer] at hqa ⊢
              rw [AList.lookup_insert] at hqa
              split at hqa
              · rename_i he
                simp only [Option.some.injEq] at hqa; subst hqa; subst he
                refine ⟨hq1, ?_⟩
                rcases hq1c with h1 | h1
                · exact Or.inl h1
                · refine Or.inr ⟨h1, by simp, ?_⟩
                  rcases hc with h2 | ⟨_, _, h3⟩
                  · exfalso
                    rw [h2] at hperm
                    have := hperm.eq_nil
                    simp only [List.flatMap_nil, List.nil_append, List.append_eq_nil_iff] at this
                    rw [this.1] at hp3
                    rw [hp3.eq_nil] at h1
                    simp at h1
                  · exact h3
              · exact hs.1 a qa hqa
      · simp at h

theorem prologue_zinv (E : Env α) (fuel : Nat) (s s' : St α) (h : prologue E fuel s = some s') (hs : ZInv s []) : ZInv s' [] := by
  unfold prologue at h
  split at h
  · simp at h
  · rename_i s1 h1
    split at h
    · simp at h
    · rename_i s2 h2
      have a := reevaluate_zinv _ _ _ h2 ((iz_all E fuel).nt _ _ _ _ h1 hs)
      unfold computeBounds at h
      split at h
      · simp at h
      · split at h
        · simp at h
        · exact rebuildQueues_zinv _ _ _ _ _ _ h a

/-! ### `__init__` -/

def QEmpty (s : St α) : Prop := ∀ a q, AList.lookup a s.queueDer = some q → QWF q ∧ q.contents = []

theorem initDerTables_qempty (A : Arith α) (M : Int) (k : Nat) : ∀ (rs : List (Sym × (List NT × Int))) (s s' : St α),
    initDerTables A M k rs s = some s' → QEmpty s → QEmpty s'
  | [], s, s', h, hs => by simp only [initDerTables, Option.some.injEq] at h; subst h; exact hs
  | (_, (args, _)) :: rest, s, s', h, hs => by
    rw [initDerTables] at h
    split at h
    · exact initDerTables_qempty A M k rest s s' h hs
    · split at h
      · simp at h
      · rename_i q hq
        refine initDerTables_qempty A M k rest _ s' h ?_
        intro a q2 hq2
        simp only at hq2
        rw [AList.lookup_insert] at hq2
        split at hq2
        · simp only [Option.some.injEq] at hq2; subst hq2
          obtain ⟨h1, h2⟩ := qwf_new A M k _ hq
          exact ⟨h1, by simp [Q.contents, h2]⟩
        · exact hs a q2 hq2

theorem initTables_qempty (A : Arith α) (M : Int) (k : Nat) : ∀ (rs : List (NT × AList Sym (List NT × Int))) (s s' : St α),
    initTables A M k rs s = some s' → QEmpty s → QEmpty s'
  | [], s, s', h, hs => by simp only [initTables, Option.some.injEq] at h; subst h; exact hs
  | (S, rs) :: rest, s, s', h, hs => by
    rw [initTables] at h
    split at h
    · simp at h
    · rename_i s2 h2
      exact initTables_qempty A M k rest s2 s' h (initDerTables_qempty A M k rs _ s2 h2 (fun a q hq => hs a q hq))

theorem init_zinv (E : Env α) (s : St α) (h : St.init E = some s) : ZInv s [] := by
  unfold St.init at h
  split at h
  · simp at h
  · have hq := initTables_qempty _ _ _ _ _ _ h (by intro a q hq; simp at hq)
    exact ⟨fun a q hl => ⟨(hq a q hl).1, Or.inl (hq a q hl).2⟩, fun a ha => by simp at ha⟩

theorem tinv2_of_zinv {E : Env α} {s : St α} (hS : SInv E s) (hE : BanksEmpty s) (hZ : ZInv s []) : TInv2 s noT := by
  intro args
  have hP : PossD s.bankDer args [] :=
    ⟨fun b c l hb hl => by rw [hE.2 args b hb] at hl; simp at hl,
     fun c c' ps hp _ => absurd hp (not_possAt_of_empty hE args c ps),
     fun c ps hp => absurd hp (not_possAt_of_empty hE args c ps)⟩
  refine ⟨fun q hq => (hS.2.2 args q hq).1, ?_, [], ?_, hP⟩
  · intro t ht
    simp only [noT, List.append_nil] at ht
    cases hq : AList.lookup args s.queueDer with
    | none => simp [contentsOf, hq] at ht
    | some q =>
      rw [contentsOf_some hq] at ht
      exact (hS.2.2 args q hq).2 t ht
  · simp only [noT, List.append_nil]
    cases hq : AList.lookup args s.queueDer with
    | none => simp only [contentsOf, hq]; exact frontInv_nil
    | some q =>
      rw [contentsOf_some hq]
      rcases (hZ.1 args q hq).2 with h1 | h1
      · rw [h1]; exact frontInv_nil
      · rw [h1.1]; exact front_init _

/-- **the state the prologue produces from a new enumerator satisfies the joint frontier/pools invariant**: no
    hypothesis on the post-prologue state is needed -/
theorem prologue_tinv2 (E : Env α) (fuel : Nat) (g : Gen α) (hnew : Gen.new E = some g) (s : St α)
    (hp : prologue E fuel g.st = some s) (hS : SInv E s) (hE : BanksEmpty s) : TInv2 s noT := by
  have hz : ZInv g.st [] := by
    unfold Gen.new at hnew
    cases hi : St.init E with
    | none => simp [hi] at hnew
    | some s0 =>
      simp only [hi, Option.map_some, Option.some.injEq] at hnew
      subst hnew
      exact init_zinv E s0 hi
  exact tinv2_of_zinv hS hE (prologue_zinv E fuel _ _ hp hz)

end PS.CD
